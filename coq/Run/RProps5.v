(* Shutdown (C13): every job receives co_shutdown() exactly once, when its scheduler's run ends,
   never while a sibling is still running, in bounded time.  Level 3. *)
From AJ Require Import Common.Util Run.RModel Run.RFacts Run.RFacts2 Run.RInv Run.RInv3 Run.RInv4 Run.RInv5
  Run.RMon Run.RProps3 Run.RWin Run.RProps4 Run.RShut1 Run.RShut2 Run.RTime.

Definition hrank (x : hstat) : nat :=
  match x with HNone => 0 | HCreated => 1 | HRunning => 2 | HDone | HCancelled => 3 end.

(* ---------- exactly once: the life of a handler only moves forward ---------- *)

Theorem handler_rank_mono lvl c h s e s' x : wf c = true -> 3 <= lvl -> Reach lvl c h s ->
  step lvl c s e = Some s' -> x <> 0 -> hrank (hs (Hd s x)) <= hrank (hs (Hd s' x)).
Proof.
  intros W Hl Hr Hs Hx0. destruct (InvE_reach lvl c h s W Hl Hr) as [ID I8].
  pose proof (HS_effect lvl c s e s' W (ic_1 c s (id_c c s ID)) Hl Hs) as HS.
  destruct (hd_view c s s' x W I8 HS) as [H|n1 H1 H2 H3 H4|H1 H2 H3 H4|H1 H2 H3 H4 H5|H1 H2 H3 H4 H5 H6|v H1 H2].
  - rewrite H. lia.
  - rewrite (k_none c s I8 n1 x H1 H2), H4. cbn. lia.
  - rewrite H1. lia.
  - destruct H2 as [[G _]|(_ & _ & G & _)]; [|contradiction]. rewrite G.
    destruct H5 as [[E _]|[E _]]; rewrite E; cbn; lia.
  - rewrite H1. destruct H6 as [E|E]; rewrite E; cbn; lia.
  - rewrite H1. destruct H2 as [(_ & G & _ & ->)|[(_ & G & _ & ->)|[(_ & G & _ & ->)|(_ & G & _ & ->)]]];
      rewrite G; cbn; lia.
Qed.

(* once a handler has started, it is never "created" again: co_shutdown() is sent at most once *)
Lemma started_rank lvl c h s x : wf c = true -> 3 <= lvl -> Reach lvl c h s -> x <> 0 ->
  (In (EHStart x) h \/ exists o, In (ESdStart x o) h) -> 2 <= hrank (hs (Hd s x)).
Proof.
  intros W Hl Hr Hx0. revert h s Hr. apply (reach_ind lvl c (fun h s => (In (EHStart x) h \/ exists o, In (ESdStart x o) h) -> 2 <= hrank (hs (Hd s x)))).
  - intros [[]|[o []]].
  - intros h s e s' Hr IH Hs Hin.
    assert (Hold : (In (EHStart x) h \/ exists o, In (ESdStart x o) h) -> 2 <= hrank (hs (Hd s' x))).
    { intros H. specialize (IH H). pose proof (handler_rank_mono lvl c h s e s' x W Hl Hr Hs Hx0). lia. }
    destruct Hin as [Hin|[o Hin]]; apply in_app_or in Hin; destruct Hin as [Hin|[He|[]]]; try subst e.
    + apply Hold. left. exact Hin.
    + destruct (step_inv _ _ _ _ _ Hs) as [-> _]. cbn [reaction fst Hd setH]. rewrite upd_same. cbn. lia.
    + apply Hold. right. exists o. exact Hin.
    + destruct (step_inv _ _ _ _ _ Hs) as [-> _]. cbn [reaction fst].
      pose proof (HS_react_sdstart c x s W) as H. cbn zeta in H. destruct H as (_ & _ & _ & H).
      rewrite H, Nat.eqb_refl. destruct (did (Sd s x)); [cbn; lia|]. destruct (members c x); cbn; lia.
Qed.

Theorem shutdown_once lvl c h s x : wf c = true -> 3 <= lvl -> x <> 0 ->
  (Reach lvl c (h ++ [EHStart x]) s -> ~ In (EHStart x) h) /\
  (forall o, Reach lvl c (h ++ [ESdStart x o]) s -> forall o', ~ In (ESdStart x o') h).
Proof.
  intros W Hl Hx0. split.
  - intros Hr Hin. unfold Reach in Hr. rewrite run_app in Hr.
    destruct (run lvl c init h) as [s1|] eqn:E; [|discriminate]. cbn [run] in Hr.
    destruct (step lvl c s1 (EHStart x)) as [s2|] eqn:Es; [|discriminate].
    pose proof (started_rank lvl c h s1 x W Hl E Hx0 (or_introl Hin)) as Hrk.
    apply step_inv in Es. destruct Es as [_ Hg]. cbn [forallb guards] in Hg.
    apply andb_true_iff in Hg. destruct Hg as [_ Hg]. apply andb_true_iff in Hg. destruct Hg as [G _].
    rewrite holds3 in G by lia. destruct (hs (Hd s1 x)); try discriminate. cbn in Hrk. lia.
  - intros o Hr o' Hin. unfold Reach in Hr. rewrite run_app in Hr.
    destruct (run lvl c init h) as [s1|] eqn:E; [|discriminate]. cbn [run] in Hr.
    destruct (step lvl c s1 (ESdStart x o)) as [s2|] eqn:Es; [|discriminate].
    assert (Hin' : In (EHStart x) h \/ exists o0, In (ESdStart x o0) h) by (right; exists o'; exact Hin).
    pose proof (started_rank lvl c h s1 x W Hl E Hx0 Hin') as Hrk.
    apply step_inv in Es. destruct Es as [_ Hg]. cbn [forallb guards app outs_guards] in Hg.
    apply andb_true_iff in Hg. destruct Hg as [_ Hg]. apply andb_true_iff in Hg. destruct Hg as [G _].
    rewrite holds3 in G by lia. destruct (hs (Hd s1 x)) eqn:Eh; try discriminate; cbn in Hrk; try lia.
    + apply andb_true_iff in G. destruct G as [G _]. apply rootb_true in G. contradiction.
    + apply andb_true_iff in G. destruct G as [G _]. apply rootb_true in G. contradiction.
Qed.

(* ---------- never while a job of the same scheduler is still running ---------- *)

Definition sibs_quiet (c : cfg) (s : state) (x : nat) : bool :=
  forallb (fun y => negb (live (st (Jb s y)))) (members c (parent c x)).

Definition chk13_start (c : cfg) (s : state) (e : event) : bool :=
  match e with
  | EHStart j => match hs (Hd s j) with HCreated => sibs_quiet c s j | _ => false end
  | ESdStart n _ => rootb n || match hs (Hd s n) with HCreated => sibs_quiet c s n | _ => false end
  | _ => true
  end.

Lemma created_sibs_quiet c s x : wf c = true -> InvE c s -> x <> 0 -> x < njobs c ->
  hs (Hd s x) = HCreated -> sibs_quiet c s x = true.
Proof.
  intros W [ID I8] Hx0 Hx Hc.
  assert (Hh : hs (Hd s x) <> HNone) by (rewrite Hc; discriminate).
  destruct (handler_quiet c s x W ID I8 Hx0 Hx Hh) as (Hd & _).
  unfold sibs_quiet. apply forallb_forall. intros y Hy. apply negb_true_iff.
  apply (did_quiet c s (parent c x) y W ID I8 Hd Hy).
Qed.

Theorem chk13_start_holds lvl c h0 s e s' : wf c = true -> 3 <= lvl ->
  Reach lvl c h0 s -> step lvl c s e = Some s' -> chk13_start c s e = true.
Proof.
  intros W Hl Hr Hs. pose proof (InvE_reach lvl c h0 s W Hl Hr) as IE.
  apply step_inv in Hs. destruct Hs as [_ Hg].
  destruct e as [n o|n k d o|n k o|n o|j|j oc|j|j|j|j|j|j|j|j|t|t|jv sv]; try reflexivity; cbn [chk13_start].
  - cbn [forallb guards app outs_guards] in Hg.
    apply andb_true_iff in Hg. destruct Hg as [G1 Hg]. apply andb_true_iff in Hg. destruct Hg as [G2 _].
    rewrite holds_0 in G1. rewrite holds3 in G2 by lia.
    destruct (rootb n) eqn:Er; [reflexivity|]. cbn [orb]. apply rootb_false in Er.
    destruct (hs (Hd s n)) eqn:Eh; try (rewrite andb_false_l in G2; discriminate); try discriminate.
    unfold sched_id in G1. apply andb_true_iff in G1. destruct G1 as [_ G1]. apply Nat.ltb_lt in G1.
    apply (created_sibs_quiet c s n W IE Er G1 Eh).
  - cbn [forallb guards] in Hg.
    apply andb_true_iff in Hg. destruct Hg as [G1 Hg]. apply andb_true_iff in Hg. destruct Hg as [G2 _].
    rewrite holds_0 in G1. rewrite holds3 in G2 by lia.
    destruct (atomic_id_spec _ _ G1) as (_ & A2 & A3).
    destruct (hs (Hd s j)) eqn:Eh; try discriminate.
    apply (created_sibs_quiet c s j W IE A3 A2 Eh).
Qed.

(* ---------- complete: when the broadcast of n is over, every handler below n is finished ---------- *)

Lemma over_below_fin c s : wf c = true -> Inv8 c s ->
  forall fuel n x, sp (Sd s n) = SdOver -> x < njobs c -> below_fuel fuel c n x = true -> hfin s x = true.
Proof.
  intros W I8. induction fuel as [|f IH]; intros n x Ho Hx Hb; [discriminate|].
  cbn [below_fuel] in Hb. apply andb_true_iff in Hb. destruct Hb as [Hx0 Hb].
  apply negb_true_iff, Nat.eqb_neq in Hx0.
  apply orb_true_iff in Hb. destruct Hb as [Hp|Hb].
  - apply Nat.eqb_eq in Hp. apply (k_over8 c s I8 n x Ho). apply In_members. auto.
  - destruct (wf_parent c x W Hx Hx0) as [Hlt Hsch].
    assert (Hy : parent c x < njobs c) by lia.
    pose proof (IH n (parent c x) Ho Hy Hb) as Hfy.
    assert (Hy0 : parent c x <> 0).
    { destruct f; [discriminate|]. cbn [below_fuel] in Hb. apply andb_true_iff in Hb. destruct Hb as [Hb _].
      apply negb_true_iff, Nat.eqb_neq in Hb. exact Hb. }
    pose proof (k_nest c s I8 (parent c x) Hy0 Hsch Hfy) as Hoy.
    apply (k_over8 c s I8 (parent c x) x Hoy). apply In_members. auto.
Qed.

Theorem shutdown_complete lvl c h s n x : wf c = true -> 3 <= lvl -> Reach lvl c h s ->
  sp (Sd s n) = SdOver -> x < njobs c -> below c n x = true -> hfin s x = true.
Proof.
  intros W Hl Hr Ho Hx Hb. destruct (InvE_reach lvl c h s W Hl Hr) as [_ I8].
  apply (over_below_fin c s W I8 (S x) n x Ho Hx Hb).
Qed.

(* the end of an inline shutdown is the end of the broadcast *)
Theorem inline_end_over lvl c h s e s' n : wf c = true -> 3 <= lvl -> Reach lvl c h s ->
  step lvl c s e = Some s' -> sd_inline s n = true -> sd_inline s' n = false ->
  ph (Rn s' n) = POver /\ sp (Sd s' n) = SdOver.
Proof.
  intros W Hl Hr Hs Hi Hi'. destruct (InvE_reach lvl c h s W Hl Hr) as [ID I8].
  pose proof (HS_effect lvl c s e s' W (ic_1 c s (id_c c s ID)) Hl Hs) as HS.
  destruct HS as [hA hB hC|n0 hSch hRa hPh hI hO hA hB hN|n0 hSch hG hO hB hA hN|n0 hSp hF hTh hB hO hX hN
                 |n0 p0 hSp hP0 hP hDl hSt hTh hB hO hA hN|n0 hSp hF hTh hB hO hX hN|n0 hSp hSt hTh hB hO hA hN
                 |j0 v0 hA hB hO hN hV].
  - rewrite hC in Hi'. congruence.
  - destruct (Nat.eqb_spec n n0) as [->|Hm]; [congruence|].
    rewrite (sd_inline_ph s s' n (hO n Hm)) in Hi'. congruence.
  - rewrite (sd_inline_ph s s' n (hO n)) in Hi'. congruence.
  - destruct (Nat.eqb_spec n n0) as [->|Hm]; [|rewrite (sd_inline_ph s s' n (hO n Hm)) in Hi'; congruence].
    rewrite Hi in hX. destruct hX as [hX _]. split; [exact hX|]. rewrite hB, Nat.eqb_refl. reflexivity.
  - rewrite (sd_inline_ph s s' n (hO n)) in Hi'. congruence.
  - destruct (Nat.eqb_spec n n0) as [->|Hm]; [|rewrite (sd_inline_ph s s' n (hO n Hm)) in Hi'; congruence].
    rewrite Hi in hX. destruct hX as [hX _]. split; [exact hX|]. rewrite hB, Nat.eqb_refl. reflexivity.
  - rewrite (sd_inline_ph s s' n (hO n)) in Hi'. congruence.
  - rewrite (sd_inline_ph s s' n (hO n)) in Hi'. congruence.
Qed.

Definition below_fin (c : cfg) (s : state) (n : nat) : bool :=
  forallb (fun x => negb (below c n x) || hfin s x) (all_ids c).

(* at the end of every inline shutdown (i.e. of every run that ends through one of the three exit
   paths), every handler below is finished *)
Definition chk13_all (c : cfg) (s : state) (e : event) : bool :=
  let s' := fst (reaction c s e) in
  forallb (fun n => negb (sd_inline s n) || sd_inline s' n || below_fin c s' n) (scheds c).

Theorem chk13_all_holds lvl c h0 s e s' : wf c = true -> 3 <= lvl ->
  Reach lvl c h0 s -> step lvl c s e = Some s' -> chk13_all c s e = true.
Proof.
  intros W Hl Hr Hs. unfold chk13_all. destruct (step_inv _ _ _ _ _ Hs) as [Es' _]. rewrite <- Es'.
  apply forallb_forall. intros n Hn.
  destruct (sd_inline s n) eqn:Hi; [|reflexivity]. destruct (sd_inline s' n) eqn:Hi'; [reflexivity|]. cbn [negb orb].
  destruct (inline_end_over lvl c h0 s e s' n W Hl Hr Hs Hi Hi') as [_ Ho].
  pose proof (reach_snoc _ _ _ _ _ _ Hr Hs) as Hr'.
  unfold below_fin. apply forallb_forall. intros x Hx. apply In_all_ids in Hx.
  destruct (below c n x) eqn:Hb; [|reflexivity]. cbn [negb orb].
  apply (shutdown_complete lvl c _ s' n x W Hl Hr' Ho Hx Hb).
Qed.

(* ---------- bounded: the shutdown wait never lasts beyond shutdown_timeout ---------- *)

Definition chk13_time (c : cfg) (s : state) (e : event) : bool :=
  match e with
  | EWake n KShut p _ =>
      match sdl (Sd s n) with
      | Some d => N.leb (now s) d && match p with [] => true | _ => N.eqb (now s) d end
      | None => match p with [] => true | _ => false end
      end
  | _ => true
  end.

Theorem chk13_time_holds lvl c h0 s e s' : wf c = true -> 3 <= lvl ->
  Reach lvl c h0 s -> step lvl c s e = Some s' -> chk13_time c s e = true.
Proof.
  intros W Hl Hr Hs. pose proof (InvT3_reach lvl c h0 s W Hl Hr) as IT.
  apply step_inv in Hs. destruct Hs as [_ Hg]. destruct e as [| n k p o | | | | | | | | | | | | | | |]; try reflexivity.
  destruct k; try reflexivity. cbn [chk13_time].
  cbn [forallb guards app outs_guards] in Hg.
  apply andb_true_iff in Hg. destruct Hg as [G1 Hg]. apply andb_true_iff in Hg. destruct Hg as [G2 Hg].
  apply andb_true_iff in Hg. destruct Hg as [G3 Hg]. apply andb_true_iff in Hg. destruct Hg as [G4 Hg].
  apply andb_true_iff in Hg. destruct Hg as [G5 _].
  rewrite holds3 in G3, G5 by lia.
  destruct (sp (Sd s n)) eqn:Hsp; try discriminate.
  pose proof (t_sd c s IT n Hsp) as Hd. unfold dl_ok in Hd.
  destruct (sdl (Sd s n)) as [d|] eqn:Ed.
  - apply andb_true_iff. split; [apply N.leb_le; exact Hd|].
    destruct p as [|p0 p']; [reflexivity|]. cbn [opt_le_now] in G5. apply N.leb_le in G5. apply N.eqb_eq. lia.
  - destruct p as [|p0 p']; [reflexivity|]. cbn in G5. discriminate.
Qed.

(* ---------- a later explicit shutdown sends nothing more ---------- *)

Theorem second_shutdown_is_empty c n i s : did (Sd s n) = true ->
  shutdown_start c n i s = (s, [OSdBegin n i; OSdEnd n SRNone]).
Proof. intros H. unfold shutdown_start. rewrite H. reflexivity. Qed.

Theorem did_is_forever lvl c h s e s' n : wf c = true -> 3 <= lvl -> Reach lvl c h s ->
  step lvl c s e = Some s' -> did (Sd s n) = true -> did (Sd s' n) = true.
Proof.
  intros W Hl Hr Hs Hd. destruct (InvE_reach lvl c h s W Hl Hr) as [ID I8].
  apply (did_mono c s s' I8 (HS_effect lvl c s e s' W (ic_1 c s (id_c c s ID)) Hl Hs) n Hd).
Qed.

(* the result of co_shutdown(): True iff no handler was pending when the wait returned *)
Theorem shutdown_result c n p s :
  (p = [] -> exists r, snd (fst (react_shut_wake c n p s)) = Some r /\ r = SRTrue) /\
  (p <> [] -> snd (fst (react_shut_wake c n p s)) = None).
Proof.
  unfold react_shut_wake. split.
  - intros ->. exists SRTrue. auto.
  - intros H. destruct p; [contradiction|reflexivity].
Qed.

(* ---------- monitor ---------- *)

Definition chk13 (c : cfg) (s : state) (e : event) : bool :=
  chk13_start c s e && chk13_all c s e && chk13_time c s e.

Theorem chk13_holds lvl c h0 s e s' : wf c = true -> 3 <= lvl ->
  Reach lvl c h0 s -> step lvl c s e = Some s' -> chk13 c s e = true.
Proof.
  intros W Hl Hr Hs. unfold chk13.
  rewrite (chk13_start_holds lvl c h0 s e s' W Hl Hr Hs), (chk13_all_holds lvl c h0 s e s' W Hl Hr Hs),
    (chk13_time_holds lvl c h0 s e s' W Hl Hr Hs). reflexivity.
Qed.

Theorem chk13_monitor lvl c h : wf c = true -> 3 <= lvl -> accept lvl c h = true -> mon_ok chk13 c h = true.
Proof. intros W Hl. apply mon_sound. intros h0 s e s' Hr Hs. eapply chk13_holds; eauto. Qed.

(* a handler is never cancelled before it has started: every job below a finished broadcast has
   actually received co_shutdown() (its handler ran: HDone, or was cancelled while running) *)
Theorem handler_never_gone lvl c h s j s' : wf c = true -> 3 <= lvl -> Reach lvl c h s ->
  step lvl c s (EHGone j) = Some s' -> False.
Proof.
  intros W Hl Hr Hs. destruct (InvE_reach lvl c h s W Hl Hr) as [_ I8].
  apply step_inv in Hs. destruct Hs as [_ Hg]. cbn [forallb guards] in Hg.
  apply andb_true_iff in Hg. destruct Hg as [_ Hg]. apply andb_true_iff in Hg. destruct Hg as [G _].
  rewrite holds3 in G by lia. destruct (hs (Hd s j)) eqn:E; try discriminate.
  rewrite (k_fifo c s I8 j E) in G. discriminate.
Qed.
