(* What each reaction does to the run component Rn. *)
From AJ Require Import Common.Util Run.RModel Run.RFacts.

(* number of jobs of a list that are not forever *)
Definition nonforever (c : cfg) (l : list nat) : nat :=
  length (filter (fun j => negb (j_forever (jc c j))) l).
Definition nfinite (c : cfg) (n : nat) : nat := nonforever c (members c n).
Definition crit_exc (c : cfg) (s : state) (j : nat) : bool := j_crit (jc c j) && is_exc (st (Jb s j)).

(* the jobs that a main wake reporting d creates *)
Definition eligible (c : cfg) (s : state) (n : nat) (d : list nat) (x : nat) : Prop :=
  In x (members c n) /\ st (Jb s x) = Idle /\ all_done s (reqs c x) = true /\
  exists q, In q (reqs c x) /\ In q d.

(* exact description of what the main wake of scheduler n that reports d does to its run record *)
Definition main_upd (c : cfg) (s s' : state) (n : nat) (d : list nat) : Prop :=
  let r := Rn s n in let r' := Rn s' n in
  seen r' = seen r ++ d /\ rcanc r' = rcanc r /\ (fto r' = fto r /\ fcr r' = fcr r) /\
  ((exists w, (ph r' = PTidy w \/ ph r' = PShut w) /\ pend r' = diff (pend r) d /\
      (ph r' = PShut w -> diff (pend r) d = []) /\
      (forall y, In y (pend r') -> Jb s' y = cancel_j (Jb s y)) /\
      match w with
      | WTimeout => d = [] /\ ndone r' = ndone r
      | WCritical => d <> [] /\ existsb (crit_exc c s) d = true /\ ndone r' = ndone r
      | WSuccess => d <> [] /\ existsb (crit_exc c s) d = false /\
                    ndone r' = ndone r + nonforever c d /\ ndone r' = nfinite c n
      end)
   \/
   (ph r' = PMain /\ d <> [] /\ existsb (crit_exc c s) d = false /\
    ndone r' = ndone r + nonforever c d /\ ndone r' <> nfinite c n /\
    exists new, pend r' = diff (pend r) d ++ new /\ NoDup new /\ (forall x, In x new <-> eligible c s n d x) /\
      (forall x, In x new -> st (Jb s' x) = Created))).

(* an actor step other than a main wake keeps the bookkeeping and follows the phase order *)
Definition kept (s s' : state) (m : nat) : Prop :=
  seen (Rn s' m) = seen (Rn s m) /\ ndone (Rn s' m) = ndone (Rn s m) /\
  (exists f, pend (Rn s' m) = filter f (pend (Rn s m))) /\
  (forall w, ph (Rn s m) = PShut w -> ph (Rn s' m) = PShut w \/ ph (Rn s' m) = POver) /\
  (forall w, ph (Rn s m) = PTidy w -> ph (Rn s' m) = PTidy w \/ ph (Rn s' m) = PShut w \/ ph (Rn s' m) = POver) /\
  (ph (Rn s m) = PMain -> ph (Rn s' m) = PCTidy \/ ph (Rn s' m) = POver) /\
  (ph (Rn s m) = PCTidy -> ph (Rn s' m) = PCTidy \/ ph (Rn s' m) = POver) /\
  ph (Rn s m) <> POver /\
  (rcanc (Rn s m) = true -> rcanc (Rn s' m) = true) /\
  (ph (Rn s m) = PMain -> ph (Rn s' m) <> POver -> forall y, In y (pend (Rn s' m)) ->
     finished (st (Jb s y)) = false /\ Jb s' y = cancel_j (Jb s y)) /\
  (ph (Rn s m) <> PMain -> pend (Rn s' m) = pend (Rn s m)) /\
  (forall y, In y (pend (Rn s m)) -> finished (st (Jb s y)) = false -> In y (pend (Rn s' m))) /\
  (ph (Rn s' m) = POver \/ (exists w, ph (Rn s' m) = PShut w) -> ~ (exists w, ph (Rn s m) = PShut w) ->
   forall y, In y (pend (Rn s m)) -> finished (st (Jb s y)) = true).

Lemma filter_true_id (l : list nat) : l = filter (fun _ => true) l.
Proof. induction l as [|a l IH]; simpl; congruence. Qed.

Lemma kept_over s s' m : ph (Rn s' m) = POver -> seen (Rn s' m) = seen (Rn s m) ->
  ndone (Rn s' m) = ndone (Rn s m) -> pend (Rn s' m) = pend (Rn s m) -> ph (Rn s m) <> POver ->
  rcanc (Rn s' m) = rcanc (Rn s m) ->
  (~ (exists w, ph (Rn s m) = PShut w) -> forall y, In y (pend (Rn s m)) -> finished (st (Jb s y)) = true) ->
  kept s s' m.
Proof.
  intros H1 H2 H3 H4 H5 H6 H7. unfold kept. rewrite H1, H6.
  split; [exact H2|]. split; [exact H3|].
  split; [exists (fun _ => true); rewrite H4; apply filter_true_id|].
  split; [intros w _; right; reflexivity|]. split; [intros w _; right; right; reflexivity|].
  split; [intros _; right; reflexivity|]. split; [intros _; right; reflexivity|].
  split; [exact H5|]. split; [auto|].
  split; [intros _ Hn; exfalso; apply Hn; reflexivity|].
  split; [intros _; exact H4|]. split; [intros y Hy _; rewrite H4; exact Hy|].
  intros _ Hn. apply H7. exact Hn.
Qed.

(* [actor e m]: e is a control event of the run of scheduler m *)
Definition actor (e : event) (m : nat) : Prop :=
  match e with
  | EBegin n _ | EWake n _ _ _ | ECancelled n _ _ => m = n
  | _ => False
  end.

(* the run of m is (still) going on / is over, consistently with m's status as a job *)
Definition run_post (s' : state) (m : nat) : Prop :=
  (st (Jb s' m) = Running /\ ph (Rn s' m) <> POver /\ ph (Rn s' m) <> PIdle) \/
  (finished (st (Jb s' m)) = true /\ ran (Jb s' m) = true /\ ph (Rn s' m) = POver).

(* what a step may do to the run state of scheduler [m]; [act]: m is the acting scheduler *)
Inductive reff (c : cfg) (s s' : state) (m : nat) (act : Prop) : Prop :=
| RE_q : same_but_q (Rn s m) (Rn s' m) ->
         (act -> st (Jb s' m) = st (Jb s m) /\ ran (Jb s' m) = ran (Jb s m)) ->
         reff c s s' m act
| RE_begin :
    act ->
    (if rootb m then ph (Rn s m) = PIdle else st (Jb s m) = Created) ->
    (rootb m = false -> run_post s' m) ->
    (ph (Rn s' m) = PMain \/ ph (Rn s' m) = POver) ->
    (forall y, In y (pend (Rn s' m)) -> In y (members c m) /\ st (Jb s' y) = Created) ->
    NoDup (pend (Rn s' m)) ->
    seen (Rn s' m) = [] -> ndone (Rn s' m) = 0 -> qsz (Rn s' m) = 0 ->
    fto (Rn s' m) = false -> fcr (Rn s' m) = false -> rcanc (Rn s' m) = false ->
    (ph (Rn s' m) = PMain -> forall y, In y (members c m) -> reqs c y = [] -> In y (pend (Rn s' m))) ->
    (ph (Rn s' m) = POver -> pend (Rn s' m) = []) ->
    reff c s s' m act
| RE_actor :
    act ->
    (m <> 0 -> st (Jb s m) = Running) ->
    ph (Rn s m) <> PIdle -> ph (Rn s' m) <> PIdle ->
    (m <> 0 -> run_post s' m) ->
    (forall y, In y (pend (Rn s' m)) -> In y (pend (Rn s m)) \/ In y (members c m)) ->
    (ph (Rn s m) <> PMain -> ph (Rn s' m) <> PMain) ->
    (ph (Rn s' m) = PCTidy \/ rcanc (Rn s' m) = true ->
     (ph (Rn s m) = PCTidy \/ rcanc (Rn s m) = true) \/ cp (Jb s m) = true) ->
    (kept s s' m
     \/ (ph (Rn s m) = PMain /\ exists d, seteqb d (filter (jfin s) (pend (Rn s m))) = true /\ NoDup d /\ main_upd c s s' m d)) ->
    (ph (Rn s' m) <> POver -> fto (Rn s' m) = fto (Rn s m) /\ fcr (Rn s' m) = fcr (Rn s m)) ->
    reff c s s' m act.

Lemma neq_vac (m n : nat) (P : Prop) : m <> n -> m = n -> P.
Proof. intros H E. contradiction. Qed.


Lemma rcanc_end_cancelled c n s :
  rcanc (Rn (fst (end_cancelled c n s)) n) = rcanc (Rn s n).
Proof.
  unfold end_cancelled. cbn [fst].
  pose proof (Rn_job_leave_q c n Cancelled (set_phase s n POver) n) as (_ & _ & _ & _ & _ & _ & _ & _ & H).
  rewrite H, ph_set_phase, Nat.eqb_refl. reflexivity.
Qed.

Lemma rcanc_finish_run c n w r cu s :
  rcanc (Rn (fst (finish_run c n w r cu s)) n) = rcanc (Rn s n).
Proof.
  unfold finish_run. cbn [fst].
  match goal with |- context [job_leave c n ?x ?S0] =>
    pose proof (Rn_job_leave_q c n x S0 n) as (_ & _ & _ & _ & _ & _ & _ & _ & H) end.
  rewrite H, Rn_setR_same. reflexivity.
Qed.

Lemma seen_end_cancelled c n s :
  seen (Rn (fst (end_cancelled c n s)) n) = seen (Rn s n) /\ ndone (Rn (fst (end_cancelled c n s)) n) = ndone (Rn s n).
Proof.
  unfold end_cancelled. cbn [fst].
  pose proof (Rn_job_leave_q c n Cancelled (set_phase s n POver) n) as (_ & _ & H1 & H2 & _).
  rewrite H1, H2, ph_set_phase, Nat.eqb_refl. auto.
Qed.

Lemma seen_finish_run c n w r cu s :
  seen (Rn (fst (finish_run c n w r cu s)) n) = seen (Rn s n) /\ ndone (Rn (fst (finish_run c n w r cu s)) n) = ndone (Rn s n).
Proof.
  unfold finish_run. cbn [fst].
  match goal with |- context [job_leave c n ?x ?S0] =>
    pose proof (Rn_job_leave_q c n x S0 n) as (_ & _ & H1 & H2 & _) end.
  rewrite H1, H2, Rn_setR_same. auto.
Qed.

Lemma cmode_same (s s' : state) (m : nat) (P : Prop) :
  ph (Rn s' m) <> PCTidy -> rcanc (Rn s' m) = rcanc (Rn s m) ->
  ph (Rn s' m) = PCTidy \/ rcanc (Rn s' m) = true ->
  (ph (Rn s m) = PCTidy \/ rcanc (Rn s m) = true) \/ P.
Proof. intros H1 H2 [H|H]; [contradiction|]. left. right. rewrite <- H2. exact H. Qed.

Lemma Rn_exit_main_n c n w p s v :
  Rn (fst (exit_main c n w p (setR s n v))) n =
  mkRst (match p with [] => PShut w | _ => PTidy w end) (pend v) (seen v) (ndone v) (qsz v)
        (expi v) (tbeg v) (fto v) (fcr v) (rcanc v).
Proof. rewrite Rn_exit_main, ph_set_phase, Nat.eqb_refl, Rn_setR_same. reflexivity. Qed.

Lemma react_main_upd c n d s : ph (Rn s n) = PMain -> main_upd c s (fst (react_main c n d s)) n d.
Proof.
  intros HphM. unfold main_upd, react_main. cbn zeta.
  set (r := Rn s n). set (pend' := diff (pend r) d).
  assert (Hex : forall w v, pend v = pend' -> seen v = seen r ++ d ->
     let r' := Rn (fst (exit_main c n w pend' (setR s n v))) n in
     seen r' = seen r ++ d /\ (ph r' = PTidy w \/ ph r' = PShut w) /\ pend r' = pend' /\
     (ph r' = PShut w -> pend' = []) /\ ndone r' = ndone v /\ rcanc r' = rcanc v /\
     (fto r' = fto v /\ fcr r' = fcr v) /\
     (forall y, In y (pend r') -> Jb (fst (exit_main c n w pend' (setR s n v))) y = cancel_j (Jb s y))).
  { intros w v Hv Hs. cbn zeta. rewrite Rn_exit_main_n. cbn [seen ph pend ndone rcanc fto fcr].
    split; [exact Hs|]. split; [destruct pend'; auto|]. split; [exact Hv|].
    split; [destruct pend'; [reflexivity|discriminate]|]. split; [reflexivity|]. split; [reflexivity|].
    split; [split; reflexivity|].
    intros y Hy. rewrite Jb_exit_main, Jb_setR. rewrite Hv in Hy. apply memb_In in Hy. rewrite Hy. reflexivity. }
  destruct d as [|d0 d'] eqn:Ed.
  - match goal with |- context [exit_main c n WTimeout pend' (setR s n ?v)] =>
      destruct (Hex WTimeout v eq_refl eq_refl) as (A & B & C & D & E & F & FL & G) end.
    split; [exact A|]. split; [exact F|]. split; [exact FL|]. left. exists WTimeout. repeat split; auto.
  - rewrite <- Ed in *. assert (Hne : d <> []) by (rewrite Ed; discriminate). clear Ed.
    fold (crit_exc c s).
    change (fun j : nat => j_crit (jc c j) && is_exc (st (Jb s j))) with (crit_exc c s).
    destruct (existsb (crit_exc c s) d) eqn:Ecrit.
    + match goal with |- context [exit_main c n WCritical pend' (setR s n ?v)] =>
        destruct (Hex WCritical v eq_refl eq_refl) as (A & B & C & D & E & F & FL & G) end.
      split; [exact A|]. split; [exact F|]. split; [exact FL|]. left. exists WCritical. repeat split; auto.
    + fold (nonforever c d). fold (nfinite c n).
      change (length (filter (fun j : nat => negb (j_forever (jc c j))) d)) with (nonforever c d).
      change (length (filter (fun j : nat => negb (j_forever (jc c j))) (members c n))) with (nfinite c n).
      destruct (Nat.eqb_spec (ndone r + nonforever c d) (nfinite c n)) as [Ecnt|Ecnt].
      * match goal with |- context [exit_main c n WSuccess pend' (setR s n ?v)] =>
          destruct (Hex WSuccess v eq_refl eq_refl) as (A & B & C & D & E & F & FL & G) end.
        split; [exact A|]. split; [exact F|]. split; [exact FL|]. left. exists WSuccess. repeat split; auto.
        rewrite E. cbn [ndone]. exact Ecnt.
      * cbn [fst]. rewrite Rn_setR_same. cbn [seen ph pend ndone rcanc fto fcr].
        split; [reflexivity|]. split; [reflexivity|]. split; [split; reflexivity|]. right.
        set (cand := filter _ (members c n)). set (new := filter _ cand).
        split; [exact HphM|]. split; [exact Hne|]. split; [reflexivity|]. split; [reflexivity|].
        split; [exact Ecnt|].
        exists new. split; [reflexivity|]. split; [|split].
        -- unfold new, cand. apply NoDup_filter. apply NoDup_filter. unfold members.
           apply NoDup_filter. apply NoDup_seqn.
        -- intros x. unfold new, cand, eligible. rewrite !filter_In. split.
           ++ intros [[Hm Hq] Hst]. split; [exact Hm|].
              destruct (st (Jb s x)) eqn:Est; try discriminate. split; [reflexivity|]. split; [exact Hst|].
              apply existsb_exists in Hq. destruct Hq as [q [Hq1 Hq2]]. exists q. split; auto.
              apply memb_In. exact Hq2.
           ++ intros (Hm & Hst & Hd & q & Hq1 & Hq2). rewrite Hst. split; [|exact Hd].
              split; [exact Hm|]. apply existsb_exists. exists q. split; auto. apply memb_In. exact Hq2.
        -- intros x Hx. cbn [Jb setR]. rewrite Jb_mapJ. apply memb_In in Hx. fold cand new. rewrite Hx. reflexivity.
Qed.

Lemma reff_begin c s n m : wf c = true -> sched_id c n = true ->
  (if rootb n then match ph (Rn s n) with PIdle => true | _ => false end
   else match st (Jb s n) with Created => negb (cp (Jb s n)) | _ => false end) = true ->
  reff c s (fst (react_begin c n s)) m (m = n).
Proof.
  intros W Hs Hg. unfold sched_id in Hs. apply andb_true_iff in Hs. destruct Hs as [Hsch Hlt].
  apply Nat.ltb_lt in Hlt.
  unfold react_begin.
  set (s0 := if Nat.eqb n 0 then s else _).
  assert (Hq0 : forall k, same_but_q (Rn s k) (Rn s0 k)).
  { intros k. unfold s0. destruct (Nat.eqb n 0); [apply same_but_q_refl|].
    cbn [Rn setR setJ]. unfold upd. destruct (Nat.eqb_spec k (parent c n)) as [->|Hk]; [|apply same_but_q_refl].
    unfold same_but_q. cbn. tauto. }
  assert (Hguard : if rootb n then ph (Rn s n) = PIdle else st (Jb s n) = Created).
  { destruct (rootb n).
    - destruct (ph (Rn s n)); try discriminate. reflexivity.
    - destruct (st (Jb s n)); try discriminate. reflexivity. }
  assert (Hpn : n <> 0 -> parent c n <> n).
  { intros Hn0. destruct (wf_parent c n W Hlt Hn0). lia. }
  destruct (members c n) as [|k ks] eqn:Em.
  - cbn [fst].
    set (v := mkRst POver [] [] 0 0 (optN_add (now s) (j_timeout (jc c n))) (now s) false false false).
    destruct (Nat.eq_dec m n) as [->|Hmn].
    + assert (E : Rn (job_leave c n (DoneRet RVTrue) (setR s0 n v)) n = v).
      { unfold job_leave. destruct (Nat.eqb_spec n 0) as [->|Hn0]; [apply Rn_setR_same|].
        cbn [Rn setR setJ]. rewrite upd_other by (intro E'; apply (Hpn Hn0); auto). apply upd_same. }
      apply RE_begin; try (rewrite E; reflexivity); auto.
      * intros Hr0. right. rewrite Jb_job_leave. apply rootb_false in Hr0.
        apply Nat.eqb_neq in Hr0. rewrite Hr0, Nat.eqb_refl. cbn [st ran]. rewrite E. auto.
      * rewrite E. right. reflexivity.
      * rewrite E. intros y [].
      * rewrite E. constructor.
      * rewrite E. discriminate.
    + apply RE_q; [|apply neq_vac; exact Hmn]. eapply same_but_q_trans; [apply Hq0|].
      eapply same_but_q_trans; [|apply Rn_job_leave_q].
      rewrite Rn_setR_other by exact Hmn. apply same_but_q_refl.
  - cbn [fst]. rewrite <- Em.
    set (entry := filter _ (members c n)).
    destruct (Nat.eq_dec m n) as [->|Hmn].
    + apply RE_begin; try (rewrite Rn_setR_same; reflexivity); auto.
      * intros Hr0. left.
        assert (Hne : memb n entry = false).
        { apply memb_false. intro Hin. unfold entry in Hin. apply filter_In in Hin.
          destruct Hin as [Hin _]. apply (member_neq c n n W Hin). reflexivity. }
        split; [|rewrite Rn_setR_same; cbn [ph]; split; discriminate].
        cbn [Jb setR]. rewrite Jb_mapJ, Hne. unfold s0. apply rootb_false in Hr0.
        apply Nat.eqb_neq in Hr0. rewrite Hr0. cbn [Jb setR setJ]. rewrite upd_same. reflexivity.
      * rewrite Rn_setR_same. left. reflexivity.
      * rewrite Rn_setR_same. cbn [pend]. intros y Hy. split.
        -- unfold entry in Hy. apply filter_In in Hy. tauto.
        -- cbn [Jb setR]. rewrite Jb_mapJ. apply memb_In in Hy. rewrite Hy. reflexivity.
      * rewrite Rn_setR_same. cbn [pend]. unfold entry. apply NoDup_filter. unfold members.
        apply NoDup_filter. apply NoDup_seqn.
      * intros _ y Hy Hq. rewrite Rn_setR_same. cbn [pend]. unfold entry. apply filter_In.
        split; [exact Hy|]. rewrite Hq. reflexivity.
      * rewrite Rn_setR_same. discriminate.
    + apply RE_q; [|apply neq_vac; exact Hmn]. rewrite Rn_setR_other by exact Hmn. rewrite Rn_mapJ. apply Hq0.
Qed.

Lemma Rn_react_main_other c n d s m : m <> n -> Rn (fst (react_main c n d s)) m = Rn s m.
Proof.
  intros Hmn. unfold react_main.
  assert (Hex : forall w p v, Rn (fst (exit_main c n w p (setR s n v))) m = Rn s m).
  { intros w p v. rewrite Rn_exit_main, ph_set_phase. apply Nat.eqb_neq in Hmn. rewrite Hmn.
    apply Nat.eqb_neq in Hmn. apply Rn_setR_other. exact Hmn. }
  destruct d as [|d0 d']; [apply Hex|].
  destruct (existsb _ (d0 :: d')); [apply Hex|].
  destruct (Nat.eqb _ _); [apply Hex|].
  cbn [fst]. rewrite Rn_setR_other by exact Hmn. reflexivity.
Qed.

Lemma st_react_main_self c n d s : wf c = true ->
  st (Jb (fst (react_main c n d s)) n) = st (Jb s n) /\ ran (Jb (fst (react_main c n d s)) n) = ran (Jb s n).
Proof.
  intros W. unfold react_main.
  assert (Hex : forall w p v, st (Jb (fst (exit_main c n w p (setR s n v))) n) = st (Jb s n) /\
                              ran (Jb (fst (exit_main c n w p (setR s n v))) n) = ran (Jb s n)).
  { intros w p v. rewrite Jb_exit_main, Jb_setR. destruct (memb n p); [|auto].
    unfold cancel_j. destruct (finished (st (Jb s n))); auto. }
  destruct d as [|d0 d']; [apply Hex|].
  destruct (existsb _ (d0 :: d')); [apply Hex|].
  destruct (Nat.eqb _ _); [apply Hex|].
  cbn [fst Jb setR]. rewrite Jb_mapJ.
  match goal with |- context [memb n ?new] => assert (Hne : memb n new = false) end.
  { apply memb_false. intro Hin. apply filter_In in Hin. destruct Hin as [Hin _].
    apply filter_In in Hin. destruct Hin as [Hin _]. apply (member_neq c n n W Hin). reflexivity. }
  rewrite Hne. auto.
Qed.

Lemma reff_main c s n d m : wf c = true -> run_alive c s n false = true -> ph (Rn s n) = PMain ->
  seteqb d (filter (jfin s) (pend (Rn s n))) && nodupb d = true ->
  reff c s (fst (react_main c n d s)) m (m = n).
Proof.
  intros W Ha Hph G12. destruct (run_alive_false _ _ _ Ha) as (Hs & Hn & Hr).
  destruct (Nat.eq_dec m n) as [->|Hmn].
  2:{ apply RE_q; [|apply neq_vac; exact Hmn]. rewrite Rn_react_main_other by exact Hmn. apply same_but_q_refl. }
  pose proof (react_main_upd c n d s Hph) as U.
  destruct (st_react_main_self c n d s W) as [Hst Hran].
  apply andb_true_iff in G12. destruct G12 as [G12a G12b]. apply nodupb_spec in G12b.
  set (s' := fst (react_main c n d s)) in *.
  pose proof U as U0. destruct U as (U1 & U2 & UF & U3).
  assert (Hph' : ph (Rn s' n) <> PIdle /\ ph (Rn s' n) <> POver /\ ph (Rn s' n) <> PCTidy).
  { destruct U3 as [(w & [Hw|Hw] & _)|(Hw & _)]; rewrite Hw; repeat split; discriminate. }
  destruct Hph' as (P1 & P2 & P3).
  apply RE_actor.
  - reflexivity.
  - intros Hn0. apply Hr. exact Hn0.
  - rewrite Hph. discriminate.
  - exact P1.
  - intros Hn0. left. rewrite Hst. split; [apply Hr; exact Hn0|]. auto.
  - intros y Hy. destruct U3 as [(w & _ & Hp & _)|(_ & _ & _ & _ & _ & new & Hp & _ & Hnew & _)].
    + rewrite Hp in Hy. apply In_diff in Hy. left. tauto.
    + rewrite Hp in Hy. apply in_app_iff in Hy. destruct Hy as [Hy|Hy].
      * apply In_diff in Hy. left. tauto.
      * right. apply Hnew in Hy. destruct Hy as [Hy _]. exact Hy.
  - intros H. exfalso. apply H. exact Hph.
  - apply cmode_same; auto.
  - right. split; [exact Hph|]. exists d. split; [exact G12a|]. split; [exact G12b|exact U0].
  - intros _. exact UF.
Qed.

Lemma reff_end_cancelled c s s0 n m :
  Rn s0 = Rn s -> (n <> 0 -> st (Jb s n) = Running) -> ph (Rn s n) <> PIdle -> ph (Rn s n) <> POver ->
  (~ (exists w, ph (Rn s n) = PShut w) -> forall y, In y (pend (Rn s n)) -> finished (st (Jb s y)) = true) ->
  reff c s (fst (end_cancelled c n s0)) m (m = n).
Proof.
  intros E Hr Hph Hpo Hallfin. destruct (Nat.eq_dec m n) as [->|Hmn].
  - destruct (Rn_end_cancelled_n c n s0) as [H1 H2].
    assert (P5 : ph (Rn s n) <> PMain -> ph (Rn (fst (end_cancelled c n s0)) n) <> PMain)
      by (intros _; rewrite H1; discriminate).
    assert (P6 : ph (Rn (fst (end_cancelled c n s0)) n) = PCTidy \/ rcanc (Rn (fst (end_cancelled c n s0)) n) = true ->
                 (ph (Rn s n) = PCTidy \/ rcanc (Rn s n) = true) \/ cp (Jb s n) = true)
      by (apply cmode_same; [rewrite H1; discriminate|rewrite rcanc_end_cancelled, E; reflexivity]).
    assert (P8 : ph (Rn (fst (end_cancelled c n s0)) n) <> POver ->
                 fto (Rn (fst (end_cancelled c n s0)) n) = fto (Rn s n) /\ fcr (Rn (fst (end_cancelled c n s0)) n) = fcr (Rn s n))
      by (intros H; contradiction).
    assert (P7 : kept s (fst (end_cancelled c n s0)) n).
    { destruct (seen_end_cancelled c n s0) as [S1 S2]. apply kept_over; [exact H1|rewrite S1, E; reflexivity|rewrite S2, E; reflexivity|rewrite H2, E; reflexivity|exact Hpo|rewrite rcanc_end_cancelled, E; reflexivity|exact Hallfin]. }
    apply RE_actor; auto.
    + rewrite H1. discriminate.
    + intros Hn0. right. rewrite Jb_end_cancelled. apply Nat.eqb_neq in Hn0.
      rewrite Hn0, Nat.eqb_refl. cbn [st ran]. auto.
    + intros y. rewrite H2, E. auto.
  - apply RE_q; [|apply neq_vac; exact Hmn]. rewrite <- E. apply Rn_end_cancelled_q. exact Hmn.
Qed.

Lemma reff_finish_run c s s0 n w r cu m :
  Rn s0 = Rn s -> (n <> 0 -> st (Jb s n) = Running) -> ph (Rn s n) <> PIdle -> ph (Rn s n) <> POver ->
  (~ (exists w, ph (Rn s n) = PShut w) -> forall y, In y (pend (Rn s n)) -> finished (st (Jb s y)) = true) ->
  reff c s (fst (finish_run c n w r cu s0)) m (m = n).
Proof.
  intros E Hr Hph Hpo Hallfin. destruct (Nat.eq_dec m n) as [->|Hmn].
  - destruct (Rn_finish_run_n c n w r cu s0) as [H1 H2].
    assert (P5 : ph (Rn s n) <> PMain -> ph (Rn (fst (finish_run c n w r cu s0)) n) <> PMain)
      by (intros _; rewrite H1; discriminate).
    assert (P6 : ph (Rn (fst (finish_run c n w r cu s0)) n) = PCTidy \/ rcanc (Rn (fst (finish_run c n w r cu s0)) n) = true ->
                 (ph (Rn s n) = PCTidy \/ rcanc (Rn s n) = true) \/ cp (Jb s n) = true)
      by (apply cmode_same; [rewrite H1; discriminate|rewrite rcanc_finish_run, E; reflexivity]).
    assert (P8 : ph (Rn (fst (finish_run c n w r cu s0)) n) <> POver ->
                 fto (Rn (fst (finish_run c n w r cu s0)) n) = fto (Rn s n) /\ fcr (Rn (fst (finish_run c n w r cu s0)) n) = fcr (Rn s n))
      by (intros H; contradiction).
    assert (P7 : kept s (fst (finish_run c n w r cu s0)) n).
    { destruct (seen_finish_run c n w r cu s0) as [S1 S2]. apply kept_over; [exact H1|rewrite S1, E; reflexivity|rewrite S2, E; reflexivity|rewrite H2, E; reflexivity|exact Hpo|rewrite rcanc_finish_run, E; reflexivity|exact Hallfin]. }
    apply RE_actor; auto.
    + rewrite H1. discriminate.
    + intros Hn0. right. rewrite Jb_finish_run. apply Nat.eqb_neq in Hn0.
      rewrite Hn0, Nat.eqb_refl. cbn [st ran]. split; [|auto].
      apply done_finished0. apply verdict_done.
    + intros y. rewrite H2, E. auto.
  - apply RE_q; [|apply neq_vac; exact Hmn]. rewrite <- E. apply Rn_finish_run_q. exact Hmn.
Qed.

Lemma reff_tidy c s n m : run_alive c s n false = true ->
  (exists w, ph (Rn s n) = PTidy w) -> forallb (jfin s) (pend (Rn s n)) = true ->
  reff c s (fst (react_tidy c n s)) m (m = n).
Proof.
  intros Ha [w Hph] Hfin. destruct (run_alive_false _ _ _ Ha) as (Hs & Hn & Hr).
  assert (Hfin' : forall y, In y (pend (Rn s n)) -> finished (st (Jb s y)) = true).
  { rewrite forallb_forall in Hfin. exact Hfin. }
  unfold react_tidy. destruct (rcanc (Rn s n)).
  - apply reff_end_cancelled; auto.
    + intros Hn0. apply Hr. exact Hn0.
    + rewrite Hph. discriminate.
    + rewrite Hph. discriminate.
  - destruct (Nat.eq_dec m n) as [->|Hmn].
    + assert (Ephn : ph (Rn (fst (shutdown_start c n true (set_phase s n (PShut (why_of s n))))) n)
                     = PShut (why_of s n)).
      { rewrite Rn_shutdown_start, ph_set_phase, Nat.eqb_refl. reflexivity. }
      match goal with |- reff c s ?S' n _ =>
        assert (P5 : ph (Rn s n) <> PMain -> ph (Rn S' n) <> PMain)
          by (intros _; rewrite Ephn; discriminate);
        assert (P6 : ph (Rn S' n) = PCTidy \/ rcanc (Rn S' n) = true ->
                     (ph (Rn s n) = PCTidy \/ rcanc (Rn s n) = true) \/ cp (Jb s n) = true)
          by (apply cmode_same; [rewrite Ephn; discriminate|
              rewrite Rn_shutdown_start, ph_set_phase, Nat.eqb_refl; reflexivity]);
        assert (P7 : kept s S' n)
      end.
      { unfold kept. rewrite Ephn. rewrite Rn_shutdown_start, ph_set_phase, Nat.eqb_refl. cbn [seen ndone pend].
        unfold why_of. rewrite Hph.
        repeat split; auto; try (intros; discriminate); try (exists (fun _ => true); apply filter_true_id).
        intros w' Hw'. inversion Hw'; subst. auto. }
      match goal with |- reff c s ?S' n _ =>
        assert (P8 : ph (Rn S' n) <> POver -> fto (Rn S' n) = fto (Rn s n) /\ fcr (Rn S' n) = fcr (Rn s n))
          by (intros _; rewrite Rn_shutdown_start, ph_set_phase, Nat.eqb_refl; split; reflexivity)
      end.
      apply RE_actor; auto.
      * intros Hn0. apply Hr. exact Hn0.
      * rewrite Hph. discriminate.
      * rewrite Ephn. discriminate.
      * intros Hn0. left. rewrite Jb_shutdown_start, Jb_set_phase, Ephn.
        split; [apply Hr; exact Hn0|]. split; discriminate.
      * intros y. rewrite Rn_shutdown_start, ph_set_phase, Nat.eqb_refl. cbn [pend]. auto.
    + apply RE_q; [|apply neq_vac; exact Hmn].
      rewrite Rn_shutdown_start, ph_set_phase. apply Nat.eqb_neq in Hmn. rewrite Hmn.
      apply same_but_q_refl.
Qed.

Lemma sd_inline_ph s n : sd_inline s n = true -> ph (Rn s n) <> PIdle.
Proof. unfold sd_inline. destruct (ph (Rn s n)); discriminate. Qed.

Lemma sd_inline_ph2 s n : sd_inline s n = true -> ph (Rn s n) <> POver.
Proof. unfold sd_inline. destruct (ph (Rn s n)); discriminate. Qed.

Lemma Rn_react_shut_wake c n p s : Rn (fst (fst (react_shut_wake c n p s))) = Rn s.
Proof. unfold react_shut_wake. destruct p; reflexivity. Qed.

Lemma reff_shut c s n p cu m :
  (sd_inline s n = true -> run_alive c s n false = true) ->
  reff c s (fst (react_shut c n p cu s)) m (m = n).
Proof.
  intros Hi. unfold react_shut.
  pose proof (Rn_react_shut_wake c n p s) as E1.
  pose proof (fun y => Jb_react_shut_wake c n p s y) as EJ.
  destruct (react_shut_wake c n p s) as [[s1 res] mo1]. cbn [fst] in E1, EJ.
  destruct res as [r|].
  2:{ apply RE_q; cbn [fst]; [rewrite E1; apply same_but_q_refl|]. intros _. rewrite EJ. auto. }
  destruct (sd_inline s n) eqn:Ein.
  - destruct (run_alive_false _ _ _ (Hi eq_refl)) as (Hs & Hn & Hr).
    assert (Hr' : n <> 0 -> st (Jb s n) = Running) by (intros Hn0; apply Hr; exact Hn0).
    pose proof (sd_inline_ph _ _ Ein) as Hph. pose proof (sd_inline_ph2 _ _ Ein) as Hpo.
    assert (Hallfin : ~ (exists w, ph (Rn s n) = PShut w) ->
                      forall y, In y (pend (Rn s n)) -> finished (st (Jb s y)) = true).
    { intros Hx. exfalso. apply Hx. unfold sd_inline in Ein.
      destruct (ph (Rn s n)) as [| | |w0| |]; try discriminate. exists w0. reflexivity. }
    destruct (rcanc (Rn s n)).
    + assert (Hcan : reff c s (fst (end_cancelled c n s1)) m (m = n))
        by (apply reff_end_cancelled; auto).
      destruct (end_cancelled c n s1) as [s2 mo2]. exact Hcan.
    + pose proof (reff_finish_run c s s1 n (why_of s n) r cu m E1 Hr' Hph Hpo Hallfin) as HF.
      destruct (finish_run c n (why_of s n) r cu s1) as [s2 mo2]. exact HF.
  - apply RE_q; cbn [fst]; [rewrite Rn_hdone, E1; apply same_but_q_refl|].
    intros _. rewrite Jb_hdone, EJ. auto.
Qed.

Lemma reff_shtidy c s n cu m :
  (sd_inline s n = true -> run_alive c s n false = true) ->
  reff c s (fst (react_shtidy c n cu s)) m (m = n).
Proof.
  intros Hi. unfold react_shtidy, react_shtidy_wake.
  set (s1 := setS s n _). set (r := if scanc (Sd s n) then SRCancelled else SRFalse).
  assert (E1 : Rn s1 = Rn s) by reflexivity.
  destruct (sd_inline s n) eqn:Ein.
  - destruct (run_alive_false _ _ _ (Hi eq_refl)) as (Hs & Hn & Hr).
    assert (Hr' : n <> 0 -> st (Jb s n) = Running) by (intros Hn0; apply Hr; exact Hn0).
    pose proof (sd_inline_ph _ _ Ein) as Hph.
    pose proof (sd_inline_ph2 _ _ Ein) as Hpo.
    assert (Hallfin : ~ (exists w, ph (Rn s n) = PShut w) ->
                      forall y, In y (pend (Rn s n)) -> finished (st (Jb s y)) = true).
    { intros Hx. exfalso. apply Hx. unfold sd_inline in Ein.
      destruct (ph (Rn s n)) as [| | |w0| |]; try discriminate. exists w0. reflexivity. }
    destruct (rcanc (Rn s n)).
    + assert (Hcan : reff c s (fst (end_cancelled c n s1)) m (m = n))
        by (apply reff_end_cancelled; auto).
      destruct (end_cancelled c n s1) as [s2 mo2]. exact Hcan.
    + apply reff_finish_run; auto.
  - apply RE_q; cbn [fst]; [rewrite Rn_hdone, E1; apply same_but_q_refl|].
    intros _. rewrite Jb_hdone. auto.
Qed.

Lemma st_cancel_list l s0 n : st (Jb (mapJ cancel_j l s0) n) = st (Jb s0 n) /\
                              ran (Jb (mapJ cancel_j l s0) n) = ran (Jb s0 n).
Proof.
  rewrite Jb_mapJ. destruct (memb n l); [|auto]. unfold cancel_j.
  destruct (finished (st (Jb s0 n))); auto.
Qed.

Lemma st_clear_cp s n : st (Jb (clear_cp s n) n) = st (Jb s n) /\ ran (Jb (clear_cp s n) n) = ran (Jb s n).
Proof. rewrite Jb_clear_cp. destruct (rootb n); [auto|]. rewrite Nat.eqb_refl. auto. Qed.

Lemma reff_cancel_main c s n m : wf c = true -> pend_ok c s -> run_alive c s n true = true ->
  ph (Rn s n) = PMain -> reff c s (fst (react_cancel_main c n s)) m (m = n).
Proof.
  intros W Hpok Ha Hph. destruct (run_alive_true _ _ _ Ha) as (Hs & Hn & Hn0 & Hst & Hcp).
  unfold react_cancel_main.
  set (u := filter _ (pend (Rn s n))).
  assert (Eu0 : u = filter (fun j => negb (jfin s j)) (pend (Rn s n))) by reflexivity.
  assert (Hu : forall y, In y u -> In y (pend (Rn s n))).
  { intros y Hy. unfold u in Hy. apply filter_In in Hy. tauto. }
  destruct u as [|u0 u'] eqn:Eu.
  - apply reff_end_cancelled; auto.
    + apply Rn_clear_cp.
    + rewrite Hph. discriminate.
    + rewrite Hph. discriminate.
    + intros _ y Hy. destruct (finished (st (Jb s y))) eqn:Ef; [reflexivity|]. exfalso.
      assert (Hin : In y (filter (fun j => negb (jfin s j)) (pend (Rn s n)))).
      { apply filter_In. split; [exact Hy|]. unfold jfin. rewrite Ef. reflexivity. }
      rewrite <- Eu0 in Hin. destruct Hin.
  - rewrite <- Eu in *. cbn [fst].
    destruct (Nat.eq_dec m n) as [->|Hmn].
    + match goal with |- reff c s ?S' n _ =>
        assert (P5 : ph (Rn s n) <> PMain -> ph (Rn S' n) <> PMain)
          by (intros _; rewrite Rn_setR_same; discriminate);
        assert (P6 : ph (Rn S' n) = PCTidy \/ rcanc (Rn S' n) = true ->
                     (ph (Rn s n) = PCTidy \/ rcanc (Rn s n) = true) \/ cp (Jb s n) = true)
          by (intros _; right; exact Hcp);
        assert (P7 : kept s S' n)
      end.
      { unfold kept. rewrite Rn_setR_same. cbn [seen ndone ph pend rcanc]. rewrite Rn_clear_cp, Hph.
        split; [reflexivity|]. split; [reflexivity|].
        split; [exists (fun j => negb (jfin s j)); exact Eu0|].
        split; [intros; discriminate|]. split; [intros; discriminate|].
        split; [intros _; left; reflexivity|]. split; [intros; discriminate|].
        split; [discriminate|]. split; [auto|].
        split; [|split; [intros H; exfalso; apply H; reflexivity|split]].
        2:{ intros y Hy Hf. rewrite Eu0. apply filter_In. split; [exact Hy|]. unfold jfin. rewrite Hf. reflexivity. }
        2:{ intros [H|[w0 H]]; discriminate. }
        intros _ _ y Hy. split.
        - rewrite Eu0 in Hy. apply filter_In in Hy. destruct Hy as [_ Hy].
          apply negb_true_iff in Hy. exact Hy.
        - cbn [Jb setR]. rewrite Jb_mapJ. pose proof Hy as Hm. apply memb_In in Hm. rewrite Hm.
          f_equal. rewrite Jb_clear_cp. apply rootb_false in Hn0. rewrite Hn0.
          assert (Hyn : y <> n) by (apply (member_neq c n y W); apply Hpok; apply Hu; exact Hy).
          apply Nat.eqb_neq in Hyn. rewrite Hyn. reflexivity. }
      match goal with |- reff c s ?S' n _ =>
        assert (P8 : ph (Rn S' n) <> POver -> fto (Rn S' n) = fto (Rn s n) /\ fcr (Rn S' n) = fcr (Rn s n))
          by (intros _; rewrite Rn_setR_same; cbn [fto fcr]; rewrite Rn_clear_cp; split; reflexivity)
      end.
      apply RE_actor; auto.
      * rewrite Hph. discriminate.
      * rewrite Rn_setR_same. discriminate.
      * intros _. left. rewrite Rn_setR_same. cbn [ph Jb setR].
        destruct (st_cancel_list u (clear_cp s n) n) as [A _]. rewrite A.
        destruct (st_clear_cp s n) as [B _]. rewrite B, Hst. split; [reflexivity|]. split; discriminate.
      * rewrite Rn_setR_same. cbn [pend]. auto.
    + apply RE_q; [|apply neq_vac; exact Hmn].
      rewrite Rn_setR_other by exact Hmn. rewrite Rn_mapJ, Rn_clear_cp. apply same_but_q_refl.
Qed.

Lemma reff_cancel_tidy c s n m : run_alive c s n true = true ->
  (exists w, ph (Rn s n) = PTidy w) -> reff c s (fst (react_cancel_tidy c n s)) m (m = n).
Proof.
  intros Ha [w Hph]. destruct (run_alive_true _ _ _ Ha) as (Hs & Hn & Hn0 & Hst & Hcp).
  unfold react_cancel_tidy. cbn [fst].
  destruct (Nat.eq_dec m n) as [->|Hmn].
  - match goal with |- reff c s ?S' n _ =>
      assert (P5 : ph (Rn s n) <> PMain -> ph (Rn S' n) <> PMain)
        by (intros _; rewrite Rn_setR_same; cbn [ph]; rewrite Rn_clear_cp, Hph; discriminate);
      assert (P6 : ph (Rn S' n) = PCTidy \/ rcanc (Rn S' n) = true ->
                   (ph (Rn s n) = PCTidy \/ rcanc (Rn s n) = true) \/ cp (Jb s n) = true)
        by (intros _; right; exact Hcp);
      assert (P7 : kept s S' n)
    end.
    { unfold kept. rewrite Rn_setR_same. cbn [seen ndone ph pend]. rewrite Rn_clear_cp, Hph.
      repeat split; auto; try (intros; discriminate); try (exists (fun _ => true); apply filter_true_id).
      intros [H|[w0 H]]; discriminate. }
    match goal with |- reff c s ?S' n _ =>
      assert (P8 : ph (Rn S' n) <> POver -> fto (Rn S' n) = fto (Rn s n) /\ fcr (Rn S' n) = fcr (Rn s n))
        by (intros _; rewrite Rn_setR_same; cbn [fto fcr]; rewrite Rn_clear_cp; split; reflexivity)
    end.
    apply RE_actor; auto.
    + rewrite Hph. discriminate.
    + rewrite Rn_setR_same. cbn [ph]. rewrite Rn_clear_cp, Hph. discriminate.
    + intros _. left. rewrite Rn_setR_same. cbn [ph Jb setR]. rewrite Rn_clear_cp, Hph.
      destruct (st_cancel_list (pend (Rn s n)) (clear_cp s n) n) as [A _]. rewrite A.
      destruct (st_clear_cp s n) as [B _]. rewrite B, Hst. split; [reflexivity|]. split; discriminate.
    + rewrite Rn_setR_same. cbn [pend]. rewrite Rn_clear_cp. auto.
  - apply RE_q; [|apply neq_vac; exact Hmn].
    rewrite Rn_setR_other by exact Hmn. rewrite Rn_mapJ, Rn_clear_cp. apply same_but_q_refl.
Qed.

Lemma reff_cancel_shut c s n m :
  (sd_inline s n = true -> run_alive c s n true = true) ->
  reff c s (fst (react_cancel_shut c n s)) m (m = n).
Proof.
  intros Hi. unfold react_cancel_shut.
  destruct (sd_inline s n) eqn:Ein.
  - destruct (run_alive_true _ _ _ (Hi eq_refl)) as (Hs & Hn & Hn0 & Hst & Hcp).
    pose proof (sd_inline_ph _ _ Ein) as Hph.
    set (s0 := clear_cp s n).
    set (v := mkRst (ph (Rn s0 n)) (pend (Rn s0 n)) (seen (Rn s0 n)) (ndone (Rn s0 n)) (qsz (Rn s0 n))
                    (expi (Rn s0 n)) (tbeg (Rn s0 n)) (fto (Rn s0 n)) (fcr (Rn s0 n)) true).
    assert (ER : forall k, Rn (fst (react_shut_cancel c n (setR s0 n v))) k = Rn (setR s0 n v) k) by reflexivity.
    assert (EJ : Jb (fst (react_shut_cancel c n (setR s0 n v))) = Jb s0) by reflexivity.
    destruct (Nat.eq_dec m n) as [->|Hmn].
    + assert (Ephn : ph (Rn (fst (react_shut_cancel c n (setR s0 n v))) n) = ph (Rn s n)).
      { rewrite ER, Rn_setR_same. unfold v, s0. cbn [ph]. rewrite Rn_clear_cp. reflexivity. }
      assert (Hphs : exists w, ph (Rn s n) = PShut w).
      { unfold sd_inline in Ein. destruct (ph (Rn s n)) as [| | |w| |]; try discriminate. exists w. reflexivity. }
      destruct Hphs as [w Hw].
      assert (P7 : kept s (fst (react_shut_cancel c n (setR s0 n v))) n).
      { unfold kept. rewrite Ephn, ER, Rn_setR_same. unfold v, s0. cbn [seen ndone pend]. rewrite Rn_clear_cp, Hw.
        repeat split; auto; try (intros; discriminate); try (exists (fun _ => true); apply filter_true_id).
        intros _ Hx. exfalso. apply Hx. exists w. reflexivity. }
      assert (P8 : ph (Rn (fst (react_shut_cancel c n (setR s0 n v))) n) <> POver ->
                   fto (Rn (fst (react_shut_cancel c n (setR s0 n v))) n) = fto (Rn s n) /\
                   fcr (Rn (fst (react_shut_cancel c n (setR s0 n v))) n) = fcr (Rn s n))
        by (intros _; rewrite ER, Rn_setR_same; unfold v, s0; cbn [fto fcr]; rewrite Rn_clear_cp; split; reflexivity).
      apply RE_actor; auto.
      * rewrite Ephn. exact Hph.
      * intros _. left. rewrite EJ, Ephn. destruct (st_clear_cp s n) as [B _]. unfold s0. rewrite B, Hst, Hw.
        split; [reflexivity|]. split; discriminate.
      * intros y. rewrite ER, Rn_setR_same. unfold v, s0. cbn [pend]. rewrite Rn_clear_cp. auto.
      * intros _. rewrite Ephn, Hw. discriminate.
    + apply RE_q; [|apply neq_vac; exact Hmn].
      rewrite ER, Rn_setR_other by exact Hmn. unfold s0. rewrite Rn_clear_cp. apply same_but_q_refl.
  - apply RE_q.
    + cbn [fst Rn react_shut_cancel setS mapH]. unfold react_shut_cancel. cbn [fst Rn setS mapH].
      rewrite Rn_clear_hcp. apply same_but_q_refl.
    + intros _. unfold react_shut_cancel. cbn [fst Jb setS mapH]. rewrite Jb_clear_hcp. auto.
Qed.

Theorem R_effect lvl c s e s' :
  wf c = true -> pend_ok c s -> step lvl c s e = Some s' -> forall m, reff c s s' m (actor e m).
Proof.
  intros W Hpok Hstep m. apply step_inv in Hstep. destruct Hstep as [-> Hg].
  destruct e as [n o|n k d o|n k o|n o|j|j oc|j|j|j|j|j|j|j|j|t|t|jv sv]; cbn [reaction actor].
  - split_guards Hg. apply reff_begin; assumption.
  - destruct k; cbn [reaction].
    + split_guards Hg. apply reff_main; [assumption|assumption| |apply andb_true_iff; split; assumption].
      destruct (ph (Rn s n)); try discriminate. reflexivity.
    + split_guards Hg. apply reff_tidy; [assumption| |assumption].
      destruct (ph (Rn s n)) as [| |w| | |]; try discriminate. exists w. reflexivity.
    + split_guards Hg. destruct (run_alive_false _ _ _ G) as (Hs & Hn & Hr).
      apply reff_end_cancelled; auto.
      * intros Hn0. apply Hr. exact Hn0.
      * destruct (ph (Rn s n)); discriminate.
      * destruct (ph (Rn s n)); discriminate.
      * intros _. rewrite forallb_forall in G1. exact G1.
    + cbn [forallb guards app outs_guards] in Hg. apply andb_true_iff in Hg. destruct Hg as [G1 _].
      apply reff_shut. eapply sd_thread_inline; eauto.
    + cbn [forallb guards app outs_guards] in Hg. apply andb_true_iff in Hg. destruct Hg as [G1 _].
      apply reff_shtidy. eapply sd_thread_inline; eauto.
  - destruct k; cbn [reaction].
    + split_guards Hg. apply reff_cancel_main; [assumption|assumption|assumption|].
      destruct (ph (Rn s n)); try discriminate. reflexivity.
    + split_guards Hg. apply reff_cancel_tidy; [assumption|].
      destruct (ph (Rn s n)) as [| |w| | |]; try discriminate. exists w. reflexivity.
    + apply RE_q; unfold react_cancel_ctidy; cbn [fst].
      * rewrite Rn_mapJ, Rn_clear_cp. apply same_but_q_refl.
      * intros ->. destruct (st_cancel_list (pend (Rn s n)) (clear_cp s n) n) as [A B].
        destruct (st_clear_cp s n) as [C D]. rewrite A, B, C, D. auto.
    + cbn [forallb guards app outs_guards] in Hg. apply andb_true_iff in Hg. destruct Hg as [G1 _].
      apply reff_cancel_shut. eapply sd_thread_inline; eauto.
    + cbn [forallb guards app outs_guards] in Hg. apply andb_true_iff in Hg. destruct Hg as [G1 _].
      apply reff_cancel_shut. eapply sd_thread_inline; eauto.
  - apply RE_q; [|intros []]. unfold react_sdstart.
    destruct (shutdown_start c n false (setH s n (mkHst HRunning false None))) as [s1 mo] eqn:E.
    assert (E1 : Rn s1 = Rn s).
    { change s1 with (fst (s1, mo)). rewrite <- E, Rn_shutdown_start. reflexivity. }
    cbn [fst]. destruct (sp (Sd s1 n)), (did (Sd s n)); cbn [Rn setH]; rewrite E1; apply same_but_q_refl.
  - apply RE_q; [|intros []]. cbn [fst]. unfold eff_start. eapply same_but_q_trans; [|apply Rn_bump_q_q]. apply same_but_q_refl.
  - apply RE_q; [|intros []]. cbn [fst]. unfold eff_finish. eapply same_but_q_trans; [|apply Rn_bump_q_q]. apply same_but_q_refl.
  - apply RE_q; [|intros []]. apply same_but_q_refl.
  - apply RE_q; [|intros []]. cbn [fst]. unfold eff_cancel_over. eapply same_but_q_trans; [|apply Rn_bump_q_q]. apply same_but_q_refl.
  - apply RE_q; [|intros []]. cbn [fst]. unfold eff_cancel_over. eapply same_but_q_trans; [|apply Rn_bump_q_q]. apply same_but_q_refl.
  - apply RE_q; [|intros []]. apply same_but_q_refl.
  - apply RE_q; [|intros []]. apply same_but_q_refl.
  - apply RE_q; [|intros []]. apply same_but_q_refl.
  - apply RE_q; [|intros []]. apply same_but_q_refl.
  - apply RE_q; [|intros []]. apply same_but_q_refl.
  - apply RE_q; [|intros []]. apply same_but_q_refl.
  - apply RE_q; [|intros []]. apply same_but_q_refl.
  - apply RE_q; [|intros []]. apply same_but_q_refl.
Qed.
