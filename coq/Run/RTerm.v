(* Livelock freedom: every execution of a well-formed tree has a bounded number of real events.

   A potential function [rho c s] (a natural number) never increases along a level-3 step and
   strictly decreases at every "weighty" step, hence the number of weighty events of any execution
   is at most [rho c init].  Weighty = everything except the three events of the environment that
   leave the run as it is: the observation [EPoll], the clock moving on after the end [EGrace], and
   the late explicit shutdown of the root [ESdStart 0] (see [unbounded_root_shutdown] at the end:
   that event can be repeated for ever, so it cannot be counted). *)
From AJ Require Import Common.Util Run.RModel Run.RFacts Run.RFacts2 Run.RInv Run.RInv2 Run.RInv3 Run.RInv4
  Run.RInv5 Run.RProps3 Run.RWin Run.RProps4 Run.RShut1 Run.RShut2 Run.RTime.

(* ------------------------------------------------------------------ sums over lists of ids *)

Fixpoint sumf (f : nat -> nat) (l : list nat) : nat :=
  match l with [] => 0 | x :: l' => f x + sumf f l' end.

Lemma sumf_le f g l : (forall x, In x l -> f x <= g x) -> sumf f l <= sumf g l.
Proof.
  induction l as [|a l IH]; intros H; cbn [sumf]; [lia|].
  pose proof (H a (or_introl eq_refl)) as Ha.
  assert (Hl : sumf f l <= sumf g l) by (apply IH; intros x Hx; apply H; right; exact Hx).
  lia.
Qed.

Lemma sumf_lt f g l x0 : (forall x, In x l -> f x <= g x) -> In x0 l -> f x0 < g x0 ->
  sumf f l < sumf g l.
Proof.
  induction l as [|a l IH]; intros H Hin Hlt; [destruct Hin|]. cbn [sumf].
  pose proof (H a (or_introl eq_refl)) as Ha.
  assert (Hl : sumf f l <= sumf g l) by (apply sumf_le; intros x Hx; apply H; right; exact Hx).
  destruct Hin as [->|Hin].
  - lia.
  - assert (Hl' : sumf f l < sumf g l) by (apply IH; auto; intros x Hx; apply H; right; exact Hx). lia.
Qed.

Lemma sumf_add f g l : sumf (fun x => f x + g x) l = sumf f l + sumf g l.
Proof. induction l as [|a l IH]; cbn [sumf]; [reflexivity|]. rewrite IH. lia. Qed.

Lemma length_flat_map_sum (f : nat -> list N) l :
  length (flat_map f l) = sumf (fun x => length (f x)) l.
Proof.
  induction l as [|a l IH]; cbn [flat_map sumf]; [reflexivity|]. rewrite app_length, IH. reflexivity.
Qed.

(* ------------------------------------------------------------------ cancellation budgets *)

(* [G a b x] = a x + b (parent x) + a (parent x) + b (parent (parent x)) + ... + a 0, along the
   chain of enclosing schedulers *)
Fixpoint Gf (c : cfg) (a b : nat -> nat) (f x : nat) : nat :=
  match f with
  | 0 => 0
  | S f' => a x + (if Nat.eqb x 0 then 0 else b (parent c x) + Gf c a b f' (parent c x))
  end.
Definition G (c : cfg) (a b : nat -> nat) (x : nat) : nat := Gf c a b (S x) x.

Lemma Gf_irrel c a b : wf c = true -> forall f1 f2 x, x < njobs c -> x < f1 -> x < f2 ->
  Gf c a b f1 x = Gf c a b f2 x.
Proof.
  intros W. induction f1 as [|f1 IH]; intros f2 x Hx H1 H2; [lia|].
  destruct f2 as [|f2]; [lia|]. cbn [Gf].
  destruct (Nat.eqb_spec x 0) as [E|E]; [reflexivity|].
  destruct (wf_parent c x W Hx E) as [Hp _].
  rewrite (IH f2 (parent c x)) by lia. reflexivity.
Qed.

Lemma G_0 c a b : G c a b 0 = a 0.
Proof. unfold G. cbn [Gf Nat.eqb]. lia. Qed.

Lemma G_unfold c a b x : wf c = true -> x < njobs c -> x <> 0 ->
  G c a b x = a x + b (parent c x) + G c a b (parent c x).
Proof.
  intros W Hx E. unfold G at 1. cbn [Gf]. apply Nat.eqb_neq in E. rewrite E. apply Nat.eqb_neq in E.
  destruct (wf_parent c x W Hx E) as [Hp _].
  unfold G. rewrite (Gf_irrel c a b W x (S (parent c x)) (parent c x)) by lia. lia.
Qed.

Section Budget.
  Variables (c : cfg) (a a' b b' : nat -> nat).
  Hypothesis W : wf c = true.
  Hypothesis Ha1 : forall x, a' x <= 1.
  Hypothesis Hb : forall p, p < njobs c -> b' p <= b p.
  (* the flag of x is raised only if its parent pays for it *)
  Hypothesis Hr : forall x, x < njobs c ->
    a' x <= a x \/ (x <> 0 /\ (b' (parent c x) + 1 <= b (parent c x) \/ (a (parent c x) = 1 /\ a' (parent c x) = 0))).

  Lemma G_mono_aux : forall m x, x < m -> x < njobs c -> G c a' b' x <= G c a b x.
  Proof.
    induction m as [|m IH]; intros x Hm Hx; [lia|].
    destruct (Nat.eq_dec x 0) as [->|E].
    - rewrite !G_0. destruct (Hr 0 Hx) as [H|[H _]]; [exact H|contradiction].
    - rewrite (G_unfold c a' b' x W Hx E), (G_unfold c a b x W Hx E).
      destruct (wf_parent c x W Hx E) as [Hp _].
      assert (Hpn : parent c x < njobs c) by lia.
      assert (IHp : G c a' b' (parent c x) <= G c a b (parent c x)) by (apply IH; lia).
      pose proof (Hb (parent c x) Hpn) as Hbp.
      destruct (Hr x Hx) as [H|[_ [H|[H1 H2]]]].
      + lia.
      + pose proof (Ha1 x). lia.
      + pose proof (Ha1 x) as Hx1.
        assert (Hd : G c a' b' (parent c x) + 1 <= G c a b (parent c x)).
        { destruct (Nat.eq_dec (parent c x) 0) as [E0|E0].
          - rewrite E0 in *. rewrite !G_0. lia.
          - rewrite (G_unfold c a' b' _ W Hpn E0), (G_unfold c a b _ W Hpn E0).
            destruct (wf_parent c _ W Hpn E0) as [Hpp _].
            assert (Hppn : parent c (parent c x) < njobs c) by lia.
            assert (IHpp : G c a' b' (parent c (parent c x)) <= G c a b (parent c (parent c x))) by (apply IH; lia).
            pose proof (Hb _ Hppn). lia. }
        lia.
  Qed.

  Lemma G_mono x : x < njobs c -> G c a' b' x <= G c a b x.
  Proof. intros Hx. apply (G_mono_aux (S x)); [lia|exact Hx]. Qed.

  Lemma G_drop x : x < njobs c -> a x = 1 -> a' x = 0 -> G c a' b' x + 1 <= G c a b x.
  Proof.
    intros Hx H1 H2. destruct (Nat.eq_dec x 0) as [->|E].
    - rewrite !G_0. lia.
    - rewrite (G_unfold c a' b' x W Hx E), (G_unfold c a b x W Hx E).
      destruct (wf_parent c x W Hx E) as [Hp _].
      assert (Hpn : parent c x < njobs c) by lia.
      pose proof (G_mono (parent c x) Hpn). pose proof (Hb _ Hpn). lia.
  Qed.
End Budget.

Definition cpb (s : state) (x : nat) : nat := if cp (Jb s x) then 1 else 0.
Definition hcpb (s : state) (x : nat) : nat := if hcp (Hd s x) then 1 else 0.
(* the run of p may still leave its main loop (and cancel its pending jobs) *)
Definition mb (s : state) (p : nat) : nat := match ph (Rn s p) with PIdle | PMain => 1 | _ => 0 end.
(* the shutdown wait of p may still end with stragglers (and cancel their handlers) *)
Definition wb (s : state) (p : nat) : nat := match sp (Sd s p) with SdIdle | SdWait => 1 | _ => 0 end.

(* how many more times job x (as a task) can be asked to cancel, at most *)
Definition cb (c : cfg) (s : state) (x : nat) : nat := G c (cpb s) (mb s) x.
(* the same for the co_shutdown() task of x *)
Definition db (c : cfg) (s : state) (x : nat) : nat := G c (hcpb s) (fun p => wb s p + cb c s p) x.

Definition jiss (s s' : state) (p : nat) : Prop :=
  (mb s p = 1 /\ mb s' p = 0) \/ (cpb s p = 1 /\ cpb s' p = 0).
Definition hiss (s s' : state) (p : nat) : Prop :=
  (wb s p = 1 /\ wb s' p = 0) \/ (cpb s p = 1 /\ cpb s' p = 0) \/ (hcpb s p = 1 /\ hcpb s' p = 0).

Record cfacts (c : cfg) (s s' : state) : Prop := {
  cf_mb : forall p, mb s' p <= mb s p;
  cf_wb : forall p, wb s' p <= wb s p;
  cf_cp : forall x, cpb s' x <= cpb s x \/ (x <> 0 /\ jiss s s' (parent c x));
  cf_hcp : forall x, hcpb s' x <= hcpb s x \/ (x <> 0 /\ hiss s s' (parent c x))
}.

Lemma cpb_le1 s x : cpb s x <= 1.
Proof. unfold cpb. destruct (cp (Jb s x)); lia. Qed.
Lemma hcpb_le1 s x : hcpb s x <= 1.
Proof. unfold hcpb. destruct (hcp (Hd s x)); lia. Qed.

Section Budgets.
  Variables (c : cfg) (s s' : state).
  Hypothesis W : wf c = true.
  Hypothesis CF : cfacts c s s'.

  Lemma cb_hr x : x < njobs c ->
    cpb s' x <= cpb s x \/
    (x <> 0 /\ (mb s' (parent c x) + 1 <= mb s (parent c x) \/ (cpb s (parent c x) = 1 /\ cpb s' (parent c x) = 0))).
  Proof.
    intros _. destruct (cf_cp c s s' CF x) as [H|[H0 [[H1 H2]|H]]]; [left; exact H| |].
    - right. split; [exact H0|]. left. lia.
    - right. split; [exact H0|]. right. exact H.
  Qed.

  Lemma cb_mono x : x < njobs c -> cb c s' x <= cb c s x.
  Proof.
    intros Hx. unfold cb. apply G_mono; auto.
    - apply cpb_le1.
    - intros p _. apply (cf_mb c s s' CF).
    - apply cb_hr.
  Qed.

  Lemma cb_drop x : x < njobs c -> cpb s x = 1 -> cpb s' x = 0 -> cb c s' x + 1 <= cb c s x.
  Proof.
    intros Hx H1 H2. unfold cb. apply G_drop; auto.
    - apply cpb_le1.
    - intros p _. apply (cf_mb c s s' CF).
    - apply cb_hr.
  Qed.

  Lemma db_hb p : p < njobs c -> wb s' p + cb c s' p <= wb s p + cb c s p.
  Proof. intros Hp. pose proof (cf_wb c s s' CF p). pose proof (cb_mono p Hp). lia. Qed.

  Lemma db_hr x : x < njobs c ->
    hcpb s' x <= hcpb s x \/
    (x <> 0 /\ (wb s' (parent c x) + cb c s' (parent c x) + 1 <= wb s (parent c x) + cb c s (parent c x)
                \/ (hcpb s (parent c x) = 1 /\ hcpb s' (parent c x) = 0))).
  Proof.
    intros Hx. destruct (cf_hcp c s s' CF x) as [H|[H0 H]]; [left; exact H|].
    right. split; [exact H0|].
    destruct (wf_parent c x W Hx H0) as [Hp _].
    assert (Hpn : parent c x < njobs c) by lia.
    destruct H as [[H1 H2]|[[H1 H2]|H]].
    - left. pose proof (cb_mono _ Hpn). lia.
    - left. pose proof (cb_drop _ Hpn H1 H2). pose proof (cf_wb c s s' CF (parent c x)). lia.
    - right. exact H.
  Qed.

  Lemma db_mono x : x < njobs c -> db c s' x <= db c s x.
  Proof.
    intros Hx. unfold db.
    apply (G_mono c (hcpb s) (hcpb s') (fun p => wb s p + cb c s p) (fun p => wb s' p + cb c s' p)); auto.
    - apply hcpb_le1.
    - apply db_hb.
    - apply db_hr.
  Qed.

  Lemma db_drop x : x < njobs c -> hcpb s x = 1 -> hcpb s' x = 0 -> db c s' x + 1 <= db c s x.
  Proof.
    intros Hx H1 H2. unfold db.
    apply (G_drop c (hcpb s) (hcpb s') (fun p => wb s p + cb c s p) (fun p => wb s' p + cb c s' p)); auto.
    - apply hcpb_le1.
    - apply db_hb.
    - apply db_hr.
  Qed.
End Budgets.

(* ------------------------------------------------------------------ local ranks *)

Definition jrank (x : jstat) : nat :=
  match x with Idle => 4 | Created => 3 | Running => 2 | Cancelling => 1 | _ => 0 end.
Definition hrk (x : hstat) : nat :=
  match x with HNone => 3 | HCreated => 2 | HRunning => 1 | _ => 0 end.
Definition srank (x : sdphase) : nat :=
  match x with SdIdle => 3 | SdWait => 2 | SdTidy => 1 | SdOver => 0 end.
Definition rrank (c : cfg) (s : state) (n : nat) : nat :=
  match ph (Rn s n) with
  | PIdle => length (members c n) + 5
  | PMain => 4 + (length (members c n) - length (seen (Rn s n)))
  | PTidy _ | PCTidy => 3
  | PShut _ => 2
  | POver => 0
  end.

(* the live deadlines, holder by holder (cf. [deadlines]) *)
Definition jdl (c : cfg) (s : state) (j : nat) : list N :=
  match st (Jb s j) with
  | Running => if j_sched (jc c j) then [] else future s (tend (Jb s j))
  | Cancelling => future s (tend (Jb s j))
  | _ => []
  end.
Definition hdl (c : cfg) (s : state) (j : nat) : list N :=
  match hs (Hd s j) with
  | HRunning => if j_sched (jc c j) then [] else future s (hend (Hd s j))
  | _ => []
  end.
Definition rdl (s : state) (n : nat) : list N :=
  match ph (Rn s n) with PMain => future s (expi (Rn s n)) | _ => [] end.
Definition sdl' (s : state) (n : nat) : list N :=
  match sp (Sd s n) with SdWait => future s (sdl (Sd s n)) | _ => [] end.

Lemma deadlines_eq c s :
  deadlines c s = flat_map (fun j => jdl c s j ++ hdl c s j) (all_ids c)
                  ++ flat_map (fun n => rdl s n ++ sdl' s n) (scheds c).
Proof. reflexivity. Qed.

Lemma future_le1 s d : length (future s d) <= 1.
Proof. unfold future. destruct d as [x|]; [destruct (N.ltb (now s) x)|]; cbn; lia. Qed.

Lemma jdl_le1 c s j : length (jdl c s j) <= 1.
Proof.
  unfold jdl. destruct (st (Jb s j)); try (cbn; lia); [destruct (j_sched (jc c j)); [cbn; lia|]|]; apply future_le1.
Qed.
Lemma hdl_le1 c s j : length (hdl c s j) <= 1.
Proof.
  unfold hdl. destruct (hs (Hd s j)); try (cbn; lia). destruct (j_sched (jc c j)); [cbn; lia|]. apply future_le1.
Qed.
Lemma rdl_le1 s n : length (rdl s n) <= 1.
Proof. unfold rdl. destruct (ph (Rn s n)); try (cbn; lia). apply future_le1. Qed.
Lemma sdl_le1 s n : length (sdl' s n) <= 1.
Proof. unfold sdl'. destruct (sp (Sd s n)); try (cbn; lia). apply future_le1. Qed.

(* the four layers, each rank doubled to leave room for the deadline bit *)
Definition jl (c : cfg) (s : state) (x : nat) : nat := 2 * jrank (st (Jb s x)) + length (jdl c s x).
Definition hl (c : cfg) (s : state) (x : nat) : nat :=
  2 * (if Nat.eqb x 0 then 0 else hrk (hs (Hd s x))) + length (hdl c s x).
Definition rl (c : cfg) (s : state) (n : nat) : nat := 2 * rrank c s n + length (rdl s n).
Definition sl (s : state) (n : nat) : nat := 2 * srank (sp (Sd s n)) + length (sdl' s n).

Lemma jl_drop c s s' x : jrank (st (Jb s' x)) < jrank (st (Jb s x)) -> jl c s' x < jl c s x.
Proof. intros H. unfold jl. pose proof (jdl_le1 c s' x). lia. Qed.

Lemma jl_same c s s' x : st (Jb s' x) = st (Jb s x) -> tend (Jb s' x) = tend (Jb s x) -> now s' = now s ->
  jl c s' x = jl c s x.
Proof. intros H1 H2 H3. unfold jl, jdl, future. rewrite H1, H2, H3. reflexivity. Qed.

Lemma hl_drop c s s' x : x <> 0 -> hrk (hs (Hd s' x)) < hrk (hs (Hd s x)) -> hl c s' x < hl c s x.
Proof.
  intros H0 H. unfold hl. apply Nat.eqb_neq in H0. rewrite H0. pose proof (hdl_le1 c s' x). lia.
Qed.

Lemma hl_same c s s' x : hs (Hd s' x) = hs (Hd s x) -> hend (Hd s' x) = hend (Hd s x) -> now s' = now s ->
  hl c s' x = hl c s x.
Proof. intros H1 H2 H3. unfold hl, hdl, future. rewrite H1, H2, H3. reflexivity. Qed.

Lemma wf_root c : wf c = true -> 0 < njobs c /\ j_sched (jc c 0) = true.
Proof.
  intros W. assert (H0 : 0 < njobs c).
  { unfold wf in W. apply andb_true_iff in W. destruct W as [W _]. apply negb_true_iff, Nat.eqb_neq in W. lia. }
  split; [exact H0|]. pose proof (wf_job_of c 0 W H0) as H. unfold wf_job in H. cbn [Nat.eqb] in H.
  rewrite !andb_true_iff in H. tauto.
Qed.

Lemma hl_root c s : wf c = true -> hl c s 0 = 0.
Proof.
  intros W. destruct (wf_root c W) as [_ Hs]. unfold hl, hdl. cbn [Nat.eqb]. rewrite Hs.
  destruct (hs (Hd s 0)); reflexivity.
Qed.

Lemma cancel_j_tend a : tend (cancel_j a) = tend a.
Proof. unfold cancel_j. destruct (finished (st a)); reflexivity. Qed.

(* ------------------------------------------------------------------ the four layers never go up *)

Lemma J_layer lvl c s e s' x : wf c = true -> Inv1 c s -> step lvl c s e = Some s' -> now s' = now s ->
  jl c s' x <= jl c s x.
Proof.
  intros W I1 Hs En.
  destruct (J_effect lvl c s e s' W (i_pend c s I1) Hs x)
    as [H|H1 H2|HS H1 H2 H3 H4 H5|H1 H2 H3 H4 H5 H6 H7|H1 H2 H3 H4 H5 H6|HS H1 H2 H3 H4 H5 H6|HS H1 H2 H3 H4 H5
       |HS H1 H2 H3 H4 H5 H6|HS H1 H2 H3 H4 H5 H6 H7|HS H1 H2|HS H1 H2 H3].
  - rewrite (jl_same c s s' x); [lia|rewrite H; reflexivity|rewrite H; reflexivity|exact En].
  - rewrite (jl_same c s s' x); [lia|rewrite H1; apply cancel_j_st|rewrite H1; apply cancel_j_tend|exact En].
  - rewrite (jl_same c s s' x); [lia|rewrite H4, H1; reflexivity|rewrite H4; reflexivity|exact En].
  - apply Nat.lt_le_incl, jl_drop. rewrite H2, H1. cbn. lia.
  - apply Nat.lt_le_incl, jl_drop. rewrite H1, (create_begin_idle c s x I1 H3 H4). cbn. lia.
  - apply Nat.lt_le_incl, jl_drop. rewrite H3, H1. cbn. lia.
  - apply Nat.lt_le_incl, jl_drop. rewrite H5, H1. cbn. lia.
  - apply Nat.lt_le_incl, jl_drop. rewrite H1. destruct (st (Jb s' x)); try discriminate; cbn; lia.
  - apply Nat.lt_le_incl, jl_drop. rewrite H4, H1. cbn. lia.
  - apply Nat.lt_le_incl, jl_drop. rewrite H2. destruct H1 as [H1|[H1 _]]; rewrite H1; cbn; lia.
  - apply Nat.lt_le_incl, jl_drop. rewrite H3, H1. cbn. lia.
Qed.

Lemma H_layer c s s' x : wf c = true -> Inv8 c s -> hs_step c s s' -> now s' = now s ->
  hl c s' x <= hl c s x.
Proof.
  intros W I8 HS En.
  destruct (Nat.eq_dec x 0) as [->|Hx0]; [rewrite !hl_root by exact W; lia|].
  destruct (hd_view c s s' x W I8 HS) as [H|n1 H1 H2 H3 H4|H1 H2 H3 H4|H1 H2 H3 H4 H5|H1 H2 H3 H4 H5 H6|v H1 H2].
  - rewrite (hl_same c s s' x); [lia|rewrite H; reflexivity|rewrite H; reflexivity|exact En].
  - apply Nat.lt_le_incl, hl_drop; [exact Hx0|]. rewrite H4, (k_none c s I8 n1 x H1 H2). cbn. lia.
  - rewrite (hl_same c s s' x); [lia|exact H1|exact H2|exact En].
  - destruct H2 as [[G1 _]|(_ & _ & G & _)]; [|contradiction].
    apply Nat.lt_le_incl, hl_drop; [exact Hx0|]. rewrite G1.
    destruct H5 as [[E _]|[E _]]; rewrite E; cbn; lia.
  - apply Nat.lt_le_incl, hl_drop; [exact Hx0|]. rewrite H1. destruct H6 as [E|E]; rewrite E; cbn; lia.
  - apply Nat.lt_le_incl, hl_drop; [exact Hx0|]. rewrite H1.
    destruct H2 as [(_ & G & _ & ->)|[(_ & G & _ & ->)|[(_ & G & _ & ->)|(_ & G & _ & ->)]]]; rewrite G; cbn; lia.
Qed.

Lemma rrank_begun c s n : ph (Rn s n) <> PIdle -> rrank c s n <= length (members c n) + 4.
Proof. intros H. unfold rrank. destruct (ph (Rn s n)); try contradiction; lia. Qed.

Lemma rl_begin c s s' n : ph (Rn s n) = PIdle -> ph (Rn s' n) <> PIdle -> rl c s' n < rl c s n.
Proof.
  intros H1 H2. unfold rl. pose proof (rrank_begun c s' n H2). pose proof (rdl_le1 s' n).
  unfold rrank at 2. rewrite H1. lia.
Qed.

Lemma R_layer lvl c s e s' n : wf c = true -> Inv1 c s -> step lvl c s e = Some s' -> now s' = now s ->
  length (seen (Rn s' n)) <= length (members c n) ->
  rl c s' n <= rl c s n /\ mb s' n <= mb s n.
Proof.
  intros W I1 Hs En Hseen.
  destruct (R_effect lvl c s e s' W (i_pend c s I1) Hs n)
    as [Hq Hqa|Hact B1 B2 B3 B4 B5 B6 _ _ _ _ _ _ _|Hact A1 A2 A3 Apost A4 A5 A6 A7 A8].
  - destruct Hq as (Q1 & _ & Q3 & _ & Q5 & _).
    unfold rl, rrank, rdl, mb, future. rewrite Q1, Q3, Q5, En. split; lia.
  - assert (Hidle : ph (Rn s n) = PIdle).
    { destruct (rootb n) eqn:Er; [exact B1|]. apply rootb_false in Er. apply (i_l1 c s I1 n Er). right. exact B1. }
    split.
    + apply Nat.lt_le_incl, rl_begin; [exact Hidle|]. destruct B3 as [B3|B3]; rewrite B3; discriminate.
    + unfold mb. rewrite Hidle. destruct (ph (Rn s' n)); lia.
  - destruct A7 as [K|(Hph & d & _ & _ & U)].
    + destruct K as (_ & _ & _ & K4 & K5 & K6 & K7 & K8 & _).
      unfold rl, rrank, rdl, mb. destruct (ph (Rn s n)) as [| |w|w| |] eqn:E.
      * exfalso. apply A2. reflexivity.
      * destruct (K6 eq_refl) as [E'|E']; rewrite E'; cbn [length]; split; lia.
      * destruct (K5 w eq_refl) as [E'|[E'|E']]; rewrite E'; cbn [length]; split; lia.
      * destruct (K4 w eq_refl) as [E'|E']; rewrite E'; cbn [length]; split; lia.
      * destruct (K7 eq_refl) as [E'|E']; rewrite E'; cbn [length]; split; lia.
      * exfalso. apply K8. reflexivity.
    + destruct U as (U1 & _ & _ & [(w & [E'|E'] & _)|(E' & Hd & _)]).
      * unfold rl, rrank, rdl, mb. rewrite Hph, E'. cbn [length]. split; lia.
      * unfold rl, rrank, rdl, mb. rewrite Hph, E'. cbn [length]. split; lia.
      * split; [|unfold mb; rewrite Hph, E'; lia].
        unfold rl, rrank. rewrite Hph, E'. rewrite U1, app_length in *.
        assert (Hd1 : 1 <= length d) by (destruct d; [contradiction|cbn; lia]).
        pose proof (rdl_le1 s' n). lia.
Qed.

Lemma S_layer c s s' n : Inv8 c s -> hs_step c s s' -> now s' = now s ->
  sl s' n <= sl s n /\ wb s' n <= wb s n.
Proof.
  intros I8 HS En.
  assert (Hsame : Sd s' n = Sd s n -> sl s' n <= sl s n /\ wb s' n <= wb s n).
  { intros E. unfold sl, sdl', wb, future. rewrite E, En. split; lia. }
  assert (Hcreate : forall n0, Sd s' n = sd_create c s n0 n -> sl s' n <= sl s n /\ wb s' n <= wb s n).
  { intros n0 E. unfold sd_create in E. destruct (Nat.eqb_spec n n0) as [->|Hm]; [|apply Hsame; exact E].
    destruct (did (Sd s n0)) eqn:Ed; [apply Hsame; exact E|].
    pose proof (sdl_le1 s' n0). unfold sl, wb in *. rewrite (k_fresh c s I8 n0 Ed). rewrite E in *.
    unfold sd_started. destruct (members c n0); cbn [sp srank init_s] in *; split; lia. }
  hs_cases HS.
  - apply Hsame. apply hB.
  - apply (Hcreate n0). apply hB.
  - apply (Hcreate n0). apply hB.
  - pose proof (hB n) as E. destruct (Nat.eqb_spec n n0) as [->|Hm]; [|apply Hsame; exact E].
    unfold sl, sdl', wb. rewrite E, hSp. cbn [sd_over sp srank length]. split; lia.
  - pose proof (hB n) as E. destruct (Nat.eqb_spec n n0) as [->|Hm]; [|apply Hsame; exact E].
    unfold sl, sdl', wb. rewrite E, hSp. cbn [sp srank length]. split; lia.
  - pose proof (hB n) as E. destruct (Nat.eqb_spec n n0) as [->|Hm]; [|apply Hsame; exact E].
    unfold sl, sdl', wb. rewrite E, hSp. cbn [sd_over sp srank length]. split; lia.
  - pose proof (hB n) as E. destruct (Nat.eqb_spec n n0) as [->|Hm]; [|apply Hsame; exact E].
    unfold sl, sdl', wb. rewrite E. destruct hSp as [hSp|hSp]; rewrite hSp; cbn [sp srank length]; split; lia.
  - apply Hsame. apply hB.
Qed.

(* ------------------------------------------------------------------ who raises a cancel flag *)

Ltac sg H :=
  cbn [forallb guards app outs_guards] in H;
  repeat (apply andb_true_iff in H; let Q := fresh "Q" in destruct H as [Q H]).

Definition nr (s s' : state) : Prop := forall x, Jb s' x = Jb s x \/ cp (Jb s' x) = false.

Lemma nr_eq s s' : Jb s' = Jb s -> nr s s'.
Proof. intros E x. left. rewrite E. reflexivity. Qed.

Lemma nr_trans s s1 s2 : nr s s1 -> nr s1 s2 -> nr s s2.
Proof. intros H1 H2 x. destruct (H2 x) as [E|E]; [rewrite E; apply H1|right; exact E]. Qed.

Lemma nr_job_leave c n v s : nr s (job_leave c n v s).
Proof.
  intros y. rewrite Jb_job_leave. destruct (Nat.eqb n 0); [left; reflexivity|].
  destruct (Nat.eqb y n); [right; reflexivity|left; reflexivity].
Qed.

Lemma nr_end_cancelled c n s : nr s (fst (end_cancelled c n s)).
Proof.
  intros y. rewrite Jb_end_cancelled. destruct (Nat.eqb n 0); [left; reflexivity|].
  destruct (Nat.eqb y n); [right; reflexivity|left; reflexivity].
Qed.

Lemma nr_finish_run c n w r cu s : nr s (fst (finish_run c n w r cu s)).
Proof.
  intros y. rewrite Jb_finish_run. destruct (Nat.eqb n 0); [left; reflexivity|].
  destruct (Nat.eqb y n); [right; reflexivity|left; reflexivity].
Qed.

Lemma nr_clear_cp s n : nr s (clear_cp s n).
Proof.
  intros y. rewrite Jb_clear_cp. destruct (rootb n); [left; reflexivity|].
  destruct (Nat.eqb y n); [right; reflexivity|left; reflexivity].
Qed.

Lemma nr_react_begin c n s : nr s (fst (react_begin c n s)).
Proof.
  unfold react_begin. set (s0 := if Nat.eqb n 0 then s else _).
  assert (H0 : nr s s0).
  { intros y. unfold s0. destruct (Nat.eqb n 0); [left; reflexivity|]. cbn [Jb setR setJ]. unfold upd.
    destruct (Nat.eqb y n); [right; reflexivity|left; reflexivity]. }
  destruct (members c n) as [|m ms].
  - cbn [fst]. eapply nr_trans; [exact H0|]. eapply nr_trans; [|apply nr_job_leave]. apply nr_eq. reflexivity.
  - cbn [fst]. eapply nr_trans; [exact H0|]. intros y. cbn [Jb setR]. rewrite Jb_mapJ.
    destruct (memb y _); [right; reflexivity|left; reflexivity].
Qed.

Lemma nr_react_tidy c n s : nr s (fst (react_tidy c n s)).
Proof.
  unfold react_tidy. destruct (rcanc (Rn s n)); [apply nr_end_cancelled|].
  apply nr_eq. rewrite Jb_shutdown_start. reflexivity.
Qed.

Lemma nr_react_shut c n p cu s : nr s (fst (react_shut c n p cu s)).
Proof.
  unfold react_shut. pose proof (Jb_react_shut_wake_f c n p s) as E1.
  destruct (react_shut_wake c n p s) as [[s1 res] mo1]. cbn [fst] in E1.
  destruct res as [r|]; [|apply nr_eq; exact E1].
  destruct (sd_inline s n).
  - destruct (rcanc (Rn s n)).
    + pose proof (nr_end_cancelled c n s1) as H. destruct (end_cancelled c n s1) as [s2 mo2]. cbn [fst] in *.
      eapply nr_trans; [apply nr_eq; exact E1|exact H].
    + pose proof (nr_finish_run c n (why_of s n) r cu s1) as H.
      destruct (finish_run c n (why_of s n) r cu s1) as [s2 mo2]. cbn [fst] in *.
      eapply nr_trans; [apply nr_eq; exact E1|exact H].
  - cbn [fst]. apply nr_eq. rewrite Jb_hdone. exact E1.
Qed.

Lemma nr_react_shtidy c n cu s : nr s (fst (react_shtidy c n cu s)).
Proof.
  unfold react_shtidy, react_shtidy_wake. set (s1 := setS s n _).
  assert (E1 : Jb s1 = Jb s) by reflexivity.
  destruct (sd_inline s n).
  - destruct (rcanc (Rn s n)).
    + pose proof (nr_end_cancelled c n s1) as H. destruct (end_cancelled c n s1) as [s2 mo2]. cbn [fst] in *.
      eapply nr_trans; [apply nr_eq; exact E1|exact H].
    + eapply nr_trans; [apply nr_eq; exact E1|apply nr_finish_run].
  - cbn [fst]. apply nr_eq. rewrite Jb_hdone. exact E1.
Qed.

Lemma Jb_react_cancel_shut c n s :
  Jb (fst (react_cancel_shut c n s)) = if sd_inline s n then Jb (clear_cp s n) else Jb s.
Proof. unfold react_cancel_shut. destruct (sd_inline s n); reflexivity. Qed.

Lemma nr_react_cancel_shut c n s : nr s (fst (react_cancel_shut c n s)).
Proof.
  intros y. rewrite Jb_react_cancel_shut. destruct (sd_inline s n); [apply nr_clear_cp|left; reflexivity].
Qed.

Lemma nr_upd s s' j v : Jb s' = upd (Jb s) j v -> cp v = false -> nr s s'.
Proof.
  intros E Hv y. rewrite E. unfold upd. destruct (Nat.eqb y j); [right; exact Hv|left; reflexivity].
Qed.

(* the events that may raise the cancel flag of a job *)
Definition cp_raiser (e : event) : bool :=
  match e with
  | EWake _ KMain _ _ | ECancelled _ KMain _ | ECancelled _ KTidy _ | ECancelled _ KCTidy _ => true
  | _ => false
  end.

Lemma step_nr lvl c s e s' : step lvl c s e = Some s' -> cp_raiser e = false -> nr s s'.
Proof.
  intros Hs Hc. destruct (step_inv _ _ _ _ _ Hs) as [-> _].
  destruct e as [n o|n k d o|n k o|n o|j|j oc|j|j|j|j|j|j|j|j|t|t|jv sv]; cbn [reaction fst].
  - apply nr_react_begin.
  - destruct k; try discriminate; cbn [reaction].
    + apply nr_react_tidy.
    + apply nr_end_cancelled.
    + apply nr_react_shut.
    + apply nr_react_shtidy.
  - destruct k; try discriminate; cbn [reaction]; apply nr_react_cancel_shut.
  - apply nr_eq. apply Jb_react_sdstart.
  - eapply nr_upd; [reflexivity|reflexivity].
  - eapply nr_upd; [reflexivity|reflexivity].
  - eapply nr_upd; [reflexivity|reflexivity].
  - eapply nr_upd; [reflexivity|reflexivity].
  - eapply nr_upd; [reflexivity|reflexivity].
  - eapply nr_upd; [reflexivity|reflexivity].
  - apply nr_eq. reflexivity.
  - apply nr_eq. reflexivity.
  - apply nr_eq. reflexivity.
  - apply nr_eq. reflexivity.
  - apply nr_eq. reflexivity.
  - apply nr_eq. reflexivity.
  - apply nr_eq. reflexivity.
Qed.

Lemma nr_cpb c s s' : nr s s' -> forall x, cpb s' x <= cpb s x \/ (x <> 0 /\ jiss s s' (parent c x)).
Proof.
  intros H x. left. unfold cpb. destruct (H x) as [E|E]; rewrite E; [lia|]. destruct (cp (Jb s x)); lia.
Qed.

(* a main wake *)
Lemma Jb_react_main_cases c n d s x :
  let s' := fst (react_main c n d s) in
  Jb s' x = Jb s x \/ cp (Jb s' x) = false \/ (In x (pend (Rn s n)) /\ mb s' n = 0).
Proof.
  cbn zeta. unfold react_main. cbn zeta.
  assert (Hex : forall w v,
    Jb (fst (exit_main c n w (diff (pend (Rn s n)) d) (setR s n v))) x = Jb s x \/
    cp (Jb (fst (exit_main c n w (diff (pend (Rn s n)) d) (setR s n v))) x) = false \/
    (In x (pend (Rn s n)) /\ mb (fst (exit_main c n w (diff (pend (Rn s n)) d) (setR s n v))) n = 0)).
  { intros w v. rewrite Jb_exit_main, Jb_setR. destruct (memb x (diff (pend (Rn s n)) d)) eqn:Ex.
    - right. right. apply memb_In in Ex. apply In_diff in Ex. split; [tauto|].
      unfold mb. rewrite ph_exit_main_n. destruct (diff (pend (Rn s n)) d); reflexivity.
    - left. reflexivity. }
  destruct d as [|d0 d']; [apply Hex|].
  destruct (existsb _ (d0 :: d')); [apply Hex|].
  destruct (Nat.eqb _ _); [apply Hex|].
  cbn [fst Jb setR]. rewrite Jb_mapJ. destruct (memb x _); [right; left; reflexivity|left; reflexivity].
Qed.

Lemma pend_child c s n x : pend_ok c s -> In x (pend (Rn s n)) -> x <> 0 /\ parent c x = n.
Proof. intros Hp Hx. apply Hp in Hx. apply In_members in Hx. tauto. Qed.

Lemma raise_main c n d s x : pend_ok c s -> ph (Rn s n) = PMain ->
  cpb (fst (react_main c n d s)) x <= cpb s x \/
  (x <> 0 /\ jiss s (fst (react_main c n d s)) (parent c x)).
Proof.
  intros Hp Hph. destruct (Jb_react_main_cases c n d s x) as [E|[E|[Hin Hm]]].
  - left. unfold cpb. rewrite E. lia.
  - left. unfold cpb. rewrite E. destruct (cp (Jb s x)); lia.
  - right. destruct (pend_child c s n x Hp Hin) as [H0 H1]. split; [exact H0|]. rewrite H1.
    left. split; [unfold mb; rewrite Hph; reflexivity|exact Hm].
Qed.

(* a run that receives CancelledError at one of its own waits *)
Lemma Jb_cancel_list l s n x :
  Jb (mapJ cancel_j l (clear_cp s n)) x = Jb s x \/ cp (Jb (mapJ cancel_j l (clear_cp s n)) x) = false \/ In x l.
Proof.
  rewrite Jb_mapJ. destruct (memb x l) eqn:Ex; [right; right; apply memb_In; exact Ex|].
  destruct (nr_clear_cp s n x) as [E|E]; auto.
Qed.

Lemma cp_clear_self l s n : n <> 0 -> ~ In n l -> cp (Jb (mapJ cancel_j l (clear_cp s n)) n) = false.
Proof.
  intros H0 Hn. rewrite Jb_mapJ. apply memb_false in Hn. rewrite Hn, Jb_clear_cp.
  apply rootb_false in H0. rewrite H0, Nat.eqb_refl. reflexivity.
Qed.

Definition run_kind (k : wkind) : bool := match k with KMain | KTidy | KCTidy => true | _ => false end.

Lemma cancel_run_cases c n k o s x : wf c = true -> pend_ok c s -> n <> 0 -> run_kind k = true ->
  let s' := fst (reaction c s (ECancelled n k o)) in
  (Jb s' x = Jb s x \/ cp (Jb s' x) = false \/ In x (pend (Rn s n))) /\ cp (Jb s' n) = false.
Proof.
  intros W Hp H0 Hk. cbn zeta.
  assert (Hself : ~ In n (pend (Rn s n))).
  { intros Hin. apply (member_neq c n n W); [apply Hp; exact Hin|reflexivity]. }
  destruct k; try discriminate; cbn [reaction].
  - unfold react_cancel_main.
    assert (Hu : forall y, In y (filter (fun j => negb (jfin s j)) (pend (Rn s n))) -> In y (pend (Rn s n))).
    { intros y Hy. apply filter_In in Hy. tauto. }
    destruct (filter (fun j => negb (jfin s j)) (pend (Rn s n))) as [|u0 u'].
    + split.
      * destruct (nr_trans _ _ _ (nr_clear_cp s n) (nr_end_cancelled c n (clear_cp s n)) x) as [E|E]; auto.
      * rewrite Jb_end_cancelled. apply Nat.eqb_neq in H0. rewrite H0, Nat.eqb_refl. reflexivity.
    + cbn [fst]. rewrite !Jb_setR. split.
      * destruct (Jb_cancel_list (u0 :: u') s n x) as [E|[E|E]]; auto.
      * apply cp_clear_self; [exact H0|]. intros Hin. apply Hself. apply Hu. exact Hin.
  - unfold react_cancel_tidy. cbn [fst]. rewrite !Jb_setR. split.
    + destruct (Jb_cancel_list (pend (Rn s n)) s n x) as [E|[E|E]]; auto.
    + apply cp_clear_self; assumption.
  - unfold react_cancel_ctidy. cbn [fst]. split.
    + destruct (Jb_cancel_list (pend (Rn s n)) s n x) as [E|[E|E]]; auto.
    + apply cp_clear_self; assumption.
Qed.

Lemma cf_cp_step lvl c s e s' : wf c = true -> pend_ok c s -> step lvl c s e = Some s' ->
  forall x, cpb s' x <= cpb s x \/ (x <> 0 /\ jiss s s' (parent c x)).
Proof.
  intros W Hp Hs x. destruct (cp_raiser e) eqn:Ec; [|apply nr_cpb; eapply step_nr; eauto].
  destruct (step_inv _ _ _ _ _ Hs) as [Es' Hg].
  destruct e as [n o|n k d o|n k o|n o|j|j oc|j|j|j|j|j|j|j|j|t|t|jv sv]; try discriminate.
  - destruct k; try discriminate. cbn [reaction fst] in Es'. sg Hg. rewrite holds_0 in Q0.
    rewrite Es'. apply raise_main; [exact Hp|]. destruct (ph (Rn s n)); try discriminate. reflexivity.
  - assert (Hk : run_kind k = true) by (destruct k; try discriminate; reflexivity).
    assert (Ha : run_alive c s n true = true).
    { destruct k; try discriminate; sg Hg; rewrite holds_0 in Q; exact Q. }
    destruct (run_alive_true _ _ _ Ha) as (_ & _ & H0 & _ & Hcp).
    destruct (cancel_run_cases c n k o s x W Hp H0 Hk) as [Hx Hn]. cbn zeta in Hx, Hn. rewrite <- Es' in Hx, Hn.
    destruct Hx as [E|[E|Hin]].
    + left. unfold cpb. rewrite E. lia.
    + left. unfold cpb. rewrite E. destruct (cp (Jb s x)); lia.
    + right. destruct (pend_child c s n x Hp Hin) as [Hx0 Hx1]. split; [exact Hx0|]. rewrite Hx1.
      right. unfold cpb. rewrite Hcp, Hn. auto.
Qed.

(* ------------------------------------------------------------------ the same for the handler tasks *)

Definition nrh (s s' : state) : Prop := forall x, Hd s' x = Hd s x \/ hcp (Hd s' x) = false.

Lemma nrh_eq s s' : Hd s' = Hd s -> nrh s s'.
Proof. intros E x. left. rewrite E. reflexivity. Qed.

Lemma nrh_create c s s' n :
  (forall x, Hd s' x = if did (Sd s n) then Hd s x else if memb x (members c n) then create_h (Hd s x) else Hd s x) ->
  nrh s s'.
Proof.
  intros H x. rewrite H. destruct (did (Sd s n)); [left; reflexivity|].
  destruct (memb x (members c n)); [right; reflexivity|left; reflexivity].
Qed.

Lemma nrh_upd s s' j v : Hd s' = upd (Hd s) j v -> hcp v = false -> nrh s s'.
Proof.
  intros E Hv y. rewrite E. unfold upd. destruct (Nat.eqb y j); [right; exact Hv|left; reflexivity].
Qed.

Definition hcp_raiser (e : event) : bool :=
  match e with
  | EWake _ KShut _ _ | ECancelled _ KShut _ | ECancelled _ KShTidy _ => true
  | _ => false
  end.

Lemma step_nrh lvl c s e s' : wf c = true -> step lvl c s e = Some s' -> hcp_raiser e = false -> nrh s s'.
Proof.
  intros W Hs Hc. destruct (step_inv _ _ _ _ _ Hs) as [-> _].
  destruct e as [n o|n k d o|n k o|n o|j|j oc|j|j|j|j|j|j|j|j|t|t|jv sv]; cbn [reaction fst].
  - apply nrh_eq. destruct (HS_react_begin c n s) as (A & _). exact A.
  - destruct k; try discriminate; cbn [reaction].
    + pose proof (HS_react_main c n d s) as H. cbn zeta in H. destruct H as (_ & _ & [(A & _)|(_ & A & _)]).
      * intros x. left. apply A.
      * apply (nrh_create c s _ n). exact A.
    + pose proof (HS_react_tidy c n s) as H. cbn zeta in H. destruct H as (_ & _ & [(_ & _ & A & _)|(_ & _ & A & _)]).
      * intros x. left. apply A.
      * apply (nrh_create c s _ n). exact A.
    + apply nrh_eq. apply Hd_end_cancelled.
    + pose proof (HS_react_shtidy c n (culprit_of o) s) as H. cbn zeta in H. destruct H as (_ & _ & _ & H).
      destruct (sd_inline s n).
      * destruct H as [_ A]. intros x. left. apply A.
      * destruct H as [_ A]. intros x. rewrite A. destruct (Nat.eqb x n); [right; reflexivity|left; reflexivity].
  - destruct k; try discriminate; cbn [reaction]; apply nrh_eq.
    + destruct (HS_react_cancel_main c n s) as (A & _). exact A.
    + destruct (HS_react_cancel_tidy c n s) as (A & _). exact A.
    + destruct (HS_react_cancel_ctidy c n s) as (A & _). exact A.
  - pose proof (HS_react_sdstart c n s W) as H. cbn zeta in H. destruct H as (_ & _ & _ & A).
    intros x. rewrite A. destruct (Nat.eqb x n).
    + right. destruct (did (Sd s n)); [reflexivity|]. destruct (members c n); reflexivity.
    + destruct (did (Sd s n)); [left; reflexivity|].
      destruct (memb x (members c n)); [right; reflexivity|left; reflexivity].
  - apply nrh_eq. reflexivity.
  - apply nrh_eq. reflexivity.
  - apply nrh_eq. reflexivity.
  - apply nrh_eq. reflexivity.
  - apply nrh_eq. reflexivity.
  - apply nrh_eq. reflexivity.
  - eapply nrh_upd; [reflexivity|reflexivity].
  - eapply nrh_upd; [reflexivity|reflexivity].
  - eapply nrh_upd; [reflexivity|reflexivity].
  - eapply nrh_upd; [reflexivity|reflexivity].
  - apply nrh_eq. reflexivity.
  - apply nrh_eq. reflexivity.
  - apply nrh_eq. reflexivity.
Qed.

Lemma nrh_hcpb c s s' : nrh s s' -> forall x, hcpb s' x <= hcpb s x \/ (x <> 0 /\ hiss s s' (parent c x)).
Proof.
  intros H x. left. unfold hcpb. destruct (H x) as [E|E]; rewrite E; [lia|]. destruct (hcp (Hd s x)); lia.
Qed.

Lemma member_child c n x : In x (members c n) -> x <> 0 /\ parent c x = n.
Proof. intros Hx. apply In_members in Hx. tauto. Qed.

Lemma cancel_h_cases a : cancel_h a = a \/ hcp (cancel_h a) = true.
Proof. unfold cancel_h. destruct (hfinished (hs a)); [left; reflexivity|right; reflexivity]. Qed.

(* the shutdown wait of n returns with stragglers *)
Lemma raise_shut c n p cu s x : sp (Sd s n) = SdWait -> (forall y, In y p -> In y (members c n)) ->
  hcpb (fst (react_shut c n p cu s)) x <= hcpb s x \/
  (x <> 0 /\ hiss s (fst (react_shut c n p cu s)) (parent c x)).
Proof.
  intros Hsp Hp. pose proof (HS_react_shut c n p cu s) as H. cbn zeta in H. destruct H as (_ & _ & H).
  destruct p as [|p0 p'].
  - destruct H as (_ & H). apply nrh_hcpb. intros y. destruct (sd_inline s n).
    + destruct H as [_ A]. left. apply A.
    + destruct H as [_ A]. rewrite A. destruct (Nat.eqb y n); [right; reflexivity|left; reflexivity].
  - destruct H as (_ & B & A). destruct (memb x (p0 :: p')) eqn:Ex.
    + right. apply memb_In in Ex. destruct (member_child c n x (Hp x Ex)) as [H0 H1].
      split; [exact H0|]. rewrite H1. left. unfold wb. rewrite B, Nat.eqb_refl, Hsp. auto.
    + left. unfold hcpb. rewrite A, Ex. lia.
Qed.

(* CancelledError inside the shutdown activity of n *)
Lemma raise_cancel_shut c n s x : wf c = true ->
  (forall y, In y (sd_cancel_list c s n) -> In y (members c n)) ->
  (sd_inline s n = true -> cp (Jb s n) = true /\ n <> 0) ->
  (sd_inline s n = false -> hcp (Hd s n) = true) ->
  let s' := fst (react_cancel_shut c n s) in
  (hcpb s' x <= hcpb s x \/ (x <> 0 /\ hiss s s' (parent c x))) /\
  (sd_inline s n = true -> cpb s n = 1 /\ cpb s' n = 0) /\
  (sd_inline s n = false -> hcpb s n = 1 /\ hcpb s' n = 0).
Proof.
  intros W Hl Hin Hni. cbn zeta.
  pose proof (HS_react_cancel_shut c n s) as H. cbn zeta in H. destruct H as (_ & _ & _ & A).
  assert (Hself : memb n (sd_cancel_list c s n) = false).
  { apply memb_false. intros Hx. apply (member_neq c n n W (Hl n Hx)). reflexivity. }
  assert (D1 : sd_inline s n = true -> cpb s n = 1 /\ cpb (fst (react_cancel_shut c n s)) n = 0).
  { intros Ei. destruct (Hin Ei) as [Hcp H0]. unfold cpb. rewrite Hcp. split; [reflexivity|].
    rewrite Jb_react_cancel_shut, Ei, Jb_clear_cp. apply rootb_false in H0. rewrite H0, Nat.eqb_refl. reflexivity. }
  assert (D2 : sd_inline s n = false -> hcpb s n = 1 /\ hcpb (fst (react_cancel_shut c n s)) n = 0).
  { intros Ei. unfold hcpb. rewrite (Hni Ei). split; [reflexivity|].
    rewrite A, Hself, Ei, Nat.eqb_refl. reflexivity. }
  split; [|split; [exact D1|exact D2]].
  destruct (memb x (sd_cancel_list c s n)) eqn:Ex.
  - right. apply memb_In in Ex. destruct (member_child c n x (Hl x Ex)) as [H0 H1].
    split; [exact H0|]. rewrite H1. right. destruct (sd_inline s n) eqn:Ei; [left; apply D1|right; apply D2]; reflexivity.
  - left. unfold hcpb at 1. rewrite A, Ex. destruct (sd_inline s n); [fold (hcpb s x); lia|].
    destruct (Nat.eqb x n); [cbn [hcp]; lia|fold (hcpb s x); lia].
Qed.

Lemma cancel_list_members c s n : Inv8 c s -> forall y, In y (sd_cancel_list c s n) -> In y (members c n).
Proof.
  intros I8 y Hy. unfold sd_cancel_list in Hy.
  destruct (sp (Sd s n)); try (apply (k_spend c s I8 n y Hy)). exact Hy.
Qed.

(* what the guards of a cancellation inside the shutdown activity say *)
Lemma cancel_shut_guards c s n k o s' : step 3 c s (ECancelled n k o) = Some s' -> run_kind k = false ->
  s' = fst (react_cancel_shut c n s) /\ sd_thread c s n true /\ sd_active (sp (Sd s n)).
Proof.
  intros Hs Hk. destruct (step_inv _ _ _ _ _ Hs) as [Es' Hg].
  destruct k; try discriminate; cbn [reaction fst] in Es'; sg Hg;
    (split; [exact Es'|]); (split; [apply (sd_thread_of 3 c s n true (le_n 3) Q Q0)|]);
    rewrite holds_ge in Q1 by lia; destruct (sp (Sd s n)); try discriminate; [left|right]; reflexivity.
Qed.

Lemma thread_true c s n : sd_thread c s n true ->
  (sd_inline s n = true -> cp (Jb s n) = true /\ n <> 0) /\ (sd_inline s n = false -> hcp (Hd s n) = true).
Proof.
  unfold sd_thread. destruct (sd_inline s n).
  - intros Ha. destruct (run_alive_true _ _ _ Ha) as (_ & _ & H0 & _ & Hcp). split; [auto|discriminate].
  - intros [_ H]. split; [discriminate|auto].
Qed.

Lemma cf_hcp_step c s e s' : wf c = true -> Inv8 c s -> step 3 c s e = Some s' ->
  forall x, hcpb s' x <= hcpb s x \/ (x <> 0 /\ hiss s s' (parent c x)).
Proof.
  intros W I8 Hs x. destruct (hcp_raiser e) eqn:Ec; [|apply nrh_hcpb; eapply step_nrh; eauto].
  destruct e as [n o|n k d o|n k o|n o|j|j oc|j|j|j|j|j|j|j|j|t|t|jv sv]; try discriminate.
  - destruct k; try discriminate. destruct (step_inv _ _ _ _ _ Hs) as [Es' Hg]. cbn [reaction fst] in Es'. sg Hg.
    rewrite holds_ge in Q1, Q2 by lia. rewrite Es'. apply raise_shut.
    + destruct (sp (Sd s n)); try discriminate. reflexivity.
    + apply andb_true_iff in Q2. destruct Q2 as [Q2 _]. intros y Hy.
      apply (seteqb_In _ _ Q2) in Hy. unfold hpending in Hy. apply filter_In in Hy. tauto.
  - assert (Hk : run_kind k = false) by (destruct k; try discriminate; reflexivity).
    destruct (cancel_shut_guards c s n k o s' Hs Hk) as (Es' & Hth & Hact).
    destruct (thread_true c s n Hth) as [T1 T2].
    destruct (raise_cancel_shut c n s x W (cancel_list_members c s n I8) T1 T2) as [H _].
    cbn zeta in H. rewrite Es'. exact H.
Qed.

(* ------------------------------------------------------------------ all the facts about one step *)

Lemma seen_bound c s n : Inv5 c s -> length (seen (Rn s n)) <= length (members c n).
Proof.
  intros I5. apply NoDup_incl_length; [apply (b_seen_nd c s I5)|].
  intros x Hx. apply (b_seen_done c s I5 n x Hx).
Qed.

Record stepinfo (c : cfg) (s s' : state) : Prop := {
  si_1 : Inv1 c s;
  si_8 : Inv8 c s;
  si_now : now s' = now s;
  si_hs : hs_step c s s';
  si_seen : forall n, length (seen (Rn s' n)) <= length (members c n);
  si_cf : cfacts c s s'
}.

Lemma step_info c h s e s' : wf c = true -> Reach 3 c h s -> step 3 c s e = Some s' -> is_tick e = false ->
  stepinfo c s s'.
Proof.
  intros W Hr Hs Ht.
  destruct (InvE_reach 3 c h s W (le_n 3) Hr) as [ID I8].
  pose proof (ic_1 c s (id_c c s ID)) as I1.
  pose proof (now_step 3 c s e s' W Hs Ht) as En.
  pose proof (HS_effect 3 c s e s' W I1 (le_n 3) Hs) as HS.
  assert (Hseen : forall n, length (seen (Rn s' n)) <= length (members c n)).
  { intros n. apply seen_bound. apply (ic_5 c s').
    apply (InvC_reach 3 c (h ++ [e]) s' W). eapply reach_snoc; eauto. }
  split; auto. split.
  - intros p. apply (R_layer 3 c s e s' p W I1 Hs En (Hseen p)).
  - intros p. apply (S_layer c s s' p I8 HS En).
  - apply (cf_cp_step 3 c s e s' W (i_pend c s I1) Hs).
  - apply (cf_hcp_step c s e s' W I8 Hs).
Qed.

(* ------------------------------------------------------------------ the potential *)

Definition PA (c : cfg) (s : state) (x : nat) : nat := jl c s x + hl c s x + cb c s x + db c s x.
Definition PB (c : cfg) (s : state) (n : nat) : nat := rl c s n + sl s n.
Definition rho (c : cfg) (s : state) : nat := sumf (PA c s) (all_ids c) + sumf (PB c s) (scheds c).

Lemma PA_le c s s' x : wf c = true -> stepinfo c s s' -> forall lvl e, step lvl c s e = Some s' ->
  x < njobs c ->
  jl c s' x <= jl c s x /\ hl c s' x <= hl c s x /\ cb c s' x <= cb c s x /\ db c s' x <= db c s x.
Proof.
  intros W SI lvl e Hs Hx. destruct SI as [I1 I8 En HS Hseen CF].
  split; [apply (J_layer lvl c s e s' x W I1 Hs En)|].
  split; [apply (H_layer c s s' x W I8 HS En)|].
  split; [apply (cb_mono c s s' W CF x Hx)|apply (db_mono c s s' W CF x Hx)].
Qed.

Lemma PB_le c s s' n : wf c = true -> stepinfo c s s' -> forall lvl e, step lvl c s e = Some s' ->
  rl c s' n <= rl c s n /\ sl s' n <= sl s n.
Proof.
  intros W SI lvl e Hs. destruct SI as [I1 I8 En HS Hseen CF].
  split; [apply (R_layer lvl c s e s' n W I1 Hs En (Hseen n))|apply (S_layer c s s' n I8 HS En)].
Qed.

(* some component strictly decreases *)
Definition strictw (c : cfg) (s s' : state) : Prop :=
  (exists x, x < njobs c /\
     (jl c s' x < jl c s x \/ hl c s' x < hl c s x \/ cb c s' x < cb c s x \/ db c s' x < db c s x))
  \/ (exists n, In n (scheds c) /\ (rl c s' n < rl c s n \/ sl s' n < sl s n)).

Lemma rho_step c s s' lvl e : wf c = true -> stepinfo c s s' -> step lvl c s e = Some s' ->
  rho c s' <= rho c s /\ (strictw c s s' -> rho c s' < rho c s).
Proof.
  intros W SI Hs.
  assert (HA : forall x, In x (all_ids c) -> PA c s' x <= PA c s x).
  { intros x Hx. apply In_all_ids in Hx. destruct (PA_le c s s' x W SI lvl e Hs Hx) as (A & B & C & D).
    unfold PA. lia. }
  assert (HB : forall n, In n (scheds c) -> PB c s' n <= PB c s n).
  { intros n _. destruct (PB_le c s s' n W SI lvl e Hs) as (A & B). unfold PB. lia. }
  pose proof (sumf_le _ _ _ HA) as LA. pose proof (sumf_le _ _ _ HB) as LB.
  split; [unfold rho; lia|].
  intros [(x & Hx & Hlt)|(n & Hn & Hlt)].
  - assert (SA : sumf (PA c s') (all_ids c) < sumf (PA c s) (all_ids c)).
    { apply (sumf_lt _ _ _ x HA); [apply In_all_ids; exact Hx|].
      destruct (PA_le c s s' x W SI lvl e Hs Hx) as (A & B & C & D). unfold PA. lia. }
    unfold rho. lia.
  - assert (SB : sumf (PB c s') (scheds c) < sumf (PB c s) (scheds c)).
    { apply (sumf_lt _ _ _ n HB Hn). destruct (PB_le c s s' n W SI lvl e Hs) as (A & B). unfold PB. lia. }
    unfold rho. lia.
Qed.

(* ------------------------------------------------------------------ every real event pays *)

Definition weighty (e : event) : bool :=
  match e with
  | EPoll _ _ | EGrace _ => false
  | ESdStart n _ => negb (rootb n)
  | _ => true
  end.

Lemma In_scheds c n : sched_id c n = true -> In n (scheds c).
Proof.
  unfold sched_id, scheds. rewrite andb_true_iff, Nat.ltb_lt. intros [H1 H2].
  apply filter_In. split; [apply In_all_ids; exact H2|exact H1].
Qed.

Lemma sched_id_lt c n : sched_id c n = true -> n < njobs c.
Proof. unfold sched_id. rewrite andb_true_iff, Nat.ltb_lt. tauto. Qed.

Lemma alive_sched c s n b : run_alive c s n b = true -> sched_id c n = true.
Proof. unfold run_alive, sched_id. rewrite !andb_true_iff. tauto. Qed.

Lemma rl_main_upd c s s' n d : ph (Rn s n) = PMain -> main_upd c s s' n d ->
  length (seen (Rn s' n)) <= length (members c n) -> rl c s' n < rl c s n.
Proof.
  intros Hph U Hseen. destruct U as (U1 & _ & _ & [(w & [E'|E'] & _)|(E' & Hd & _)]).
  - unfold rl, rrank, rdl. rewrite Hph, E'. cbn [length]. lia.
  - unfold rl, rrank, rdl. rewrite Hph, E'. cbn [length]. lia.
  - unfold rl, rrank. rewrite Hph, E'. rewrite U1, app_length in *.
    assert (Hd1 : 1 <= length d) by (destruct d; [contradiction|cbn; lia]).
    pose proof (rdl_le1 s' n). lia.
Qed.

Lemma rl_phase c s s' n : rrank c s' n < rrank c s n -> ph (Rn s' n) <> PMain -> rl c s' n < rl c s n.
Proof.
  intros H Hm. unfold rl. assert (E : rdl s' n = []) by (unfold rdl; destruct (ph (Rn s' n)); try reflexivity; contradiction).
  rewrite E. cbn [length]. lia.
Qed.

Lemma sl_phase s s' n : srank (sp (Sd s' n)) < srank (sp (Sd s n)) -> sl s' n < sl s n.
Proof. intros H. unfold sl. pose proof (sdl_le1 s' n). lia. Qed.

Lemma st_eff_start c j s : st (Jb (eff_start c j s) j) = Running.
Proof. unfold eff_start. rewrite Jb_bump_q, Jb_setJ, upd_same. reflexivity. Qed.
Lemma st_eff_finish c j oc s : jrank (st (Jb (eff_finish c j oc s) j)) = 0.
Proof. unfold eff_finish. rewrite Jb_bump_q, Jb_setJ, upd_same. destruct oc; reflexivity. Qed.
Lemma st_eff_cancel_hit c j s : st (Jb (eff_cancel_hit c j s) j) = Cancelling.
Proof. unfold eff_cancel_hit. rewrite Jb_setJ, upd_same. reflexivity. Qed.
Lemma st_eff_cancel_over c j s : st (Jb (eff_cancel_over c j s) j) = Cancelled.
Proof. unfold eff_cancel_over. rewrite Jb_bump_q, Jb_setJ, upd_same. reflexivity. Qed.
Lemma st_eff_gone j s : st (Jb (eff_gone j s) j) = Cancelled.
Proof. unfold eff_gone. rewrite Jb_setJ, upd_same. reflexivity. Qed.

Lemma weighty_strict c h s e s' : wf c = true -> Reach 3 c h s -> step 3 c s e = Some s' ->
  stepinfo c s s' -> weighty e = true -> strictw c s s'.
Proof.
  intros W Hr Hs SI Hw. destruct SI as [I1 I8 En HS Hseen CF].
  destruct (step_inv _ _ _ _ _ Hs) as [Es' Hg].
  destruct e as [n o|n k d o|n k o|n o|j|j oc|j|j|j|j|j|j|j|j|t|t|jv sv]; try discriminate;
    cbn [reaction fst] in Es'.
  - (* EBegin *)
    sg Hg. rewrite holds_0 in Q, Q0. right. exists n. split; [apply In_scheds; exact Q|]. left. apply rl_begin.
    + destruct (rootb n) eqn:Er; [destruct (ph (Rn s n)); try discriminate; reflexivity|].
      apply rootb_false in Er. apply (i_l1 c s I1 n Er). destruct (st (Jb s n)); try discriminate. right. reflexivity.
    + rewrite Es', ph_react_begin, Nat.eqb_refl. destruct (members c n); discriminate.
  - (* EWake *)
    destruct k; cbn [reaction fst] in Es'.
    + sg Hg. rewrite holds_0 in Q, Q0. right. exists n.
      split; [apply In_scheds; apply (alive_sched c s n false Q)|]. left.
      assert (Hph : ph (Rn s n) = PMain) by (destruct (ph (Rn s n)); try discriminate; reflexivity).
      apply (rl_main_upd c s s' n d Hph); [|apply Hseen]. rewrite Es'. apply react_main_upd. exact Hph.
    + sg Hg. rewrite holds_0 in Q, Q0. right. exists n.
      split; [apply In_scheds; apply (alive_sched c s n false Q)|]. left.
      pose proof (HS_react_tidy c n s) as H. cbn zeta in H. rewrite <- Es' in H.
      destruct H as (_ & _ & [(_ & E' & _)|(_ & E' & _)]); (apply rl_phase; [|rewrite E'; discriminate]);
        unfold rrank; rewrite E'; destruct (ph (Rn s n)); try discriminate; lia.
    + sg Hg. rewrite holds_0 in Q, Q0. right. exists n.
      split; [apply In_scheds; apply (alive_sched c s n false Q)|]. left.
      assert (E' : ph (Rn s' n) = POver) by (rewrite Es', ph_end_cancelled, Nat.eqb_refl; reflexivity).
      apply rl_phase; [|rewrite E'; discriminate]. unfold rrank. rewrite E'.
      destruct (ph (Rn s n)); try discriminate; lia.
    + sg Hg. rewrite holds_ge in Q1 by lia.
      assert (Hsp : sp (Sd s n) = SdWait) by (destruct (sp (Sd s n)); try discriminate; reflexivity).
      right. exists n. split; [apply In_scheds; apply (k_valid c s I8); apply (active_did c s n I8); left; exact Hsp|].
      right. apply sl_phase. rewrite Hsp.
      pose proof (HS_react_shut c n d (culprit_of o) s) as H. cbn zeta in H. rewrite <- Es' in H.
      destruct H as (_ & _ & H). destruct d as [|d0 d'].
      * destruct H as (B & _). rewrite B, Nat.eqb_refl. cbn. lia.
      * destruct H as (_ & B & _). rewrite B, Nat.eqb_refl. cbn. lia.
    + sg Hg. rewrite holds_ge in Q1 by lia.
      assert (Hsp : sp (Sd s n) = SdTidy) by (destruct (sp (Sd s n)); try discriminate; reflexivity).
      right. exists n. split; [apply In_scheds; apply (k_valid c s I8); apply (active_did c s n I8); right; exact Hsp|].
      right. apply sl_phase. rewrite Hsp.
      pose proof (HS_react_shtidy c n (culprit_of o) s) as H. cbn zeta in H. rewrite <- Es' in H.
      destruct H as (_ & _ & B & _). rewrite B, Nat.eqb_refl. cbn. lia.
  - (* ECancelled *)
    left. exists n. destruct (run_kind k) eqn:Hk.
    + assert (Ha : run_alive c s n true = true).
      { destruct k; try discriminate; sg Hg; rewrite holds_0 in Q; exact Q. }
      destruct (run_alive_true _ _ _ Ha) as (_ & Hn & H0 & _ & Hcp).
      split; [exact Hn|]. right. right. left.
      destruct (cancel_run_cases c n k o s n W (i_pend c s I1) H0 Hk) as [_ Hc]. cbn zeta in Hc.
      assert (Hd : cb c s' n + 1 <= cb c s n).
      { apply (cb_drop c s s' W CF n Hn); unfold cpb; [rewrite Hcp; reflexivity|].
        rewrite Es'. destruct k; try discriminate; cbn [reaction fst] in *; rewrite Hc; reflexivity. }
      lia.
    + destruct (cancel_shut_guards c s n k o s' Hs Hk) as (E' & Hth & Hact).
      destruct (thread_true c s n Hth) as [T1 T2].
      destruct (raise_cancel_shut c n s n W (cancel_list_members c s n I8) T1 T2) as (_ & D1 & D2).
      cbn zeta in D1, D2. rewrite <- E' in D1, D2.
      assert (Hn : n < njobs c).
      { apply sched_id_lt. apply (k_valid c s I8). apply (active_did c s n I8). exact Hact. }
      split; [exact Hn|]. right. right. destruct (sd_inline s n).
      * left. destruct (D1 eq_refl) as [A B]. pose proof (cb_drop c s s' W CF n Hn A B). lia.
      * right. destruct (D2 eq_refl) as [A B]. pose proof (db_drop c s s' W CF n Hn A B). lia.
  - (* ESdStart of a nested scheduler *)
    cbn [weighty] in Hw. apply negb_true_iff in Hw. pose proof Hw as H0. apply rootb_false in H0.
    sg Hg. rewrite holds_0 in Q. rewrite holds_ge in Q0 by lia.
    left. exists n. split; [apply sched_id_lt; exact Q|]. right. left. apply hl_drop; [exact H0|].
    assert (Hc : hs (Hd s n) = HCreated).
    { destruct (hs (Hd s n)); try discriminate; try reflexivity; rewrite Hw in Q0; discriminate. }
    pose proof (HS_react_sdstart c n s W) as H. cbn zeta in H. rewrite <- Es' in H. destruct H as (_ & _ & _ & A).
    rewrite A, Nat.eqb_refl, Hc. destruct (did (Sd s n)); [cbn; lia|]. destruct (members c n); cbn; lia.
  - (* EStart *)
    sg Hg. rewrite holds_0 in Q, Q0. destruct (atomic_id_spec _ _ Q) as (_ & Hj & _).
    left. exists j. split; [exact Hj|]. left. apply jl_drop. rewrite Es', st_eff_start.
    destruct (st (Jb s j)); try discriminate. cbn. lia.
  - (* EFinish *)
    sg Hg. rewrite holds_0 in Q, Q0. destruct (atomic_id_spec _ _ Q) as (_ & Hj & _).
    left. exists j. split; [exact Hj|]. left. apply jl_drop. rewrite Es', st_eff_finish.
    destruct (st (Jb s j)); try discriminate. cbn. lia.
  - (* ECancelHit *)
    sg Hg. rewrite holds_0 in Q, Q0. destruct (atomic_id_spec _ _ Q) as (_ & Hj & _).
    left. exists j. split; [exact Hj|]. left. apply jl_drop. rewrite Es', st_eff_cancel_hit.
    destruct (st (Jb s j)); try discriminate. cbn. lia.
  - (* ECancelEnd *)
    sg Hg. rewrite holds_0 in Q, Q0. destruct (atomic_id_spec _ _ Q) as (_ & Hj & _).
    left. exists j. split; [exact Hj|]. left. apply jl_drop. rewrite Es', st_eff_cancel_over.
    destruct (st (Jb s j)); try discriminate. cbn. lia.
  - (* ECancelAbort *)
    sg Hg. rewrite holds_0 in Q, Q0. destruct (atomic_id_spec _ _ Q) as (_ & Hj & _).
    left. exists j. split; [exact Hj|]. left. apply jl_drop. rewrite Es', st_eff_cancel_over.
    destruct (st (Jb s j)); try discriminate. cbn. lia.
  - (* EGone *)
    sg Hg. rewrite holds_0 in Q, Q0. apply andb_true_iff in Q. destruct Q as [Hj _]. apply Nat.ltb_lt in Hj.
    left. exists j. split; [exact Hj|]. left. apply jl_drop. rewrite Es', st_eff_gone.
    destruct (st (Jb s j)); try discriminate. cbn. lia.
  - (* EHStart *)
    sg Hg. rewrite holds_0 in Q. rewrite holds_ge in Q0 by lia. destruct (atomic_id_spec _ _ Q) as (_ & Hj & Hj0).
    left. exists j. split; [exact Hj|]. right. left. apply hl_drop; [exact Hj0|].
    rewrite Es'. cbn [Hd setH]. rewrite upd_same. destruct (hs (Hd s j)); try discriminate. cbn. lia.
  - (* EHEnd *)
    sg Hg. rewrite holds_0 in Q. rewrite holds_ge in Q0 by lia. destruct (atomic_id_spec _ _ Q) as (_ & Hj & Hj0).
    left. exists j. split; [exact Hj|]. right. left. apply hl_drop; [exact Hj0|].
    rewrite Es'. cbn [Hd setH]. rewrite upd_same. destruct (hs (Hd s j)); try discriminate. cbn. lia.
  - (* EHCancel *)
    sg Hg. rewrite holds_0 in Q. rewrite holds_ge in Q0 by lia. destruct (atomic_id_spec _ _ Q) as (_ & Hj & Hj0).
    left. exists j. split; [exact Hj|]. right. left. apply hl_drop; [exact Hj0|].
    rewrite Es'. cbn [Hd setH]. rewrite upd_same. destruct (hs (Hd s j)); try discriminate. cbn. lia.
  - (* EHGone *)
    sg Hg. rewrite holds_0 in Q. rewrite holds_ge in Q0 by lia. apply Nat.ltb_lt in Q.
    assert (Hc : hs (Hd s j) = HCreated) by (destruct (hs (Hd s j)); try discriminate; reflexivity).
    assert (Hj0 : j <> 0) by (intros ->; apply (k_root c s I8); exact Hc).
    left. exists j. split; [exact Q|]. right. left. apply hl_drop; [exact Hj0|].
    rewrite Es'. cbn [Hd setH]. rewrite upd_same, Hc. cbn. lia.
  - (* ETick is handled separately *)
    exfalso. assert (Ht : now s' <> now s).
    { sg Hg. rewrite holds_0 in Q. apply N.ltb_lt in Q. rewrite Es'. cbn [now setNow]. lia. }
    contradiction.
Qed.

(* ------------------------------------------------------------------ the clock *)

Definition PA0 (c : cfg) (s : state) (x : nat) : nat :=
  2 * jrank (st (Jb s x)) + 2 * (if Nat.eqb x 0 then 0 else hrk (hs (Hd s x))) + cb c s x + db c s x.
Definition PB0 (c : cfg) (s : state) (n : nat) : nat := 2 * rrank c s n + 2 * srank (sp (Sd s n)).

Lemma sumf_ext f g l : (forall x, f x = g x) -> sumf f l = sumf g l.
Proof. intros H. induction l as [|a l IH]; cbn [sumf]; [reflexivity|]. rewrite H, IH. reflexivity. Qed.

Lemma rho_split c s :
  rho c s = sumf (PA0 c s) (all_ids c) + sumf (PB0 c s) (scheds c) + length (deadlines c s).
Proof.
  rewrite deadlines_eq, app_length, !length_flat_map_sum. unfold rho.
  rewrite (sumf_ext (PA c s) (fun x => PA0 c s x + length (jdl c s x ++ hdl c s x)))
    by (intros x; unfold PA, PA0, jl, hl; rewrite app_length; lia).
  rewrite (sumf_ext (PB c s) (fun n => PB0 c s n + length (rdl s n ++ sdl' s n)))
    by (intros n; unfold PB, PB0, rl, sl; rewrite app_length; lia).
  rewrite !sumf_add. lia.
Qed.

Lemma filter_flat_map (f : N -> bool) (g : nat -> list N) l :
  filter f (flat_map g l) = flat_map (fun x => filter f (g x)) l.
Proof.
  induction l as [|a l IH]; cbn [flat_map]; [reflexivity|]. rewrite filter_app, IH. reflexivity.
Qed.

Lemma future_setNow s t d : (now s < t)%N ->
  future (setNow s t) d = filter (fun x => N.ltb t x) (future s d).
Proof.
  intros Hlt. unfold future. cbn [now setNow]. destruct d as [x|]; [|reflexivity].
  destruct (N.ltb_spec (now s) x) as [H1|H1]; cbn [filter].
  - destruct (N.ltb t x); reflexivity.
  - destruct (N.ltb_spec t x) as [H2|H2]; [lia|reflexivity].
Qed.

Lemma deadlines_setNow c s t : (now s < t)%N ->
  deadlines c (setNow s t) = filter (fun x => N.ltb t x) (deadlines c s).
Proof.
  intros Hlt. unfold deadlines. rewrite filter_app, !filter_flat_map. f_equal.
  - apply flat_map_ext. intros j. rewrite filter_app. cbn [Jb Hd setNow]. f_equal.
    + destruct (st (Jb s j)); try reflexivity; [destruct (j_sched (jc c j)); [reflexivity|]|]; apply future_setNow; exact Hlt.
    + destruct (hs (Hd s j)); try reflexivity. destruct (j_sched (jc c j)); [reflexivity|]. apply future_setNow; exact Hlt.
  - apply flat_map_ext. intros n. rewrite filter_app. cbn [Rn Sd setNow]. f_equal.
    + destruct (ph (Rn s n)); try reflexivity. apply future_setNow; exact Hlt.
    + destruct (sp (Sd s n)); try reflexivity. apply future_setNow; exact Hlt.
Qed.

Lemma filter_len_le (f : N -> bool) l : length (filter f l) <= length l.
Proof. induction l as [|a l IH]; cbn [filter length]; [lia|]. destruct (f a); cbn [length]; lia. Qed.

Lemma filter_len_lt (f : N -> bool) l x : In x l -> f x = false -> length (filter f l) < length l.
Proof.
  induction l as [|a l IH]; intros Hin Hf; [destruct Hin|]. cbn [filter length].
  pose proof (filter_len_le f l). destruct Hin as [->|Hin].
  - rewrite Hf. lia.
  - specialize (IH Hin Hf). destruct (f a); cbn [length]; lia.
Qed.

Lemma minN_In l m : minN l = Some m -> In m l.
Proof.
  revert m. induction l as [|a l IH]; intros m Hm; [discriminate|]. cbn [minN] in Hm.
  destruct (minN l) as [y|] eqn:E.
  - injection Hm as <-. destruct (N.min_spec a y) as [[_ Hmin]|[_ Hmin]]; rewrite Hmin.
    + left. reflexivity.
    + right. apply IH. reflexivity.
  - injection Hm as <-. left. reflexivity.
Qed.

Lemma PA0_setNow c s t x : PA0 c (setNow s t) x = PA0 c s x.
Proof. reflexivity. Qed.
Lemma PB0_setNow c s t n : PB0 c (setNow s t) n = PB0 c s n.
Proof. reflexivity. Qed.

Lemma rho_clock c s t : (now s < t)%N ->
  rho c (setNow s t) <= rho c s /\ (In t (deadlines c s) -> rho c (setNow s t) < rho c s).
Proof.
  intros Hlt. rewrite !rho_split, (deadlines_setNow c s t Hlt).
  rewrite (sumf_ext (PA0 c (setNow s t)) (PA0 c s)) by (intros x; apply PA0_setNow).
  rewrite (sumf_ext (PB0 c (setNow s t)) (PB0 c s)) by (intros n; apply PB0_setNow).
  split.
  - pose proof (filter_len_le (fun x => N.ltb t x) (deadlines c s)). lia.
  - intros Hin. pose proof (filter_len_lt (fun x => N.ltb t x) (deadlines c s) t Hin (N.ltb_irrefl t)). lia.
Qed.

(* ------------------------------------------------------------------ the theorem *)

Lemma rho_decreases c h s e s' : wf c = true -> Reach 3 c h s -> step 3 c s e = Some s' ->
  rho c s' <= rho c s /\ (weighty e = true -> rho c s' < rho c s).
Proof.
  intros W Hr Hs. destruct (is_tick e) eqn:Et.
  - destruct (step_inv _ _ _ _ _ Hs) as [Es' Hg].
    destruct e; try discriminate; cbn [reaction fst] in Es'; subst s'.
    + sg Hg. rewrite holds_0 in Q. rewrite holds_ge in Q1 by lia. apply N.ltb_lt in Q.
      destruct (rho_clock c s t Q) as [A B]. split; [exact A|]. intros _. apply B.
      destruct (minN (deadlines c s)) as [m|] eqn:Em; [|discriminate]. apply N.eqb_eq in Q1. subst m.
      apply minN_In. exact Em.
    + sg Hg. rewrite holds_0 in Q. apply N.ltb_lt in Q.
      destruct (rho_clock c s t Q) as [A _]. split; [exact A|]. discriminate.
  - pose proof (step_info c h s e s' W Hr Hs Et) as SI.
    destruct (rho_step c s s' 3 e W SI Hs) as [A B]. split; [exact A|].
    intros Hw. apply B. apply (weighty_strict c h s e s' W Hr Hs SI Hw).
Qed.

Lemma weighty_count c : wf c = true ->
  forall h s, Reach 3 c h s -> length (filter weighty h) + rho c s <= rho c init.
Proof.
  intros W. apply reach_ind.
  - cbn. lia.
  - intros h s e s' Hr IH Hs. destruct (rho_decreases c h s e s' W Hr Hs) as [A B].
    rewrite filter_app, app_length. cbn [filter]. destruct (weighty e).
    + specialize (B eq_refl). cbn [length]. lia.
    + cbn [length]. lia.
Qed.

Theorem bounded_executions : exists B : cfg -> nat,
  forall c h s, wf c = true -> Reach 3 c h s -> length (filter weighty h) <= B c.
Proof.
  exists (fun c => rho c init). intros c h s W Hr. pose proof (weighty_count c W h s Hr). lia.
Qed.

Print Assumptions bounded_executions.

(* ------------------------------------------------------------------ why [ESdStart 0] is not weighty *)

(* a late explicit shutdown of the root, once the root has broadcast, changes nothing but the
   status of the root's own (pseudo) handler, which it sets to HDone again *)
Lemma late_root_shutdown_noop c s o s' : wf c = true -> step 3 c s (ESdStart 0 o) = Some s' ->
  did (Sd s 0) = true ->
  Jb s' = Jb s /\ Rn s' = Rn s /\ now s' = now s /\ (forall m, Sd s' m = Sd s m) /\
  (forall x, Hd s' x = if Nat.eqb x 0 then mkHst HDone false None else Hd s x).
Proof.
  intros W Hs Hd0. destruct (step_inv _ _ _ _ _ Hs) as [-> _]. cbn [reaction fst].
  pose proof (HS_react_sdstart c 0 s W) as H. cbn zeta in H. destruct H as (A & _ & B & C).
  split; [apply Jb_react_sdstart|]. split; [apply Rn_react_sdstart|]. split; [exact A|]. split.
  - intros m. rewrite B, Hd0. destruct (Nat.eqb_spec m 0) as [->|Hm]; reflexivity.
  - intros x. rewrite C, Hd0. reflexivity.
Qed.

(* ... and it can be repeated for ever: with the plain notion of weight (everything but EPoll
   and EGrace) there is no bound *)
Definition weighty0 (e : event) : bool :=
  match e with EPoll _ _ | EGrace _ => false | _ => true end.

Definition c_root : cfg := mkCfg [mkJ 0 true false false [] None ORet 0 None 0 None None] false.
Definition h_root : list event :=
  [EBegin 0 [OEnd 0 VTrue]; ESdStart 0 [OSdBegin 0 false; OSdEnd 0 SRTrue]].
Definition late_sd : event := ESdStart 0 [OSdBegin 0 false; OSdEnd 0 SRNone].
Definition s_root : state := match run 3 c_root init h_root with Some s => s | None => init end.

Definition shut_root (s : state) : Prop :=
  ph (Rn s 0) = POver /\ hs (Hd s 0) = HDone /\ did (Sd s 0) = true.

Lemma late_sd_step s : shut_root s -> exists s', step 3 c_root s late_sd = Some s' /\ shut_root s'.
Proof.
  intros (Hp & Hh & Hdd).
  assert (E : react_sdstart c_root 0 s =
              (setH (setH s 0 (mkHst HRunning false None)) 0 (mkHst HDone false None),
               [OSdBegin 0 false; OSdEnd 0 SRNone])).
  { unfold react_sdstart, shutdown_start. cbn [Sd setH]. rewrite Hdd.
    destruct (sp (Sd (setH s 0 (mkHst HRunning false None)) 0)); reflexivity. }
  exists (setH (setH s 0 (mkHst HRunning false None)) 0 (mkHst HDone false None)). split.
  - unfold step, late_sd. cbn [guards reaction]. rewrite E. cbn [snd fst]. rewrite Hh, Hp. reflexivity.
  - unfold shut_root. cbn [Rn Hd Sd setH]. rewrite upd_same. auto.
Qed.

Lemma late_sd_repeat k : exists h s, Reach 3 c_root h s /\ length (filter weighty0 h) = 2 + k /\ shut_root s.
Proof.
  induction k as [|k (h & s & Hr & Hl & Hsr)].
  - exists h_root, s_root. split; [unfold Reach, s_root; vm_compute; reflexivity|].
    split; [reflexivity|]. unfold shut_root, s_root. vm_compute. auto.
  - destruct (late_sd_step s Hsr) as (s' & Hs & Hsr'). exists (h ++ [late_sd]), s'.
    split; [eapply reach_snoc; eauto|]. split; [|exact Hsr'].
    rewrite filter_app, app_length, Hl. cbn. lia.
Qed.

Theorem unbounded_root_shutdown : ~ exists B : cfg -> nat,
  forall c h s, wf c = true -> Reach 3 c h s -> length (filter weighty0 h) <= B c.
Proof.
  intros [B HB]. destruct (late_sd_repeat (B c_root)) as (h & s & Hr & Hl & _).
  assert (W : wf c_root = true) by reflexivity.
  specialize (HB c_root h s W Hr). lia.
Qed.

Print Assumptions unbounded_root_shutdown.

(* the two notions of weight differ exactly by the late shutdowns of the root *)
Definition root_sd (e : event) : bool := match e with ESdStart n _ => rootb n | _ => false end.

Lemma weighty0_split h :
  length (filter weighty0 h) <= length (filter weighty h) + length (filter root_sd h).
Proof.
  induction h as [|e h IH]; [cbn; lia|]. cbn [filter].
  destruct e as [n o|n k d o|n k o|n o|j|j oc|j|j|j|j|j|j|j|j|t|t|jv sv]; cbn [weighty0 weighty root_sd length]; try lia.
  destruct (rootb n); cbn [negb length]; lia.
Qed.

Theorem bounded_up_to_root_shutdowns : exists B : cfg -> nat,
  forall c h s, wf c = true -> Reach 3 c h s ->
  length (filter weighty0 h) <= B c + length (filter root_sd h).
Proof.
  exists (fun c => rho c init). intros c h s W Hr.
  pose proof (weighty_count c W h s Hr). pose proof (weighty0_split h). lia.
Qed.

Print Assumptions bounded_up_to_root_shutdowns.
