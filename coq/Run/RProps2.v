(* Verdicts: what an observed end of run (OEnd n v) implies about the jobs of n.
   Properties C02 (second half), C04, parts of C09 and C10. *)
From AJ Require Import Common.Util Run.RModel Run.RFacts Run.RFacts2 Run.RInv Run.RInv2 Run.RInv3 Run.RInv4
  Run.RMon Run.RProps1.

(* ------------------------------------------------------------------ outputs of the reactions *)

Definition outs_of (e : event) : list out :=
  match e with
  | EBegin _ o | EWake _ _ _ o | ECancelled _ _ o | ESdStart _ o => o
  | _ => []
  end.

Lemma not_end_create n v l : ~ In (OEnd n v) (map OCreate l).
Proof. intros H. apply in_map_iff in H. destruct H as (x & E & _). discriminate. Qed.
Lemma not_end_hcreate n v l : ~ In (OEnd n v) (map OHCreate l).
Proof. intros H. apply in_map_iff in H. destruct H as (x & E & _). discriminate. Qed.

Lemma end_in_shutdown_start c m i s n v : ~ In (OEnd n v) (snd (shutdown_start c m i s)).
Proof.
  unfold shutdown_start. destruct (did (Sd s m)).
  - cbn. intros [H|[H|[]]]; discriminate.
  - destruct (members c m) eqn:E.
    + cbn. intros [H|[H|[]]]; discriminate.
    + cbn [snd]. intros [H|H]; [discriminate|]. apply in_app_iff in H. destruct H as [H|[H|[]]].
      * apply (not_end_hcreate n v _ H).
      * discriminate.
Qed.

Lemma end_in_exit_main c m w p s n v : ~ In (OEnd n v) (snd (exit_main c m w p s)).
Proof.
  unfold exit_main. destruct p.
  - pose proof (end_in_shutdown_start c m true (set_phase s m (PShut w)) n v) as H.
    destruct (shutdown_start c m true (set_phase s m (PShut w))). exact H.
  - cbn. intros [H|[]]. discriminate.
Qed.

Lemma end_in_end_cancelled c m s n v : In (OEnd n v) (snd (end_cancelled c m s)) -> n = m /\ v = VCancelled.
Proof. cbn. intros [H|[]]. inversion H. auto. Qed.

Lemma end_in_finish_run c m w r cu s n v :
  In (OEnd n v) (snd (finish_run c m w r cu s)) -> n = m /\ v = verdict_of c m w cu.
Proof. cbn. intros [H|[H|[]]]; [discriminate|]. inversion H. auto. Qed.

(* which reactions announce the end of a run, and with which verdict; the run is then over *)
Lemma end_in_reaction c s e n v : In (OEnd n v) (snd (reaction c s e)) ->
  ph (Rn (fst (reaction c s e)) n) = POver /\
  (v = VCancelled \/
   (v = VTrue /\ members c n = [] /\ exists o, e = EBegin n o) \/
   (sd_inline s n = true /\ rcanc (Rn s n) = false /\
    v = verdict_of c n (why_of s n) (culprit_of (outs_of e)) /\
    exists k d o, e = EWake n k d o /\ (k = KShut \/ k = KShTidy))).
Proof.
  destruct e as [m o|m k d o|m k o|m o|j|j oc|j|j|j|j|j|j|j|j|t|t|jv sv]; cbn [reaction snd fst];
    try (intros []).
  - (* EBegin *)
    unfold react_begin. destruct (members c m) eqn:Em.
    + cbn [snd fst]. intros [H|[]]. inversion H; subst. split.
      * match goal with |- context [job_leave c n ?x ?S0] =>
          pose proof (Rn_job_leave_q c n x S0 n) as (H1 & _) end.
        rewrite H1, Rn_setR_same. reflexivity.
      * right. left. split; [reflexivity|]. split; [exact Em|]. eauto.
    + cbn [snd]. intros H. apply in_app_iff in H. destruct H as [H|[H|[]]].
      * exfalso. apply (not_end_create n v _ H).
      * discriminate.
  - destruct k; cbn [reaction snd fst].
    + (* main *) unfold react_main.
      destruct d as [|d0 d'].
      * intros H. exfalso. eapply end_in_exit_main; eauto.
      * destruct (existsb _ (d0 :: d')); [intros H; exfalso; eapply end_in_exit_main; eauto|].
        destruct (Nat.eqb _ _); [intros H; exfalso; eapply end_in_exit_main; eauto|].
        cbn [snd]. intros H. apply in_app_iff in H. destruct H as [H|[H|[]]].
        -- exfalso. apply (not_end_create n v _ H).
        -- discriminate.
    + (* tidy *) unfold react_tidy. destruct (rcanc (Rn s m)).
      * intros H. apply end_in_end_cancelled in H. destruct H as [-> ->].
        split; [apply Rn_end_cancelled_n|left; reflexivity].
      * intros H. exfalso. eapply end_in_shutdown_start; eauto.
    + intros H. apply end_in_end_cancelled in H. destruct H as [-> ->].
      split; [apply Rn_end_cancelled_n|left; reflexivity].
    + (* shut *) unfold react_shut, react_shut_wake.
      destruct d as [|p0 p'].
      * cbn [app]. destruct (sd_inline s m) eqn:Ein.
        -- destruct (rcanc (Rn s m)) eqn:Erc.
           ++ match goal with |- In _ (snd (let '(s2, mo2) := ?F in _)) -> _ =>
                pose proof (Rn_end_cancelled_n c m (setS s m (mkSst SdOver true (sdl (Sd s m)) [] (scanc (Sd s m))))) as [HP _];
                destruct F as [s2 mo2] eqn:EF end.
              cbn [snd fst]. intros [H|H]; [discriminate|].
              assert (Emo : mo2 = [OEnd m VCancelled]) by (cbn in EF; inversion EF; reflexivity).
              subst mo2. destruct H as [H|[]]. inversion H; subst. split; [exact HP|left; reflexivity].
           ++ match goal with |- In _ (snd (let '(s2, mo2) := ?F in _)) -> _ =>
                pose proof (end_in_finish_run c m (why_of s m) SRTrue (culprit_of o)
                  (setS s m (mkSst SdOver true (sdl (Sd s m)) [] (scanc (Sd s m)))) n v) as HF;
                pose proof (Rn_finish_run_n c m (why_of s m) SRTrue (culprit_of o)
                  (setS s m (mkSst SdOver true (sdl (Sd s m)) [] (scanc (Sd s m))))) as [HP _];
                destruct F as [s2 mo2] end.
              cbn [snd fst app]. intros H. destruct (HF H) as [-> ->].
              split; [exact HP|]. right. right. split; [exact Ein|]. split; [exact Erc|]. split; [reflexivity|].
              exists KShut, [], o. auto.
        -- cbn [snd]. intros [H|[]]. discriminate.
      * cbn [snd]. intros [H|[]]. discriminate.
    + (* shtidy *) unfold react_shtidy, react_shtidy_wake.
      destruct (sd_inline s m) eqn:Ein.
      * destruct (rcanc (Rn s m)) eqn:Erc.
        -- match goal with |- In _ (snd (let '(s2, mo2) := ?F in _)) -> _ =>
             pose proof (Rn_end_cancelled_n c m (setS s m (mkSst SdOver true (sdl (Sd s m)) [] (scanc (Sd s m))))) as [HP _];
             destruct F as [s2 mo2] eqn:EF end.
           cbn [snd fst]. intros [H|H]; [discriminate|].
           assert (Emo : mo2 = [OEnd m VCancelled]) by (cbn in EF; inversion EF; reflexivity).
           subst mo2. destruct H as [H|[]]. inversion H; subst. split; [exact HP|left; reflexivity].
        -- intros H. pose proof H as H'. apply end_in_finish_run in H. destruct H as [-> ->].
           split; [apply Rn_finish_run_n|].
           right. right. split; [exact Ein|]. split; [exact Erc|]. split; [reflexivity|].
           exists KShTidy, d, o. auto.
      * cbn [snd]. intros [H|[]]. discriminate.
  - destruct k; cbn [reaction snd fst].
    + unfold react_cancel_main. destruct (filter _ _).
      * intros H. apply end_in_end_cancelled in H. destruct H as [-> ->].
        split; [apply Rn_end_cancelled_n|left; reflexivity].
      * cbn. intros [H|[]]. discriminate.
    + cbn. intros [H|[]]. discriminate.
    + cbn. intros [H|[]]. discriminate.
    + unfold react_cancel_shut. destruct (sd_inline s m); cbn; intros [H|[]]; discriminate.
    + unfold react_cancel_shut. destruct (sd_inline s m); cbn; intros [H|[]]; discriminate.
  - unfold react_sdstart. intros H. exfalso.
    pose proof (end_in_shutdown_start c m false (setH s m (mkHst HRunning false None)) n v) as HF.
    destruct (shutdown_start c m false (setH s m (mkHst HRunning false None))) as [s1 mo].
    cbn [snd] in H. apply HF. exact H.
Qed.

(* ------------------------------------------------------------------ observed outputs vs model outputs *)

Lemma verdict_eqb_eq a b : verdict_eqb a b = true -> a = b.
Proof. destruct a, b; cbn; try discriminate; auto. intros H. apply Nat.eqb_eq in H. subst. reflexivity. Qed.

Lemma out_eqb_end n v b : out_eqb (OEnd n v) b = true -> b = OEnd n v.
Proof.
  destruct b; cbn; try discriminate. rewrite andb_true_iff, Nat.eqb_eq. intros [-> H].
  apply verdict_eqb_eq in H. subst. reflexivity.
Qed.

Lemma In_core x o : In x o -> core_out x = true -> In x (core o).
Proof. intros H1 H2. unfold core. apply filter_In. auto. Qed.

Lemma outs_match_end obs mdl n v :
  outs_match (core obs) (core mdl) = true -> In (OEnd n v) obs -> In (OEnd n v) mdl.
Proof.
  unfold outs_match. rewrite !andb_true_iff, !forallb_forall. intros [[_ H] _] Hin.
  specialize (H (OEnd n v) (In_core _ _ Hin eq_refl)).
  apply existsb_exists in H. destruct H as (b & Hb & Heq).
  apply out_eqb_end in Heq. subst b. unfold core in Hb. apply filter_In in Hb. tauto.
Qed.

(* an accepted control event: the observed outputs match the model's on the core part *)
Lemma accepted_core lvl c s e s' : step lvl c s e = Some s' ->
  outs_of e <> [] \/ True -> outs_match (core (outs_of e)) (core (snd (reaction c s e))) = true.
Proof.
  intros Hs _. apply step_inv in Hs. destruct Hs as [_ Hg].
  destruct e as [m o|m k d o|m k o|m o|j|j oc|j|j|j|j|j|j|j|j|t|t|jv sv]; cbn [outs_of];
    try reflexivity.
  - cbn [guards] in Hg. rewrite forallb_app in Hg. apply andb_true_iff in Hg. destruct Hg as [_ Hg].
    cbn [forallb outs_guards app] in Hg. rewrite holds_0 in Hg. apply andb_true_iff in Hg. tauto.
  - destruct k; cbn [guards] in Hg; rewrite forallb_app in Hg; apply andb_true_iff in Hg; destruct Hg as [_ Hg];
      cbn [forallb outs_guards app] in Hg; rewrite holds_0 in Hg; apply andb_true_iff in Hg; tauto.
  - destruct k; cbn [guards] in Hg; rewrite forallb_app in Hg; apply andb_true_iff in Hg; destruct Hg as [_ Hg];
      cbn [forallb outs_guards app] in Hg; rewrite holds_0 in Hg; apply andb_true_iff in Hg; tauto.
  - cbn [guards] in Hg. rewrite forallb_app in Hg. apply andb_true_iff in Hg. destruct Hg as [_ Hg].
    cbn [forallb outs_guards app] in Hg. rewrite holds_0 in Hg. apply andb_true_iff in Hg. tauto.
Qed.

(* the culprit guard: a critical scheduler re-raises the exception of a critical member *)
Lemma accepted_culprit lvl c s e s' n k d o : step lvl c s e = Some s' -> e = EWake n k d o ->
  (k = KShut /\ d = [] \/ k = KShTidy) -> sd_inline s n = true -> rcanc (Rn s n) = false ->
  culprit_ok c s n (why_of s n) (culprit_of o) = true.
Proof.
  intros Hs -> Hk Hin Hrc. apply step_inv in Hs. destruct Hs as [_ Hg].
  destruct Hk as [[-> ->]| ->]; cbn [guards] in Hg; rewrite forallb_app in Hg;
    apply andb_true_iff in Hg; destruct Hg as [Hg _]; cbn [forallb] in Hg;
    rewrite !andb_true_iff in Hg.
  - destruct Hg as (_ & _ & _ & _ & _ & H & _). rewrite holds_0, Hin in H. cbn in H. exact H.
  - destruct Hg as (_ & _ & _ & _ & H & _). rewrite holds_0, Hin, Hrc in H. cbn in H. exact H.
Qed.

(* ------------------------------------------------------------------ what a verdict means *)

Definition fin_all (c : cfg) (s : state) (n : nat) : bool :=
  forallb (fun x => j_forever (jc c x) || is_done (st (Jb s x))) (members c n).
Definition critx (c : cfg) (s : state) (n : nat) : bool := existsb (crit_exc c s) (members c n).
Definition noncrit (c : cfg) (n : nat) : bool := (Nat.eqb n 0 && pure_root c) || negb (j_crit (jc c n)).
Definition raised_by_critical (c : cfg) (s : state) (n t : nat) : bool :=
  existsb (fun x => j_crit (jc c x) && match st (Jb s x) with DoneExc t' => Nat.eqb t t' | _ => false end)
          (members c n).

(* the verdict v of scheduler n is the right one in state s (the state just before the run ends) *)
Definition end_ok (c : cfg) (s : state) (n : nat) (v : verdict) : bool :=
  match members c n with
  | [] => true
  | _ =>
      if Nat.eqb (nfinite c n) 0 then true       (* only forever jobs: see DESIGN F8 *)
      else
        match v with
        | VCancelled => true
        | VTrue => fin_all c s n && negb (critx c s n)
        | VFalse => negb (fin_all c s n && negb (critx c s n)) && noncrit c n
        | VRaise t =>
            negb (fin_all c s n && negb (critx c s n)) && negb (noncrit c n)
            && (if critx c s n then raised_by_critical c s n t else Nat.eqb t (tag_timeout n))
        end
  end.

Definition chk_end (c : cfg) (s : state) (e : event) : bool :=
  forallb (fun o => match o with OEnd n v => end_ok c s n v | _ => true end) (outs_of e).

(* pigeonhole: a duplicate-free sublist with as many P-elements as the whole contains them all *)
Lemma filter_length_incl (P : nat -> bool) (l m : list nat) :
  NoDup l -> NoDup m -> incl l m -> length (filter P l) = length (filter P m) ->
  forall x, In x m -> P x = true -> In x l.
Proof.
  intros Nl Nm Hi Hlen x Hx Hp.
  assert (Hi' : incl (filter P l) (filter P m)).
  { intros y Hy. apply filter_In in Hy. apply filter_In. split; [apply Hi|]; tauto. }
  assert (Hrev : incl (filter P m) (filter P l)).
  { apply NoDup_length_incl; [apply NoDup_filter; exact Nl|rewrite Hlen; lia|exact Hi']. }
  assert (H : In x (filter P l)) by (apply Hrev; apply filter_In; auto).
  apply filter_In in H. tauto.
Qed.

Section Verdict.
  Variables (c : cfg) (s : state) (n : nat) (w : why).
  Hypothesis W : wf c = true.
  Hypothesis IC : InvC c s.
  Hypothesis Hph : ph (Rn s n) = PShut w.

  Let I1 := ic_1 c s IC. Let I5 := ic_5 c s IC. Let I6 := ic_6 c s IC.

  (* in the shutdown phase, a member that is done has been reported *)
  Lemma done_member_seen x : In x (members c n) -> is_done (st (Jb s x)) = true -> In x (seen (Rn s n)).
  Proof.
    intros Hm Hd.
    destruct (b_cover c s I5 n x) as [H|H]; auto.
    - right. right. exists w. exact Hph.
    - intro E. rewrite E in Hd. discriminate.
    - exfalso. destruct (d_pend c s I6 n x) as [_ Hnd]; auto.
      + right. left. exists w. exact Hph.
      + congruence.
  Qed.

  Lemma critx_iff : critx c s n = true <-> exists x, In x (seen (Rn s n)) /\ crit_exc c s x = true.
  Proof.
    unfold critx. rewrite existsb_exists. split.
    - intros (x & Hm & Hc). exists x. split; [|exact Hc]. apply done_member_seen; auto.
      unfold crit_exc in Hc. apply andb_true_iff in Hc. destruct Hc as [_ Hc].
      destruct (st (Jb s x)); cbn in *; try discriminate; reflexivity.
    - intros (x & Hs & Hc). exists x. split; [|exact Hc]. apply (b_seen_done c s I5 n x Hs).
  Qed.

  Lemma fin_all_iff : fin_all c s n = true <->
    forall x, In x (members c n) -> j_forever (jc c x) = false -> In x (seen (Rn s n)).
  Proof.
    unfold fin_all. rewrite forallb_forall. split.
    - intros H x Hm Hf. specialize (H x Hm). rewrite Hf in H. cbn in H. apply done_member_seen; auto.
    - intros H x Hm. destruct (j_forever (jc c x)) eqn:Ef; [reflexivity|]. cbn.
      apply (b_seen_done c s I5 n x). apply H; auto.
  Qed.

  Lemma members_nodup m : NoDup (members c m).
  Proof. unfold members. apply NoDup_filter. apply NoDup_seqn. Qed.

  (* counting: all non-forever members reported iff the counter has reached its target *)
  Lemma fin_all_count : ndone (Rn s n) = nonforever c (seen (Rn s n)) ->
    (fin_all c s n = true <-> ndone (Rn s n) = nfinite c n).
  Proof.
    intros Hc. rewrite fin_all_iff. unfold nfinite, nonforever in *. split.
    - intros H. rewrite Hc.
      apply Nat.le_antisymm.
      + apply NoDup_incl_length; [apply NoDup_filter; apply (b_seen_nd c s I5)|].
        intros y Hy. apply filter_In in Hy. apply filter_In. split; [|tauto].
        apply (b_seen_done c s I5 n y). tauto.
      + apply NoDup_incl_length; [apply NoDup_filter; apply members_nodup|].
        intros y Hy. apply filter_In in Hy. destruct Hy as [Hy1 Hy2]. apply filter_In. split; [|exact Hy2].
        apply H; auto. apply negb_true_iff. exact Hy2.
    - intros Hn x Hm Hf.
      apply (filter_length_incl (fun j => negb (j_forever (jc c j))) (seen (Rn s n)) (members c n)); auto.
      + apply (b_seen_nd c s I5).
      + apply members_nodup.
      + intros y Hy. apply (b_seen_done c s I5 n y Hy).
      + rewrite <- Hc. exact Hn.
      + rewrite Hf. reflexivity.
  Qed.

  Theorem verdict_ok cu : members c n <> [] ->
    culprit_ok c s n w cu = true ->
    end_ok c s n (verdict_of c n w cu) = true.
  Proof.
    intros Hne Hcu. unfold end_ok. destruct (members c n) as [|m0 ms] eqn:Em; [contradiction|].
    destruct (Nat.eqb_spec (nfinite c n) 0) as [Hz|Hnz]; [reflexivity|].
    assert (Hw : w = WSuccess \/ w = WTimeout \/ w = WCritical) by (clear; destruct w; auto).
    pose proof Hph as Hph'.
    unfold verdict_of. fold (noncrit c n).
    destruct Hw as [E|[E|E]]; rewrite E in Hph', Hcu |- *.
    - (* success *)
      assert (Hcnt : ndone (Rn s n) = nonforever c (seen (Rn s n))).
      { apply (b_count c s I5). unfold ph_counts, ph_nocrit. rewrite Hph'. auto. }
      assert (Hf : fin_all c s n = true).
      { apply fin_all_count; auto. apply (b_succ c s I5). right. exact Hph'. }
      assert (Hx : critx c s n = false).
      { apply not_true_iff_false. rewrite critx_iff. intros (x & Hs & Hc).
        rewrite (b_nocrit c s I5 n) in Hc; [discriminate| |exact Hs]. unfold ph_nocrit. rewrite Hph'. auto. }
      rewrite Hf, Hx. reflexivity.
    - (* timeout *)
      assert (Hcnt : ndone (Rn s n) = nonforever c (seen (Rn s n))).
      { apply (b_count c s I5). unfold ph_counts, ph_nocrit. rewrite Hph'. auto 6. }
      assert (Hf : fin_all c s n = false).
      { apply not_true_iff_false. rewrite (fin_all_count Hcnt).
        apply (b_open c s I5 n); [|exact Hnz]. unfold ph_open. rewrite Hph'. auto. }
      assert (Hx : critx c s n = false).
      { apply not_true_iff_false. rewrite critx_iff. intros (x & Hs & Hc).
        rewrite (b_nocrit c s I5 n) in Hc; [discriminate| |exact Hs]. unfold ph_nocrit. rewrite Hph'. auto 6. }
      rewrite Hf, Hx. cbn [andb negb].
      destruct (noncrit c n); cbn; [reflexivity|apply Nat.eqb_refl].
    - (* critical *)
      assert (Hx : critx c s n = true).
      { apply critx_iff. apply (b_crit c s I5). right. exact Hph'. }
      rewrite Hx. rewrite andb_false_r. cbn [negb andb].
      unfold culprit_ok in Hcu. fold (noncrit c n) in Hcu.
      destruct (noncrit c n); cbn; [reflexivity|]. exact Hcu.
  Qed.
End Verdict.

Theorem chk_end_holds lvl c h0 s e s' : wf c = true ->
  Reach lvl c h0 s -> step lvl c s e = Some s' -> chk_end c s e = true.
Proof.
  intros W Hr Hs. pose proof (InvC_reach lvl c h0 s W Hr) as IC.
  unfold chk_end. apply forallb_forall. intros o Ho. destruct o as [| | | | |n v]; try reflexivity.
  pose proof (accepted_core lvl c s e s' Hs (or_intror I)) as Hm.
  pose proof (outs_match_end _ _ n v Hm Ho) as Hin.
  destruct (end_in_reaction c s e n v Hin) as [_ [Ev|[(Ev & Hem & _)|(Hi & Hrc & Ev & k & d & o & Ee & Hk)]]]; subst.
  - unfold end_ok. destruct (members c n); [reflexivity|]. destruct (Nat.eqb (nfinite c n) 0); reflexivity.
  - unfold end_ok. rewrite Hem. reflexivity.
  - assert (Hph : ph (Rn s n) = PShut (why_of s n)).
    { unfold sd_inline in Hi. unfold why_of. destruct (ph (Rn s n)); try discriminate. reflexivity. }
    destruct (members c n) as [|m0 ms] eqn:Em; [unfold end_ok; rewrite Em; reflexivity|].
    cbn [outs_of].
    assert (Hd : k = KShut /\ d = [] \/ k = KShTidy).
    { destruct Hk as [-> | ->]; [|right; reflexivity]. left. split; [reflexivity|].
      (* a shut wake that ends the run reports no pending handler *)
      destruct d as [|p0 p']; [reflexivity|]. exfalso.
      cbn [reaction] in Hin. unfold react_shut, react_shut_wake in Hin. cbn [snd] in Hin.
      destruct Hin as [H|[]]. discriminate. }
    apply (verdict_ok c s n (why_of s n) IC Hph).
    + rewrite Em. discriminate.
    + eapply accepted_culprit; eauto.
Qed.

Theorem chk_end_monitor lvl c h : wf c = true -> accept lvl c h = true -> mon_ok chk_end c h = true.
Proof. intros W. apply mon_sound. intros h0 s e s' Hr Hs. eapply chk_end_holds; eauto. Qed.

(* ------------------------------------------------------------------ readable forms, flags *)

Lemma end_ok_true_meaning c s n : members c n <> [] -> nfinite c n <> 0 ->
  end_ok c s n VTrue = true ->
  forall x, In x (members c n) -> j_forever (jc c x) = false -> is_done (st (Jb s x)) = true.
Proof.
  intros Hne Hnz H x Hx Hf. unfold end_ok in H.
  destruct (members c n) as [|m0 ms] eqn:Em; [contradiction|].
  apply Nat.eqb_neq in Hnz. rewrite Hnz in H. apply andb_true_iff in H. destruct H as [H _].
  unfold fin_all in H. rewrite forallb_forall in H. rewrite Em in H. specialize (H x Hx).
  rewrite Hf in H. exact H.
Qed.

Lemma end_ok_meaning c s n v : members c n <> [] -> nfinite c n <> 0 -> v <> VCancelled ->
  end_ok c s n v = true ->
  (v = VTrue <-> fin_all c s n = true /\ critx c s n = false) /\
  (v = VFalse -> noncrit c n = true) /\
  (forall t, v = VRaise t -> noncrit c n = false /\
     (critx c s n = true -> raised_by_critical c s n t = true) /\
     (critx c s n = false -> t = tag_timeout n)).
Proof.
  intros Hne Hnz Hvc H. unfold end_ok in H.
  destruct (members c n) as [|m0 ms] eqn:Em; [contradiction|].
  apply Nat.eqb_neq in Hnz. rewrite Hnz in H.
  destruct v as [| |t|]; [| | |contradiction].
  - apply andb_true_iff in H. destruct H as [H1 H2]. apply negb_true_iff in H2.
    split; [split; auto|]. split; [discriminate|]. intros t Ht. discriminate.
  - apply andb_true_iff in H. destruct H as [H1 H2]. apply negb_true_iff in H1.
    split; [|split; [auto|intros t Ht; discriminate]].
    split; [discriminate|]. intros [A B]. rewrite A, B in H1. discriminate.
  - rewrite !andb_true_iff in H. destruct H as [[H1 H2] H3]. apply negb_true_iff in H1, H2.
    split; [|split; [discriminate|]].
    + split; [discriminate|]. intros [A B]. rewrite A, B in H1. discriminate.
    + intros t' Ht. inversion Ht; subst t'. split; [exact H2|]. split; intros Hc; rewrite Hc in H3.
      * exact H3.
      * apply Nat.eqb_eq. exact H3.
Qed.

Lemma finish_run_flags c n w r cu s :
  let s' := fst (finish_run c n w r cu s) in
  fto (Rn s' n) = match w with WTimeout => true | _ => fto (Rn s n) end /\
  fcr (Rn s' n) = match w with WCritical => true | _ => fcr (Rn s n) end /\
  (verdict_of c n w cu = VTrue <-> w = WSuccess).
Proof.
  cbn zeta. unfold finish_run. cbn [fst].
  match goal with |- context [job_leave c n ?x ?S0] =>
    pose proof (Rn_job_leave_q c n x S0 n) as (_ & _ & _ & _ & _ & _ & H7 & H8 & _) end.
  rewrite H7, H8, Rn_setR_same. cbn [fto fcr].
  split; [reflexivity|]. split; [reflexivity|].
  unfold verdict_of. destruct w; split; intros H; try reflexivity; try discriminate;
    destruct ((Nat.eqb n 0 && pure_root c) || negb (j_crit (jc c n))); discriminate.
Qed.

(* the two failure flags are clear as long as the run is not over *)
Definition flags_inv (s : state) : Prop :=
  forall n, ph (Rn s n) <> POver -> fto (Rn s n) = false /\ fcr (Rn s n) = false.

Lemma flags_step lvl c s e s' : wf c = true -> Inv1 c s -> flags_inv s ->
  step lvl c s e = Some s' -> flags_inv s'.
Proof.
  intros W I1 F Hs n Hno.
  destruct (R_effect lvl c s e s' W (i_pend c s I1) Hs n)
    as [Hq _|_ _ _ _ _ _ _ _ _ Bf1 Bf2 _ _ _|_ A1 A2 A3 _ A4 A5 A6 [K|(Hph & d & _ & _ & U)] A8].
  - destruct Hq as (Q1 & _ & _ & _ & _ & _ & Q7 & Q8 & _). rewrite Q7, Q8. apply F. rewrite <- Q1. exact Hno.
  - auto.
  - destruct (A8 Hno) as [E1 E2]. rewrite E1, E2. apply F.
    destruct K as (_ & _ & _ & _ & _ & _ & _ & K8 & _). exact K8.
  - destruct (A8 Hno) as [E1 E2]. rewrite E1, E2. apply F. rewrite Hph. discriminate.
Qed.

Theorem flags_clear lvl c h s n : wf c = true -> Reach lvl c h s ->
  ph (Rn s n) <> POver -> fto (Rn s n) = false /\ fcr (Rn s n) = false.
Proof.
  intros W Hr. revert n.
  assert (H : Inv1 c s /\ flags_inv s).
  { revert h s Hr. apply reach_ind.
    - split; [apply Inv1_init|]. intros n _. split; reflexivity.
    - intros h s e s' _ [I1 F] Hs. split; [eapply Inv1_step; eauto|eapply flags_step; eauto]. }
  destruct H as [_ F]. exact F.
Qed.

Theorem C02_monitors lvl c h : wf c = true -> accept lvl c h = true ->
  mon_ok RProps1.chk02a c h = true /\ mon_ok chk_end c h = true.
Proof.
  intros W Ha. split; [apply (RProps1.C02a_monitor lvl); auto|apply (chk_end_monitor lvl); auto].
Qed.
