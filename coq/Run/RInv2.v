(* Exit discipline: a job is asked to cancel, is cancelling or cancelled, and a nested run is in
   a cancelled mode, only after the main loop of the enclosing scheduler has been left for good. *)
From AJ Require Import Common.Util Run.RModel Run.RFacts Run.RFacts2 Run.RInv.

Definition left_main (s : state) (p : nat) : Prop :=
  ph (Rn s p) <> PMain /\ ph (Rn s p) <> PIdle.

Lemma left_main_stable lvl c s e s' p : wf c = true -> Inv1 c s -> step lvl c s e = Some s' ->
  left_main s p -> left_main s' p.
Proof.
  intros W I Hs [L1 L2].
  destruct (R_effect lvl c s e s' W (i_pend c s I) Hs p) as [Hq _|_ B1 _ _ _ _ _ _ _ _ _|_ A1 A2 A3 _ A4 A5 A6 _ _].
  - destruct Hq as (Hq & _). unfold left_main. rewrite Hq. auto.
  - exfalso. destruct (rootb p) eqn:Er.
    + contradiction.
    + apply rootb_false in Er. apply L2. apply (i_l1 c s I p Er). right. exact B1.
  - split; auto.
Qed.

Record Inv4 (c : cfg) (s : state) : Prop := {
  n_cp : forall x, x <> 0 -> cp (Jb s x) = true -> left_main s (parent c x);
  n_st : forall x, x <> 0 -> (st (Jb s x) = Cancelling \/ st (Jb s x) = Cancelled) ->
                   left_main s (parent c x);
  n_cm : forall x, x <> 0 -> (ph (Rn s x) = PCTidy \/ rcanc (Rn s x) = true) ->
                   left_main s (parent c x)
}.

Lemma Inv4_init c : Inv4 c init.
Proof.
  split; intros x Hx H; cbn in H.
  - discriminate.
  - destruct H; discriminate.
  - destruct H; discriminate.
Qed.

Lemma Inv4_step lvl c s e s' : wf c = true -> Inv1 c s -> Inv4 c s -> step lvl c s e = Some s' -> Inv4 c s'.
Proof.
  intros W I1 I4 Hs.
  pose proof (J_effect lvl c s e s' W (i_pend c s I1) Hs) as HJ.
  pose proof (fun p => left_main_stable lvl c s e s' p W I1 Hs) as Hst.
  split.
  - (* cancel pending *)
    intros x Hx0 Hcp.
    destruct (HJ x)
      as [H|H1 H2|HS H1 H2 H3 H4|H1 H2 H3 H4 H5 H6 H7|H1 H2 H3 H4 H5 H6|HS H1 H2 H3 H4 H5|HS H1 H2 H3 H4 H5|HS H1 H2 H3 H4 H5|HS H1 H2 H3 H4 H5 H6|HS H1 H2|HS H1 H2 H3].
    + rewrite H in Hcp. apply Hst. apply (n_cp c s I4); auto.
    + destruct H2 as (n & Hin & P1 & P2).
      pose proof (i_pend c s I1 n x Hin) as Hm. apply In_members in Hm. destruct Hm as (_ & Hp & _).
      rewrite Hp. split; auto.
    + rewrite H4 in Hcp. discriminate.
    + rewrite H2 in Hcp. discriminate.
    + rewrite H1 in Hcp. discriminate.
    + rewrite H4 in Hcp. discriminate.
    + rewrite H5 in Hcp. discriminate.
    + rewrite H4 in Hcp. discriminate.
    + rewrite H5 in Hcp. discriminate.
    + rewrite H2 in Hcp. discriminate.
    + rewrite H3 in Hcp. discriminate.
  - (* cancelling / cancelled *)
    intros x Hx0 Hc.
    destruct (HJ x)
      as [H|H1 H2|HS H1 H2 H3 H4|H1 H2 H3 H4 H5 H6 H7|H1 H2 H3 H4 H5 H6|HS H1 H2 H3 H4 H5|HS H1 H2 H3 H4 H5|HS H1 H2 H3 H4 H5|HS H1 H2 H3 H4 H5 H6|HS H1 H2|HS H1 H2 H3].
    + rewrite H in Hc. apply Hst. apply (n_st c s I4); auto.
    + rewrite H1, cancel_j_st in Hc. apply Hst. apply (n_st c s I4); auto.
    + rewrite H4 in Hc. cbn in Hc. destruct Hc; discriminate.
    + rewrite H2 in Hc. cbn in Hc. destruct Hc; discriminate.
    + rewrite H1 in Hc. cbn in Hc. destruct Hc; discriminate.
    + rewrite H3 in Hc. destruct Hc; discriminate.
    + rewrite H5 in Hc. cbn in Hc. destruct Hc; discriminate.
    + destruct (st (Jb s' x)); cbn in H3; try discriminate; destruct Hc; discriminate.
    + apply Hst. apply (n_cp c s I4); auto.
    + apply Hst. destruct H1 as [H1|(H1 & Hsch & [Hc1|Hc2])].
      * apply (n_st c s I4); auto.
      * apply (n_cp c s I4); auto.
      * apply (n_cm c s I4); auto.
    + apply Hst. apply (n_cp c s I4); auto.
  - (* cancelled mode of a nested run *)
    intros x Hx0 Hcm.
    destruct (R_effect lvl c s e s' W (i_pend c s I1) Hs x) as [Hq _|_ B1 _ B3 _ _ _ _ _ _ _ B9|_ A1 A2 A3 _ A4 A5 A6 _ _].
    + destruct Hq as (Q1 & _ & _ & _ & _ & _ & _ & _ & Q9). rewrite Q1, Q9 in Hcm.
      apply Hst. apply (n_cm c s I4); auto.
    + exfalso. destruct Hcm as [Hcm|Hcm].
      * destruct B3 as [B3|B3]; rewrite B3 in Hcm; discriminate.
      * rewrite B9 in Hcm. discriminate.
    + apply Hst. destruct (A6 Hcm) as [H|H].
      * apply (n_cm c s I4); auto.
      * apply (n_cp c s I4); auto.
Qed.

(* while the main loop of a scheduler runs (or before it begins), none of its jobs has been asked
   to cancel, is cancelling or is cancelled *)
Lemma main_members_clean c s p x : Inv4 c s -> x <> 0 -> parent c x = p ->
  (ph (Rn s p) = PMain \/ ph (Rn s p) = PIdle) ->
  cp (Jb s x) = false /\ st (Jb s x) <> Cancelling /\ st (Jb s x) <> Cancelled.
Proof.
  intros I4 Hx Hp Hph. subst p.
  assert (Hnl : ~ left_main s (parent c x)) by (intros [A B]; destruct Hph; contradiction).
  repeat split.
  - destruct (cp (Jb s x)) eqn:E; [|reflexivity]. exfalso. apply Hnl. apply (n_cp c s I4); auto.
  - intro E. apply Hnl. apply (n_st c s I4); auto.
  - intro E. apply Hnl. apply (n_st c s I4); auto.
Qed.
