(* Where exceptions come from: the exception object found in the status of a job is the one an
   atomic job raised, or the TimeoutError of a critical scheduler that timed out, and it is the
   very same object (same tag) that travels up a chain of critical schedulers. *)
From AJ Require Import Common.Util Run.RModel Run.RFacts Run.RFacts2 Run.RInv Run.RShut1 Run.RTime
  Run.RProps1 Run.RProps2 Run.RProps3 Run.RInvP.

(* ------------------------------------------------------------------ what a step does to a status *)

(* [nox a b]: going from status a to status b creates no new exception *)
Definition nox (a b : jstat) : Prop := b = a \/ is_exc b = false.

Lemma nox_refl a : nox a a.
Proof. left. reflexivity. Qed.

Lemma nox_exc a b t : nox a b -> b = DoneExc t -> a = DoneExc t.
Proof. intros [H|H] E; subst b; [congruence|discriminate]. Qed.

Lemma nox_clear_cp s n y : st (Jb (clear_cp s n) y) = st (Jb s y).
Proof.
  rewrite Jb_clear_cp. destruct (rootb n); [reflexivity|].
  destruct (Nat.eqb_spec y n) as [->|H]; reflexivity.
Qed.

Lemma nox_end_cancelled c n s y : nox (st (Jb s y)) (st (Jb (fst (end_cancelled c n s)) y)).
Proof.
  rewrite Jb_end_cancelled. destruct (Nat.eqb n 0); [apply nox_refl|].
  destruct (Nat.eqb y n); [right; reflexivity|apply nox_refl].
Qed.

Lemma nox_exit_main c n w p s y : st (Jb (fst (exit_main c n w p s)) y) = st (Jb s y).
Proof. rewrite Jb_exit_main. destruct (memb y p); [apply cancel_j_st0|reflexivity]. Qed.

Lemma nox_begin c n s y : nox (st (Jb s y)) (st (Jb (fst (react_begin c n s)) y)).
Proof.
  unfold react_begin.
  set (s0 := if Nat.eqb n 0 then s else _).
  assert (H0 : nox (st (Jb s y)) (st (Jb s0 y))).
  { unfold s0. destruct (Nat.eqb n 0); [apply nox_refl|]. cbn [Jb setR setJ]. unfold upd.
    destruct (Nat.eqb y n); [right; reflexivity|apply nox_refl]. }
  destruct (members c n) as [|m0 ms].
  - cbn [fst]. rewrite Jb_job_leave, Jb_setR. destruct (Nat.eqb n 0); [exact H0|].
    destruct (Nat.eqb y n); [right; reflexivity|exact H0].
  - cbn [fst]. rewrite Jb_setR, Jb_mapJ. destruct (memb y _); [right; reflexivity|exact H0].
Qed.

Lemma nox_main c n d s y : nox (st (Jb s y)) (st (Jb (fst (react_main c n d s)) y)).
Proof.
  unfold react_main. destruct d as [|d0 d'].
  - rewrite nox_exit_main. apply nox_refl.
  - destruct (existsb _ (d0 :: d')); [rewrite nox_exit_main; apply nox_refl|].
    destruct (Nat.eqb _ _); [rewrite nox_exit_main; apply nox_refl|].
    cbn [fst]. rewrite Jb_setR, Jb_mapJ. destruct (memb y _); [right; reflexivity|apply nox_refl].
Qed.

Lemma nox_tidy c n s y : nox (st (Jb s y)) (st (Jb (fst (react_tidy c n s)) y)).
Proof.
  unfold react_tidy. destruct (rcanc (Rn s n)); [apply nox_end_cancelled|].
  rewrite Jb_shutdown_start. apply nox_refl.
Qed.

Lemma nox_cancel_main c n s y : nox (st (Jb s y)) (st (Jb (fst (react_cancel_main c n s)) y)).
Proof.
  unfold react_cancel_main. destruct (filter _ _) as [|u0 u'].
  - rewrite <- (nox_clear_cp s n y). apply nox_end_cancelled.
  - cbn [fst]. rewrite Jb_setR, Jb_mapJ. left.
    destruct (memb y _); [rewrite cancel_j_st0|]; apply nox_clear_cp.
Qed.

Lemma nox_cancel_tidy c n s y : st (Jb (fst (react_cancel_tidy c n s)) y) = st (Jb s y).
Proof.
  unfold react_cancel_tidy. cbn [fst]. rewrite Jb_setR, Jb_mapJ.
  destruct (memb y _); [rewrite cancel_j_st0|]; apply nox_clear_cp.
Qed.

Lemma nox_cancel_ctidy c n s y : st (Jb (fst (react_cancel_ctidy c n s)) y) = st (Jb s y).
Proof.
  unfold react_cancel_ctidy. cbn [fst]. rewrite Jb_mapJ.
  destruct (memb y _); [rewrite cancel_j_st0|]; apply nox_clear_cp.
Qed.

Lemma nox_cancel_shut c n s y : st (Jb (fst (react_cancel_shut c n s)) y) = st (Jb s y).
Proof.
  unfold react_cancel_shut. destruct (sd_inline s n).
  - rewrite Jb_react_shut_cancel, Jb_setR. apply nox_clear_cp.
  - rewrite Jb_react_shut_cancel, Jb_clear_hcp. reflexivity.
Qed.

Lemma verdict_exc v t : jstat_of_verdict v = DoneExc t -> v = VRaise t.
Proof. destruct v; cbn; intros H; try discriminate. inversion H. reflexivity. Qed.

(* the end of a run: the only control reaction that can record an exception *)
Lemma exc_finish_run c n w r cu s0 s y t : Jb s0 = Jb s ->
  st (Jb (fst (finish_run c n w r cu s0)) y) = DoneExc t ->
  st (Jb s y) = DoneExc t \/ (y = n /\ n <> 0 /\ verdict_of c n w cu = VRaise t).
Proof.
  intros EJ. rewrite Jb_finish_run, EJ. destruct (Nat.eqb_spec n 0) as [->|Hn]; [auto|].
  destruct (Nat.eqb_spec y n) as [->|Hy]; [|auto].
  cbn [st]. intros H. right. split; [reflexivity|]. split; [exact Hn|]. apply verdict_exc. exact H.
Qed.

Lemma exc_shut c n p cu s y t : st (Jb (fst (react_shut c n p cu s)) y) = DoneExc t ->
  st (Jb s y) = DoneExc t \/
  (y = n /\ n <> 0 /\ p = [] /\ sd_inline s n = true /\ rcanc (Rn s n) = false /\
   verdict_of c n (why_of s n) cu = VRaise t).
Proof.
  unfold react_shut, react_shut_wake. destruct p as [|p0 p'].
  - destruct (sd_inline s n) eqn:Ein.
    + destruct (rcanc (Rn s n)) eqn:Erc.
      * set (s1 := setS s n _). intros H. left.
        assert (E : fst (let '(s2, mo2) := end_cancelled c n s1 in (s2, [] ++ OSdEnd n SRCancelled :: mo2))
                    = fst (end_cancelled c n s1)) by reflexivity.
        rewrite E in H. eapply nox_exc; [|exact H].
        change (Jb s y) with (Jb s1 y). apply nox_end_cancelled.
      * set (s1 := setS s n _). intros H.
        assert (E : fst (let '(s2, mo2) := finish_run c n (why_of s n) SRTrue cu s1 in (s2, [] ++ mo2))
                    = fst (finish_run c n (why_of s n) SRTrue cu s1)) by reflexivity.
        rewrite E in H. destruct (exc_finish_run c n _ _ cu s1 s y t eq_refl H) as [K|(K1 & K2 & K3)]; [auto|].
        right. auto 8.
    + cbn [fst]. rewrite Jb_hdone, Jb_setS. auto.
  - cbn [fst]. rewrite Jb_setS, Jb_mapH. auto.
Qed.

Lemma exc_shtidy c n cu s y t : st (Jb (fst (react_shtidy c n cu s)) y) = DoneExc t ->
  st (Jb s y) = DoneExc t \/
  (y = n /\ n <> 0 /\ sd_inline s n = true /\ rcanc (Rn s n) = false /\
   verdict_of c n (why_of s n) cu = VRaise t).
Proof.
  unfold react_shtidy, react_shtidy_wake. set (s1 := setS s n _).
  destruct (sd_inline s n) eqn:Ein.
  - destruct (rcanc (Rn s n)) eqn:Erc.
    + intros H. left.
      assert (E : fst (let '(s2, mo2) := end_cancelled c n s1 in (s2, OSdEnd n SRCancelled :: mo2))
                  = fst (end_cancelled c n s1)) by reflexivity.
      rewrite E in H. eapply nox_exc; [|exact H].
      change (Jb s y) with (Jb s1 y). apply nox_end_cancelled.
    + intros H. destruct (exc_finish_run c n _ _ cu s1 s y t eq_refl H) as [K|(K1 & K2 & K3)]; [auto|].
      right. auto 8.
  - cbn [fst]. rewrite Jb_hdone. auto.
Qed.

(* a status becomes [DoneExc t] in exactly two ways *)
Lemma exc_step lvl c s e s' x t : step lvl c s e = Some s' -> st (Jb s' x) = DoneExc t ->
  st (Jb s x) = DoneExc t \/
  (e = EFinish x OExc /\ j_sched (jc c x) = false /\ t = tag_job x) \/
  (x <> 0 /\ j_sched (jc c x) = true /\
   exists k d o, e = EWake x k d o /\ (k = KShut /\ d = [] \/ k = KShTidy) /\
     sd_inline s x = true /\ rcanc (Rn s x) = false /\
     verdict_of c x (why_of s x) (culprit_of o) = VRaise t).
Proof.
  intros Hs. destruct (step_inv _ _ _ _ _ Hs) as [-> Hg].
  assert (Hupd : forall j v, is_exc (st v) = false ->
            st (upd (Jb s) j v x) = DoneExc t -> st (Jb s x) = DoneExc t).
  { intros j v Hv. unfold upd. destruct (Nat.eqb x j); [|auto].
    intros E. rewrite E in Hv. discriminate. }
  destruct e as [n o|n k d o|n k o|n o|j|j oc|j|j|j|j|j|j|j|j|t0|t0|jv sv]; cbn [reaction fst].
  - intros H. left. eapply nox_exc; [apply nox_begin|exact H].
  - destruct k; cbn [reaction fst].
    + intros H. left. eapply nox_exc; [apply nox_main|exact H].
    + intros H. left. eapply nox_exc; [apply nox_tidy|exact H].
    + intros H. left. eapply nox_exc; [apply nox_end_cancelled|exact H].
    + intros H. destruct (exc_shut _ _ _ _ _ _ _ H) as [K|(-> & K2 & -> & K4 & K5 & K6)]; [auto|].
      right. right. split; [exact K2|]. split.
      * cbn [forallb guards app] in Hg. apply andb_true_iff in Hg. destruct Hg as [G1 _].
        pose proof (sd_thread_inline _ _ _ _ _ G1 K4) as Ha.
        destruct (run_alive_false _ _ _ Ha) as (A & _). exact A.
      * exists KShut, [], o. auto 8.
    + intros H. destruct (exc_shtidy _ _ _ _ _ _ H) as [K|(-> & K2 & K4 & K5 & K6)]; [auto|].
      right. right. split; [exact K2|]. split.
      * cbn [forallb guards app] in Hg. apply andb_true_iff in Hg. destruct Hg as [G1 _].
        pose proof (sd_thread_inline _ _ _ _ _ G1 K4) as Ha.
        destruct (run_alive_false _ _ _ Ha) as (A & _). exact A.
      * exists KShTidy, d, o. auto 8.
  - destruct k; cbn [reaction fst].
    + intros H. left. eapply nox_exc; [apply nox_cancel_main|exact H].
    + rewrite nox_cancel_tidy. auto.
    + rewrite nox_cancel_ctidy. auto.
    + rewrite nox_cancel_shut. auto.
    + rewrite nox_cancel_shut. auto.
  - rewrite Jb_react_sdstart. auto.
  - unfold eff_start. rewrite Jb_bump_q, Jb_setJ. intros H. left. eapply Hupd; [|exact H]. reflexivity.
  - unfold eff_finish. rewrite Jb_bump_q, Jb_setJ. unfold upd.
    destruct (Nat.eqb_spec x j) as [->|Hx]; [|auto].
    destruct oc; cbn [st]; [discriminate|]. intros H. inversion H. right. left.
    split; [reflexivity|]. split; [|reflexivity].
    split_guards Hg. destruct (atomic_id_spec _ _ G) as (A & _). exact A.
  - unfold eff_cancel_hit. rewrite Jb_setJ. intros H. left. eapply Hupd; [|exact H]. reflexivity.
  - unfold eff_cancel_over. rewrite Jb_bump_q, Jb_setJ. intros H. left. eapply Hupd; [|exact H]. reflexivity.
  - unfold eff_cancel_over. rewrite Jb_bump_q, Jb_setJ. intros H. left. eapply Hupd; [|exact H]. reflexivity.
  - unfold eff_gone. rewrite Jb_setJ. intros H. left. eapply Hupd; [|exact H]. reflexivity.
  - rewrite Jb_setH. auto.
  - rewrite Jb_setH. auto.
  - rewrite Jb_setH. auto.
  - rewrite Jb_setH. auto.
  - rewrite Jb_setNow. auto.
  - rewrite Jb_setNow. auto.
  - auto.
Qed.

(* ------------------------------------------------------------------ only a scheduler with a timeout times out *)

Definition tmo_ph (p : phase) : Prop := p = PTidy WTimeout \/ p = PShut WTimeout.

(* the exit path "timeout" is entered by a main wake that reports nothing, at a set expiration *)
Lemma tmo_ph_step lvl c s e s' m : step lvl c s e = Some s' -> tmo_ph (ph (Rn s' m)) ->
  tmo_ph (ph (Rn s m)) \/ (ph (Rn s m) = PMain /\ expi (Rn s m) <> None).
Proof.
  intros Hs. destruct (step_inv _ _ _ _ _ Hs) as [-> Hg].
  destruct e as [n o|n k d o|n k o|n o|j|j oc|j|j|j|j|j|j|j|j|t0|t0|jv sv]; cbn [reaction fst].
  - rewrite ph_react_begin. destruct (Nat.eqb m n); [|auto].
    destruct (members c n); intros [H|H]; discriminate.
  - destruct k; cbn [reaction fst].
    + pose proof (HS_react_main c n d s) as H. cbn zeta in H. destruct H as (_ & Ho & _).
      destruct (Nat.eqb_spec m n) as [->|Hm]; [|rewrite (Ho m Hm); auto].
      split_guards Hg.
      assert (Hph : ph (Rn s n) = PMain) by (destruct (ph (Rn s n)); try discriminate; reflexivity).
      destruct (react_main_upd c n d s Hph) as (_ & _ & _ & [(w & Hw & _ & _ & _ & Hb)|(Hw & _)]).
      * intros Ht. right. split; [exact Hph|].
        assert (Ew : w = WTimeout).
        { destruct Ht as [Ht|Ht], Hw as [Hw|Hw]; rewrite Ht in Hw; inversion Hw; reflexivity. }
        subst w. destruct Hb as [-> _]. destruct (expi (Rn s n)); [discriminate|discriminate].
      * rewrite Hw. intros [H|H]; discriminate.
    + pose proof (HS_react_tidy c n s) as H. cbn zeta in H. destruct H as (_ & Ho & H).
      destruct (Nat.eqb_spec m n) as [->|Hm]; [|rewrite (Ho m Hm); auto].
      split_guards Hg.
      destruct H as [(_ & H & _)|(_ & H & _)]; rewrite H; [intros [K|K]; discriminate|].
      unfold why_of. destruct (ph (Rn s n)) as [| |w|w| |]; try discriminate.
      intros [K|K]; [discriminate|]. inversion K. left. left. reflexivity.
    + rewrite ph_end_cancelled. destruct (Nat.eqb m n); [|auto]. intros [H|H]; discriminate.
    + pose proof (HS_react_shut c n d (culprit_of o) s) as H. cbn zeta in H. destruct H as (_ & Ho & H).
      destruct (Nat.eqb_spec m n) as [->|Hm]; [|rewrite (Ho m Hm); auto].
      destruct d as [|d0 d'].
      * destruct H as (_ & H). destruct (sd_inline s n).
        -- destruct H as [H _]. rewrite H. intros [K|K]; discriminate.
        -- destruct H as [H _]. rewrite H. auto.
      * destruct H as (H & _). rewrite H. auto.
    + pose proof (HS_react_shtidy c n (culprit_of o) s) as H. cbn zeta in H. destruct H as (_ & Ho & _ & H).
      destruct (Nat.eqb_spec m n) as [->|Hm]; [|rewrite (Ho m Hm); auto].
      destruct (sd_inline s n).
      * destruct H as [H _]. rewrite H. intros [K|K]; discriminate.
      * destruct H as [H _]. rewrite H. auto.
  - destruct k; cbn [reaction fst].
    + rewrite ph_react_cancel_main. destruct (Nat.eqb m n); [|auto].
      destruct (filter _ _); intros [K|K]; discriminate.
    + rewrite ph_react_cancel_tidy. auto.
    + rewrite ph_react_cancel_ctidy. auto.
    + pose proof (HS_react_cancel_shut c n s) as H. cbn zeta in H. destruct H as (_ & Ho & _). rewrite Ho. auto.
    + pose proof (HS_react_cancel_shut c n s) as H. cbn zeta in H. destruct H as (_ & Ho & _). rewrite Ho. auto.
  - rewrite Rn_react_sdstart. auto.
  - unfold eff_start. rewrite ph_bump_q. auto.
  - unfold eff_finish. rewrite ph_bump_q. auto.
  - auto.
  - unfold eff_cancel_over. rewrite ph_bump_q. auto.
  - unfold eff_cancel_over. rewrite ph_bump_q. auto.
  - auto.
  - auto.
  - auto.
  - auto.
  - auto.
  - auto.
  - auto.
  - auto.
Qed.

Definition InvTO (c : cfg) (s : state) : Prop :=
  forall n, tmo_ph (ph (Rn s n)) -> j_timeout (jc c n) <> None.

Theorem InvTO_reach lvl c h s : wf c = true -> Reach lvl c h s -> InvTO c s.
Proof.
  intros W Hr. revert h s Hr. apply reach_ind.
  - intros n [H|H]; discriminate.
  - intros h s e s' Hr IH Hs n Ht.
    destruct (tmo_ph_step lvl c s e s' n Hs Ht) as [H|[H1 H2]]; [apply IH; exact H|].
    pose proof (InvP_reach lvl c h s W Hr) as IP.
    intros E. apply H2. apply (p_expi c s IP n); [rewrite H1; discriminate|exact E].
Qed.

(* ------------------------------------------------------------------ one level of the chain *)

(* the exception recorded on x: its own (atomic job), its own TimeoutError (critical scheduler with
   a timeout), or the one recorded on one of its critical members (critical scheduler) *)
Definition InvX (c : cfg) (s : state) : Prop :=
  forall x t, x <> 0 -> st (Jb s x) = DoneExc t ->
    (j_sched (jc c x) = false /\ t = tag_job x) \/
    (j_sched (jc c x) = true /\ j_crit (jc c x) = true /\
     ((t = tag_timeout x /\ j_timeout (jc c x) <> None) \/
      exists y, In y (members c x) /\ j_crit (jc c y) = true /\ st (Jb s y) = DoneExc t)).

Lemma noncrit_false c n : noncrit c n = false ->
  j_crit (jc c n) = true /\ (n = 0 -> pure_root c = false).
Proof.
  unfold noncrit. intros H. apply orb_false_iff in H. destruct H as [H1 H2].
  apply negb_false_iff in H2. split; [exact H2|]. intros ->. exact H1.
Qed.

Lemma culprit_member c s n t : culprit_ok c s n WCritical t = true -> noncrit c n = false ->
  exists y, In y (members c n) /\ j_crit (jc c y) = true /\ st (Jb s y) = DoneExc t.
Proof.
  unfold culprit_ok, noncrit. intros H Hn. rewrite Hn in H.
  apply existsb_exists in H. destruct H as (y & Hy & H). apply andb_true_iff in H. destruct H as [H1 H2].
  exists y. split; [exact Hy|]. split; [exact H1|].
  destruct (st (Jb s y)); try discriminate. apply Nat.eqb_eq in H2. subst. reflexivity.
Qed.

(* the end of the run of n with verdict VRaise t, seen from the state before the step *)
Lemma raise_cases lvl c h s e s' n k d o t : wf c = true -> Reach lvl c h s ->
  step lvl c s e = Some s' -> e = EWake n k d o -> (k = KShut /\ d = [] \/ k = KShTidy) ->
  sd_inline s n = true -> rcanc (Rn s n) = false ->
  verdict_of c n (why_of s n) (culprit_of o) = VRaise t ->
  j_crit (jc c n) = true /\
  ((t = tag_timeout n /\ j_timeout (jc c n) <> None) \/
   exists y, In y (members c n) /\ j_crit (jc c y) = true /\ st (Jb s y) = DoneExc t /\
             st (Jb s' y) = DoneExc t).
Proof.
  intros W Hr Hs He Hk Hin Hrc Hv.
  destruct (raised_tag _ _ _ _ _ Hv) as [Hnc [[Hw ->]|[Hw ->]]].
  - split; [apply (noncrit_false _ _ Hnc)|]. left. split; [reflexivity|].
    apply (InvTO_reach lvl c h s W Hr n). right.
    unfold sd_inline in Hin. unfold why_of in Hw.
    destruct (ph (Rn s n)); try discriminate. rewrite Hw. reflexivity.
  - split; [apply (noncrit_false _ _ Hnc)|]. right.
    pose proof (accepted_culprit lvl c s e s' n k d o Hs He Hk Hin Hrc) as Hc. rewrite Hw in Hc.
    destruct (culprit_member _ _ _ _ Hc Hnc) as (y & Hy & Hyc & Hst).
    exists y. split; [exact Hy|]. split; [exact Hyc|]. split; [exact Hst|].
    rewrite (finished_stable lvl c s e s' y W (Inv1_reach lvl c h s W Hr) Hs); [exact Hst|].
    rewrite Hst. reflexivity.
Qed.

Theorem InvX_reach lvl c h s : wf c = true -> Reach lvl c h s -> InvX c s.
Proof.
  intros W Hr. revert h s Hr. apply reach_ind.
  - intros x t _ H. discriminate.
  - intros h s e s' Hr IH Hs x t Hx Hst.
    destruct (exc_step lvl c s e s' x t Hs Hst)
      as [H|[(_ & H1 & H2)|(_ & Hsc & k & d & o & He & Hk & Hin & Hrc & Hv)]].
    + destruct (IH x t Hx H) as [K|(K1 & K2 & [K|(y & Y1 & Y2 & Y3)])]; [left; exact K|right; auto|].
      right. split; [exact K1|]. split; [exact K2|]. right.
      exists y. split; [exact Y1|]. split; [exact Y2|].
      rewrite (finished_stable lvl c s e s' y W (Inv1_reach lvl c h s W Hr) Hs); [exact Y3|].
      rewrite Y3. reflexivity.
    + left. auto.
    + right. split; [exact Hsc|].
      destruct (raise_cases lvl c h s e s' x k d o t W Hr Hs He Hk Hin Hrc Hv) as [Hc [K|(y & Y1 & Y2 & _ & Y3)]].
      * split; [exact Hc|]. left. exact K.
      * split; [exact Hc|]. right. exists y. auto.
Qed.

(* ------------------------------------------------------------------ the origin of an exception *)

(* [origin c s x t]: the exception object tagged t that came out of job x is the one raised by
   an atomic job (which still holds it), or the TimeoutError of a critical scheduler with a timeout;
   between that job and x there are only critical schedulers, each a critical member of the next,
   and each of them finished by raising this very object *)
Inductive origin (c : cfg) (s : state) : nat -> nat -> Prop :=
| O_atom x : j_sched (jc c x) = false -> st (Jb s x) = DoneExc (tag_job x) -> origin c s x (tag_job x)
| O_timeout n : j_sched (jc c n) = true -> j_crit (jc c n) = true -> j_timeout (jc c n) <> None ->
                origin c s n (tag_timeout n)
| O_up n y t : j_sched (jc c n) = true -> j_crit (jc c n) = true ->
               In y (members c n) -> j_crit (jc c y) = true -> st (Jb s y) = DoneExc t ->
               origin c s y t -> origin c s n t.

Lemma origin_of_InvX c s : wf c = true -> InvX c s ->
  forall k x t, k = njobs c - x -> x <> 0 -> st (Jb s x) = DoneExc t -> origin c s x t.
Proof.
  intros W IX k. induction k as [k IH] using lt_wf_ind. intros x t Hk Hx Hst.
  destruct (IX x t Hx Hst) as [[K1 ->]|(K1 & K2 & [[-> K3]|(y & Y1 & Y2 & Y3)])].
  - apply O_atom; assumption.
  - apply O_timeout; assumption.
  - apply (O_up c s x y t); try assumption.
    pose proof (proj1 (In_members c x y) Y1) as (Hy & Hp & Hy0).
    destruct (wf_parent c y W Hy Hy0) as [Hlt _]. rewrite Hp in Hlt.
    apply (IH (njobs c - y)); [lia|reflexivity|exact Hy0|exact Y3].
Qed.

(* every exception recorded in the status of a job has an origin *)
Theorem exc_has_origin lvl c h s x t : wf c = true -> Reach lvl c h s -> x <> 0 ->
  st (Jb s x) = DoneExc t -> origin c s x t.
Proof.
  intros W Hr Hx Hst.
  apply (origin_of_InvX c s W (InvX_reach lvl c h s W Hr) (njobs c - x) x t eq_refl Hx Hst).
Qed.

Lemma root_is_sched c : wf c = true -> j_sched (jc c 0) = true.
Proof.
  intros W. assert (H0 : 0 < njobs c).
  { unfold wf in W. apply andb_true_iff in W. destruct W as [W _].
    apply negb_true_iff, Nat.eqb_neq in W. lia. }
  pose proof (wf_job_of c 0 W H0) as H. unfold wf_job in H. cbn [Nat.eqb] in H.
  rewrite !andb_true_iff in H. tauto.
Qed.

(* and so has the exception that comes out of the top-level run *)
Theorem root_exc_has_origin lvl c h s e s' t : wf c = true -> Reach lvl c h s ->
  step lvl c s e = Some s' -> In (OEnd 0 (VRaise t)) (snd (reaction c s e)) -> origin c s' 0 t.
Proof.
  intros W Hr Hs Hin.
  destruct (end_in_reaction c s e 0 (VRaise t) Hin)
    as [_ [Ev|[(Ev & _)|(Hi & Hrc & Ev & k & d & o & Ee & Hk)]]]; try discriminate.
  assert (Hk' : k = KShut /\ d = [] \/ k = KShTidy).
  { destruct Hk as [-> | ->]; [|right; reflexivity]. left. split; [reflexivity|].
    destruct d as [|p0 p']; [reflexivity|]. exfalso. subst e.
    cbn [reaction] in Hin. unfold react_shut, react_shut_wake in Hin. cbn [snd] in Hin.
    destruct Hin as [H|[]]. discriminate. }
  assert (Hv : verdict_of c 0 (why_of s 0) (culprit_of o) = VRaise t).
  { rewrite Ev. subst e. reflexivity. }
  destruct (raise_cases lvl c h s e s' 0 k d o t W Hr Hs Ee Hk' Hi Hrc Hv) as [Hc [[-> K]|(y & Y1 & Y2 & _ & Y3)]].
  - apply O_timeout; [apply root_is_sched; exact W|exact Hc|exact K].
  - apply (O_up c s' 0 y t); [apply root_is_sched; exact W|exact Hc|exact Y1|exact Y2|exact Y3|].
    apply (exc_has_origin lvl c (h ++ [e]) s' y t W (reach_snoc _ _ _ _ _ _ Hr Hs)); [|exact Y3].
    apply In_members in Y1. tauto.
Qed.

(* ------------------------------------------------------------------ the bottom of the chain *)

(* [chain c s j x t]: from j up to x, every job is a critical member of the next, which is a
   critical scheduler, and all of them but possibly x have the status DoneExc t *)
Inductive chain (c : cfg) (s : state) (t : nat) : nat -> nat -> Prop :=
| Ch_here x : chain c s t x x
| Ch_up j y n : chain c s t j y -> In y (members c n) -> j_crit (jc c y) = true ->
                st (Jb s y) = DoneExc t -> j_sched (jc c n) = true -> j_crit (jc c n) = true ->
                chain c s t j n.

Lemma origin_bottom c s x t : origin c s x t ->
  exists j, chain c s t j x /\
    ((j_sched (jc c j) = false /\ t = tag_job j /\ st (Jb s j) = DoneExc t) \/
     (j_sched (jc c j) = true /\ j_crit (jc c j) = true /\ j_timeout (jc c j) <> None /\ t = tag_timeout j)).
Proof.
  induction 1 as [x H1 H2|n H1 H2 H3|n y t H1 H2 H3 H4 H5 _ IH].
  - exists x. split; [apply Ch_here|]. left. auto.
  - exists n. split; [apply Ch_here|]. right. auto.
  - destruct IH as (j & Hc & Hj). exists j. split; [|exact Hj].
    eapply Ch_up; eauto.
Qed.

(* the tag found on any job is that of an atomic job that raised it and still holds it (its
   exception stays retrievable), or that of a scheduler that timed out *)
Corollary chain_bottom lvl c h s x t : wf c = true -> Reach lvl c h s -> x <> 0 ->
  st (Jb s x) = DoneExc t ->
  exists j, (j_sched (jc c j) = false /\ t = tag_job j /\ st (Jb s j) = DoneExc t) \/
            (j_sched (jc c j) = true /\ t = tag_timeout j).
Proof.
  intros W Hr Hx Hst.
  destruct (origin_bottom c s x t (exc_has_origin lvl c h s x t W Hr Hx Hst)) as (j & _ & [H|(H1 & _ & _ & H2)]);
    exists j; [left; exact H|right; auto].
Qed.

(* the same, with the path: j is x itself or lies below x, and every scheduler on the way up
   from j to x is critical, has the job below it as a critical member, and raised the same object *)
Corollary chain_bottom_path lvl c h s x t : wf c = true -> Reach lvl c h s -> x <> 0 ->
  st (Jb s x) = DoneExc t ->
  exists j, chain c s t j x /\
    ((j_sched (jc c j) = false /\ t = tag_job j /\ st (Jb s j) = DoneExc t) \/
     (j_sched (jc c j) = true /\ j_crit (jc c j) = true /\ j_timeout (jc c j) <> None /\ t = tag_timeout j)).
Proof.
  intros W Hr Hx Hst. apply origin_bottom. eapply exc_has_origin; eauto.
Qed.

(* the tags tell the two kinds of origin apart, and name the job *)
Lemma tag_job_inj a b : tag_job a = tag_job b -> a = b.
Proof. unfold tag_job. lia. Qed.
Lemma tag_timeout_inj a b : tag_timeout a = tag_timeout b -> a = b.
Proof. unfold tag_timeout. lia. Qed.
Lemma tag_job_timeout a b : tag_job a <> tag_timeout b.
Proof. unfold tag_job, tag_timeout. lia. Qed.

Print Assumptions exc_has_origin.
Print Assumptions root_exc_has_origin.
Print Assumptions chain_bottom.
