(* The schedule of a well-formed tree and its flattened graph (C10, last sentence):
   - the start instant of an atomic job is the maximum of the end instants of its flat requirements;
   - the scheduling equations of a well-formed tree have exactly one solution;
   - an atomic job starts and ends at the same instants in the tree and in its flattened graph;
   - the boolean check [is_scheduleb] is the equations, so a checked [solve] is the schedule.
   Definitions are in RSchedDef.v.  No axioms. *)
From AJ Require Import Common.Util Run.RModel Run.RFacts Run.RSchedDef.

Local Open Scope N_scope.

(* ------------------------------------------------------------------ maxl *)

Lemma maxl_ge_base a l : a <= maxl a l.
Proof. induction l as [|v l IH]; simpl; lia. Qed.

Lemma maxl_ge_in a l v : In v l -> v <= maxl a l.
Proof.
  induction l as [|w l IH]; simpl; intros Hin; [destruct Hin|].
  destruct Hin as [->|Hin]; [lia|]. specialize (IH Hin). lia.
Qed.

Lemma maxl_lub a l b : a <= b -> (forall v, In v l -> v <= b) -> maxl a l <= b.
Proof.
  intros Ha. induction l as [|w l IH]; simpl; intros Hl; [exact Ha|].
  apply N.max_lub; [apply Hl; auto|apply IH; intros v Hv; apply Hl; auto].
Qed.

Lemma maxl_app a l1 l2 : maxl a (l1 ++ l2) = maxl (maxl a l2) l1.
Proof. unfold maxl. apply fold_right_app. Qed.

Lemma maxl_map_ge a (E : nat -> N) l y : In y l -> E y <= maxl a (map E l).
Proof. intros H. apply maxl_ge_in. apply in_map. exact H. Qed.

Lemma maxl_map_lub a (E : nat -> N) l b :
  a <= b -> (forall y, In y l -> E y <= b) -> maxl a (map E l) <= b.
Proof.
  intros Ha Hl. apply maxl_lub; [exact Ha|]. intros v Hv. apply in_map_iff in Hv.
  destruct Hv as (y & <- & Hy). apply Hl. exact Hy.
Qed.

Lemma maxl_map_incl a (E : nat -> N) l1 l2 :
  (forall y, In y l1 -> In y l2) -> maxl a (map E l1) <= maxl a (map E l2).
Proof.
  intros Hi. apply maxl_map_lub; [apply maxl_ge_base|]. intros y Hy. apply maxl_map_ge. auto.
Qed.

Lemma maxl_map_ext a b (E E' : nat -> N) l :
  a = b -> (forall y, In y l -> E y = E' y) -> maxl a (map E l) = maxl b (map E' l).
Proof. intros -> H. f_equal. apply map_ext_in. exact H. Qed.

(* ------------------------------------------------------------------ counting *)

Lemma length_seqn n : length (seqn n) = n.
Proof. induction n as [|n IH]; simpl; [reflexivity|]. rewrite app_length, IH. simpl. lia. Qed.

Lemma filter_len_le (p : nat -> bool) l : (length (filter p l) <= length l)%nat.
Proof. induction l as [|a l IH]; simpl; [lia|]. destruct (p a); simpl; lia. Qed.

Lemma filter_len_mono (p q : nat -> bool) l :
  (forall y, In y l -> p y = true -> q y = true) ->
  (length (filter p l) <= length (filter q l))%nat.
Proof.
  induction l as [|a l IH]; simpl; intros H; [lia|].
  assert (IH' : (length (filter p l) <= length (filter q l))%nat) by (apply IH; intros; apply H; auto).
  destruct (p a) eqn:Pa.
  - rewrite (H a (or_introl eq_refl) Pa). simpl. lia.
  - destruct (q a); simpl; lia.
Qed.

Lemma filter_len_lt (p q : nat -> bool) l z :
  (forall y, In y l -> p y = true -> q y = true) ->
  In z l -> q z = true -> p z = false ->
  (length (filter p l) < length (filter q l))%nat.
Proof.
  induction l as [|a l IH]; simpl; intros H Hz Qz Pz; [destruct Hz|].
  assert (Hl : forall y, In y l -> p y = true -> q y = true) by (intros; apply H; auto).
  destruct Hz as [->|Hz].
  - rewrite Pz, Qz. simpl. pose proof (filter_len_mono p q l Hl). lia.
  - specialize (IH Hl Hz Qz Pz). destruct (p a) eqn:Pa.
    + rewrite (H a (or_introl eq_refl) Pa). simpl. lia.
    + destruct (q a); simpl; lia.
Qed.

(* ------------------------------------------------------------------ the order of the equations *)

(* E x depends on the members of x (deeper) and S x on the requirements of x (same depth, smaller
   ids) : the rank of x counts the jobs that are deeper than x, or as deep with an id <= x *)
Fixpoint depthf (fuel : nat) (c : cfg) (x : nat) : nat :=
  match fuel with
  | O => O
  | S f => if Nat.eqb x 0 then O else S (depthf f c (parent c x))
  end.
Definition dep (c : cfg) (x : nat) : nat := depthf (S x) c x.

Definition afterb (c : cfg) (r y : nat) : bool :=
  Nat.ltb (dep c r) (dep c y) || (Nat.eqb (dep c y) (dep c r) && Nat.leb y r).
Definition rank (c : cfg) (r : nat) : nat := length (filter (afterb c r) (all_ids c)).

Lemma depthf_stable c : wf c = true -> forall f1 f2 x,
  (x < njobs c -> x < f1 -> x < f2 -> depthf f1 c x = depthf f2 c x)%nat.
Proof.
  intros W. induction f1 as [|f1 IH]; intros f2 x Hx H1 H2; [lia|].
  destruct f2 as [|f2]; [lia|]. simpl. destruct (Nat.eqb_spec x 0) as [|Hn]; [reflexivity|].
  f_equal. destruct (wf_parent c x W Hx Hn) as [Hp _]. apply IH; lia.
Qed.

Lemma dep_step c x : wf c = true -> (x < njobs c)%nat -> x <> 0%nat ->
  dep c x = S (dep c (parent c x)).
Proof.
  intros W Hx Hn. unfold dep at 1. simpl. apply Nat.eqb_neq in Hn. rewrite Hn. apply Nat.eqb_neq in Hn.
  f_equal. destruct (wf_parent c x W Hx Hn) as [Hp _]. unfold dep. apply depthf_stable; auto; lia.
Qed.

Lemma rank_le c r : (rank c r <= njobs c)%nat.
Proof.
  unfold rank. pose proof (filter_len_le (afterb c r) (all_ids c)) as H.
  unfold all_ids in *. rewrite length_seqn in H. exact H.
Qed.

Lemma afterb_refl c r : afterb c r r = true.
Proof. unfold afterb. rewrite Nat.eqb_refl, Nat.leb_refl. apply orb_true_r. Qed.

Lemma rank_pos c r : (r < njobs c)%nat -> (1 <= rank c r)%nat.
Proof.
  intros Hr. unfold rank.
  assert (Hin : In r (filter (afterb c r) (all_ids c))).
  { apply filter_In. split; [apply In_all_ids; exact Hr|apply afterb_refl]. }
  destruct (filter (afterb c r) (all_ids c)); [destruct Hin|simpl; lia].
Qed.

Lemma rank_lt c r r' :
  (r < njobs c)%nat ->
  (dep c r < dep c r' \/ (dep c r' = dep c r /\ r' < r))%nat ->
  (rank c r' < rank c r)%nat.
Proof.
  intros Hr Hd. unfold rank. apply filter_len_lt with (z := r).
  - intros y _. unfold afterb. rewrite !orb_true_iff, !andb_true_iff, !Nat.ltb_lt, !Nat.eqb_eq, !Nat.leb_le. lia.
  - apply In_all_ids. exact Hr.
  - apply afterb_refl.
  - unfold afterb. apply orb_false_iff. split.
    + apply Nat.ltb_ge. lia.
    + apply andb_false_iff. destruct Hd as [Hd|[Hd1 Hd2]].
      * left. apply Nat.eqb_neq. lia.
      * right. apply Nat.leb_gt. lia.
Qed.

Lemma rank_member c r m : wf c = true -> (r < njobs c)%nat -> In m (members c r) ->
  (rank c m < rank c r)%nat.
Proof.
  intros W Hr Hm. apply In_members in Hm. destruct Hm as (Hm & Hp & H0).
  apply rank_lt; [exact Hr|]. left. rewrite (dep_step c m W Hm H0), Hp. lia.
Qed.

Lemma rank_req c r r' : wf c = true -> (r < njobs c)%nat -> r <> 0%nat -> In r' (reqs c r) ->
  (rank c r' < rank c r)%nat.
Proof.
  intros W Hr H0 Hq. destruct (wf_reqs c r r' W Hr H0 Hq) as (Hlt & Hp & H0').
  apply rank_lt; [exact Hr|]. right. split; [|exact Hlt].
  rewrite (dep_step c r W Hr H0), (dep_step c r' W) by (auto; lia). rewrite Hp. reflexivity.
Qed.

Lemma wf_root c : wf c = true ->
  (0 < njobs c)%nat /\ reqs c 0 = [] /\ parent c 0 = 0%nat /\ j_sched (jc c 0) = true.
Proof.
  intros W. assert (Hn : (0 < njobs c)%nat).
  { unfold wf in W. apply andb_true_iff in W. destruct W as [W _].
    apply negb_true_iff, Nat.eqb_neq in W. lia. }
  pose proof (wf_job_of c 0 W Hn) as H. unfold wf_job in H. simpl in H.
  rewrite !andb_true_iff in H. destruct H as [[H1 H2] H3]. apply Nat.eqb_eq in H2.
  unfold reqs, parent. destruct (j_reqs (jc c 0)); [auto|discriminate].
Qed.

Lemma req_facts c x r : wf c = true -> (x < njobs c)%nat -> In r (reqs c x) ->
  x <> 0%nat /\ (r < njobs c)%nat /\ r <> 0%nat /\ parent c r = parent c x /\ (r < x)%nat.
Proof.
  intros W Hx Hr. destruct (Nat.eq_dec x 0) as [->|Hn].
  - destruct (wf_root c W) as (_ & H & _). rewrite H in Hr. destruct Hr.
  - destruct (wf_reqs c x r W Hx Hn Hr) as (A & B & C). repeat split; auto; lia.
Qed.

(* ------------------------------------------------------------------ consequences of the equations *)

Section Sched.
Variables (c : cfg) (S E : nat -> N).
Hypothesis W : wf c = true.
Hypothesis H : is_schedule c S E.

Lemma sch_S x : (x < njobs c)%nat -> x <> 0%nat -> S x = maxl (S (parent c x)) (map E (reqs c x)).
Proof. intros Hx Hn. destruct H as [_ H']. destruct (H' x Hx) as (A & _ & _). auto. Qed.

Lemma sch_Ea x : (x < njobs c)%nat -> j_sched (jc c x) = false -> E x = S x + durN c x.
Proof. intros Hx Hn. destruct H as [_ H']. destruct (H' x Hx) as (_ & A & _). auto. Qed.

Lemma sch_Es x : (x < njobs c)%nat -> j_sched (jc c x) = true -> E x = maxl (S x) (map E (members c x)).
Proof. intros Hx Hn. destruct H as [_ H']. destruct (H' x Hx) as (_ & _ & A). auto. Qed.

Lemma S_le_E x : (x < njobs c)%nat -> S x <= E x.
Proof.
  intros Hx. destruct (j_sched (jc c x)) eqn:Hs.
  - rewrite (sch_Es x Hx Hs). apply maxl_ge_base.
  - rewrite (sch_Ea x Hx Hs). lia.
Qed.

Lemma par_le x : (x < njobs c)%nat -> x <> 0%nat -> S (parent c x) <= S x.
Proof. intros Hx Hn. rewrite (sch_S x Hx Hn). apply maxl_ge_base. Qed.

Lemma req_le x r : (x < njobs c)%nat -> In r (reqs c x) -> E r <= S x.
Proof.
  intros Hx Hr. destruct (req_facts c x r W Hx Hr) as (Hn & _).
  rewrite (sch_S x Hx Hn). apply maxl_map_ge. exact Hr.
Qed.

Lemma mem_le x m : (x < njobs c)%nat -> j_sched (jc c x) = true -> In m (members c x) -> E m <= E x.
Proof. intros Hx Hs Hm. rewrite (sch_Es x Hx Hs). apply maxl_map_ge. exact Hm. Qed.

(* ---------- every flat requirement has ended when the job starts ---------- *)

Lemma expand_le fuel : forall r y, r <> 0%nat -> (r < njobs c)%nat -> In y (expand fuel c r) -> E y <= E r.
Proof.
  induction fuel as [|f IH]; intros r y Hn Hr Hy; simpl in Hy; [destruct Hy|].
  destruct (j_sched (jc c r)) eqn:Hs.
  - apply in_app_iff in Hy. destruct Hy as [Hy|Hy]; apply in_flat_map in Hy; destruct Hy as (m & Hm & Hy).
    + pose proof (mem_le r m Hr Hs Hm) as Hle. apply In_members in Hm. destruct Hm as (Hm & _ & H0).
      specialize (IH m y H0 Hm Hy). lia.
    + destruct (req_facts c r m W Hr Hm) as (_ & Hm' & H0 & _).
      specialize (IH m y H0 Hm' Hy). pose proof (req_le r m Hr Hm). pose proof (S_le_E r Hr). lia.
  - destruct Hy as [<-|[]]. lia.
Qed.

Lemma up_reqs_le fuel : forall x u, (x < njobs c)%nat -> In u (up_reqs fuel c x) ->
  E u <= S x /\ u <> 0%nat /\ (u < njobs c)%nat.
Proof.
  induction fuel as [|f IH]; intros x u Hx Hu; simpl in Hu; [destruct Hu|].
  apply in_app_iff in Hu. destruct Hu as [Hu|Hu].
  - destruct (req_facts c x u W Hx Hu) as (_ & A & B & _). pose proof (req_le x u Hx Hu). auto.
  - destruct (Nat.eqb_spec x 0) as [|Hn]; [destruct Hu|].
    destruct (wf_parent c x W Hx Hn) as [Hp _].
    destruct (IH (parent c x) u) as (A & B & C); [lia|exact Hu|].
    pose proof (par_le x Hx Hn). repeat split; auto. lia.
Qed.

(* ---------- the flat requirements are enough ---------- *)

Lemma expand_ge fuel : forall r, r <> 0%nat -> (r < njobs c)%nat -> (rank c r <= fuel)%nat ->
  E r <= N.max (S (parent c r)) (maxl 0 (map E (expand fuel c r))).
Proof.
  induction fuel as [|f IH]; intros r Hn Hr Hk.
  { pose proof (rank_pos c r Hr). lia. }
  simpl expand. destruct (j_sched (jc c r)) eqn:Hs.
  - set (L := flat_map (expand f c) (members c r) ++ flat_map (expand f c) (reqs c r)).
    set (B := N.max (S (parent c r)) (maxl 0 (map E L))).
    assert (HS : S r <= B).
    { rewrite (sch_S r Hr Hn). apply maxl_map_lub; [unfold B; lia|].
      intros r' Hq. destruct (req_facts c r r' W Hr Hq) as (_ & Hr' & H0 & Hp & _).
      pose proof (rank_req c r r' W Hr Hn Hq) as Hrk.
      assert (Hf : (rank c r' <= f)%nat) by lia.
      specialize (IH r' H0 Hr' Hf). rewrite Hp in IH.
      assert (Hi : maxl 0 (map E (expand f c r')) <= maxl 0 (map E L)).
      { apply maxl_map_incl. intros y Hy. unfold L. apply in_app_iff. right.
        apply in_flat_map. exists r'. auto. }
      unfold B. lia. }
    rewrite (sch_Es r Hr Hs). apply maxl_map_lub; [exact HS|].
    intros m Hm. pose proof (rank_member c r m W Hr Hm) as Hrk.
    assert (Hf : (rank c m <= f)%nat) by lia.
    pose proof Hm as Hm'. apply In_members in Hm'. destruct Hm' as (Hm' & Hp & H0).
    specialize (IH m H0 Hm' Hf). rewrite Hp in IH.
    assert (Hi : maxl 0 (map E (expand f c m)) <= maxl 0 (map E L)).
    { apply maxl_map_incl. intros y Hy. unfold L. apply in_app_iff. left.
      apply in_flat_map. exists m. auto. }
    unfold B in *. lia.
  - simpl. lia.
Qed.

Lemma S_le_up fuel : forall x, (x < njobs c)%nat -> (x < fuel)%nat ->
  S x <= maxl 0 (map E (flat_map (expand (njobs c) c) (up_reqs fuel c x))).
Proof.
  induction fuel as [|f IH]; intros x Hx Hf; [lia|].
  simpl up_reqs. destruct (Nat.eqb_spec x 0) as [->|Hn].
  { destruct H as [H0 _]. rewrite H0. apply N.le_0_l. }
  destruct (wf_parent c x W Hx Hn) as [Hp _].
  set (M := maxl 0 (map E (flat_map (expand (njobs c) c) (reqs c x ++ up_reqs f c (parent c x))))).
  assert (HP : S (parent c x) <= M).
  { etransitivity; [apply (IH (parent c x)); lia|].
    apply maxl_map_incl. intros y Hy. apply in_flat_map in Hy. destruct Hy as (u & Hu & Hy).
    apply in_flat_map. exists u. split; [apply in_app_iff; auto|exact Hy]. }
  rewrite (sch_S x Hx Hn). apply maxl_map_lub; [exact HP|].
  intros r Hq. destruct (req_facts c x r W Hx Hq) as (_ & Hr & H0 & Hpr & _).
  pose proof (expand_ge (njobs c) r H0 Hr (rank_le c r)) as Hg. rewrite Hpr in Hg.
  assert (Hi : maxl 0 (map E (expand (njobs c) c r)) <= M).
  { apply maxl_map_incl. intros y Hy. apply in_flat_map. exists r. split; [apply in_app_iff; auto|exact Hy]. }
  lia.
Qed.

End Sched.

(* 1. in the nested tree, the start instant of an atomic job is determined by its flat requirements *)
Theorem start_from_flat_requirements c S E x :
  wf c = true -> is_schedule c S E -> atomic_id c x = true ->
  S x = maxl 0%N (map E (frq c x)).
Proof.
  intros W H Hx. unfold atomic_id in Hx. rewrite !andb_true_iff in Hx. destruct Hx as [[_ Hx] _].
  apply Nat.ltb_lt in Hx. apply N.le_antisymm.
  - unfold frq. apply S_le_up; auto.
  - apply maxl_map_lub; [apply N.le_0_l|]. intros y Hy. unfold frq in Hy.
    apply in_flat_map in Hy. destruct Hy as (u & Hu & Hy).
    destruct (up_reqs_le c S E W H _ x u Hx Hu) as (A & B & C).
    pose proof (expand_le c S E W H _ u y B C Hy). lia.
Qed.

(* ------------------------------------------------------------------ uniqueness *)

Section Unique.
Variables (c : cfg) (S E S' E' : nat -> N).
Hypothesis W : wf c = true.
Hypothesis H : is_schedule c S E.
Hypothesis H' : is_schedule c S' E'.

(* below a job whose scheduler begins at the same instant in both, everything agrees *)
Lemma unique_below fuel : forall r, r <> 0%nat -> (r < njobs c)%nat -> (rank c r <= fuel)%nat ->
  S (parent c r) = S' (parent c r) -> S r = S' r /\ E r = E' r.
Proof.
  induction fuel as [|f IH]; intros r Hn Hr Hk HP.
  { pose proof (rank_pos c r Hr). lia. }
  assert (HS : S r = S' r).
  { rewrite (sch_S c S E H r Hr Hn), (sch_S c S' E' H' r Hr Hn).
    apply maxl_map_ext; [exact HP|]. intros r' Hq.
    destruct (req_facts c r r' W Hr Hq) as (_ & Hr' & H0 & Hp & _).
    pose proof (rank_req c r r' W Hr Hn Hq) as Hrk.
    apply (IH r' H0 Hr'); [lia|]. rewrite Hp. exact HP. }
  split; [exact HS|]. destruct (j_sched (jc c r)) eqn:Hs.
  - rewrite (sch_Es c S E H r Hr Hs), (sch_Es c S' E' H' r Hr Hs).
    apply maxl_map_ext; [exact HS|]. intros m Hm.
    pose proof (rank_member c r m W Hr Hm) as Hrk.
    pose proof Hm as Hm'. apply In_members in Hm'. destruct Hm' as (Hm' & Hp & H0).
    apply (IH m H0 Hm'); [lia|]. rewrite Hp. exact HS.
  - rewrite (sch_Ea c S E H r Hr Hs), (sch_Ea c S' E' H' r Hr Hs), HS. reflexivity.
Qed.

Lemma unique_all : forall x, (x < njobs c)%nat -> S x = S' x /\ E x = E' x.
Proof.
  intros x. induction x as [x IH] using lt_wf_ind. intros Hx.
  destruct (Nat.eq_dec x 0) as [->|Hn].
  - assert (HS : S 0%nat = S' 0%nat).
    { destruct H as [A _], H' as [B _]. rewrite A, B. reflexivity. }
    split; [exact HS|]. destruct (wf_root c W) as (_ & _ & _ & Hs).
    rewrite (sch_Es c S E H 0 Hx Hs), (sch_Es c S' E' H' 0 Hx Hs).
    apply maxl_map_ext; [exact HS|]. intros m Hm.
    apply In_members in Hm. destruct Hm as (Hm & Hp & H0).
    apply (unique_below (njobs c) m H0 Hm (rank_le c m)). rewrite Hp. exact HS.
  - destruct (wf_parent c x W Hx Hn) as [Hp _].
    apply (unique_below (njobs c) x Hn Hx (rank_le c x)). apply IH; lia.
Qed.

End Unique.

(* 2. the schedule of a well-formed tree is unique *)
Theorem schedule_unique c S E S' E' :
  wf c = true -> is_schedule c S E -> is_schedule c S' E' ->
  forall x, (x < njobs c)%nat -> S x = S' x /\ E x = E' x.
Proof. intros W H H'. apply unique_all; assumption. Qed.

(* ------------------------------------------------------------------ the flattened graph *)

Lemma expand_atomic c fuel : wf c = true -> forall r y, r <> 0%nat -> (r < njobs c)%nat ->
  In y (expand fuel c r) -> atomic_id c y = true.
Proof.
  intros W. induction fuel as [|f IH]; intros r y Hn Hr Hy; simpl in Hy; [destruct Hy|].
  destruct (j_sched (jc c r)) eqn:Hs.
  - apply in_app_iff in Hy. destruct Hy as [Hy|Hy]; apply in_flat_map in Hy; destruct Hy as (m & Hm & Hy).
    + apply In_members in Hm. destruct Hm as (Hm & _ & H0). apply (IH m y H0 Hm Hy).
    + destruct (req_facts c r m W Hr Hm) as (_ & Hm' & H0 & _). apply (IH m y H0 Hm' Hy).
  - destruct Hy as [<-|[]]. unfold atomic_id, rootb. rewrite Hs. simpl.
    apply andb_true_iff. split; [apply Nat.ltb_lt; exact Hr|].
    apply negb_true_iff, Nat.eqb_neq. exact Hn.
Qed.

Lemma up_reqs_ids c fuel : wf c = true -> forall x u, (x < njobs c)%nat -> In u (up_reqs fuel c x) ->
  u <> 0%nat /\ (u < njobs c)%nat.
Proof.
  intros W. induction fuel as [|f IH]; intros x u Hx Hu; simpl in Hu; [destruct Hu|].
  apply in_app_iff in Hu. destruct Hu as [Hu|Hu].
  - destruct (req_facts c x u W Hx Hu) as (_ & A & B & _). auto.
  - destruct (Nat.eqb_spec x 0) as [|Hn]; [destruct Hu|].
    destruct (wf_parent c x W Hx Hn) as [Hp _]. apply (IH (parent c x) u); [lia|exact Hu].
Qed.

Lemma frq_atomic c x y : wf c = true -> (x < njobs c)%nat -> In y (frq c x) -> atomic_id c y = true.
Proof.
  intros W Hx Hy. unfold frq in Hy. apply in_flat_map in Hy. destruct Hy as (u & Hu & Hy).
  destruct (up_reqs_ids c _ W x u Hx Hu) as [A B]. apply (expand_atomic c _ W u y A B Hy).
Qed.

Lemma subsetb_spec l1 l2 : subsetb l1 l2 = true <-> (forall x, In x l1 -> In x l2).
Proof.
  unfold subsetb. rewrite forallb_forall. split; intros Hs x Hx.
  - apply memb_In. apply Hs. exact Hx.
  - apply memb_In. apply Hs. exact Hx.
Qed.

Lemma atomic_id_spec c x : atomic_id c x = true <->
  j_sched (jc c x) = false /\ (x < njobs c)%nat /\ x <> 0%nat.
Proof.
  unfold atomic_id, rootb. rewrite !andb_true_iff, !negb_true_iff, Nat.ltb_lt, Nat.eqb_neq. tauto.
Qed.

Section Flat.
Variables (c c' : cfg) (f : list nat) (S E S' E' : nat -> N).
Hypothesis W : wf c = true.
Hypothesis W' : wf c' = true.
Hypothesis F : flat_ofb c c' f = true.
Hypothesis H : is_schedule c S E.
Hypothesis H' : is_schedule c' S' E'.

Lemma flat_parent k : (k < njobs c')%nat -> parent c' k = 0%nat.
Proof.
  intros Hk. unfold flat_ofb, flat in F. rewrite !andb_true_iff in F.
  destruct F as [[[F1 _] _] _]. rewrite forallb_forall in F1.
  apply Nat.eqb_eq. apply F1. apply In_all_ids. exact Hk.
Qed.

Lemma flat_atomic k : (k < njobs c')%nat -> k <> 0%nat -> j_sched (jc c' k) = false.
Proof.
  intros Hk Hn. unfold flat_ofb, flat in F. rewrite !andb_true_iff in F.
  destruct F as [[[_ F2] _] _]. rewrite forallb_forall in F2.
  specialize (F2 k (proj2 (In_all_ids c' k) Hk)). apply orb_true_iff in F2.
  destruct F2 as [F2|F2]; [apply Nat.eqb_eq in F2; contradiction|].
  apply negb_true_iff in F2. exact F2.
Qed.

Lemma flat_of_job x : atomic_id c x = true ->
  fname f x <> 0%nat /\ (fname f x < njobs c')%nat /\ durN c' (fname f x) = durN c x /\
  (forall k, In k (reqs c' (fname f x)) -> exists y, In y (frq c x) /\ fname f y = k) /\
  (forall y, In y (frq c x) -> In (fname f y) (reqs c' (fname f x))).
Proof.
  intros Hx. unfold flat_ofb in F. rewrite !andb_true_iff in F. destruct F as [[_ F2] _].
  rewrite forallb_forall in F2. pose proof Hx as Hx'. apply atomic_id_spec in Hx'.
  destruct Hx' as (_ & Hlt & _). specialize (F2 x (proj2 (In_all_ids c x) Hlt)).
  rewrite Hx in F2. rewrite !andb_true_iff in F2. destruct F2 as [[[[A B] C] D] G].
  apply negb_true_iff, Nat.eqb_neq in A. apply Nat.ltb_lt in B. apply N.eqb_eq in C.
  rewrite subsetb_spec in D, G. repeat split; auto.
  - intros k Hk. specialize (D k Hk). apply in_map_iff in D. destruct D as (y & Hy1 & Hy2). eauto.
  - intros y Hy. apply G. apply in_map. exact Hy.
Qed.

Lemma same_times_ind : forall k x, atomic_id c x = true -> fname f x = k ->
  S' k = S x /\ E' k = E x.
Proof.
  intros k. induction k as [k IH] using lt_wf_ind. intros x Hx Hk.
  destruct (flat_of_job x Hx) as (Hn & Hlt & Hd & Hsub1 & Hsub2). rewrite Hk in *.
  pose proof Hx as Hx'. apply atomic_id_spec in Hx'. destruct Hx' as (Hxs & Hxlt & Hx0).
  assert (HS : S' k = S x).
  { rewrite (start_from_flat_requirements c S E x W H Hx).
    rewrite (sch_S c' S' E' H' k Hlt Hn), (flat_parent k Hlt).
    destruct H' as [H0' _]. rewrite H0'. apply N.le_antisymm.
    - apply maxl_map_lub; [apply N.le_0_l|]. intros k' Hk'.
      destruct (Hsub1 k' Hk') as (y & Hy & Hyk).
      destruct (req_facts c' k k' W' Hlt Hk') as (_ & _ & _ & _ & Hlt').
      destruct (IH k' Hlt' y (frq_atomic c x y W Hxlt Hy) Hyk) as [_ HE]. rewrite HE.
      apply maxl_map_ge. exact Hy.
    - apply maxl_map_lub; [apply N.le_0_l|]. intros y Hy.
      pose proof (Hsub2 y Hy) as Hk'.
      destruct (req_facts c' k _ W' Hlt Hk') as (_ & _ & _ & _ & Hlt').
      destruct (IH _ Hlt' y (frq_atomic c x y W Hxlt Hy) eq_refl) as [_ HE]. rewrite <- HE.
      apply maxl_map_ge. exact Hk'. }
  split; [exact HS|].
  rewrite (sch_Ea c' S' E' H' k Hlt (flat_atomic k Hlt Hn)), (sch_Ea c S E H x Hxlt Hxs), HS, Hd.
  reflexivity.
Qed.

End Flat.

(* 3. every atomic job has the same start and end instants in the tree and in its flattened graph *)
Theorem same_times_as_flattened c c' f S E S' E' :
  wf c = true -> wf c' = true -> flat_ofb c c' f = true ->
  is_schedule c S E -> is_schedule c' S' E' ->
  forall x, atomic_id c x = true -> S' (fname f x) = S x /\ E' (fname f x) = E x.
Proof.
  intros W W' F H H' x Hx. apply (same_times_ind c c' f S E S' E' W W' F H H' (fname f x) x Hx eq_refl).
Qed.

(* ------------------------------------------------------------------ the executable check *)

(* 4. the boolean check is the scheduling equations over the tables *)
Theorem is_scheduleb_iff c lS lE : is_scheduleb c lS lE = true <-> is_schedule c (tab lS) (tab lE).
Proof.
  unfold is_scheduleb, is_schedule. rewrite andb_true_iff, N.eqb_eq, forallb_forall.
  split; intros [H0 Hall]; (split; [exact H0|]).
  - intros x Hx. specialize (Hall x (proj2 (In_all_ids c x) Hx)).
    apply andb_true_iff in Hall. destruct Hall as [A B]. repeat split.
    + intros Hn. apply orb_true_iff in A. destruct A as [A|A].
      * apply Nat.eqb_eq in A. contradiction.
      * apply N.eqb_eq in A. exact A.
    + intros Hs. rewrite Hs in B. apply N.eqb_eq in B. exact B.
    + intros Hs. rewrite Hs in B. apply N.eqb_eq in B. exact B.
  - intros x Hx. apply In_all_ids in Hx. destruct (Hall x Hx) as (A & B & C).
    apply andb_true_iff. split.
    + destruct (Nat.eqb_spec x 0) as [|Hn]; [reflexivity|]. simpl. apply N.eqb_eq. auto.
    + destruct (j_sched (jc c x)); apply N.eqb_eq; auto.
Qed.

Theorem solve_sound c lS lE :
  solve c = (lS, lE) -> is_scheduleb c lS lE = true -> is_schedule c (tab lS) (tab lE).
Proof. intros _. apply is_scheduleb_iff. Qed.

(* ------------------------------------------------------------------ existence *)

(* the end instant of r when its scheduler begins at sp: its requirements first, then its members *)
Fixpoint endf (fuel : nat) (c : cfg) (sp : N) (r : nat) : N :=
  match fuel with
  | O => 0
  | S f => let s := maxl sp (map (endf f c sp) (reqs c r)) in
           if j_sched (jc c r) then maxl s (map (endf f c s) (members c r)) else s + durN c r
  end.
Definition startf (fuel : nat) (c : cfg) (sp : N) (r : nat) : N :=
  maxl sp (map (endf fuel c sp) (reqs c r)).

Fixpoint Sdown (fuel : nat) (c : cfg) (x : nat) : N :=
  match fuel with
  | O => 0
  | S f => if Nat.eqb x 0 then 0 else startf (njobs c) c (Sdown f c (parent c x)) x
  end.
Definition Sfin (c : cfg) (x : nat) : N := Sdown (S x) c x.
Definition Efin (c : cfg) (x : nat) : N :=
  if Nat.eqb x 0 then maxl 0 (map (endf (njobs c) c 0) (members c 0))
  else endf (njobs c) c (Sfin c (parent c x)) x.

Lemma endf_stable c : wf c = true -> forall f1 f2 r sp, r <> 0%nat -> (r < njobs c)%nat ->
  (rank c r <= f1)%nat -> (rank c r <= f2)%nat -> endf f1 c sp r = endf f2 c sp r.
Proof.
  intros W. induction f1 as [|f1 IH]; intros f2 r sp Hn Hr H1 H2.
  { pose proof (rank_pos c r Hr). lia. }
  destruct f2 as [|f2]; [pose proof (rank_pos c r Hr); lia|]. simpl.
  assert (Hs : maxl sp (map (endf f1 c sp) (reqs c r)) = maxl sp (map (endf f2 c sp) (reqs c r))).
  { apply maxl_map_ext; [reflexivity|]. intros r' Hq.
    destruct (req_facts c r r' W Hr Hq) as (_ & Hr' & H0 & _).
    pose proof (rank_req c r r' W Hr Hn Hq). apply IH; auto; lia. }
  rewrite Hs. destruct (j_sched (jc c r)); [|reflexivity].
  apply maxl_map_ext; [reflexivity|]. intros m Hm.
  pose proof (rank_member c r m W Hr Hm). apply In_members in Hm. destruct Hm as (Hm & _ & H0).
  apply IH; auto; lia.
Qed.

Lemma startf_stable c : wf c = true -> forall f1 f2 r sp, r <> 0%nat -> (r < njobs c)%nat ->
  (rank c r <= S f1)%nat -> (rank c r <= S f2)%nat -> startf f1 c sp r = startf f2 c sp r.
Proof.
  intros W f1 f2 r sp Hn Hr H1 H2. unfold startf. apply maxl_map_ext; [reflexivity|]. intros r' Hq.
  destruct (req_facts c r r' W Hr Hq) as (_ & Hr' & H0 & _).
  pose proof (rank_req c r r' W Hr Hn Hq). apply endf_stable; auto; lia.
Qed.

Lemma Sdown_stable c : wf c = true -> forall f1 f2 x,
  (x < njobs c -> x < f1 -> x < f2 -> Sdown f1 c x = Sdown f2 c x)%nat.
Proof.
  intros W. induction f1 as [|f1 IH]; intros f2 x Hx H1 H2; [lia|].
  destruct f2 as [|f2]; [lia|]. simpl. destruct (Nat.eqb_spec x 0) as [|Hn]; [reflexivity|].
  destruct (wf_parent c x W Hx Hn) as [Hp _]. rewrite (IH f2 (parent c x)) by lia. reflexivity.
Qed.

Lemma Sfin_step c x : wf c = true -> (x < njobs c)%nat -> x <> 0%nat ->
  Sfin c x = startf (njobs c) c (Sfin c (parent c x)) x.
Proof.
  intros W Hx Hn. unfold Sfin at 1. simpl. apply Nat.eqb_neq in Hn. rewrite Hn. apply Nat.eqb_neq in Hn.
  destruct (wf_parent c x W Hx Hn) as [Hp _]. unfold Sfin.
  rewrite (Sdown_stable c W x (S (parent c x)) (parent c x)) by lia. reflexivity.
Qed.

Lemma Efin_nonroot c x : x <> 0%nat -> Efin c x = endf (njobs c) c (Sfin c (parent c x)) x.
Proof. intros Hn. unfold Efin. apply Nat.eqb_neq in Hn. rewrite Hn. reflexivity. Qed.

Theorem schedule_exists c : wf c = true -> exists S E, is_schedule c S E.
Proof.
  intros W. exists (Sfin c), (Efin c). split; [reflexivity|].
  destruct (wf_root c W) as (Hpos & _ & _ & Hroot).
  destruct (njobs c) as [|n'] eqn:En; [lia|]. rewrite <- En in *.
  intros x Hx.
  assert (HS : x <> 0%nat -> Sfin c x = maxl (Sfin c (parent c x)) (map (Efin c) (reqs c x))).
  { intros Hn. rewrite (Sfin_step c x W Hx Hn). unfold startf.
    apply maxl_map_ext; [reflexivity|]. intros r Hq.
    destruct (req_facts c x r W Hx Hq) as (_ & _ & H0 & Hp & _).
    rewrite (Efin_nonroot c r H0), Hp. reflexivity. }
  assert (Hst : x <> 0%nat -> Sfin c x = startf n' c (Sfin c (parent c x)) x).
  { intros Hn. rewrite (Sfin_step c x W Hx Hn). pose proof (rank_le c x).
    apply startf_stable; auto; lia. }
  split; [exact HS|]. split.
  - intros Hs. destruct (Nat.eq_dec x 0) as [->|Hn]; [congruence|].
    rewrite (Efin_nonroot c x Hn). rewrite En at 1. simpl. rewrite Hs.
    fold (startf n' c (Sfin c (parent c x)) x). rewrite <- (Hst Hn). reflexivity.
  - intros Hs. destruct (Nat.eq_dec x 0) as [->|Hn].
    + unfold Efin at 1. simpl. apply maxl_map_ext; [reflexivity|]. intros m Hm.
      apply In_members in Hm. destruct Hm as (_ & Hp & H0).
      rewrite (Efin_nonroot c m H0), Hp. reflexivity.
    + rewrite (Efin_nonroot c x Hn). rewrite En at 1. simpl. rewrite Hs.
      fold (startf n' c (Sfin c (parent c x)) x). rewrite <- (Hst Hn).
      apply maxl_map_ext; [reflexivity|]. intros m Hm.
      pose proof (rank_member c x m W Hx Hm) as Hk1. pose proof (rank_le c x) as Hk2.
      apply In_members in Hm. destruct Hm as (Hm & Hp & H0).
      rewrite (Efin_nonroot c m H0), Hp. apply endf_stable; auto; lia.
Qed.

Print Assumptions start_from_flat_requirements.
Print Assumptions schedule_unique.
Print Assumptions same_times_as_flattened.
Print Assumptions is_scheduleb_iff.
Print Assumptions solve_sound.
Print Assumptions schedule_exists.
