(* After a scheduler has left its main loop, what it still waits for is doomed: a cancellation
   has been requested, is being handled, or is over; such a job never finishes normally. *)
From AJ Require Import Common.Util Run.RModel Run.RFacts Run.RFacts2 Run.RInv Run.RInv2 Run.RInv3.

Definition doomed (c : cfg) (s : state) (x : nat) : Prop :=
  cp (Jb s x) = true \/ st (Jb s x) = Cancelling \/ st (Jb s x) = Cancelled \/
  (st (Jb s x) = Running /\ j_sched (jc c x) = true /\
   (ph (Rn s x) = PCTidy \/ rcanc (Rn s x) = true)).

Definition exiting (p : phase) : Prop :=
  (exists w, p = PTidy w) \/ (exists w, p = PShut w) \/ p = PCTidy.

Record Inv6 (c : cfg) (s : state) : Prop := {
  d_idle_cp : forall x, st (Jb s x) = Idle -> cp (Jb s x) = false;
  d_pend : forall p x, exiting (ph (Rn s p)) -> In x (pend (Rn s p)) ->
                       doomed c s x /\ is_done (st (Jb s x)) = false
}.

Lemma Inv6_init c : Inv6 c init.
Proof.
  split.
  - reflexivity.
  - intros p x _ [].
Qed.

Section Step.
  Variables (lvl : nat) (c : cfg) (s s' : state) (e : event).
  Hypothesis W : wf c = true.
  Hypothesis I1 : Inv1 c s.
  Hypothesis I5 : Inv5 c s.
  Hypothesis I6 : Inv6 c s.
  Hypothesis Hs : step lvl c s e = Some s'.

  Lemma idle_cp_step x : st (Jb s' x) = Idle -> cp (Jb s' x) = false.
  Proof.
    intros Hx. pose proof (idle_back lvl c s e s' x W I1 Hs Hx) as Hi.
    destruct (J_effect lvl c s e s' W (i_pend c s I1) Hs x)
      as [H|H1 H2|HS H1 H2 H3 H4 H5|H1 H2 H3 H4 H5 H6 H7|H1 H2 H3 H4 H5 H6|HS H1 H2 H3 H4 H5|HS H1 H2 H3 H4 H5|HS H1 H2 H3 H4 H5 H6|HS H1 H2 H3 H4 H5 H6|HS H1 H2|HS H1 H2 H3];
      try (rewrite Hi in H1; discriminate).
    - rewrite H. apply (d_idle_cp c s I6 x Hi).
    - destruct H2 as (n & Hin & _). exfalso. apply (b_pend_live c s I5 n x Hin). exact Hi.
    - rewrite H2. reflexivity.
    - rewrite H1. reflexivity.
    - destruct H1 as [H1|[H1 _]]; rewrite Hi in H1; discriminate.
  Qed.

  Lemma cancel_j_doomed a : finished (st a) = false -> cp (cancel_j a) = true.
  Proof. unfold cancel_j. intros ->. reflexivity. Qed.

  (* a doomed job that is not done stays doomed and not done *)
  Lemma doomed_step x : x <> 0 -> doomed c s x -> is_done (st (Jb s x)) = false ->
    doomed c s' x /\ is_done (st (Jb s' x)) = false.
  Proof.
    intros Hx0 Hd Hnd.
    destruct (J_effect lvl c s e s' W (i_pend c s I1) Hs x)
      as [H|H1 H2|HS H1 H2 H3 H4 H5|H1 H2 H3 H4 H5 H6 H7|H1 H2 H3 H4 H5 H6|HS H1 H2 H3 H4 H5|HS H1 H2 H3 H4 H5|HS H1 H2 H3 H4 H5 H6|HS H1 H2 H3 H4 H5 H6|HS H1 H2|HS H1 H2 H3].
    - (* same *) rewrite H. split; [|exact Hnd].
      destruct Hd as [Hd|[Hd|[Hd|(Hd1 & Hd2 & Hd3)]]];
        [left; rewrite H; exact Hd|right; left; rewrite H; exact Hd|right; right; left; rewrite H; exact Hd|].
      right. right. right. rewrite H. split; [exact Hd1|]. split; [exact Hd2|].
      destruct (R_effect lvl c s e s' W (i_pend c s I1) Hs x)
        as [Hq _|_ B1 _ _ _ _ _ _ _ _ _ _ _ _|_ A1 A2 A3 Apost A4 A5 A6 [K|(Hph & d & _ & _ & U)] A8].
      + destruct Hq as (Q1 & _ & _ & _ & _ & _ & _ & _ & Q9). rewrite Q1, Q9. exact Hd3.
      + apply rootb_false in Hx0. rewrite Hx0 in B1. rewrite B1 in Hd1. discriminate.
      + destruct K as (_ & _ & _ & _ & _ & _ & K7 & _ & K9 & _ & _).
        destruct Hd3 as [Hd3|Hd3]; [|right; apply K9; exact Hd3].
        destruct (K7 Hd3) as [K|K]; [left; exact K|].
        exfalso. destruct (Apost Hx0) as [(P1 & P2 & _)|(P1 & _)].
        * contradiction.
        * rewrite H, Hd1 in P1. discriminate.
      + destruct U as (_ & Urc & _ & _). destruct Hd3 as [Hd3|Hd3]; [rewrite Hph in Hd3; discriminate|].
        right. rewrite Urc. exact Hd3.
    - (* cancel request *)
      split; [|rewrite H1, cancel_j_st; exact Hnd].
      destruct (finished (st (Jb s x))) eqn:Ef.
      + right. right. left. rewrite H1, cancel_j_st.
        destruct (st (Jb s x)); cbn in *; try discriminate; reflexivity.
      + left. rewrite H1. apply cancel_j_doomed. exact Ef.
    - (* cancellation delivered to a nested run *)
      rewrite H4. cbn [st]. split; [|reflexivity].
      right. right. right. rewrite H4. cbn [st]. auto.
    - exfalso. pose proof (d_idle_cp c s I6 x H1) as Hc.
      destruct Hd as [Hd|[Hd|[Hd|(Hd1 & _)]]]; congruence.
    - exfalso. pose proof (create_begin_idle c s x I1 H3 H4) as Hi.
      pose proof (d_idle_cp c s I6 x Hi) as Hc.
      destruct Hd as [Hd|[Hd|[Hd|(Hd1 & _)]]]; congruence.
    - exfalso. destruct Hd as [Hd|[Hd|[Hd|(Hd1 & _)]]]; congruence.
    - exfalso. destruct Hd as [Hd|[Hd|[Hd|(Hd1 & _)]]]; congruence.
    - exfalso. destruct Hd as [Hd|[Hd|[Hd|(Hd1 & Hd2 & Hd3)]]]; try congruence.
      destruct (H6 Hd2) as [N1 N2]. destruct Hd3; congruence.
    - split; [right; left; exact H4|rewrite H4; reflexivity].
    - unfold doomed. rewrite H2. cbn [st cp]. split; [right; right; left; reflexivity|reflexivity].
    - unfold doomed. rewrite H3. cbn [st cp]. split; [right; right; left; reflexivity|reflexivity].
  Qed.

  Lemma Inv6_step : Inv6 c s'.
  Proof.
    split; [exact idle_cp_step|].
    intros p x Hex Hin.
    assert (Hkeep : exiting (ph (Rn s p)) -> In x (pend (Rn s p)) ->
                    doomed c s' x /\ is_done (st (Jb s' x)) = false).
    { intros He Hi. destruct (d_pend c s I6 p x He Hi) as [D1 D2].
      assert (Hx0 : x <> 0).
      { pose proof (i_pend c s I1 p x Hi) as Hm. apply In_members in Hm. tauto. }
      apply doomed_step; auto. }
    destruct (R_effect lvl c s e s' W (i_pend c s I1) Hs p)
      as [Hq _|_ B1 _ B3 _ _ _ _ _ _ _ _ _ Bov|_ A1 A2 A3 Apost A4 A5 A6 [K|(Hph & d & Hd & Hnd & U)] A8].
    - destruct Hq as (Q1 & Q2 & _). rewrite Q1 in Hex. rewrite Q2 in Hin. auto.
    - exfalso. destruct B3 as [B3|B3]; rewrite B3 in Hex;
        destruct Hex as [[w Hw]|[[w Hw]|Hw]]; discriminate.
    - destruct K as (_ & _ & (f & K3) & K4 & K5 & K6 & K7 & K8 & K9 & K10 & K11).
      assert (Hin0 : In x (pend (Rn s p))).
      { rewrite K3 in Hin. apply filter_In in Hin. tauto. }
      destruct (ph (Rn s p)) as [| |w|w| |] eqn:Eph; try contradiction.
      + (* leaving the main loop by cancellation *)
        assert (Hno : ph (Rn s' p) <> POver).
        { intro E'. rewrite E' in Hex. destruct Hex as [[w Hw]|[[w Hw]|Hw]]; discriminate. }
        destruct (K10 eq_refl Hno x Hin) as [Hf Hc]. split.
        * left. rewrite Hc. apply cancel_j_doomed. exact Hf.
        * rewrite Hc, cancel_j_st. destruct (st (Jb s x)); cbn in *; try discriminate; reflexivity.
      + apply Hkeep; [left; exists w; reflexivity|exact Hin0].
      + apply Hkeep; [right; left; exists w; reflexivity|exact Hin0].
      + apply Hkeep; [right; right; reflexivity|exact Hin0].
    - destruct U as (Us & Urc & Ufl & [(w & Hw & Hp & Hps & Hcz & Hb)|(Hw & _)]).
      + pose proof (Hcz x Hin) as Hc. rewrite Hp in Hin. apply In_diff in Hin. destruct Hin as [Hi1 Hi2].
        assert (Hf : finished (st (Jb s x)) = false).
        { destruct (finished (st (Jb s x))) eqn:Ef; [|reflexivity]. exfalso. apply Hi2.
          apply (seteqb_spec _ _ Hd). apply filter_In. split; [exact Hi1|exact Ef]. }
        split.
        * left. rewrite Hc. apply cancel_j_doomed. exact Hf.
        * rewrite Hc, cancel_j_st. destruct (st (Jb s x)); cbn in *; try discriminate; reflexivity.
      + exfalso. rewrite Hw in Hex. destruct Hex as [[w Hw']|[[w Hw']|Hw']]; discriminate.
  Qed.
End Step.

Record InvC (c : cfg) (s : state) : Prop := {
  ic_1 : Inv1 c s; ic_3 : Inv3 c s; ic_4 : Inv4 c s; ic_5 : Inv5 c s; ic_6 : Inv6 c s
}.

Theorem InvC_reach lvl c h s : wf c = true -> Reach lvl c h s -> InvC c s.
Proof.
  intros W Hr. revert h s Hr. apply reach_ind.
  - split; [apply Inv1_init|apply Inv3_init|apply Inv4_init|apply Inv5_init|apply Inv6_init].
  - intros h s e s' _ [I1 I3 I4 I5 I6] Hs. split.
    + eapply Inv1_step; eauto.
    + eapply Inv3_step; eauto.
    + eapply Inv4_step; eauto.
    + eapply Inv5_step; eauto.
    + eapply Inv6_step; eauto.
Qed.
