(* The scheduling equations with forever jobs ([is_scheduleF], RSchedF.v) have exactly one solution
   on a well-formed tree in which no job requires a forever job ([noreqF], a part of [plainF]); the
   boolean check [is_scheduleFb] is these equations, and the solver [solveF] -- 2 * njobs + 2 rounds
   of the equations from the all-zero tables -- is complete.

   This is the port of RFlatten.v / RSolveH.v (existence, uniqueness, boolean check) and of RSolve.v
   (completeness of the solver) to the F family.  What is new in the dependencies: the end of a
   forever atomic job f ([fa]) depends on S f and on MF of its scheduler, i.e. on the ends of its
   non-forever siblings, whatever their ids; the end of a scheduler n depends on MF n and, through
   [tidy_len], on S f for its forever members f -- never on E f.  And nothing else reads E f, since no
   job requires a forever job.  So everything goes in two stages: first all the S and the E of the
   jobs that are not [fa], along the order [rank] of RFlatten.v as in the H family; then the E of
   the [fa] jobs, each from entries of the first stage.
   No axioms. *)
From AJ Require Import Common.Util Run.RModel Run.RFacts Run.RSchedDef Run.RFlatten Run.RSolve Run.RSolveH
  Run.RSchedF.

(* ------------------------------------------------------------------ forever atomic jobs *)

(* the jobs that can be cut *)
Definition fa (c : cfg) (x : nat) : bool := negb (j_sched (jc c x)) && fvr c x && negb (Nat.eqb x 0).

(* no job requires a forever job *)
Definition noreqF (c : cfg) : Prop := forall x r, x < njobs c -> In r (reqs c x) -> fvr c r = false.

Lemma plainF_noreqF c : plainF c = true -> noreqF c.
Proof. intros P x r Hx Hr. apply (reqs_not_forever c P x r Hx Hr). Qed.

Lemma cut_fa c Sa Ea f : cut c Sa Ea f = fa c f && negb (completes c Sa Ea f).
Proof. reflexivity. Qed.

Lemma cut_nfa c Sa Ea f : fa c f = false -> cut c Sa Ea f = false.
Proof. intros H. rewrite cut_fa, H. reflexivity. Qed.

Lemma nfv_fa c x : fvr c x = false -> fa c x = false.
Proof. intros H. unfold fa. rewrite H, andb_false_r. reflexivity. Qed.

Lemma sched_fa c x : j_sched (jc c x) = true -> fa c x = false.
Proof. intros H. unfold fa. rewrite H. reflexivity. Qed.

Lemma fa_spec c x : fa c x = true -> j_sched (jc c x) = false /\ fvr c x = true /\ x <> 0.
Proof. unfold fa. rewrite !andb_true_iff, !negb_true_iff, Nat.eqb_neq. tauto. Qed.

Lemma fa_root c : fa c 0 = false.
Proof. unfold fa. rewrite Nat.eqb_refl, andb_false_r. reflexivity. Qed.

Lemma parent_lt_njobs c x : wf c = true -> x < njobs c -> parent c x < njobs c.
Proof.
  intros W Hx. destruct (Nat.eq_dec x 0) as [->|Hn].
  - destruct (wf_root c W) as (_ & _ & Hp & _). rewrite Hp. exact Hx.
  - destruct (wf_parent c x W Hx Hn) as [Hp _]. lia.
Qed.

(* ------------------------------------------------------------------ what the equations read *)

Lemma MF_ext c Sa Ea Sb Eb n : Sa n = Sb n ->
  (forall m, In m (members c n) -> fvr c m = false -> Ea m = Eb m) ->
  MF c Sa Ea n = MF c Sb Eb n.
Proof.
  intros Hs He. unfold MF. apply maxl_map_ext; [exact Hs|]. intros m Hm.
  apply In_nfmembers in Hm. destruct Hm as [Hm Hv]. apply He; assumption.
Qed.

Lemma completes_ext c Sa Ea Sb Eb f : Sa f = Sb f ->
  MF c Sa Ea (parent c f) = MF c Sb Eb (parent c f) -> completes c Sa Ea f = completes c Sb Eb f.
Proof. intros Hs Hm. unfold completes. rewrite Hs, Hm. reflexivity. Qed.

Lemma cut_ext c Sa Ea Sb Eb f : Sa f = Sb f ->
  MF c Sa Ea (parent c f) = MF c Sb Eb (parent c f) -> cut c Sa Ea f = cut c Sb Eb f.
Proof. intros Hs Hm. rewrite !cut_fa, (completes_ext c Sa Ea Sb Eb f Hs Hm). reflexivity. Qed.

Lemma tidy_len_ext c Sa Ea Sb Eb n :
  (forall m, In m (members c n) -> cut c Sa Ea m = cut c Sb Eb m) ->
  tidy_len c Sa Ea n = tidy_len c Sb Eb n.
Proof.
  intros H. unfold tidy_len. f_equal. apply map_ext_in. intros m Hm. unfold cdurN.
  rewrite (H m Hm). reflexivity.
Qed.

(* the end of scheduler n reads S n, the S of its members and the E of its non-forever members *)
Lemma sched_end_ext c Sa Ea Sb Eb n : Sa n = Sb n ->
  (forall m, In m (members c n) -> Sa m = Sb m) ->
  (forall m, In m (members c n) -> fvr c m = false -> Ea m = Eb m) ->
  MF c Sa Ea n = MF c Sb Eb n /\ tidy_len c Sa Ea n = tidy_len c Sb Eb n.
Proof.
  intros Hn Hs He. pose proof (MF_ext c Sa Ea Sb Eb n Hn He) as HM. split; [exact HM|].
  apply tidy_len_ext. intros m Hm. apply cut_ext; [apply Hs; exact Hm|].
  apply In_members in Hm. destruct Hm as (_ & Hp & _). rewrite Hp. exact HM.
Qed.

(* ------------------------------------------------------------------ consequences of the equations *)

Section SchedF.
Variables (c : cfg) (Sa Ea : nat -> N).
Hypothesis H : is_scheduleF c Sa Ea.

Lemma schF_0 : Sa 0 = 0%N.
Proof. destruct H as [H0 _]. exact H0. Qed.

Lemma schF_S x : x < njobs c -> x <> 0 -> Sa x = maxl (Sa (parent c x)) (map Ea (reqs c x)).
Proof. intros Hx Hn. destruct H as [_ H']. destruct (H' x Hx) as (A & _ & _). auto. Qed.

Lemma schF_Ea x : x < njobs c -> j_sched (jc c x) = false ->
  Ea x = if cut c Sa Ea x then (MF c Sa Ea (parent c x) + j_cdur (jc c x))%N else (Sa x + durN c x)%N.
Proof. intros Hx Hn. destruct H as [_ H']. destruct (H' x Hx) as (_ & A & _). auto. Qed.

Lemma schF_Es x : x < njobs c -> j_sched (jc c x) = true ->
  Ea x = (MF c Sa Ea x + tidy_len c Sa Ea x + shut_len c x)%N.
Proof. intros Hx Hn. destruct H as [_ H']. destruct (H' x Hx) as (_ & _ & A). auto. Qed.

End SchedF.

(* ------------------------------------------------------------------ uniqueness *)

Section UniqueF.
Variables (c : cfg) (Sa Ea Sb Eb : nat -> N).
Hypothesis W : wf c = true.
Hypothesis NR : noreqF c.
Hypothesis H : is_scheduleF c Sa Ea.
Hypothesis H' : is_scheduleF c Sb Eb.

(* first stage.  Below a job whose scheduler begins at the same instant in both, all the S and the
   E of the jobs that cannot be cut agree *)
Lemma uniqueF_below fuel : forall r, r <> 0 -> r < njobs c -> rank c r <= fuel ->
  Sa (parent c r) = Sb (parent c r) -> Sa r = Sb r /\ (fa c r = false -> Ea r = Eb r).
Proof.
  induction fuel as [|f IH]; intros r Hn Hr Hk HP.
  { pose proof (rank_pos c r Hr). lia. }
  assert (HS : Sa r = Sb r).
  { rewrite (schF_S c Sa Ea H r Hr Hn), (schF_S c Sb Eb H' r Hr Hn).
    apply maxl_map_ext; [exact HP|]. intros r' Hq.
    destruct (req_facts c r r' W Hr Hq) as (_ & Hr' & H0 & Hp & _).
    pose proof (rank_req c r r' W Hr Hn Hq) as Hrk.
    destruct (IH r' H0 Hr') as [_ He]; [lia|rewrite Hp; exact HP|].
    apply He. apply nfv_fa. apply (NR r r' Hr Hq). }
  split; [exact HS|]. intros Hfa. destruct (j_sched (jc c r)) eqn:Hs.
  - rewrite (schF_Es c Sa Ea H r Hr Hs), (schF_Es c Sb Eb H' r Hr Hs).
    assert (Hmem : forall m, In m (members c r) -> Sa m = Sb m /\ (fa c m = false -> Ea m = Eb m)).
    { intros m Hm. pose proof (rank_member c r m W Hr Hm) as Hrk.
      apply In_members in Hm. destruct Hm as (Hm' & Hp & H0).
      apply (IH m H0 Hm'); [lia|rewrite Hp; exact HS]. }
    destruct (sched_end_ext c Sa Ea Sb Eb r HS) as [A B].
    + intros m Hm. apply (Hmem m Hm).
    + intros m Hm Hv. apply (Hmem m Hm). apply nfv_fa. exact Hv.
    + rewrite A, B. reflexivity.
  - rewrite (schF_Ea c Sa Ea H r Hr Hs), (schF_Ea c Sb Eb H' r Hr Hs).
    rewrite !(cut_nfa c _ _ r Hfa), HS. reflexivity.
Qed.

Lemma uniqueF_stage1 : forall x, x < njobs c -> Sa x = Sb x /\ (fa c x = false -> Ea x = Eb x).
Proof.
  intros x. induction x as [x IH] using lt_wf_ind. intros Hx.
  destruct (Nat.eq_dec x 0) as [->|Hn].
  - assert (HS : Sa 0 = Sb 0).
    { rewrite (schF_0 c Sa Ea H), (schF_0 c Sb Eb H'). reflexivity. }
    split; [exact HS|]. intros _. destruct (wf_root c W) as (_ & _ & _ & Hs).
    rewrite (schF_Es c Sa Ea H 0 Hx Hs), (schF_Es c Sb Eb H' 0 Hx Hs).
    assert (Hmem : forall m, In m (members c 0) -> Sa m = Sb m /\ (fa c m = false -> Ea m = Eb m)).
    { intros m Hm. apply In_members in Hm. destruct Hm as (Hm & Hp & H0).
      apply (uniqueF_below (njobs c) m H0 Hm (rank_le c m)). rewrite Hp. exact HS. }
    destruct (sched_end_ext c Sa Ea Sb Eb 0 HS) as [A B].
    + intros m Hm. apply (Hmem m Hm).
    + intros m Hm Hv. apply (Hmem m Hm). apply nfv_fa. exact Hv.
    + rewrite A, B. reflexivity.
  - destruct (wf_parent c x W Hx Hn) as [Hp _].
    apply (uniqueF_below (njobs c) x Hn Hx (rank_le c x)). apply IH; lia.
Qed.

Lemma uniqueF_MF n : n < njobs c -> MF c Sa Ea n = MF c Sb Eb n.
Proof.
  intros Hn. apply MF_ext; [apply (uniqueF_stage1 n Hn)|]. intros m Hm Hv.
  apply In_members in Hm. destruct Hm as (Hm & _ & _).
  apply (uniqueF_stage1 m Hm). apply nfv_fa. exact Hv.
Qed.

(* second stage *)
Lemma uniqueF_all : forall x, x < njobs c -> Sa x = Sb x /\ Ea x = Eb x.
Proof.
  intros x Hx. destruct (uniqueF_stage1 x Hx) as [HS HE]. split; [exact HS|].
  destruct (fa c x) eqn:Hfa; [|apply HE; reflexivity].
  destruct (fa_spec c x Hfa) as (Hs & _ & _).
  pose proof (uniqueF_MF (parent c x) (parent_lt_njobs c x W Hx)) as HM.
  rewrite (schF_Ea c Sa Ea H x Hx Hs), (schF_Ea c Sb Eb H' x Hx Hs).
  rewrite (cut_ext c Sa Ea Sb Eb x HS HM), HM, HS. reflexivity.
Qed.

End UniqueF.

Theorem scheduleF_unique_noreq c S E S' E' : wf c = true -> noreqF c ->
  is_scheduleF c S E -> is_scheduleF c S' E' ->
  forall x, x < njobs c -> S x = S' x /\ E x = E' x.
Proof. intros W NR H H'. apply uniqueF_all; assumption. Qed.

Theorem scheduleF_unique c S E S' E' : wf c = true -> plainF c = true ->
  is_scheduleF c S E -> is_scheduleF c S' E' ->
  forall x, x < njobs c -> S x = S' x /\ E x = E' x.
Proof. intros W P. apply scheduleF_unique_noreq; [exact W|apply plainF_noreqF; exact P]. Qed.

(* ------------------------------------------------------------------ the executable check *)

Theorem is_scheduleFb_iff c lS lE : is_scheduleFb c lS lE = true <-> is_scheduleF c (tab lS) (tab lE).
Proof.
  split; [apply is_scheduleFb_sound|].
  intros [H0 Hall]. unfold is_scheduleFb. cbn zeta. rewrite andb_true_iff, N.eqb_eq, forallb_forall.
  split; [exact H0|]. intros x Hx. apply In_all_ids in Hx. destruct (Hall x Hx) as (A & B & C).
  apply andb_true_iff. split.
  - destruct (Nat.eqb_spec x 0) as [|Hn]; [reflexivity|]. simpl. apply N.eqb_eq. auto.
  - destruct (j_sched (jc c x)); apply N.eqb_eq; auto.
Qed.

(* ------------------------------------------------------------------ existence, first stage *)

(* the first stage as a system of its own: the equations of F, except that the end of every atomic
   job is S + dur (what this gives for a forever atomic job is read by no equation) *)
Definition stage1 (c : cfg) (Sa E1 : nat -> N) : Prop :=
  Sa 0 = 0%N /\
  forall x, x < njobs c ->
    (x <> 0 -> Sa x = maxl (Sa (parent c x)) (map E1 (reqs c x))) /\
    (j_sched (jc c x) = false -> E1 x = (Sa x + durN c x)%N) /\
    (j_sched (jc c x) = true -> E1 x = (MF c Sa E1 x + tidy_len c Sa E1 x + shut_len c x)%N).

Local Open Scope N_scope.

(* [completes] and [cdurN] from the start of the job and the end of the main loop of its scheduler *)
Definition complb (c : cfg) (sm M : N) (m : nat) : bool :=
  match j_dur (jc c m) with Some d => N.ltb (sm + d) M | None => false end.
Definition cdurb (c : cfg) (sm M : N) (m : nat) : N :=
  if fa c m && negb (complb c sm M m) then j_cdur (jc c m) else 0.

Lemma cdurN_cdurb c Sa Ea m : cdurN c Sa Ea m = cdurb c (Sa m) (MF c Sa Ea (parent c m)) m.
Proof. reflexivity. Qed.

(* the end instant of r when its scheduler begins at sp: its requirements first, then its members
   (the forever ones only start), then the tidy phase and the shutdown phase *)
Fixpoint endfF (fuel : nat) (c : cfg) (sp : N) (r : nat) : N :=
  match fuel with
  | O => 0
  | S f => let s := maxl sp (map (endfF f c sp) (reqs c r)) in
           if j_sched (jc c r)
           then let M := maxl s (map (endfF f c s) (nfmembers c r)) in
                M + maxl 0 (map (fun m => cdurb c (maxl s (map (endfF f c s) (reqs c m))) M m) (members c r))
                + shut_len c r
           else s + durN c r
  end.
Definition startfF (fuel : nat) (c : cfg) (sp : N) (r : nat) : N :=
  maxl sp (map (endfF fuel c sp) (reqs c r)).

(* the three parts of the end of a scheduler that begins at s *)
Definition mainfF (f : nat) (c : cfg) (s : N) (r : nat) : N := maxl s (map (endfF f c s) (nfmembers c r)).
Definition tidyfF (f : nat) (c : cfg) (s : N) (r : nat) : N :=
  maxl 0 (map (fun m => cdurb c (startfF f c s m) (mainfF f c s r) m) (members c r)).

Lemma endfF_S f c sp r :
  endfF (S f) c sp r =
  if j_sched (jc c r)
  then mainfF f c (startfF f c sp r) r + tidyfF f c (startfF f c sp r) r + shut_len c r
  else startfF f c sp r + durN c r.
Proof. reflexivity. Qed.

Fixpoint SdownF (fuel : nat) (c : cfg) (x : nat) : N :=
  match fuel with
  | O => 0
  | S f => if Nat.eqb x 0 then 0 else startfF (njobs c) c (SdownF f c (parent c x)) x
  end.
Definition SfinF (c : cfg) (x : nat) : N := SdownF (S x) c x.
Definition E1fin (c : cfg) (x : nat) : N := endfF (S (njobs c)) c (SfinF c (parent c x)) x.

Lemma endfF_stable c : wf c = true -> forall f1 f2 r sp, r <> 0%nat -> (r < njobs c)%nat ->
  (rank c r <= f1)%nat -> (rank c r <= f2)%nat -> endfF f1 c sp r = endfF f2 c sp r.
Proof.
  intros W. induction f1 as [|f1 IH]; intros f2 r sp Hn Hr H1 H2.
  { pose proof (rank_pos c r Hr). lia. }
  destruct f2 as [|f2]; [pose proof (rank_pos c r Hr); lia|]. rewrite !endfF_S.
  assert (Hst : forall s y, y <> 0%nat -> (y < njobs c)%nat -> (rank c y <= S f1)%nat -> (rank c y <= S f2)%nat ->
                startfF f1 c s y = startfF f2 c s y).
  { intros s y Hyn Hy Hy1 Hy2. unfold startfF. apply maxl_map_ext; [reflexivity|]. intros r' Hq.
    destruct (req_facts c y r' W Hy Hq) as (_ & Hr' & H0 & _).
    pose proof (rank_req c y r' W Hy Hyn Hq). apply IH; auto; lia. }
  rewrite (Hst sp r Hn Hr H1 H2). destruct (j_sched (jc c r)); [|reflexivity].
  set (s := startfF f2 c sp r).
  assert (Hmn : mainfF f1 c s r = mainfF f2 c s r).
  { unfold mainfF. apply maxl_map_ext; [reflexivity|]. intros m Hm.
    apply In_nfmembers in Hm. destruct Hm as [Hm _].
    pose proof (rank_member c r m W Hr Hm). apply In_members in Hm. destruct Hm as (Hm & _ & H0).
    apply IH; auto; lia. }
  rewrite Hmn. f_equal. f_equal. unfold tidyfF. rewrite Hmn. f_equal. apply map_ext_in. intros m Hm.
  pose proof (rank_member c r m W Hr Hm). apply In_members in Hm. destruct Hm as (Hm & _ & H0).
  rewrite (Hst s m H0 Hm) by lia. reflexivity.
Qed.

Lemma startfF_stable c : wf c = true -> forall f1 f2 r sp, r <> 0%nat -> (r < njobs c)%nat ->
  (rank c r <= S f1)%nat -> (rank c r <= S f2)%nat -> startfF f1 c sp r = startfF f2 c sp r.
Proof.
  intros W f1 f2 r sp Hn Hr H1 H2. unfold startfF. apply maxl_map_ext; [reflexivity|]. intros r' Hq.
  destruct (req_facts c r r' W Hr Hq) as (_ & Hr' & H0 & _).
  pose proof (rank_req c r r' W Hr Hn Hq). apply endfF_stable; auto; lia.
Qed.

Lemma SdownF_stable c : wf c = true -> forall f1 f2 x,
  (x < njobs c -> x < f1 -> x < f2 -> SdownF f1 c x = SdownF f2 c x)%nat.
Proof.
  intros W. induction f1 as [|f1 IH]; intros f2 x Hx H1 H2; [lia|].
  destruct f2 as [|f2]; [lia|]. simpl. destruct (Nat.eqb_spec x 0) as [|Hn]; [reflexivity|].
  destruct (wf_parent c x W Hx Hn) as [Hp _]. rewrite (IH f2 (parent c x)) by lia. reflexivity.
Qed.

Lemma SfinF_root c : SfinF c 0 = 0.
Proof. reflexivity. Qed.

Lemma SfinF_step c x : wf c = true -> (x < njobs c)%nat -> x <> 0%nat ->
  SfinF c x = startfF (njobs c) c (SfinF c (parent c x)) x.
Proof.
  intros W Hx Hn. unfold SfinF at 1. simpl. apply Nat.eqb_neq in Hn. rewrite Hn. apply Nat.eqb_neq in Hn.
  destruct (wf_parent c x W Hx Hn) as [Hp _]. unfold SfinF.
  rewrite (SdownF_stable c W x (S (parent c x)) (parent c x)) by lia. reflexivity.
Qed.

(* also at the root, which has no requirements and is its own parent *)
Lemma SfinF_start c x : wf c = true -> (x < njobs c)%nat ->
  SfinF c x = startfF (njobs c) c (SfinF c (parent c x)) x.
Proof.
  intros W Hx. destruct (Nat.eq_dec x 0) as [->|Hn]; [|apply SfinF_step; assumption].
  destruct (wf_root c W) as (_ & Hq & Hp & _). unfold startfF. rewrite Hq, Hp. reflexivity.
Qed.

Lemma E1fin_unfold c x : wf c = true -> (x < njobs c)%nat ->
  E1fin c x =
  if j_sched (jc c x)
  then mainfF (njobs c) c (SfinF c x) x + tidyfF (njobs c) c (SfinF c x) x + shut_len c x
  else SfinF c x + durN c x.
Proof.
  intros W Hx. unfold E1fin. rewrite endfF_S, <- (SfinF_start c x W Hx). reflexivity.
Qed.

(* the end of a job other than the root, seen from its scheduler *)
Lemma E1fin_member c n m : wf c = true -> (m < njobs c)%nat -> parent c m = n -> m <> 0%nat ->
  E1fin c m = endfF (njobs c) c (SfinF c n) m.
Proof.
  intros W Hm Hp H0. unfold E1fin. rewrite Hp. pose proof (rank_le c m).
  apply endfF_stable; auto; lia.
Qed.

Lemma MF_fin c x : wf c = true -> MF c (SfinF c) (E1fin c) x = mainfF (njobs c) c (SfinF c x) x.
Proof.
  intros W. unfold MF, mainfF. apply maxl_map_ext; [reflexivity|]. intros m Hm.
  apply In_nfmembers in Hm. destruct Hm as [Hm _]. apply In_members in Hm. destruct Hm as (Hm & Hp & H0).
  apply E1fin_member; assumption.
Qed.

Lemma tidy_fin c x : wf c = true -> tidy_len c (SfinF c) (E1fin c) x = tidyfF (njobs c) c (SfinF c x) x.
Proof.
  intros W. unfold tidy_len, tidyfF. f_equal. apply map_ext_in. intros m Hm.
  apply In_members in Hm. destruct Hm as (Hm & Hp & H0).
  rewrite cdurN_cdurb, Hp, (MF_fin c x W), (SfinF_step c m W Hm H0), Hp. reflexivity.
Qed.

Lemma stage1_exists c : wf c = true -> stage1 c (SfinF c) (E1fin c).
Proof.
  intros W. split; [reflexivity|]. intros x Hx. split; [|split].
  - intros Hn. rewrite (SfinF_step c x W Hx Hn). unfold startfF.
    apply maxl_map_ext; [reflexivity|]. intros r Hq.
    destruct (req_facts c x r W Hx Hq) as (_ & Hr & H0 & Hp & _).
    symmetry. apply E1fin_member; assumption.
  - intros Hs. rewrite (E1fin_unfold c x W Hx), Hs. reflexivity.
  - intros Hs. rewrite (E1fin_unfold c x W Hx), Hs, (MF_fin c x W), (tidy_fin c x W). reflexivity.
Qed.

Local Close Scope N_scope.

(* ------------------------------------------------------------------ existence, second stage *)

Definition fillF (c : cfg) (Sa E1 : nat -> N) (x : nat) : N :=
  if fa c x
  then if cut c Sa E1 x then (MF c Sa E1 (parent c x) + j_cdur (jc c x))%N else (Sa x + durN c x)%N
  else E1 x.

Section Fill.
Variables (c : cfg) (Sa E1 : nat -> N).

Lemma fillF_nfa x : fa c x = false -> fillF c Sa E1 x = E1 x.
Proof. intros Hf. unfold fillF. rewrite Hf. reflexivity. Qed.

Lemma fillF_MF n : MF c Sa (fillF c Sa E1) n = MF c Sa E1 n.
Proof. apply MF_ext; [reflexivity|]. intros m _ Hv. apply fillF_nfa. apply nfv_fa. exact Hv. Qed.

Lemma fillF_cut f : cut c Sa (fillF c Sa E1) f = cut c Sa E1 f.
Proof. apply cut_ext; [reflexivity|apply fillF_MF]. Qed.

Lemma fillF_tidy n : tidy_len c Sa (fillF c Sa E1) n = tidy_len c Sa E1 n.
Proof. apply tidy_len_ext. intros m _. apply fillF_cut. Qed.

Lemma stage2 : noreqF c -> stage1 c Sa E1 -> is_scheduleF c Sa (fillF c Sa E1).
Proof.
  intros NR [H0 H1]. split; [exact H0|]. intros x Hx. destruct (H1 x Hx) as (A & B & C). split; [|split].
  - intros Hn. rewrite (A Hn). apply maxl_map_ext; [reflexivity|]. intros r Hr.
    symmetry. apply fillF_nfa. apply nfv_fa. apply (NR x r Hx Hr).
  - intros Hs. rewrite fillF_cut, fillF_MF. unfold fillF. destruct (fa c x) eqn:Hf; [reflexivity|].
    rewrite (cut_nfa c Sa E1 x Hf). apply (B Hs).
  - intros Hs. rewrite (fillF_nfa x (sched_fa c x Hs)), fillF_MF, fillF_tidy. apply (C Hs).
Qed.

End Fill.

Theorem scheduleF_exists_noreq c : wf c = true -> noreqF c -> exists S E, is_scheduleF c S E.
Proof.
  intros W NR. exists (SfinF c), (fillF c (SfinF c) (E1fin c)).
  apply stage2; [exact NR|apply stage1_exists; exact W].
Qed.

Theorem scheduleF_exists c : wf c = true -> plainF c = true -> exists S E, is_scheduleF c S E.
Proof. intros W P. apply scheduleF_exists_noreq; [exact W|apply plainF_noreqF; exact P]. Qed.

(* ------------------------------------------------------------------ the solver *)

(* one round of the equations of F.  As in [round], the new E are computed from the new S *)
Definition roundF (c : cfg) (SE : list N * list N) : list N * list N :=
  let '(lS, lE) := SE in
  let lS' := map (fun x => if Nat.eqb x 0 then 0%N
                           else maxl (tab lS (parent c x)) (map (tab lE) (reqs c x))) (all_ids c) in
  let lE' := map (fun x => if j_sched (jc c x)
                           then (MF c (tab lS') (tab lE) x + tidy_len c (tab lS') (tab lE) x + shut_len c x)%N
                           else if cut c (tab lS') (tab lE) x
                                then (MF c (tab lS') (tab lE) (parent c x) + j_cdur (jc c x))%N
                                else (tab lS' x + durN c x)%N) (all_ids c) in
  (lS', lE').
Fixpoint iter_roundF (k : nat) (c : cfg) (SE : list N * list N) : list N * list N :=
  match k with 0 => SE | S k' => iter_roundF k' c (roundF c SE) end.
Definition solveF (c : cfg) : list N * list N :=
  iter_roundF (2 * njobs c + 2) c (map (fun _ => 0%N) (all_ids c), map (fun _ => 0%N) (all_ids c)).

Lemma roundF_S c SE x : x < njobs c ->
  tab (fst (roundF c SE)) x =
  if Nat.eqb x 0 then 0%N else maxl (tab (fst SE) (parent c x)) (map (tab (snd SE)) (reqs c x)).
Proof.
  intros Hx. destruct SE as [lS lE]. unfold roundF, all_ids. cbn [fst snd]. unfold tab at 1.
  rewrite nth_map_seqn by exact Hx. reflexivity.
Qed.

Lemma roundF_E c SE x : x < njobs c ->
  tab (snd (roundF c SE)) x =
  if j_sched (jc c x)
  then (MF c (tab (fst (roundF c SE))) (tab (snd SE)) x
        + tidy_len c (tab (fst (roundF c SE))) (tab (snd SE)) x + shut_len c x)%N
  else if cut c (tab (fst (roundF c SE))) (tab (snd SE)) x
       then (MF c (tab (fst (roundF c SE))) (tab (snd SE)) (parent c x) + j_cdur (jc c x))%N
       else (tab (fst (roundF c SE)) x + durN c x)%N.
Proof.
  intros Hx. destruct SE as [lS lE]. unfold roundF, all_ids. cbn [fst snd]. unfold tab at 1.
  rewrite (nth_map_seqn _ (njobs c) x) by exact Hx. reflexivity.
Qed.

Lemma iter_roundF_S k c : forall SE, iter_roundF (S k) c SE = roundF c (iter_roundF k c SE).
Proof.
  induction k as [|k IH]; intros SE; [reflexivity|].
  change (iter_roundF (S (S k)) c SE) with (iter_roundF (S k) c (roundF c SE)).
  rewrite IH. reflexivity.
Qed.

Definition iterF (c : cfg) (k : nat) : list N * list N := iter_roundF k c (zeros c).

Lemma iterF_S c k : iterF c (S k) = roundF c (iterF c k).
Proof. unfold iterF. apply iter_roundF_S. Qed.

Lemma solveF_iter c : solveF c = iterF c (2 * njobs c + 2).
Proof. reflexivity. Qed.

(* ------------------------------------------------------------------ settled entries *)

(* S x is settled as in RSolve.v.  E x is settled in the round that settles S x when, for a
   scheduler, the E of its non-forever members were settled and the S of all its members are; for a
   forever atomic job, when the S of its scheduler is settled and the E of its non-forever siblings
   were *)
Definition nextEF (c : cfg) (ds' de : nat -> bool) (x : nat) : bool :=
  ds' x && (if j_sched (jc c x) then forallb de (nfmembers c x) && forallb ds' (members c x)
            else if fa c x then ds' (parent c x) && forallb de (nfmembers c (parent c x))
            else true).

Fixpoint ddF (c : cfg) (k : nat) : (nat -> bool) * (nat -> bool) :=
  match k with
  | O => (fun _ => false, fun _ => false)
  | S k' => let ds' := nextS c (fst (ddF c k')) (snd (ddF c k')) in
            (ds', nextEF c ds' (snd (ddF c k')))
  end.
Definition dSF (c : cfg) (k : nat) : nat -> bool := fst (ddF c k).
Definition dEF (c : cfg) (k : nat) : nat -> bool := snd (ddF c k).

Lemma dSF_0 c x : dSF c 0 x = false.
Proof. reflexivity. Qed.
Lemma dEF_0 c x : dEF c 0 x = false.
Proof. reflexivity. Qed.
Lemma dSF_S c k x : dSF c (S k) x = nextS c (dSF c k) (dEF c k) x.
Proof. reflexivity. Qed.
Lemma dEF_S c k x : dEF c (S k) x = nextEF c (dSF c (S k)) (dEF c k) x.
Proof. reflexivity. Qed.

Lemma nextEF_mono c (ds de ds' de' : nat -> bool) x :
  (forall y, ds y = true -> ds' y = true) -> (forall y, de y = true -> de' y = true) ->
  nextEF c ds de x = true -> nextEF c ds' de' x = true.
Proof.
  intros Hs He. unfold nextEF. rewrite !andb_true_iff. intros [H1 H2]. split; [apply Hs; exact H1|].
  destruct (j_sched (jc c x)).
  - apply andb_true_iff in H2. destruct H2 as [A B]. apply andb_true_iff. split.
    + apply (forallb_mono de de' _ He A).
    + apply (forallb_mono ds ds' _ Hs B).
  - destruct (fa c x); [|reflexivity].
    apply andb_true_iff in H2. destruct H2 as [A B]. apply andb_true_iff. split.
    + apply Hs. exact A.
    + apply (forallb_mono de de' _ He B).
Qed.

Lemma ddF_mono c k :
  (forall x, dSF c k x = true -> dSF c (S k) x = true) /\
  (forall x, dEF c k x = true -> dEF c (S k) x = true).
Proof.
  induction k as [|k [IHs IHe]].
  - split; intros x Hx; [rewrite dSF_0 in Hx|rewrite dEF_0 in Hx]; discriminate.
  - assert (Hs : forall x, dSF c (S k) x = true -> dSF c (S (S k)) x = true).
    { intros x Hx. rewrite dSF_S in Hx. rewrite dSF_S. apply (nextS_mono c _ _ _ _ x IHs IHe Hx). }
    split; [exact Hs|]. intros x Hx. rewrite dEF_S in Hx. rewrite dEF_S.
    apply (nextEF_mono c _ _ _ _ x Hs IHe Hx).
Qed.

Lemma dSF_mono c k x : dSF c k x = true -> dSF c (S k) x = true.
Proof. apply (ddF_mono c k). Qed.
Lemma dEF_mono c k x : dEF c k x = true -> dEF c (S k) x = true.
Proof. apply (ddF_mono c k). Qed.

(* ------------------------------------------------------------------ soundness *)

Section SoundF.
Variables (c : cfg) (Ss Es : nat -> N).
Hypothesis W : wf c = true.
Hypothesis H : is_scheduleF c Ss Es.

Definition okSF (k x : nat) : Prop := forall k', k <= k' -> tab (fst (iterF c k')) x = Ss x.
Definition okEF (k x : nat) : Prop := forall k', k <= k' -> tab (snd (iterF c k')) x = Es x.

Lemma soundF_S_step k :
  (forall x, x < njobs c -> dSF c k x = true -> okSF k x) ->
  (forall x, x < njobs c -> dEF c k x = true -> okEF k x) ->
  forall x, x < njobs c -> dSF c (S k) x = true -> okSF (S k) x.
Proof.
  intros IHs IHe x Hx Hd k' Hk. destruct k' as [|k']; [lia|]. assert (Hk' : k <= k') by lia.
  rewrite iterF_S, roundF_S by exact Hx. rewrite dSF_S in Hd. unfold nextS in Hd.
  destruct (Nat.eqb_spec x 0) as [->|Hn].
  - rewrite (schF_0 c Ss Es H). reflexivity.
  - simpl in Hd. apply andb_true_iff in Hd. destruct Hd as [Hp Hq]. rewrite forallb_forall in Hq.
    destruct (wf_parent c x W Hx Hn) as [Hlt _].
    rewrite (schF_S c Ss Es H x Hx Hn). apply maxl_map_ext.
    + apply (IHs (parent c x)); [lia|exact Hp|exact Hk'].
    + intros r Hr. destruct (req_facts c x r W Hx Hr) as (_ & Hr' & _).
      apply (IHe r Hr' (Hq r Hr) k' Hk').
Qed.

Lemma soundF_E_step k :
  (forall x, x < njobs c -> dSF c (S k) x = true -> okSF (S k) x) ->
  (forall x, x < njobs c -> dEF c k x = true -> okEF k x) ->
  forall x, x < njobs c -> dEF c (S k) x = true -> okEF (S k) x.
Proof.
  intros IHs IHe x Hx Hd k' Hk. pose proof Hk as Hk0. destruct k' as [|k']; [lia|].
  assert (Hk' : k <= k') by lia.
  rewrite dEF_S in Hd. unfold nextEF in Hd. apply andb_true_iff in Hd. destruct Hd as [Hs Hm].
  assert (HS : forall y, y < njobs c -> dSF c (S k) y = true -> tab (fst (roundF c (iterF c k'))) y = Ss y).
  { intros y Hy Hdy. rewrite <- iterF_S. apply (IHs y Hy Hdy (S k') Hk0). }
  rewrite iterF_S, roundF_E by exact Hx.
  destruct (j_sched (jc c x)) eqn:Hsch.
  - apply andb_true_iff in Hm. destruct Hm as [Hm1 Hm2]. rewrite forallb_forall in Hm1, Hm2.
    rewrite (schF_Es c Ss Es H x Hx Hsch).
    destruct (sched_end_ext c (tab (fst (roundF c (iterF c k')))) (tab (snd (iterF c k'))) Ss Es x) as [A B].
    + apply (HS x Hx Hs).
    + intros m Hin. pose proof Hin as Hin'. apply In_members in Hin'. destruct Hin' as (Hm' & _ & _).
      apply (HS m Hm' (Hm2 m Hin)).
    + intros m Hin Hv. pose proof Hin as Hin'. apply In_members in Hin'. destruct Hin' as (Hm' & _ & _).
      apply (IHe m Hm'); [|exact Hk']. apply Hm1. apply In_nfmembers. auto.
    + rewrite A, B. reflexivity.
  - rewrite (schF_Ea c Ss Es H x Hx Hsch). destruct (fa c x) eqn:Hfa.
    + apply andb_true_iff in Hm. destruct Hm as [Hm1 Hm2]. rewrite forallb_forall in Hm2.
      pose proof (parent_lt_njobs c x W Hx) as Hp.
      assert (HM : MF c (tab (fst (roundF c (iterF c k')))) (tab (snd (iterF c k'))) (parent c x)
                   = MF c Ss Es (parent c x)).
      { apply MF_ext; [apply (HS _ Hp Hm1)|]. intros m Hin Hv.
        pose proof Hin as Hin'. apply In_members in Hin'. destruct Hin' as (Hm' & _ & _).
        apply (IHe m Hm'); [|exact Hk']. apply Hm2. apply In_nfmembers. auto. }
      rewrite (cut_ext c _ _ Ss Es x (HS x Hx Hs) HM), HM, (HS x Hx Hs). reflexivity.
    + rewrite !(cut_nfa c _ _ x Hfa), (HS x Hx Hs). reflexivity.
Qed.

Lemma soundF k :
  (forall x, x < njobs c -> dSF c k x = true -> okSF k x) /\
  (forall x, x < njobs c -> dEF c k x = true -> okEF k x).
Proof.
  induction k as [|k [IHs IHe]].
  - split; intros x _ Hd; [rewrite dSF_0 in Hd|rewrite dEF_0 in Hd]; discriminate.
  - assert (Hs : forall x, x < njobs c -> dSF c (S k) x = true -> okSF (S k) x)
      by (apply soundF_S_step; assumption).
    split; [exact Hs|]. apply soundF_E_step; assumption.
Qed.

End SoundF.

(* ------------------------------------------------------------------ progress *)

Section ProgressF.
Variable c : cfg.
Hypothesis W : wf c = true.
Hypothesis NR : noreqF c.

(* the next round settles one more entry *)
Definition gainF (k : nat) : Prop :=
  exists x, x < njobs c /\
    ((dSF c k x = false /\ dSF c (S k) x = true) \/ (dEF c k x = false /\ dEF c (S k) x = true)).

(* an entry of the first stage that is not settled *)
Definition open1 (k x : nat) : Prop := dSF c k x = false \/ (fa c x = false /\ dEF c k x = false).

(* a scheduler whose S is settled and whose E is not: its E is settled by the next round, or an
   entry of the first stage is open at one of its members *)
Lemma gainF_sched k r : r < njobs c -> j_sched (jc c r) = true ->
  dSF c k r = true -> dEF c k r = false ->
  (forall m, In m (members c r) -> open1 k m -> gainF k) -> gainF k.
Proof.
  intros Hr Hsch Hs Hf Hrec. pose proof (dSF_mono c k r Hs) as Hs'.
  destruct (forallb (dEF c k) (nfmembers c r)) eqn:Hm.
  - destruct (forallb (dSF c k) (members c r)) eqn:Hm2.
    + exists r. split; [exact Hr|]. right. split; [exact Hf|].
      rewrite dEF_S. unfold nextEF. rewrite Hs', Hsch, Hm.
      rewrite (forallb_mono (dSF c k) (dSF c (S k)) _ (dSF_mono c k) Hm2). reflexivity.
    + apply forallb_false in Hm2. destruct Hm2 as (m & Hin & Hfm).
      apply (Hrec m Hin). left. exact Hfm.
  - apply forallb_false in Hm. destruct Hm as (m & Hin & Hfm).
    apply In_nfmembers in Hin. destruct Hin as [Hin Hv].
    apply (Hrec m Hin). right. split; [apply nfv_fa; exact Hv|exact Hfm].
Qed.

Lemma gainF_below k fuel : forall r, r <> 0 -> r < njobs c -> rank c r <= fuel ->
  dSF c k (parent c r) = true -> open1 k r -> gainF k.
Proof.
  induction fuel as [|f IH]; intros r Hn Hr Hk Hp Hf.
  { pose proof (rank_pos c r Hr). lia. }
  destruct (dSF c k r) eqn:Hs.
  - destruct Hf as [Hf|[Hfa Hf]]; [congruence|].
    pose proof (dSF_mono c k r Hs) as Hs'.
    destruct (j_sched (jc c r)) eqn:Hsch.
    + apply (gainF_sched k r Hr Hsch Hs Hf). intros m Hin Hop.
      pose proof (rank_member c r m W Hr Hin) as Hrk.
      apply In_members in Hin. destruct Hin as (Hm' & Hpm & H0).
      apply (IH m H0 Hm'); [lia|rewrite Hpm; exact Hs|exact Hop].
    + exists r. split; [exact Hr|]. right. split; [exact Hf|].
      rewrite dEF_S. unfold nextEF. rewrite Hs', Hsch, Hfa. reflexivity.
  - destruct (forallb (dEF c k) (reqs c r)) eqn:Hq.
    + exists r. split; [exact Hr|]. left. split; [exact Hs|].
      rewrite dSF_S. unfold nextS. rewrite Hp, Hq. apply orb_true_r.
    + apply forallb_false in Hq. destruct Hq as (r' & Hin & Hfr).
      pose proof (rank_req c r r' W Hr Hn Hin) as Hrk.
      destruct (req_facts c r r' W Hr Hin) as (_ & Hr' & H0 & Hpr & _).
      apply (IH r' H0 Hr'); [lia|rewrite Hpr; exact Hp|].
      right. split; [apply nfv_fa; apply (NR r r' Hr Hin)|exact Hfr].
Qed.

Lemma gainF_any k : forall x, x < njobs c -> open1 k x -> gainF k.
Proof.
  intros x. induction x as [x IH] using lt_wf_ind. intros Hx Hf.
  destruct (Nat.eq_dec x 0) as [->|Hn].
  - destruct (dSF c k 0) eqn:Hs.
    + destruct Hf as [Hf|[_ Hf]]; [congruence|].
      destruct (wf_root c W) as (_ & _ & _ & Hsch).
      apply (gainF_sched k 0 Hx Hsch Hs Hf). intros m Hin Hop.
      apply In_members in Hin. destruct Hin as (Hm' & Hpm & H0).
      apply (gainF_below k (njobs c) m H0 Hm' (rank_le c m)); [rewrite Hpm; exact Hs|exact Hop].
    + exists 0. split; [exact Hx|]. left. split; [exact Hs|]. rewrite dSF_S. reflexivity.
  - destruct (wf_parent c x W Hx Hn) as [Hlt _].
    destruct (dSF c k (parent c x)) eqn:Hp.
    + apply (gainF_below k (njobs c) x Hn Hx (rank_le c x) Hp Hf).
    + apply (IH (parent c x) Hlt); [lia|left; exact Hp].
Qed.

(* second stage: once the first stage is settled, the next round settles the forever atomic jobs *)
Lemma gainF_total k : forall x, x < njobs c -> dSF c k x = false \/ dEF c k x = false -> gainF k.
Proof.
  intros x Hx Hf.
  destruct (forallb (fun y => dSF c k y && (fa c y || dEF c k y)) (all_ids c)) eqn:Hall.
  - rewrite forallb_forall in Hall.
    assert (Hst : forall y, y < njobs c -> dSF c k y = true /\ (fa c y = false -> dEF c k y = true)).
    { intros y Hy. specialize (Hall y (proj2 (In_all_ids c y) Hy)).
      apply andb_true_iff in Hall. destruct Hall as [A B]. split; [exact A|].
      intros Hfa. rewrite Hfa in B. exact B. }
    destruct (Hst x Hx) as [Hs He]. destruct Hf as [Hf|Hf]; [congruence|].
    destruct (fa c x) eqn:Hfa; [|rewrite (He eq_refl) in Hf; discriminate].
    destruct (fa_spec c x Hfa) as (Hsch & _ & _).
    exists x. split; [exact Hx|]. right. split; [exact Hf|].
    rewrite dEF_S. unfold nextEF. rewrite (dSF_mono c k x Hs), Hsch, Hfa.
    destruct (Hst (parent c x) (parent_lt_njobs c x W Hx)) as [Hps _].
    rewrite (dSF_mono c k _ Hps). cbn [andb]. apply forallb_forall. intros m Hm.
    apply In_nfmembers in Hm. destruct Hm as [Hm Hv]. apply In_members in Hm. destruct Hm as (Hm & _ & _).
    apply (Hst m Hm). apply nfv_fa. exact Hv.
  - apply forallb_false in Hall. destruct Hall as (y & Hin & Hfy). apply In_all_ids in Hin.
    apply (gainF_any k y Hin). apply andb_false_iff in Hfy. destruct Hfy as [Hfy|Hfy]; [left; exact Hfy|].
    apply orb_false_iff in Hfy. right. exact Hfy.
Qed.

(* counting *)
Definition settledF (k : nat) : nat :=
  length (filter (dSF c k) (all_ids c)) + length (filter (dEF c k) (all_ids c)).

Lemma settledF_le k : settledF k <= 2 * njobs c.
Proof.
  unfold settledF. pose proof (filter_len_le (dSF c k) (all_ids c)) as H1.
  pose proof (filter_len_le (dEF c k) (all_ids c)) as H2.
  unfold all_ids in *. rewrite length_seqn in H1, H2. lia.
Qed.

Lemma settledF_gain k : gainF k -> settledF k < settledF (S k).
Proof.
  intros (x & Hx & Hg). unfold settledF.
  pose proof (filter_len_mono (dSF c k) (dSF c (S k)) (all_ids c) (fun y _ => dSF_mono c k y)) as H1.
  pose proof (filter_len_mono (dEF c k) (dEF c (S k)) (all_ids c) (fun y _ => dEF_mono c k y)) as H2.
  apply In_all_ids in Hx. destruct Hg as [[A B]|[A B]].
  - pose proof (filter_len_lt (dSF c k) (dSF c (S k)) (all_ids c) x (fun y _ => dSF_mono c k y) Hx B A). lia.
  - pose proof (filter_len_lt (dEF c k) (dEF c (S k)) (all_ids c) x (fun y _ => dEF_mono c k y) Hx B A). lia.
Qed.

Definition all_settledF (k : nat) : Prop :=
  forall x, x < njobs c -> dSF c k x = true /\ dEF c k x = true.

Lemma all_settledF_S k : all_settledF k -> all_settledF (S k).
Proof. intros Ha x Hx. destruct (Ha x Hx) as [A B]. split; [apply dSF_mono|apply dEF_mono]; assumption. Qed.

Lemma settledF_or_count k : all_settledF k \/ k <= settledF k.
Proof.
  induction k as [|k [IH|IH]]; [right; lia|left; apply all_settledF_S; exact IH|].
  destruct (forallb (fun x => dSF c k x && dEF c k x) (all_ids c)) eqn:Hall.
  - left. apply all_settledF_S. intros x Hx. rewrite forallb_forall in Hall.
    specialize (Hall x (proj2 (In_all_ids c x) Hx)). apply andb_true_iff in Hall. exact Hall.
  - right. apply forallb_false in Hall. destruct Hall as (x & Hin & Hf).
    apply In_all_ids in Hin. apply andb_false_iff in Hf.
    pose proof (settledF_gain k (gainF_total k x Hin Hf)). lia.
Qed.

Lemma all_settledF_end : all_settledF (2 * njobs c + 2).
Proof.
  destruct (settledF_or_count (2 * njobs c + 2)) as [Ha|Hc]; [exact Ha|].
  pose proof (settledF_le (2 * njobs c + 2)). lia.
Qed.

End ProgressF.

(* ------------------------------------------------------------------ the theorems *)

Lemma is_scheduleF_agree c (Sa Ea Sb Eb : nat -> N) : wf c = true -> is_scheduleF c Sa Ea ->
  (forall x, x < njobs c -> Sb x = Sa x /\ Eb x = Ea x) -> is_scheduleF c Sb Eb.
Proof.
  intros W H Ha. destruct (wf_root c W) as (Hpos & _).
  assert (HM : forall n, n < njobs c -> MF c Sb Eb n = MF c Sa Ea n).
  { intros n Hn. apply MF_ext; [apply (Ha n Hn)|]. intros m Hm _.
    apply In_members in Hm. destruct Hm as (Hm & _ & _). apply (Ha m Hm). }
  assert (HC : forall x, x < njobs c -> cut c Sb Eb x = cut c Sa Ea x).
  { intros x Hx. apply cut_ext; [apply (Ha x Hx)|]. apply HM. apply (parent_lt_njobs c x W Hx). }
  assert (HT : forall n, n < njobs c -> tidy_len c Sb Eb n = tidy_len c Sa Ea n).
  { intros n Hn. apply tidy_len_ext. intros m Hm. apply In_members in Hm. destruct Hm as (Hm & _ & _).
    apply (HC m Hm). }
  split.
  - destruct (Ha 0 Hpos) as [A _]. rewrite A. apply (schF_0 c Sa Ea H).
  - intros x Hx. destruct (Ha x Hx) as [Ax Bx]. split; [|split].
    + intros Hn. rewrite Ax, (schF_S c Sa Ea H x Hx Hn). destruct (wf_parent c x W Hx Hn) as [Hlt _].
      apply maxl_map_ext.
      * symmetry. apply Ha. lia.
      * intros r Hr. destruct (req_facts c x r W Hx Hr) as (_ & Hr' & _). symmetry. apply Ha. exact Hr'.
    + intros Hs. rewrite Bx, Ax, (HC x Hx), (HM _ (parent_lt_njobs c x W Hx)).
      apply (schF_Ea c Sa Ea H x Hx Hs).
    + intros Hs. rewrite Bx, (HM x Hx), (HT x Hx). apply (schF_Es c Sa Ea H x Hx Hs).
Qed.

Lemma solveF_agrees c S E : wf c = true -> noreqF c -> is_scheduleF c S E ->
  forall x, x < njobs c -> tab (fst (solveF c)) x = S x /\ tab (snd (solveF c)) x = E x.
Proof.
  intros W NR H x Hx. rewrite solveF_iter.
  destruct (all_settledF_end c W NR x Hx) as [A B].
  destruct (soundF c S E W H (2 * njobs c + 2)) as [HS HE].
  split; [apply (HS x Hx A)|apply (HE x Hx B)]; apply Nat.le_refl.
Qed.

Corollary solveF_is_schedule_noreq c : wf c = true -> noreqF c ->
  is_scheduleF c (tab (fst (solveF c))) (tab (snd (solveF c))).
Proof.
  intros W NR. destruct (scheduleF_exists_noreq c W NR) as (S & E & H).
  apply (is_scheduleF_agree c S E _ _ W H). apply (solveF_agrees c S E W NR H).
Qed.

Corollary solveF_is_schedule c : wf c = true -> plainF c = true ->
  is_scheduleF c (tab (fst (solveF c))) (tab (snd (solveF c))).
Proof. intros W P. apply solveF_is_schedule_noreq; [exact W|apply plainF_noreqF; exact P]. Qed.

Theorem solveF_complete c : wf c = true -> plainF c = true ->
  let '(lS, lE) := solveF c in is_scheduleFb c lS lE = true.
Proof.
  intros W P. pose proof (solveF_is_schedule c W P) as H.
  destruct (solveF c) as [lS lE]. apply is_scheduleFb_iff. exact H.
Qed.

Corollary solveF_is_the_schedule c S E : wf c = true -> plainF c = true -> is_scheduleF c S E ->
  forall x, x < njobs c -> S x = tab (fst (solveF c)) x /\ E x = tab (snd (solveF c)) x.
Proof.
  intros W P H x Hx. destruct (solveF_agrees c S E W (plainF_noreqF c P) H x Hx) as [A B]. auto.
Qed.

Print Assumptions scheduleF_unique.
Print Assumptions scheduleF_exists.
Print Assumptions is_scheduleFb_iff.
Print Assumptions solveF_complete.
Print Assumptions solveF_is_schedule.
Print Assumptions solveF_is_the_schedule.
