(* Window accounting: the occupancy counter of a scheduler's window equals the number of its direct
   jobs that are executing (body entered, not yet left), and never exceeds the window (level 1). *)
From AJ Require Import Common.Util Run.RModel Run.RFacts Run.RFacts2 Run.RInv Run.RMon.

Definition holdb (x : jstat) : bool := match x with Running | Cancelling => true | _ => false end.
Definition hcount (c : cfg) (s : state) (p : nat) : nat :=
  length (filter (fun x => holdb (st (Jb s x))) (members c p)).

(* ---------- the occupancy counter after each helper ---------- *)

Lemma qsz_job_leave c n x s p :
  qsz (Rn (job_leave c n x s) p) =
  if negb (Nat.eqb n 0) && Nat.eqb p (parent c n) then qsz (Rn s p) - 1 else qsz (Rn s p).
Proof.
  unfold job_leave. destruct (Nat.eqb n 0); [reflexivity|]. cbn [negb andb Rn setR setJ]. unfold upd.
  destruct (Nat.eqb p (parent c n)) eqn:E; [|reflexivity].
  apply Nat.eqb_eq in E. subst p. reflexivity.
Qed.

Lemma qsz_set_phase s n ph0 p : qsz (Rn (set_phase s n ph0) p) = qsz (Rn s p).
Proof. rewrite ph_set_phase. destruct (Nat.eqb_spec p n) as [->|H]; reflexivity. Qed.

Lemma qsz_end_cancelled c n s p :
  qsz (Rn (fst (end_cancelled c n s)) p) =
  if negb (Nat.eqb n 0) && Nat.eqb p (parent c n) then qsz (Rn s p) - 1 else qsz (Rn s p).
Proof. unfold end_cancelled. cbn [fst]. rewrite qsz_job_leave, !qsz_set_phase. reflexivity. Qed.

Lemma qsz_finish_run c n w r cu s p :
  qsz (Rn (fst (finish_run c n w r cu s)) p) =
  if negb (Nat.eqb n 0) && Nat.eqb p (parent c n) then qsz (Rn s p) - 1 else qsz (Rn s p).
Proof.
  unfold finish_run. cbn [fst]. rewrite qsz_job_leave.
  assert (E : forall q, qsz (Rn (setR s n (mkRst POver (pend (Rn s n)) (seen (Rn s n)) (ndone (Rn s n)) (qsz (Rn s n))
               (expi (Rn s n)) (tbeg (Rn s n)) (match w with WTimeout => true | _ => fto (Rn s n) end)
               (match w with WCritical => true | _ => fcr (Rn s n) end) (rcanc (Rn s n)))) q) = qsz (Rn s q)).
  { intros q. cbn [Rn setR]. unfold upd. destruct (Nat.eqb_spec q n) as [->|H]; reflexivity. }
  rewrite !E. reflexivity.
Qed.

Lemma qsz_exit_main c n w l s p : qsz (Rn (fst (exit_main c n w l s)) p) = qsz (Rn s p).
Proof. rewrite Rn_exit_main. apply qsz_set_phase. Qed.

Lemma qsz_react_main c n d s p : qsz (Rn (fst (react_main c n d s)) p) = qsz (Rn s p).
Proof.
  unfold react_main.
  assert (Hex : forall w l v, qsz v = qsz (Rn s n) ->
            qsz (Rn (fst (exit_main c n w l (setR s n v))) p) = qsz (Rn s p)).
  { intros w l v Hv. rewrite qsz_exit_main. cbn [Rn setR]. unfold upd.
    destruct (Nat.eqb_spec p n) as [->|H]; [exact Hv|reflexivity]. }
  destruct d as [|d0 d']; [apply Hex; reflexivity|].
  destruct (existsb _ (d0 :: d')); [apply Hex; reflexivity|].
  destruct (Nat.eqb _ _); [apply Hex; reflexivity|].
  cbn [fst Rn setR mapJ]. unfold upd. destruct (Nat.eqb_spec p n) as [->|H]; reflexivity.
Qed.

(* ---------- the holding status of bystanders does not change ---------- *)

Lemma other_hold lvl c s e s' y : wf c = true -> Inv1 c s -> step lvl c s e = Some s' ->
  ~ subject e y -> holdb (st (Jb s' y)) = holdb (st (Jb s y)).
Proof.
  intros W I1 Hs Hns.
  destruct (J_effect lvl c s e s' W (i_pend c s I1) Hs y)
    as [H|H1 H2|HS H1 H2 H3 H4 H5|H1 H2 H3 H4 H5 H6 H7|H1 H2 H3 H4 H5 H6|HS H1 H2 H3 H4 H5|HS H1 H2 H3 H4 H5|HS H1 H2 H3 H4 H5 H6|HS H1 H2 H3 H4 H5 H6|HS H1 H2|HS H1 H2 H3];
    try contradiction.
  - rewrite H. reflexivity.
  - rewrite H1, cancel_j_st. reflexivity.
  - rewrite H2, H1. reflexivity.
  - rewrite H1, (create_begin_idle c s y I1 H3 H4). reflexivity.
Qed.

(* the subject's own holding status, by kind of change (from the J-effect) *)
Lemma subject_hold lvl c s e s' x : wf c = true -> Inv1 c s -> step lvl c s e = Some s' ->
  (holdb (st (Jb s' x)) = holdb (st (Jb s x))) \/
  (holdb (st (Jb s x)) = false /\ holdb (st (Jb s' x)) = true /\ st (Jb s x) = Created /\ st (Jb s' x) = Running) \/
  (holdb (st (Jb s x)) = true /\ holdb (st (Jb s' x)) = false /\ finished (st (Jb s' x)) = true).
Proof.
  intros W I1 Hs.
  destruct (J_effect lvl c s e s' W (i_pend c s I1) Hs x)
    as [H|H1 H2|HS H1 H2 H3 H4 H5|H1 H2 H3 H4 H5 H6 H7|H1 H2 H3 H4 H5 H6|HS H1 H2 H3 H4 H5|HS H1 H2 H3 H4 H5|HS H1 H2 H3 H4 H5 H6|HS H1 H2 H3 H4 H5 H6|HS H1 H2|HS H1 H2 H3].
  - left. rewrite H. reflexivity.
  - left. rewrite H1, cancel_j_st. reflexivity.
  - left. rewrite H4, H1. reflexivity.
  - left. rewrite H2, H1. reflexivity.
  - left. rewrite H1, (create_begin_idle c s x I1 H3 H4). reflexivity.
  - right. left. rewrite H1, H3. auto.
  - left. rewrite H5, H1. reflexivity.
  - right. right. rewrite H1. split; [reflexivity|].
    destruct (st (Jb s' x)); cbn in H3; try discriminate; auto.
  - left. rewrite H4, H1. reflexivity.
  - right. right. rewrite H2. destruct H1 as [H1|(H1 & _)]; rewrite H1; auto.
  - left. rewrite H3, H1. reflexivity.
Qed.

(* ---------- counting ---------- *)

Lemma hcount_same c s s' p :
  (forall y, In y (members c p) -> holdb (st (Jb s' y)) = holdb (st (Jb s y))) -> hcount c s' p = hcount c s p.
Proof.
  unfold hcount. intros H. induction (members c p) as [|a l IH]; [reflexivity|].
  cbn [filter]. rewrite (H a (or_introl eq_refl)).
  destruct (holdb (st (Jb s a))); cbn [length]; rewrite IH; auto; intros y Hy; apply H; right; exact Hy.
Qed.

Lemma hcount_change c s s' p x : NoDup (members c p) -> In x (members c p) ->
  (forall y, In y (members c p) -> y <> x -> holdb (st (Jb s' y)) = holdb (st (Jb s y))) ->
  hcount c s' p + (if holdb (st (Jb s x)) then 1 else 0) = hcount c s p + (if holdb (st (Jb s' x)) then 1 else 0).
Proof.
  unfold hcount. induction (members c p) as [|a l IH]; intros ND Hx Ho; [destruct Hx|].
  inversion ND as [|? ? Hna ND']; subst. cbn [filter].
  destruct Hx as [->|Hx].
  - assert (El : filter (fun y => holdb (st (Jb s' y))) l = filter (fun y => holdb (st (Jb s y))) l).
    { apply filter_ext_in. intros y Hy. apply Ho; [right; exact Hy|]. intro E. subst. contradiction. }
    rewrite El. destruct (holdb (st (Jb s x))), (holdb (st (Jb s' x))); cbn [length]; lia.
  - assert (Hax : a <> x) by (intro E; subst; contradiction).
    rewrite (Ho a (or_introl eq_refl) Hax).
    specialize (IH ND' Hx (fun y Hy => Ho y (or_intror Hy))).
    destruct (holdb (st (Jb s a))); cbn [length]; lia.
Qed.

Lemma members_nodup c p : NoDup (members c p).
Proof. unfold members. apply NoDup_filter. apply NoDup_seqn. Qed.

(* ---------- the invariant ---------- *)

Definition Wacc (c : cfg) (s : state) : Prop := forall p, qsz (Rn s p) = hcount c s p.

Lemma Wacc_init c : Wacc c init.
Proof.
  intros p. unfold hcount. cbn [Rn init qsz init_r].
  induction (members c p) as [|a l IH]; [reflexivity|]. cbn. exact IH.
Qed.

(* a step whose subject is job x, a member of scheduler q: effect on any scheduler p, given how the
   counters and x's holding status move *)
Lemma Wacc_via_subject lvl c s e s' x q : wf c = true -> Inv1 c s -> Wacc c s ->
  step lvl c s e = Some s' ->
  (forall y, y <> x -> ~ subject e y) -> In x (members c q) ->
  (forall p, p <> q -> qsz (Rn s' p) = qsz (Rn s p)) ->
  (qsz (Rn s' q) + (if holdb (st (Jb s x)) then 1 else 0) = qsz (Rn s q) + (if holdb (st (Jb s' x)) then 1 else 0)) ->
  Wacc c s'.
Proof.
  intros W I1 Hw Hs Hsub Hx Hoth Hq p.
  destruct (Nat.eq_dec p q) as [->|Hpq].
  - pose proof (hcount_change c s s' q x (members_nodup c q) Hx) as Hc.
    assert (Ho : forall y, In y (members c q) -> y <> x -> holdb (st (Jb s' y)) = holdb (st (Jb s y))).
    { intros y _ Hy. apply (other_hold lvl c s e s' y W I1 Hs). apply Hsub. exact Hy. }
    specialize (Hc Ho). rewrite <- (Hw q) in Hc. lia.
  - rewrite (Hoth p Hpq), (Hw p). symmetry. apply hcount_same. intros y Hy.
    apply (other_hold lvl c s e s' y W I1 Hs). apply Hsub. intro E. subst y.
    apply In_members in Hy. apply In_members in Hx. destruct Hy as (_ & A & _), Hx as (_ & B & _). congruence.
Qed.

(* a step with no subject at all, or whose subject does not change its holding status *)
Lemma Wacc_no_change lvl c s e s' : wf c = true -> Inv1 c s -> Wacc c s ->
  step lvl c s e = Some s' ->
  (forall y, subject e y -> holdb (st (Jb s' y)) = holdb (st (Jb s y))) ->
  (forall p, qsz (Rn s' p) = qsz (Rn s p)) ->
  Wacc c s'.
Proof.
  intros W I1 Hw Hs Hsub Hq p. rewrite Hq, (Hw p). symmetry. apply hcount_same. intros y _.
  destruct (subject_dec e y) as [H|H]; [apply Hsub; exact H|apply (other_hold lvl c s e s' y W I1 Hs H)].
Qed.

(* ---------- control events: either nothing moves in the counters, or the run of n ends ---------- *)

Definition ctl_quiet (c : cfg) (s s' : state) (n : nat) : Prop :=
  (forall p, qsz (Rn s' p) = qsz (Rn s p)) /\ holdb (st (Jb s' n)) = holdb (st (Jb s n)).

Definition ctl_ended (c : cfg) (s s' : state) (n : nat) : Prop :=
  n <> 0 /\ holdb (st (Jb s n)) = true /\ holdb (st (Jb s' n)) = false /\
  forall p, qsz (Rn s' p) = if Nat.eqb p (parent c n) then qsz (Rn s p) - 1 else qsz (Rn s p).

Lemma ctl_end_cancelled c s s0 n :
  (forall p, qsz (Rn s0 p) = qsz (Rn s p)) -> (n = 0 -> Jb s0 n = Jb s n) ->
  (n <> 0 -> st (Jb s n) = Running) ->
  ctl_quiet c s (fst (end_cancelled c n s0)) n \/ ctl_ended c s (fst (end_cancelled c n s0)) n.
Proof.
  intros Hq H0 Hr. destruct (Nat.eq_dec n 0) as [->|Hn0].
  - left. split.
    + intros p. rewrite qsz_end_cancelled. cbn. apply Hq.
    + rewrite Jb_end_cancelled. cbn. rewrite (H0 eq_refl). reflexivity.
  - right. split; [exact Hn0|]. split; [rewrite (Hr Hn0); reflexivity|]. split.
    + rewrite Jb_end_cancelled. apply Nat.eqb_neq in Hn0. rewrite Hn0, Nat.eqb_refl. reflexivity.
    + intros p. rewrite qsz_end_cancelled. apply Nat.eqb_neq in Hn0. rewrite Hn0. cbn [negb andb].
      rewrite Hq. reflexivity.
Qed.

Lemma ctl_finish_run c s s0 n w r cu :
  (forall p, qsz (Rn s0 p) = qsz (Rn s p)) -> (n = 0 -> Jb s0 n = Jb s n) ->
  (n <> 0 -> st (Jb s n) = Running) ->
  ctl_quiet c s (fst (finish_run c n w r cu s0)) n \/ ctl_ended c s (fst (finish_run c n w r cu s0)) n.
Proof.
  intros Hq H0 Hr. destruct (Nat.eq_dec n 0) as [->|Hn0].
  - left. split.
    + intros p. rewrite qsz_finish_run. cbn. apply Hq.
    + rewrite Jb_finish_run. cbn. rewrite (H0 eq_refl). reflexivity.
  - right. split; [exact Hn0|]. split; [rewrite (Hr Hn0); reflexivity|]. split.
    + rewrite Jb_finish_run. apply Nat.eqb_neq in Hn0. rewrite Hn0, Nat.eqb_refl. cbn [st].
      pose proof (verdict_done c n w cu) as Hd. destruct (jstat_of_verdict (verdict_of c n w cu)); cbn in *; try discriminate; reflexivity.
    + intros p. rewrite qsz_finish_run. apply Nat.eqb_neq in Hn0. rewrite Hn0. cbn [negb andb].
      rewrite Hq. reflexivity.
Qed.

Lemma hold_cancel_j a : holdb (st (cancel_j a)) = holdb (st a).
Proof. rewrite cancel_j_st. reflexivity. Qed.

Lemma ctl_main c s n d : wf c = true -> ctl_quiet c s (fst (react_main c n d s)) n.
Proof.
  intros W. split; [intros p; apply qsz_react_main|].
  destruct (st_react_main_self c n d s W) as [E _]. rewrite E. reflexivity.
Qed.

Lemma ctl_tidy c s n : (n <> 0 -> st (Jb s n) = Running) ->
  ctl_quiet c s (fst (react_tidy c n s)) n \/ ctl_ended c s (fst (react_tidy c n s)) n.
Proof.
  intros Hr. unfold react_tidy. destruct (rcanc (Rn s n)).
  - apply ctl_end_cancelled; auto.
  - left. split.
    + intros p. rewrite Rn_shutdown_start. apply qsz_set_phase.
    + rewrite Jb_shutdown_start. reflexivity.
Qed.

Lemma qsz_react_shut_wake c n p0 s p : qsz (Rn (fst (fst (react_shut_wake c n p0 s))) p) = qsz (Rn s p).
Proof. rewrite Rn_react_shut_wake. reflexivity. Qed.

Lemma ctl_shut c s n p0 cu : (sd_inline s n = true -> n <> 0 -> st (Jb s n) = Running) ->
  ctl_quiet c s (fst (react_shut c n p0 cu s)) n \/
  (sd_inline s n = true /\ ctl_ended c s (fst (react_shut c n p0 cu s)) n).
Proof.
  intros Hr. unfold react_shut.
  pose proof (Rn_react_shut_wake c n p0 s) as E1. pose proof (Jb_react_shut_wake_f c n p0 s) as E2.
  destruct (react_shut_wake c n p0 s) as [[s1 res] mo1]. cbn [fst] in E1, E2.
  assert (Hq : forall p, qsz (Rn s1 p) = qsz (Rn s p)) by (intros p; rewrite E1; reflexivity).
  destruct res as [r|].
  2:{ left. split; [exact Hq|]. cbn [fst]. rewrite E2. reflexivity. }
  destruct (sd_inline s n) eqn:Ein.
  - destruct (rcanc (Rn s n)).
    + pose proof (ctl_end_cancelled c s s1 n Hq (fun _ => f_equal (fun f => f n) E2) (Hr eq_refl)) as H.
      destruct (end_cancelled c n s1) as [s2 mo2]. destruct H as [H|H]; [left; exact H|right; split; [reflexivity|exact H]].
    + pose proof (ctl_finish_run c s s1 n (why_of s n) r cu Hq (fun _ => f_equal (fun f => f n) E2) (Hr eq_refl)) as H.
      destruct (finish_run c n (why_of s n) r cu s1) as [s2 mo2]. destruct H as [H|H]; [left; exact H|right; split; [reflexivity|exact H]].
  - left. split; [intros p; cbn [fst]; rewrite Rn_hdone; apply Hq|]. cbn [fst]. rewrite Jb_hdone, E2. reflexivity.
Qed.

Lemma ctl_shtidy c s n cu : (sd_inline s n = true -> n <> 0 -> st (Jb s n) = Running) ->
  ctl_quiet c s (fst (react_shtidy c n cu s)) n \/
  (sd_inline s n = true /\ ctl_ended c s (fst (react_shtidy c n cu s)) n).
Proof.
  intros Hr. unfold react_shtidy, react_shtidy_wake.
  set (s1 := setS s n _).
  assert (Hq : forall p, qsz (Rn s1 p) = qsz (Rn s p)) by reflexivity.
  assert (E2 : Jb s1 n = Jb s n) by reflexivity.
  destruct (sd_inline s n) eqn:Ein.
  - destruct (rcanc (Rn s n)).
    + pose proof (ctl_end_cancelled c s s1 n Hq (fun _ => E2) (Hr eq_refl)) as H.
      destruct (end_cancelled c n s1) as [s2 mo2]. destruct H as [H|H]; [left; exact H|right; split; [reflexivity|exact H]].
    + destruct (ctl_finish_run c s s1 n (why_of s n) SRFalse cu Hq (fun _ => E2) (Hr eq_refl)) as [H|H];
        [left; exact H|right; split; [reflexivity|exact H]].
  - left. split; [reflexivity|reflexivity].
Qed.

Lemma ctl_cancel_main c s n : n <> 0 -> st (Jb s n) = Running ->
  ctl_quiet c s (fst (react_cancel_main c n s)) n \/ ctl_ended c s (fst (react_cancel_main c n s)) n.
Proof.
  intros Hn0 Hst. unfold react_cancel_main. destruct (filter _ _) as [|u0 u'] eqn:Eu.
  - apply ctl_end_cancelled; auto.
    + intros p. rewrite Rn_clear_cp. reflexivity.
    + intros E. contradiction.
  - left. split.
    + intros p. cbn [fst Rn setR mapJ]. unfold upd. destruct (Nat.eqb_spec p n) as [->|H]; cbn [qsz];
        rewrite Rn_clear_cp; reflexivity.
    + cbn [fst Jb setR]. destruct (st_cancel_list (u0 :: u') (clear_cp s n) n) as [A _]. rewrite A.
      destruct (st_clear_cp s n) as [B _]. rewrite B. reflexivity.
Qed.

Lemma ctl_cancel_tidy c s n : ctl_quiet c s (fst (react_cancel_tidy c n s)) n.
Proof.
  unfold react_cancel_tidy. cbn [fst]. split.
  - intros p. cbn [Rn setR mapJ]. unfold upd. destruct (Nat.eqb_spec p n) as [->|H]; cbn [qsz];
      rewrite Rn_clear_cp; reflexivity.
  - cbn [Jb setR]. destruct (st_cancel_list (pend (Rn s n)) (clear_cp s n) n) as [A _]. rewrite A.
    destruct (st_clear_cp s n) as [B _]. rewrite B. reflexivity.
Qed.

Lemma ctl_cancel_ctidy c s n : ctl_quiet c s (fst (react_cancel_ctidy c n s)) n.
Proof.
  unfold react_cancel_ctidy. cbn [fst]. split.
  - intros p. rewrite Rn_mapJ, Rn_clear_cp. reflexivity.
  - destruct (st_cancel_list (pend (Rn s n)) (clear_cp s n) n) as [A _]. rewrite A.
    destruct (st_clear_cp s n) as [B _]. rewrite B. reflexivity.
Qed.

Lemma ctl_cancel_shut c s n : ctl_quiet c s (fst (react_cancel_shut c n s)) n.
Proof.
  unfold react_cancel_shut. destruct (sd_inline s n); unfold react_shut_cancel; cbn [fst]; split.
  - intros p. cbn [Rn setS mapH setR]. unfold upd. destruct (Nat.eqb_spec p n) as [->|H]; cbn [qsz];
      rewrite Rn_clear_cp; reflexivity.
  - cbn [Jb setS mapH setR]. destruct (st_clear_cp s n) as [B _]. rewrite B. reflexivity.
  - intros p. reflexivity.
  - reflexivity.
Qed.

(* ---------- per-scheduler versions of the step argument ---------- *)

Section WStep.
  Variables (lvl : nat) (c : cfg) (s s' : state) (e : event).
  Hypothesis W : wf c = true.
  Hypothesis I1 : Inv1 c s.
  Hypothesis Hw : Wacc c s.
  Hypothesis Hs : step lvl c s e = Some s'.

  Lemma W_p_subject p x : In x (members c p) -> (forall y, y <> x -> ~ subject e y) ->
    qsz (Rn s' p) + (if holdb (st (Jb s x)) then 1 else 0) = qsz (Rn s p) + (if holdb (st (Jb s' x)) then 1 else 0) ->
    qsz (Rn s' p) = hcount c s' p.
  Proof.
    intros Hx Hsub Hq.
    pose proof (hcount_change c s s' p x (members_nodup c p) Hx) as Hc.
    assert (Ho : forall y, In y (members c p) -> y <> x -> holdb (st (Jb s' y)) = holdb (st (Jb s y))).
    { intros y _ Hy. apply (other_hold lvl c s e s' y W I1 Hs). apply Hsub. exact Hy. }
    specialize (Hc Ho). rewrite <- (Hw p) in Hc. lia.
  Qed.

  Lemma W_p_other p : (forall y, In y (members c p) -> ~ subject e y) ->
    qsz (Rn s' p) = qsz (Rn s p) -> qsz (Rn s' p) = hcount c s' p.
  Proof.
    intros Hsub Hq. rewrite Hq, (Hw p). symmetry. apply hcount_same. intros y Hy.
    apply (other_hold lvl c s e s' y W I1 Hs). apply Hsub. exact Hy.
  Qed.

  Lemma W_p_hold_same p : (forall y, In y (members c p) -> holdb (st (Jb s' y)) = holdb (st (Jb s y))) ->
    qsz (Rn s' p) = qsz (Rn s p) -> qsz (Rn s' p) = hcount c s' p.
  Proof. intros Hh Hq. rewrite Hq, (Hw p). symmetry. apply hcount_same. exact Hh. Qed.

  Lemma not_member_of_other p x y : In x (members c (parent c x)) -> p <> parent c x -> In y (members c p) -> y <> x.
  Proof.
    intros Hx Hp Hy E. subst y. apply In_members in Hy. destruct Hy as (_ & A & _). congruence.
  Qed.
End WStep.

(* the counters after the prologue of a run *)
Lemma qsz_react_begin c n s p : wf c = true -> n < njobs c ->
  qsz (Rn (fst (react_begin c n s)) p) =
  if Nat.eqb p n then 0
  else if negb (Nat.eqb n 0) && Nat.eqb p (parent c n)
       then (match members c n with [] => qsz (Rn s p) | _ => S (qsz (Rn s p)) end)
       else qsz (Rn s p).
Proof.
  intros W Hn. unfold react_begin.
  set (s0 := if Nat.eqb n 0 then s else _).
  assert (Hq0 : forall k, qsz (Rn s0 k) = if negb (Nat.eqb n 0) && Nat.eqb k (parent c n) then S (qsz (Rn s k)) else qsz (Rn s k)).
  { intros k. unfold s0. destruct (Nat.eqb n 0); [reflexivity|]. cbn [negb andb Rn setR setJ]. unfold upd.
    destruct (Nat.eqb k (parent c n)) eqn:E; [|reflexivity]. apply Nat.eqb_eq in E. subst k. reflexivity. }
  assert (Hpn : n <> 0 -> parent c n <> n).
  { intros Hn0. destruct (wf_parent c n W Hn Hn0). lia. }
  destruct (members c n) as [|k ks] eqn:Em.
  - cbn [fst]. rewrite qsz_job_leave.
    destruct (Nat.eqb_spec p n) as [->|Hpn'].
    + destruct (Nat.eqb_spec n 0) as [->|Hn0]; cbn [negb andb].
      * rewrite Rn_setR_same. reflexivity.
      * specialize (Hpn Hn0). apply Nat.eqb_neq in Hpn. rewrite Nat.eqb_sym in Hpn. rewrite Hpn.
        rewrite Rn_setR_same. reflexivity.
    + rewrite Rn_setR_other by exact Hpn'. rewrite Hq0.
      destruct (negb (Nat.eqb n 0) && Nat.eqb p (parent c n)); [lia|reflexivity].
  - cbn [fst]. destruct (Nat.eqb_spec p n) as [->|Hpn'].
    + rewrite Rn_setR_same. reflexivity.
    + rewrite Rn_setR_other by exact Hpn'. rewrite Rn_mapJ. apply Hq0.
Qed.

Lemma hcount_pos c s p x : In x (members c p) -> holdb (st (Jb s x)) = true -> 1 <= hcount c s p.
Proof.
  intros Hx Hh. unfold hcount.
  assert (In x (filter (fun y => holdb (st (Jb s y))) (members c p))) by (apply filter_In; auto).
  destruct (filter _ (members c p)); [contradiction|cbn; lia].
Qed.

Lemma hcount_zero c s p : (forall y, In y (members c p) -> holdb (st (Jb s y)) = false) -> hcount c s p = 0.
Proof.
  intros H. unfold hcount. induction (members c p) as [|a l IH]; [reflexivity|].
  cbn [filter]. rewrite (H a (or_introl eq_refl)). apply IH. intros y Hy. apply H. right. exact Hy.
Qed.

Lemma qsz_bump s q f p : qsz (Rn (bump_q s q f) p) = if Nat.eqb p q then f (qsz (Rn s q)) else qsz (Rn s p).
Proof.
  unfold bump_q. cbn [Rn setR]. unfold upd. destruct (Nat.eqb_spec p q) as [->|H]; reflexivity.
Qed.

Lemma st_react_begin_self c n s : wf c = true -> n < njobs c -> n <> 0 ->
  st (Jb (fst (react_begin c n s)) n) = match members c n with [] => DoneRet RVTrue | _ => Running end.
Proof.
  intros W Hn Hn0. unfold react_begin. apply Nat.eqb_neq in Hn0. rewrite Hn0.
  destruct (members c n) as [|k ks] eqn:Em.
  - cbn [fst]. rewrite Jb_job_leave, Hn0, Nat.eqb_refl. reflexivity.
  - cbn [fst Jb setR]. rewrite Jb_mapJ. rewrite <- Em.
    match goal with |- context [memb n ?l] => assert (Hne : memb n l = false) end.
    { apply memb_false. intro Hin. apply filter_In in Hin. destruct Hin as [Hin _].
      apply (member_neq c n n W Hin). reflexivity. }
    rewrite Hne. cbn [Jb setR setJ]. rewrite upd_same. reflexivity.
Qed.

Theorem Wacc_step lvl c s e s' : wf c = true -> Inv1 c s -> Wacc c s ->
  step lvl c s e = Some s' -> Wacc c s'.
Proof.
  intros W I1 Hw Hs p.
  destruct (step_inv _ _ _ _ _ Hs) as [Es' Hg].
  (* a control event of scheduler n *)
  assert (Hctl : forall n, (forall y, subject e y -> y = n) ->
            ctl_quiet c s s' n \/ (n < njobs c /\ ctl_ended c s s' n) -> qsz (Rn s' p) = hcount c s' p).
  { intros n Hsub [[Hq Hh]|(Hlt & Hn0 & H1 & H2 & Hq)].
    - apply (W_p_hold_same c s s' Hw p); [|apply Hq].
      intros y _. destruct (Nat.eq_dec y n) as [->|Hy]; [exact Hh|].
      apply (other_hold lvl c s e s' y W I1 Hs). intro Hy'. apply Hy. apply Hsub. exact Hy'.
    - assert (Hm : In n (members c (parent c n))) by (apply In_members; auto).
      destruct (Nat.eq_dec p (parent c n)) as [->|Hp].
      + apply (W_p_subject lvl c s s' e W I1 Hw Hs (parent c n) n Hm).
        * intros y Hy Hy'. apply Hy. apply Hsub. exact Hy'.
        * rewrite Hq, Nat.eqb_refl, H1, H2.
          pose proof (hcount_pos c s (parent c n) n Hm H1) as Hpos. rewrite <- (Hw (parent c n)) in Hpos. lia.
      + apply (W_p_other lvl c s s' e W I1 Hw Hs p).
        * intros y Hy Hy'. apply Hsub in Hy'. subst y. apply In_members in Hy. destruct Hy as (_ & A & _). congruence.
        * rewrite Hq. apply Nat.eqb_neq in Hp. rewrite Hp. reflexivity. }
  (* an event of atomic job j that changes its holding status by dq at its parent *)
  assert (Hjob : forall j f, atomic_id c j = true -> (forall y, subject e y -> y = j) ->
            (forall q, qsz (Rn s' q) = if Nat.eqb q (parent c j) then f (qsz (Rn s (parent c j))) else qsz (Rn s q)) ->
            (f (qsz (Rn s (parent c j))) + (if holdb (st (Jb s j)) then 1 else 0)
             = qsz (Rn s (parent c j)) + (if holdb (st (Jb s' j)) then 1 else 0)) ->
            qsz (Rn s' p) = hcount c s' p).
  { intros j f Hat Hsub Hq Heq. destruct (atomic_id_spec _ _ Hat) as (A1 & A2 & A3).
    assert (Hm : In j (members c (parent c j))) by (apply In_members; auto).
    destruct (Nat.eq_dec p (parent c j)) as [->|Hp].
    - apply (W_p_subject lvl c s s' e W I1 Hw Hs (parent c j) j Hm).
      + intros y Hy Hy'. apply Hy. apply Hsub. exact Hy'.
      + rewrite Hq, Nat.eqb_refl. exact Heq.
    - apply (W_p_other lvl c s s' e W I1 Hw Hs p).
      + intros y Hy Hy'. apply Hsub in Hy'. subst y. apply In_members in Hy. destruct Hy as (_ & A & _). congruence.
      + rewrite Hq. apply Nat.eqb_neq in Hp. rewrite Hp. reflexivity. }
  destruct e as [n o|n k d o|n k o|n o|j|j oc|j|j|j|j|j|j|j|j|t|t|jv sv]; cbn [reaction fst] in Es'.
  - (* EBegin *)
    split_guards Hg. unfold sched_id in G. apply andb_true_iff in G. destruct G as [Hsch Hlt]. apply Nat.ltb_lt in Hlt.
    assert (Hidle : ph (Rn s n) = PIdle).
    { destruct (rootb n) eqn:Er.
      - destruct (ph (Rn s n)); try discriminate. reflexivity.
      - apply rootb_false in Er. apply (i_l1 c s I1 n Er). destruct (st (Jb s n)); try discriminate. auto. }
    pose proof (qsz_react_begin c n s p W Hlt) as Hqp. rewrite <- Es' in Hqp.
    destruct (Nat.eqb_spec p n) as [->|Hpn].
    + rewrite Hqp. symmetry. apply hcount_zero. intros y Hy.
      rewrite (other_hold lvl c s (EBegin n o) s' y W I1 Hs).
      * rewrite (i_idle c s I1 n y Hy Hidle). reflexivity.
      * cbn [subject]. apply (member_neq c n y W Hy).
    + destruct (Nat.eqb_spec n 0) as [->|Hn0]; cbn [negb andb] in Hqp.
      * apply (W_p_other lvl c s s' (EBegin 0 o) W I1 Hw Hs p); [|exact Hqp].
        intros y Hy. cbn [subject]. intro E. subst y. apply In_members in Hy. tauto.
      * assert (Hm : In n (members c (parent c n))) by (apply In_members; auto).
        assert (Hst : st (Jb s n) = Created).
        { apply rootb_false in Hn0. rewrite Hn0 in G0. destruct (st (Jb s n)); try discriminate. reflexivity. }
        pose proof (st_react_begin_self c n s W Hlt Hn0) as Hst'. rewrite <- Es' in Hst'.
        destruct (Nat.eqb_spec p (parent c n)) as [->|Hpp].
        -- apply (W_p_subject lvl c s s' (EBegin n o) W I1 Hw Hs (parent c n) n Hm).
           ++ intros y Hy. cbn [subject]. exact Hy.
           ++ rewrite Hqp, Hst, Hst'. destruct (members c n); cbn; lia.
        -- apply (W_p_other lvl c s s' (EBegin n o) W I1 Hw Hs p); [|exact Hqp].
           intros y Hy. cbn [subject]. intro E. subst y. apply In_members in Hy. destruct Hy as (_ & A & _). congruence.
  - (* EWake *)
    assert (Hsubj : forall y, subject (EWake n k d o) y -> y = n) by (cbn [subject]; auto).
    destruct k; cbn [reaction fst] in Es'; rewrite Es' in *.
    + split_guards Hg. apply (Hctl n Hsubj). left. apply ctl_main. exact W.
    + split_guards Hg. destruct (run_alive_false _ _ _ G) as (Hsch & Hlt & Hr).
      destruct (ctl_tidy c s n (fun Hn0 => proj1 (Hr Hn0))) as [H|H]; apply (Hctl n Hsubj); auto.
    + split_guards Hg. destruct (run_alive_false _ _ _ G) as (Hsch & Hlt & Hr).
      destruct (ctl_end_cancelled c s s n (fun _ => eq_refl) (fun _ => eq_refl) (fun Hn0 => proj1 (Hr Hn0))) as [H|H];
        apply (Hctl n Hsubj); auto.
    + cbn [forallb guards app outs_guards] in Hg. apply andb_true_iff in Hg. destruct Hg as [G1 _].
      assert (Hr : sd_inline s n = true -> n <> 0 -> st (Jb s n) = Running).
      { intros Hi Hn0. destruct (run_alive_false _ _ _ (sd_thread_inline c s n false lvl G1 Hi)) as (_ & _ & Hr). apply Hr. exact Hn0. }
      destruct (ctl_shut c s n d (culprit_of o) Hr) as [H|[Hi H]]; apply (Hctl n Hsubj); auto.
      right. split; [|exact H]. destruct (run_alive_false _ _ _ (sd_thread_inline c s n false lvl G1 Hi)) as (_ & Hlt & _). exact Hlt.
    + cbn [forallb guards app outs_guards] in Hg. apply andb_true_iff in Hg. destruct Hg as [G1 _].
      assert (Hr : sd_inline s n = true -> n <> 0 -> st (Jb s n) = Running).
      { intros Hi Hn0. destruct (run_alive_false _ _ _ (sd_thread_inline c s n false lvl G1 Hi)) as (_ & _ & Hr). apply Hr. exact Hn0. }
      destruct (ctl_shtidy c s n (culprit_of o) Hr) as [H|[Hi H]]; apply (Hctl n Hsubj); auto.
      right. split; [|exact H]. destruct (run_alive_false _ _ _ (sd_thread_inline c s n false lvl G1 Hi)) as (_ & Hlt & _). exact Hlt.
  - (* ECancelled *)
    assert (Hsubj : forall y, subject (ECancelled n k o) y -> y = n) by (cbn [subject]; auto).
    destruct k; cbn [reaction fst] in Es'; rewrite Es' in *.
    + split_guards Hg. destruct (run_alive_true _ _ _ G) as (Hsch & Hlt & Hn0 & Hst & Hcp).
      destruct (ctl_cancel_main c s n Hn0 Hst) as [H|H]; apply (Hctl n Hsubj); auto.
    + apply (Hctl n Hsubj). left. apply ctl_cancel_tidy.
    + apply (Hctl n Hsubj). left. apply ctl_cancel_ctidy.
    + apply (Hctl n Hsubj). left. apply ctl_cancel_shut.
    + apply (Hctl n Hsubj). left. apply ctl_cancel_shut.
  - (* ESdStart *)
    apply (W_p_hold_same c s s' Hw p).
    + intros y _. rewrite Es', Jb_react_sdstart. reflexivity.
    + rewrite Es'. unfold react_sdstart.
      destruct (shutdown_start c n false (setH s n (mkHst HRunning false None))) as [s1 mo] eqn:E.
      assert (E1 : Rn s1 = Rn s).
      { change s1 with (fst (s1, mo)). rewrite <- E, Rn_shutdown_start. reflexivity. }
      cbn [fst]. destruct (sp (Sd s1 n)), (did (Sd s n)); cbn [Rn setH]; rewrite E1; reflexivity.
  - (* EStart *)
    split_guards Hg. apply (Hjob j S G); [cbn [subject]; auto| |].
    + intros q. rewrite Es'. unfold eff_start. rewrite qsz_bump. reflexivity.
    + destruct (st (Jb s j)) eqn:Est; try discriminate.
      rewrite Es'. unfold eff_start. rewrite Jb_bump_q, Jb_setJ, upd_same. cbn. lia.
  - (* EFinish *)
    split_guards Hg. destruct (atomic_id_spec _ _ G) as (A1 & A2 & A3).
    assert (Hm : In j (members c (parent c j))) by (apply In_members; auto).
    destruct (st (Jb s j)) eqn:Est; try discriminate.
    assert (Hpos : 1 <= qsz (Rn s (parent c j))).
    { rewrite (Hw (parent c j)). apply (hcount_pos c s _ j Hm). rewrite Est. reflexivity. }
    apply (Hjob j pred G); [cbn [subject]; auto| |].
    + intros q. rewrite Es'. unfold eff_finish. rewrite qsz_bump. reflexivity.
    + rewrite Es'. unfold eff_finish. rewrite Jb_bump_q, Jb_setJ, upd_same. cbn [st]. rewrite Est. destruct oc; cbn; lia.
  - (* ECancelHit *)
    split_guards Hg. destruct (st (Jb s j)) eqn:Est; try discriminate.
    apply (W_p_hold_same c s s' Hw p); [|rewrite Es'; reflexivity].
    intros y _. rewrite Es'. unfold eff_cancel_hit. rewrite Jb_setJ. unfold upd.
    destruct (Nat.eqb_spec y j) as [->|Hy]; [rewrite Est; reflexivity|reflexivity].
  - (* ECancelEnd *)
    split_guards Hg. destruct (atomic_id_spec _ _ G) as (A1 & A2 & A3).
    assert (Hm : In j (members c (parent c j))) by (apply In_members; auto).
    destruct (st (Jb s j)) eqn:Est; try discriminate.
    assert (Hpos : 1 <= qsz (Rn s (parent c j))).
    { rewrite (Hw (parent c j)). apply (hcount_pos c s _ j Hm). rewrite Est. reflexivity. }
    apply (Hjob j pred G); [cbn [subject]; auto| |].
    + intros q. rewrite Es'. unfold eff_cancel_over. rewrite qsz_bump. reflexivity.
    + rewrite Es'. unfold eff_cancel_over. rewrite Jb_bump_q, Jb_setJ, upd_same, Est. cbn. lia.
  - (* ECancelAbort *)
    split_guards Hg. destruct (atomic_id_spec _ _ G) as (A1 & A2 & A3).
    assert (Hm : In j (members c (parent c j))) by (apply In_members; auto).
    destruct (st (Jb s j)) eqn:Est; try discriminate.
    assert (Hpos : 1 <= qsz (Rn s (parent c j))).
    { rewrite (Hw (parent c j)). apply (hcount_pos c s _ j Hm). rewrite Est. reflexivity. }
    apply (Hjob j pred G); [cbn [subject]; auto| |].
    + intros q. rewrite Es'. unfold eff_cancel_over. rewrite qsz_bump. reflexivity.
    + rewrite Es'. unfold eff_cancel_over. rewrite Jb_bump_q, Jb_setJ, upd_same, Est. cbn. lia.
  - (* EGone *)
    split_guards Hg. destruct (st (Jb s j)) eqn:Est; try discriminate.
    apply (W_p_hold_same c s s' Hw p); [|rewrite Es'; reflexivity].
    intros y _. rewrite Es'. unfold eff_gone. rewrite Jb_setJ. unfold upd.
    destruct (Nat.eqb_spec y j) as [->|Hy]; [rewrite Est; reflexivity|reflexivity].
  - apply (W_p_hold_same c s s' Hw p); rewrite Es'; reflexivity.
  - apply (W_p_hold_same c s s' Hw p); rewrite Es'; reflexivity.
  - apply (W_p_hold_same c s s' Hw p); rewrite Es'; reflexivity.
  - apply (W_p_hold_same c s s' Hw p); rewrite Es'; reflexivity.
  - apply (W_p_hold_same c s s' Hw p); rewrite Es'; reflexivity.
  - apply (W_p_hold_same c s s' Hw p); rewrite Es'; reflexivity.
  - apply (W_p_hold_same c s s' Hw p); rewrite Es'; reflexivity.
Qed.

Theorem Wacc_reach lvl c h s : wf c = true -> Reach lvl c h s -> Wacc c s.
Proof.
  intros W Hr. revert h s Hr. apply reach_ind.
  - apply Wacc_init.
  - intros h s e s' Hr Hw Hs. eapply Wacc_step; eauto. eapply Inv1_reach; eauto.
Qed.

(* ---------- the counter grows only by one, and (level 1) only when a slot is free ---------- *)

Lemma qsz_step lvl c s e s' p : wf c = true -> step lvl c s e = Some s' ->
  qsz (Rn s' p) <= qsz (Rn s p) \/
  (qsz (Rn s' p) = S (qsz (Rn s p)) /\ (1 <= lvl -> slot_free c s p = true)).
Proof.
  intros W Hs. destruct (step_inv _ _ _ _ _ Hs) as [Es' Hg].
  assert (Hc : forall n, ctl_quiet c s s' n \/ ctl_ended c s s' n -> qsz (Rn s' p) <= qsz (Rn s p)).
  { intros n [[Hq _]|(_ & _ & _ & Hq)]; rewrite Hq; [lia|]. destruct (Nat.eqb p (parent c n)); lia. }
  assert (Hl1 : forall k b, 1 <= lvl -> holds lvl (1, k, b) = true -> b = true).
  { intros k b Hl Hh. unfold holds in Hh. destruct (Nat.ltb_spec lvl 1); [lia|exact Hh]. }
  destruct e as [n o|n k d o|n k o|n o|j|j oc|j|j|j|j|j|j|j|j|t|t|jv sv]; cbn [reaction fst] in Es'.
  - cbn [forallb guards app outs_guards] in Hg. rewrite ?holds_0 in Hg.
    apply andb_true_iff in Hg. destruct Hg as [G Hg]. apply andb_true_iff in Hg. destruct Hg as [G0 Hg].
    apply andb_true_iff in Hg. destruct Hg as [G1 _].
    unfold sched_id in G. apply andb_true_iff in G. destruct G as [Hsch Hlt]. apply Nat.ltb_lt in Hlt.
    rewrite Es', (qsz_react_begin c n s p W Hlt).
    destruct (Nat.eqb p n); [left; lia|].
    destruct (Nat.eqb_spec n 0) as [->|Hn0]; cbn [negb andb]; [left; lia|].
    destruct (Nat.eqb_spec p (parent c n)) as [->|Hp]; [|left; lia].
    destruct (members c n); [left; lia|]. right. split; [reflexivity|].
    intros Hl. apply (Hl1 _ _ Hl) in G1. apply rootb_false in Hn0. rewrite Hn0 in G1. exact G1.
  - left. destruct k; cbn [reaction fst] in Es'; rewrite Es' in *.
    + apply (Hc n). left. apply ctl_main. exact W.
    + split_guards Hg. destruct (run_alive_false _ _ _ G) as (Hsch & Hlt & Hr).
      apply (Hc n). apply ctl_tidy. intros Hn0. apply Hr. exact Hn0.
    + split_guards Hg. destruct (run_alive_false _ _ _ G) as (Hsch & Hlt & Hr).
      apply (Hc n). apply (ctl_end_cancelled c s s n (fun _ => eq_refl) (fun _ => eq_refl)). intros Hn0. apply Hr. exact Hn0.
    + cbn [forallb guards app outs_guards] in Hg. apply andb_true_iff in Hg. destruct Hg as [G1 _].
      assert (Hr : sd_inline s n = true -> n <> 0 -> st (Jb s n) = Running).
      { intros Hi Hn0. destruct (run_alive_false _ _ _ (sd_thread_inline c s n false lvl G1 Hi)) as (_ & _ & Hr). apply Hr. exact Hn0. }
      apply (Hc n). destruct (ctl_shut c s n d (culprit_of o) Hr) as [H|[_ H]]; auto.
    + cbn [forallb guards app outs_guards] in Hg. apply andb_true_iff in Hg. destruct Hg as [G1 _].
      assert (Hr : sd_inline s n = true -> n <> 0 -> st (Jb s n) = Running).
      { intros Hi Hn0. destruct (run_alive_false _ _ _ (sd_thread_inline c s n false lvl G1 Hi)) as (_ & _ & Hr). apply Hr. exact Hn0. }
      apply (Hc n). destruct (ctl_shtidy c s n (culprit_of o) Hr) as [H|[_ H]]; auto.
  - left. destruct k; cbn [reaction fst] in Es'; rewrite Es' in *.
    + split_guards Hg. destruct (run_alive_true _ _ _ G) as (Hsch & Hlt & Hn0 & Hst & Hcp).
      apply (Hc n). apply ctl_cancel_main; auto.
    + apply (Hc n). left. apply ctl_cancel_tidy.
    + apply (Hc n). left. apply ctl_cancel_ctidy.
    + apply (Hc n). left. apply ctl_cancel_shut.
    + apply (Hc n). left. apply ctl_cancel_shut.
  - left. rewrite Es'. unfold react_sdstart.
    destruct (shutdown_start c n false (setH s n (mkHst HRunning false None))) as [s1 mo] eqn:E.
    assert (E1 : Rn s1 = Rn s).
    { change s1 with (fst (s1, mo)). rewrite <- E, Rn_shutdown_start. reflexivity. }
    cbn [fst]. destruct (sp (Sd s1 n)), (did (Sd s n)); cbn [Rn setH]; rewrite E1; lia.
  - cbn [forallb guards app outs_guards] in Hg. rewrite ?holds_0 in Hg.
    apply andb_true_iff in Hg. destruct Hg as [G Hg]. apply andb_true_iff in Hg. destruct Hg as [G0 Hg].
    apply andb_true_iff in Hg. destruct Hg as [G1 _].
    rewrite Es'. unfold eff_start. rewrite qsz_bump.
    destruct (Nat.eqb_spec p (parent c j)) as [->|Hp]; [|left; cbn; lia].
    right. split; [reflexivity|]. intros Hl. apply (Hl1 _ _ Hl G1).
  - left. rewrite Es'. unfold eff_finish. rewrite qsz_bump. destruct (Nat.eqb_spec p (parent c j)) as [->|Hp]; cbn; lia.
  - left. rewrite Es'. cbn. lia.
  - left. rewrite Es'. unfold eff_cancel_over. rewrite qsz_bump. destruct (Nat.eqb_spec p (parent c j)) as [->|Hp]; cbn; lia.
  - left. rewrite Es'. unfold eff_cancel_over. rewrite qsz_bump. destruct (Nat.eqb_spec p (parent c j)) as [->|Hp]; cbn; lia.
  - left. rewrite Es'. cbn. lia.
  - left. rewrite Es'. cbn. lia.
  - left. rewrite Es'. cbn. lia.
  - left. rewrite Es'. cbn. lia.
  - left. rewrite Es'. cbn. lia.
  - left. rewrite Es'. cbn. lia.
  - left. rewrite Es'. cbn. lia.
  - left. rewrite Es'. cbn. lia.
Qed.

Definition Wb (c : cfg) (s : state) : Prop :=
  forall p, j_window (jc c p) <> 0 -> qsz (Rn s p) <= j_window (jc c p).

Lemma Wb_init c : Wb c init.
Proof. intros p _. cbn. lia. Qed.

Lemma Wb_step lvl c s e s' : wf c = true -> 1 <= lvl -> Wb c s -> step lvl c s e = Some s' -> Wb c s'.
Proof.
  intros W Hl Hb Hs p Hp. destruct (qsz_step lvl c s e s' p W Hs) as [H|[H1 H2]].
  - specialize (Hb p Hp). lia.
  - specialize (H2 Hl). unfold slot_free in H2. cbn zeta in H2.
    apply orb_true_iff in H2. destruct H2 as [H2|H2].
    + apply Nat.eqb_eq in H2. contradiction.
    + apply Nat.ltb_lt in H2. lia.
Qed.

Theorem Wb_reach lvl c h s : wf c = true -> 1 <= lvl -> Reach lvl c h s -> Wb c s.
Proof.
  intros W Hl Hr. revert h s Hr. apply reach_ind.
  - apply Wb_init.
  - intros h s e s' _ Hb Hs. eapply Wb_step; eauto.
Qed.

(* the number of direct jobs of scheduler p that are executing never exceeds its window *)
Theorem window_bound lvl c h s p : wf c = true -> 1 <= lvl -> Reach lvl c h s ->
  j_window (jc c p) <> 0 -> hcount c s p <= j_window (jc c p).
Proof.
  intros W Hl Hr Hp. rewrite <- (Wacc_reach lvl c h s W Hr p). apply (Wb_reach lvl c h s W Hl Hr p Hp).
Qed.

(* ---------- monitor ---------- *)

Definition win_ok (c : cfg) (s : state) (p : nat) : bool :=
  Nat.eqb (j_window (jc c p)) 0 || Nat.leb (hcount c s p) (j_window (jc c p)).

(* after the event, no scheduler has more executing direct jobs than its window allows *)
Definition chk07 (c : cfg) (s : state) (e : event) : bool :=
  forallb (win_ok c (fst (reaction c s e))) (seq 0 (njobs c)).

Theorem chk07_holds lvl c h0 s e s' : wf c = true -> 1 <= lvl ->
  Reach lvl c h0 s -> step lvl c s e = Some s' -> chk07 c s e = true.
Proof.
  intros W Hl Hr Hs. pose proof (reach_snoc _ _ _ _ _ _ Hr Hs) as Hr'.
  destruct (step_inv _ _ _ _ _ Hs) as [Es' _]. unfold chk07. rewrite <- Es'.
  apply forallb_forall. intros p _. unfold win_ok.
  destruct (Nat.eqb_spec (j_window (jc c p)) 0) as [E|E]; [reflexivity|]. cbn [orb].
  apply Nat.leb_le. eapply window_bound; eauto.
Qed.

Theorem chk07_monitor lvl c h : wf c = true -> 1 <= lvl -> accept lvl c h = true -> mon_ok chk07 c h = true.
Proof. intros W Hl. apply RMon.mon_sound. intros h0 s e s' Hr Hs. eapply chk07_holds; eauto. Qed.
