(* Prompt start (C12), trace level: in an unwindowed scheduler each job starts at the very instant
   its last requirement finishes, entry jobs at the instant the run begins.

   RProps4.v states eager start on STATES (whenever the clock is about to move, nobody who could
   start is still waiting).  Here the same fact is stated on HISTORIES: if the clock moved, then
   some events happened, then job x starts, then at the moment the clock moved x could not start
   yet -- its scheduler had not begun its main loop, or one of its requirements was not done. *)
From AJ Require Import Common.Util Run.RModel Run.RFacts Run.RFacts2 Run.RInv Run.RInv3 Run.RInv4 Run.RInv5
  Run.RMon Run.RWin Run.RProps4 Run.RTime.

(* the status "not started yet" *)
Definition waiting (x : jstat) : Prop := x = Idle \/ x = Created.

(* ------------------------------------------------------------------ 1. statuses never go back *)

Lemma waiting_backwards lvl c h0 s e s' x : wf c = true -> Reach lvl c h0 s ->
  step lvl c s e = Some s' -> waiting (st (Jb s' x)) -> waiting (st (Jb s x)).
Proof.
  intros W Hr Hs Hw. pose proof (Inv1_reach lvl c h0 s W Hr) as I.
  destruct (J_effect lvl c s e s' W (i_pend c s I) Hs x)
    as [H|H1 H2|HS H1 H2 H3 H4|H1 H2 H3 H4 H5 H6 H7|H1 H2 H3 H4 H5 H6|HS H1 H2 H3 H4 H5|HS H1 H2 H3 H4 H5|HS H1 H2 H3 H4 H5|HS H1 H2 H3 H4 H5 H6|HS H1 H2|HS H1 H2 H3].
  - (* same *) rewrite H in Hw. exact Hw.
  - (* cancel: the status is kept *) rewrite H1, cancel_j_st in Hw. exact Hw.
  - (* uncp: Running *) rewrite H4 in Hw. cbn in Hw. destruct Hw; discriminate.
  - (* create_main: was Idle *) left. exact H1.
  - (* create_begin: the run of the parent had not begun, so its members were Idle *)
    left. apply (create_begin_idle c s x I H3 H4).
  - (* start: Running *) rewrite H3 in Hw. destruct Hw; discriminate.
  - (* start_done *) rewrite H5 in Hw. cbn in Hw. destruct Hw; discriminate.
  - (* done *) destruct (st (Jb s' x)); cbn in H3; try discriminate; destruct Hw; discriminate.
  - (* hit: Cancelling *) rewrite H4 in Hw. destruct Hw; discriminate.
  - (* cancelled *) rewrite H2 in Hw. cbn in Hw. destruct Hw; discriminate.
  - (* gone: Cancelled *) rewrite H3 in Hw. cbn in Hw. destruct Hw; discriminate.
Qed.

Lemma waiting_backwards_run lvl c h0 s h s' x : wf c = true -> Reach lvl c h0 s ->
  run lvl c s h = Some s' -> waiting (st (Jb s' x)) -> waiting (st (Jb s x)).
Proof.
  intros W. revert h0 s. induction h as [|e h IH]; intros h0 s Hr Hrun Hw.
  - cbn [run] in Hrun. injection Hrun as <-. exact Hw.
  - cbn [run] in Hrun. destruct (step lvl c s e) as [s1|] eqn:Es; [|discriminate].
    apply (waiting_backwards lvl c h0 s e s1 x W Hr Es).
    apply (IH (h0 ++ [e]) s1); [eapply reach_snoc; eauto|exact Hrun|exact Hw].
Qed.

(* ------------------------------------------------------------------ 2. prompt start *)

(* what the guards of a start event say about the job *)
Lemma start_event_created lvl c s e s' x : step lvl c s e = Some s' ->
  (e = EStart x \/ exists o, e = EBegin x o) -> x <> 0 ->
  st (Jb s x) = Created /\ x < njobs c.
Proof.
  intros Hs He Hx0. destruct (step_inv _ _ _ _ _ Hs) as [_ Hg]. destruct He as [->|[o ->]].
  - split_guards Hg. destruct (atomic_id_spec _ _ G) as (_ & A & _). split; [|exact A].
    destruct (st (Jb s x)); try discriminate. reflexivity.
  - split_guards Hg. unfold sched_id in G. apply andb_true_iff in G. destruct G as [_ G].
    apply Nat.ltb_lt in G. split; [|exact G].
    apply rootb_false in Hx0. rewrite Hx0 in G0. destruct (st (Jb s x)); try discriminate. reflexivity.
Qed.

Theorem prompt_start lvl c h1 s1 t h2 s2 e s3 x : wf c = true -> 2 <= lvl ->
  Reach lvl c h1 s1 -> run lvl c s1 (ETick t :: h2) = Some s2 ->
  (e = EStart x \/ exists o, e = EBegin x o) -> x <> 0 ->
  step lvl c s2 e = Some s3 ->
  j_window (jc c (parent c x)) = 0 ->
  ~ (ph (Rn s1 (parent c x)) = PMain /\ forall r, In r (reqs c x) -> is_done (st (Jb s1 r)) = true).
Proof.
  intros W Hl Hr Hrun He Hx0 Hs Hw [Hph Hreq].
  destruct (start_event_created lvl c s2 e s3 x Hs He Hx0) as [Hc Hxl].
  assert (Hw1 : waiting (st (Jb s1 x))).
  { apply (waiting_backwards_run lvl c h1 s1 (ETick t :: h2) s2 x W Hr Hrun). right. exact Hc. }
  cbn [run] in Hrun. destruct (step lvl c s1 (ETick t)) as [s1'|] eqn:Et; [|discriminate].
  destruct (wf_parent c x W Hxl Hx0) as [Hpl Hps].
  assert (Hm : In x (members c (parent c x))) by (apply In_members; auto).
  assert (Hpn : parent c x < njobs c) by lia.
  destruct (unwindowed_started lvl c h1 s1 t s1' (parent c x) x W Hl Hr Et Hps Hpn Hph Hw Hm Hreq) as [A B].
  destruct Hw1; contradiction.
Qed.

(* the same, in positive form: the scheduler of x was not in its main loop when the clock moved
   (so it began later: its phase only goes PIdle -> PMain -> ...), or some requirement of x was
   not done yet (so it finished later: x starts only when all its requirements are done, C01) *)
Corollary prompt_start_cases lvl c h1 s1 t h2 s2 e s3 x : wf c = true -> 2 <= lvl ->
  Reach lvl c h1 s1 -> run lvl c s1 (ETick t :: h2) = Some s2 ->
  (e = EStart x \/ exists o, e = EBegin x o) -> x <> 0 ->
  step lvl c s2 e = Some s3 ->
  j_window (jc c (parent c x)) = 0 ->
  ph (Rn s1 (parent c x)) <> PMain \/
  exists r, In r (reqs c x) /\ is_done (st (Jb s1 r)) = false.
Proof.
  intros W Hl Hr Hrun He Hx0 Hs Hw.
  pose proof (prompt_start lvl c h1 s1 t h2 s2 e s3 x W Hl Hr Hrun He Hx0 Hs Hw) as HN.
  destruct (existsb (fun r => negb (is_done (st (Jb s1 r)))) (reqs c x)) eqn:Ex.
  - right. apply existsb_exists in Ex. destruct Ex as (r & Hr1 & Hr2). exists r.
    apply negb_true_iff in Hr2. auto.
  - left. intros Hph. apply HN. split; [exact Hph|]. intros r Hr1.
    destruct (is_done (st (Jb s1 r))) eqn:Ed; [reflexivity|exfalso].
    assert (Ht : existsb (fun r => negb (is_done (st (Jb s1 r)))) (reqs c x) = true).
    { apply existsb_exists. exists r. rewrite Ed. auto. }
    congruence.
Qed.

(* ------------------------------------------------------------------ 3. the instant *)

Lemma no_tick_same_now lvl c s h s' : wf c = true -> run lvl c s h = Some s' ->
  forallb (fun e => negb (is_tick e)) h = true -> now s' = now s.
Proof.
  intros W. revert s. induction h as [|e h IH]; intros s Hrun Hf.
  - cbn [run] in Hrun. injection Hrun as <-. reflexivity.
  - cbn [run] in Hrun. destruct (step lvl c s e) as [s1|] eqn:Es; [|discriminate].
    cbn [forallb] in Hf. apply andb_true_iff in Hf. destruct Hf as [Hf1 Hf2].
    apply negb_true_iff in Hf1. rewrite (IH s1 Hrun Hf2). apply (now_step lvl c s e s1 W Es Hf1).
Qed.

(* with no tick in h2, the start happens in the instant t opened by the tick *)
Corollary prompt_instant lvl c s1 t h2 s2 : wf c = true ->
  run lvl c s1 (ETick t :: h2) = Some s2 ->
  forallb (fun e => negb (is_tick e)) h2 = true -> now s2 = t.
Proof.
  intros W Hrun Hf. cbn [run] in Hrun.
  destruct (step lvl c s1 (ETick t)) as [s1'|] eqn:Et; [|discriminate].
  rewrite (no_tick_same_now lvl c s1' h2 s2 W Hrun Hf).
  destruct (step_inv _ _ _ _ _ Et) as [-> _]. reflexivity.
Qed.

Print Assumptions prompt_start.
