(* The tidy phases take no time when jobs honour cancellation at once.

   A run that has left its main loop waits for the tasks it has just cancelled (PTidy, PCTidy); a
   shutdown broadcast whose wait has expired waits for the handlers it has just cancelled (SdTidy).
   With [j_cdur = 0] for every job, none of these waits can last: the clock (ETick, which from level
   2 on requires a quiescent state) never moves while one of them is in progress.  Handlers honour
   cancellation at once in the model (EHCancel is enabled as soon as hcp is set), hence no hypothesis
   about them.

   The proof is a variant of [run_stuck]/[sd_stuck] of RProgS.v: an induction down the scheduler
   tree, in a quiescent state, without any hypothesis on the pending deadlines.  One new invariant is
   needed, [InvC]: the deadline of a job that is handling its cancellation is the instant of the hit
   plus [j_cdur], and that instant is not in the future. *)
From AJ Require Import Common.Util Run.RModel Run.RFacts Run.RFacts2 Run.RInv Run.RInv2 Run.RInv3 Run.RInv4 Run.RInv5
  Run.RProps1 Run.RProps3 Run.RWin Run.RProps4 Run.RShut1 Run.RShut2 Run.RTime Run.RInvP Run.RFlip Run.RAdm
  Run.RProgA Run.RProgS.

Definition prompt_cancel (c : cfg) : Prop := forall j, j_cdur (jc c j) = 0%N.

(* ---------- the deadline of a cancellation being handled ---------- *)

Definition InvC (c : cfg) (s : state) : Prop :=
  forall j, st (Jb s j) = Cancelling ->
            exists t0, tend (Jb s j) = Some (t0 + j_cdur (jc c j))%N /\ (t0 <= now s)%N.

Lemma InvC_init c : InvC c init.
Proof. intros j H. discriminate. Qed.

Lemma InvC_step lvl c s e s' : wf c = true -> 2 <= lvl -> Inv1 c s -> InvC c s ->
  step lvl c s e = Some s' -> InvC c s'.
Proof.
  intros W Hl I1 IC Hs j Hst.
  destruct (is_tick e) eqn:Et.
  - destruct (tick_guards lvl c s e s' Hl Hs Et) as (EJ & _ & _ & _ & Hlt & _).
    rewrite EJ in Hst. rewrite EJ. destruct (IC j Hst) as (t0 & E & Hle).
    exists t0. split; [exact E|lia].
  - pose proof (now_step lvl c s e s' W Hs Et) as En. rewrite En.
    destruct (J_effect lvl c s e s' W (i_pend c s I1) Hs j)
      as [H|H1 H2|HS H1 H2 H3 H4 H5|H1 H2 H3 H4 H5 H6 H7|H1 H2 H3 H4 H5 H6|HS H1 H2 H3 H4 H5 H6|HS H1 H2 H3 H4 H5|HS H1 H2 H3 H4 H5 H6|HS H1 H2 H3 H4 H5 H6 H7|HS H1 H2|HS H1 H2 H3].
    + rewrite H in *. apply (IC j Hst).
    + rewrite H1 in *. rewrite cancel_j_st in Hst. rewrite cancel_j_tend. apply (IC j Hst).
    + rewrite H4 in Hst. discriminate.
    + rewrite H2 in Hst. discriminate.
    + rewrite H1 in Hst. discriminate.
    + congruence.
    + rewrite H5 in Hst. discriminate.
    + rewrite Hst in H3. discriminate.
    + exists (now s). split; [exact H7|lia].
    + rewrite H2 in Hst. discriminate.
    + rewrite H3 in Hst. discriminate.
Qed.

Theorem InvC_reach lvl c h s : wf c = true -> 2 <= lvl -> Reach lvl c h s -> InvC c s.
Proof.
  intros W Hl Hr. revert h s Hr. apply reach_ind.
  - apply InvC_init.
  - intros h s e s' Hr IC Hs. eapply InvC_step; eauto. eapply Inv1_reach; eauto.
Qed.

(* ---------- a quiescent state, prompt cancellation ---------- *)

Section Tidy.
  Variables (c : cfg) (h : list event) (s : state).
  Hypothesis W : wf c = true.
  Hypothesis PC : prompt_cancel c.
  Hypothesis Hr : Reach 3 c h s.
  Hypothesis Hq : quiescent c s = true.

  Let IE := InvE_reach 3 c h s W (le_n 3) Hr.
  Let ID := ie_d c s IE.
  Let I8 := ie_8 c s IE.
  Let IC := id_c c s ID.
  Let I1 := ic_1 c s IC.
  Let I5 := ic_5 c s IC.
  Let I6 := ic_6 c s IC.
  Let IT := InvT_reach 3 c h s W (le_S 2 2 (le_n 2)) Hr.
  Let IT3 := InvT3_reach 3 c h s W (le_n 3) Hr.
  Let IM := InvM_reach 3 c h s W Hr.
  Let IP := InvP_reach 3 c h s W Hr.
  Let IQ := InvQ_reach 3 c h s W (le_n 3) Hr.
  Let ICc := InvC_reach 3 c h s W (le_S 2 2 (le_n 2)) Hr.
  Let RCW := rc_wait_reach 3 c h s W (le_n 3) Hr.

  (* the body of an atomic job that is running has no cancellation pending *)
  Lemma tidy_running j : j_sched (jc c j) = false -> st (Jb s j) = Running -> cp (Jb s j) = false.
  Proof.
    intros Ha Hst.
    assert (Hj : j < njobs c) by (apply (t_validj c s IT); rewrite Hst; discriminate).
    pose proof (quiescent_job c s j Hq Hj) as He. unfold job_enabled in He. cbn zeta in He. rewrite Hst, Ha in He.
    apply orb_false_iff in He. tauto.
  Qed.

  (* no job is handling its cancellation: the handler would be over already *)
  Lemma tidy_no_cancelling j : st (Jb s j) <> Cancelling.
  Proof.
    intros Hst.
    assert (Hj : j < njobs c) by (apply (t_validj c s IT); rewrite Hst; discriminate).
    pose proof (quiescent_job c s j Hq Hj) as He. unfold job_enabled in He. cbn zeta in He. rewrite Hst in He.
    apply orb_false_iff in He. destruct He as [_ He2].
    destruct (ICc j Hst) as (t0 & Et & Hle). rewrite Et, (PC j) in He2.
    cbn [opt_le_now] in He2. apply N.leb_gt in He2. lia.
  Qed.

  (* the handler of an atomic job that is running has no cancellation pending *)
  Lemma tidy_hrunning j : j_sched (jc c j) = false -> hs (Hd s j) = HRunning -> hcp (Hd s j) = false.
  Proof.
    intros Ha Hh.
    assert (Hj : j < njobs c) by (apply (t_validh c s IT3); rewrite Hh; discriminate).
    pose proof (quiescent_handler c s j Hq Hj) as He. unfold handler_enabled in He. cbn zeta in He.
    rewrite Hh, Ha in He. apply orb_false_iff in He. tauto.
  Qed.

  (* down the tree: no run is tidying, no broadcast is tidying *)
  Lemma tidy_stuck : forall fuel n, njobs c - n < fuel -> sched_id c n = true ->
    (((exists w, ph (Rn s n) = PTidy w) \/ ph (Rn s n) = PCTidy) -> False) /\
    (sp (Sd s n) = SdTidy -> (exists b, sd_enabled c s n b = false) -> False).
  Proof.
    induction fuel as [|fuel IH]; intros n Hf Hs; [lia|].
    destruct (sched_id_parts c n Hs) as [Hsch Hlt].
    split.
    - (* the run *)
      intros Hp.
      destruct (dead_tidy c s Hq n Hs Hp) as (Hcpn & x & Hx & Hxf).
      assert (Hex : exiting (ph (Rn s n))).
      { destruct Hp as [[w Hp]|Hp]; [left; exists w; exact Hp|right; right; exact Hp]. }
      destruct (d_pend c s I6 n x Hex Hx) as [Hdoom _].
      pose proof (i_pend c s I1 n x Hx) as Hxm.
      pose proof (proj1 (In_members c n x) Hxm) as (Hxl & Hxp & Hx0).
      assert (Hfx : njobs c - x < fuel) by (destruct (wf_parent c x W Hxl Hx0) as [Hpl _]; lia).
      unfold jfin in Hxf. destruct (st (Jb s x)) eqn:Est; try discriminate.
      + apply (b_pend_live c s I5 n x Hx Est).
      + destruct (dead_created c h s W Hr Hq x Est) as [Hcp _].
        destruct Hdoom as [D|[D|[D|(D & _)]]]; congruence.
      + destruct (j_sched (jc c x)) eqn:Exs.
        * pose proof (sched_id_of c x Exs Hxl) as Hxs.
          pose proof (running_active c h s W Hr x Hx0 Exs Est) as Hact.
          destruct (IH x Hfx Hxs) as [IHr IHa].
          destruct Hdoom as [D|[D|[D|(_ & _ & D)]]]; try congruence.
          -- apply (cancel_pending_enabled c s IQ Hq x Hx0 Hxs Hact D).
          -- pose proof (dead_run c s Hq x Hxs) as Hex2. unfold run_enabled in Hex2. cbn zeta in Hex2.
             destruct (ph (Rn s x)) as [| |w|w| |] eqn:Epx.
             ++ destruct Hact as [A _]. apply A. reflexivity.
             ++ destruct D as [D|D]; [discriminate|]. rewrite (IM x Epx) in D. discriminate.
             ++ apply IHr. left. exists w. reflexivity.
             ++ destruct D as [D|D]; [discriminate|].
                assert (Hin : sd_inline s x = true) by (unfold sd_inline; rewrite Epx; reflexivity).
                destruct (q_inl c s IQ x Hin) as [E|E].
                ** rewrite (RCW x Hin E) in D. discriminate.
                ** apply IHa; [exact E|]. eexists. exact Hex2.
             ++ apply IHr. right. reflexivity.
             ++ destruct Hact as [_ A]. apply A. reflexivity.
        * pose proof (tidy_running x Exs Est) as Hcp.
          destruct Hdoom as [D|[D|[D|(_ & D & _)]]]; congruence.
      + apply (tidy_no_cancelling x Est).
    - (* the broadcast *)
      intros Ht [b He].
      assert (Ha : sd_active (sp (Sd s n))) by (right; exact Ht).
      pose proof (active_did c s n I8 Ha) as Hdid.
      destruct (dead_sd_tidy c s n b Ht He) as (_ & z & Hz & Hzf).
      pose proof (k_spend c s I8 n z Hz) as Hzm.
      pose proof (proj1 (In_members c n z) Hzm) as (Hzl & Hzp & Hz0).
      pose proof (k_some c s I8 n z Hzm Hdid) as Hnn.
      assert (Hfz : njobs c - z < fuel) by (destruct (wf_parent c z W Hzl Hz0) as [Hpl _]; lia).
      destruct (q_spcp c s IQ n z Ht Hz) as [Hfz2|[Hcz|(Ezs & Ehz & Etz & _)]]; [congruence| |].
      2:{ (* z has consumed the cancellation and is tidying its own handlers *)
          pose proof (quiescent_sdtask c s z Hq Hzl Ezs) as Hez. unfold sdtask_enabled in Hez. rewrite Ehz in Hez.
          destruct (IH z Hfz (sched_id_of c z Ezs Hzl)) as [_ IHa].
          apply IHa; [exact Etz|]. exists (hcp (Hd s z)). exact Hez. }
      unfold hfin in Hzf. destruct (hs (Hd s z)) eqn:Ehz; try discriminate.
      + contradiction.
      + apply (dead_no_hcreated c h s W Hr Hq z Ehz).
      + destruct (j_sched (jc c z)) eqn:Ezs.
        * destruct (q_hrun c s IQ z Ezs Ehz) as [Haz Hiz].
          pose proof (quiescent_sdtask c s z Hq Hzl Ezs) as Hez. unfold sdtask_enabled in Hez. rewrite Ehz, Hcz in Hez.
          unfold sd_enabled in Hez. cbn zeta in Hez. destruct Haz as [E|E]; rewrite E in Hez; discriminate.
        * pose proof (tidy_hrunning z Ezs Ehz) as Hc. congruence.
  Qed.

  (* the thread of a broadcast that is tidying is not enabled *)
  Lemma tidy_thread n : sched_id c n = true -> sp (Sd s n) = SdTidy -> exists b, sd_enabled c s n b = false.
  Proof.
    intros Hs Ht. destruct (sched_id_parts c n Hs) as [Hsch Hlt].
    destruct (k_thread c s I8 n (or_intror Ht)) as [Hi|Hh].
    - pose proof (dead_run c s Hq n Hs) as He. unfold run_enabled in He. cbn zeta in He.
      unfold sd_inline in Hi. destruct (ph (Rn s n)); try discriminate. eexists. exact He.
    - pose proof (quiescent_sdtask c s n Hq Hlt Hsch) as He. unfold sdtask_enabled in He. rewrite Hh in He.
      eexists. exact He.
  Qed.
End Tidy.

(* ---------- the theorems ---------- *)

Theorem tidy_takes_no_time c h s : wf c = true -> prompt_cancel c -> Reach 3 c h s ->
  quiescent c s = true ->
  (forall n, sched_id c n = true -> (forall w, ph (Rn s n) <> PTidy w) /\ ph (Rn s n) <> PCTidy) /\
  (forall n, sched_id c n = true -> sp (Sd s n) <> SdTidy).
Proof.
  intros W PC Hr Hq. split; intros n Hs.
  - destruct (tidy_stuck c h s W PC Hr Hq (S (njobs c)) n ltac:(lia) Hs) as [A _]. split.
    + intros w E. apply A. left. exists w. exact E.
    + intros E. apply A. right. exact E.
  - intros E. destruct (tidy_stuck c h s W PC Hr Hq (S (njobs c)) n ltac:(lia) Hs) as [_ B].
    apply B; [exact E|]. apply (tidy_thread c h s W Hr Hq n Hs E).
Qed.

(* corollary: the instants of a run.  With prompt cancellation, from the wake that leaves the main loop
   (critical failure, timeout, or last job finished) to the beginning of the shutdown wait, and from
   the expiry of the shutdown wait to the end of the run, no time passes. *)
Corollary no_tick_while_tidying c h s t s' : wf c = true -> prompt_cancel c -> Reach 3 c h s ->
  step 3 c s (ETick t) = Some s' ->
  forall n, sched_id c n = true ->
    (forall w, ph (Rn s n) <> PTidy w) /\ ph (Rn s n) <> PCTidy /\ sp (Sd s n) <> SdTidy.
Proof.
  intros W PC Hr Hs n Hn.
  destruct (tick_guards 3 c s (ETick t) s' (le_S 2 2 (le_n 2)) Hs eq_refl) as (_ & _ & _ & _ & _ & Hq & _).
  destruct (tidy_takes_no_time c h s W PC Hr Hq) as [A B].
  destruct (A n Hn) as [A1 A2]. split; [exact A1|]. split; [exact A2|]. apply (B n Hn).
Qed.

Print Assumptions tidy_takes_no_time.
Print Assumptions no_tick_while_tidying.
