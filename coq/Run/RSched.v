(* The closed form of C10/C12: in a plain tree (no window, no timeout, no forever job, handlers that
   take no time), as long as no critical job has reached the instant at which it raises, every job
   -- atomic or nested scheduler -- starts and ends exactly at the instants given by the schedule
   equations [is_schedule] of RSchedDef.v.

   The development is done for trees WITH timeouts that the schedule does not reach ([plainT] and
   [slack], C08: a timeout that is longer than the run of its scheduler has no effect, the delay
   being counted from the beginning of that scheduler's own run); the statements about [plain]
   trees (no timeout at all) are corollaries.

   Third generalisation: shutdown handlers that take time ([plainH], [is_scheduleH], [slackH]): a
   scheduler ends [shut_len] after the end M of its main loop (M = the latest of its beginning and
   of the ends of its jobs), so the jobs that require a nested scheduler start later.  The
   statements about handlers that take no time ([plainT], [is_schedule], [slack]) are corollaries:
   there [shut_len] is 0 and the two systems of equations coincide. *)
From AJ Require Import Common.Util Run.RModel Run.RFacts Run.RFacts2 Run.RInv Run.RInv2 Run.RInv3 Run.RInv4
  Run.RInv5 Run.RProps1 Run.RProps3 Run.RWin Run.RProps4 Run.RShut1 Run.RShut2 Run.RTime Run.RInvP Run.RExc
  Run.RProgA Run.RFlat Run.RSchedDef.

(* ------------------------------------------------------------------ maxl *)

Lemma maxl_ge_base a l : (a <= maxl a l)%N.
Proof. unfold maxl. induction l as [|x l IH]; cbn [fold_right]; lia. Qed.

Lemma maxl_ge_in a l x : In x l -> (x <= maxl a l)%N.
Proof.
  unfold maxl. induction l as [|y l IH]; intros Hx; [destruct Hx|].
  cbn [fold_right]. destruct Hx as [->|Hx]; [lia|]. specialize (IH Hx). lia.
Qed.

Lemma maxl_le a l b : (a <= b)%N -> (forall x, In x l -> (x <= b)%N) -> (maxl a l <= b)%N.
Proof.
  unfold maxl. intros Ha. induction l as [|y l IH]; intros Hl; cbn [fold_right]; [exact Ha|].
  assert (H1 : (y <= b)%N) by (apply Hl; left; reflexivity).
  assert (H2 : (fold_right N.max a l <= b)%N) by (apply IH; intros x Hx; apply Hl; right; exact Hx).
  lia.
Qed.

(* ------------------------------------------------------------------ the schedule equations *)

(* the end of the main loop of scheduler x: its beginning, or the end of its last job *)
Definition Mx (c : cfg) (Sb Ef : nat -> N) (x : nat) : N := maxl (Sb x) (map Ef (members c x)).

Lemma shut_len_le_d c n : (shut_len c n <= maxl 0%N (map (sdurN c) (members c n)))%N.
Proof. unfold shut_len. destruct (j_sdto (jc c n)); lia. Qed.

Lemma shut_len_le_to c n t : j_sdto (jc c n) = Some t -> (shut_len c n <= t)%N.
Proof. intros H. unfold shut_len. rewrite H. lia. Qed.

Lemma shut_len_empty c n : members c n = [] -> shut_len c n = 0%N.
Proof. intros H. unfold shut_len. rewrite H. cbn. destruct (j_sdto (jc c n)); lia. Qed.

Section Schedule.
  Variables (c : cfg) (Sb Ef : nat -> N).
  Hypothesis W : wf c = true.
  Hypothesis HS : is_scheduleH c Sb Ef.

  Lemma Sb_root : Sb 0 = 0%N.
  Proof. destruct HS as [H _]. exact H. Qed.

  Lemma Sb_eq x : x < njobs c -> x <> 0 -> Sb x = maxl (Sb (parent c x)) (map Ef (reqs c x)).
  Proof. intros Hx H0. destruct HS as [_ H]. destruct (H x Hx) as (A & _). auto. Qed.

  Lemma Ef_atomic x : x < njobs c -> j_sched (jc c x) = false -> Ef x = (Sb x + durN c x)%N.
  Proof. intros Hx Ha. destruct HS as [_ H]. destruct (H x Hx) as (_ & A & _). auto. Qed.

  Lemma Ef_sched x : x < njobs c -> j_sched (jc c x) = true -> Ef x = (Mx c Sb Ef x + shut_len c x)%N.
  Proof. intros Hx Ha. destruct HS as [_ H]. destruct (H x Hx) as (_ & _ & A). unfold Mx. auto. Qed.

  Lemma Mx_ge_Sb x : (Sb x <= Mx c Sb Ef x)%N.
  Proof. apply maxl_ge_base. Qed.

  Lemma Mx_ge_member x m : In m (members c x) -> (Ef m <= Mx c Sb Ef x)%N.
  Proof. intros Hm. apply maxl_ge_in. apply in_map. exact Hm. Qed.

  Lemma Mx_le x b : (Sb x <= b)%N -> (forall m, In m (members c x) -> (Ef m <= b)%N) -> (Mx c Sb Ef x <= b)%N.
  Proof.
    intros Hb Hm. apply maxl_le; [exact Hb|].
    intros y Hy. apply in_map_iff in Hy. destruct Hy as (m & <- & Hin). apply Hm. exact Hin.
  Qed.

  Lemma Mx_le_Ef x : x < njobs c -> j_sched (jc c x) = true -> (Mx c Sb Ef x <= Ef x)%N.
  Proof. intros Hx Hs. rewrite (Ef_sched x Hx Hs). lia. Qed.

  Lemma Sb_ge_parent x : x < njobs c -> x <> 0 -> (Sb (parent c x) <= Sb x)%N.
  Proof. intros Hx H0. rewrite (Sb_eq x Hx H0). apply maxl_ge_base. Qed.

  Lemma Sb_ge_req x r : x < njobs c -> x <> 0 -> In r (reqs c x) -> (Ef r <= Sb x)%N.
  Proof. intros Hx H0 Hr. rewrite (Sb_eq x Hx H0). apply maxl_ge_in. apply in_map. exact Hr. Qed.

  Lemma Sb_le x b : x < njobs c -> x <> 0 -> (Sb (parent c x) <= b)%N ->
    (forall r, In r (reqs c x) -> (Ef r <= b)%N) -> (Sb x <= b)%N.
  Proof.
    intros Hx H0 Hp Hr. rewrite (Sb_eq x Hx H0). apply maxl_le; [exact Hp|].
    intros y Hy. apply in_map_iff in Hy. destruct Hy as (r & <- & Hin). apply Hr. exact Hin.
  Qed.

  Lemma Ef_ge_Sb x : x < njobs c -> (Sb x <= Ef x)%N.
  Proof.
    intros Hx. destruct (j_sched (jc c x)) eqn:Es.
    - pose proof (Mx_le_Ef x Hx Es). pose proof (Mx_ge_Sb x). lia.
    - rewrite (Ef_atomic x Hx Es). lia.
  Qed.

  Lemma Ef_ge_member x m : x < njobs c -> j_sched (jc c x) = true -> In m (members c x) -> (Ef m <= Ef x)%N.
  Proof. intros Hx Hs Hm. pose proof (Mx_le_Ef x Hx Hs). pose proof (Mx_ge_member x m Hm). lia. Qed.
End Schedule.

(* ------------------------------------------------------------------ plain trees *)

Section Plain.
  Variable c : cfg.
  Hypothesis P : plainH c = true.

  Lemma plain_job_of x : x < njobs c -> plainH_job c x = true.
  Proof. intros Hx. unfold plainH in P. rewrite forallb_forall in P. apply P. apply In_all_ids. exact Hx. Qed.

  Lemma plain_sched n : n < njobs c -> j_sched (jc c n) = true ->
    j_window (jc c n) = 0 /\ (n <> 0 -> j_forever (jc c n) = false).
  Proof.
    intros Hn Hs. pose proof (plain_job_of n Hn) as H. unfold plainH_job in H. rewrite Hs in H.
    rewrite !andb_true_iff in H. destruct H as [H1 H3].
    apply Nat.eqb_eq in H1. split; [exact H1|].
    - intros H0. apply orb_true_iff in H3. destruct H3 as [H3|H3].
      + apply Nat.eqb_eq in H3. contradiction.
      + apply negb_true_iff in H3. exact H3.
  Qed.

  Lemma plain_atomic x : x < njobs c -> j_sched (jc c x) = false ->
    (exists d, j_dur (jc c x) = Some d) /\ j_forever (jc c x) = false /\ (exists d, j_sdur (jc c x) = Some d).
  Proof.
    intros Hx Hs. pose proof (plain_job_of x Hx) as H. unfold plainH_job in H. rewrite Hs in H.
    rewrite !andb_true_iff in H. destruct H as [[H1 H2] H3].
    split; [destruct (j_dur (jc c x)) as [d|]; [exists d; reflexivity|discriminate]|].
    split; [apply negb_true_iff in H2; exact H2|].
    destruct (j_sdur (jc c x)) as [d|]; [exists d; reflexivity|discriminate].
  Qed.

  Lemma plain_not_forever x : x < njobs c -> x <> 0 -> j_forever (jc c x) = false.
  Proof.
    intros Hx H0. destruct (j_sched (jc c x)) eqn:Es.
    - destruct (plain_sched x Hx Es) as (_ & H). auto.
    - destruct (plain_atomic x Hx Es) as (_ & H & _). exact H.
  Qed.

  Lemma nonforever_members l n : (forall x, In x l -> In x (members c n)) -> nonforever c l = length l.
  Proof.
    intros Hl. unfold nonforever. induction l as [|a l IH]; [reflexivity|].
    cbn [filter]. assert (Ha : In a (members c n)) by (apply Hl; left; reflexivity).
    apply In_members in Ha. destruct Ha as (Ha & _ & Ha0).
    rewrite (plain_not_forever a Ha Ha0). cbn [negb length]. f_equal. apply IH.
    intros x Hx. apply Hl. right. exact Hx.
  Qed.

  Lemma nfinite_members n : nfinite c n = length (members c n).
  Proof. unfold nfinite. apply (nonforever_members _ n). auto. Qed.

  (* a scheduler on its way out through the exit "success" has seen all its jobs *)
  Lemma succ_all_seen s n : Inv1 c s -> Inv5 c s -> ph_succ (ph (Rn s n)) ->
    forall x, In x (members c n) -> In x (seen (Rn s n)) /\ is_done (st (Jb s x)) = true.
  Proof.
    intros I1 I5 Hp.
    assert (Hc : ph_counts (ph (Rn s n))).
    { unfold ph_counts, ph_nocrit. destruct Hp as [H|H]; rewrite H; auto. }
    pose proof (b_succ c s I5 n Hp) as H1. pose proof (b_count c s I5 n Hc) as H2.
    assert (Hsub : forall x, In x (seen (Rn s n)) -> In x (members c n)).
    { intros x Hx. apply (b_seen_done c s I5 n x Hx). }
    rewrite (nonforever_members _ n Hsub) in H2. rewrite nfinite_members in H1.
    assert (Hincl : incl (members c n) (seen (Rn s n))).
    { apply NoDup_length_incl; [apply (b_seen_nd c s I5)|lia|exact Hsub]. }
    intros x Hx. pose proof (Hincl x Hx) as Hs. split; [exact Hs|]. apply (b_seen_done c s I5 n x Hs).
  Qed.

  Lemma succ_no_pend s n : Inv1 c s -> Inv5 c s -> ph_succ (ph (Rn s n)) -> pend (Rn s n) = [].
  Proof.
    intros I1 I5 Hp. destruct (pend (Rn s n)) as [|x l] eqn:Ep; [reflexivity|exfalso].
    assert (Hx : In x (pend (Rn s n))) by (rewrite Ep; left; reflexivity).
    apply (b_disj c s I5 n x Hx). apply (succ_all_seen s n I1 I5 Hp). apply (i_pend c s I1 n x Hx).
  Qed.
End Plain.

(* a tree without timeouts is a tree whose timeouts are not reached *)
Lemma plain_plainT c : plain c = true -> plainT c = true.
Proof.
  unfold plain, plainT. rewrite !forallb_forall. intros H x Hx. specialize (H x Hx).
  unfold plain_job in H. unfold plainT_job. destruct (j_sched (jc c x)); [|exact H].
  rewrite !andb_true_iff in H. destruct H as [[H1 _] H3]. rewrite H1, H3. reflexivity.
Qed.

Lemma plain_no_timeout c n : plain c = true -> n < njobs c -> j_sched (jc c n) = true -> j_timeout (jc c n) = None.
Proof.
  intros P Hn Hs. unfold plain in P. rewrite forallb_forall in P. specialize (P n (proj2 (In_all_ids c n) Hn)).
  unfold plain_job in P. rewrite Hs in P. rewrite !andb_true_iff in P. destruct P as [[_ H] _].
  destruct (j_timeout (jc c n)); [discriminate|reflexivity].
Qed.

Lemma plain_slack c Sb Ef : plain c = true -> slack c Sb Ef.
Proof. intros P n T Hn Hs Ht. rewrite (plain_no_timeout c n P Hn Hs) in Ht. discriminate. Qed.

(* handlers that take no time are handlers that take some finite time *)
Lemma plainT_plainH c : plainT c = true -> plainH c = true.
Proof.
  unfold plainT, plainH. rewrite !forallb_forall. intros H x Hx. specialize (H x Hx).
  unfold plainT_job in H. unfold plainH_job. destruct (j_sched (jc c x)); [exact H|].
  rewrite !andb_true_iff in H. destruct H as [[H1 H2] H3]. rewrite H1, H2. cbn [andb].
  destruct (j_sdur (jc c x)); [reflexivity|discriminate].
Qed.

Lemma maxl_zero l : (forall x, In x l -> x = 0%N) -> maxl 0%N l = 0%N.
Proof.
  unfold maxl. induction l as [|a l IH]; intros H; [reflexivity|]. cbn [fold_right].
  rewrite (H a (or_introl eq_refl)), IH; [reflexivity|]. intros x Hx. apply H. right. exact Hx.
Qed.

(* ... and then the shutdown phase of every scheduler takes no time *)
Lemma shut_len_plainT c n : plainT c = true -> shut_len c n = 0%N.
Proof.
  intros P. assert (Hd : maxl 0%N (map (sdurN c) (members c n)) = 0%N).
  { apply maxl_zero. intros y Hy. apply in_map_iff in Hy. destruct Hy as (x & <- & Hx).
    apply In_members in Hx. destruct Hx as (Hx & _).
    unfold plainT in P. rewrite forallb_forall in P. specialize (P x (proj2 (In_all_ids c x) Hx)).
    unfold plainT_job in P. unfold sdurN. destruct (j_sched (jc c x)); [reflexivity|].
    rewrite !andb_true_iff in P. destruct P as [_ P]. destruct (j_sdur (jc c x)) as [[|p]|]; try discriminate. reflexivity. }
  unfold shut_len. rewrite Hd. destruct (j_sdto (jc c n)); lia.
Qed.

Lemma plain_scheduleH c S E : plainT c = true -> (is_schedule c S E <-> is_scheduleH c S E).
Proof.
  intros P. unfold is_schedule, is_scheduleH. split; intros [H0 H]; (split; [exact H0|]); intros x Hx;
    destruct (H x Hx) as (A & B & C); (split; [exact A|]); (split; [exact B|]); intros Hs;
    rewrite (C Hs), (shut_len_plainT c x P); lia.
Qed.

Lemma slack_slackH c S E : is_schedule c S E -> slack c S E -> slackH c S E.
Proof.
  intros [_ H] SL n T Hn Hs HT. destruct (H n Hn) as (_ & _ & C). rewrite <- (C Hs). apply (SL n T Hn Hs HT).
Qed.

Lemma slackb_sound c lS lE : slackb c lS lE = true -> slack c (tab lS) (tab lE).
Proof.
  unfold slackb. rewrite forallb_forall. intros H n T Hn Hs Ht.
  specialize (H n (proj2 (In_all_ids c n) Hn)). rewrite Hs, Ht in H. cbn [negb orb] in H.
  apply N.ltb_lt. exact H.
Qed.

(* ------------------------------------------------------------------ the invariant *)

(* the phases a run goes through when nothing is cancelled, nothing times out and no critical job
   fails *)
Definition okph (p : phase) : Prop :=
  p = PIdle \/ p = PMain \/ p = PTidy WSuccess \/ p = PShut WSuccess \/ p = POver.

Definition idle_all (s : state) : Prop :=
  (forall x, st (Jb s x) = Idle) /\ (forall n, ph (Rn s n) = PIdle) /\
  (forall x, Hd s x = init_h) /\ (forall n, Sd s n = init_s).

(* the shutdown wait of n, which began at M with delay j_sdto, has expired *)
Definition late (c : cfg) (M : N) (s : state) (n : nat) : Prop :=
  exists t, j_sdto (jc c n) = Some t /\ (M + t <= now s)%N.

(* the handler of the atomic job x of n, the shutdown of n having begun at M: it started at M, ends
   at M + its duration, and is cancelled only once the shutdown wait has expired *)
Definition hd_ok (c : cfg) (M : N) (s : state) (n x : nat) : Prop :=
  match hs (Hd s x) with
  | HNone => True
  | HCreated => now s = M
  | HRunning => hend (Hd s x) = Some (M + sdurN c x)%N /\ (hcp (Hd s x) = true -> late c M s n)
  | HDone => (M + sdurN c x <= now s)%N
  | HCancelled => late c M s n
  end.

(* the inline shutdown phase of n: it begins at M, the end of the main loop, and lasts shut_len *)
Definition shut_ok (c : cfg) (Sb Ef : nat -> N) (s : state) (n : nat) : Prop :=
  let M := Mx c Sb Ef n in
  (M <= now s)%N /\ (now s <= M + shut_len c n)%N /\
  (sp (Sd s n) = SdWait -> sdl (Sd s n) = optN_add M (j_sdto (jc c n))) /\
  (sp (Sd s n) = SdTidy -> late c M s n) /\
  (forall x, In x (members c n) -> j_sched (jc c x) = false -> hd_ok c M s n x).

Record Sch (c : cfg) (Sb Ef : nat -> N) (s : state) : Prop := {
  s_job : forall x, x < njobs c -> x <> 0 -> on_schedule c Sb Ef s x;
  s_cp : forall x, cp (Jb s x) = false;
  s_rc : forall n, rcanc (Rn s n) = false;
  s_ph : forall n, okph (ph (Rn s n));
  s_root_idle : ph (Rn s 0) = PIdle -> idle_all s /\ now s = 0%N;
  s_root_over : ph (Rn s 0) = POver -> (Ef 0%nat <= now s)%N;
  s_over_done : forall n x, ph (Rn s n) = POver -> In x (members c n) -> is_done (st (Jb s x)) = true;
  s_over_did : forall n, ph (Rn s n) = POver -> did (Sd s n) = true \/ members c n = [];
  s_hr : forall n, j_sched (jc c n) = true -> hs (Hd s n) <> HRunning;
  s_did : forall n, did (Sd s n) = true -> ph (Rn s n) <> PIdle;
  s_nce : forall x, crit_exc c s x = false;
  (* timeouts: the expiration of a run is counted from its own beginning, and the root does not
     outlive its schedule while in its main loop (nested schedulers: by s_job) *)
  s_expi : forall n, ph (Rn s n) = PMain -> expi (Rn s n) = optN_add (Sb n) (j_timeout (jc c n));
  s_mainM : forall n, n < njobs c -> j_sched (jc c n) = true ->
            ph (Rn s n) = PMain \/ ph (Rn s n) = PTidy WSuccess -> (now s <= Mx c Sb Ef n)%N;
  s_shut : forall n, ph (Rn s n) = PShut WSuccess -> shut_ok c Sb Ef s n
}.

Lemma idle_all_init : idle_all init.
Proof. repeat split. Qed.

Lemma Sch_init c Sb Ef : Sb 0 = 0%N -> Sch c Sb Ef init.
Proof.
  intros H0. split; cbn; try reflexivity; try discriminate; try (intros; discriminate).
  - intros x _ _. unfold on_schedule. cbn. lia.
  - intros n. left. reflexivity.
  - intros _. split; [apply idle_all_init|reflexivity].
  - intros x. unfold crit_exc. cbn. apply andb_false_r.
  - intros n _ _ [H|H]; discriminate.
Qed.

(* the standard invariants of a reachable state, in one bundle *)
Record Std (c : cfg) (s : state) : Prop := {
  sd_E : InvE c s; sd_2 : Inv2 c s; sd_T : InvT c s; sd_T3 : InvT3 c s;
  sd_P : InvP c s; sd_Q : InvQ c s; sd_H : InvH c s; sd_TO : InvTO c s
}.

Lemma Std_reach c h s : wf c = true -> Reach 3 c h s -> Std c s.
Proof.
  intros W Hr. split.
  - apply (InvE_reach 3 c h s W (le_n 3) Hr).
  - apply (i12_2 c s (Inv12_reach 3 c h s W Hr)).
  - apply (InvT_reach 3 c h s W); [lia|exact Hr].
  - apply (InvT3_reach 3 c h s W (le_n 3) Hr).
  - apply (InvP_reach 3 c h s W Hr).
  - apply (InvQ_reach 3 c h s W (le_n 3) Hr).
  - apply (InvH_reach 3 c h s W (le_n 3) Hr).
  - apply (InvTO_reach 3 c h s W Hr).
Qed.

Lemma sched_id_iff c n : sched_id c n = true <-> j_sched (jc c n) = true /\ n < njobs c.
Proof. unfold sched_id. rewrite andb_true_iff, Nat.ltb_lt. tauto. Qed.

Lemma flat_map_nil (A B : Type) (f : A -> list B) l : (forall x, In x l -> f x = []) -> flat_map f l = [].
Proof.
  induction l as [|a l IH]; intros H; [reflexivity|]. cbn [flat_map].
  rewrite (H a (or_introl eq_refl)), IH; [reflexivity|]. intros x Hx. apply H. right. exact Hx.
Qed.

Lemma idle_no_deadlines c s : idle_all s -> deadlines c s = [].
Proof.
  intros (HJ & HR & HH & HS). unfold deadlines.
  rewrite flat_map_nil, flat_map_nil; [reflexivity| |].
  - intros n _. rewrite HR, HS. reflexivity.
  - intros j _. rewrite HJ, HH. reflexivity.
Qed.

(* ------------------------------------------------------------------ facts of a state on schedule *)

Section State.
  Variables (c : cfg) (Sb Ef : nat -> N) (s : state).
  Hypothesis W : wf c = true.
  Hypothesis P : plainH c = true.
  Hypothesis HS : is_scheduleH c Sb Ef.
  Hypothesis SD : Std c s.
  Hypothesis SC : Sch c Sb Ef s.

  Let IE := sd_E c s SD.
  Let ID := ie_d c s IE.
  Let I8 := ie_8 c s IE.
  Let IC := id_c c s ID.
  Let I1 := ic_1 c s IC.
  Let I3 := ic_3 c s IC.
  Let I4 := ic_4 c s IC.
  Let I5 := ic_5 c s IC.
  Let I2 := sd_2 c s SD.
  Let IT := sd_T c s SD.
  Let IT3 := sd_T3 c s SD.
  Let IP := sd_P c s SD.
  Let IQ := sd_Q c s SD.

  Lemma not_cancelled x : x < njobs c -> x <> 0 -> st (Jb s x) <> Cancelling /\ st (Jb s x) <> Cancelled.
  Proof.
    intros Hx H0. pose proof (s_job c Sb Ef s SC x Hx H0) as H. unfold on_schedule in H.
    split; intro E; rewrite E in H; exact H.
  Qed.

  Lemma st_cases x : x < njobs c -> x <> 0 ->
    st (Jb s x) = Idle \/ st (Jb s x) = Created \/ st (Jb s x) = Running \/ is_done (st (Jb s x)) = true.
  Proof.
    intros Hx H0. destruct (not_cancelled x Hx H0) as [A B].
    destruct (st (Jb s x)); auto; contradiction.
  Qed.

  (* a nested scheduler that is done as a job has a run that is over *)
  Lemma done_over n : n <> 0 -> j_sched (jc c n) = true -> is_done (st (Jb s n)) = true -> ph (Rn s n) = POver.
  Proof.
    intros H0 Hs Hd.
    assert (Hran : ran (Jb s n) = true) by (apply (i_ran1 c s I2); auto).
    destruct (phase_eq_dec (ph (Rn s n)) POver) as [E|E]; [exact E|exfalso].
    destruct (phase_eq_dec (ph (Rn s n)) PIdle) as [E1|E1].
    - rewrite (k_idle c s I3 n H0 Hs E1) in Hran. discriminate.
    - rewrite (k_act c s I3 n H0 Hs E1 E) in Hd. discriminate.
  Qed.

  Lemma idle_unstarted n : n < njobs c -> n <> 0 -> j_sched (jc c n) = true -> ph (Rn s n) = PIdle ->
    st (Jb s n) = Idle \/ st (Jb s n) = Created.
  Proof.
    intros Hn H0 Hs Hp. pose proof (k_idle c s I3 n H0 Hs Hp) as Hran.
    destruct (st_cases n Hn H0) as [A|[A|[A|A]]]; auto; exfalso.
    - rewrite (i_ran1 c s I2 n) in Hran; [discriminate|auto].
    - rewrite (i_ran1 c s I2 n) in Hran; [discriminate|auto].
  Qed.

  Lemma running_main_or_exit n : n <> 0 -> j_sched (jc c n) = true -> st (Jb s n) = Running ->
    ph (Rn s n) = PMain \/ ph (Rn s n) = PTidy WSuccess \/ ph (Rn s n) = PShut WSuccess.
  Proof.
    intros H0 Hs Hst. destruct (s_ph c Sb Ef s SC n) as [E|[E|[E|[E|E]]]]; auto; exfalso.
    - pose proof (k_idle c s I3 n H0 Hs E) as Hran. rewrite (i_ran1 c s I2 n) in Hran; [discriminate|auto].
    - destruct (k_over c s I3 n H0 Hs E) as [Hf _]. rewrite Hst in Hf. discriminate.
  Qed.

  (* the three phase clauses *)
  Lemma begun_Sb n : n < njobs c -> j_sched (jc c n) = true -> ph (Rn s n) <> PIdle -> (Sb n <= now s)%N.
  Proof.
    intros Hn Hs Hp. destruct (Nat.eq_dec n 0) as [->|H0]; [rewrite (Sb_root c Sb Ef HS); lia|].
    pose proof (s_job c Sb Ef s SC n Hn H0) as H. unfold on_schedule in H.
    pose proof (Ef_ge_Sb c Sb Ef HS n Hn) as Hle.
    destruct (st (Jb s n)) eqn:Est; try lia; try contradiction;
      exfalso; apply Hp; apply (i_l1 c s I1 n H0); rewrite Est; auto.
  Qed.

  Lemma idle_Sb n : n < njobs c -> j_sched (jc c n) = true -> ph (Rn s n) = PIdle -> (now s <= Sb n)%N.
  Proof.
    intros Hn Hs Hp. destruct (Nat.eq_dec n 0) as [->|H0].
    - destruct (s_root_idle c Sb Ef s SC Hp) as [_ E]. rewrite E. lia.
    - pose proof (s_job c Sb Ef s SC n Hn H0) as H. unfold on_schedule in H.
      destruct (idle_unstarted n Hn H0 Hs Hp) as [E|E]; rewrite E in H; exact H.
  Qed.

  Lemma over_Ef n : n < njobs c -> j_sched (jc c n) = true -> ph (Rn s n) = POver -> (Ef n <= now s)%N.
  Proof.
    intros Hn Hs Hp. destruct (Nat.eq_dec n 0) as [->|H0]; [apply (s_root_over c Sb Ef s SC Hp)|].
    pose proof (s_job c Sb Ef s SC n Hn H0) as H. unfold on_schedule in H.
    destruct (k_over c s I3 n H0 Hs Hp) as [Hf _].
    destruct (st (Jb s n)); try discriminate; try exact H; contradiction.
  Qed.

  Lemma done_Ef x : x < njobs c -> x <> 0 -> is_done (st (Jb s x)) = true -> (Ef x <= now s)%N.
  Proof.
    intros Hx H0 Hd. pose proof (s_job c Sb Ef s SC x Hx H0) as H. unfold on_schedule in H.
    destruct (st (Jb s x)); try discriminate; exact H.
  Qed.

  (* members of a scheduler that has left its main loop are done *)
  Lemma exit_members_done n x : ph (Rn s n) = PTidy WSuccess \/ ph (Rn s n) = PShut WSuccess \/ ph (Rn s n) = POver ->
    In x (members c n) -> is_done (st (Jb s x)) = true.
  Proof.
    intros [E|[E|E]] Hx.
    - apply (succ_all_seen c P s n I1 I5); [left; exact E|exact Hx].
    - apply (succ_all_seen c P s n I1 I5); [right; exact E|exact Hx].
    - apply (s_over_done c Sb Ef s SC n x E Hx).
  Qed.

  (* a nested scheduler that has a handler task is over *)
  Lemma handler_over x : x <> 0 -> j_sched (jc c x) = true -> hs (Hd s x) <> HNone -> ph (Rn s x) = POver.
  Proof.
    intros H0 Hs Hh.
    assert (Hx : x < njobs c) by (apply (t_validh c s IT3); exact Hh).
    destruct (handler_quiet c s x W ID I8 H0 Hx Hh) as (Hd & _ & _).
    assert (Hm : In x (members c (parent c x))) by (apply In_members; auto).
    apply (done_over x H0 Hs). apply (exit_members_done (parent c x) x); [|exact Hm].
    destruct (k_phase c s I8 _ Hd) as [Hi|[Ho|(Hp & _)]].
    - unfold sd_inline in Hi. destruct (s_ph c Sb Ef s SC (parent c x)) as [E|[E|[E|[E|E]]]];
        rewrite E in Hi; try discriminate. auto.
    - auto.
    - exfalso. apply (s_did c Sb Ef s SC _ Hd). exact Hp.
  Qed.

  (* ---------- quiescent states ---------- *)
  Hypothesis Hq : quiescent c s = true.

  Lemma quiet_not_created x : x < njobs c -> x <> 0 -> st (Jb s x) <> Created.
  Proof.
    intros Hx H0 E. pose proof (quiescent_job c s x Hq Hx) as He. unfold job_enabled in He. cbn zeta in He.
    rewrite E in He. apply orb_false_iff in He. destruct He as [_ He].
    destruct (wf_parent c x W Hx H0) as [Hpl Hps].
    destruct (plain_sched c P (parent c x)) as (Hw & _); [lia|exact Hps|].
    unfold slot_free in He. cbn zeta in He. rewrite Hw in He. discriminate.
  Qed.

  Lemma quiet_not_tidy n : n < njobs c -> j_sched (jc c n) = true -> ph (Rn s n) <> PTidy WSuccess.
  Proof.
    intros Hn Hs E. pose proof (quiescent_run c s n Hq Hn Hs) as He. unfold run_enabled in He. rewrite E in He.
    rewrite (succ_no_pend c P s n I1 I5) in He by (left; exact E). cbn [forallb] in He.
    rewrite orb_true_r in He. discriminate.
  Qed.

  (* at quiescence a handler that is not finished is that of an atomic job, running, not
     cancelled, with its end ahead *)
  Lemma quiet_unfin n z : did (Sd s n) = true -> In z (members c n) -> hfin s z = false ->
    j_sched (jc c z) = false /\ hs (Hd s z) = HRunning /\ hcp (Hd s z) = false /\
    opt_le_now s (hend (Hd s z)) = false.
  Proof.
    intros Hdid Hz Hzf.
    pose proof (proj1 (In_members c n z) Hz) as (Hzl & Hzp & Hz0).
    pose proof (k_some c s I8 n z Hz Hdid) as Hnn.
    pose proof (quiescent_handler c s z Hq Hzl) as Hen. unfold handler_enabled in Hen. cbn zeta in Hen.
    unfold hfin in Hzf. destruct (hs (Hd s z)) eqn:Ehz; try discriminate.
    - exfalso. apply Hnn. reflexivity.
    - destruct (j_sched (jc c z)) eqn:Ezs.
      + exfalso. apply (s_hr c Sb Ef s SC z Ezs Ehz).
      + apply orb_false_iff in Hen. destruct Hen as [A B]. auto.
  Qed.

  (* a quiescent inline shutdown is in its wait, which has not expired, for a handler still running *)
  Lemma quiet_shut n : n < njobs c -> j_sched (jc c n) = true -> ph (Rn s n) = PShut WSuccess ->
    sp (Sd s n) = SdWait /\ opt_le_now s (sdl (Sd s n)) = false /\
    exists z, In z (members c n) /\ j_sched (jc c z) = false /\ hs (Hd s z) = HRunning /\
              hcp (Hd s z) = false /\ opt_le_now s (hend (Hd s z)) = false.
  Proof.
    intros Hn Hs Ep. pose proof (quiescent_run c s n Hq Hn Hs) as He. unfold run_enabled in He. cbn zeta in He.
    rewrite Ep in He.
    assert (Hact : sd_active (sp (Sd s n))) by (apply (q_inl c s IQ); unfold sd_inline; rewrite Ep; reflexivity).
    pose proof (active_did c s n I8 Hact) as Hdid.
    unfold sd_enabled in He. cbn zeta in He. destruct Hact as [E|E]; rewrite E in He.
    - apply orb_false_iff in He. destruct He as [He He3]. apply orb_false_iff in He. destruct He as [_ He].
      split; [exact E|]. split; [exact He3|].
      destruct (forallb_false _ _ _ He) as (z & Hz & Hzf). exists z. split; [exact Hz|].
      apply (quiet_unfin n z Hdid Hz Hzf).
    - exfalso. apply orb_false_iff in He. destruct He as [_ He].
      destruct (forallb_false _ _ _ He) as (z & Hz & Hzf).
      pose proof (k_spend c s I8 n z Hz) as Hzm.
      destruct (quiet_unfin n z Hdid Hzm Hzf) as (Za & Zr & Zc & _).
      destruct (q_spcp c s IQ n z E Hz) as [H|[H|(H & _)]]; congruence.
  Qed.

  (* the phases of a quiescent run *)
  Lemma quiet_phase n : n < njobs c -> j_sched (jc c n) = true ->
    ph (Rn s n) = PIdle \/ ph (Rn s n) = PMain \/ ph (Rn s n) = PShut WSuccess \/ ph (Rn s n) = POver.
  Proof.
    intros Hn Hs. destruct (s_ph c Sb Ef s SC n) as [E|[E|[E|[E|E]]]]; auto; exfalso.
    apply (quiet_not_tidy n Hn Hs E).
  Qed.

  (* a quiescent main loop is waiting for one of its jobs *)
  Lemma main_has_undone n : n < njobs c -> j_sched (jc c n) = true -> ph (Rn s n) = PMain ->
    exists m, In m (members c n) /\ is_done (st (Jb s m)) = false.
  Proof.
    intros Hn Hs Ep.
    destruct (forallb (fun m => is_done (st (Jb s m))) (members c n)) eqn:Eall.
    2:{ destruct (forallb_false _ _ _ Eall) as (m & Hm & Hf). exists m. auto. }
    exfalso. rewrite forallb_forall in Eall.
    pose proof (quiescent_run c s n Hq Hn Hs) as He. unfold run_enabled in He. rewrite Ep in He.
    apply orb_false_iff in He. destruct He as [He _]. apply orb_false_iff in He. destruct He as [_ He2].
    assert (Hseen : forall k, In k (members c n) -> In k (seen (Rn s n))).
    { intros k Hk. pose proof (Eall k Hk) as Hkd.
      assert (Hni : st (Jb s k) <> Idle) by (intro E; rewrite E in Hkd; discriminate).
      destruct (b_cover c s I5 n k (or_introl Ep) Hk Hni) as [Hp|Hsn]; [exfalso|exact Hsn].
      assert (Hx : existsb (jfin s) (pend (Rn s n)) = true).
      { apply existsb_exists. exists k. split; [exact Hp|]. unfold jfin. apply done_finished0. exact Hkd. }
      congruence. }
    assert (Hsub : forall x, In x (seen (Rn s n)) -> In x (members c n)).
    { intros x Hx. apply (b_seen_done c s I5 n x Hx). }
    assert (Hcnt : nonforever c (seen (Rn s n)) = nfinite c n).
    { rewrite (nonforever_members c P _ n Hsub), (nfinite_members c P n).
      apply Nat.le_antisymm.
      - apply NoDup_incl_length; [apply (b_seen_nd c s I5)|exact Hsub].
      - apply NoDup_incl_length; [apply NoDup_members|exact Hseen]. }
    assert (Hne : members c n <> []).
    { apply (p_members c s IP n); rewrite Ep; discriminate. }
    assert (Hnf : nfinite c n <> 0).
    { rewrite (nfinite_members c P n). destruct (members c n); [contradiction|cbn; lia]. }
    apply (b_open c s I5 n (or_introl Ep) Hnf). rewrite <- Hcnt. apply (b_count c s I5 n). left. exact Ep.
  Qed.

  (* an idle job of a quiescent main loop waits for a requirement that is not done *)
  Lemma idle_has_undone_req n x : n < njobs c -> j_sched (jc c n) = true -> ph (Rn s n) = PMain ->
    In x (members c n) -> st (Jb s x) = Idle ->
    exists r, In r (reqs c x) /\ is_done (st (Jb s r)) = false.
  Proof.
    intros Hn Hs Ep Hx Est.
    destruct (b_eager c s I5 n x Ep Hx Est) as (r & Hr1 & Hr2).
    exists r. split; [exact Hr1|].
    destruct (is_done (st (Jb s r))) eqn:Ed; [exfalso|reflexivity].
    pose proof (proj1 (In_members c n x) Hx) as (Hxl & Hpar & Hx0).
    destruct (wf_reqs c x r W Hxl Hx0 Hr1) as (Hrx & Hrp & Hr0).
    assert (Hrm : In r (members c n)) by (apply In_members; repeat split; [lia|congruence|exact Hr0]).
    assert (Hni : st (Jb s r) <> Idle) by (intro E; rewrite E in Ed; discriminate).
    destruct (b_cover c s I5 n r (or_introl Ep) Hrm Hni) as [Hp|Hsn]; [|contradiction].
    pose proof (quiescent_run c s n Hq Hn Hs) as He. unfold run_enabled in He. rewrite Ep in He.
    apply orb_false_iff in He. destruct He as [He _]. apply orb_false_iff in He. destruct He as [_ He].
    assert (Hex : existsb (jfin s) (pend (Rn s n)) = true).
    { apply existsb_exists. exists r. split; [exact Hp|]. unfold jfin. apply done_finished0. exact Ed. }
    congruence.
  Qed.

  (* ---------- the clock is about to move to t ---------- *)
  Variable t : N.
  Hypothesis Hlt : (now s < t)%N.
  Hypothesis Hdl : forall d, In d (deadlines c s) -> (t <= d)%N.

  Lemma tick_running_atomic z : z < njobs c -> z <> 0 -> j_sched (jc c z) = false -> st (Jb s z) = Running ->
    (t <= Ef z)%N.
  Proof.
    intros Hz H0 Ha Hst. pose proof (s_job c Sb Ef s SC z Hz H0) as H. unfold on_schedule in H. rewrite Hst in H.
    destruct H as (_ & Hle & Ht). specialize (Ht Ha).
    destruct (N.eq_dec (now s) (Ef z)) as [E|E].
    - exfalso. pose proof (quiescent_job c s z Hq Hz) as Hen. unfold job_enabled in Hen. cbn zeta in Hen.
      rewrite Hst, Ha, Ht in Hen. cbn [opt_le_now] in Hen.
      assert (Ho : N.leb (Ef z) (now s) = true) by (apply N.leb_le; lia).
      rewrite Ho, orb_true_r in Hen. discriminate.
    - apply Hdl. apply (In_deadlines_job c s z (Ef z) Hz Ha (or_introl Hst) Ht). lia.
  Qed.

  (* a shutdown phase does not last longer than shut_len *)
  Lemma tick_shut n : n < njobs c -> j_sched (jc c n) = true -> ph (Rn s n) = PShut WSuccess ->
    (t <= Mx c Sb Ef n + shut_len c n)%N.
  Proof.
    intros Hn Hs Ep. destruct (quiet_shut n Hn Hs Ep) as (Ew & Hsdl & z & Hz & Hza & Hzr & Hzc & Hze).
    destruct (s_shut c Sb Ef s SC n Ep) as (HM1 & HM2 & Hw & _ & Hh). specialize (Hw Ew).
    pose proof (Hh z Hz Hza) as Hz'. unfold hd_ok in Hz'. rewrite Hzr in Hz'. destruct Hz' as [Hend _].
    pose proof (proj1 (In_members c n z) Hz) as (Hzl & _ & _).
    assert (H1 : (t <= Mx c Sb Ef n + sdurN c z)%N).
    { rewrite Hend in Hze. cbn [opt_le_now] in Hze. apply N.leb_gt in Hze.
      apply Hdl. apply (In_deadlines_handler c s z _ Hzl Hza Hzr Hend Hze). }
    assert (H2 : (sdurN c z <= maxl 0%N (map (sdurN c) (members c n)))%N) by (apply maxl_ge_in; apply in_map; exact Hz).
    unfold shut_len. destruct (j_sdto (jc c n)) as [to|] eqn:Eto; [|lia].
    cbn [optN_add] in Hw. rewrite Hw in Hsdl. cbn [opt_le_now] in Hsdl. apply N.leb_gt in Hsdl.
    assert (H3 : (t <= Mx c Sb Ef n + to)%N).
    { apply Hdl. apply (In_deadlines_sd c s n _ (proj2 (sched_id_iff c n) (conj Hs Hn)) Ew Hw Hsdl). }
    lia.
  Qed.

  (* below a scheduler in its main loop *)
  Lemma tick_level : forall fuel p, njobs c - p < fuel -> p < njobs c -> j_sched (jc c p) = true ->
    ph (Rn s p) = PMain ->
    forall z, In z (members c p) -> is_done (st (Jb s z)) = false ->
      (t <= Ef z)%N /\ (st (Jb s z) = Idle \/ st (Jb s z) = Created -> (t <= Sb z)%N).
  Proof.
    induction fuel as [|fuel IHf]; intros p Hf Hp Hps Epm; [lia|].
    intros z. induction z as [z IHz] using lt_wf_ind. intros Hz Hnd.
    pose proof (proj1 (In_members c p z) Hz) as (Hzl & Hzp & Hz0).
    destruct (st_cases z Hzl Hz0) as [Est|[Est|[Est|Est]]].
    - (* idle: a requirement is not done *)
      destruct (idle_has_undone_req p z Hp Hps Epm Hz Est) as (r & Hr1 & Hr2).
      destruct (wf_reqs c z r W Hzl Hz0 Hr1) as (Hrz & Hrp & Hr0).
      assert (Hrm : In r (members c p)) by (apply In_members; repeat split; [lia|congruence|exact Hr0]).
      destruct (IHz r Hrz Hrm Hr2) as [Hr _].
      pose proof (Sb_ge_req c Sb Ef HS z r Hzl Hz0 Hr1) as H1.
      pose proof (Ef_ge_Sb c Sb Ef HS z Hzl) as H2.
      split; [lia|intros _; lia].
    - exfalso. apply (quiet_not_created z Hzl Hz0 Est).
    - split; [|intros [E|E]; rewrite E in Est; discriminate].
      destruct (j_sched (jc c z)) eqn:Ezs.
      + (* a nested scheduler, in its main loop or in its shutdown phase *)
        destruct (running_main_or_exit z Hz0 Ezs Est) as [Epz|[E|E]];
          [|exfalso; apply (quiet_not_tidy z Hzl Ezs E)
           |rewrite (Ef_sched c Sb Ef HS z Hzl Ezs); apply (tick_shut z Hzl Ezs E)].
        destruct (main_has_undone z Hzl Ezs Epz) as (m & Hm & Hmd).
        destruct (wf_parent c z W Hzl Hz0) as [Hpl _]. rewrite Hzp in Hpl.
        destruct (IHf z) with (z := m) as [Hr _]; [lia|exact Hzl|exact Ezs|exact Epz|exact Hm|exact Hmd|].
        pose proof (Ef_ge_member c Sb Ef HS z m Hzl Ezs Hm). lia.
      + apply (tick_running_atomic z Hzl Hz0 Ezs Est).
    - rewrite Est in Hnd. discriminate.
  Qed.

  Hypothesis Hroot : ph (Rn s 0) <> PIdle.

  Lemma root_is_sched : j_sched (jc c 0) = true /\ 0 < njobs c.
  Proof. apply wf_root. exact W. Qed.

  (* (A) a job that has not started will not start before t *)
  Lemma tick_unstarted : forall x, x < njobs c -> x <> 0 ->
    st (Jb s x) = Idle \/ st (Jb s x) = Created -> (t <= Sb x)%N.
  Proof.
    intros x. induction x as [x IH] using lt_wf_ind. intros Hx H0 Hst.
    destruct (wf_parent c x W Hx H0) as [Hpl Hps].
    assert (Hpn : parent c x < njobs c) by lia.
    assert (Hm : In x (members c (parent c x))) by (apply In_members; auto).
    assert (Hnd : is_done (st (Jb s x)) = false) by (destruct Hst as [E|E]; rewrite E; reflexivity).
    destruct (quiet_phase (parent c x) Hpn Hps) as [Ep|[Ep|[Ep|Ep]]].
    - destruct (Nat.eq_dec (parent c x) 0) as [E0|E0]; [rewrite E0 in Ep; contradiction|].
      pose proof (IH (parent c x) Hpl Hpn E0 (idle_unstarted _ Hpn E0 Hps Ep)) as H1.
      pose proof (Sb_ge_parent c Sb Ef HS x Hx H0). lia.
    - destruct (tick_level (S (njobs c)) (parent c x)) with (z := x) as [_ H]; auto; lia.
    - rewrite (exit_members_done (parent c x) x (or_intror (or_introl Ep)) Hm) in Hnd. discriminate.
    - rewrite (s_over_done c Sb Ef s SC _ x Ep Hm) in Hnd. discriminate.
  Qed.

  (* (B) a job that is not done will not be done before t *)
  Lemma tick_undone x : x < njobs c -> x <> 0 -> is_done (st (Jb s x)) = false -> (t <= Ef x)%N.
  Proof.
    intros Hx H0 Hnd.
    destruct (wf_parent c x W Hx H0) as [Hpl Hps].
    assert (Hpn : parent c x < njobs c) by lia.
    assert (Hm : In x (members c (parent c x))) by (apply In_members; auto).
    destruct (st_cases x Hx H0) as [Est|[Est|[Est|Est]]].
    - pose proof (tick_unstarted x Hx H0 (or_introl Est)). pose proof (Ef_ge_Sb c Sb Ef HS x Hx). lia.
    - pose proof (tick_unstarted x Hx H0 (or_intror Est)). pose proof (Ef_ge_Sb c Sb Ef HS x Hx). lia.
    - destruct (quiet_phase (parent c x) Hpn Hps) as [Ep|[Ep|[Ep|Ep]]].
      + rewrite (i_idle c s I1 _ x Hm Ep) in Est. discriminate.
      + destruct (tick_level (S (njobs c)) (parent c x)) with (z := x) as [H _]; auto; lia.
      + rewrite (exit_members_done (parent c x) x (or_intror (or_introl Ep)) Hm) in Hnd. discriminate.
      + rewrite (s_over_done c Sb Ef s SC _ x Ep Hm) in Hnd. discriminate.
    - rewrite Est in Hnd. discriminate.
  Qed.
End State.

(* ------------------------------------------------------------------ the clock moves *)

Lemma tick_root c Sb Ef s e s' : step 3 c s e = Some s' -> is_tick e = true -> Sch c Sb Ef s ->
  ph (Rn s 0) <> PIdle.
Proof.
  intros Hs Ht SC Ep. destruct (step_inv _ _ _ _ _ Hs) as [_ Hg].
  destruct (s_root_idle c Sb Ef s SC Ep) as [Hi _].
  destruct e; try discriminate; cbn [forallb guards] in Hg; rewrite !andb_true_iff in Hg.
  - destruct Hg as (_ & _ & G & _). rewrite holds3 in G by lia.
    rewrite (idle_no_deadlines c s Hi) in G. discriminate.
  - destruct Hg as (_ & G & _). rewrite holds_0 in G. rewrite Ep in G. discriminate.
Qed.

Lemma late_mono c M s s' n : (now s <= now s')%N -> late c M s n -> late c M s' n.
Proof. intros Hle (t & Ht & H). exists t. split; [exact Ht|lia]. Qed.

Lemma Sch_tick c Sb Ef s e s' : wf c = true -> plainH c = true -> is_scheduleH c Sb Ef -> Std c s ->
  Sch c Sb Ef s -> step 3 c s e = Some s' -> is_tick e = true -> Sch c Sb Ef s'.
Proof.
  intros W P HS SD SC Hs Ht.
  pose proof (tick_root c Sb Ef s e s' Hs Ht SC) as Hroot.
  destruct (tick_guards 3 c s e s' (le_S 2 2 (le_n 2)) Hs Ht) as (EJ & EH & ER & ES & Hlt & Hq & Hdl).
  split.
  - intros x Hx H0. pose proof (s_job c Sb Ef s SC x Hx H0) as H. unfold on_schedule in *. rewrite EJ.
    destruct (st (Jb s x)) eqn:Est; try exact H; try lia.
    + apply (tick_unstarted c Sb Ef s W P HS SD SC Hq (now s') Hlt Hdl Hroot x Hx H0). auto.
    + apply (tick_unstarted c Sb Ef s W P HS SD SC Hq (now s') Hlt Hdl Hroot x Hx H0). auto.
    + destruct H as (A & B & C). split; [lia|]. split; [|exact C].
      apply (tick_undone c Sb Ef s W P HS SD SC Hq (now s') Hlt Hdl Hroot x Hx H0). rewrite Est. reflexivity.
  - rewrite EJ. apply (s_cp c Sb Ef s SC).
  - rewrite ER. apply (s_rc c Sb Ef s SC).
  - rewrite ER. apply (s_ph c Sb Ef s SC).
  - rewrite ER. intros E. contradiction.
  - rewrite ER. intros E. pose proof (s_root_over c Sb Ef s SC E). lia.
  - rewrite ER, EJ. apply (s_over_done c Sb Ef s SC).
  - rewrite ER, ES. apply (s_over_did c Sb Ef s SC).
  - rewrite EH. apply (s_hr c Sb Ef s SC).
  - rewrite ER, ES. apply (s_did c Sb Ef s SC).
  - intros x. unfold crit_exc. rewrite EJ. apply (s_nce c Sb Ef s SC x).
  - rewrite ER. apply (s_expi c Sb Ef s SC).
  - rewrite ER. intros n Hn Hsn [Ep|Ep].
    + destruct (main_has_undone c s P SD Hq n Hn Hsn Ep) as (m & Hm & Hmd).
      pose proof (proj1 (In_members c n m) Hm) as (Hml & _ & Hm0).
      pose proof (tick_undone c Sb Ef s W P HS SD SC Hq (now s') Hlt Hdl Hroot m Hml Hm0 Hmd) as H1.
      pose proof (Mx_ge_member c Sb Ef n m Hm). lia.
    + exfalso. eapply quiet_not_tidy; eauto.
  - rewrite ER. intros n Ep. destruct (s_shut c Sb Ef s SC n Ep) as (A & B & C & D & F).
    assert (Hsi : sched_id c n = true) by (apply (t_validr c s (sd_T c s SD)); rewrite Ep; discriminate).
    apply sched_id_iff in Hsi. destruct Hsi as [Hsn Hn].
    assert (Hle : (now s <= now s')%N) by lia.
    unfold shut_ok. cbn zeta. rewrite ES. split; [lia|]. split.
    { eapply tick_shut; eauto. }
    split; [exact C|]. split; [intros H; apply (late_mono c _ s s' n Hle (D H))|].
    intros x Hx Hxa. pose proof (F x Hx Hxa) as Hh. unfold hd_ok in *. rewrite EH.
    destruct (hs (Hd s x)) eqn:Ehx.
    + exact I.
    + exfalso. pose proof (proj1 (In_members c n x) Hx) as (Hxl & _ & _).
      pose proof (quiescent_handler c s x Hq Hxl) as Hen. unfold handler_enabled in Hen. rewrite Ehx in Hen. discriminate.
    + destruct Hh as [H1 H2]. split; [exact H1|]. intros H. apply (late_mono c _ s s' n Hle (H2 H)).
    + lia.
    + apply (late_mono c _ s s' n Hle Hh).
Qed.

(* ------------------------------------------------------------------ two facts about single events *)

(* how the run of m can become over *)
Lemma over_from lvl c s e s' m : wf c = true -> Inv1 c s -> step lvl c s e = Some s' ->
  ph (Rn s m) <> POver -> ph (Rn s' m) = POver ->
  (ph (Rn s m) = PIdle /\ members c m = []) \/ (exists w, ph (Rn s m) = PShut w) \/
  (m <> 0 /\ cp (Jb s m) = true) \/ rcanc (Rn s m) = true \/ ph (Rn s m) = PCTidy.
Proof.
  intros W I1 Hs Hn Ho. destruct (step_inv _ _ _ _ _ Hs) as [Es' Hg]. subst s'.
  destruct e as [n o|n k d o|n k o|n o|j|j oc|j|j|j|j|j|j|j|j|t|t|jv sv]; cbn [reaction fst] in Ho;
    try (exfalso; apply Hn; exact Ho).
  - rewrite ph_react_begin in Ho. destruct (Nat.eqb_spec m n) as [->|Hm]; [|contradiction].
    destruct (members c n) eqn:Em; [|discriminate]. left. split; [|reflexivity].
    split_guards Hg. destruct (rootb n) eqn:Er.
    + apply rootb_true in Er. subst n. destruct (ph (Rn s 0)); try discriminate. reflexivity.
    + apply rootb_false in Er. apply (i_l1 c s I1 n Er). right. destruct (st (Jb s n)); try discriminate. reflexivity.
  - destruct k; cbn [reaction fst] in Ho.
    + pose proof (HS_react_main c n d s) as H. cbn zeta in H. destruct H as (_ & Hoth & H).
      destruct (Nat.eq_dec m n) as [->|Hm]; [|rewrite (Hoth m Hm) in Ho; contradiction].
      exfalso. destruct H as [(_ & _ & [H|[w H]])|([w H] & _)]; rewrite H in Ho; try discriminate. contradiction.
    + pose proof (HS_react_tidy c n s) as H. cbn zeta in H. destruct H as (_ & Hoth & H).
      destruct (Nat.eq_dec m n) as [->|Hm]; [|rewrite (Hoth m Hm) in Ho; contradiction].
      destruct H as [(H & _)|(_ & H & _)]; [auto|]. rewrite H in Ho. discriminate.
    + rewrite ph_end_cancelled in Ho. destruct (Nat.eqb_spec m n) as [->|Hm]; [|contradiction].
      split_guards Hg. right. right. right. right. destruct (ph (Rn s n)); try discriminate. reflexivity.
    + pose proof (HS_react_shut c n d (culprit_of o) s) as H. cbn zeta in H. destruct H as (_ & Hoth & H).
      destruct (Nat.eq_dec m n) as [->|Hm]; [|rewrite (Hoth m Hm) in Ho; contradiction].
      destruct d as [|d0 d'].
      * destruct H as (_ & H). destruct (sd_inline s n) eqn:Ei.
        -- right. left. unfold sd_inline in Ei. destruct (ph (Rn s n)) as [| | |w| |]; try discriminate. exists w. reflexivity.
        -- destruct H as [H _]. rewrite H in Ho. contradiction.
      * destruct H as (H & _). rewrite H in Ho. contradiction.
    + pose proof (HS_react_shtidy c n (culprit_of o) s) as H. cbn zeta in H. destruct H as (_ & Hoth & _ & H).
      destruct (Nat.eq_dec m n) as [->|Hm]; [|rewrite (Hoth m Hm) in Ho; contradiction].
      destruct (sd_inline s n) eqn:Ei.
      * right. left. unfold sd_inline in Ei. destruct (ph (Rn s n)) as [| | |w| |]; try discriminate. exists w. reflexivity.
      * destruct H as [H _]. rewrite H in Ho. contradiction.
  - destruct k; cbn [reaction fst] in Ho.
    + rewrite ph_react_cancel_main in Ho. destruct (Nat.eqb_spec m n) as [->|Hm]; [|contradiction].
      split_guards Hg. destruct (run_alive_true _ _ _ G) as (_ & _ & H0 & _ & Hcp). auto.
    + rewrite ph_react_cancel_tidy in Ho. contradiction.
    + rewrite ph_react_cancel_ctidy in Ho. contradiction.
    + pose proof (HS_react_cancel_shut c n s) as H. cbn zeta in H. destruct H as (_ & H & _). rewrite H in Ho. contradiction.
    + pose proof (HS_react_cancel_shut c n s) as H. cbn zeta in H. destruct H as (_ & H & _). rewrite H in Ho. contradiction.
  - rewrite Rn_react_sdstart in Ho. contradiction.
  - unfold eff_start in Ho. rewrite ph_bump_q in Ho. contradiction.
  - unfold eff_finish in Ho. rewrite ph_bump_q in Ho. contradiction.
  - unfold eff_cancel_over in Ho. rewrite ph_bump_q in Ho. contradiction.
  - unfold eff_cancel_over in Ho. rewrite ph_bump_q in Ho. contradiction.
Qed.

(* the body of an atomic job ends at its deadline *)
Lemma atomic_done_at c s e s' x : Inv8 c s -> step 3 c s e = Some s' -> subject e x -> j_sched (jc c x) = false ->
  st (Jb s x) = Running -> cp (Jb s x) = false -> tend (Jb s x) = Some (now s).
Proof.
  intros I8 Hs Hsub Ha Hst Hcp. destruct (step_inv _ _ _ _ _ Hs) as [_ Hg].
  assert (Hns : sched_id c x = true -> False).
  { intros H. apply sched_id_iff in H. destruct H as [H _]. congruence. }
  assert (Hact : sd_active (sp (Sd s x)) -> False).
  { intros H. apply Hns. apply (k_valid c s I8). apply (active_did c s x I8 H). }
  destruct e as [n o|n k d o|n k o|n o|j|j oc|j|j|j|j|j|j|j|j|t|t|jv sv]; cbn [subject] in Hsub;
    try contradiction; subst x.
  - exfalso. split_guards Hg. auto.
  - exfalso. destruct k; split_guards Hg; rewrite ?holds3 in * by lia.
    + destruct (run_alive_false _ _ _ G) as (H & _). congruence.
    + destruct (run_alive_false _ _ _ G) as (H & _). congruence.
    + destruct (run_alive_false _ _ _ G) as (H & _). congruence.
    + apply Hact. left. destruct (sp (Sd s n)); try discriminate. reflexivity.
    + apply Hact. right. destruct (sp (Sd s n)); try discriminate. reflexivity.
  - exfalso. destruct k; split_guards Hg; rewrite ?holds3 in * by lia.
    + destruct (run_alive_true _ _ _ G) as (H & _). congruence.
    + destruct (run_alive_true _ _ _ G) as (H & _). congruence.
    + destruct (run_alive_true _ _ _ G) as (H & _). congruence.
    + apply Hact. destruct (sp (Sd s n)); try discriminate. left. reflexivity.
    + apply Hact. destruct (sp (Sd s n)); try discriminate. right. reflexivity.
  - exfalso. split_guards Hg. rewrite Hst in G0. discriminate.
  - split_guards Hg. rewrite ?holds3 in * by lia. unfold opt_eq_now in G2.
    destruct (tend (Jb s j)) as [d|]; [|discriminate].
    apply N.eqb_eq in G2. subst d. reflexivity.
  - exfalso. split_guards Hg. rewrite Hst, Hcp in G0. discriminate.
  - exfalso. split_guards Hg. rewrite Hst in G0. discriminate.
  - exfalso. split_guards Hg. rewrite Hst in G0. discriminate.
  - exfalso. split_guards Hg. rewrite Hst in G0. discriminate.
Qed.

(* the shutdown handler of an atomic job ends at its deadline *)
Lemma handler_done_at c s e s' x : wf c = true -> Inv8 c s -> step 3 c s e = Some s' ->
  j_sched (jc c x) = false -> hs (Hd s x) = HRunning -> hs (Hd s' x) = HDone -> hend (Hd s x) = Some (now s).
Proof.
  intros W I8 Hs Ha Hr Hd'. destruct (step_inv _ _ _ _ _ Hs) as [Es' Hg]. subst s'.
  assert (Hns : sched_id c x = true -> False).
  { intros H. apply sched_id_iff in H. destruct H as [H _]. congruence. }
  assert (Hact : sd_active (sp (Sd s x)) -> False).
  { intros H. apply Hns. apply (k_valid c s I8). apply (active_did c s x I8 H). }
  assert (Hsame : hs (Hd s x) = HDone -> hend (Hd s x) = Some (now s)) by (intros H; rewrite Hr in H; discriminate).
  assert (Hcre : forall n, hs (if did (Sd s n) then Hd s x else if memb x (members c n) then create_h (Hd s x) else Hd s x) = HDone ->
                           hend (Hd s x) = Some (now s)).
  { intros n H. destruct (did (Sd s n)); [auto|]. destruct (memb x (members c n)); [discriminate|auto]. }
  destruct e as [n o|n k d o|n k o|n o|j|j oc|j|j|j|j|j|j|j|j|t|t|jv sv]; cbn [reaction fst] in Hd'; try (apply Hsame; exact Hd').
  - destruct (HS_react_begin c n s) as (E & _). rewrite E in Hd'. auto.
  - destruct k; cbn [reaction fst] in Hd'.
    + pose proof (HS_react_main c n d s) as H. cbn zeta in H. destruct H as (_ & _ & [(H & _)|(_ & H & _)]); rewrite H in Hd'; eauto.
    + pose proof (HS_react_tidy c n s) as H. cbn zeta in H. destruct H as (_ & _ & [(_ & _ & H & _)|(_ & _ & H & _)]); rewrite H in Hd'; eauto.
    + rewrite Hd_end_cancelled in Hd'. auto.
    + pose proof (HS_react_shut c n d (culprit_of o) s) as H. cbn zeta in H. destruct H as (_ & _ & H).
      destruct d as [|d0 d'].
      * destruct H as (_ & H). destruct (sd_inline s n).
        -- destruct H as [_ H]. rewrite H in Hd'. auto.
        -- destruct H as [_ H]. rewrite H in Hd'. destruct (Nat.eqb_spec x n) as [->|Hx]; [|auto].
           exfalso. split_guards Hg. rewrite ?holds3 in * by lia. apply Hact. left.
           destruct (sp (Sd s n)); try discriminate. reflexivity.
      * destruct H as (_ & _ & H). rewrite H in Hd'. destruct (memb x (d0 :: d')); [|auto].
        destruct (cancel_h_hs (Hd s x)) as [E _]. rewrite E in Hd'. auto.
    + pose proof (HS_react_shtidy c n (culprit_of o) s) as H. cbn zeta in H. destruct H as (_ & _ & _ & H).
      destruct (sd_inline s n).
      * destruct H as [_ H]. rewrite H in Hd'. auto.
      * destruct H as [_ H]. rewrite H in Hd'. destruct (Nat.eqb_spec x n) as [->|Hx]; [|auto].
        exfalso. split_guards Hg. rewrite ?holds3 in * by lia. apply Hact. right.
        destruct (sp (Sd s n)); try discriminate. reflexivity.
  - destruct k; cbn [reaction fst] in Hd'.
    + destruct (HS_react_cancel_main c n s) as (E & _). rewrite E in Hd'. auto.
    + destruct (HS_react_cancel_tidy c n s) as (E & _). rewrite E in Hd'. auto.
    + destruct (HS_react_cancel_ctidy c n s) as (E & _). rewrite E in Hd'. auto.
    + pose proof (HS_react_cancel_shut c n s) as H. cbn zeta in H. destruct H as (_ & _ & _ & H). rewrite H in Hd'.
      exfalso. destruct (memb x (sd_cancel_list c s n));
        [match type of Hd' with hs (cancel_h ?a) = _ => destruct (cancel_h_hs a) as [E _]; rewrite E in Hd' end|];
        destruct (sd_inline s n); try (rewrite Hr in Hd'; discriminate);
        destruct (Nat.eqb_spec x n) as [->|Hx]; cbn [hs] in Hd'; rewrite Hr in Hd'; discriminate.
    + pose proof (HS_react_cancel_shut c n s) as H. cbn zeta in H. destruct H as (_ & _ & _ & H). rewrite H in Hd'.
      exfalso. destruct (memb x (sd_cancel_list c s n));
        [match type of Hd' with hs (cancel_h ?a) = _ => destruct (cancel_h_hs a) as [E _]; rewrite E in Hd' end|];
        destruct (sd_inline s n); try (rewrite Hr in Hd'; discriminate);
        destruct (Nat.eqb_spec x n) as [->|Hx]; cbn [hs] in Hd'; rewrite Hr in Hd'; discriminate.
  - pose proof (HS_react_sdstart c n s W) as H. cbn zeta in H. destruct H as (_ & _ & _ & H). rewrite H in Hd'.
    destruct (Nat.eqb_spec x n) as [->|Hx]; [|eauto].
    exfalso. split_guards Hg. auto.
  - cbn [Hd setH] in Hd'. unfold upd in Hd'. destruct (Nat.eqb x j); [discriminate|auto].
  - cbn [Hd setH] in Hd'. unfold upd in Hd'. destruct (Nat.eqb_spec x j) as [->|Hx]; [|auto].
    split_guards Hg. rewrite ?holds3 in * by lia.
    destruct (j_sdur (jc c j)); [|discriminate]. unfold opt_eq_now in *.
    destruct (hend (Hd s j)) as [d|]; [|discriminate].
    match goal with G : N.eqb d (now s) = true |- _ => apply N.eqb_eq in G; rewrite G; reflexivity end.
  - cbn [Hd setH] in Hd'. unfold upd in Hd'. destruct (Nat.eqb x j); [discriminate|auto].
  - cbn [Hd setH] in Hd'. unfold upd in Hd'. destruct (Nat.eqb x j); [discriminate|auto].
Qed.

(* a run enters the exit path "timeout" only from its main loop, at or after its expiration *)
Lemma timeout_from c s e s' m : step 3 c s e = Some s' -> tmo_ph (ph (Rn s' m)) ->
  tmo_ph (ph (Rn s m)) \/
  (ph (Rn s m) = PMain /\ exists x, expi (Rn s m) = Some x /\ (x <= now s)%N).
Proof.
  intros Hs. destruct (step_inv _ _ _ _ _ Hs) as [-> Hg].
  destruct e as [n o|n k d o|n k o|n o|j|j oc|j|j|j|j|j|j|j|j|t0|t0|jv sv]; cbn [reaction fst].
  - rewrite ph_react_begin. destruct (Nat.eqb m n); [|auto].
    destruct (members c n); intros [H|H]; discriminate.
  - destruct k; cbn [reaction fst].
    + pose proof (HS_react_main c n d s) as H. cbn zeta in H. destruct H as (_ & Ho & _).
      destruct (Nat.eqb_spec m n) as [->|Hm]; [|rewrite (Ho m Hm); auto].
      split_guards Hg. rewrite ?holds3 in * by lia.
      assert (Hph : ph (Rn s n) = PMain) by (destruct (ph (Rn s n)); try discriminate; reflexivity).
      destruct (react_main_upd c n d s Hph) as (_ & _ & _ & [(w & Hw & _ & _ & _ & Hb)|(Hw & _)]).
      * intros Ht. right. split; [exact Hph|].
        assert (Ew : w = WTimeout).
        { destruct Ht as [Ht|Ht], Hw as [Hw|Hw]; rewrite Ht in Hw; inversion Hw; reflexivity. }
        subst w. destruct Hb as [-> _].
        match goal with G : opt_le_now s (expi (Rn s n)) = true |- _ =>
          unfold opt_le_now in G; destruct (expi (Rn s n)) as [x|]; [|discriminate];
          exists x; split; [reflexivity|apply N.leb_le; exact G] end.
      * rewrite Hw. intros [H|H]; discriminate.
    + pose proof (HS_react_tidy c n s) as H. cbn zeta in H. destruct H as (_ & Ho & H).
      destruct (Nat.eqb_spec m n) as [->|Hm]; [|rewrite (Ho m Hm); auto].
      split_guards Hg.
      destruct H as [(_ & H & _)|(_ & H & _)]; rewrite H; [intros [K|K]; discriminate|].
      unfold why_of. destruct (ph (Rn s n)) as [| |w|w| |]; try discriminate.
      intros [K|K]; [discriminate|]. inversion K. left. left. reflexivity.
    + rewrite ph_end_cancelled. destruct (Nat.eqb m n); [|auto]. intros [H|H]; discriminate.
    + pose proof (HS_react_shut c n d (culprit_of o) s) as H. cbn zeta in H. destruct H as (_ & Ho & H).
      destruct (Nat.eqb_spec m n) as [->|Hm]; [|rewrite (Ho m Hm); auto].
      destruct d as [|d0 d'].
      * destruct H as (_ & H). destruct (sd_inline s n).
        -- destruct H as [H _]. rewrite H. intros [K|K]; discriminate.
        -- destruct H as [H _]. rewrite H. auto.
      * destruct H as (H & _). rewrite H. auto.
    + pose proof (HS_react_shtidy c n (culprit_of o) s) as H. cbn zeta in H. destruct H as (_ & Ho & _ & H).
      destruct (Nat.eqb_spec m n) as [->|Hm]; [|rewrite (Ho m Hm); auto].
      destruct (sd_inline s n).
      * destruct H as [H _]. rewrite H. intros [K|K]; discriminate.
      * destruct H as [H _]. rewrite H. auto.
  - destruct k; cbn [reaction fst].
    + rewrite ph_react_cancel_main. destruct (Nat.eqb m n); [|auto].
      destruct (filter _ _); intros [K|K]; discriminate.
    + rewrite ph_react_cancel_tidy. auto.
    + rewrite ph_react_cancel_ctidy. auto.
    + pose proof (HS_react_cancel_shut c n s) as H. cbn zeta in H. destruct H as (_ & Ho & _). rewrite Ho. auto.
    + pose proof (HS_react_cancel_shut c n s) as H. cbn zeta in H. destruct H as (_ & Ho & _). rewrite Ho. auto.
  - rewrite Rn_react_sdstart. auto.
  - unfold eff_start. rewrite ph_bump_q. auto.
  - unfold eff_finish. rewrite ph_bump_q. auto.
  - auto.
  - unfold eff_cancel_over. rewrite ph_bump_q. auto.
  - unfold eff_cancel_over. rewrite ph_bump_q. auto.
  - auto.
  - auto.
  - auto.
  - auto.
  - auto.
  - auto.
  - auto.
  - auto.
Qed.

(* ------------------------------------------------------------------ a step that is not a clock event *)

Section Step.
  Variables (c : cfg) (Sb Ef : nat -> N) (s s' : state) (e : event).
  Hypothesis W : wf c = true.
  Hypothesis P : plainH c = true.
  Hypothesis HS : is_scheduleH c Sb Ef.
  Hypothesis SL : slackH c Sb Ef.
  Hypothesis SD : Std c s.
  Hypothesis SD' : Std c s'.
  Hypothesis SC : Sch c Sb Ef s.
  Hypothesis Hs : step 3 c s e = Some s'.
  Hypothesis Ht : is_tick e = false.

  Let IE := sd_E c s SD.
  Let ID := ie_d c s IE.
  Let I8 := ie_8 c s IE.
  Let IC := id_c c s ID.
  Let I1 := ic_1 c s IC.
  Let I3 := ic_3 c s IC.
  Let I5 := ic_5 c s IC.
  Let I2 := sd_2 c s SD.
  Let IT := sd_T c s SD.
  Let IT3 := sd_T3 c s SD.
  Let IE' := sd_E c s' SD'.
  Let ID' := ie_d c s' IE'.
  Let IC' := id_c c s' ID'.
  Let I1' := ic_1 c s' IC'.
  Let I5' := ic_5 c s' IC'.
  Let IT' := sd_T c s' SD'.
  Let En := now_step 3 c s e s' W Hs Ht.
  Let HJ := J_effect 3 c s e s' W (i_pend c s I1) Hs.
  Let HR := R_effect 3 c s e s' W (i_pend c s I1) Hs.
  Let HH := HS_effect 3 c s e s' W I1 (le_n 3) Hs.

  Let Hcp := s_cp c Sb Ef s SC.
  Let Hrc := s_rc c Sb Ef s SC.
  Let Hok := s_ph c Sb Ef s SC.

  Lemma not_pctidy n : ph (Rn s n) <> PCTidy.
  Proof. intro E. destruct (Hok n) as [H|[H|[H|[H|H]]]]; rewrite H in E; discriminate. Qed.

  Lemma shut_success n w : ph (Rn s n) = PShut w -> w = WSuccess.
  Proof. intro E. destruct (Hok n) as [H|[H|[H|[H|H]]]]; rewrite H in E; try discriminate. inversion E. reflexivity. Qed.

  (* a run ends only at the end of its inline shutdown, or at once when it has no job *)
  Lemma over_step n : ph (Rn s n) <> POver -> ph (Rn s' n) = POver ->
    (ph (Rn s n) = PIdle /\ members c n = []) \/ ph (Rn s n) = PShut WSuccess.
  Proof.
    intros Hn Ho. destruct (over_from 3 c s e s' n W I1 Hs Hn Ho) as [H|[[w H]|[[_ H]|[H|H]]]].
    - left. exact H.
    - right. rewrite H. f_equal. apply (shut_success n w H).
    - rewrite Hcp in H. discriminate.
    - rewrite Hrc in H. discriminate.
    - exfalso. apply (not_pctidy n H).
  Qed.

  Lemma phase_step n :
    ph (Rn s' n) = ph (Rn s n)
    \/ (ph (Rn s n) = PIdle /\ (ph (Rn s' n) = PMain \/ (ph (Rn s' n) = POver /\ members c n = [])))
    \/ (ph (Rn s n) = PMain /\ (ph (Rn s' n) = PTidy WSuccess \/ ph (Rn s' n) = PShut WSuccess) /\
        forall x, In x (pend (Rn s n)) -> finished (st (Jb s x)) = true)
    \/ (ph (Rn s n) = PTidy WSuccess /\ ph (Rn s' n) = PShut WSuccess)
    \/ (ph (Rn s n) = PShut WSuccess /\ ph (Rn s' n) = POver).
  Proof.
    destruct (phase_eq_dec (ph (Rn s' n)) (ph (Rn s n))) as [Eq|Neq]; [left; exact Eq|right].
    destruct (HR n) as [Hq _|Hact Hpre Hpost Hph _ _ _ _ _ _ _ _ _ _|Hact A1 A2 A3 Apost A4 A5 A6 A7 A8].
    - destruct Hq as (Hq & _). contradiction.
    - left.
      assert (Ei : ph (Rn s n) = PIdle).
      { destruct (rootb n) eqn:Er; [exact Hpre|]. apply rootb_false in Er. apply (i_l1 c s I1 n Er). right. exact Hpre. }
      split; [exact Ei|]. destruct Hph as [H|H]; [left; exact H|right]. split; [exact H|].
      destruct (over_step n) as [[_ Hm]|Hsh]; [rewrite Ei; discriminate|exact H|exact Hm|rewrite Ei in Hsh; discriminate].
    - destruct A7 as [K|(Hpm & d & Hd1 & Hd2 & U)].
      + destruct K as (K1 & K2 & K3 & K4 & K5 & K6 & K7 & K8 & _).
        destruct (Hok n) as [E|[E|[E|[E|E]]]].
        * contradiction.
        * exfalso. destruct (K6 E) as [H|H].
          -- destruct (A6 (or_introl H)) as [[H1|H1]|H1].
             ++ apply (not_pctidy n H1).
             ++ rewrite Hrc in H1. discriminate.
             ++ rewrite Hcp in H1. discriminate.
          -- destruct (over_step n) as [[H1 _]|H1]; [rewrite E; discriminate|exact H| |]; rewrite E in H1; discriminate.
        * destruct (K5 WSuccess E) as [H|[H|H]].
          -- exfalso. apply Neq. rewrite H, E. reflexivity.
          -- right. right. left. auto.
          -- exfalso. destruct (over_step n) as [[H1 _]|H1]; [rewrite E; discriminate|exact H| |]; rewrite E in H1; discriminate.
        * destruct (K4 WSuccess E) as [H|H]; [exfalso; apply Neq; rewrite H, E; reflexivity|].
          right. right. right. auto.
        * contradiction.
      + unfold main_upd in U. cbn zeta in U. destruct U as (U1 & U2 & UF & U3).
        destruct U3 as [(w & Hw & Hp & Hsh & Hcj & Hm)|(Hm & _)].
        2:{ exfalso. apply Neq. rewrite Hm, Hpm. reflexivity. }
        destruct w.
        * right. left. split; [exact Hpm|]. split; [destruct Hw; auto|]. intros x Hx.
          assert (Hps : ph_succ (ph (Rn s' n))) by (destruct Hw as [H|H]; rewrite H; [left|right]; reflexivity).
          pose proof (succ_no_pend c P s' n I1' I5' Hps) as Hnil. rewrite Hp in Hnil.
          destruct (memb x d) eqn:Exd.
          -- apply memb_In in Exd. apply (seteqb_spec _ _ Hd1) in Exd. apply filter_In in Exd. destruct Exd as [_ H]. exact H.
          -- apply memb_false in Exd. assert (Hin : In x (diff (pend (Rn s n)) d)) by (apply In_diff; auto).
             rewrite Hnil in Hin. destruct Hin.
        * exfalso.
          assert (Hto : tmo_ph (ph (Rn s' n))) by (destruct Hw as [H|H]; rewrite H; [left|right]; reflexivity).
          (* the timeout would have to fire: but the run is scheduled to end strictly earlier *)
          destruct (timeout_from c s e s' n Hs Hto) as [Ht0|(_ & x & Hx & Hle)].
          { destruct Ht0 as [H|H]; rewrite Hpm in H; discriminate. }
          assert (Hsi : sched_id c n = true) by (apply (t_validr c s IT); rewrite Hpm; discriminate).
          apply sched_id_iff in Hsi. destruct Hsi as [Hsn Hnl].
          rewrite (s_expi c Sb Ef s SC n Hpm) in Hx.
          destruct (j_timeout (jc c n)) as [T|] eqn:ET; [|discriminate]. cbn [optN_add] in Hx. injection Hx as Hx.
          pose proof (SL n T Hnl Hsn ET) as Hsl.
          pose proof (s_mainM c Sb Ef s SC n Hnl Hsn (or_introl Hpm)) as Hnow. unfold Mx in Hnow.
          lia.
        * exfalso. destruct Hm as (_ & Hm & _). apply existsb_exists in Hm. destruct Hm as (x & _ & Hx).
          rewrite (s_nce c Sb Ef s SC x) in Hx. discriminate.
  Qed.

  Lemma idle_back_ph n : ph (Rn s' n) = PIdle -> ph (Rn s n) = PIdle.
  Proof.
    intros Ep. destruct (phase_step n) as [H|[(H & _)|[(_ & [H|H] & _)|[(_ & H)|(_ & H)]]]];
      try (rewrite H in Ep; discriminate).
    - rewrite <- H. exact Ep.
    - exact H.
  Qed.

  Lemma step_ph n : okph (ph (Rn s' n)).
  Proof.
    unfold okph. destruct (phase_step n) as [H|[(_ & [H|[H _]])|[(_ & [H|H] & _)|[(_ & H)|(_ & H)]]]]; rewrite H; auto.
    apply Hok.
  Qed.

  Lemma step_rc n : rcanc (Rn s' n) = false.
  Proof.
    destruct (HR n) as [Hq _|Hact Hpre Hpost Hph _ _ _ _ _ _ _ Hrc' _ _|Hact A1 A2 A3 Apost A4 A5 A6 A7 A8].
    - destruct Hq as (_ & _ & _ & _ & _ & _ & _ & _ & Hq). rewrite Hq. apply Hrc.
    - exact Hrc'.
    - destruct (rcanc (Rn s' n)) eqn:E; [exfalso|reflexivity].
      destruct (A6 (or_intror eq_refl)) as [[H1|H1]|H1].
      + apply (not_pctidy n H1).
      + rewrite Hrc in H1. discriminate.
      + rewrite Hcp in H1. discriminate.
  Qed.

  (* what a run that leaves its main loop was waiting for is finished *)
  Lemma pend_cancel_finished n x : In x (pend (Rn s n)) -> ph (Rn s' n) <> PMain -> ph (Rn s' n) <> PIdle ->
    finished (st (Jb s x)) = true.
  Proof.
    intros Hin Hp1 Hp2.
    assert (Hxm : In x (members c n)) by (apply (i_pend c s I1 n x Hin)).
    assert (Hsucc : ph_succ (ph (Rn s n)) -> False).
    { intros H. rewrite (succ_no_pend c P s n I1 I5 H) in Hin. destruct Hin. }
    assert (Hidle : ph (Rn s n) = PIdle -> False).
    { intros H. apply (b_pend_live c s I5 n x Hin). apply (i_idle c s I1 n x Hxm H). }
    destruct (phase_step n) as [H|[(H & _)|[(_ & _ & H)|[(H & _)|(H & _)]]]].
    - destruct (Hok n) as [E|[E|[E|[E|E]]]].
      + exfalso. apply Hidle. exact E.
      + exfalso. apply Hp1. rewrite H. exact E.
      + exfalso. apply Hsucc. left. exact E.
      + exfalso. apply Hsucc. right. exact E.
      + apply done_finished0. apply (s_over_done c Sb Ef s SC n x E Hxm).
    - exfalso. apply Hidle. exact H.
    - apply H. exact Hin.
    - exfalso. apply Hsucc. left. exact H.
    - exfalso. apply Hsucc. right. exact H.
  Qed.

  Lemma jeff_cancelled_absurd x :
    (st (Jb s x) = Cancelling \/
     (st (Jb s x) = Running /\ j_sched (jc c x) = true /\
      (cp (Jb s x) = true \/ ph (Rn s x) = PCTidy \/ rcanc (Rn s x) = true))) -> x < njobs c -> x <> 0 -> False.
  Proof.
    intros [H|(_ & _ & [H|[H|H]])] Hx H0.
    - destruct (not_cancelled c Sb Ef s SC x Hx H0) as [A _]. contradiction.
    - rewrite Hcp in H. discriminate.
    - apply (not_pctidy x H).
    - rewrite Hrc in H. discriminate.
  Qed.

  Lemma step_cp x : cp (Jb s' x) = false.
  Proof.
    destruct (HJ x)
      as [H|H1 H2|Hsub H1 H2 H3 H4 H5|H1 H2 H3 H4 H5 H6 H7|H1 H2 H3 H4 H5 H6|Hsub H1 H2 H3 H4 H5 H6|Hsub H1 H2 H3 H4 H5
         |Hsub H1 H2 H3 H4 H5 H6|Hsub H1 H2 H3 H4 H5 H6 H7|Hsub H1 H2|Hsub H1 H2 H3].
    - rewrite H. apply Hcp.
    - destruct H2 as (n & Hin & Hp1 & Hp2). rewrite H1.
      rewrite (cancel_j_finished _ (pend_cancel_finished n x Hin Hp1 Hp2)). apply Hcp.
    - rewrite H4. reflexivity.
    - rewrite H2. reflexivity.
    - rewrite H1. reflexivity.
    - exact H4.
    - rewrite H5. reflexivity.
    - exact H4.
    - exact H5.
    - rewrite H2. reflexivity.
    - rewrite H3. reflexivity.
  Qed.

  Lemma created_Sb x : x < njobs c -> x <> 0 -> st (Jb s x) = Created -> (Sb x <= now s)%N.
  Proof.
    intros Hx H0 Est. destruct (wf_parent c x W Hx H0) as [Hpl Hps].
    apply (Sb_le c Sb Ef HS x (now s) Hx H0).
    - apply (begun_Sb c Sb Ef s HS SD SC (parent c x)); [lia|exact Hps|].
      rewrite (created_clean_in_main c s x W ID H0 Hx Est (Hcp x)). discriminate.
    - intros r Hr. destruct (wf_reqs c x r W Hx H0 Hr) as (Hrx & _ & Hr0).
      apply (done_Ef c Sb Ef s SC r); [lia|exact Hr0|].
      assert (Hg : all_done s (reqs c x) = true) by (apply (i_gate c s I1 x); rewrite Est; discriminate).
      unfold all_done in Hg. rewrite forallb_forall in Hg. apply Hg. exact Hr.
  Qed.

  Lemma step_expi n : ph (Rn s' n) = PMain -> expi (Rn s' n) = optN_add (Sb n) (j_timeout (jc c n)).
  Proof.
    intros Ep'. destruct (run_clock_step 3 c s e s' n Hs) as [[He Hi]|(o & Ee & He & Hv)].
    - rewrite He. destruct (main_from 3 c s e s' n W I1 Hs Ep') as [E|E].
      + apply (s_expi c Sb Ef s SC n E).
      + rewrite (Hi E) in Ep'. discriminate.
    - (* the run begins: it is the instant Sb n *)
      rewrite He. f_equal. apply sched_id_iff in Hv. destruct Hv as [Hsn Hnl].
      destruct (step_inv _ _ _ _ _ Hs) as [_ Hg]. rewrite Ee in Hg. split_guards Hg.
      destruct (Nat.eq_dec n 0) as [->|H0].
      + cbn [rootb Nat.eqb] in G0. destruct (ph (Rn s 0)) eqn:Ep; try discriminate.
        destruct (s_root_idle c Sb Ef s SC Ep) as [_ E0]. rewrite E0, (Sb_root c Sb Ef HS). reflexivity.
      + assert (Er : rootb n = false) by (apply rootb_false; exact H0). rewrite Er in G0.
        destruct (st (Jb s n)) eqn:Est; try discriminate.
        pose proof (created_Sb n Hnl H0 Est) as H1.
        pose proof (s_job c Sb Ef s SC n Hnl H0) as Hj. unfold on_schedule in Hj. rewrite Est in Hj. lia.
  Qed.

  Lemma step_mainM n : n < njobs c -> j_sched (jc c n) = true ->
    ph (Rn s' n) = PMain \/ ph (Rn s' n) = PTidy WSuccess -> (now s' <= Mx c Sb Ef n)%N.
  Proof.
    intros Hn Hsn Hp'. rewrite En.
    destruct (phase_step n) as [H|[(H & _)|[(H & _)|[(_ & H)|(_ & H)]]]].
    - apply (s_mainM c Sb Ef s SC n Hn Hsn). rewrite <- H. exact Hp'.
    - pose proof (idle_Sb c Sb Ef s SD SC n Hn Hsn H). pose proof (Mx_ge_Sb c Sb Ef n). lia.
    - apply (s_mainM c Sb Ef s SC n Hn Hsn). left. exact H.
    - destruct Hp' as [E|E]; rewrite E in H; discriminate.
    - destruct Hp' as [E|E]; rewrite E in H; discriminate.
  Qed.

  (* ---------- the end of a shutdown phase ---------- *)

  Lemma late_shut_len n M : late c M s n -> (M + shut_len c n <= now s)%N.
  Proof. intros (t & Hto & H). pose proof (shut_len_le_to c n t Hto). lia. Qed.

  Lemma maxl_bound (M : N) (f : nat -> N) (L : Prop) l : (M <= now s)%N ->
    (forall x, In x l -> (M + f x <= now s)%N \/ L) -> (M + maxl 0%N (map f l) <= now s)%N \/ L.
  Proof.
    intros HM. unfold maxl. induction l as [|a l IH]; intros H; cbn [map fold_right]; [left; lia|].
    destruct (H a (or_introl eq_refl)) as [H1|H1]; [|right; exact H1].
    destruct IH as [H2|H2]; [intros x Hx; apply H; right; exact Hx| |right; exact H2]. left. lia.
  Qed.

  (* a shutdown phase does not end before shut_len has elapsed *)
  Lemma finish_bound n : ph (Rn s n) = PShut WSuccess -> ph (Rn s' n) = POver ->
    (Mx c Sb Ef n + shut_len c n <= now s)%N.
  Proof.
    intros Ep Ep'. destruct (s_shut c Sb Ef s SC n Ep) as (A & B & C & D & F).
    assert (Hin : sd_inline s n = true) by (unfold sd_inline; rewrite Ep; reflexivity).
    assert (Hin' : sd_inline s' n = false) by (unfold sd_inline; rewrite Ep'; reflexivity).
    assert (Hne : ph (Rn s' n) <> ph (Rn s n)) by (rewrite Ep, Ep'; discriminate).
    pose proof HH as H. hs_cases H.
    - rewrite hC in Hin'. congruence.
    - exfalso. destruct (Nat.eq_dec n n0) as [->|Hn]; [congruence|apply Hne; apply hO; exact Hn].
    - exfalso. apply Hne. apply hO.
    - destruct (Nat.eq_dec n n0) as [->|Hn]; [|exfalso; apply Hne; apply hO; exact Hn].
      assert (Hall : forall x, In x (members c n0) ->
                (Mx c Sb Ef n0 + sdurN c x <= now s)%N \/ late c (Mx c Sb Ef n0) s n0).
      { intros x Hx. destruct (j_sched (jc c x)) eqn:Ea.
        - left. unfold sdurN. rewrite Ea. lia.
        - pose proof (F x Hx Ea) as Hh. pose proof (hF x Hx) as Hf. unfold hfin in Hf. unfold hd_ok in Hh.
          destruct (hs (Hd s x)); try discriminate; auto. }
      destruct (maxl_bound _ (sdurN c) _ (members c n0) A Hall) as [H1|H1].
      + pose proof (shut_len_le_d c n0). lia.
      + apply late_shut_len. exact H1.
    - exfalso. apply Hne. apply hO.
    - destruct (Nat.eq_dec n n0) as [->|Hn]; [|exfalso; apply Hne; apply hO; exact Hn].
      apply late_shut_len. apply D. exact hSp.
    - exfalso. apply Hne. apply hO.
    - exfalso. apply Hne. apply hO.
  Qed.

  Lemma step_job x : x < njobs c -> x <> 0 -> on_schedule c Sb Ef s' x.
  Proof.
    intros Hx H0. pose proof (s_job c Sb Ef s SC x Hx H0) as IH. unfold on_schedule in *. rewrite En.
    destruct (HJ x)
      as [H|H1 H2|Hsub H1 H2 H3 H4 H5|H1 H2 H3 H4 H5 H6 H7|H1 H2 H3 H4 H5 H6|Hsub H1 H2 H3 H4 H5 H6|Hsub H1 H2 H3 H4 H5
         |Hsub H1 H2 H3 H4 H5 H6|Hsub H1 H2 H3 H4 H5 H6 H7|Hsub H1 H2|Hsub H1 H2 H3].
    - rewrite H. exact IH.
    - rewrite H1, cancel_j_st, cancel_j_tend. exact IH.
    - rewrite Hcp in H3. discriminate.
    - rewrite H2. cbn [st]. rewrite H1 in IH. exact IH.
    - rewrite H1. cbn [st]. rewrite (create_begin_idle c s x I1 H3 H4) in IH. exact IH.
    - (* the job starts: it is the instant Sb x *)
      rewrite H3. rewrite H1 in IH. pose proof (created_Sb x Hx H0 H1) as Hge.
      pose proof (Ef_ge_Sb c Sb Ef HS x Hx) as Hse.
      split; [lia|]. split; [lia|]. intros Ha. rewrite H6, Ha.
      destruct (plain_atomic c P x Hx Ha) as ((d & Hd) & _). rewrite Hd. cbn [optN_add]. f_equal.
      rewrite (Ef_atomic c Sb Ef HS x Hx Ha). unfold durN. rewrite Hd. lia.
    - (* an empty scheduler begins and ends in the same step *)
      rewrite H5. cbn [st]. pose proof (created_Sb x Hx H0 H1) as Hge.
      rewrite (Ef_sched c Sb Ef HS x Hx H3), (shut_len_empty c x H4). unfold Mx. rewrite H4. cbn. lia.
    - (* the job ends *)
      rewrite H1 in IH. destruct IH as (IA & IB & IC0).
      assert (Hgoal : (Ef x <= now s)%N).
      { destruct (j_sched (jc c x)) eqn:Ea.
        - assert (Ho' : ph (Rn s' x) = POver) by (apply (done_over c s' SD' x H0 Ea H3)).
          assert (Hno : ph (Rn s x) <> POver).
          { intro E. destruct (k_over c s I3 x H0 Ea E) as [Hf _]. rewrite H1 in Hf. discriminate. }
          destruct (over_step x Hno Ho') as [[Hi _]|Hsh].
          + exfalso. destruct (running_main_or_exit c Sb Ef s SD SC x H0 Ea H1) as [E|[E|E]]; rewrite E in Hi; discriminate.
          + rewrite (Ef_sched c Sb Ef HS x Hx Ea). apply (finish_bound x Hsh Ho').
        - pose proof (atomic_done_at c s e s' x I8 Hs Hsub Ea H1 H2) as Htd.
          rewrite (IC0 eq_refl) in Htd. injection Htd as Htd. lia. }
      destruct (st (Jb s' x)); try discriminate; exact Hgoal.
    - rewrite Hcp in H2. discriminate.
    - exfalso. apply (jeff_cancelled_absurd x H1 Hx H0).
    - rewrite Hcp in H2. discriminate.
  Qed.

  Lemma step_root_idle : ph (Rn s' 0) = PIdle -> idle_all s' /\ now s' = 0%N.
  Proof.
    intros Ep'. pose proof (idle_back_ph 0 Ep') as Ep.
    destruct (s_root_idle c Sb Ef s SC Ep) as [(AJ & AR & AH & AS) An]. split; [|rewrite En; exact An].
    split; [|split].
    - intros x. pose proof (AJ x) as Ei.
      destruct (HJ x)
        as [H|H1 H2|Hsub H1 H2 H3 H4 H5|H1 H2 H3 H4 H5 H6 H7|H1 H2 H3 H4 H5 H6|Hsub H1 H2 H3 H4 H5 H6|Hsub H1 H2 H3 H4 H5
           |Hsub H1 H2 H3 H4 H5 H6|Hsub H1 H2 H3 H4 H5 H6 H7|Hsub H1 H2|Hsub H1 H2 H3];
        try (rewrite Ei in H1; discriminate).
      + rewrite H. exact Ei.
      + rewrite H1, cancel_j_st. exact Ei.
      + rewrite AR in H5. discriminate.
      + exfalso. destruct (rootb (parent c x)) eqn:Er.
        * apply rootb_true in Er. rewrite Er in H5. rewrite Ep' in H5. discriminate.
        * rewrite AJ in H4. discriminate.
      + destruct H1 as [H1|(H1 & _)]; rewrite Ei in H1; discriminate.
    - intros n.
      destruct (HR n) as [Hq _|Hact Hpre Hpost Hph _ _ _ _ _ _ _ _ _ _|Hact A1 A2 A3 Apost A4 A5 A6 A7 A8].
      + destruct Hq as (Hq & _). rewrite Hq. apply AR.
      + exfalso. destruct (rootb n) eqn:Er.
        * apply rootb_true in Er. subst n. rewrite Ep' in Hph. destruct Hph; discriminate.
        * rewrite AJ in Hpre. discriminate.
      + exfalso. apply A2. apply AR.
    - pose proof HH as H. hs_cases H.
      + split; [intros x; rewrite hA; apply AH|intros n; rewrite hB; apply AS].
      + exfalso. rewrite AR in hPh. destruct hPh as [E|[w E]]; discriminate.
      + exfalso. destruct hG as [(E & _)|(_ & _ & _ & E)].
        * rewrite AH in E. discriminate.
        * rewrite AR in E. discriminate.
      + exfalso. rewrite AS in hSp. discriminate.
      + exfalso. rewrite AS in hSp. discriminate.
      + exfalso. rewrite AS in hSp. discriminate.
      + exfalso. rewrite AS in hSp. destruct hSp; discriminate.
      + exfalso. destruct hV as [(_ & E & _)|[(_ & E & _)|[(_ & E & _)|(_ & E & _)]]]; rewrite AH in E; discriminate.
  Qed.

  Lemma root_sched : j_sched (jc c 0) = true /\ 0 < njobs c.
  Proof. apply wf_root. exact W. Qed.

  Lemma step_root_over : ph (Rn s' 0) = POver -> (Ef 0%nat <= now s')%N.
  Proof.
    intros Ep'. rewrite En. destruct root_sched as [Hrs Hrl].
    destruct (phase_eq_dec (ph (Rn s 0)) POver) as [E|E]; [apply (s_root_over c Sb Ef s SC E)|].
    rewrite (Ef_sched c Sb Ef HS 0 Hrl Hrs).
    destruct (over_step 0 E Ep') as [[_ Hm]|Hsh].
    - rewrite (shut_len_empty c 0 Hm). unfold Mx. rewrite Hm. cbn. rewrite (Sb_root c Sb Ef HS). lia.
    - apply (finish_bound 0 Hsh Ep').
  Qed.

  Lemma step_over_done n x : ph (Rn s' n) = POver -> In x (members c n) -> is_done (st (Jb s' x)) = true.
  Proof.
    intros Ep' Hx.
    assert (Hd : is_done (st (Jb s x)) = true).
    { destruct (phase_eq_dec (ph (Rn s n)) POver) as [E|E]; [apply (s_over_done c Sb Ef s SC n x E Hx)|].
      destruct (over_step n E Ep') as [[_ Hm]|Hsh].
      - rewrite Hm in Hx. destruct Hx.
      - apply (exit_members_done c Sb Ef s P SD SC n x); [right; left; exact Hsh|exact Hx]. }
    rewrite (finished_stable 3 c s e s' x W I1 Hs (done_finished0 _ Hd)). exact Hd.
  Qed.

  Lemma step_over_did n : ph (Rn s' n) = POver -> did (Sd s' n) = true \/ members c n = [].
  Proof.
    intros Ep'.
    destruct (phase_eq_dec (ph (Rn s n)) POver) as [E|E].
    - destruct (s_over_did c Sb Ef s SC n E) as [H|H]; [left|right; exact H].
      apply (did_mono c s s' I8 HH n H).
    - destruct (over_step n E Ep') as [[_ Hm]|Hsh]; [right; exact Hm|left].
      apply (did_mono c s s' I8 HH n). apply (k_inl c s I8 n). unfold sd_inline. rewrite Hsh. reflexivity.
  Qed.

  (* a co_shutdown() task that is about to take its first step belongs to a run that is over *)
  Lemma sdstart_over n :
    (hs (Hd s n) = HCreated /\ hcp (Hd s n) = false) \/
    (hs (Hd s n) <> HCreated /\ hs (Hd s n) <> HRunning /\ n = 0 /\ ph (Rn s 0) = POver) ->
    sched_id c n = true -> ph (Rn s n) = POver.
  Proof.
    intros [(E & _)|(_ & _ & -> & E)] Hsi; [|exact E].
    apply sched_id_iff in Hsi. destruct Hsi as [Hsn Hnl].
    apply (handler_over c Sb Ef s W P SD SC n); [|exact Hsn|rewrite E; discriminate].
    intros ->. apply (k_root c s I8 E).
  Qed.

  Lemma step_hr n : j_sched (jc c n) = true -> hs (Hd s' n) <> HRunning.
  Proof.
    intros Hsn Er.
    destruct (hd_view c s s' n W I8 HH) as [H|n1 H1 H2 H3 H4|H1 H2 H3 H4|H1 H2 H3 H4 H5|H1 H2 H3 H4 H5 H6|v H1 H2].
    - rewrite H in Er. apply (s_hr c Sb Ef s SC n Hsn Er).
    - rewrite H4 in Er. discriminate.
    - rewrite H1 in Er. apply (s_hr c Sb Ef s SC n Hsn Er).
    - pose proof (sdstart_over n H2 H1) as Ho.
      destruct H5 as [[E _]|(_ & Hnd & Hne)]; [rewrite E in Er; discriminate|].
      destruct (s_over_did c Sb Ef s SC n Ho) as [H|H]; [congruence|contradiction].
    - destruct H6 as [E|E]; rewrite E in Er; discriminate.
    - rewrite H1 in Er. destruct H2 as [(Ha & _)|[(Ha & _)|[(Ha & _)|(_ & _ & _ & Ev)]]];
        try (destruct (atomic_id_spec _ _ Ha) as (Ha1 & _); congruence).
      rewrite Ev in Er. discriminate.
  Qed.

  Lemma step_did n : did (Sd s' n) = true -> ph (Rn s' n) <> PIdle.
  Proof.
    intros Hd' Ep'. pose proof (idle_back_ph n Ep') as Ep.
    destruct (did (Sd s n)) eqn:Ed; [apply (s_did c Sb Ef s SC n Ed Ep)|].
    assert (Hna : sd_active (sp (Sd s n)) -> False).
    { intros Ha. rewrite (active_did c s n I8 Ha) in Ed. discriminate. }
    pose proof HH as H. hs_cases H.
    - rewrite hB, Ed in Hd'. discriminate.
    - rewrite hB in Hd'. unfold sd_create in Hd'. destruct (Nat.eqb_spec n n0) as [->|Hn]; [|rewrite Ed in Hd'; discriminate].
      unfold sd_inline in hI. rewrite Ep' in hI. discriminate.
    - rewrite hB in Hd'. unfold sd_create in Hd'. destruct (Nat.eqb_spec n n0) as [->|Hn]; [|rewrite Ed in Hd'; discriminate].
      pose proof (sdstart_over n0 hG hSch) as Ho. rewrite Ep in Ho. discriminate.
    - rewrite hB in Hd'. destruct (Nat.eqb_spec n n0) as [->|Hn]; [|rewrite Ed in Hd'; discriminate].
      apply Hna. left. exact hSp.
    - rewrite hB in Hd'. destruct (Nat.eqb_spec n n0) as [->|Hn]; [|rewrite Ed in Hd'; discriminate].
      apply Hna. left. exact hSp.
    - rewrite hB in Hd'. destruct (Nat.eqb_spec n n0) as [->|Hn]; [|rewrite Ed in Hd'; discriminate].
      apply Hna. right. exact hSp.
    - rewrite hB in Hd'. destruct (Nat.eqb_spec n n0) as [->|Hn]; [|rewrite Ed in Hd'; discriminate].
      apply Hna. exact hSp.
    - rewrite hB, Ed in Hd'. discriminate.
  Qed.

  (* ---------- inside a shutdown phase ---------- *)

  Lemma hd_ok_same M n x : Hd s' x = Hd s x -> hd_ok c M s n x -> hd_ok c M s' n x.
  Proof.
    assert (Hle : (now s <= now s')%N) by (rewrite En; lia).
    intros E H. unfold hd_ok in *. rewrite E, En. destruct (hs (Hd s x)); auto.
    - destruct H as [H1 H2]. split; [exact H1|]. intros Hc. apply (late_mono c M s s' n Hle (H2 Hc)).
    - apply (late_mono c M s s' n Hle H).
  Qed.

  Lemma shut_keep n : ph (Rn s n) = PShut WSuccess -> Sd s' n = Sd s n ->
    (forall x, In x (members c n) -> j_sched (jc c x) = false -> hd_ok c (Mx c Sb Ef n) s' n x) ->
    shut_ok c Sb Ef s' n.
  Proof.
    assert (Hle : (now s <= now s')%N) by (rewrite En; lia).
    intros Ep ES F'. destruct (s_shut c Sb Ef s SC n Ep) as (A & B & C & D & F).
    unfold shut_ok. cbn zeta. rewrite ES, En. split; [exact A|]. split; [exact B|]. split; [exact C|].
    split; [|exact F']. intros H. apply (late_mono c _ s s' n Hle (D H)).
  Qed.

  Lemma active_sched n : sd_active (sp (Sd s n)) -> sched_id c n = true.
  Proof. intros H. apply (k_valid c s I8). apply (active_did c s n I8 H). Qed.

  Lemma no_sd_cancel n : sd_thread c s n true -> sd_active (sp (Sd s n)) -> False.
  Proof.
    unfold sd_thread. intros H Ha. destruct (sd_inline s n).
    - destruct (run_alive_true _ _ _ H) as (_ & _ & _ & _ & H1). rewrite Hcp in H1. discriminate.
    - destruct H as [H _]. pose proof (active_sched n Ha) as Hsi. apply sched_id_iff in Hsi.
      destruct Hsi as [Hsn _]. apply (s_hr c Sb Ef s SC n Hsn H).
  Qed.

  Lemma step_shut n : ph (Rn s' n) = PShut WSuccess -> shut_ok c Sb Ef s' n.
  Proof.
    intros Ep'.
    assert (Hle : (now s <= now s')%N) by (rewrite En; lia).
    assert (Hsi : sched_id c n = true) by (apply (t_validr c s' IT'); rewrite Ep'; discriminate).
    apply sched_id_iff in Hsi. destruct Hsi as [Hsn Hn].
    assert (Hpar : forall x n0, In x (members c n) -> In x (members c n0) -> n0 = n).
    { intros x n0 H1 H2. apply In_members in H1, H2. destruct H1 as (_ & H1 & _), H2 as (_ & H2 & _). congruence. }
    assert (Hatom : forall x n0, j_sched (jc c x) = false -> sched_id c n0 = true -> x <> n0).
    { intros x n0 Ha Hs0 ->. apply sched_id_iff in Hs0. destruct Hs0 as [Hs0 _]. congruence. }
    destruct (phase_eq_dec (ph (Rn s n)) (PShut WSuccess)) as [Ep|Ep].
    - (* the phase goes on *)
      destruct (s_shut c Sb Ef s SC n Ep) as (A & B & C & D & F).
      assert (Hin : sd_inline s n = true) by (unfold sd_inline; rewrite Ep; reflexivity).
      pose proof HH as H. hs_cases H.
      + apply (shut_keep n Ep (hB n)). intros x Hx Ha. apply hd_ok_same; [apply hA|apply (F x Hx Ha)].
      + assert (Hnn : n <> n0).
        { intros ->. rewrite Ep in hPh. destruct hPh as [E|[w E]]; discriminate. }
        apply (shut_keep n Ep).
        * rewrite hB. unfold sd_create. apply Nat.eqb_neq in Hnn. rewrite Hnn. reflexivity.
        * intros x Hx Ha. apply hd_ok_same; [|apply (F x Hx Ha)]. rewrite hA. unfold hd_create.
          destruct (did (Sd s n0)); [reflexivity|]. destruct (memb x (members c n0)) eqn:Em; [|reflexivity].
          exfalso. apply Hnn. symmetry. apply (Hpar x n0 Hx). apply memb_In. exact Em.
      + assert (Hnn : n <> n0).
        { intros ->. pose proof (sdstart_over n0 hG hSch) as Ho. rewrite Ep in Ho. discriminate. }
        apply (shut_keep n Ep).
        * rewrite hB. unfold sd_create. apply Nat.eqb_neq in Hnn. rewrite Hnn. reflexivity.
        * intros x Hx Ha. apply hd_ok_same; [|apply (F x Hx Ha)]. rewrite hA.
          pose proof (Hatom x n0 Ha hSch) as Hxn. apply Nat.eqb_neq in Hxn. rewrite Hxn. unfold hd_create.
          destruct (did (Sd s n0)); [reflexivity|]. destruct (memb x (members c n0)) eqn:Em; [|reflexivity].
          exfalso. apply Hnn. symmetry. apply (Hpar x n0 Hx). apply memb_In. exact Em.
      + assert (Hnn : n <> n0).
        { intros ->. rewrite Hin in hX. destruct hX as [E _]. rewrite E in Ep'. discriminate. }
        apply (shut_keep n Ep).
        * rewrite hB. apply Nat.eqb_neq in Hnn. rewrite Hnn. reflexivity.
        * intros x Hx Ha. apply hd_ok_same; [|apply (F x Hx Ha)].
          destruct (sd_inline s n0); destruct hX as [_ hX]; rewrite hX; [reflexivity|].
          pose proof (Hatom x n0 Ha (active_sched n0 (or_introl hSp))) as Hxn. apply Nat.eqb_neq in Hxn.
          rewrite Hxn. reflexivity.
      + destruct (Nat.eq_dec n n0) as [<-|Hnn].
        * (* the wait of n has expired: the handlers still pending are cancelled *)
          assert (Hlate : late c (Mx c Sb Ef n) s' n).
          { rewrite (C hSp) in hDl. destruct (j_sdto (jc c n)) as [to|] eqn:Eto; [|discriminate].
            cbn [optN_add opt_le_now] in hDl. apply N.leb_le in hDl. exists to. split; [exact Eto|lia]. }
          unfold shut_ok. cbn zeta. rewrite hB, Nat.eqb_refl, En. cbn [sp sdl].
          split; [exact A|]. split; [exact B|]. split; [intros E; discriminate|]. split; [intros _; exact Hlate|].
          intros x Hx Ha. destruct (memb x p0) eqn:Em; [|apply hd_ok_same; [rewrite hA, Em; reflexivity|apply (F x Hx Ha)]].
          pose proof (F x Hx Ha) as Hh. unfold hd_ok in *. rewrite hA, Em.
          apply memb_In in Em. apply hP in Em. destruct Em as [_ Hnf]. unfold hfin in Hnf.
          unfold cancel_h. destruct (hs (Hd s x)) eqn:Ehx; try discriminate; cbn [hfinished hs hend hcp].
          -- exact I.
          -- exfalso. apply (stepped_not_created c s n x hSt Hx Ehx).
          -- destruct Hh as [H1 _]. split; [exact H1|]. intros _. exact Hlate.
        * apply (shut_keep n Ep).
          -- rewrite hB. apply Nat.eqb_neq in Hnn. rewrite Hnn. reflexivity.
          -- intros x Hx Ha. apply hd_ok_same; [|apply (F x Hx Ha)]. rewrite hA.
             destruct (memb x p0) eqn:Em; [|reflexivity]. exfalso. apply Hnn. symmetry.
             apply memb_In in Em. apply hP in Em. destruct Em as [Em _]. apply (Hpar x n0 Hx Em).
      + assert (Hnn : n <> n0).
        { intros ->. rewrite Hin in hX. destruct hX as [E _]. rewrite E in Ep'. discriminate. }
        apply (shut_keep n Ep).
        * rewrite hB. apply Nat.eqb_neq in Hnn. rewrite Hnn. reflexivity.
        * intros x Hx Ha. apply hd_ok_same; [|apply (F x Hx Ha)].
          destruct (sd_inline s n0); destruct hX as [_ hX]; rewrite hX; [reflexivity|].
          pose proof (Hatom x n0 Ha (active_sched n0 (or_intror hSp))) as Hxn. apply Nat.eqb_neq in Hxn.
          rewrite Hxn. reflexivity.
      + exfalso. apply (no_sd_cancel n0 hTh). exact hSp.
      + (* an event of one handler *)
        apply (shut_keep n Ep (hB n)). intros x Hx Ha.
        destruct (Nat.eqb_spec x j0) as [->|Hxj].
        2:{ apply hd_ok_same; [|apply (F x Hx Ha)]. rewrite hA. apply Nat.eqb_neq in Hxj. rewrite Hxj. reflexivity. }
        pose proof (F j0 Hx Ha) as Hh. unfold hd_ok in *.
        assert (Ev : Hd s' j0 = v0) by (rewrite hA, Nat.eqb_refl; reflexivity).
        pose proof (proj1 (In_members c n j0) Hx) as (Hjl & _ & _).
        destruct hV as [(_ & E1 & E2 & E3)|[(_ & E1 & E2 & E3)|[(_ & E1 & E2 & E3)|(_ & E1 & E2 & E3)]]];
          rewrite E1 in Hh; rewrite Ev, E3; cbn [hs hend hcp].
        * (* it starts, in the instant the shutdown began *)
          destruct (plain_atomic c P j0 Hjl Ha) as (_ & _ & (d & Hd0)). rewrite Hd0. cbn [optN_add].
          unfold sdurN. rewrite Ha, Hd0. rewrite Hh. split; [reflexivity|intros; discriminate].
        * (* it ends, at its deadline *)
          destruct Hh as [H1 _].
          assert (Ed : hs (Hd s' j0) = HDone) by (rewrite Ev, E3; reflexivity).
          pose proof (handler_done_at c s e s' j0 W I8 Hs Ha E1 Ed) as Hend. rewrite H1 in Hend.
          injection Hend as Hend. rewrite En. lia.
        * destruct Hh as [_ H2]. apply (late_mono c _ s s' n Hle (H2 E2)).
        * rewrite (k_fifo c s I8 j0 E1) in E2. discriminate.
    - (* the phase begins: it is the instant M *)
      assert (Hni : sd_inline s n = false).
      { unfold sd_inline. destruct (Hok n) as [E|[E|[E|[E|E]]]]; rewrite E; try reflexivity. contradiction. }
      assert (Hin' : sd_inline s' n = true) by (unfold sd_inline; rewrite Ep'; reflexivity).
      assert (Hne : ph (Rn s' n) <> ph (Rn s n)) by (rewrite Ep'; intro E; apply Ep; symmetry; exact E).
      pose proof HH as H. hs_cases H.
      + rewrite hC in Hin'. congruence.
      + destruct (Nat.eq_dec n n0) as [<-|Hnn]; [|exfalso; apply Hne; apply hO; exact Hnn].
        assert (Hph : ph (Rn s n) = PMain \/ ph (Rn s n) = PTidy WSuccess).
        { destruct hPh as [E|[w E]]; [left; exact E|right]. destruct (Hok n) as [E1|[E1|[E1|[E1|E1]]]]; rewrite E1 in E; try discriminate. exact E1. }
        assert (Hnd : did (Sd s n) = false).
        { destruct (did (Sd s n)) eqn:Ed; [exfalso|reflexivity].
          destruct (k_phase c s I8 n Ed) as [H1|[H1|(H1 & _)]]; [congruence| |];
            destruct Hph as [E|E]; rewrite E in H1; discriminate. }
        assert (Hmne : members c n <> []).
        { apply (p_members c s (sd_P c s SD) n); destruct Hph as [E|E]; rewrite E; discriminate. }
        assert (HnowM : now s = Mx c Sb Ef n).
        { pose proof (s_mainM c Sb Ef s SC n Hn Hsn Hph) as H1.
          assert (H2 : (Mx c Sb Ef n <= now s)%N).
          { apply Mx_le.
            - apply (begun_Sb c Sb Ef s HS SD SC n Hn Hsn). destruct Hph as [E|E]; rewrite E; discriminate.
            - intros m Hm. pose proof (proj1 (In_members c n m) Hm) as (Hml & _ & Hm0).
              destruct (succ_all_seen c P s' n I1' I5' (or_intror Ep') m Hm) as [_ Hmd].
              pose proof (step_job m Hml Hm0) as Hj. unfold on_schedule in Hj. rewrite En in Hj.
              destruct (st (Jb s' m)); try discriminate; exact Hj. }
          lia. }
        unfold shut_ok. cbn zeta. rewrite hB. unfold sd_create. rewrite Nat.eqb_refl, Hnd. unfold sd_started.
        destruct (members c n) as [|m0 ms] eqn:Em; [contradiction|]. rewrite <- Em. cbn [sp sdl]. rewrite En.
        split; [lia|]. split; [lia|]. split; [intros _; rewrite HnowM; reflexivity|]. split; [intros E; discriminate|].
        intros x Hx Ha. unfold hd_ok. rewrite hA. unfold hd_create. rewrite Hnd.
        apply memb_In in Hx. rewrite Hx. cbn [create_h hs]. rewrite En. exact HnowM.
      + exfalso. apply Hne. apply hO.
      + exfalso. destruct (Nat.eq_dec n n0) as [<-|Hnn]; [|apply Hne; apply hO; exact Hnn].
        rewrite Hni in hX. destruct hX as [E _]. apply Hne. exact E.
      + exfalso. apply Hne. apply hO.
      + exfalso. destruct (Nat.eq_dec n n0) as [<-|Hnn]; [|apply Hne; apply hO; exact Hnn].
        rewrite Hni in hX. destruct hX as [E _]. apply Hne. exact E.
      + exfalso. apply Hne. apply hO.
      + exfalso. apply Hne. apply hO.
  Qed.

  Hypothesis Hcalm : calm c Ef s'.

  Lemma step_nce x : crit_exc c s' x = false.
  Proof.
    destruct (crit_exc c s' x) eqn:Ec; [exfalso|reflexivity].
    unfold crit_exc in Ec. apply andb_true_iff in Ec. destruct Ec as [Hcr Hex].
    destruct (st (Jb s' x)) as [| | | | |t|] eqn:Est; try discriminate.
    assert (Hx : x < njobs c) by (apply (t_validj c s' IT'); rewrite Est; discriminate).
    assert (H0 : x <> 0).
    { intros ->. rewrite (p_root c s' (sd_P c s' SD')) in Est. discriminate. }
    destruct (exc_step 3 c s e s' x t Hs Est) as [H|[(He & Ha & _)|(_ & Hsx & k & d & o & _ & _ & Hi & _ & Hv)]].
    - pose proof (s_nce c Sb Ef s SC x) as Hn. unfold crit_exc in Hn. rewrite Hcr, H in Hn. discriminate.
    - assert (Hout : j_out (jc c x) = OExc).
      { destruct (step_inv _ _ _ _ _ Hs) as [_ Hg]. rewrite He in Hg. split_guards Hg.
        destruct (j_out (jc c x)); [discriminate|reflexivity]. }
      assert (Hbad : bad_job c x = true) by (unfold bad_job; rewrite Ha, Hcr, Hout; reflexivity).
      pose proof (Hcalm x Hx Hbad) as Hlt.
      pose proof (step_job x Hx H0) as Hj. unfold on_schedule in Hj. rewrite Est in Hj. lia.
    - unfold sd_inline in Hi. destruct (ph (Rn s x)) as [| | |w| |] eqn:Ep; try discriminate.
      rewrite (shut_success x w Ep) in Ep. unfold why_of in Hv. rewrite Ep in Hv. cbn in Hv. discriminate.
  Qed.

  Theorem Sch_step : Sch c Sb Ef s'.
  Proof.
    split.
    - apply step_job.
    - apply step_cp.
    - apply step_rc.
    - apply step_ph.
    - apply step_root_idle.
    - apply step_root_over.
    - apply step_over_done.
    - apply step_over_did.
    - apply step_hr.
    - apply step_did.
    - apply step_nce.
    - apply step_expi.
    - apply step_mainM.
    - apply step_shut.
  Qed.
End Step.

(* ------------------------------------------------------------------ every reachable calm state *)

Lemma now_mono_step c s e s' : wf c = true -> step 3 c s e = Some s' -> (now s <= now s')%N.
Proof.
  intros W Hs. destruct (is_tick e) eqn:Et.
  - destruct (tick_guards 3 c s e s' (le_S 2 2 (le_n 2)) Hs Et) as (_ & _ & _ & _ & Hlt & _). lia.
  - rewrite (now_step 3 c s e s' W Hs Et). lia.
Qed.

(* [calm] is inherited backwards: the clock never goes back *)
Lemma calm_back c Ef s s' : (now s <= now s')%N -> calm c Ef s' -> calm c Ef s.
Proof. intros Hle Hc x Hx Hb. specialize (Hc x Hx Hb). lia. Qed.

Theorem Sch_reach c Sb Ef h s : wf c = true -> plainH c = true -> is_scheduleH c Sb Ef -> slackH c Sb Ef ->
  Reach 3 c h s -> calm c Ef s -> Sch c Sb Ef s.
Proof.
  intros W P HS SL Hr. revert h s Hr. apply (reach_ind 3 c (fun _ s => calm c Ef s -> Sch c Sb Ef s)).
  - intros _. apply Sch_init. apply (Sb_root c Sb Ef HS).
  - intros h s e s' Hr IH Hs Hc'.
    assert (Hc : calm c Ef s) by (apply (calm_back c Ef s s' (now_mono_step c s e s' W Hs) Hc')).
    pose proof (IH Hc) as SC.
    pose proof (Std_reach c h s W Hr) as SD.
    pose proof (Std_reach c (h ++ [e]) s' W (reach_snoc 3 c h e s s' Hr Hs)) as SD'.
    destruct (is_tick e) eqn:Et.
    + apply (Sch_tick c Sb Ef s e s' W P HS SD SC Hs Et).
    + apply (Sch_step c Sb Ef s s' e W P HS SL SD SD' SC Hs Et Hc').
Qed.

(* ------------------------------------------------------------------ shutdown handlers that take time *)

(* as long as no critical job has reached the instant at which it raises, every job is where the
   schedule WITH SHUTDOWN PHASES says: a nested scheduler ends, for the jobs that require it,
   shut_len after the end of its main loop *)
Theorem runs_on_scheduleH c S E h s :
  wf c = true -> plainH c = true -> is_scheduleH c S E -> slackH c S E ->
  Reach 3 c h s -> calm c E s ->
  forall x, x < njobs c -> x <> 0 -> on_schedule c S E s x.
Proof.
  intros W P HS SL Hr Hc x Hx H0. apply (s_job c S E s (Sch_reach c S E h s W P HS SL Hr Hc) x Hx H0).
Qed.

(* everything about the phases of one run, M being the end of its main loop *)
Lemma phases_general c S E h s :
  wf c = true -> plainH c = true -> is_scheduleH c S E -> slackH c S E ->
  Reach 3 c h s -> calm c E s ->
  forall n, n < njobs c -> j_sched (jc c n) = true ->
    let M := Mx c S E n in
    (ph (Rn s n) = PIdle -> (now s <= S n)%N) /\
    (ph (Rn s n) <> PIdle -> (S n <= now s)%N) /\
    okph (ph (Rn s n)) /\
    (ph (Rn s n) = PMain \/ ph (Rn s n) = PTidy WSuccess -> (now s <= M)%N) /\
    (ph (Rn s n) = PTidy WSuccess \/ ph (Rn s n) = PShut WSuccess \/ ph (Rn s n) = POver -> (M <= now s)%N) /\
    (ph (Rn s n) = PShut WSuccess -> (now s <= M + shut_len c n)%N) /\
    (ph (Rn s n) = POver -> (M + shut_len c n <= now s)%N) /\
    E n = (M + shut_len c n)%N.
Proof.
  intros W P HS SL Hr Hc n Hn Hs. cbn zeta.
  pose proof (Sch_reach c S E h s W P HS SL Hr Hc) as SC.
  pose proof (Std_reach c h s W Hr) as SD.
  split; [apply (idle_Sb c S E s SD SC n Hn Hs)|].
  split; [apply (begun_Sb c S E s HS SD SC n Hn Hs)|].
  split; [apply (s_ph c S E s SC n)|].
  split; [apply (s_mainM c S E s SC n Hn Hs)|].
  split.
  { intros Hex. apply Mx_le.
    - apply (begun_Sb c S E s HS SD SC n Hn Hs). destruct Hex as [H|[H|H]]; rewrite H; discriminate.
    - intros m Hm. pose proof (proj1 (In_members c n m) Hm) as (Hml & _ & Hm0).
      apply (done_Ef c S E s SC m Hml Hm0). apply (exit_members_done c S E s P SD SC n m Hex Hm). }
  split; [intros Ep; destruct (s_shut c S E s SC n Ep) as (_ & B & _); exact B|].
  split; [|apply (Ef_sched c S E HS n Hn Hs)].
  intros Ep. rewrite <- (Ef_sched c S E HS n Hn Hs). apply (over_Ef c S E s SD SC n Hn Hs Ep).
Qed.

(* the phases of every run, the root included: main loop from S n to M, shutdown phase from M to
   M + shut_len (the tidy phase in between is never reached: nothing is left to cancel) *)
Theorem shutdown_phase_on_schedule c S E h s :
  wf c = true -> plainH c = true -> is_scheduleH c S E -> slackH c S E ->
  Reach 3 c h s -> calm c E s ->
  forall n, n < njobs c -> j_sched (jc c n) = true ->
    let M := maxl (S n) (map E (members c n)) in
    (ph (Rn s n) = PMain -> (S n <= now s)%N /\ (now s <= M)%N) /\
    (ph (Rn s n) = PShut WSuccess -> (M <= now s)%N /\ (now s <= M + shut_len c n)%N) /\
    (ph (Rn s n) = POver -> (M + shut_len c n <= now s)%N /\ (n <> 0 -> (E n <= now s)%N)) /\
    okph (ph (Rn s n)).
Proof.
  intros W P HS SL Hr Hc n Hn Hs. cbn zeta.
  destruct (phases_general c S E h s W P HS SL Hr Hc n Hn Hs) as (A1 & A2 & A3 & A4 & A5 & A6 & A7 & A8).
  unfold Mx in *. split; [|split; [|split; [|exact A3]]].
  - intros Ep. split; [apply A2; rewrite Ep; discriminate|apply A4; left; exact Ep].
  - intros Ep. split; [apply A5; right; left; exact Ep|apply A6; exact Ep].
  - intros Ep. split; [apply A7; exact Ep|]. intros _. rewrite A8. apply A7. exact Ep.
Qed.

(* the shutdown wait, the handlers: what [shut_len] is made of *)
Theorem shutdown_phase_details c S E h s :
  wf c = true -> plainH c = true -> is_scheduleH c S E -> slackH c S E ->
  Reach 3 c h s -> calm c E s ->
  forall n, ph (Rn s n) = PShut WSuccess -> shut_ok c S E s n.
Proof.
  intros W P HS SL Hr Hc n Ep. apply (s_shut c S E s (Sch_reach c S E h s W P HS SL Hr Hc) n Ep).
Qed.

Theorem timeouts_never_fireH c S E h s :
  wf c = true -> plainH c = true -> is_scheduleH c S E -> slackH c S E ->
  Reach 3 c h s -> calm c E s ->
  forall n, n < njobs c -> j_sched (jc c n) = true ->
    okph (ph (Rn s n)) /\
    (ph (Rn s n) = PMain -> forall T, j_timeout (jc c n) = Some T ->
       expi (Rn s n) = Some (S n + T)%N /\ (now s <= Mx c S E n)%N /\ (Mx c S E n < S n + T)%N).
Proof.
  intros W P HS SL Hr Hc n Hn Hs. pose proof (Sch_reach c S E h s W P HS SL Hr Hc) as SC.
  split; [apply (s_ph c S E s SC n)|]. intros Ep T HT.
  split; [rewrite (s_expi c S E s SC n Ep), HT; reflexivity|].
  split; [apply (s_mainM c S E s SC n Hn Hs); left; exact Ep|apply (SL n T Hn Hs HT)].
Qed.

Corollary not_started_beforeH c S E h s x :
  wf c = true -> plainH c = true -> is_scheduleH c S E -> slackH c S E ->
  Reach 3 c h s -> calm c E s -> x < njobs c -> x <> 0 ->
  (now s < S x)%N -> st (Jb s x) = Idle \/ st (Jb s x) = Created.
Proof.
  intros W P HS SL Hr Hc Hx H0 Hlt.
  pose proof (runs_on_scheduleH c S E h s W P HS SL Hr Hc x Hx H0) as H. unfold on_schedule in H.
  pose proof (Ef_ge_Sb c S E HS x Hx) as Hse.
  destruct (st (Jb s x)); auto; try contradiction; exfalso; lia.
Qed.

Corollary running_betweenH c S E h s x :
  wf c = true -> plainH c = true -> is_scheduleH c S E -> slackH c S E ->
  Reach 3 c h s -> calm c E s -> x < njobs c -> x <> 0 ->
  (S x < now s)%N -> (now s < E x)%N -> st (Jb s x) = Running.
Proof.
  intros W P HS SL Hr Hc Hx H0 Hlt1 Hlt2.
  pose proof (runs_on_scheduleH c S E h s W P HS SL Hr Hc x Hx H0) as H. unfold on_schedule in H.
  destruct (st (Jb s x)); auto; try contradiction; exfalso; lia.
Qed.

Corollary done_afterH c S E h s x :
  wf c = true -> plainH c = true -> is_scheduleH c S E -> slackH c S E ->
  Reach 3 c h s -> calm c E s -> x < njobs c -> x <> 0 ->
  (E x < now s)%N -> is_done (st (Jb s x)) = true.
Proof.
  intros W P HS SL Hr Hc Hx H0 Hlt.
  pose proof (runs_on_scheduleH c S E h s W P HS SL Hr Hc x Hx H0) as H. unfold on_schedule in H.
  pose proof (Ef_ge_Sb c S E HS x Hx) as Hse.
  destruct (st (Jb s x)); auto; try contradiction; exfalso; lia.
Qed.

Corollary calm_never_cancelsH c S E h s :
  wf c = true -> plainH c = true -> is_scheduleH c S E -> slackH c S E ->
  Reach 3 c h s -> calm c E s ->
  (forall x, cp (Jb s x) = false) /\ (forall n, rcanc (Rn s n) = false) /\
  (forall x, x < njobs c -> x <> 0 -> st (Jb s x) <> Cancelling /\ st (Jb s x) <> Cancelled) /\
  (forall x, crit_exc c s x = false).
Proof.
  intros W P HS SL Hr Hc. pose proof (Sch_reach c S E h s W P HS SL Hr Hc) as SC.
  split; [apply (s_cp c S E s SC)|]. split; [apply (s_rc c S E s SC)|].
  split; [intros x Hx H0; apply (not_cancelled c S E s SC x Hx H0)|apply (s_nce c S E s SC)].
Qed.

Lemma is_scheduleHb_sound c lS lE : is_scheduleHb c lS lE = true -> is_scheduleH c (tab lS) (tab lE).
Proof.
  unfold is_scheduleHb. rewrite andb_true_iff, forallb_forall. intros [H0 H]. split; [apply N.eqb_eq; exact H0|].
  intros x Hx. specialize (H x (proj2 (In_all_ids c x) Hx)). apply andb_true_iff in H. destruct H as [H1 H2].
  split; [|split].
  - intros Hx0. apply orb_true_iff in H1. destruct H1 as [H1|H1].
    + apply Nat.eqb_eq in H1. contradiction.
    + apply N.eqb_eq. exact H1.
  - intros Ha. rewrite Ha in H2. apply N.eqb_eq. exact H2.
  - intros Ha. rewrite Ha in H2. apply N.eqb_eq. exact H2.
Qed.

(* ------------------------------------------------------------------ handlers that take no time (C08) *)

Section NoTime.
  Variables (c : cfg) (S E : nat -> N).
  Hypothesis P : plainT c = true.
  Hypothesis HS : is_schedule c S E.
  Hypothesis SL : slack c S E.

  Let PH := plainT_plainH c P.
  Let HSH := proj1 (plain_scheduleH c S E P) HS.
  Let SLH := slack_slackH c S E HS SL.

  Lemma Ef_is_Mx n : n < njobs c -> j_sched (jc c n) = true -> E n = Mx c S E n.
  Proof. intros Hn Hs. pose proof HS as [_ H]. destruct (H n Hn) as (_ & _ & C). exact (C Hs). Qed.

  (* C08/C10/C12 in closed form: as long as no critical job has reached the instant at which it
     raises, every job of a tree whose timeouts are longer than the scheduled runs is where the
     schedule OF THE TREE WITHOUT ITS TIMEOUTS says ([is_schedule] does not mention timeouts) *)
  Theorem runs_on_schedule_timeouts0 h s : wf c = true -> Reach 3 c h s -> calm c E s ->
    forall x, x < njobs c -> x <> 0 -> on_schedule c S E s x.
  Proof. intros W. apply (runs_on_scheduleH c S E h s W PH HSH SLH). Qed.

  Theorem timeouts_never_fire0 h s : wf c = true -> Reach 3 c h s -> calm c E s ->
    forall n, n < njobs c -> j_sched (jc c n) = true ->
      okph (ph (Rn s n)) /\
      (ph (Rn s n) = PMain -> forall T, j_timeout (jc c n) = Some T -> expi (Rn s n) = Some (S n + T)%N).
  Proof.
    intros W Hr Hc n Hn Hs. destruct (timeouts_never_fireH c S E h s W PH HSH SLH Hr Hc n Hn Hs) as [A B].
    split; [exact A|]. intros Ep T HT. apply (B Ep T HT).
  Qed.

  Corollary expiration_ahead0 h s : wf c = true -> Reach 3 c h s -> calm c E s ->
    forall n T, n < njobs c -> j_sched (jc c n) = true -> j_timeout (jc c n) = Some T ->
      ph (Rn s n) = PMain -> (now s <= E n)%N /\ (E n < S n + T)%N /\ expi (Rn s n) = Some (S n + T)%N.
  Proof.
    intros W Hr Hc n T Hn Hs HT Ep.
    destruct (timeouts_never_fireH c S E h s W PH HSH SLH Hr Hc n Hn Hs) as [_ B].
    destruct (B Ep T HT) as (B1 & B2 & B3). rewrite (Ef_is_Mx n Hn Hs). auto.
  Qed.

  Theorem runs_phases0 h s : wf c = true -> Reach 3 c h s -> calm c E s ->
    forall n, n < njobs c -> j_sched (jc c n) = true ->
      (ph (Rn s n) = PIdle -> (now s <= S n)%N) /\
      (ph (Rn s n) = PMain -> (S n <= now s)%N) /\
      (ph (Rn s n) = POver -> (E n <= now s)%N) /\
      okph (ph (Rn s n)) /\
      (ph (Rn s n) <> PIdle -> (S n <= now s)%N) /\
      (ph (Rn s n) = PMain -> (now s <= E n)%N) /\
      (ph (Rn s n) = PTidy WSuccess \/ ph (Rn s n) = PShut WSuccess ->
       (E n <= now s)%N /\ (n <> 0 -> now s = E n)).
  Proof.
    intros W Hr Hc n Hn Hs.
    destruct (phases_general c S E h s W PH HSH SLH Hr Hc n Hn Hs) as (A1 & A2 & A3 & A4 & A5 & A6 & A7 & A8).
    rewrite (shut_len_plainT c n P) in *. rewrite <- (Ef_is_Mx n Hn Hs) in *.
    split; [exact A1|]. split; [intros Ep; apply A2; rewrite Ep; discriminate|].
    split; [intros Ep; pose proof (A7 Ep); lia|]. split; [exact A3|]. split; [exact A2|].
    split; [intros Ep; apply A4; left; exact Ep|].
    intros Hex.
    assert (H1 : (E n <= now s)%N) by (apply A5; destruct Hex as [H|H]; auto).
    split; [exact H1|]. intros _. destruct Hex as [H|H].
    - pose proof (A4 (or_intror H)). lia.
    - pose proof (A6 H). lia.
  Qed.
End NoTime.

Theorem runs_on_schedule_timeouts c S E h s :
  wf c = true -> plainT c = true -> is_schedule c S E -> slack c S E ->
  Reach 3 c h s -> calm c E s ->
  forall x, x < njobs c -> x <> 0 -> on_schedule c S E s x.
Proof. intros W P HS SL. apply (runs_on_schedule_timeouts0 c S E P HS SL h s W). Qed.

(* ... and no timeout ever fires: no run is ever in a timeout, critical or cancelled phase, and
   the expiration of a run in its main loop is T after the beginning S n of that very run (for the
   root, S 0 = 0: T after the beginning of the whole execution) *)
Theorem timeouts_never_fire c S E h s :
  wf c = true -> plainT c = true -> is_schedule c S E -> slack c S E ->
  Reach 3 c h s -> calm c E s ->
  forall n, n < njobs c -> j_sched (jc c n) = true ->
    okph (ph (Rn s n)) /\
    (ph (Rn s n) = PMain -> forall T, j_timeout (jc c n) = Some T -> expi (Rn s n) = Some (S n + T)%N).
Proof. intros W P HS SL. apply (timeouts_never_fire0 c S E P HS SL h s W). Qed.

(* more precisely: while the run of n is in its main loop the clock is strictly before the
   expiration *)
Corollary expiration_ahead c S E h s :
  wf c = true -> plainT c = true -> is_schedule c S E -> slack c S E ->
  Reach 3 c h s -> calm c E s ->
  forall n T, n < njobs c -> j_sched (jc c n) = true -> j_timeout (jc c n) = Some T ->
    ph (Rn s n) = PMain -> (now s <= E n)%N /\ (E n < S n + T)%N /\ expi (Rn s n) = Some (S n + T)%N.
Proof. intros W P HS SL. apply (expiration_ahead0 c S E P HS SL h s W). Qed.

Corollary not_started_before_timeouts c S E h s x :
  wf c = true -> plainT c = true -> is_schedule c S E -> slack c S E ->
  Reach 3 c h s -> calm c E s -> x < njobs c -> x <> 0 ->
  (now s < S x)%N -> st (Jb s x) = Idle \/ st (Jb s x) = Created.
Proof.
  intros W P HS SL. apply (not_started_beforeH c S E h s x W (plainT_plainH c P)
    (proj1 (plain_scheduleH c S E P) HS) (slack_slackH c S E HS SL)).
Qed.

Corollary running_between_timeouts c S E h s x :
  wf c = true -> plainT c = true -> is_schedule c S E -> slack c S E ->
  Reach 3 c h s -> calm c E s -> x < njobs c -> x <> 0 ->
  (S x < now s)%N -> (now s < E x)%N -> st (Jb s x) = Running.
Proof.
  intros W P HS SL. apply (running_betweenH c S E h s x W (plainT_plainH c P)
    (proj1 (plain_scheduleH c S E P) HS) (slack_slackH c S E HS SL)).
Qed.

Corollary done_after_timeouts c S E h s x :
  wf c = true -> plainT c = true -> is_schedule c S E -> slack c S E ->
  Reach 3 c h s -> calm c E s -> x < njobs c -> x <> 0 ->
  (E x < now s)%N -> is_done (st (Jb s x)) = true.
Proof.
  intros W P HS SL. apply (done_afterH c S E h s x W (plainT_plainH c P)
    (proj1 (plain_scheduleH c S E P) HS) (slack_slackH c S E HS SL)).
Qed.

(* nothing is ever cancelled in a calm run *)
Corollary calm_never_cancels_timeouts c S E h s :
  wf c = true -> plainT c = true -> is_schedule c S E -> slack c S E ->
  Reach 3 c h s -> calm c E s ->
  (forall x, cp (Jb s x) = false) /\ (forall n, rcanc (Rn s n) = false) /\
  (forall x, x < njobs c -> x <> 0 -> st (Jb s x) <> Cancelling /\ st (Jb s x) <> Cancelled) /\
  (forall x, crit_exc c s x = false).
Proof.
  intros W P HS SL. apply (calm_never_cancelsH c S E h s W (plainT_plainH c P)
    (proj1 (plain_scheduleH c S E P) HS) (slack_slackH c S E HS SL)).
Qed.

(* the run of every scheduler, the root included: it begins at S n, its main loop lasts until E n,
   and its exit path (tidy, shutdown) takes no time *)
Theorem runs_phases_on_schedule_timeouts c S E h s :
  wf c = true -> plainT c = true -> is_schedule c S E -> slack c S E ->
  Reach 3 c h s -> calm c E s ->
  forall n, n < njobs c -> j_sched (jc c n) = true ->
    (ph (Rn s n) = PIdle -> (now s <= S n)%N) /\
    (ph (Rn s n) = PMain -> (S n <= now s)%N) /\
    (ph (Rn s n) = POver -> (E n <= now s)%N) /\
    (* and more: *)
    okph (ph (Rn s n)) /\
    (ph (Rn s n) <> PIdle -> (S n <= now s)%N) /\
    (ph (Rn s n) = PMain -> (now s <= E n)%N) /\
    (ph (Rn s n) = PTidy WSuccess \/ ph (Rn s n) = PShut WSuccess ->
     (E n <= now s)%N /\ (n <> 0 -> now s = E n)).
Proof. intros W P HS SL. apply (runs_phases0 c S E P HS SL h s W). Qed.

(* ------------------------------------------------------------------ trees without timeouts *)

(* C10/C12 in closed form: as long as no critical job has reached the instant at which it raises,
   every job is where the schedule says *)
Theorem runs_on_schedule c S E h s :
  wf c = true -> plain c = true -> is_schedule c S E ->
  Reach 3 c h s -> calm c E s ->
  forall x, x < njobs c -> x <> 0 -> on_schedule c S E s x.
Proof.
  intros W P HS. apply (runs_on_schedule_timeouts c S E h s W (plain_plainT c P) HS (plain_slack c S E P)).
Qed.

Corollary not_started_before c S E h s x :
  wf c = true -> plain c = true -> is_schedule c S E ->
  Reach 3 c h s -> calm c E s -> x < njobs c -> x <> 0 ->
  (now s < S x)%N -> st (Jb s x) = Idle \/ st (Jb s x) = Created.
Proof.
  intros W P HS. apply (not_started_before_timeouts c S E h s x W (plain_plainT c P) HS (plain_slack c S E P)).
Qed.

Corollary running_between c S E h s x :
  wf c = true -> plain c = true -> is_schedule c S E ->
  Reach 3 c h s -> calm c E s -> x < njobs c -> x <> 0 ->
  (S x < now s)%N -> (now s < E x)%N -> st (Jb s x) = Running.
Proof.
  intros W P HS. apply (running_between_timeouts c S E h s x W (plain_plainT c P) HS (plain_slack c S E P)).
Qed.

Corollary done_after c S E h s x :
  wf c = true -> plain c = true -> is_schedule c S E ->
  Reach 3 c h s -> calm c E s -> x < njobs c -> x <> 0 ->
  (E x < now s)%N -> is_done (st (Jb s x)) = true.
Proof.
  intros W P HS. apply (done_after_timeouts c S E h s x W (plain_plainT c P) HS (plain_slack c S E P)).
Qed.

(* nothing is ever cancelled in a calm run of a plain tree *)
Corollary calm_never_cancels c S E h s :
  wf c = true -> plain c = true -> is_schedule c S E ->
  Reach 3 c h s -> calm c E s ->
  (forall x, cp (Jb s x) = false) /\ (forall n, rcanc (Rn s n) = false) /\
  (forall x, x < njobs c -> x <> 0 -> st (Jb s x) <> Cancelling /\ st (Jb s x) <> Cancelled) /\
  (forall x, crit_exc c s x = false).
Proof.
  intros W P HS. apply (calm_never_cancels_timeouts c S E h s W (plain_plainT c P) HS (plain_slack c S E P)).
Qed.

Theorem runs_phases_on_schedule c S E h s :
  wf c = true -> plain c = true -> is_schedule c S E ->
  Reach 3 c h s -> calm c E s ->
  forall n, n < njobs c -> j_sched (jc c n) = true ->
    (ph (Rn s n) = PIdle -> (now s <= S n)%N) /\
    (ph (Rn s n) = PMain -> (S n <= now s)%N) /\
    (ph (Rn s n) = POver -> (E n <= now s)%N) /\
    (* and more: *)
    okph (ph (Rn s n)) /\
    (ph (Rn s n) <> PIdle -> (S n <= now s)%N) /\
    (ph (Rn s n) = PMain -> n <> 0 -> (now s <= E n)%N) /\
    (ph (Rn s n) = PTidy WSuccess \/ ph (Rn s n) = PShut WSuccess ->
     (E n <= now s)%N /\ (n <> 0 -> now s = E n)).
Proof.
  intros W P HS Hr Hc n Hn Hs.
  destruct (runs_phases_on_schedule_timeouts c S E h s W (plain_plainT c P) HS (plain_slack c S E P) Hr Hc n Hn Hs)
    as (A1 & A2 & A3 & A4 & A5 & A6 & A7).
  repeat split; auto; apply A7; assumption.
Qed.

Print Assumptions runs_on_schedule.
Print Assumptions runs_phases_on_schedule.
Print Assumptions runs_on_schedule_timeouts.
Print Assumptions timeouts_never_fire.
Print Assumptions runs_on_scheduleH.
Print Assumptions shutdown_phase_on_schedule.

(* ------------------------------------------------------------------ the boolean check of a schedule *)

Lemma is_scheduleb_sound c lS lE : is_scheduleb c lS lE = true -> is_schedule c (tab lS) (tab lE).
Proof.
  unfold is_scheduleb. rewrite andb_true_iff, forallb_forall. intros [H0 H]. split; [apply N.eqb_eq; exact H0|].
  intros x Hx. specialize (H x (proj2 (In_all_ids c x) Hx)). apply andb_true_iff in H. destruct H as [H1 H2].
  split; [|split].
  - intros Hx0. apply orb_true_iff in H1. destruct H1 as [H1|H1].
    + apply Nat.eqb_eq in H1. contradiction.
    + apply N.eqb_eq. exact H1.
  - intros Ha. rewrite Ha in H2. apply N.eqb_eq. exact H2.
  - intros Ha. rewrite Ha in H2. apply N.eqb_eq. exact H2.
Qed.

(* ------------------------------------------------------------------ non-vacuity: a three-level tree *)

Module Example.
  (* root 0 { 1 (2s) ; 2 requires 1 { 3 (3s, raises, not critical) ; 4 requires 3 { 5 (1s) } } } *)
  Definition ex_c : cfg :=
    mkCfg
      [mkJ 0 true true false [] None ORet 0%N None 0 None None;
       mkJ 0 false true false [] (Some 2%N) ORet 0%N (Some 0%N) 0 None None;
       mkJ 0 true true false [1] None ORet 0%N None 0 None None;
       mkJ 2 false false false [] (Some 3%N) OExc 0%N (Some 0%N) 0 None None;
       mkJ 2 true true false [3] None ORet 0%N None 0 None None;
       mkJ 4 false true false [] (Some 1%N) ORet 0%N (Some 0%N) 0 None None]
      false.

  Definition ex_h : list event :=
    [EBegin 0 [OCreate 1; OWaitCall 0 KMain [1] None];
     EStart 1;
     ETick 2%N;
     EFinish 1 ORet;
     EWake 0 KMain [1] [OCreate 2; OWaitCall 0 KMain [2] None];
     EBegin 2 [OCreate 3; OWaitCall 2 KMain [3] None];
     EStart 3;
     ETick 5%N;
     EFinish 3 OExc;
     EWake 2 KMain [3] [OCreate 4; OWaitCall 2 KMain [4] None];
     EBegin 4 [OCreate 5; OWaitCall 4 KMain [5] None];
     EStart 5;
     ETick 6%N;
     EFinish 5 ORet;
     EWake 4 KMain [5] [OSdBegin 4 true; OHCreate 5; OWaitCall 4 KShut [5] None];
     EHStart 5;
     EHEnd 5;
     EWake 4 KShut [] [OSdEnd 4 SRTrue; OEnd 4 VTrue];
     EWake 2 KMain [4] [OSdBegin 2 true; OHCreate 3; OHCreate 4; OWaitCall 2 KShut [3; 4] None];
     EHStart 3;
     EHEnd 3;
     ESdStart 4 [OSdBegin 4 false; OSdEnd 4 SRNone];
     EWake 2 KShut [] [OSdEnd 2 SRTrue; OEnd 2 VTrue];
     EWake 0 KMain [2] [OSdBegin 0 true; OHCreate 1; OHCreate 2; OWaitCall 0 KShut [1; 2] None];
     EHStart 1;
     EHEnd 1;
     ESdStart 2 [OSdBegin 2 false; OSdEnd 2 SRNone];
     EWake 0 KShut [] [OSdEnd 0 SRTrue; OEnd 0 VTrue]].

  Definition ex_S : nat -> N := tab (fst (solve ex_c)).
  Definition ex_E : nat -> N := tab (snd (solve ex_c)).

  Lemma ex_wf : wf ex_c = true. Proof. reflexivity. Qed.
  Lemma ex_plain : plain ex_c = true. Proof. reflexivity. Qed.
  Lemma ex_accept : accept 3 ex_c ex_h = true. Proof. vm_compute. reflexivity. Qed.
  Lemma ex_sched : is_schedule ex_c ex_S ex_E.
  Proof. apply is_scheduleb_sound. vm_compute. reflexivity. Qed.
  Lemma ex_values : map ex_S [0; 1; 2; 3; 4; 5] = [0; 0; 2; 2; 5; 5]%N /\
                    map ex_E [0; 1; 2; 3; 4; 5] = [6; 2; 6; 5; 6; 6]%N.
  Proof. vm_compute. split; reflexivity. Qed.

  (* no critical job raises: every state is calm *)
  Lemma ex_calm s : calm ex_c ex_E s.
  Proof.
    intros x Hx Hb. exfalso. unfold njobs in Hx. cbn in Hx.
    do 6 (destruct x as [|x]; [vm_compute in Hb; discriminate|]). lia.
  Qed.

  (* at time 5, after job 3 has raised and before the scheduler 2 has noticed *)
  Example ex_mid : exists s, Reach 3 ex_c (firstn 9 ex_h) s /\ now s = 5%N /\
    st (Jb s 3) = DoneExc (tag_job 3) /\ st (Jb s 2) = Running /\ st (Jb s 4) = Idle /\
    forall x, x < 6 -> x <> 0 -> on_schedule ex_c ex_S ex_E s x.
  Proof.
    destruct (run 3 ex_c init (firstn 9 ex_h)) as [s|] eqn:Er; [|vm_compute in Er; discriminate].
    exists s. split; [exact Er|].
    assert (Es : Some s = run 3 ex_c init (firstn 9 ex_h)) by (symmetry; exact Er).
    vm_compute in Es. injection Es as Es.
    split; [rewrite Es; reflexivity|]. split; [rewrite Es; reflexivity|].
    split; [rewrite Es; reflexivity|]. split; [rewrite Es; reflexivity|].
    intros x Hx H0. apply (runs_on_schedule ex_c ex_S ex_E (firstn 9 ex_h) s ex_wf ex_plain ex_sched Er (ex_calm s)); assumption.
  Qed.
End Example.

(* ------------------------------------------------------------------ non-vacuity with timeouts *)

Module ExampleT.
  (* the tree of [Example] with timeouts that are not reached: root 7s (ends at 6), scheduler 2
     5s from its beginning at 2 (ends at 6 < 7), scheduler 4 2s from its beginning at 5 (ends at 6 < 7) *)
  Definition ex_c : cfg :=
    mkCfg
      [mkJ 0 true true false [] None ORet 0%N None 0 (Some 7%N) None;
       mkJ 0 false true false [] (Some 2%N) ORet 0%N (Some 0%N) 0 None None;
       mkJ 0 true true false [1] None ORet 0%N None 0 (Some 5%N) None;
       mkJ 2 false false false [] (Some 3%N) OExc 0%N (Some 0%N) 0 None None;
       mkJ 2 true true false [3] None ORet 0%N None 0 (Some 2%N) None;
       mkJ 4 false true false [] (Some 1%N) ORet 0%N (Some 0%N) 0 None None]
      false.

  Definition ex_h : list event :=
    [EBegin 0 [OCreate 1; OWaitCall 0 KMain [1] (Some 7%N)];
     EStart 1;
     ETick 2%N;
     EFinish 1 ORet;
     EWake 0 KMain [1] [OCreate 2; OWaitCall 0 KMain [2] (Some 5%N)];
     EBegin 2 [OCreate 3; OWaitCall 2 KMain [3] (Some 5%N)];
     EStart 3;
     ETick 5%N;
     EFinish 3 OExc;
     EWake 2 KMain [3] [OCreate 4; OWaitCall 2 KMain [4] (Some 2%N)];
     EBegin 4 [OCreate 5; OWaitCall 4 KMain [5] (Some 2%N)];
     EStart 5;
     ETick 6%N;
     EFinish 5 ORet;
     EWake 4 KMain [5] [OSdBegin 4 true; OHCreate 5; OWaitCall 4 KShut [5] None];
     EHStart 5;
     EHEnd 5;
     EWake 4 KShut [] [OSdEnd 4 SRTrue; OEnd 4 VTrue];
     EWake 2 KMain [4] [OSdBegin 2 true; OHCreate 3; OHCreate 4; OWaitCall 2 KShut [3; 4] None];
     EHStart 3;
     EHEnd 3;
     ESdStart 4 [OSdBegin 4 false; OSdEnd 4 SRNone];
     EWake 2 KShut [] [OSdEnd 2 SRTrue; OEnd 2 VTrue];
     EWake 0 KMain [2] [OSdBegin 0 true; OHCreate 1; OHCreate 2; OWaitCall 0 KShut [1; 2] None];
     EHStart 1;
     EHEnd 1;
     ESdStart 2 [OSdBegin 2 false; OSdEnd 2 SRNone];
     EWake 0 KShut [] [OSdEnd 0 SRTrue; OEnd 0 VTrue]].

  Definition ex_S : nat -> N := tab (fst (solve ex_c)).
  Definition ex_E : nat -> N := tab (snd (solve ex_c)).

  Lemma ex_wf : wf ex_c = true. Proof. reflexivity. Qed.
  Lemma ex_not_plain : plain ex_c = false. Proof. reflexivity. Qed.
  Lemma ex_plainT : plainT ex_c = true. Proof. reflexivity. Qed.
  Lemma ex_accept : accept 3 ex_c ex_h = true. Proof. vm_compute. reflexivity. Qed.
  Lemma ex_sched : is_schedule ex_c ex_S ex_E.
  Proof. apply is_scheduleb_sound. vm_compute. reflexivity. Qed.
  Lemma ex_slack : slack ex_c ex_S ex_E.
  Proof. apply slackb_sound. vm_compute. reflexivity. Qed.
  Lemma ex_values : map ex_S [0; 1; 2; 3; 4; 5] = [0; 0; 2; 2; 5; 5]%N /\
                    map ex_E [0; 1; 2; 3; 4; 5] = [6; 2; 6; 5; 6; 6]%N.
  Proof. vm_compute. split; reflexivity. Qed.

  Lemma ex_calm s : calm ex_c ex_E s.
  Proof.
    intros x Hx Hb. exfalso. unfold njobs in Hx. cbn in Hx.
    do 6 (destruct x as [|x]; [vm_compute in Hb; discriminate|]). lia.
  Qed.

  (* at time 5, the three runs are in their main loops, each with its own expiration (all 7 here:
     0 + 7, 2 + 5, 5 + 2), and every job is on schedule *)
  Example ex_mid : exists s, Reach 3 ex_c (firstn 12 ex_h) s /\ now s = 5%N /\
    ph (Rn s 0) = PMain /\ ph (Rn s 2) = PMain /\ ph (Rn s 4) = PMain /\
    expi (Rn s 4) = Some (ex_S 4 + 2)%N /\
    forall x, x < 6 -> x <> 0 -> on_schedule ex_c ex_S ex_E s x.
  Proof.
    destruct (run 3 ex_c init (firstn 12 ex_h)) as [s|] eqn:Er; [|vm_compute in Er; discriminate].
    exists s. split; [exact Er|].
    assert (Es : Some s = run 3 ex_c init (firstn 12 ex_h)) by (symmetry; exact Er).
    vm_compute in Es. injection Es as Es.
    assert (E4 : ph (Rn s 4) = PMain) by (rewrite Es; reflexivity).
    split; [rewrite Es; reflexivity|]. split; [rewrite Es; reflexivity|].
    split; [rewrite Es; reflexivity|]. split; [exact E4|]. split.
    - destruct (timeouts_never_fire ex_c ex_S ex_E (firstn 12 ex_h) s ex_wf ex_plainT ex_sched ex_slack Er (ex_calm s) 4)
        as [_ H]; [unfold njobs; cbn; lia|reflexivity|]. apply (H E4). reflexivity.
    - intros x Hx H0.
      apply (runs_on_schedule_timeouts ex_c ex_S ex_E (firstn 12 ex_h) s ex_wf ex_plainT ex_sched ex_slack Er (ex_calm s)); assumption.
  Qed.
End ExampleT.

(* ------------------------------------------------------------------ non-vacuity with slow handlers *)

Module ExampleH.
  (* root { m { x: 1 s, co_shutdown 2 s } (shutdown_timeout 5 s) ; y requires m (1 s) }: the handler
     of x keeps m busy from 1 to 3, so y runs from 3 to 4 (finding F10) *)
  Definition ex_c : cfg :=
    mkCfg
      [mkJ 0 true true false [] None ORet 0%N None 0 None None;
       mkJ 0 true true false [] None ORet 0%N None 0 None (Some 5%N);
       mkJ 1 false false false [] (Some 1%N) ORet 0%N (Some 2%N) 0 None None;
       mkJ 0 false true false [1] (Some 1%N) ORet 0%N (Some 0%N) 0 None None]
      false.

  Definition ex_h : list event :=
    [EBegin 0 [OCreate 1; OWaitCall 0 KMain [1] None];
     EBegin 1 [OCreate 2; OWaitCall 1 KMain [2] None];
     EStart 2;
     ETick 1%N;
     EFinish 2 ORet;
     EWake 1 KMain [2] [OSdBegin 1 true; OHCreate 2; OWaitCall 1 KShut [2] (Some 5%N)];
     EHStart 2;
     ETick 3%N;
     EHEnd 2;
     EWake 1 KShut [] [OSdEnd 1 SRTrue; OEnd 1 VTrue];
     EWake 0 KMain [1] [OCreate 3; OWaitCall 0 KMain [3] None];
     EStart 3;
     ETick 4%N;
     EFinish 3 ORet;
     EWake 0 KMain [3] [OSdBegin 0 true; OHCreate 1; OHCreate 3; OWaitCall 0 KShut [1; 3] None];
     ESdStart 1 [OSdBegin 1 false; OSdEnd 1 SRNone];
     EHStart 3;
     EHEnd 3;
     EWake 0 KShut [] [OSdEnd 0 SRTrue; OEnd 0 VTrue]].

  Definition ex_S : nat -> N := tab (fst (solveH ex_c)).
  Definition ex_E : nat -> N := tab (snd (solveH ex_c)).

  Lemma ex_wf : wf ex_c = true. Proof. reflexivity. Qed.
  Lemma ex_not_plainT : plainT ex_c = false. Proof. reflexivity. Qed.
  Lemma ex_plainH : plainH ex_c = true. Proof. reflexivity. Qed.
  Lemma ex_accept : accept 3 ex_c ex_h = true. Proof. vm_compute. reflexivity. Qed.
  Lemma ex_sched : is_scheduleH ex_c ex_S ex_E.
  Proof. apply is_scheduleHb_sound. vm_compute. reflexivity. Qed.
  Lemma ex_slack : slackH ex_c ex_S ex_E.
  Proof. intros n T Hn _ HT. exfalso. unfold njobs in Hn. cbn in Hn.
    do 4 (destruct n as [|n]; [discriminate|]). lia. Qed.
  Lemma ex_values : map ex_S [0; 1; 2; 3] = [0; 0; 0; 3]%N /\ map ex_E [0; 1; 2; 3] = [4; 3; 1; 4]%N /\
                    shut_len ex_c 1 = 2%N /\ shut_len ex_c 0 = 0%N.
  Proof. vm_compute. repeat split; reflexivity. Qed.
  Lemma ex_y_starts_at_3 : ex_S 3 = 3%N. Proof. vm_compute. reflexivity. Qed.
  (* the equations without shutdown phases would start y at 1 *)
  Lemma ex_y_without_phase : tab (fst (solve ex_c)) 3 = 1%N. Proof. vm_compute. reflexivity. Qed.

  Lemma ex_calm s : calm ex_c ex_E s.
  Proof.
    intros x Hx Hb. exfalso. unfold njobs in Hx. cbn in Hx.
    do 4 (destruct x as [|x]; [vm_compute in Hb; discriminate|]). lia.
  Qed.

  (* at time 3, before the handler of x has ended: m is in its shutdown phase, still running as a
     job of the root, and y has not been created *)
  Example ex_mid : exists s, Reach 3 ex_c (firstn 8 ex_h) s /\ now s = 3%N /\
    ph (Rn s 1) = PShut WSuccess /\ st (Jb s 1) = Running /\ st (Jb s 2) = DoneRet RVOwn /\ st (Jb s 3) = Idle /\
    (forall x, x < 4 -> x <> 0 -> on_schedule ex_c ex_S ex_E s x) /\
    (Mx ex_c ex_S ex_E 1 <= now s)%N /\ (now s <= Mx ex_c ex_S ex_E 1 + shut_len ex_c 1)%N.
  Proof.
    destruct (run 3 ex_c init (firstn 8 ex_h)) as [s|] eqn:Er; [|vm_compute in Er; discriminate].
    exists s. split; [exact Er|].
    assert (Es : Some s = run 3 ex_c init (firstn 8 ex_h)) by (symmetry; exact Er).
    vm_compute in Es. injection Es as Es.
    assert (E1 : ph (Rn s 1) = PShut WSuccess) by (rewrite Es; reflexivity).
    split; [rewrite Es; reflexivity|]. split; [exact E1|].
    split; [rewrite Es; reflexivity|]. split; [rewrite Es; reflexivity|]. split; [rewrite Es; reflexivity|].
    split.
    - intros x Hx H0.
      apply (runs_on_scheduleH ex_c ex_S ex_E (firstn 8 ex_h) s ex_wf ex_plainH ex_sched ex_slack Er (ex_calm s)); assumption.
    - destruct (shutdown_phase_details ex_c ex_S ex_E (firstn 8 ex_h) s ex_wf ex_plainH ex_sched ex_slack Er (ex_calm s) 1 E1)
        as (A & B & _). split; [exact A|exact B].
  Qed.
End ExampleH.

(* the same tree with shutdown_timeout 1 s on m: the wait of m expires at 2, the handler of x is
   cancelled, m ends at 2 and y runs from 2 to 3 *)
Module ExampleHcut.
  Definition ex_c : cfg :=
    mkCfg
      [mkJ 0 true true false [] None ORet 0%N None 0 None None;
       mkJ 0 true true false [] None ORet 0%N None 0 None (Some 1%N);
       mkJ 1 false false false [] (Some 1%N) ORet 0%N (Some 2%N) 0 None None;
       mkJ 0 false true false [1] (Some 1%N) ORet 0%N (Some 0%N) 0 None None]
      false.

  Definition ex_h : list event :=
    [EBegin 0 [OCreate 1; OWaitCall 0 KMain [1] None];
     EBegin 1 [OCreate 2; OWaitCall 1 KMain [2] None];
     EStart 2;
     ETick 1%N;
     EFinish 2 ORet;
     EWake 1 KMain [2] [OSdBegin 1 true; OHCreate 2; OWaitCall 1 KShut [2] (Some 1%N)];
     EHStart 2;
     ETick 2%N;
     EWake 1 KShut [2] [OWaitCall 1 KShTidy [2] None];
     EHCancel 2;
     EWake 1 KShTidy [] [OSdEnd 1 SRFalse; OEnd 1 VTrue];
     EWake 0 KMain [1] [OCreate 3; OWaitCall 0 KMain [3] None];
     EStart 3;
     ETick 3%N;
     EFinish 3 ORet;
     EWake 0 KMain [3] [OSdBegin 0 true; OHCreate 1; OHCreate 3; OWaitCall 0 KShut [1; 3] None];
     ESdStart 1 [OSdBegin 1 false; OSdEnd 1 SRNone];
     EHStart 3;
     EHEnd 3;
     EWake 0 KShut [] [OSdEnd 0 SRTrue; OEnd 0 VTrue]].

  Lemma ex_wf : wf ex_c = true. Proof. reflexivity. Qed.
  Lemma ex_plainH : plainH ex_c = true. Proof. reflexivity. Qed.
  Lemma ex_accept : accept 3 ex_c ex_h = true. Proof. vm_compute. reflexivity. Qed.
  Lemma ex_sched : is_scheduleH ex_c (tab (fst (solveH ex_c))) (tab (snd (solveH ex_c))).
  Proof. apply is_scheduleHb_sound. vm_compute. reflexivity. Qed.
  Lemma ex_values : map (tab (fst (solveH ex_c))) [0; 1; 2; 3] = [0; 0; 0; 2]%N /\
                    map (tab (snd (solveH ex_c))) [0; 1; 2; 3] = [3; 2; 1; 3]%N /\ shut_len ex_c 1 = 1%N.
  Proof. vm_compute. repeat split; reflexivity. Qed.
End ExampleHcut.
