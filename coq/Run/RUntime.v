(* A timeout that is never reached changes nothing, as a simulation.

   [untime_cfg n c] is the configuration c with the timeout of scheduler n removed.  If, along a
   history accepted with c at a level >= 2 (timing enforced), the main loop of n always ends before
   its expiration ([unreached n] holds in every state of the run), then the very same history, with
   the timeout argument of the main asyncio.wait calls of n replaced by None, is accepted with
   [untime_cfg n c]; the states of the two runs are equal, instant for instant, except the field
   [expi] of the run of n.  (untime_step, untime_run, untime_accept.)

   Converse, partial (untime_step_conv_partial, untime_accept_conv_partial, untime_accept_iff_partial):
   a history h of c whose erasure is accepted without the timeout is accepted with c, provided the
   timeout arguments carried by h are those the model of c computes, the expiration stays unreached
   and the main loop of n is not running at an EGrace (see [conv_along]).

   Assumption: this file uses Coq.Logic.FunctionalExtensionality.functional_extensionality (standard
   library), because states contain functions (Jb, Hd, Rn, Sd : nat -> _) and the correspondence
   is stated as an equality  t = untime_st n s.  Nothing else is assumed. *)
From Coq Require Import FunctionalExtensionality.
From AJ Require Import Common.Util Run.RModel Run.RFacts Run.RProps2.

(* ------------------------------------------------------------------ extensionality helpers *)

Lemma filter_ext_u (A : Type) (f g : A -> bool) (l : list A) :
  (forall x, f x = g x) -> filter f l = filter g l.
Proof.
  intros H. induction l as [|a l IH]; cbn [filter]; [reflexivity|]. rewrite H, IH. reflexivity.
Qed.

Lemma forallb_ext_u (A : Type) (f g : A -> bool) (l : list A) :
  (forall x, f x = g x) -> forallb f l = forallb g l.
Proof.
  intros H. induction l as [|a l IH]; cbn [forallb]; [reflexivity|]. rewrite H, IH. reflexivity.
Qed.

Lemma existsb_ext_u (A : Type) (f g : A -> bool) (l : list A) :
  (forall x, f x = g x) -> existsb f l = existsb g l.
Proof.
  intros H. induction l as [|a l IH]; cbn [existsb]; [reflexivity|]. rewrite H, IH. reflexivity.
Qed.

Lemma flat_map_ext_u (A B : Type) (f g : A -> list B) (l : list A) :
  (forall x, f x = g x) -> flat_map f l = flat_map g l.
Proof.
  intros H. induction l as [|a l IH]; cbn [flat_map]; [reflexivity|]. rewrite H, IH. reflexivity.
Qed.

(* ------------------------------------------------------------------ the configuration without the timeout *)

Definition unt_jc (b : bool) (x : jcfg) : jcfg :=
  if b then mkJ (j_parent x) (j_sched x) (j_crit x) (j_forever x) (j_reqs x) (j_dur x)
                (j_out x) (j_cdur x) (j_sdur x) (j_window x) None (j_sdto x)
  else x.

Fixpoint unt_jobs (n i : nat) (l : list jcfg) : list jcfg :=
  match l with
  | [] => []
  | x :: l' => unt_jc (Nat.eqb i n) x :: unt_jobs n (S i) l'
  end.

(* same configuration, scheduler n has no timeout *)
Definition untime_cfg (n : nat) (c : cfg) : cfg := mkCfg (unt_jobs n 0 (jobs c)) (pure_root c).

Lemma length_unt_jobs n l : forall i, length (unt_jobs n i l) = length l.
Proof. induction l as [|x l IH]; intros i; cbn [unt_jobs length]; [reflexivity|]. rewrite IH. reflexivity. Qed.

Lemma nth_unt_jobs n l : forall i j,
  nth j (unt_jobs n i l) dflt_j = unt_jc (Nat.eqb (i + j) n && Nat.ltb j (length l)) (nth j l dflt_j).
Proof.
  induction l as [|x l IH]; intros i j; cbn [unt_jobs length].
  - rewrite andb_false_r. destruct j; reflexivity.
  - destruct j as [|j]; cbn [nth].
    + rewrite Nat.add_0_r, andb_true_r. reflexivity.
    + rewrite IH. replace (S i + j) with (i + S j) by lia. reflexivity.
Qed.

Lemma jc_unt n c j : jc (untime_cfg n c) j = unt_jc (Nat.eqb j n && Nat.ltb j (njobs c)) (jc c j).
Proof. unfold jc, untime_cfg, njobs. cbn [jobs]. rewrite nth_unt_jobs. reflexivity. Qed.

(* every field but the timeout is unchanged *)
Lemma uc_parent n c j : j_parent (jc (untime_cfg n c) j) = j_parent (jc c j).
Proof. rewrite jc_unt. destruct (Nat.eqb j n && Nat.ltb j (njobs c)); reflexivity. Qed.
Lemma uc_sched n c j : j_sched (jc (untime_cfg n c) j) = j_sched (jc c j).
Proof. rewrite jc_unt. destruct (Nat.eqb j n && Nat.ltb j (njobs c)); reflexivity. Qed.
Lemma uc_crit n c j : j_crit (jc (untime_cfg n c) j) = j_crit (jc c j).
Proof. rewrite jc_unt. destruct (Nat.eqb j n && Nat.ltb j (njobs c)); reflexivity. Qed.
Lemma uc_forever n c j : j_forever (jc (untime_cfg n c) j) = j_forever (jc c j).
Proof. rewrite jc_unt. destruct (Nat.eqb j n && Nat.ltb j (njobs c)); reflexivity. Qed.
Lemma uc_reqs0 n c j : j_reqs (jc (untime_cfg n c) j) = j_reqs (jc c j).
Proof. rewrite jc_unt. destruct (Nat.eqb j n && Nat.ltb j (njobs c)); reflexivity. Qed.
Lemma uc_dur n c j : j_dur (jc (untime_cfg n c) j) = j_dur (jc c j).
Proof. rewrite jc_unt. destruct (Nat.eqb j n && Nat.ltb j (njobs c)); reflexivity. Qed.
Lemma uc_out n c j : j_out (jc (untime_cfg n c) j) = j_out (jc c j).
Proof. rewrite jc_unt. destruct (Nat.eqb j n && Nat.ltb j (njobs c)); reflexivity. Qed.
Lemma uc_cdur n c j : j_cdur (jc (untime_cfg n c) j) = j_cdur (jc c j).
Proof. rewrite jc_unt. destruct (Nat.eqb j n && Nat.ltb j (njobs c)); reflexivity. Qed.
Lemma uc_sdur n c j : j_sdur (jc (untime_cfg n c) j) = j_sdur (jc c j).
Proof. rewrite jc_unt. destruct (Nat.eqb j n && Nat.ltb j (njobs c)); reflexivity. Qed.
Lemma uc_window n c j : j_window (jc (untime_cfg n c) j) = j_window (jc c j).
Proof. rewrite jc_unt. destruct (Nat.eqb j n && Nat.ltb j (njobs c)); reflexivity. Qed.
Lemma uc_sdto n c j : j_sdto (jc (untime_cfg n c) j) = j_sdto (jc c j).
Proof. rewrite jc_unt. destruct (Nat.eqb j n && Nat.ltb j (njobs c)); reflexivity. Qed.

(* the timeout of n is removed, the others are kept *)
Lemma uc_timeout n c j :
  j_timeout (jc (untime_cfg n c) j) = if Nat.eqb j n then None else j_timeout (jc c j).
Proof.
  rewrite jc_unt. destruct (Nat.eqb j n); cbn [andb]; [|reflexivity].
  destruct (Nat.ltb_spec j (njobs c)) as [H|H]; [reflexivity|]. cbn [unt_jc].
  unfold jc. rewrite nth_overflow by exact H. reflexivity.
Qed.

Lemma untime_cfg_timeout_n n c : j_timeout (jc (untime_cfg n c) n) = None.
Proof. rewrite uc_timeout, Nat.eqb_refl. reflexivity. Qed.
Lemma untime_cfg_timeout_other n c j : j <> n -> j_timeout (jc (untime_cfg n c) j) = j_timeout (jc c j).
Proof. intros H. rewrite uc_timeout. apply Nat.eqb_neq in H. rewrite H. reflexivity. Qed.

Lemma uc_pure_root n c : pure_root (untime_cfg n c) = pure_root c.
Proof. reflexivity. Qed.
Lemma uc_njobs n c : njobs (untime_cfg n c) = njobs c.
Proof. unfold njobs, untime_cfg. cbn [jobs]. apply length_unt_jobs. Qed.
Lemma uc_all_ids n c : all_ids (untime_cfg n c) = all_ids c.
Proof. unfold all_ids. rewrite uc_njobs. reflexivity. Qed.
Lemma uc_par n c j : parent (untime_cfg n c) j = parent c j.
Proof. unfold parent. apply uc_parent. Qed.
Lemma uc_reqs n c j : reqs (untime_cfg n c) j = reqs c j.
Proof. unfold reqs. apply uc_reqs0. Qed.
Lemma uc_is_member n c p j : is_member (untime_cfg n c) p j = is_member c p j.
Proof. unfold is_member. rewrite uc_par. reflexivity. Qed.
Lemma uc_members n c p : members (untime_cfg n c) p = members c p.
Proof. unfold members. rewrite uc_all_ids. apply filter_ext_u. intros j. apply uc_is_member. Qed.
Lemma uc_scheds n c : scheds (untime_cfg n c) = scheds c.
Proof. unfold scheds. rewrite uc_all_ids. apply filter_ext_u. intros j. apply uc_sched. Qed.

Lemma uc_wf_job n c j : wf_job (untime_cfg n c) j = wf_job c j.
Proof.
  unfold wf_job. cbn zeta. rewrite !uc_sched, !uc_parent, !uc_reqs0.
  destruct (Nat.eqb j 0); [reflexivity|].
  f_equal. f_equal. apply forallb_ext_u. intros r. rewrite uc_par. reflexivity.
Qed.

Theorem untime_wf_eq n c : wf (untime_cfg n c) = wf c.
Proof.
  unfold wf. rewrite uc_njobs, uc_all_ids. f_equal. apply forallb_ext_u. intros j. apply uc_wf_job.
Qed.

(* ------------------------------------------------------------------ the state without the expiration *)

Definition unt_r (b : bool) (r : rst) : rst :=
  if b then mkRst (ph r) (pend r) (seen r) (ndone r) (qsz r) None (tbeg r) (fto r) (fcr r) (rcanc r)
  else r.

(* the same state, the run of n has no expiration *)
Definition untime_st (n : nat) (s : state) : state :=
  mkSt (now s) (Jb s) (Hd s) (fun m => unt_r (Nat.eqb m n) (Rn s m)) (Sd s).

(* the same correspondence as a pointwise relation *)
Definition usim (n : nat) (s t : state) : Prop :=
  now t = now s /\ (forall j, Jb t j = Jb s j) /\ (forall j, Hd t j = Hd s j) /\
  (forall j, Rn t j = unt_r (Nat.eqb j n) (Rn s j)) /\ (forall j, Sd t j = Sd s j).

Lemma st_extR t J H (R1 R2 : nat -> rst) S :
  (forall j, R1 j = R2 j) -> mkSt t J H R1 S = mkSt t J H R2 S.
Proof. intros E. f_equal. apply functional_extensionality. exact E. Qed.

Lemma usim_untime_st n s t : usim n s t <-> t = untime_st n s.
Proof.
  split.
  - intros (A & B & C & D & E). destruct t as [t0 J H R S]. cbn [now Jb Hd Rn Sd] in *.
    unfold untime_st. subst t0. f_equal; apply functional_extensionality; assumption.
  - intros ->. unfold usim, untime_st. cbn [now Jb Hd Rn Sd]. repeat split.
Qed.

Lemma unt_r_init b : unt_r b init_r = init_r.
Proof. destruct b; reflexivity. Qed.

Lemma untime_init n : untime_st n init = init.
Proof. unfold init, untime_st. cbn [now Jb Hd Rn Sd]. apply st_extR. intros j. apply unt_r_init. Qed.

(* ---- reading *)

Lemma now_unt n s : now (untime_st n s) = now s. Proof. reflexivity. Qed.
Lemma Jb_unt n s : Jb (untime_st n s) = Jb s. Proof. reflexivity. Qed.
Lemma Hd_unt n s : Hd (untime_st n s) = Hd s. Proof. reflexivity. Qed.
Lemma Sd_unt n s : Sd (untime_st n s) = Sd s. Proof. reflexivity. Qed.
Lemma Rn_unt n s m : Rn (untime_st n s) m = unt_r (Nat.eqb m n) (Rn s m). Proof. reflexivity. Qed.

Lemma ph_unt b r : ph (unt_r b r) = ph r. Proof. destruct b; reflexivity. Qed.
Lemma pend_unt b r : pend (unt_r b r) = pend r. Proof. destruct b; reflexivity. Qed.
Lemma seen_unt b r : seen (unt_r b r) = seen r. Proof. destruct b; reflexivity. Qed.
Lemma ndone_unt b r : ndone (unt_r b r) = ndone r. Proof. destruct b; reflexivity. Qed.
Lemma qsz_unt b r : qsz (unt_r b r) = qsz r. Proof. destruct b; reflexivity. Qed.
Lemma tbeg_unt b r : tbeg (unt_r b r) = tbeg r. Proof. destruct b; reflexivity. Qed.
Lemma fto_unt b r : fto (unt_r b r) = fto r. Proof. destruct b; reflexivity. Qed.
Lemma fcr_unt b r : fcr (unt_r b r) = fcr r. Proof. destruct b; reflexivity. Qed.
Lemma rcanc_unt b r : rcanc (unt_r b r) = rcanc r. Proof. destruct b; reflexivity. Qed.
Lemma expi_unt b r : expi (unt_r b r) = if b then None else expi r. Proof. destruct b; reflexivity. Qed.

(* a record that copies the expiration *)
Lemma mk_unt b r a1 a2 a3 a4 a5 a7 a8 a9 a10 :
  mkRst a1 a2 a3 a4 a5 (expi (unt_r b r)) a7 a8 a9 a10
  = unt_r b (mkRst a1 a2 a3 a4 a5 (expi r) a7 a8 a9 a10).
Proof. destruct b; reflexivity. Qed.

(* a record that computes the expiration from the timeout *)
Lemma mk_unt_add (b : bool) t x a1 a2 a3 a4 a5 a7 a8 a9 a10 :
  mkRst a1 a2 a3 a4 a5 (optN_add t (if b then None else x)) a7 a8 a9 a10
  = unt_r b (mkRst a1 a2 a3 a4 a5 (optN_add t x) a7 a8 a9 a10).
Proof. destruct b; reflexivity. Qed.

Lemma remaining_unt n s e : remaining (untime_st n s) e = remaining s e. Proof. reflexivity. Qed.
Lemma opt_le_now_unt n s d : opt_le_now (untime_st n s) d = opt_le_now s d. Proof. reflexivity. Qed.
Lemma opt_eq_now_unt n s d : opt_eq_now (untime_st n s) d = opt_eq_now s d. Proof. reflexivity. Qed.
Lemma future_unt n s d : future (untime_st n s) d = future s d. Proof. reflexivity. Qed.
Lemma hfin_unt n s : hfin (untime_st n s) = hfin s. Proof. reflexivity. Qed.
Lemma jfin_unt n s : jfin (untime_st n s) = jfin s. Proof. reflexivity. Qed.
Lemma all_done_unt n s l : all_done (untime_st n s) l = all_done s l. Proof. reflexivity. Qed.
Lemma sd_inline_unt n s m : sd_inline (untime_st n s) m = sd_inline s m.
Proof. unfold sd_inline. rewrite Rn_unt, ph_unt. reflexivity. Qed.
Lemma why_of_unt n s m : why_of (untime_st n s) m = why_of s m.
Proof. unfold why_of. rewrite Rn_unt, ph_unt. reflexivity. Qed.

(* ---- updates commute *)

Lemma setJ_unt n s j v : setJ (untime_st n s) j v = untime_st n (setJ s j v). Proof. reflexivity. Qed.
Lemma setH_unt n s j v : setH (untime_st n s) j v = untime_st n (setH s j v). Proof. reflexivity. Qed.
Lemma setS_unt n s j v : setS (untime_st n s) j v = untime_st n (setS s j v). Proof. reflexivity. Qed.
Lemma setNow_unt n s t : setNow (untime_st n s) t = untime_st n (setNow s t). Proof. reflexivity. Qed.
Lemma mapJ_unt n f l s : mapJ f l (untime_st n s) = untime_st n (mapJ f l s). Proof. reflexivity. Qed.
Lemma mapH_unt n f l s : mapH f l (untime_st n s) = untime_st n (mapH f l s). Proof. reflexivity. Qed.
Lemma clear_hcp_unt n s m : clear_hcp (untime_st n s) m = untime_st n (clear_hcp s m). Proof. reflexivity. Qed.
Lemma hdone_unt n m r s : hdone m r (untime_st n s) = untime_st n (hdone m r s). Proof. reflexivity. Qed.
Lemma clear_cp_unt n s m : clear_cp (untime_st n s) m = untime_st n (clear_cp s m).
Proof. unfold clear_cp. destruct (rootb m); reflexivity. Qed.

Lemma setR_unt n s m v : setR (untime_st n s) m (unt_r (Nat.eqb m n) v) = untime_st n (setR s m v).
Proof.
  unfold setR, untime_st. cbn [now Jb Hd Rn Sd]. apply st_extR. intros x. unfold upd.
  destruct (Nat.eqb x m) eqn:E; [|reflexivity]. apply Nat.eqb_eq in E. subst x. reflexivity.
Qed.

Global Hint Rewrite now_unt Jb_unt Hd_unt Sd_unt Rn_unt
  ph_unt pend_unt seen_unt ndone_unt qsz_unt tbeg_unt fto_unt fcr_unt rcanc_unt mk_unt mk_unt_add
  remaining_unt opt_le_now_unt opt_eq_now_unt future_unt hfin_unt jfin_unt all_done_unt
  sd_inline_unt why_of_unt
  setJ_unt setH_unt setS_unt setNow_unt mapJ_unt mapH_unt clear_hcp_unt hdone_unt clear_cp_unt setR_unt
  uc_parent uc_sched uc_crit uc_forever uc_reqs0 uc_dur uc_out uc_cdur uc_sdur uc_window uc_sdto
  uc_timeout uc_pure_root uc_njobs uc_all_ids uc_par uc_reqs uc_is_member uc_members uc_scheds : unt.

Ltac unt := autorewrite with unt.

Lemma set_phase_unt n s m p : set_phase (untime_st n s) m p = untime_st n (set_phase s m p).
Proof. unfold set_phase. cbn zeta. unt. reflexivity. Qed.

Lemma bump_q_unt n s p f : bump_q (untime_st n s) p f = untime_st n (bump_q s p f).
Proof. unfold bump_q. cbn zeta. unt. reflexivity. Qed.

Global Hint Rewrite set_phase_unt bump_q_unt : unt.

(* ------------------------------------------------------------------ outputs and events *)

(* the timeout argument of the main waits of n becomes None *)
Definition untime_out (n : nat) (x : out) : out :=
  match x with
  | OWaitCall m KMain ids t => if Nat.eqb m n then OWaitCall m KMain ids None else x
  | _ => x
  end.

Definition untime_ev (n : nat) (e : event) : event :=
  match e with
  | EBegin m o => EBegin m (map (untime_out n) o)
  | EWake m k d o => EWake m k d (map (untime_out n) o)
  | ECancelled m k o => ECancelled m k (map (untime_out n) o)
  | ESdStart m o => ESdStart m (map (untime_out n) o)
  | _ => e
  end.

Lemma untime_out_main n ids t : untime_out n (OWaitCall n KMain ids t) = OWaitCall n KMain ids None.
Proof. cbn [untime_out]. rewrite Nat.eqb_refl. reflexivity. Qed.

Lemma untime_out_other n x :
  match x with OWaitCall m KMain _ (Some _) => m <> n | _ => True end -> untime_out n x = x.
Proof.
  destruct x as [j|j|m i|m k ids t|m r|m v]; try reflexivity. destruct k; try reflexivity.
  cbn [untime_out]. destruct (Nat.eqb_spec m n) as [->|H]; [|reflexivity].
  destruct t as [t|]; [|reflexivity]. intros H. destruct H. reflexivity.
Qed.

Lemma map_untime_out_other n o :
  (forall x, In x o -> match x with OWaitCall m KMain _ (Some _) => m <> n | _ => True end) ->
  map (untime_out n) o = o.
Proof.
  intros H. rewrite <- (map_id o) at 2. apply map_ext_in. intros x Hx. apply untime_out_other.
  apply H. exact Hx.
Qed.

(* only the timeout argument of the main waits of n is touched *)
Lemma untime_ev_other n e :
  (forall x, In x (outs_of e) -> match x with OWaitCall m KMain _ (Some _) => m <> n | _ => True end) ->
  untime_ev n e = e.
Proof.
  destruct e as [m o|m k d o|m k o|m o|j|j oc|j|j|j|j|j|j|j|j|t|t|jv sv]; cbn [untime_ev outs_of];
    intros H; try reflexivity; rewrite (map_untime_out_other n o H); reflexivity.
Qed.

(* the observed outputs of the new event are those of the old one, timeouts erased *)
Lemma untime_ev_outs n e : outs_of (untime_ev n e) = map (untime_out n) (outs_of e).
Proof. destruct e; reflexivity. Qed.

Lemma map_unt_create n l : map (untime_out n) (map OCreate l) = map OCreate l.
Proof. rewrite map_map. apply map_ext. reflexivity. Qed.
Lemma map_unt_hcreate n l : map (untime_out n) (map OHCreate l) = map OHCreate l.
Proof. rewrite map_map. apply map_ext. reflexivity. Qed.

Lemma culprit_of_unt n o : culprit_of (map (untime_out n) o) = culprit_of o.
Proof.
  unfold culprit_of. induction o as [|x o IH]; cbn [map fold_right]; [reflexivity|]. rewrite IH.
  destruct x as [j|j|m i|m k ids t|m r|m v]; try reflexivity.
  destruct k; try reflexivity. cbn [untime_out]. destruct (Nat.eqb m n); reflexivity.
Qed.

(* the result of a reaction: expiration of n erased, timeouts of the main waits of n erased *)
Definition ut2 (n : nat) (p : state * list out) : state * list out :=
  (untime_st n (fst p), map (untime_out n) (snd p)).

(* ------------------------------------------------------------------ reactions commute *)

Lemma job_leave_unt k c m x s :
  job_leave (untime_cfg k c) m x (untime_st k s) = untime_st k (job_leave c m x s).
Proof. unfold job_leave. destruct (Nat.eqb m 0); [reflexivity|]. cbn zeta. unt. reflexivity. Qed.

Lemma verdict_of_unt k c m w cu : verdict_of (untime_cfg k c) m w cu = verdict_of c m w cu.
Proof. unfold verdict_of. unt. reflexivity. Qed.

Lemma finish_run_unt k c m w r cu s :
  finish_run (untime_cfg k c) m w r cu (untime_st k s) = ut2 k (finish_run c m w r cu s).
Proof.
  unfold finish_run, ut2. cbn zeta. cbn [fst snd map untime_out]. rewrite verdict_of_unt. unt.
  rewrite job_leave_unt. reflexivity.
Qed.

Lemma end_cancelled_unt k c m s :
  end_cancelled (untime_cfg k c) m (untime_st k s) = ut2 k (end_cancelled c m s).
Proof. unfold end_cancelled, ut2. cbn [fst snd map untime_out]. unt. rewrite job_leave_unt. reflexivity. Qed.

Lemma shutdown_start_unt k c m i s :
  shutdown_start (untime_cfg k c) m i (untime_st k s) = ut2 k (shutdown_start c m i s).
Proof.
  unfold shutdown_start, ut2. cbn zeta. unt. destruct (did (Sd s m)); [reflexivity|].
  destruct (members c m) as [|m0 ms]; [reflexivity|]. cbn [fst snd]. f_equal.
  rewrite (map_cons (untime_out k)), map_app, map_unt_hcreate. reflexivity.
Qed.

Lemma exit_main_unt k c m w p s :
  exit_main (untime_cfg k c) m w p (untime_st k s) = ut2 k (exit_main c m w p s).
Proof.
  unfold exit_main. destruct p as [|p0 p'].
  - unt. rewrite shutdown_start_unt.
    destruct (shutdown_start c m true (set_phase s m (PShut w))) as [s1 o]. reflexivity.
  - unt. reflexivity.
Qed.

Lemma rm_crit_u k c s d :
  existsb (fun j => j_crit (jc (untime_cfg k c) j) && is_exc (st (Jb (untime_st k s) j))) d
  = existsb (fun j => j_crit (jc c j) && is_exc (st (Jb s j))) d.
Proof. apply existsb_ext_u. intros j. rewrite uc_crit. reflexivity. Qed.

Lemma rm_nf_u k c l :
  filter (fun j => negb (j_forever (jc (untime_cfg k c) j))) l
  = filter (fun j => negb (j_forever (jc c j))) l.
Proof. apply filter_ext_u. intros j. rewrite uc_forever. reflexivity. Qed.

Lemma rm_cand_u k c d l :
  filter (fun x => existsb (fun q => memb q d) (reqs (untime_cfg k c) x)) l
  = filter (fun x => existsb (fun q => memb q d) (reqs c x)) l.
Proof. apply filter_ext_u. intros j. rewrite uc_reqs. reflexivity. Qed.

Lemma rm_new_u k c s l :
  filter (fun x => match st (Jb (untime_st k s) x) with
                   | Idle => all_done (untime_st k s) (reqs (untime_cfg k c) x) | _ => false end) l
  = filter (fun x => match st (Jb s x) with Idle => all_done s (reqs c x) | _ => false end) l.
Proof. apply filter_ext_u. intros x. rewrite uc_reqs. reflexivity. Qed.

Lemma react_main_unt k c m d s :
  react_main (untime_cfg k c) m d (untime_st k s) = ut2 k (react_main c m d s).
Proof.
  unfold react_main. cbn zeta.
  rewrite (rm_crit_u k c s d), !rm_nf_u, uc_members, rm_cand_u, rm_new_u. unt.
  destruct d as [|d0 d'].
  - apply exit_main_unt.
  - destruct (existsb (fun j => j_crit (jc c j) && is_exc (st (Jb s j))) (d0 :: d')).
    + apply exit_main_unt.
    + match goal with |- context [if Nat.eqb ?a ?b then _ else _] => destruct (Nat.eqb a b) end.
      * apply exit_main_unt.
      * unfold ut2. cbn [fst snd]. f_equal. rewrite map_app, map_unt_create. cbn [map untime_out].
        rewrite expi_unt. destruct (Nat.eqb m k); reflexivity.
Qed.

Lemma rb_entry_u k c l :
  filter (fun x => match reqs (untime_cfg k c) x with [] => true | _ => false end) l
  = filter (fun x => match reqs c x with [] => true | _ => false end) l.
Proof. apply filter_ext_u. intros j. rewrite uc_reqs. reflexivity. Qed.

Lemma react_begin_unt k c m s :
  react_begin (untime_cfg k c) m (untime_st k s) = ut2 k (react_begin c m s).
Proof.
  unfold react_begin. cbn zeta. rewrite uc_members, uc_par, uc_timeout, now_unt.
  destruct (Nat.eqb m 0).
  - destruct (members c m) as [|m0 ms].
    + unfold ut2. cbn [fst snd map untime_out]. unt. rewrite job_leave_unt. reflexivity.
    + rewrite rb_entry_u. unt. unfold ut2. cbn [fst snd]. f_equal.
      rewrite map_app, map_unt_create. cbn [map untime_out]. destruct (Nat.eqb m k); reflexivity.
  - unt. destruct (members c m) as [|m0 ms].
    + unfold ut2. cbn [fst snd map untime_out]. unt. rewrite job_leave_unt. reflexivity.
    + rewrite rb_entry_u. unt. unfold ut2. cbn [fst snd]. f_equal.
      rewrite map_app, map_unt_create. cbn [map untime_out]. destruct (Nat.eqb m k); reflexivity.
Qed.

Lemma react_tidy_unt k c m s :
  react_tidy (untime_cfg k c) m (untime_st k s) = ut2 k (react_tidy c m s).
Proof.
  unfold react_tidy. unt. destruct (rcanc (Rn s m)).
  - apply end_cancelled_unt.
  - apply shutdown_start_unt.
Qed.

Lemma react_shut_wake_unt k c m p s :
  react_shut_wake (untime_cfg k c) m p (untime_st k s)
  = (untime_st k (fst (fst (react_shut_wake c m p s))), snd (fst (react_shut_wake c m p s)),
     snd (react_shut_wake c m p s)).
Proof. unfold react_shut_wake. cbn zeta. destruct p; reflexivity. Qed.

Lemma rsw_outs k c m p s :
  map (untime_out k) (snd (react_shut_wake c m p s)) = snd (react_shut_wake c m p s).
Proof. unfold react_shut_wake. cbn zeta. destruct p; reflexivity. Qed.

Lemma react_shut_unt k c m p cu s :
  react_shut (untime_cfg k c) m p cu (untime_st k s) = ut2 k (react_shut c m p cu s).
Proof.
  unfold react_shut. rewrite react_shut_wake_unt. unt.
  pose proof (rsw_outs k c m p s) as Ho.
  destruct (react_shut_wake c m p s) as [[s1 res] mo1]. cbn [fst snd] in Ho |- *.
  destruct res as [r|]; [|unfold ut2; cbn [fst snd]; rewrite Ho; reflexivity].
  destruct (sd_inline s m).
  - destruct (rcanc (Rn s m)).
    + rewrite end_cancelled_unt. destruct (end_cancelled c m s1) as [s2 mo2].
      unfold ut2. cbn [fst snd]. rewrite map_app, Ho. reflexivity.
    + rewrite finish_run_unt. destruct (finish_run c m (why_of s m) r cu s1) as [s2 mo2].
      unfold ut2. cbn [fst snd]. rewrite map_app, Ho. reflexivity.
  - unt. unfold ut2. cbn [fst snd]. rewrite map_app, Ho. reflexivity.
Qed.

Lemma react_shtidy_unt k c m cu s :
  react_shtidy (untime_cfg k c) m cu (untime_st k s) = ut2 k (react_shtidy c m cu s).
Proof.
  unfold react_shtidy, react_shtidy_wake. cbn zeta. unt.
  destruct (sd_inline s m).
  - destruct (rcanc (Rn s m)).
    + rewrite end_cancelled_unt.
      match goal with |- context [end_cancelled c m ?S1] => destruct (end_cancelled c m S1) as [s2 mo2] end.
      reflexivity.
    + apply finish_run_unt.
  - reflexivity.
Qed.

Lemma react_cancel_main_unt k c m s :
  react_cancel_main (untime_cfg k c) m (untime_st k s) = ut2 k (react_cancel_main c m s).
Proof.
  unfold react_cancel_main. cbn zeta. change (jfin (untime_st k s)) with (jfin s). unt.
  destruct (filter (fun j => negb (jfin s j)) (pend (Rn s m))) as [|u0 u'].
  - apply end_cancelled_unt.
  - unt. reflexivity.
Qed.

Lemma react_cancel_tidy_unt k c m s :
  react_cancel_tidy (untime_cfg k c) m (untime_st k s) = ut2 k (react_cancel_tidy c m s).
Proof. unfold react_cancel_tidy. cbn zeta. unt. reflexivity. Qed.

Lemma react_cancel_ctidy_unt k c m s :
  react_cancel_ctidy (untime_cfg k c) m (untime_st k s) = ut2 k (react_cancel_ctidy c m s).
Proof. unfold react_cancel_ctidy. cbn zeta. unt. reflexivity. Qed.

Lemma react_shut_cancel_unt k c m s :
  react_shut_cancel (untime_cfg k c) m (untime_st k s) = ut2 k (react_shut_cancel c m s).
Proof. unfold react_shut_cancel. cbn zeta. unt. reflexivity. Qed.

Lemma react_cancel_shut_unt k c m s :
  react_cancel_shut (untime_cfg k c) m (untime_st k s) = ut2 k (react_cancel_shut c m s).
Proof.
  unfold react_cancel_shut. unt. destruct (sd_inline s m).
  - cbn zeta. unt. apply react_shut_cancel_unt.
  - apply react_shut_cancel_unt.
Qed.

Lemma react_sdstart_unt k c m s :
  react_sdstart (untime_cfg k c) m (untime_st k s) = ut2 k (react_sdstart c m s).
Proof.
  unfold react_sdstart. unt. rewrite shutdown_start_unt.
  destruct (shutdown_start c m false (setH s m (mkHst HRunning false None))) as [s1 mo].
  unfold ut2. cbn [fst snd]. unt.
  destruct (sp (Sd s1 m)), (did (Sd s m)); reflexivity.
Qed.

Lemma eff_start_unt k c j s : eff_start (untime_cfg k c) j (untime_st k s) = untime_st k (eff_start c j s).
Proof. unfold eff_start. unt. reflexivity. Qed.
Lemma eff_finish_unt k c j oc s :
  eff_finish (untime_cfg k c) j oc (untime_st k s) = untime_st k (eff_finish c j oc s).
Proof. unfold eff_finish. unt. reflexivity. Qed.
Lemma eff_cancel_hit_unt k c j s :
  eff_cancel_hit (untime_cfg k c) j (untime_st k s) = untime_st k (eff_cancel_hit c j s).
Proof. unfold eff_cancel_hit. unt. reflexivity. Qed.
Lemma eff_cancel_over_unt k c j s :
  eff_cancel_over (untime_cfg k c) j (untime_st k s) = untime_st k (eff_cancel_over c j s).
Proof. unfold eff_cancel_over. unt. reflexivity. Qed.
Lemma eff_gone_unt k j s : eff_gone j (untime_st k s) = untime_st k (eff_gone j s).
Proof. reflexivity. Qed.

(* the reaction to the new event in the new state is the old one, expiration and timeouts erased;
   no hypothesis is needed here *)
Lemma reaction_unt k c s e :
  reaction (untime_cfg k c) (untime_st k s) (untime_ev k e) = ut2 k (reaction c s e).
Proof.
  destruct e as [m o|m w d o|m w o|m o|j|j oc|j|j|j|j|j|j|j|j|t|t|jv sv]; cbn [untime_ev reaction].
  - apply react_begin_unt.
  - destruct w; cbn [reaction]; rewrite ?culprit_of_unt.
    + apply react_main_unt.
    + apply react_tidy_unt.
    + apply end_cancelled_unt.
    + apply react_shut_unt.
    + apply react_shtidy_unt.
  - destruct w; cbn [reaction].
    + apply react_cancel_main_unt.
    + apply react_cancel_tidy_unt.
    + apply react_cancel_ctidy_unt.
    + apply react_cancel_shut_unt.
    + apply react_cancel_shut_unt.
  - apply react_sdstart_unt.
  - unfold ut2. cbn [fst snd map]. rewrite eff_start_unt. reflexivity.
  - unfold ut2. cbn [fst snd map]. rewrite eff_finish_unt. reflexivity.
  - unfold ut2. cbn [fst snd map]. rewrite eff_cancel_hit_unt. reflexivity.
  - unfold ut2. cbn [fst snd map]. rewrite eff_cancel_over_unt. reflexivity.
  - unfold ut2. cbn [fst snd map]. rewrite eff_cancel_over_unt. reflexivity.
  - reflexivity.
  - unfold ut2. cbn [fst snd map]. unt. reflexivity.
  - reflexivity.
  - reflexivity.
  - reflexivity.
  - reflexivity.
  - reflexivity.
  - reflexivity.
Qed.

(* ------------------------------------------------------------------ the guards *)

Lemma sched_id_unt k c m : sched_id (untime_cfg k c) m = sched_id c m.
Proof. unfold sched_id. unt. reflexivity. Qed.
Lemma atomic_id_unt k c j : atomic_id (untime_cfg k c) j = atomic_id c j.
Proof. unfold atomic_id. unt. reflexivity. Qed.
Lemma slot_free_unt k c s p : slot_free (untime_cfg k c) (untime_st k s) p = slot_free c s p.
Proof. unfold slot_free. unt. reflexivity. Qed.
Lemma run_alive_unt k c s m wc : run_alive (untime_cfg k c) (untime_st k s) m wc = run_alive c s m wc.
Proof. unfold run_alive. unt. reflexivity. Qed.

Lemma culprit_ok_unt k c s m w t :
  culprit_ok (untime_cfg k c) (untime_st k s) m w t = culprit_ok c s m w t.
Proof.
  unfold culprit_ok. destruct w; try reflexivity. unt.
  destruct ((Nat.eqb m 0 && pure_root c) || negb (j_crit (jc c m))); [reflexivity|].
  apply existsb_ext_u. intros j. rewrite uc_crit. reflexivity.
Qed.

Lemma sd_thread_ok_unt k c s m wc :
  sd_thread_ok (untime_cfg k c) (untime_st k s) m wc = sd_thread_ok c s m wc.
Proof. unfold sd_thread_ok. cbn zeta. rewrite run_alive_unt. unt. reflexivity. Qed.

Lemma hpending_unt k c s l : hpending (untime_cfg k c) (untime_st k s) l = hpending c s l.
Proof. reflexivity. Qed.

Lemma handlers_stepped_unt k c s m :
  handlers_stepped (untime_cfg k c) (untime_st k s) m = handlers_stepped c s m.
Proof. unfold handlers_stepped. unt. reflexivity. Qed.

Lemma job_enabled_unt k c s j : job_enabled (untime_cfg k c) (untime_st k s) j = job_enabled c s j.
Proof. unfold job_enabled. cbn zeta. rewrite slot_free_unt. unt. reflexivity. Qed.

Lemma handler_enabled_unt k c s j :
  handler_enabled (untime_cfg k c) (untime_st k s) j = handler_enabled c s j.
Proof. unfold handler_enabled. cbn zeta. unt. reflexivity. Qed.

Lemma sd_enabled_unt k c s m b : sd_enabled (untime_cfg k c) (untime_st k s) m b = sd_enabled c s m b.
Proof. unfold sd_enabled. cbn zeta. unt. reflexivity. Qed.

Lemma sdtask_enabled_unt k c s m :
  sdtask_enabled (untime_cfg k c) (untime_st k s) m = sdtask_enabled c s m.
Proof. unfold sdtask_enabled. unt. destruct (hs (Hd s m)); try reflexivity. apply sd_enabled_unt. Qed.

(* the run of n can only be less enabled: its timeout wake has disappeared *)
Lemma run_enabled_unt_le k c s m :
  run_enabled (untime_cfg k c) (untime_st k s) m = true -> run_enabled c s m = true.
Proof.
  unfold run_enabled. cbn zeta. unt. destruct (ph (Rn s m)); try (intros H; exact H).
  - rewrite expi_unt. destruct (Nat.eqb m k); [|intros H; exact H].
    cbn [opt_le_now]. rewrite orb_false_r. intros H. rewrite H. reflexivity.
  - rewrite sd_enabled_unt. intros H; exact H.
Qed.

(* ... and exactly as enabled while the expiration is not reached *)
Definition unreached (n : nat) (s : state) : Prop :=
  ph (Rn s n) = PMain -> match expi (Rn s n) with Some d => (now s < d)%N | None => True end.

Lemma run_enabled_unt k c s m : unreached k s ->
  run_enabled (untime_cfg k c) (untime_st k s) m = run_enabled c s m.
Proof.
  intros Hu. unfold run_enabled. cbn zeta. unt. destruct (ph (Rn s m)) eqn:Ep; try reflexivity.
  - rewrite expi_unt. destruct (Nat.eqb_spec m k) as [->|Hm]; [|reflexivity].
    specialize (Hu Ep). f_equal. unfold opt_le_now. destruct (expi (Rn s k)) as [d|]; [|reflexivity].
    symmetry. apply N.leb_gt. exact Hu.
  - apply sd_enabled_unt.
Qed.

Lemma quiescent_unt_le k c s : quiescent c s = true -> quiescent (untime_cfg k c) (untime_st k s) = true.
Proof.
  unfold quiescent. unt. rewrite !andb_true_iff, !forallb_forall. intros [H1 H2]. split.
  - intros j Hj. rewrite job_enabled_unt, handler_enabled_unt. apply H1. exact Hj.
  - intros m Hm. specialize (H2 m Hm). rewrite sdtask_enabled_unt.
    apply andb_true_iff in H2. destruct H2 as [A B]. rewrite B, andb_true_r.
    apply negb_true_iff in A. apply negb_true_iff.
    destruct (run_enabled (untime_cfg k c) (untime_st k s) m) eqn:E; [|reflexivity].
    apply run_enabled_unt_le in E. congruence.
Qed.

Lemma quiescent_unt k c s : unreached k s ->
  quiescent (untime_cfg k c) (untime_st k s) = quiescent c s.
Proof.
  intros Hu. unfold quiescent. unt. f_equal; apply forallb_ext_u; intros x.
  - rewrite job_enabled_unt, handler_enabled_unt. reflexivity.
  - rewrite (run_enabled_unt k c s x Hu), sdtask_enabled_unt. reflexivity.
Qed.

(* ---- minimum of a list *)

Lemma minN_In_u l m : minN l = Some m -> In m l.
Proof.
  revert m. induction l as [|a l IH]; intros m Hm; [discriminate|].
  cbn [minN] in Hm. destruct (minN l) as [y|] eqn:E.
  - injection Hm as <-. destruct (N.min_spec a y) as [[_ ->]|[_ ->]]; [left; reflexivity|].
    right. apply IH. reflexivity.
  - injection Hm as <-. left. reflexivity.
Qed.

Lemma minN_le_u l m : minN l = Some m -> forall x, In x l -> (m <= x)%N.
Proof.
  revert m. induction l as [|a l IH]; intros m Hm x Hx; [destruct Hx|].
  cbn [minN] in Hm. destruct (minN l) as [y|] eqn:E.
  - injection Hm as <-. destruct Hx as [<-|Hx]; [lia|]. specialize (IH y eq_refl x Hx). lia.
  - injection Hm as <-. destruct Hx as [<-|Hx]; [lia|]. destruct l; [destruct Hx|]. cbn in E.
    destruct (minN l); discriminate.
Qed.

Lemma minN_none_u l : minN l = None -> l = [].
Proof. destruct l as [|a l]; [reflexivity|]. cbn. destruct (minN l); discriminate. Qed.

Lemma minN_intro l m : In m l -> (forall x, In x l -> (m <= x)%N) -> minN l = Some m.
Proof.
  intros Hin Hle. destruct (minN l) as [y|] eqn:E.
  - pose proof (minN_In_u l y E) as Hy. pose proof (minN_le_u l y E m Hin) as H1.
    pose proof (Hle y Hy) as H2. f_equal. lia.
  - apply minN_none_u in E. subst l. destruct Hin.
Qed.

(* ---- deadlines: those of c, without the expiration of n *)

Lemma deadlines_unt_sub k c s x : In x (deadlines (untime_cfg k c) (untime_st k s)) -> In x (deadlines c s).
Proof.
  unfold deadlines. unt. rewrite !in_app_iff. intros [H|H].
  - left. rewrite in_flat_map in H |- *. destruct H as (j & Hj & H). exists j. split; [exact Hj|].
    rewrite uc_sched in H. exact H.
  - right. rewrite in_flat_map in H |- *. destruct H as (m & Hm & H). exists m. split; [exact Hm|].
    rewrite Rn_unt, ph_unt, expi_unt in H. rewrite in_app_iff in H |- *. destruct H as [H|H]; [|right; exact H].
    left. destruct (Nat.eqb m k); [|exact H]. destruct (ph (Rn s m)); destruct H.
Qed.

Lemma deadlines_unt_sup k c s x : In x (deadlines c s) ->
  In x (deadlines (untime_cfg k c) (untime_st k s))
  \/ (ph (Rn s k) = PMain /\ In x (future s (expi (Rn s k)))).
Proof.
  unfold deadlines. unt. rewrite !in_app_iff. intros [H|H].
  - left. left. rewrite in_flat_map in H |- *. destruct H as (j & Hj & H). exists j. split; [exact Hj|].
    rewrite uc_sched. exact H.
  - rewrite in_flat_map in H. destruct H as (m & Hm & H). rewrite in_app_iff in H.
    destruct (Nat.eqb_spec m k) as [->|Hmk].
    + destruct H as [H|H].
      * right. destruct (ph (Rn s k)); try destruct H. split; [reflexivity|exact H].
      * left. right. rewrite in_flat_map. exists k. split; [exact Hm|]. rewrite in_app_iff. right. exact H.
    + left. right. rewrite in_flat_map. exists m. split; [exact Hm|].
      rewrite Rn_unt. apply Nat.eqb_neq in Hmk. rewrite Hmk. cbn [unt_r]. rewrite in_app_iff. exact H.
Qed.

Lemma deadlines_unt_none k c s :
  minN (deadlines c s) = None -> minN (deadlines (untime_cfg k c) (untime_st k s)) = None.
Proof.
  intros H. apply minN_none_u in H.
  destruct (deadlines (untime_cfg k c) (untime_st k s)) as [|x l] eqn:E; [reflexivity|].
  assert (Hx : In x (deadlines c s)). { apply (deadlines_unt_sub k). rewrite E. left. reflexivity. }
  rewrite H in Hx. destruct Hx.
Qed.

(* the next deadline is the same, unless it is the expiration of n *)
Lemma deadlines_unt_min k c s t : minN (deadlines c s) = Some t ->
  ~ (ph (Rn s k) = PMain /\ expi (Rn s k) = Some t) ->
  minN (deadlines (untime_cfg k c) (untime_st k s)) = Some t.
Proof.
  intros Hm Hn. apply minN_intro.
  - destruct (deadlines_unt_sup k c s t (minN_In_u _ _ Hm)) as [H|[Hp H]]; [exact H|].
    exfalso. apply Hn. split; [exact Hp|]. unfold future in H.
    destruct (expi (Rn s k)) as [d|]; [|destruct H]. destruct (N.ltb (now s) d); [|destruct H].
    destruct H as [->|[]]. reflexivity.
  - intros x Hx. apply (minN_le_u _ _ Hm). apply (deadlines_unt_sub k). exact Hx.
Qed.

(* ---- observed outputs against model outputs *)

Lemma wkind_eqb_eq a b : wkind_eqb a b = true -> a = b.
Proof. destruct a, b; intros H; try reflexivity; discriminate H. Qed.

Lemma out_eqb_unt k a b : out_eqb a b = true -> out_eqb (untime_out k a) (untime_out k b) = true.
Proof.
  intros H. destruct a as [j|j|m i|m w ids t|m r|m v], b as [j'|j'|m' i'|m' w' ids' t'|m' r'|m' v'];
    try discriminate H; try exact H.
  cbn [out_eqb] in H. rewrite !andb_true_iff in H. destruct H as [[[[H1 H2] H3] H4] H5].
  apply Nat.eqb_eq in H1. apply wkind_eqb_eq in H2. subst m' w'.
  destruct w; cbn [untime_out]; [destruct (Nat.eqb m k)|..]; cbn [out_eqb];
    rewrite Nat.eqb_refl, H3, H4; try rewrite H5; reflexivity.
Qed.

Lemma outs_match_unt k a b :
  outs_match a b = true -> outs_match (map (untime_out k) a) (map (untime_out k) b) = true.
Proof.
  unfold outs_match. rewrite !map_length, !andb_true_iff. intros [[H1 H2] H3].
  rewrite forallb_forall in H2, H3. repeat split.
  - exact H1.
  - apply forallb_forall. intros x' Hx'. apply in_map_iff in Hx'. destruct Hx' as (x & <- & Hx).
    specialize (H2 x Hx). apply existsb_exists in H2. destruct H2 as (y & Hy & E).
    apply existsb_exists. exists (untime_out k y). split; [apply in_map; exact Hy|].
    apply out_eqb_unt. exact E.
  - apply forallb_forall. intros x' Hx'. apply in_map_iff in Hx'. destruct Hx' as (x & <- & Hx).
    specialize (H3 x Hx). apply existsb_exists in H3. destruct H3 as (y & Hy & E).
    apply existsb_exists. exists (untime_out k y). split; [apply in_map; exact Hy|].
    apply out_eqb_unt. exact E.
Qed.

Lemma core_out_unt k x : core_out (untime_out k x) = core_out x.
Proof.
  destruct x as [j|j|m i|m w ids t|m r|m v]; try reflexivity.
  destruct w; try reflexivity. cbn [untime_out]. destruct (Nat.eqb m k); reflexivity.
Qed.

Lemma core_unt k l : core (map (untime_out k) l) = map (untime_out k) (core l).
Proof.
  unfold core. induction l as [|x l IH]; cbn [map filter]; [reflexivity|].
  rewrite core_out_unt, IH. destruct (core_out x); reflexivity.
Qed.

Lemma outs_guards_unt lvl k code o mo :
  forallb (holds lvl) (outs_guards code o mo) = true ->
  forallb (holds lvl) (outs_guards code (map (untime_out k) o) (map (untime_out k) mo)) = true.
Proof.
  unfold outs_guards. cbn [forallb]. rewrite !andb_true_r, !andb_true_iff, !holds_0.
  intros [H1 H2]. split.
  - rewrite !core_unt. apply outs_match_unt. exact H1.
  - unfold holds in H2 |- *. destruct (Nat.ltb lvl 3); [reflexivity|]. apply outs_match_unt. exact H2.
Qed.

Lemma og_app2 lvl k pre code o mo :
  forallb (holds lvl) (pre ++ outs_guards code o mo) = true ->
  forallb (holds lvl) (pre ++ outs_guards code (map (untime_out k) o) (map (untime_out k) mo)) = true.
Proof.
  rewrite !forallb_app, !andb_true_iff. intros [H1 H2]. split; [exact H1|].
  apply outs_guards_unt. exact H2.
Qed.

Lemma og_app3 lvl k pre code o mo suf :
  forallb (holds lvl) (pre ++ outs_guards code o mo ++ suf) = true ->
  forallb (holds lvl) (pre ++ outs_guards code (map (untime_out k) o) (map (untime_out k) mo) ++ suf) = true.
Proof.
  rewrite !forallb_app, !andb_true_iff. intros [H1 [H2 H3]]. split; [exact H1|]. split; [|exact H3].
  apply outs_guards_unt. exact H2.
Qed.

(* ---- all the guards of an enabled event hold for the new event *)

Lemma poll_sv_unt k s sv :
  forallb (fun v => sview_eqb v (mkSv (sv_id v) (fto (Rn (untime_st k s) (sv_id v)))
                                      (fcr (Rn (untime_st k s) (sv_id v))))) sv
  = forallb (fun v => sview_eqb v (mkSv (sv_id v) (fto (Rn s (sv_id v))) (fcr (Rn s (sv_id v))))) sv.
Proof. apply forallb_ext_u. intros v. rewrite Rn_unt, fto_unt, fcr_unt. reflexivity. Qed.

Lemma guards_unt k lvl c s e : 2 <= lvl -> unreached k s -> unreached k (fst (reaction c s e)) ->
  forallb (holds lvl) (guards c s e) = true ->
  forallb (holds lvl) (guards (untime_cfg k c) (untime_st k s) (untime_ev k e)) = true.
Proof.
  intros Hl Hu Hu' Hg. pose proof (reaction_unt k c s e) as Hr.
  apply (f_equal snd) in Hr. unfold ut2 in Hr. cbn [snd] in Hr.
  destruct e as [m o|m w d o|m w o|m o|j|j oc|j|j|j|j|j|j|j|j|t|t|jv sv];
    cbn [untime_ev] in Hr |- *.
  - (* EBegin *)
    cbn [guards] in Hg |- *. rewrite Hr, sched_id_unt, slot_free_unt. unt. apply og_app2. exact Hg.
  - (* EWake *)
    destruct w.
    + (* main: the timeout wake of k is excluded *)
      assert (Hx : d = [] -> Nat.eqb m k = false).
      { intros ->. destruct (Nat.eqb_spec m k) as [->|Hm]; [exfalso|reflexivity].
        cbn [guards app forallb] in Hg. rewrite !andb_true_iff in Hg.
        destruct Hg as (_ & G11 & _ & _ & G14 & _). rewrite holds_0 in G11.
        rewrite holds_ge in G14 by exact Hl.
        destruct (ph (Rn s k)) eqn:Ep; try discriminate G11. specialize (Hu Ep).
        destruct (expi (Rn s k)) as [x|]; [|discriminate G14]. cbn [opt_le_now] in G14.
        apply N.leb_le in G14. lia. }
      cbn [guards] in Hg |- *. rewrite Hr, run_alive_unt. unt. rewrite expi_unt.
      destruct d as [|d0 d'].
      * rewrite (Hx eq_refl). apply og_app2. exact Hg.
      * apply og_app2. exact Hg.
    + cbn [guards] in Hg |- *. rewrite Hr, run_alive_unt. unt. apply og_app2. exact Hg.
    + cbn [guards] in Hg |- *. rewrite Hr, run_alive_unt. unt. apply og_app2. exact Hg.
    + cbn [guards] in Hg |- *.
      rewrite Hr, sd_thread_ok_unt, handlers_stepped_unt, hpending_unt, culprit_of_unt, culprit_ok_unt.
      unt. apply og_app3. exact Hg.
    + cbn [guards] in Hg |- *.
      rewrite Hr, sd_thread_ok_unt, culprit_of_unt, culprit_ok_unt.
      unt. apply og_app2. exact Hg.
  - (* ECancelled *)
    destruct w; cbn [guards] in Hg |- *; rewrite Hr;
      rewrite ?run_alive_unt, ?sd_thread_ok_unt, ?handlers_stepped_unt; unt;
      first [apply og_app2; exact Hg | apply og_app3; exact Hg].
  - (* ESdStart *)
    cbn [guards] in Hg |- *. rewrite Hr, sched_id_unt. unt. apply og_app2. exact Hg.
  - cbn [guards] in Hg |- *. rewrite atomic_id_unt, slot_free_unt. unt. exact Hg.
  - cbn [guards] in Hg |- *. rewrite atomic_id_unt. unt. exact Hg.
  - cbn [guards] in Hg |- *. rewrite atomic_id_unt. exact Hg.
  - cbn [guards] in Hg |- *. rewrite atomic_id_unt. exact Hg.
  - cbn [guards] in Hg |- *. rewrite atomic_id_unt. exact Hg.
  - cbn [guards] in Hg |- *. unt. exact Hg.
  - cbn [guards] in Hg |- *. rewrite atomic_id_unt. exact Hg.
  - cbn [guards] in Hg |- *. rewrite atomic_id_unt. unt. exact Hg.
  - cbn [guards] in Hg |- *. rewrite atomic_id_unt. exact Hg.
  - cbn [guards] in Hg |- *. unt. exact Hg.
  - (* ETick: the next deadline is not the expiration of k *)
    cbn [guards forallb] in Hg |- *. rewrite !andb_true_iff in Hg |- *.
    destruct Hg as (G0 & G1 & G2 & _). repeat split.
    + exact G0.
    + rewrite holds_ge in G1 |- * by exact Hl. apply quiescent_unt_le. exact G1.
    + rewrite holds_ge in G2 |- * by exact Hl.
      destruct (minN (deadlines c s)) as [x|] eqn:Em; [|discriminate G2].
      apply N.eqb_eq in G2. subst x.
      rewrite (deadlines_unt_min k c s t Em); [apply N.eqb_refl|].
      intros [Hp He]. cbn [reaction fst] in Hu'. unfold unreached, setNow in Hu'.
      cbn [Rn now] in Hu'. specialize (Hu' Hp). rewrite He in Hu'. lia.
  - (* EGrace *)
    cbn [guards forallb] in Hg |- *. rewrite !andb_true_iff in Hg |- *.
    destruct Hg as (G0 & G1 & G2 & G3 & _). repeat split.
    + exact G0.
    + rewrite Rn_unt, ph_unt. exact G1.
    + rewrite holds_ge in G2 |- * by exact Hl. apply quiescent_unt_le. exact G2.
    + rewrite holds_ge in G3 |- * by exact Hl.
      destruct (minN (deadlines c s)) as [x|] eqn:Em; [discriminate G3|].
      rewrite (deadlines_unt_none k c s Em). reflexivity.
  - (* EPoll *)
    cbn [guards] in Hg |- *. rewrite poll_sv_unt. exact Hg.
Qed.

(* ------------------------------------------------------------------ the simulation *)

(* one step: the same event, timeouts erased, is enabled in the same state, expiration erased, of
   the configuration without the timeout, and leads to the same successor, expiration erased *)
Theorem untime_step n lvl c s e s' : 2 <= lvl -> wf c = true ->
  unreached n s -> unreached n s' -> step lvl c s e = Some s' ->
  step lvl (untime_cfg n c) (untime_st n s) (untime_ev n e) = Some (untime_st n s').
Proof.
  intros Hl _ Hu Hu' Hs. apply step_inv in Hs. destruct Hs as [-> Hg].
  unfold step. rewrite (guards_unt n lvl c s e Hl Hu Hu' Hg), reaction_unt. reflexivity.
Qed.

(* ... and the model computes the same outputs, timeouts erased *)
Lemma untime_step_outs n c s e :
  snd (reaction (untime_cfg n c) (untime_st n s) (untime_ev n e))
  = map (untime_out n) (snd (reaction c s e)).
Proof. rewrite reaction_unt. reflexivity. Qed.

(* the same with the pointwise correspondence *)
Theorem untime_step_sim n lvl c s t e s' : 2 <= lvl -> wf c = true -> usim n s t ->
  unreached n s -> unreached n s' -> step lvl c s e = Some s' ->
  exists t', step lvl (untime_cfg n c) t (untime_ev n e) = Some t' /\ usim n s' t'.
Proof.
  intros Hl Hw Hsim Hu Hu' Hs. apply usim_untime_st in Hsim. subst t.
  exists (untime_st n s'). split; [apply untime_step; assumption|]. apply usim_untime_st. reflexivity.
Qed.

(* a history all of whose states have the timeout of n unreached *)
Fixpoint unreached_along (n lvl : nat) (c : cfg) (s : state) (h : list event) : Prop :=
  unreached n s /\
  match h with
  | [] => True
  | e :: h' => match step lvl c s e with Some s' => unreached_along n lvl c s' h' | None => True end
  end.

Lemma unreached_along_head n lvl c s h : unreached_along n lvl c s h -> unreached n s.
Proof. destruct h; intros [H _]; exact H. Qed.

Theorem untime_run n lvl c h : 2 <= lvl -> wf c = true -> forall s s',
  unreached_along n lvl c s h -> run lvl c s h = Some s' ->
  run lvl (untime_cfg n c) (untime_st n s) (map (untime_ev n) h) = Some (untime_st n s').
Proof.
  intros Hl Hw. induction h as [|e h IH]; intros s s' Hu Hr; cbn [run map] in Hr |- *.
  - inversion Hr. reflexivity.
  - destruct Hu as [Hu Hrest]. destruct (step lvl c s e) as [s1|] eqn:Es; [|discriminate].
    rewrite (untime_step n lvl c s e s1 Hl Hw Hu (unreached_along_head _ _ _ _ _ Hrest) Es).
    apply IH; assumption.
Qed.

Theorem untime_reach n lvl c h s : 2 <= lvl -> wf c = true -> unreached_along n lvl c init h ->
  Reach lvl c h s -> Reach lvl (untime_cfg n c) (map (untime_ev n) h) (untime_st n s).
Proof.
  intros Hl Hw Hu Hr. unfold Reach in Hr |- *. rewrite <- (untime_init n).
  apply untime_run; assumption.
Qed.

(* if the main loop of n always ends before its expiration, the run is, event for event and
   instant for instant, a run of the same tree without that timeout *)
Theorem untime_accept n lvl c h : 2 <= lvl -> wf c = true -> unreached_along n lvl c init h ->
  accept lvl c h = true -> accept lvl (untime_cfg n c) (map (untime_ev n) h) = true.
Proof.
  intros Hl Hw Hu Ha. unfold accept in Ha |- *.
  destruct (run lvl c init h) as [s'|] eqn:Er; [|discriminate].
  rewrite <- (untime_init n) at 1. rewrite (untime_run n lvl c h Hl Hw init s' Hu Er). reflexivity.
Qed.

(* ------------------------------------------------------------------ readable facts *)

(* the other jobs of the configuration are the same; n only loses its timeout *)
Lemma untime_cfg_other n c j : j <> n -> jc (untime_cfg n c) j = jc c j.
Proof. intros H. rewrite jc_unt. apply Nat.eqb_neq in H. rewrite H. reflexivity. Qed.

(* the clock, the jobs, the handlers, the shutdown activities and every other run are the same *)
Lemma untime_st_frame n s :
  now (untime_st n s) = now s /\ Jb (untime_st n s) = Jb s /\ Hd (untime_st n s) = Hd s
  /\ Sd (untime_st n s) = Sd s /\ (forall m, m <> n -> Rn (untime_st n s) m = Rn s m).
Proof.
  repeat split. intros m H. rewrite Rn_unt. apply Nat.eqb_neq in H. rewrite H. reflexivity.
Qed.

(* the run of n is the same but for its expiration *)
Lemma untime_st_run n s :
  Rn (untime_st n s) n
  = mkRst (ph (Rn s n)) (pend (Rn s n)) (seen (Rn s n)) (ndone (Rn s n)) (qsz (Rn s n)) None
          (tbeg (Rn s n)) (fto (Rn s n)) (fcr (Rn s n)) (rcanc (Rn s n)).
Proof. rewrite Rn_unt, Nat.eqb_refl. reflexivity. Qed.

(* phases, flags and verdict-relevant fields of every run are the same *)
Lemma untime_st_ph n s m : ph (Rn (untime_st n s) m) = ph (Rn s m).
Proof. rewrite Rn_unt. apply ph_unt. Qed.
Lemma untime_st_flags n s m :
  fto (Rn (untime_st n s) m) = fto (Rn s m) /\ fcr (Rn (untime_st n s) m) = fcr (Rn s m).
Proof. rewrite Rn_unt, fto_unt, fcr_unt. split; reflexivity. Qed.

(* the new run has the timeout of n unreached, trivially *)
Lemma untime_st_unreached n s : unreached n (untime_st n s).
Proof. intros _. rewrite untime_st_run. exact I. Qed.

(* terminal states correspond *)
Lemma terminal_unt n c s : unreached n s -> terminal c s = true ->
  terminal (untime_cfg n c) (untime_st n s) = true.
Proof.
  unfold terminal. rewrite untime_st_ph, !andb_true_iff. intros Hu [[H1 H2] H3].
  repeat split; [exact H1|apply quiescent_unt_le; exact H2|].
  destruct (minN (deadlines c s)) eqn:E; [discriminate H3|].
  rewrite (deadlines_unt_none n c s E). reflexivity.
Qed.

(* ------------------------------------------------------------------ a non-vacuity example *)

(* a root with a timeout of 10 and one job that lasts 1: level 3, the timeout is never reached *)
Definition ut_ex_cfg : cfg :=
  mkCfg [mkJ 0 true true false [] None ORet 0%N None 0 (Some 10%N) None;
         mkJ 0 false false false [] (Some 1%N) ORet 0%N (Some 0%N) 0 None None] false.

Definition ut_ex_hist : list event :=
  [EBegin 0 [OCreate 1; OWaitCall 0 KMain [1] (Some 10%N)];
   EStart 1;
   ETick 1%N;
   EFinish 1 ORet;
   EWake 0 KMain [1] [OSdBegin 0 true; OHCreate 1; OWaitCall 0 KShut [1] None];
   EHStart 1;
   EHEnd 1;
   EWake 0 KShut [] [OSdEnd 0 SRTrue; OEnd 0 VTrue];
   EGrace 5%N].

Example ut_ex_accept : accept 3 ut_ex_cfg ut_ex_hist = true.
Proof. vm_compute. reflexivity. Qed.

Example ut_ex_unreached : unreached_along 0 3 ut_ex_cfg init ut_ex_hist.
Proof. vm_compute. repeat split; intros H; try reflexivity; discriminate H. Qed.

Example ut_ex_hist' :
  map (untime_ev 0) ut_ex_hist
  = EBegin 0 [OCreate 1; OWaitCall 0 KMain [1] None] :: tl ut_ex_hist.
Proof. reflexivity. Qed.

Example ut_ex_untimed : accept 3 (untime_cfg 0 ut_ex_cfg) (map (untime_ev 0) ut_ex_hist) = true.
Proof.
  apply untime_accept; [lia|reflexivity|exact ut_ex_unreached|exact ut_ex_accept].
Qed.

(* the hypothesis matters: with a timeout of 1 the run of the root is cut by the timeout wake, an
   event that the configuration without the timeout rejects *)
Example ut_ex_needed :
  let c := mkCfg [mkJ 0 true true false [] None ORet 0%N None 0 (Some 1%N) None;
                  mkJ 0 false false false [] (Some 5%N) ORet 0%N (Some 0%N) 0 None None] false in
  let h := [EBegin 0 [OCreate 1; OWaitCall 0 KMain [1] (Some 1%N)]; EStart 1; ETick 1%N;
            EWake 0 KMain [] [OWaitCall 0 KTidy [1] None]] in
  accept 3 c h = true /\ accept 3 (untime_cfg 0 c) (map (untime_ev 0) h) = false.
Proof. vm_compute. split; reflexivity. Qed.

(* ------------------------------------------------------------------ the converse, one step at a time *)

(* Partial converse.  A history of the configuration without the timeout is a history of c once
   the timeout arguments are put back, PROVIDED the arguments put back are those that the model of
   c computes ([tmo_ok]: j_timeout at the beginning, [remaining] afterwards), the expiration
   stays unreached, and the main loop of n is not running when the clock jumps past the end
   (EGrace).  The last proviso is expected to hold in every reachable state (EGrace requires the root
   to be over), but that invariant is not proved here; the reconstruction of the arguments as a function of the history
   of [untime_cfg n c] alone is not done either. *)

Definition tmo_ok (n : nat) (o mo : list out) : Prop :=
  forall ids t ids' t', In (OWaitCall n KMain ids t) o -> In (OWaitCall n KMain ids' t') mo -> t = t'.

Lemma optN_eqb_refl t : optN_eqb t t = true.
Proof. destruct t; [apply N.eqb_refl|reflexivity]. Qed.

Lemma wkind_eqb_refl w : wkind_eqb w w = true.
Proof. destruct w; reflexivity. Qed.

Lemma untime_out_wait k m w ids t : exists t0,
  untime_out k (OWaitCall m w ids t) = OWaitCall m w ids t0.
Proof.
  destruct w; try (exists t; reflexivity). cbn [untime_out].
  destruct (Nat.eqb m k); [exists None|exists t]; reflexivity.
Qed.

Lemma untime_out_not_wait k x :
  match x with OWaitCall _ _ _ _ => False | _ => True end -> untime_out k x = x.
Proof. destruct x; intros H; try reflexivity. destruct H. Qed.

Lemma out_eqb_unt_conv k x y : out_eqb (untime_out k x) (untime_out k y) = true ->
  (forall ids t ids' t', x = OWaitCall k KMain ids t -> y = OWaitCall k KMain ids' t' -> t = t') ->
  out_eqb x y = true.
Proof.
  intros H Ht.
  destruct x as [j|j|m i|m w ids t|m r|m v].
  1-3,5-6: destruct y as [j'|j'|m' i'|m' w' ids' t'|m' r'|m' v']; try exact H;
    destruct (untime_out_wait k m' w' ids' t') as [t0 E]; rewrite E in H; discriminate H.
  destruct y as [j'|j'|m' i'|m' w' ids' t'|m' r'|m' v'].
  1-3,5-6: destruct (untime_out_wait k m w ids t) as [t0 E]; rewrite E in H; discriminate H.
  pose proof H as H0.
  destruct (untime_out_wait k m w ids t) as [t0 E]; rewrite E in H0.
  destruct (untime_out_wait k m' w' ids' t') as [t0' E']; rewrite E' in H0.
  cbn [out_eqb] in H0. rewrite !andb_true_iff in H0. destruct H0 as [[[[H1 H2] H3] H4] _].
  apply Nat.eqb_eq in H1. apply wkind_eqb_eq in H2. subst m' w'. clear E E' t0 t0'.
  assert (D : (m = k /\ w = KMain) \/ (untime_out k (OWaitCall m w ids t) = OWaitCall m w ids t
                                       /\ untime_out k (OWaitCall m w ids' t') = OWaitCall m w ids' t')).
  { destruct w; try (right; split; reflexivity). cbn [untime_out].
    destruct (Nat.eqb_spec m k) as [->|Hm]; [left; split; reflexivity|right; split; reflexivity]. }
  destruct D as [[-> ->]|[E E']].
  - rewrite (Ht ids t ids' t' eq_refl eq_refl). cbn [out_eqb].
    rewrite Nat.eqb_refl, H3, H4, optN_eqb_refl. reflexivity.
  - rewrite E, E' in H. exact H.
Qed.

Lemma outs_match_conv k a b : tmo_ok k a b ->
  outs_match (map (untime_out k) a) (map (untime_out k) b) = true -> outs_match a b = true.
Proof.
  intros Ht. unfold outs_match. rewrite !map_length, !andb_true_iff. intros [[H1 H2] H3].
  rewrite forallb_forall in H2, H3. repeat split.
  - exact H1.
  - apply forallb_forall. intros x Hx. specialize (H2 _ (in_map (untime_out k) _ _ Hx)).
    apply existsb_exists in H2. destruct H2 as (y' & Hy' & E). apply in_map_iff in Hy'.
    destruct Hy' as (y & <- & Hy). apply existsb_exists. exists y. split; [exact Hy|].
    apply (out_eqb_unt_conv k x y E). intros ids t ids' t' -> ->. apply (Ht ids t ids' t' Hx Hy).
  - apply forallb_forall. intros y Hy. specialize (H3 _ (in_map (untime_out k) _ _ Hy)).
    apply existsb_exists in H3. destruct H3 as (x' & Hx' & E). apply in_map_iff in Hx'.
    destruct Hx' as (x & <- & Hx). apply existsb_exists. exists x. split; [exact Hx|].
    apply (out_eqb_unt_conv k y x E). intros ids t ids' t' -> ->. symmetry.
    apply (Ht ids' t' ids t Hx Hy).
Qed.

Lemma tmo_ok_core k o mo : tmo_ok k o mo -> tmo_ok k (core o) (core mo).
Proof.
  intros H ids t ids' t' H1 H2. unfold core in H1, H2. apply filter_In in H1. apply filter_In in H2.
  apply (H ids t ids' t'); tauto.
Qed.

Lemma outs_guards_conv lvl k code o mo : tmo_ok k o mo ->
  forallb (holds lvl) (outs_guards code (map (untime_out k) o) (map (untime_out k) mo)) = true ->
  forallb (holds lvl) (outs_guards code o mo) = true.
Proof.
  intros Ht. unfold outs_guards. cbn [forallb]. rewrite !andb_true_r, !andb_true_iff, !holds_0.
  intros [H1 H2]. split.
  - rewrite !core_unt in H1. apply (outs_match_conv k _ _ (tmo_ok_core k o mo Ht) H1).
  - unfold holds in H2 |- *. destruct (Nat.ltb lvl 3); [reflexivity|].
    apply (outs_match_conv k _ _ Ht H2).
Qed.

Lemma og_conv2 lvl k pre code o mo : tmo_ok k o mo ->
  forallb (holds lvl) (pre ++ outs_guards code (map (untime_out k) o) (map (untime_out k) mo)) = true ->
  forallb (holds lvl) (pre ++ outs_guards code o mo) = true.
Proof.
  intros Ht. rewrite !forallb_app, !andb_true_iff. intros [H1 H2]. split; [exact H1|].
  apply (outs_guards_conv lvl k code o mo Ht H2).
Qed.

Lemma og_conv3 lvl k pre code o mo suf : tmo_ok k o mo ->
  forallb (holds lvl) (pre ++ outs_guards code (map (untime_out k) o) (map (untime_out k) mo) ++ suf) = true ->
  forallb (holds lvl) (pre ++ outs_guards code o mo ++ suf) = true.
Proof.
  intros Ht. rewrite !forallb_app, !andb_true_iff. intros [H1 [H2 H3]]. split; [exact H1|].
  split; [|exact H3]. apply (outs_guards_conv lvl k code o mo Ht H2).
Qed.

Lemma deadlines_unt_min_conv k c s t :
  minN (deadlines (untime_cfg k c) (untime_st k s)) = Some t ->
  (ph (Rn s k) = PMain -> forall d, expi (Rn s k) = Some d -> (t <= d)%N) ->
  minN (deadlines c s) = Some t.
Proof.
  intros Hm Hd'. apply minN_intro.
  - apply (deadlines_unt_sub k). apply minN_In_u. exact Hm.
  - intros x Hx. destruct (deadlines_unt_sup k c s x Hx) as [H|[Hp H]].
    + apply (minN_le_u _ _ Hm). exact H.
    + unfold future in H. destruct (expi (Rn s k)) as [d|] eqn:Ee; [|destruct H].
      destruct (N.ltb (now s) d); [|destruct H]. destruct H as [<-|[]]. apply (Hd' Hp d eq_refl).
Qed.

Lemma deadlines_unt_none_conv k c s :
  minN (deadlines (untime_cfg k c) (untime_st k s)) = None -> ph (Rn s k) <> PMain ->
  minN (deadlines c s) = None.
Proof.
  intros H Hp. apply minN_none_u in H. destruct (deadlines c s) as [|x l] eqn:E; [reflexivity|].
  destruct (deadlines_unt_sup k c s x) as [Hx|[Hx _]].
  - rewrite E. left. reflexivity.
  - rewrite H in Hx. destruct Hx.
  - destruct (Hp Hx).
Qed.

Definition grace_ok (n : nat) (s : state) (e : event) : Prop :=
  match e with EGrace _ => ph (Rn s n) <> PMain | _ => True end.

Lemma guards_unt_conv k lvl c s e : 2 <= lvl -> unreached k s -> unreached k (fst (reaction c s e)) ->
  tmo_ok k (outs_of e) (snd (reaction c s e)) -> grace_ok k s e ->
  forallb (holds lvl) (guards (untime_cfg k c) (untime_st k s) (untime_ev k e)) = true ->
  forallb (holds lvl) (guards c s e) = true.
Proof.
  intros Hl Hu Hu' Ht Hgr Hg. pose proof (reaction_unt k c s e) as Hr.
  apply (f_equal snd) in Hr. unfold ut2 in Hr. cbn [snd] in Hr.
  destruct e as [m o|m w d o|m w o|m o|j|j oc|j|j|j|j|j|j|j|j|t|t|jv sv];
    cbn [untime_ev] in Hr, Hg; cbn [outs_of] in Ht.
  - cbn [guards] in Hg |- *. rewrite Hr, sched_id_unt, slot_free_unt in Hg. autorewrite with unt in Hg.
    apply (og_conv2 lvl k _ _ _ _ Ht Hg).
  - destruct w.
    + assert (Hx : d = [] -> Nat.eqb m k = false).
      { intros ->. destruct (Nat.eqb m k) eqn:E; [exfalso|reflexivity].
        cbn [guards app forallb] in Hg. rewrite !andb_true_iff in Hg.
        destruct Hg as (_ & _ & _ & G13 & _). rewrite holds_0, Rn_unt, E in G13.
        cbn [unt_r expi] in G13. discriminate G13. }
      cbn [guards] in Hg |- *. rewrite Hr, run_alive_unt in Hg. autorewrite with unt in Hg.
      rewrite expi_unt in Hg. destruct d as [|d0 d'].
      * rewrite (Hx eq_refl) in Hg. apply (og_conv2 lvl k _ _ _ _ Ht Hg).
      * apply (og_conv2 lvl k _ _ _ _ Ht Hg).
    + cbn [guards] in Hg |- *. rewrite Hr, run_alive_unt in Hg. autorewrite with unt in Hg.
      apply (og_conv2 lvl k _ _ _ _ Ht Hg).
    + cbn [guards] in Hg |- *. rewrite Hr, run_alive_unt in Hg. autorewrite with unt in Hg.
      apply (og_conv2 lvl k _ _ _ _ Ht Hg).
    + cbn [guards] in Hg |- *.
      rewrite Hr, sd_thread_ok_unt, handlers_stepped_unt, hpending_unt, culprit_of_unt, culprit_ok_unt in Hg.
      autorewrite with unt in Hg. apply (og_conv3 lvl k _ _ _ _ _ Ht Hg).
    + cbn [guards] in Hg |- *.
      rewrite Hr, sd_thread_ok_unt, culprit_of_unt, culprit_ok_unt in Hg.
      autorewrite with unt in Hg. apply (og_conv2 lvl k _ _ _ _ Ht Hg).
  - destruct w; cbn [guards] in Hg |- *; rewrite Hr in Hg;
      rewrite ?run_alive_unt, ?sd_thread_ok_unt, ?handlers_stepped_unt in Hg; autorewrite with unt in Hg;
      first [apply (og_conv2 lvl k _ _ _ _ Ht Hg) | apply (og_conv3 lvl k _ _ _ _ _ Ht Hg)].
  - cbn [guards] in Hg |- *. rewrite Hr, sched_id_unt in Hg. autorewrite with unt in Hg.
    apply (og_conv2 lvl k _ _ _ _ Ht Hg).
  - cbn [guards] in Hg |- *. rewrite atomic_id_unt, slot_free_unt in Hg. autorewrite with unt in Hg. exact Hg.
  - cbn [guards] in Hg |- *. rewrite atomic_id_unt in Hg. autorewrite with unt in Hg. exact Hg.
  - cbn [guards] in Hg |- *. rewrite atomic_id_unt in Hg. exact Hg.
  - cbn [guards] in Hg |- *. rewrite atomic_id_unt in Hg. exact Hg.
  - cbn [guards] in Hg |- *. rewrite atomic_id_unt in Hg. exact Hg.
  - cbn [guards] in Hg |- *. autorewrite with unt in Hg. exact Hg.
  - cbn [guards] in Hg |- *. rewrite atomic_id_unt in Hg. exact Hg.
  - cbn [guards] in Hg |- *. rewrite atomic_id_unt in Hg. autorewrite with unt in Hg. exact Hg.
  - cbn [guards] in Hg |- *. rewrite atomic_id_unt in Hg. exact Hg.
  - cbn [guards] in Hg |- *. autorewrite with unt in Hg. exact Hg.
  - cbn [guards forallb] in Hg |- *. rewrite !andb_true_iff in Hg |- *.
    destruct Hg as (G0 & G1 & G2 & _). repeat split.
    + exact G0.
    + rewrite holds_ge in G1 |- * by exact Hl. rewrite (quiescent_unt k c s Hu) in G1. exact G1.
    + rewrite holds_ge in G2 |- * by exact Hl.
      destruct (minN (deadlines (untime_cfg k c) (untime_st k s))) as [x|] eqn:Em; [|discriminate G2].
      apply N.eqb_eq in G2. subst x.
      rewrite (deadlines_unt_min_conv k c s t Em); [apply N.eqb_refl|].
      intros Hp d' He. cbn [reaction fst] in Hu'. unfold unreached, setNow in Hu'.
      cbn [Rn now] in Hu'. specialize (Hu' Hp). rewrite He in Hu'. lia.
  - cbn [guards forallb] in Hg |- *. rewrite !andb_true_iff in Hg |- *.
    destruct Hg as (G0 & G1 & G2 & G3 & _). repeat split.
    + exact G0.
    + rewrite Rn_unt, ph_unt in G1. exact G1.
    + rewrite holds_ge in G2 |- * by exact Hl. rewrite (quiescent_unt k c s Hu) in G2. exact G2.
    + rewrite holds_ge in G3 |- * by exact Hl.
      destruct (minN (deadlines (untime_cfg k c) (untime_st k s))) as [x|] eqn:Em; [discriminate G3|].
      rewrite (deadlines_unt_none_conv k c s Em Hgr). reflexivity.
  - cbn [guards] in Hg |- *. rewrite poll_sv_unt in Hg. exact Hg.
Qed.

(* one step backwards: e is an event of c whose erasure is enabled without the timeout *)
Theorem untime_step_conv_partial n lvl c s e t' : 2 <= lvl -> wf c = true ->
  unreached n s -> unreached n (fst (reaction c s e)) ->
  tmo_ok n (outs_of e) (snd (reaction c s e)) -> grace_ok n s e ->
  step lvl (untime_cfg n c) (untime_st n s) (untime_ev n e) = Some t' ->
  step lvl c s e = Some (fst (reaction c s e)) /\ t' = untime_st n (fst (reaction c s e)).
Proof.
  intros Hl _ Hu Hu' Ht Hgr Hs. apply step_inv in Hs. destruct Hs as [-> Hg].
  unfold step. rewrite (guards_unt_conv n lvl c s e Hl Hu Hu' Ht Hgr Hg), reaction_unt.
  split; reflexivity.
Qed.

(* a history of c, followed along the reactions: the expiration of n stays unreached, the timeout
   arguments it carries for the main waits of n are those the model computes, and the main loop of
   n is not running at the final jumps of the clock *)
Fixpoint conv_along (n : nat) (c : cfg) (s : state) (h : list event) : Prop :=
  unreached n s /\
  match h with
  | [] => True
  | e :: h' => tmo_ok n (outs_of e) (snd (reaction c s e)) /\ grace_ok n s e
               /\ conv_along n c (fst (reaction c s e)) h'
  end.

Lemma conv_along_head n c s h : conv_along n c s h -> unreached n s.
Proof. destruct h; intros [H _]; exact H. Qed.

Lemma conv_along_unreached n lvl c h : forall s, conv_along n c s h -> unreached_along n lvl c s h.
Proof.
  induction h as [|e h IH]; intros s [Hu Hrest]; cbn [unreached_along]; split; try exact Hu; try exact I.
  destruct Hrest as (_ & _ & Hrest). destruct (step lvl c s e) as [s1|] eqn:Es; [|exact I].
  apply step_inv in Es. destruct Es as [-> _]. apply IH. exact Hrest.
Qed.

Theorem untime_run_conv_partial n lvl c h : 2 <= lvl -> wf c = true -> forall s t',
  conv_along n c s h ->
  run lvl (untime_cfg n c) (untime_st n s) (map (untime_ev n) h) = Some t' ->
  exists s', run lvl c s h = Some s' /\ t' = untime_st n s'.
Proof.
  intros Hl Hw. induction h as [|e h IH]; intros s t' Hc Hr; cbn [run map] in Hr |- *.
  - inversion Hr. exists s. split; reflexivity.
  - destruct Hc as (Hu & Ht & Hgr & Hrest).
    destruct (step lvl (untime_cfg n c) (untime_st n s) (untime_ev n e)) as [t1|] eqn:Es; [|discriminate].
    destruct (untime_step_conv_partial n lvl c s e t1 Hl Hw Hu (conv_along_head _ _ _ _ Hrest) Ht Hgr Es)
      as [E1 ->].
    rewrite E1. apply IH; assumption.
Qed.

Theorem untime_accept_conv_partial n lvl c h : 2 <= lvl -> wf c = true -> conv_along n c init h ->
  accept lvl (untime_cfg n c) (map (untime_ev n) h) = true -> accept lvl c h = true.
Proof.
  intros Hl Hw Hc Ha. unfold accept in Ha |- *.
  destruct (run lvl (untime_cfg n c) init (map (untime_ev n) h)) as [t'|] eqn:Er; [|discriminate].
  rewrite <- (untime_init n) in Er at 1.
  destruct (untime_run_conv_partial n lvl c h Hl Hw init t' Hc Er) as (s' & E & _). rewrite E. reflexivity.
Qed.

(* under these hypotheses the two configurations accept the same history *)
Theorem untime_accept_iff_partial n lvl c h : 2 <= lvl -> wf c = true -> conv_along n c init h ->
  accept lvl (untime_cfg n c) (map (untime_ev n) h) = accept lvl c h.
Proof.
  intros Hl Hw Hc. destruct (accept lvl c h) eqn:Ea.
  - apply untime_accept; try assumption. apply conv_along_unreached. exact Hc.
  - destruct (accept lvl (untime_cfg n c) (map (untime_ev n) h)) eqn:Eb; [|reflexivity].
    rewrite (untime_accept_conv_partial n lvl c h Hl Hw Hc Eb) in Ea. discriminate Ea.
Qed.

(* the example above satisfies the hypotheses of the converse *)
Ltac in_cases H :=
  repeat match type of H with
         | _ \/ _ => destruct H as [H|H]
         | False => destruct H
         end.

Example ut_ex_conv : conv_along 0 ut_ex_cfg init ut_ex_hist.
Proof.
  vm_compute.
  repeat match goal with
  | |- _ /\ _ => split
  | |- True => exact I
  | |- _ = PMain -> _ => let H := fresh in intros H; try reflexivity; discriminate H
  | |- _ <> _ => let H := fresh in intros H; discriminate H
  | |- forall _ _ _ _, _ -> _ -> _ =>
      let H1 := fresh in let H2 := fresh in intros ? ? ? ? H1 H2;
      in_cases H1; try discriminate H1; in_cases H2; try discriminate H2; congruence
  end.
Qed.

Print Assumptions untime_accept_iff_partial.
Print Assumptions untime_accept.
