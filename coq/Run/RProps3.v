(* Exit discipline as checks: a job only starts while the main loop of its scheduler runs; the
   main wake that leaves the loop (critical failure, timeout, last non-forever job done) cancels
   everything still pending, there and then, and creates nothing.  Properties C05, C08, C09, C11. *)
From AJ Require Import Common.Util Run.RModel Run.RFacts Run.RFacts2 Run.RInv Run.RInv2 Run.RInv3 Run.RInv4
  Run.RInv5 Run.RMon Run.RProps1 Run.RProps2.

(* ------------------------------------------------------------------ nothing starts outside the main loop *)

Definition in_main (s : state) (p : nat) : bool := match ph (Rn s p) with PMain => true | _ => false end.

Definition chk_nostart (c : cfg) (s : state) (e : event) : bool :=
  match e with
  | EStart x => in_main s (parent c x)
  | EBegin n _ => rootb n || in_main s (parent c n)
  | _ => true
  end.

Lemma created_clean_in_main c s x : wf c = true -> InvD c s -> x <> 0 -> x < njobs c ->
  st (Jb s x) = Created -> cp (Jb s x) = false -> ph (Rn s (parent c x)) = PMain.
Proof.
  intros W [[I1 I3 I4 I5 I6] I7] Hx0 Hx Hst Hcp.
  set (p := parent c x).
  assert (Hm : In x (members c p)) by (apply In_members; auto).
  assert (Hlive : live (st (Jb s x)) = true) by (rewrite Hst; reflexivity).
  pose proof (l_pend c s I7 p x Hm Hlive) as Hin.
  destruct (ph (Rn s p)) as [| |w|w| |] eqn:Eph; try reflexivity; exfalso.
  - rewrite (i_idle c s I1 p x Hm Eph) in Hst. discriminate.
  - assert (Hex : exiting (ph (Rn s p))) by (rewrite Eph; left; exists w; reflexivity).
    destruct (d_pend c s I6 p x Hex Hin) as [[D|[D|[D|(D & _)]]] _]; congruence.
  - assert (Hq : quiet_ph (ph (Rn s p))) by (rewrite Eph; left; exists w; reflexivity).
    rewrite (quiet_no_live c s p x I7 Hq Hm) in Hlive. discriminate.
  - assert (Hex : exiting (ph (Rn s p))) by (rewrite Eph; right; right; reflexivity).
    destruct (d_pend c s I6 p x Hex Hin) as [[D|[D|[D|(D & _)]]] _]; congruence.
  - assert (Hq : quiet_ph (ph (Rn s p))) by (rewrite Eph; right; reflexivity).
    rewrite (quiet_no_live c s p x I7 Hq Hm) in Hlive. discriminate.
Qed.

Theorem chk_nostart_holds lvl c h0 s e s' : wf c = true ->
  Reach lvl c h0 s -> step lvl c s e = Some s' -> chk_nostart c s e = true.
Proof.
  intros W Hr Hs. pose proof (InvD_reach lvl c h0 s W Hr) as ID.
  apply step_inv in Hs. destruct Hs as [_ Hg].
  destruct e as [n o|n k d o|n k o|n o|j|j oc|j|j|j|j|j|j|j|j|t|t|jv sv]; try reflexivity; cbn [chk_nostart].
  - split_guards Hg. destruct (rootb n) eqn:Er; [reflexivity|]. cbn [orb].
    unfold sched_id in G. apply andb_true_iff in G. destruct G as [_ Hlt]. apply Nat.ltb_lt in Hlt.
    apply rootb_false in Er. destruct (st (Jb s n)) eqn:Est; try discriminate.
    apply negb_true_iff in G0. unfold in_main.
    rewrite (created_clean_in_main c s n W ID Er Hlt Est G0). reflexivity.
  - split_guards Hg. destruct (atomic_id_spec _ _ G) as (A1 & A2 & A3).
    destruct (st (Jb s j)) eqn:Est; try discriminate. apply negb_true_iff in G0. unfold in_main.
    rewrite (created_clean_in_main c s j W ID A3 A2 Est G0). reflexivity.
Qed.

(* ------------------------------------------------------------------ the wake that leaves the main loop *)

Definition doomed_b (c : cfg) (s : state) (x : nat) : bool :=
  cp (Jb s x)
  || match st (Jb s x) with
     | Cancelling | Cancelled => true
     | Running => j_sched (jc c x) && (match ph (Rn s x) with PCTidy => true | _ => false end || rcanc (Rn s x))
     | _ => false
     end.

Lemma doomed_b_spec c s x : doomed c s x -> doomed_b c s x = true.
Proof.
  unfold doomed_b. intros [D|[D|[D|(D1 & D2 & D3)]]].
  - rewrite D. reflexivity.
  - rewrite D. apply orb_true_r.
  - rewrite D. apply orb_true_r.
  - rewrite D1, D2. cbn. destruct D3 as [D3|D3]; rewrite D3; [|rewrite orb_true_r]; apply orb_true_r.
Qed.

(* [s']: the state after the event *)
Definition chk_exit (c : cfg) (s : state) (e : event) : bool :=
  match e with
  | EWake n KMain d _ =>
      let s' := fst (reaction c s e) in
      if in_main s' n then true
      else
        (* everything still pending is being cancelled and has not finished *)
        forallb (fun x => doomed_b c s' x && negb (finished (st (Jb s' x)))) (pend (Rn s' n))
        (* nothing is created *)
        && forallb (fun x => match st (Jb s x) with Idle => match st (Jb s' x) with Idle => true | _ => false end
                                               | _ => true end) (members c n)
        (* after a success only forever jobs are left *)
        && match ph (Rn s' n) with
           | PTidy WSuccess | PShut WSuccess => forallb (fun x => j_forever (jc c x)) (pend (Rn s' n))
           | _ => true
           end
  | _ => true
  end.

Theorem chk_exit_holds lvl c h0 s e s' : wf c = true ->
  Reach lvl c h0 s -> step lvl c s e = Some s' -> chk_exit c s e = true.
Proof.
  intros W Hr Hs.
  pose proof (InvD_reach lvl c h0 s W Hr) as ID.
  pose proof (InvD_reach lvl c (h0 ++ [e]) s' W (reach_snoc _ _ _ _ _ _ Hr Hs)) as ID'.
  destruct ID as [[I1 I3 I4 I5 I6] I7]. destruct ID' as [[I1' I3' I4' I5' I6'] I7'].
  destruct e as [n o|n k d o|n k o|n o|j|j oc|j|j|j|j|j|j|j|j|t|t|jv sv]; try reflexivity.
  destruct k; try reflexivity. cbn [chk_exit].
  destruct (step_inv _ _ _ _ _ Hs) as [Es' Hg]. rewrite <- Es'.
  destruct (in_main s' n) eqn:Ein; [reflexivity|].
  assert (Hnm : ph (Rn s' n) <> PMain) by (unfold in_main in Ein; destruct (ph (Rn s' n)); discriminate).
  assert (HG : ph (Rn s n) = PMain /\ run_alive c s n false = true).
  { pose proof Hg as Hg'. split_guards Hg'. split; [destruct (ph (Rn s n)); try discriminate; reflexivity|assumption]. }
  destruct HG as [HphM Ha].
  pose proof (react_main_upd c n d s HphM) as U. cbn [reaction fst] in Es'. rewrite <- Es' in U.
  destruct U as (Us & Urc & Ufl & U).
  assert (Hd : seteqb d (filter (jfin s) (pend (Rn s n))) = true).
  { pose proof Hg as Hg'. split_guards Hg'. assumption. }
  destruct U as [(w & Hw & Hp & Hps & Hcz & Hb)|(Hw & _)]; [|contradiction].
  assert (Hex : exiting (ph (Rn s' n)) \/ pend (Rn s' n) = []).
  { destruct Hw as [Hw|Hw]; [left; left; exists w; exact Hw|right; rewrite Hp; apply Hps; exact Hw]. }
  repeat (apply andb_true_iff; split).
  - apply forallb_forall. intros x Hx.
    destruct Hex as [Hex|Hex]; [|rewrite Hex in Hx; destruct Hx].
    destruct (d_pend c s' I6' n x Hex Hx) as [D1 D2].
    rewrite (doomed_b_spec c s' x D1). cbn [andb]. apply negb_true_iff.
    (* not finished: doomed and not done means not returned/raised; it was unfinished and only got a cancel request *)
    pose proof (Hcz x Hx) as Hc. rewrite Hc, cancel_j_st.
    rewrite Hp in Hx. apply In_diff in Hx. destruct Hx as [Hx1 Hx2].
    destruct (finished (st (Jb s x))) eqn:Ef; [|reflexivity]. exfalso. apply Hx2.
    apply (seteqb_spec _ _ Hd). apply filter_In. split; [exact Hx1|exact Ef].
  - apply forallb_forall. intros x Hx. destruct (st (Jb s x)) eqn:Est; try reflexivity.
    destruct (st (Jb s' x)) eqn:Est'; try reflexivity; exfalso.
    all: assert (Hlive' : st (Jb s' x) <> Idle) by (rewrite Est'; discriminate).
    all: pose proof (newly_live_pending lvl c s (EWake n KMain d o) s' x W I1 Hs Est Hlive') as Hin.
    all: assert (Hpar : parent c x = n) by (apply In_members in Hx; tauto).
    all: rewrite Hpar, Hp in Hin; apply In_diff in Hin; destruct Hin as [Hin _].
    all: apply (b_pend_live c s I5 n x Hin); exact Est.
  - destruct Hw as [Hw|Hw]; rewrite Hw; destruct w; try reflexivity.
    + (* success, tidy *)
      apply forallb_forall. intros x Hx.
      destruct (j_forever (jc c x)) eqn:Ef; [reflexivity|]. exfalso.
      assert (Hcnt : ndone (Rn s' n) = nonforever c (seen (Rn s' n))).
      { apply (b_count c s' I5'). unfold ph_counts, ph_nocrit. rewrite Hw. auto. }
      assert (Hsucc : ndone (Rn s' n) = nfinite c n) by (apply (b_succ c s' I5'); left; exact Hw).
      assert (Hm : In x (members c n)) by (apply (i_pend c s' I1' n x Hx)).
      assert (Hseen : In x (seen (Rn s' n))).
      { apply (filter_length_incl (fun j => negb (j_forever (jc c j))) (seen (Rn s' n)) (members c n)); auto.
        - apply (b_seen_nd c s' I5').
        - unfold members. apply NoDup_filter. apply NoDup_seqn.
        - intros y Hy. apply (b_seen_done c s' I5' n y Hy).
        - unfold nonforever, nfinite in *. rewrite <- Hcnt. exact Hsucc.
        - rewrite Ef. reflexivity. }
      apply (b_disj c s' I5' n x Hx Hseen).
    + rewrite Hp, (Hps Hw). reflexivity.
Qed.

Theorem chk_nostart_monitor lvl c h : wf c = true -> accept lvl c h = true -> mon_ok chk_nostart c h = true.
Proof. intros W. apply mon_sound. intros h0 s e s' Hr Hs. eapply chk_nostart_holds; eauto. Qed.

Theorem chk_exit_monitor lvl c h : wf c = true -> accept lvl c h = true -> mon_ok chk_exit c h = true.
Proof. intros W. apply mon_sound. intros h0 s e s' Hr Hs. eapply chk_exit_holds; eauto. Qed.
