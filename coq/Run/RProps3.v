(* Exit discipline as checks: a job only starts while the main loop of its scheduler runs; the
   main wake that leaves the loop (critical failure, timeout, last non-forever job done) cancels
   everything still pending, there and then, and creates nothing.  Properties C05, C08, C09, C11. *)
From AJ Require Import Common.Util Run.RModel Run.RFacts Run.RFacts2 Run.RInv Run.RInv2 Run.RInv3 Run.RInv4
  Run.RInv5 Run.RMon Run.RProps1 Run.RProps2.

(* ------------------------------------------------------------------ nothing starts outside the main loop *)

Definition in_main (s : state) (p : nat) : bool := match ph (Rn s p) with PMain => true | _ => false end.

Definition chk_nostart (c : cfg) (s : state) (e : event) : bool :=
  match e with
  | EStart x => in_main s (parent c x)
  | EBegin n _ => rootb n || in_main s (parent c n)
  | _ => true
  end.

Lemma created_clean_in_main c s x : wf c = true -> InvD c s -> x <> 0 -> x < njobs c ->
  st (Jb s x) = Created -> cp (Jb s x) = false -> ph (Rn s (parent c x)) = PMain.
Proof.
  intros W [[I1 I3 I4 I5 I6] I7] Hx0 Hx Hst Hcp.
  set (p := parent c x).
  assert (Hm : In x (members c p)) by (apply In_members; auto).
  assert (Hlive : live (st (Jb s x)) = true) by (rewrite Hst; reflexivity).
  pose proof (l_pend c s I7 p x Hm Hlive) as Hin.
  destruct (ph (Rn s p)) as [| |w|w| |] eqn:Eph; try reflexivity; exfalso.
  - rewrite (i_idle c s I1 p x Hm Eph) in Hst. discriminate.
  - assert (Hex : exiting (ph (Rn s p))) by (rewrite Eph; left; exists w; reflexivity).
    destruct (d_pend c s I6 p x Hex Hin) as [[D|[D|[D|(D & _)]]] _]; congruence.
  - assert (Hq : quiet_ph (ph (Rn s p))) by (rewrite Eph; left; exists w; reflexivity).
    rewrite (quiet_no_live c s p x I7 Hq Hm) in Hlive. discriminate.
  - assert (Hex : exiting (ph (Rn s p))) by (rewrite Eph; right; right; reflexivity).
    destruct (d_pend c s I6 p x Hex Hin) as [[D|[D|[D|(D & _)]]] _]; congruence.
  - assert (Hq : quiet_ph (ph (Rn s p))) by (rewrite Eph; right; reflexivity).
    rewrite (quiet_no_live c s p x I7 Hq Hm) in Hlive. discriminate.
Qed.

Theorem chk_nostart_holds lvl c h0 s e s' : wf c = true ->
  Reach lvl c h0 s -> step lvl c s e = Some s' -> chk_nostart c s e = true.
Proof.
  intros W Hr Hs. pose proof (InvD_reach lvl c h0 s W Hr) as ID.
  apply step_inv in Hs. destruct Hs as [_ Hg].
  destruct e as [n o|n k d o|n k o|n o|j|j oc|j|j|j|j|j|j|j|j|t|t|jv sv]; try reflexivity; cbn [chk_nostart].
  - split_guards Hg. destruct (rootb n) eqn:Er; [reflexivity|]. cbn [orb].
    unfold sched_id in G. apply andb_true_iff in G. destruct G as [_ Hlt]. apply Nat.ltb_lt in Hlt.
    apply rootb_false in Er. destruct (st (Jb s n)) eqn:Est; try discriminate.
    apply negb_true_iff in G0. unfold in_main.
    rewrite (created_clean_in_main c s n W ID Er Hlt Est G0). reflexivity.
  - split_guards Hg. destruct (atomic_id_spec _ _ G) as (A1 & A2 & A3).
    destruct (st (Jb s j)) eqn:Est; try discriminate. apply negb_true_iff in G0. unfold in_main.
    rewrite (created_clean_in_main c s j W ID A3 A2 Est G0). reflexivity.
Qed.

(* ------------------------------------------------------------------ the wake that leaves the main loop *)

Definition doomed_b (c : cfg) (s : state) (x : nat) : bool :=
  cp (Jb s x)
  || match st (Jb s x) with
     | Cancelling | Cancelled => true
     | Running => j_sched (jc c x) && (match ph (Rn s x) with PCTidy => true | _ => false end || rcanc (Rn s x))
     | _ => false
     end.

Lemma doomed_b_spec c s x : doomed c s x -> doomed_b c s x = true.
Proof.
  unfold doomed_b. intros [D|[D|[D|(D1 & D2 & D3)]]].
  - rewrite D. reflexivity.
  - rewrite D. apply orb_true_r.
  - rewrite D. apply orb_true_r.
  - rewrite D1, D2. cbn. destruct D3 as [D3|D3]; rewrite D3; [|rewrite orb_true_r]; apply orb_true_r.
Qed.

(* [s']: the state after the event *)
Definition chk_exit (c : cfg) (s : state) (e : event) : bool :=
  match e with
  | EWake n KMain d _ =>
      let s' := fst (reaction c s e) in
      if in_main s' n then true
      else
        (* everything still pending is being cancelled and has not finished *)
        forallb (fun x => doomed_b c s' x && negb (finished (st (Jb s' x)))) (pend (Rn s' n))
        (* nothing is created *)
        && forallb (fun x => match st (Jb s x) with Idle => match st (Jb s' x) with Idle => true | _ => false end
                                               | _ => true end) (members c n)
        (* after a success only forever jobs are left *)
        && match ph (Rn s' n) with
           | PTidy WSuccess | PShut WSuccess => forallb (fun x => j_forever (jc c x)) (pend (Rn s' n))
           | _ => true
           end
  | _ => true
  end.

Theorem chk_exit_holds lvl c h0 s e s' : wf c = true ->
  Reach lvl c h0 s -> step lvl c s e = Some s' -> chk_exit c s e = true.
Proof.
  intros W Hr Hs.
  pose proof (InvD_reach lvl c h0 s W Hr) as ID.
  pose proof (InvD_reach lvl c (h0 ++ [e]) s' W (reach_snoc _ _ _ _ _ _ Hr Hs)) as ID'.
  destruct ID as [[I1 I3 I4 I5 I6] I7]. destruct ID' as [[I1' I3' I4' I5' I6'] I7'].
  destruct e as [n o|n k d o|n k o|n o|j|j oc|j|j|j|j|j|j|j|j|t|t|jv sv]; try reflexivity.
  destruct k; try reflexivity. cbn [chk_exit].
  destruct (step_inv _ _ _ _ _ Hs) as [Es' Hg]. rewrite <- Es'.
  destruct (in_main s' n) eqn:Ein; [reflexivity|].
  assert (Hnm : ph (Rn s' n) <> PMain) by (unfold in_main in Ein; destruct (ph (Rn s' n)); discriminate).
  assert (HG : ph (Rn s n) = PMain /\ run_alive c s n false = true).
  { pose proof Hg as Hg'. split_guards Hg'. split; [destruct (ph (Rn s n)); try discriminate; reflexivity|assumption]. }
  destruct HG as [HphM Ha].
  pose proof (react_main_upd c n d s HphM) as U. cbn [reaction fst] in Es'. rewrite <- Es' in U.
  destruct U as (Us & Urc & Ufl & U).
  assert (Hd : seteqb d (filter (jfin s) (pend (Rn s n))) = true).
  { pose proof Hg as Hg'. split_guards Hg'. assumption. }
  destruct U as [(w & Hw & Hp & Hps & Hcz & Hb)|(Hw & _)]; [|contradiction].
  assert (Hex : exiting (ph (Rn s' n)) \/ pend (Rn s' n) = []).
  { destruct Hw as [Hw|Hw]; [left; left; exists w; exact Hw|right; rewrite Hp; apply Hps; exact Hw]. }
  repeat (apply andb_true_iff; split).
  - apply forallb_forall. intros x Hx.
    destruct Hex as [Hex|Hex]; [|rewrite Hex in Hx; destruct Hx].
    destruct (d_pend c s' I6' n x Hex Hx) as [D1 D2].
    rewrite (doomed_b_spec c s' x D1). cbn [andb]. apply negb_true_iff.
    (* not finished: doomed and not done means not returned/raised; it was unfinished and only got a cancel request *)
    pose proof (Hcz x Hx) as Hc. rewrite Hc, cancel_j_st.
    rewrite Hp in Hx. apply In_diff in Hx. destruct Hx as [Hx1 Hx2].
    destruct (finished (st (Jb s x))) eqn:Ef; [|reflexivity]. exfalso. apply Hx2.
    apply (seteqb_spec _ _ Hd). apply filter_In. split; [exact Hx1|exact Ef].
  - apply forallb_forall. intros x Hx. destruct (st (Jb s x)) eqn:Est; try reflexivity.
    destruct (st (Jb s' x)) eqn:Est'; try reflexivity; exfalso.
    all: assert (Hlive' : st (Jb s' x) <> Idle) by (rewrite Est'; discriminate).
    all: pose proof (newly_live_pending lvl c s (EWake n KMain d o) s' x W I1 Hs Est Hlive') as Hin.
    all: assert (Hpar : parent c x = n) by (apply In_members in Hx; tauto).
    all: rewrite Hpar, Hp in Hin; apply In_diff in Hin; destruct Hin as [Hin _].
    all: apply (b_pend_live c s I5 n x Hin); exact Est.
  - destruct Hw as [Hw|Hw]; rewrite Hw; destruct w; try reflexivity.
    + (* success, tidy *)
      apply forallb_forall. intros x Hx.
      destruct (j_forever (jc c x)) eqn:Ef; [reflexivity|]. exfalso.
      assert (Hcnt : ndone (Rn s' n) = nonforever c (seen (Rn s' n))).
      { apply (b_count c s' I5'). unfold ph_counts, ph_nocrit. rewrite Hw. auto. }
      assert (Hsucc : ndone (Rn s' n) = nfinite c n) by (apply (b_succ c s' I5'); left; exact Hw).
      assert (Hm : In x (members c n)) by (apply (i_pend c s' I1' n x Hx)).
      assert (Hseen : In x (seen (Rn s' n))).
      { apply (filter_length_incl (fun j => negb (j_forever (jc c j))) (seen (Rn s' n)) (members c n)); auto.
        - apply (b_seen_nd c s' I5').
        - unfold members. apply NoDup_filter. apply NoDup_seqn.
        - intros y Hy. apply (b_seen_done c s' I5' n y Hy).
        - unfold nonforever, nfinite in *. rewrite <- Hcnt. exact Hsucc.
        - rewrite Ef. reflexivity. }
      apply (b_disj c s' I5' n x Hx Hseen).
    + rewrite Hp, (Hps Hw). reflexivity.
Qed.

Theorem chk_nostart_monitor lvl c h : wf c = true -> accept lvl c h = true -> mon_ok chk_nostart c h = true.
Proof. intros W. apply mon_sound. intros h0 s e s' Hr Hs. eapply chk_nostart_holds; eauto. Qed.

Theorem chk_exit_monitor lvl c h : wf c = true -> accept lvl c h = true -> mon_ok chk_exit c h = true.
Proof. intros W. apply mon_sound. intros h0 s e s' Hr Hs. eapply chk_exit_holds; eauto. Qed.

(* ------------------------------------------------------------------ clean exit, at any depth (jobs part of C11) *)

(* x lies strictly below scheduler n in the tree *)
Fixpoint below_fuel (fuel : nat) (c : cfg) (n x : nat) : bool :=
  match fuel with
  | 0 => false
  | S f => negb (Nat.eqb x 0) && (Nat.eqb (parent c x) n || below_fuel f c n (parent c x))
  end.
Definition below (c : cfg) (n x : nat) : bool := below_fuel (S x) c n x.

(* a scheduler whose task is finished, or that never began, has no live job below it *)
Definition settled (c : cfg) (s : state) (n : nat) : Prop :=
  ph (Rn s n) = POver \/ ph (Rn s n) = PIdle.

Lemma settled_members c s n x : wf c = true -> InvD c s -> settled c s n -> In x (members c n) ->
  live (st (Jb s x)) = false /\ (j_sched (jc c x) = true -> settled c s x).
Proof.
  intros W [[I1 I3 I4 I5 I6] I7] Hset Hm.
  assert (Hx0 : x <> 0) by (apply In_members in Hm; tauto).
  assert (Hnl : live (st (Jb s x)) = false).
  { destruct Hset as [Ho|Hi].
    - apply (quiet_no_live c s n x I7); [right; exact Ho|exact Hm].
    - rewrite (i_idle c s I1 n x Hm Hi). reflexivity. }
  split; [exact Hnl|]. intros Hsch. unfold settled.
  destruct (ph (Rn s x)) as [| |w|w| |] eqn:Eph; auto; exfalso.
  - rewrite (k_act c s I3 x Hx0 Hsch) in Hnl; [discriminate| |]; rewrite Eph; discriminate.
  - rewrite (k_act c s I3 x Hx0 Hsch) in Hnl; [discriminate| |]; rewrite Eph; discriminate.
  - rewrite (k_act c s I3 x Hx0 Hsch) in Hnl; [discriminate| |]; rewrite Eph; discriminate.
  - rewrite (k_act c s I3 x Hx0 Hsch) in Hnl; [discriminate| |]; rewrite Eph; discriminate.
Qed.

Lemma below_fuel_quiet c s : wf c = true -> InvD c s ->
  forall fuel n x, settled c s n -> x < njobs c ->
    below_fuel fuel c n x = true -> live (st (Jb s x)) = false /\ (j_sched (jc c x) = true -> settled c s x).
Proof.
  intros W ID. induction fuel as [|f IH]; intros n x Hset Hx Hb; [discriminate|].
  cbn [below_fuel] in Hb. apply andb_true_iff in Hb. destruct Hb as [Hx0 Hb].
  apply negb_true_iff, Nat.eqb_neq in Hx0.
  apply orb_true_iff in Hb. destruct Hb as [Hp|Hb].
  - apply Nat.eqb_eq in Hp. apply (settled_members c s n x W ID Hset). apply In_members. auto.
  - destruct (wf_parent c x W Hx Hx0) as [Hlt Hps].
    destruct (IH n (parent c x) Hset ltac:(lia) Hb) as [_ Hsp].
    apply (settled_members c s (parent c x) x W ID (Hsp Hps)). apply In_members. auto.
Qed.

(* when the run of n is over, no job below n, at any depth, is waiting to start, running or
   being cancelled -- and (chk_nostart) none will start later *)
Theorem over_subtree_quiet lvl c h s n x : wf c = true -> Reach lvl c h s ->
  ph (Rn s n) = POver -> x < njobs c -> below c n x = true ->
  live (st (Jb s x)) = false.
Proof.
  intros W Hr Ho Hx Hb. pose proof (InvD_reach lvl c h s W Hr) as ID.
  destruct (below_fuel_quiet c s W ID (S x) n x (or_introl Ho) Hx Hb) as [H _]. exact H.
Qed.

(* and a job that is not live stays so *)
Theorem not_live_stable lvl c h0 s e s' x : wf c = true ->
  Reach lvl c h0 s -> step lvl c s e = Some s' ->
  finished (st (Jb s x)) = true -> Jb s' x = Jb s x.
Proof. intros W Hr Hs Hf. eapply finished_stable; eauto. eapply Inv1_reach; eauto. Qed.

(* the check: at every event that announces the end of the run of n, nothing below n is live in
   the state after the event *)
Definition chk_over (c : cfg) (s : state) (e : event) : bool :=
  let s' := fst (reaction c s e) in
  forallb (fun o => match o with
                    | OEnd n _ => forallb (fun x => negb (below c n x) || negb (live (st (Jb s' x)))) (all_ids c)
                    | _ => true end) (outs_of e).

Theorem chk_over_holds lvl c h0 s e s' : wf c = true ->
  Reach lvl c h0 s -> step lvl c s e = Some s' -> chk_over c s e = true.
Proof.
  intros W Hr Hs. destruct (step_inv _ _ _ _ _ Hs) as [Es' _].
  pose proof (reach_snoc _ _ _ _ _ _ Hr Hs) as Hr'.
  pose proof (InvD_reach lvl c _ s' W Hr') as ID'.
  unfold chk_over. rewrite <- Es'. apply forallb_forall. intros o Ho.
  destruct o as [| | | | |n v]; try reflexivity.
  apply forallb_forall. intros x Hx. apply In_all_ids in Hx.
  destruct (below c n x) eqn:Eb; [|reflexivity]. cbn [negb orb]. apply negb_true_iff.
  (* the model also ends the run of n in this step *)
  pose proof (accepted_core lvl c s e s' Hs (or_intror I)) as Hm.
  pose proof (outs_match_end _ _ n v Hm Ho) as Hin.
  destruct (end_in_reaction c s e n v Hin) as [Hov _]. rewrite <- Es' in Hov.
  apply (over_subtree_quiet lvl c _ s' n x W Hr' Hov Hx Eb).
Qed.

Theorem chk_over_monitor lvl c h : wf c = true -> accept lvl c h = true -> mon_ok chk_over c h = true.
Proof. intros W. apply mon_sound. intros h0 s e s' Hr Hs. eapply chk_over_holds; eauto. Qed.

(* ------------------------------------------------------------------ nested scheduler as one job (C10) *)

(* the end of a nested run is, for its parent, the end of one job: returned True/False, raised
   (with the tag of the exception that bubbles up), or cancelled *)
Lemma nested_end_status c n w r cu s : n <> 0 ->
  Jb (fst (finish_run c n w r cu s)) n = mkJst (jstat_of_verdict (verdict_of c n w cu)) false None true.
Proof.
  intros Hn. rewrite Jb_finish_run. apply Nat.eqb_neq in Hn. rewrite Hn, Nat.eqb_refl. reflexivity.
Qed.

(* which exception object a critical nested scheduler re-raises *)
Lemma raised_tag c n w cu t : verdict_of c n w cu = VRaise t ->
  noncrit c n = false /\ ((w = WTimeout /\ t = tag_timeout n) \/ (w = WCritical /\ t = cu)).
Proof.
  unfold verdict_of, noncrit. destruct w; try discriminate;
    destruct ((Nat.eqb n 0 && pure_root c) || negb (j_crit (jc c n))); try discriminate;
    intros H; inversion H; auto.
Qed.

(* ... and a contained failure is read as False by the parent, which carries on: a job that
   returned is never a critical failure *)
Lemma contained_is_not_failure c s n : st (Jb s n) = DoneRet RVFalse -> crit_exc c s n = false.
Proof. intros H. unfold crit_exc. rewrite H. apply andb_false_r. Qed.

(* ------------------------------------------------------------------ timing, level 2: the clock only moves
   when nothing is left to report *)
Lemma tick_quiescent c s t s' : step 2 c s (ETick t) = Some s' -> quiescent c s = true.
Proof.
  intros Hs. apply step_inv in Hs. destruct Hs as [_ Hg].
  cbn [forallb guards] in Hg. rewrite !andb_true_iff in Hg. destruct Hg as (_ & H & _).
  rewrite holds_ge in H by lia. exact H.
Qed.

Lemma tick_means_nothing_unreported : forall c h s t, wf c = true -> Reach 2 c h s ->
  step 2 c s (ETick t) <> None ->
  forall n, j_sched (jc c n) = true -> n < njobs c -> ph (Rn s n) = PMain ->
  forall x, In x (pend (Rn s n)) -> jfin s x = false.
Proof.
  intros c h s t W Hr Hne n Hsch Hn Hph x Hx.
  destruct (step 2 c s (ETick t)) as [s'|] eqn:Es; [|contradiction].
  pose proof (tick_quiescent c s t s' Es) as Hq. unfold quiescent in Hq.
  apply andb_true_iff in Hq. destruct Hq as [_ Hq]. rewrite forallb_forall in Hq.
  assert (Hin : In n (scheds c)).
  { unfold scheds. apply filter_In. split; [apply In_all_ids; exact Hn|exact Hsch]. }
  specialize (Hq n Hin). apply andb_true_iff in Hq. destruct Hq as [Hq _].
  apply negb_true_iff in Hq. unfold run_enabled in Hq. rewrite Hph in Hq.
  apply orb_false_iff in Hq. destruct Hq as [Hq _]. apply orb_false_iff in Hq. destruct Hq as [_ Hq].
  destruct (jfin s x) eqn:E; [|reflexivity].
  assert (existsb (jfin s) (pend (Rn s n)) = true) by (apply existsb_exists; exists x; auto). congruence.
Qed.

Lemma critical_wins c n d s : ph (Rn s n) = PMain ->
  d <> [] -> existsb (crit_exc c s) d = true ->
  let s' := fst (react_main c n d s) in
  ph (Rn s' n) = PTidy WCritical \/ ph (Rn s' n) = PShut WCritical.
Proof.
  intros Hph Hne Hc. cbn zeta.
  destruct (react_main_upd c n d s Hph) as (_ & _ & _ & [(w & Hw & _ & _ & _ & Hb)|(_ & _ & Hnc & _)]).
  - destruct w.
    + destruct Hb as (_ & Hx & _). congruence.
    + destruct Hb as (Hx & _). contradiction.
    + exact Hw.
  - congruence.
Qed.

Lemma pending_doomed lvl c h s p x : wf c = true -> Reach lvl c h s ->
  exiting (ph (Rn s p)) -> In x (pend (Rn s p)) ->
  doomed c s x /\ is_done (st (Jb s x)) = false.
Proof.
  intros W Hr He Hi. destruct (InvD_reach lvl c h s W Hr) as [[I1 I3 I4 I5 I6] I7].
  apply (d_pend c s I6 p x He Hi).
Qed.

Lemma timeout_path c n s : ph (Rn s n) = PMain ->
  let s' := fst (react_main c n [] s) in
  ph (Rn s' n) = PTidy WTimeout \/ ph (Rn s' n) = PShut WTimeout.
Proof.
  intros Hph. cbn zeta.
  destruct (react_main_upd c n [] s Hph) as (_ & _ & _ & [(w & Hw & _ & _ & _ & Hb)|(_ & Hne & _)]).
  - destruct w.
    + destruct Hb as (Hx & _). contradiction.
    + exact Hw.
    + destruct Hb as (Hx & _). contradiction.
  - contradiction.
Qed.

Lemma begin_sets_deadline c n s :
  let s' := fst (react_begin c n s) in
  members c n <> [] -> expi (Rn s' n) = optN_add (now s) (j_timeout (jc c n)) /\ tbeg (Rn s' n) = now s.
Proof.
  cbn zeta. intros Hne. unfold react_begin. destruct (members c n) eqn:Em; [contradiction|].
  cbn [fst]. rewrite Rn_setR_same. cbn [expi tbeg].
  destruct (Nat.eqb n 0); split; reflexivity.
Qed.

Lemma expiry_guard lvl c s n o s' : step lvl c s (EWake n KMain [] o) = Some s' ->
  (exists x, expi (Rn s n) = Some x /\ (2 <= lvl -> (x <= now s)%N)).
Proof.
  intros Hs. apply step_inv in Hs. destruct Hs as [_ Hg].
  cbn [guards] in Hg. rewrite forallb_app in Hg. apply andb_true_iff in Hg. destruct Hg as [Hg _].
  cbn [forallb] in Hg. rewrite !andb_true_iff in Hg. destruct Hg as (_ & _ & _ & G13 & G14 & _).
  rewrite holds_0 in G13. destruct (expi (Rn s n)) as [x|]; [|discriminate].
  exists x. split; [reflexivity|]. intros Hl. rewrite holds_ge in G14 by exact Hl.
  cbn in G14. apply N.leb_le. exact G14.
Qed.

Lemma quiet_pending_finished lvl c h s n x : wf c = true -> Reach lvl c h s ->
  quiet_ph (ph (Rn s n)) -> In x (pend (Rn s n)) -> finished (st (Jb s x)) = true.
Proof.
  intros W Hr Hq Hi. destruct (InvD_reach lvl c h s W Hr) as [_ I7]. apply (l_fin c s I7 n x Hq Hi).
Qed.

Lemma starts_like_a_job lvl c h0 s e s' : wf c = true ->
  Reach lvl c h0 s -> step lvl c s e = Some s' -> chk01 c s e = true /\ chk_nostart c s e = true.
Proof.
  intros W Hr Hs. split; [eapply C01_holds; eauto|eapply chk_nostart_holds; eauto].
Qed.
