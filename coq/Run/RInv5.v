(* Live jobs are always pending; a run enters its shutdown phase, or ends, only once everything
   it waits for has finished.  Hence: when a run is over (or shutting down) none of its direct
   jobs is created-but-not-started, running, or cancelling. *)
From AJ Require Import Common.Util Run.RModel Run.RFacts Run.RFacts2 Run.RInv Run.RInv2 Run.RInv3 Run.RInv4.

Definition live (x : jstat) : bool :=
  match x with Created | Running | Cancelling => true | _ => false end.

Definition quiet_ph (p : phase) : Prop := (exists w, p = PShut w) \/ p = POver.

Record Inv7 (c : cfg) (s : state) : Prop := {
  l_pend : forall n x, In x (members c n) -> live (st (Jb s x)) = true -> In x (pend (Rn s n));
  l_fin : forall n x, quiet_ph (ph (Rn s n)) -> In x (pend (Rn s n)) -> finished (st (Jb s x)) = true
}.

Lemma Inv7_init c : Inv7 c init.
Proof. split; intros n x; cbn; [intros _ H; discriminate|intros _ []]. Qed.

Lemma live_not_finished x : live x = true -> finished x = false.
Proof. destruct x; cbn; try discriminate; reflexivity. Qed.

Lemma live_cases x : live x = false -> x = Idle \/ finished x = true.
Proof. destruct x; cbn; try discriminate; auto. Qed.

Lemma Inv7_step lvl c s e s' : wf c = true -> Inv1 c s -> Inv7 c s ->
  step lvl c s e = Some s' -> Inv7 c s'.
Proof.
  intros W I1 I7 Hs. split.
  - (* live -> pending *)
    intros n x Hm Hl.
    assert (Hpar : parent c x = n) by (apply In_members in Hm; tauto).
    destruct (live (st (Jb s x))) eqn:El.
    + pose proof (l_pend c s I7 n x Hm El) as Hin.
      pose proof (live_not_finished _ El) as Hnf.
      destruct (R_effect lvl c s e s' W (i_pend c s I1) Hs n)
        as [Hq _|_ B1 _ _ _ _ _ _ _ _ _ _ _ _|_ A1 A2 A3 _ A4 A5 A6 [K|(Hph & d & Hd & Hnd & U)] A8].
      * destruct Hq as (_ & Q2 & _). rewrite Q2. exact Hin.
      * (* n begins: its members were idle *)
        exfalso. assert (Hidle : ph (Rn s n) = PIdle).
        { destruct (rootb n) eqn:Er; [exact B1|]. apply rootb_false in Er. apply (i_l1 c s I1 n Er). auto. }
        rewrite (i_idle c s I1 n x Hm Hidle) in El. discriminate.
      * destruct K as (_ & _ & _ & _ & _ & _ & _ & _ & _ & _ & _ & K12 & _). apply K12; auto.
      * destruct U as (_ & _ & _ & [(w & _ & Hp & _)|(_ & _ & _ & _ & _ & new & Hp & _)]).
        -- rewrite Hp. apply In_diff. split; [exact Hin|]. intro Hxd.
           apply (seteqb_spec _ _ Hd) in Hxd. apply filter_In in Hxd. destruct Hxd as [_ Hf].
           unfold jfin in Hf. congruence.
        -- rewrite Hp. apply in_app_iff. left. apply In_diff. split; [exact Hin|]. intro Hxd.
           apply (seteqb_spec _ _ Hd) in Hxd. apply filter_In in Hxd. destruct Hxd as [_ Hf].
           unfold jfin in Hf. congruence.
    + destruct (live_cases _ El) as [Hi|Hf].
      * rewrite <- Hpar. apply (newly_live_pending lvl c s e s' x W I1 Hs Hi).
        intro E. rewrite E in Hl. discriminate.
      * exfalso. rewrite (finished_stable lvl c s e s' x W I1 Hs Hf) in Hl.
        rewrite (live_not_finished _ Hl) in Hf. discriminate.
  - (* shutting down or over: everything pending has finished *)
    intros n x Hq Hin.
    assert (Hstay : forall y, finished (st (Jb s y)) = true -> finished (st (Jb s' y)) = true).
    { intros y Hf. rewrite (finished_stable lvl c s e s' y W I1 Hs Hf). exact Hf. }
    destruct (R_effect lvl c s e s' W (i_pend c s I1) Hs n)
      as [Hq0 _|_ B1 _ B3 _ _ _ _ _ _ _ _ _ Bov|_ A1 A2 A3 _ A4 A5 A6 [K|(Hph & d & Hd & Hnd & U)] A8].
    + destruct Hq0 as (Q1 & Q2 & _). rewrite Q1 in Hq. rewrite Q2 in Hin. apply Hstay.
      apply (l_fin c s I7 n x Hq Hin).
    + destruct Hq as [[w Hw]|Hw].
      * destruct B3 as [B3|B3]; rewrite B3 in Hw; discriminate.
      * rewrite (Bov Hw) in Hin. destruct Hin.
    + destruct K as (_ & _ & (f & K3) & _ & _ & _ & _ & _ & _ & _ & _ & _ & K13).
      rewrite K3 in Hin. apply filter_In in Hin. destruct Hin as [Hin _]. apply Hstay.
      destruct (ph (Rn s n)) as [| |w0|w0| |] eqn:Eph.
      * contradiction.
      * apply K13; [destruct Hq as [[w Hw]|Hw]; [right; exists w; exact Hw|left; exact Hw]| |exact Hin].
        intros [w Hw]. discriminate.
      * apply K13; [destruct Hq as [[w Hw]|Hw]; [right; exists w; exact Hw|left; exact Hw]| |exact Hin].
        intros [w Hw]. discriminate.
      * apply (l_fin c s I7 n x); [left; exists w0; exact Eph|exact Hin].
      * apply K13; [destruct Hq as [[w Hw]|Hw]; [right; exists w; exact Hw|left; exact Hw]| |exact Hin].
        intros [w Hw]. discriminate.
      * apply (l_fin c s I7 n x); [right; exact Eph|exact Hin].
    + destruct U as (_ & _ & _ & [(w & Hw & Hp & Hps & _)|(Hw & _)]).
      * destruct Hw as [Hw|Hw].
        -- rewrite Hw in Hq. destruct Hq as [[w' Hw']|Hw']; discriminate.
        -- rewrite Hp, (Hps Hw) in Hin. destruct Hin.
      * rewrite Hw in Hq. destruct Hq as [[w' Hw']|Hw']; discriminate.
Qed.

(* consequence: a run that is shutting down or over has no live direct job *)
Theorem quiet_no_live c s n x : Inv7 c s -> quiet_ph (ph (Rn s n)) -> In x (members c n) ->
  live (st (Jb s x)) = false.
Proof.
  intros I7 Hq Hm. destruct (live (st (Jb s x))) eqn:El; [|reflexivity].
  pose proof (l_pend c s I7 n x Hm El) as Hin.
  pose proof (l_fin c s I7 n x Hq Hin) as Hf.
  rewrite (live_not_finished _ El) in Hf. discriminate.
Qed.

Record InvD (c : cfg) (s : state) : Prop := { id_c : InvC c s; id_7 : Inv7 c s }.

Theorem InvD_reach lvl c h s : wf c = true -> Reach lvl c h s -> InvD c s.
Proof.
  intros W Hr. revert h s Hr. apply reach_ind.
  - split; [|apply Inv7_init].
    split; [apply Inv1_init|apply Inv3_init|apply Inv4_init|apply Inv5_init|apply Inv6_init].
  - intros h s e s' _ [[I1 I3 I4 I5 I6] I7] Hs. split.
    + split.
      * eapply Inv1_step; eauto.
      * eapply Inv3_step; eauto.
      * eapply Inv4_step; eauto.
      * eapply Inv5_step; eauto.
      * eapply Inv6_step; eauto.
    + eapply Inv7_step; eauto.
Qed.
