(* A nested scheduler without window, without timeout and without forever jobs is transparent in
   time (last sentence of C10): "every job runs at the same times as in the flattened graph".

   In the flattened graph (an unwindowed scheduler) a job starts at the instant its last requirement
   finishes (C12, RProps4.v).  So the sentence says that such a nested scheduler m
     (a) starts at the instant the last requirement of m finishes, its entry jobs with it, and its
         other jobs at the instant their own last requirement finishes;
     (b) is over -- hence finished for the jobs of the parent that require it -- at the instant its
         last job finishes: its shutdown phase takes no time when the handlers take no time.
   Time only passes through ETick, which from level 2 on requires a quiescent state; as in RProps4.v
   the statements are about the quiescent reachable states.

   One new invariant is needed for (b), [InvH]: the deadline of a running handler of an atomic job
   is the instant the handler started plus [j_sdur], and that instant is not in the future. *)
From AJ Require Import Common.Util Run.RModel Run.RFacts Run.RFacts2 Run.RInv Run.RInv2 Run.RInv3 Run.RInv4 Run.RInv5
  Run.RProps1 Run.RProps3 Run.RWin Run.RProps4 Run.RShut1 Run.RShut2 Run.RTime Run.RInvP Run.RFlip Run.RAdm
  Run.RProgA Run.RProgS Run.RTidy.

(* the nested schedulers the sentence is about, and what makes the comparison meaningful: the
   parent has no window either (else m could wait for a slot), the jobs of m are atomic (a nested
   scheduler below m is the same question one level down) and their shutdown handlers take no time *)
Record transparent (c : cfg) (m : nat) : Prop := {
  tr_sched : j_sched (jc c m) = true;  tr_lt : m < njobs c;  tr_nested : m <> 0;
  tr_nowin : j_window (jc c m) = 0;  tr_notimeout : j_timeout (jc c m) = None;
  tr_parent_nowin : j_window (jc c (parent c m)) = 0;
  tr_members : forall x, In x (members c m) ->
      j_sched (jc c x) = false /\ j_forever (jc c x) = false /\ j_sdur (jc c x) = Some 0%N
}.

(* ---------- (a) the start ---------- *)

Lemma in_scheds c n : j_sched (jc c n) = true -> n < njobs c -> In n (scheds c).
Proof. intros Hs Hn. unfold scheds. apply filter_In. split; [apply In_all_ids; exact Hn|exact Hs]. Qed.

(* what [eager_ok] says of one member of one unwindowed scheduler in its main loop *)
Lemma eager_started c s n x : eager_ok c s = true -> In n (scheds c) -> ph (Rn s n) = PMain ->
  j_window (jc c n) = 0 -> In x (members c n) ->
  (forall r, In r (reqs c x) -> is_done (st (Jb s r)) = true) ->
  st (Jb s x) <> Idle /\ st (Jb s x) <> Created.
Proof.
  intros Hc Hin Hph Hw Hx Hreq.
  unfold eager_ok in Hc. rewrite forallb_forall in Hc.
  specialize (Hc n Hin). rewrite Hph in Hc. rewrite forallb_forall in Hc. specialize (Hc x Hx).
  unfold waiting_ok in Hc. split; intro E; rewrite E in Hc.
  - apply existsb_exists in Hc. destruct Hc as (r & Hr1 & Hr2). rewrite (Hreq r Hr1) in Hr2. discriminate.
  - unfold win_full in Hc. rewrite Hw in Hc. discriminate.
Qed.

(* whenever time passes while the parent is in its main loop, m has begun as soon as its requirements
   are done, and then every job of m whose own requirements are done has started *)
Theorem transparent_start lvl c h s m x : wf c = true -> 1 <= lvl -> Reach lvl c h s ->
  quiescent c s = true -> transparent c m -> ph (Rn s (parent c m)) = PMain ->
  (forall r, In r (reqs c m) -> is_done (st (Jb s r)) = true) ->
  st (Jb s m) <> Idle /\ st (Jb s m) <> Created /\
  (ph (Rn s m) = PMain -> In x (members c m) ->
   (forall r, In r (reqs c x) -> is_done (st (Jb s r)) = true) ->
   st (Jb s x) <> Idle /\ st (Jb s x) <> Created).
Proof.
  intros W Hl Hr Hq [Tsch Tlt Tn0 Tnw Tnt Tpw Tmem] Hpp Hreq.
  pose proof (eager_at_quiescence lvl c h s W Hl Hr Hq) as Heager.
  destruct (wf_parent c m W Tlt Tn0) as [Hpl Hps].
  assert (Hpin : In (parent c m) (scheds c)) by (apply in_scheds; [exact Hps|lia]).
  assert (Hmm : In m (members c (parent c m))) by (apply In_members; auto).
  destruct (eager_started c s (parent c m) m Heager Hpin Hpp Tpw Hmm Hreq) as [A B].
  split; [exact A|]. split; [exact B|].
  intros Hpm Hx Hreqx.
  apply (eager_started c s m x Heager (in_scheds c m Tsch Tlt) Hpm Tnw Hx Hreqx).
Qed.

(* ---------- the deadline of a running handler ---------- *)

Definition InvH (c : cfg) (s : state) : Prop :=
  forall j, j_sched (jc c j) = false -> hs (Hd s j) = HRunning ->
            exists t0, hend (Hd s j) = optN_add t0 (j_sdur (jc c j)) /\ (t0 <= now s)%N.

Lemma InvH_init c : InvH c init.
Proof. intros j _ H. discriminate. Qed.

Lemma InvH_step lvl c s e s' : wf c = true -> 3 <= lvl -> InvE c s -> InvH c s ->
  step lvl c s e = Some s' -> InvH c s'.
Proof.
  intros W Hl [ID I8] IH Hs j Ha Hr.
  pose proof (ic_1 c s (id_c c s ID)) as I1.
  destruct (is_tick e) eqn:Et.
  - assert (Hl2 : 2 <= lvl) by lia.
    destruct (tick_guards lvl c s e s' Hl2 Hs Et) as (_ & EH & _ & _ & Hlt & _).
    rewrite EH in *. destruct (IH j Ha Hr) as (t0 & E & Hle). exists t0. split; [exact E|lia].
  - pose proof (now_step lvl c s e s' W Hs Et) as En.
    pose proof (HS_effect lvl c s e s' W I1 Hl Hs) as HS.
    destruct (hd_view c s s' j W I8 HS) as [H|n1 H1 H2 H3 H4|H1 H2 H3 H4|H1 H2 H3 H4 H5|H1 H2 H3 H4 H5 H6|v H1 H2].
    + rewrite H in *. rewrite En. apply (IH j Ha Hr).
    + rewrite H4 in Hr. discriminate.
    + rewrite H1 in Hr. rewrite H2, En. apply (IH j Ha Hr).
    + pose proof (sched_id_sched c j H1) as Hsch. congruence.
    + destruct H6 as [E|E]; rewrite E in Hr; discriminate.
    + rewrite H1 in *. destruct H2 as [(_ & _ & _ & Ev)|[(_ & _ & _ & Ev)|[(_ & _ & _ & Ev)|(_ & _ & _ & Ev)]]];
        rewrite Ev in *; try discriminate.
      exists (now s). split; [reflexivity|]. rewrite En. lia.
Qed.

Theorem InvH_reach lvl c h s : wf c = true -> 3 <= lvl -> Reach lvl c h s -> InvH c s.
Proof.
  intros W Hl Hr. revert h s Hr. apply reach_ind.
  - apply InvH_init.
  - intros h s e s' Hr IH Hs. eapply InvH_step; eauto. eapply InvE_reach; eauto.
Qed.

(* ---------- (b) the end ---------- *)

(* whenever time passes, if every job of m is done then the run of m is over *)
Theorem transparent_end c h s m : wf c = true -> Reach 3 c h s -> quiescent c s = true ->
  transparent c m -> members c m <> [] ->
  (forall x, In x (members c m) -> is_done (st (Jb s x)) = true) ->
  ph (Rn s m) = POver.
Proof.
  intros W Hr Hq [Tsch Tlt Tn0 Tnw Tnt Tpw Tmem] Hne Hall.
  pose proof (InvE_reach 3 c h s W (le_n 3) Hr) as IE.
  pose proof (ie_d c s IE) as ID. pose proof (ie_8 c s IE) as I8.
  pose proof (id_c c s ID) as IC.
  pose proof (ic_1 c s IC) as I1. pose proof (ic_5 c s IC) as I5.
  pose proof (InvQ_reach 3 c h s W (le_n 3) Hr) as IQ.
  pose proof (InvH_reach 3 c h s W (le_n 3) Hr) as IHh.
  assert (Hs : sched_id c m = true) by (apply sched_id_of; assumption).
  assert (Hex : exists x, In x (members c m)).
  { destruct (members c m) as [|x l]; [exfalso; apply Hne; reflexivity|exists x; left; reflexivity]. }
  assert (Hfin : forall x, In x (members c m) -> jfin s x = true).
  { intros x Hx. unfold jfin. apply done_finished0. apply (Hall x Hx). }
  pose proof (dead_run c s Hq m Hs) as He. unfold run_enabled in He. cbn zeta in He.
  destruct (ph (Rn s m)) as [| |w|w| |] eqn:Ep; [exfalso|exfalso|exfalso|exfalso|exfalso|reflexivity].
  - (* PIdle: the jobs of a run that has not begun are idle *)
    destruct Hex as [x Hx]. pose proof (Hall x Hx) as D. rewrite (i_idle c s I1 m x Hx Ep) in D. discriminate.
  - (* PMain: every job has been reported, the loop would have ended *)
    apply orb_false_iff in He. destruct He as [He _]. apply orb_false_iff in He. destruct He as [_ He2].
    assert (Hseen : forall k, In k (members c m) -> In k (seen (Rn s m))).
    { intros k Hk. pose proof (Hall k Hk) as Hkd.
      assert (Hni : st (Jb s k) <> Idle) by (intro E; rewrite E in Hkd; discriminate).
      destruct (b_cover c s I5 m k (or_introl Ep) Hk Hni) as [Hp|Hsn]; [exfalso|exact Hsn].
      assert (Hx : existsb (jfin s) (pend (Rn s m)) = true).
      { apply existsb_exists. exists k. split; [exact Hp|apply (Hfin k Hk)]. }
      congruence. }
    assert (Hcnt : nonforever c (seen (Rn s m)) = nfinite c m).
    { unfold nfinite, nonforever. apply Nat.le_antisymm.
      - apply NoDup_incl_length; [apply NoDup_filter; apply (b_seen_nd c s I5)|].
        intros k Hk. apply filter_In in Hk. destruct Hk as [Hk1 Hk2]. apply filter_In. split; [|exact Hk2].
        apply (b_seen_done c s I5 m k Hk1).
      - apply NoDup_incl_length; [apply NoDup_filter; apply members_nodup|].
        intros k Hk. apply filter_In in Hk. destruct Hk as [Hk1 Hk2]. apply filter_In. split; [|exact Hk2].
        apply (Hseen k Hk1). }
    assert (Hnf : nfinite c m <> 0).
    { unfold nfinite, nonforever. destruct Hex as [x Hx]. intro E. apply length_zero_iff_nil in E.
      assert (Hin : In x (filter (fun j => negb (j_forever (jc c j))) (members c m))).
      { apply filter_In. split; [exact Hx|]. destruct (Tmem x Hx) as (_ & F & _). rewrite F. reflexivity. }
      rewrite E in Hin. destruct Hin. }
    apply (b_open c s I5 m (or_introl Ep) Hnf). rewrite <- Hcnt. apply (b_count c s I5 m). left. exact Ep.
  - (* PTidy: the tasks awaited are jobs of m, all finished *)
    apply orb_false_iff in He. destruct He as [_ He].
    assert (Hx : forallb (jfin s) (pend (Rn s m)) = true).
    { apply forallb_forall. intros x Hx. apply Hfin. apply (i_pend c s I1 m x Hx). }
    congruence.
  - (* PShut: no handler of a job of m is unfinished *)
    assert (Hact : sd_active (sp (Sd s m))) by (apply (q_inl c s IQ); unfold sd_inline; rewrite Ep; reflexivity).
    pose proof (active_did c s m I8 Hact) as Hdid.
    assert (Hzf : forall z, In z (members c m) -> hfin s z = true).
    { intros z Hz. destruct (hfin s z) eqn:Hzf; [reflexivity|exfalso].
      pose proof (proj1 (In_members c m z) Hz) as (Hzl & Hzp & Hz0).
      destruct (Tmem z Hz) as (Za & _ & Zd).
      pose proof (k_some c s I8 m z Hz Hdid) as Hnn.
      pose proof (quiescent_handler c s z Hq Hzl) as Hen. unfold handler_enabled in Hen. cbn zeta in Hen.
      unfold hfin in Hzf. destruct (hs (Hd s z)) eqn:Ehz; try discriminate.
      - apply Hnn. reflexivity.
      - (* running: its deadline is the instant it started, which is not in the future *)
        rewrite Za in Hen. destruct (IHh z Za Ehz) as (t0 & Et & Hle). rewrite Et, Zd in Hen.
        cbn [optN_add opt_le_now] in Hen. apply orb_false_iff in Hen. destruct Hen as [_ Hen].
        apply N.leb_gt in Hen. lia. }
    unfold sd_enabled in He. cbn zeta in He. destruct Hact as [E|E]; rewrite E in He.
    + apply orb_false_iff in He. destruct He as [He _]. apply orb_false_iff in He. destruct He as [_ He].
      assert (Hx : forallb (hfin s) (members c m) = true) by (apply forallb_forall; exact Hzf).
      congruence.
    + apply orb_false_iff in He. destruct He as [_ He].
      assert (Hx : forallb (hfin s) (spend (Sd s m)) = true).
      { apply forallb_forall. intros z Hz. apply Hzf. apply (k_spend c s I8 m z Hz). }
      congruence.
  - (* PCTidy *)
    apply orb_false_iff in He. destruct He as [_ He].
    assert (Hx : forallb (jfin s) (pend (Rn s m)) = true).
    { apply forallb_forall. intros x Hx. apply Hfin. apply (i_pend c s I1 m x Hx). }
    congruence.
Qed.

(* hence m, as a job of its parent, is finished in that same instant; and unless its run was
   cancelled it is done: a job of the parent that requires m can start at once *)
Corollary transparent_end_done c h s m : wf c = true -> Reach 3 c h s -> quiescent c s = true ->
  transparent c m -> members c m <> [] ->
  (forall x, In x (members c m) -> is_done (st (Jb s x)) = true) ->
  finished (st (Jb s m)) = true /\ (st (Jb s m) <> Cancelled -> is_done (st (Jb s m)) = true).
Proof.
  intros W Hr Hq T Hne Hall.
  pose proof (transparent_end c h s m W Hr Hq T Hne Hall) as Ho.
  pose proof (ic_3 c s (id_c c s (InvD_reach 3 c h s W Hr))) as I3.
  destruct (k_over c s I3 m (tr_nested c m T) (tr_sched c m T) Ho) as [Hf _].
  split; [exact Hf|]. intros Hnc. destruct (st (Jb s m)); try discriminate; try reflexivity.
  exfalso. apply Hnc. reflexivity.
Qed.

(* ---------- the same, at the clock events ---------- *)

Corollary transparent_start_tick lvl c h s t s' m x : wf c = true -> 2 <= lvl -> Reach lvl c h s ->
  step lvl c s (ETick t) = Some s' ->
  transparent c m -> ph (Rn s (parent c m)) = PMain ->
  (forall r, In r (reqs c m) -> is_done (st (Jb s r)) = true) ->
  st (Jb s m) <> Idle /\ st (Jb s m) <> Created /\
  (ph (Rn s m) = PMain -> In x (members c m) ->
   (forall r, In r (reqs c x) -> is_done (st (Jb s r)) = true) ->
   st (Jb s x) <> Idle /\ st (Jb s x) <> Created).
Proof.
  intros W Hl Hr Hs T Hpp Hreq.
  destruct (tick_guards lvl c s (ETick t) s' Hl Hs eq_refl) as (_ & _ & _ & _ & _ & Hq & _).
  apply (transparent_start lvl c h s m x W); auto. lia.
Qed.

Corollary transparent_end_tick c h s t s' m : wf c = true -> Reach 3 c h s ->
  step 3 c s (ETick t) = Some s' ->
  transparent c m -> members c m <> [] ->
  (forall x, In x (members c m) -> is_done (st (Jb s x)) = true) ->
  ph (Rn s m) = POver /\ finished (st (Jb s m)) = true /\
  (st (Jb s m) <> Cancelled -> is_done (st (Jb s m)) = true).
Proof.
  intros W Hr Hs T Hne Hall.
  destruct (tick_guards 3 c s (ETick t) s' (le_S 2 2 (le_n 2)) Hs eq_refl) as (_ & _ & _ & _ & _ & Hq & _).
  split; [apply (transparent_end c h s m W Hr Hq T Hne Hall)|].
  apply (transparent_end_done c h s m W Hr Hq T Hne Hall).
Qed.

Print Assumptions transparent_start.
Print Assumptions transparent_end.
