(* What each reaction does to the shutdown side of the state: the handler tasks Hd, the shutdown
   activities Sd, and which runs are in their inline shutdown phase. *)
From AJ Require Import Common.Util Run.RModel Run.RFacts Run.RFacts2 Run.RInv.

(* the activity record right after a broadcast started *)
Definition sd_started (c : cfg) (s : state) (n : nat) : sst :=
  match members c n with
  | [] => mkSst SdOver true None [] false
  | ms => mkSst SdWait true (optN_add (now s) (j_sdto (jc c n))) ms false
  end.

Lemma Hd_shutdown_start c n i s x :
  Hd (fst (shutdown_start c n i s)) x =
  if did (Sd s n) then Hd s x else if memb x (members c n) then create_h (Hd s x) else Hd s x.
Proof.
  unfold shutdown_start. destruct (did (Sd s n)); [reflexivity|].
  destruct (members c n) as [|m ms]; [reflexivity|]. reflexivity.
Qed.

Lemma Sd_shutdown_start c n i s m :
  Sd (fst (shutdown_start c n i s)) m =
  if Nat.eqb m n then (if did (Sd s n) then Sd s n else sd_started c s n) else Sd s m.
Proof.
  unfold shutdown_start, sd_started. destruct (did (Sd s n)) eqn:Ed.
  - cbn [fst]. destruct (Nat.eqb_spec m n) as [->|H]; reflexivity.
  - destruct (members c n) as [|m0 ms]; cbn [fst Sd setS mapH]; unfold upd; destruct (Nat.eqb m n); reflexivity.
Qed.

Lemma now_shutdown_start c n i s : now (fst (shutdown_start c n i s)) = now s.
Proof.
  unfold shutdown_start. destruct (did (Sd s n)); [reflexivity|]. destruct (members c n); reflexivity.
Qed.

(* exit_main *)
Lemma Hd_exit_main c n w p s x :
  Hd (fst (exit_main c n w p s)) x =
  match p with
  | [] => if did (Sd s n) then Hd s x else if memb x (members c n) then create_h (Hd s x) else Hd s x
  | _ => Hd s x
  end.
Proof.
  unfold exit_main. destruct p as [|a p]; [|reflexivity].
  destruct (shutdown_start c n true (set_phase s n (PShut w))) as [s1 o] eqn:E.
  cbn [fst]. change s1 with (fst (s1, o)). rewrite <- E, Hd_shutdown_start. reflexivity.
Qed.

Lemma Sd_exit_main c n w p s m :
  Sd (fst (exit_main c n w p s)) m =
  match p with
  | [] => if Nat.eqb m n then (if did (Sd s n) then Sd s n else sd_started c s n) else Sd s m
  | _ => Sd s m
  end.
Proof.
  unfold exit_main. destruct p as [|a p]; [|reflexivity].
  destruct (shutdown_start c n true (set_phase s n (PShut w))) as [s1 o] eqn:E.
  cbn [fst]. change s1 with (fst (s1, o)). rewrite <- E, Sd_shutdown_start. reflexivity.
Qed.

Lemma now_exit_main c n w p s : now (fst (exit_main c n w p s)) = now s.
Proof.
  unfold exit_main. destruct p as [|a p]; [|reflexivity].
  destruct (shutdown_start c n true (set_phase s n (PShut w))) as [s1 o] eqn:E.
  cbn [fst]. change s1 with (fst (s1, o)). rewrite <- E, now_shutdown_start. reflexivity.
Qed.

Lemma ph_exit_main_n c n w p s :
  ph (Rn (fst (exit_main c n w p s)) n) = match p with [] => PShut w | _ => PTidy w end.
Proof. rewrite Rn_exit_main, ph_set_phase, Nat.eqb_refl. reflexivity. Qed.

Lemma ph_exit_main_other c n w p s m : m <> n -> ph (Rn (fst (exit_main c n w p s)) m) = ph (Rn s m).
Proof. intros H. rewrite Rn_exit_main, ph_set_phase. apply Nat.eqb_neq in H. rewrite H. reflexivity. Qed.

(* end_cancelled / finish_run: no effect on the shutdown side *)
Lemma Hd_job_leave c n x s : Hd (job_leave c n x s) = Hd s.
Proof. unfold job_leave. destruct (Nat.eqb n 0); reflexivity. Qed.
Lemma Sd_job_leave c n x s : Sd (job_leave c n x s) = Sd s.
Proof. unfold job_leave. destruct (Nat.eqb n 0); reflexivity. Qed.
Lemma now_job_leave c n x s : now (job_leave c n x s) = now s.
Proof. unfold job_leave. destruct (Nat.eqb n 0); reflexivity. Qed.

Lemma Hd_end_cancelled c n s : Hd (fst (end_cancelled c n s)) = Hd s.
Proof. unfold end_cancelled. cbn [fst]. rewrite Hd_job_leave. reflexivity. Qed.
Lemma Sd_end_cancelled c n s : Sd (fst (end_cancelled c n s)) = Sd s.
Proof. unfold end_cancelled. cbn [fst]. rewrite Sd_job_leave. reflexivity. Qed.
Lemma now_end_cancelled c n s : now (fst (end_cancelled c n s)) = now s.
Proof. unfold end_cancelled. cbn [fst]. rewrite now_job_leave. reflexivity. Qed.
Lemma Hd_finish_run c n w r cu s : Hd (fst (finish_run c n w r cu s)) = Hd s.
Proof. unfold finish_run. cbn [fst]. rewrite Hd_job_leave. reflexivity. Qed.
Lemma Sd_finish_run c n w r cu s : Sd (fst (finish_run c n w r cu s)) = Sd s.
Proof. unfold finish_run. cbn [fst]. rewrite Sd_job_leave. reflexivity. Qed.
Lemma now_finish_run c n w r cu s : now (fst (finish_run c n w r cu s)) = now s.
Proof. unfold finish_run. cbn [fst]. rewrite now_job_leave. reflexivity. Qed.

Lemma ph_job_leave c n x s m : ph (Rn (job_leave c n x s) m) = ph (Rn s m).
Proof. destruct (Rn_job_leave_q c n x s m) as [H _]. exact H. Qed.

Lemma ph_end_cancelled c n s m :
  ph (Rn (fst (end_cancelled c n s)) m) = if Nat.eqb m n then POver else ph (Rn s m).
Proof.
  unfold end_cancelled. cbn [fst]. rewrite ph_job_leave, ph_set_phase.
  destruct (Nat.eqb m n); reflexivity.
Qed.

Lemma ph_finish_run c n w r cu s m :
  ph (Rn (fst (finish_run c n w r cu s)) m) = if Nat.eqb m n then POver else ph (Rn s m).
Proof.
  unfold finish_run. cbn [fst]. rewrite ph_job_leave. cbn [Rn setR]. unfold upd.
  destruct (Nat.eqb m n); reflexivity.
Qed.

(* react_main: either nothing on the shutdown side, or the inline shutdown starts *)
Lemma HS_react_main c n d s :
  let s' := fst (react_main c n d s) in
  now s' = now s /\ (forall m, m <> n -> ph (Rn s' m) = ph (Rn s m)) /\
  (((forall x, Hd s' x = Hd s x) /\ (forall m, Sd s' m = Sd s m) /\
    (ph (Rn s' n) = ph (Rn s n) \/ exists w, ph (Rn s' n) = PTidy w))
   \/
   ((exists w, ph (Rn s' n) = PShut w) /\
    (forall x, Hd s' x = if did (Sd s n) then Hd s x else if memb x (members c n) then create_h (Hd s x) else Hd s x) /\
    (forall m, Sd s' m = if Nat.eqb m n then (if did (Sd s n) then Sd s n else sd_started c s n) else Sd s m))).
Proof.
  cbn zeta. unfold react_main.
  set (r := Rn s n). set (pend' := diff (pend r) d).
  assert (Hex : forall w v,
    let s' := fst (exit_main c n w pend' (setR s n v)) in
    now s' = now s /\ (forall m, m <> n -> ph (Rn s' m) = ph (Rn s m)) /\
    (((forall x, Hd s' x = Hd s x) /\ (forall m, Sd s' m = Sd s m) /\
      (ph (Rn s' n) = ph (Rn s n) \/ exists w, ph (Rn s' n) = PTidy w))
     \/
     ((exists w, ph (Rn s' n) = PShut w) /\
      (forall x, Hd s' x = if did (Sd s n) then Hd s x else if memb x (members c n) then create_h (Hd s x) else Hd s x) /\
      (forall m, Sd s' m = if Nat.eqb m n then (if did (Sd s n) then Sd s n else sd_started c s n) else Sd s m)))).
  { intros w v. cbn zeta. split; [rewrite now_exit_main; reflexivity|]. split.
    - intros m Hm. rewrite ph_exit_main_other by exact Hm. cbn [Rn setR]. rewrite upd_other by exact Hm. reflexivity.
    - destruct pend' as [|a p] eqn:Ep.
      + right. split; [exists w; rewrite ph_exit_main_n; reflexivity|]. split.
        * intros x. rewrite Hd_exit_main. reflexivity.
        * intros m. rewrite Sd_exit_main. reflexivity.
      + left. split; [intros x; rewrite Hd_exit_main; reflexivity|].
        split; [intros m; rewrite Sd_exit_main; reflexivity|].
        right. exists w. rewrite ph_exit_main_n. reflexivity. }
  destruct d as [|d0 d']; [apply Hex|].
  destruct (existsb _ (d0 :: d')); [apply Hex|].
  destruct (Nat.eqb _ _); [apply Hex|].
  cbn [fst]. split; [reflexivity|]. split.
  - intros m Hm. cbn [Rn setR mapJ]. rewrite upd_other by exact Hm. reflexivity.
  - left. split; [reflexivity|]. split; [reflexivity|]. left. cbn [Rn setR]. rewrite upd_same. reflexivity.
Qed.

(* react_tidy *)
Lemma HS_react_tidy c n s :
  let s' := fst (react_tidy c n s) in
  now s' = now s /\ (forall m, m <> n -> ph (Rn s' m) = ph (Rn s m)) /\
  ((rcanc (Rn s n) = true /\ ph (Rn s' n) = POver /\ (forall x, Hd s' x = Hd s x) /\ (forall m, Sd s' m = Sd s m))
   \/
   (rcanc (Rn s n) = false /\ ph (Rn s' n) = PShut (why_of s n) /\
    (forall x, Hd s' x = if did (Sd s n) then Hd s x else if memb x (members c n) then create_h (Hd s x) else Hd s x) /\
    (forall m, Sd s' m = if Nat.eqb m n then (if did (Sd s n) then Sd s n else sd_started c s n) else Sd s m))).
Proof.
  cbn zeta. unfold react_tidy. destruct (rcanc (Rn s n)) eqn:Erc.
  - split; [apply now_end_cancelled|]. split.
    + intros m Hm. rewrite ph_end_cancelled. apply Nat.eqb_neq in Hm. rewrite Hm. reflexivity.
    + left. split; [reflexivity|]. split; [rewrite ph_end_cancelled, Nat.eqb_refl; reflexivity|].
      rewrite Hd_end_cancelled, Sd_end_cancelled. split; reflexivity.
  - split; [rewrite now_shutdown_start; reflexivity|]. split.
    + intros m Hm. rewrite Rn_shutdown_start, ph_set_phase. apply Nat.eqb_neq in Hm. rewrite Hm. reflexivity.
    + right. split; [reflexivity|]. split; [rewrite Rn_shutdown_start, ph_set_phase, Nat.eqb_refl; reflexivity|].
      split; [intros x; rewrite Hd_shutdown_start; reflexivity|intros m; rewrite Sd_shutdown_start; reflexivity].
Qed.

(* the shutdown wait returned *)
Definition sd_over (s : state) (n : nat) : sst := mkSst SdOver true (sdl (Sd s n)) [] (scanc (Sd s n)).

Lemma HS_react_shut c n p cu s :
  let s' := fst (react_shut c n p cu s) in
  now s' = now s /\ (forall m, m <> n -> ph (Rn s' m) = ph (Rn s m)) /\
  match p with
  | [] =>
      (forall m, Sd s' m = if Nat.eqb m n then sd_over s n else Sd s m) /\
      if sd_inline s n
      then ph (Rn s' n) = POver /\ (forall x, Hd s' x = Hd s x)
      else ph (Rn s' n) = ph (Rn s n) /\
           (forall x, Hd s' x = if Nat.eqb x n then mkHst HDone false None else Hd s x)
  | _ =>
      ph (Rn s' n) = ph (Rn s n) /\
      (forall m, Sd s' m = if Nat.eqb m n then mkSst SdTidy true (sdl (Sd s n)) p (scanc (Sd s n)) else Sd s m) /\
      (forall x, Hd s' x = if memb x p then cancel_h (Hd s x) else Hd s x)
  end.
Proof.
  cbn zeta. unfold react_shut, react_shut_wake. destruct p as [|a p].
  - destruct (sd_inline s n) eqn:Ein.
    + destruct (rcanc (Rn s n)).
      * set (s1 := setS s n _).
        destruct (end_cancelled c n s1) as [s2 mo2] eqn:E. cbn [fst].
        assert (E2 : s2 = fst (end_cancelled c n s1)) by (rewrite E; reflexivity). rewrite E2.
        split; [rewrite now_end_cancelled; reflexivity|]. split.
        { intros m Hm. rewrite ph_end_cancelled. apply Nat.eqb_neq in Hm. rewrite Hm. reflexivity. }
        split.
        { intros m. rewrite Sd_end_cancelled. unfold s1, sd_over. cbn [Sd setS]. unfold upd. destruct (Nat.eqb m n); reflexivity. }
        split; [rewrite ph_end_cancelled, Nat.eqb_refl; reflexivity|]. intros x. rewrite Hd_end_cancelled. reflexivity.
      * set (s1 := setS s n _).
        destruct (finish_run c n (why_of s n) SRTrue cu s1) as [s2 mo2] eqn:E. cbn [fst].
        assert (E2 : s2 = fst (finish_run c n (why_of s n) SRTrue cu s1)) by (rewrite E; reflexivity). rewrite E2.
        split; [rewrite now_finish_run; reflexivity|]. split.
        { intros m Hm. rewrite ph_finish_run. apply Nat.eqb_neq in Hm. rewrite Hm. reflexivity. }
        split.
        { intros m. rewrite Sd_finish_run. unfold s1, sd_over. cbn [Sd setS]. unfold upd. destruct (Nat.eqb m n); reflexivity. }
        split; [rewrite ph_finish_run, Nat.eqb_refl; reflexivity|]. intros x. rewrite Hd_finish_run. reflexivity.
    + cbn [fst]. split; [reflexivity|]. split; [reflexivity|]. split.
      { intros m. unfold sd_over, hdone. cbn [Sd setS setH]. unfold upd. destruct (Nat.eqb m n); reflexivity. }
      split; [reflexivity|]. intros x. unfold hdone. cbn [Hd setH setS]. unfold upd. destruct (Nat.eqb x n); reflexivity.
  - cbn [fst]. split; [reflexivity|]. split; [reflexivity|]. split; [reflexivity|]. split.
    + intros m. cbn [Sd setS mapH]. unfold upd. destruct (Nat.eqb m n); reflexivity.
    + intros x. reflexivity.
Qed.

(* the tidy wait of the shutdown returned *)
Lemma HS_react_shtidy c n cu s :
  let s' := fst (react_shtidy c n cu s) in
  now s' = now s /\ (forall m, m <> n -> ph (Rn s' m) = ph (Rn s m)) /\
  (forall m, Sd s' m = if Nat.eqb m n then sd_over s n else Sd s m) /\
  if sd_inline s n
  then ph (Rn s' n) = POver /\ (forall x, Hd s' x = Hd s x)
  else ph (Rn s' n) = ph (Rn s n) /\
       (forall x, Hd s' x = if Nat.eqb x n
                            then mkHst (if scanc (Sd s n) then HCancelled else HDone) false None else Hd s x).
Proof.
  cbn zeta. unfold react_shtidy, react_shtidy_wake. set (s1 := setS s n _).
  destruct (sd_inline s n) eqn:Ein.
  - destruct (rcanc (Rn s n)).
    + destruct (end_cancelled c n s1) as [s2 mo2] eqn:E. cbn [fst].
      assert (E2 : s2 = fst (end_cancelled c n s1)) by (rewrite E; reflexivity). rewrite E2.
      split; [rewrite now_end_cancelled; reflexivity|]. split.
      { intros m Hm. rewrite ph_end_cancelled. apply Nat.eqb_neq in Hm. rewrite Hm. reflexivity. }
      split.
      { intros m. rewrite Sd_end_cancelled. unfold s1, sd_over. cbn [Sd setS]. unfold upd. destruct (Nat.eqb m n); reflexivity. }
      split; [rewrite ph_end_cancelled, Nat.eqb_refl; reflexivity|]. intros x. rewrite Hd_end_cancelled. reflexivity.
    + split; [rewrite now_finish_run; reflexivity|]. split.
      { intros m Hm. rewrite ph_finish_run. apply Nat.eqb_neq in Hm. rewrite Hm. reflexivity. }
      split.
      { intros m. rewrite Sd_finish_run. unfold s1, sd_over. cbn [Sd setS]. unfold upd. destruct (Nat.eqb m n); reflexivity. }
      split; [rewrite ph_finish_run, Nat.eqb_refl; reflexivity|]. intros x. rewrite Hd_finish_run. reflexivity.
  - cbn [fst]. split; [reflexivity|]. split; [reflexivity|]. split.
    { intros m. unfold sd_over, hdone, s1. cbn [Sd setS setH]. unfold upd. destruct (Nat.eqb m n); reflexivity. }
    split; [reflexivity|]. intros x. unfold hdone, s1. cbn [Hd setH setS]. unfold upd.
    destruct (Nat.eqb x n); [|reflexivity]. destruct (scanc (Sd s n)); reflexivity.
Qed.

(* CancelledError inside co_shutdown *)
Definition sd_cancel_list (c : cfg) (s : state) (n : nat) : list nat :=
  match sp (Sd s n) with SdWait => members c n | _ => spend (Sd s n) end.

Lemma HS_react_cancel_shut c n s :
  let s' := fst (react_cancel_shut c n s) in
  let l := sd_cancel_list c s n in
  now s' = now s /\ (forall m, ph (Rn s' m) = ph (Rn s m)) /\
  (forall m, Sd s' m = if Nat.eqb m n then mkSst SdTidy true (sdl (Sd s n)) l true else Sd s m) /\
  (forall x, Hd s' x =
     if memb x l then cancel_h (if sd_inline s n then Hd s x
                                else if Nat.eqb x n then mkHst (hs (Hd s n)) false (hend (Hd s n)) else Hd s x)
     else if sd_inline s n then Hd s x
          else if Nat.eqb x n then mkHst (hs (Hd s n)) false (hend (Hd s n)) else Hd s x).
Proof.
  cbn zeta. unfold react_cancel_shut, react_shut_cancel, sd_cancel_list. destruct (sd_inline s n) eqn:Ein.
  - cbn [fst]. split; [cbn; rewrite ?now_clear_cp; unfold clear_cp; destruct (rootb n); reflexivity|]. split.
    + intros m. cbn [Rn setS mapH setR]. unfold upd. rewrite Rn_clear_cp.
      destruct (Nat.eqb_spec m n) as [->|H]; reflexivity.
    + split.
      * intros m. cbn [Sd setS mapH setR]. unfold upd.
        assert (E : Sd (clear_cp s n) = Sd s) by (unfold clear_cp; destruct (rootb n); reflexivity).
        rewrite E. destruct (Nat.eqb m n); reflexivity.
      * intros x. cbn [Hd setS mapH setR Sd].
        assert (E : Sd (clear_cp s n) = Sd s) by (unfold clear_cp; destruct (rootb n); reflexivity).
        assert (E2 : Hd (clear_cp s n) = Hd s) by (unfold clear_cp; destruct (rootb n); reflexivity).
        rewrite E, E2. reflexivity.
  - cbn [fst]. split; [reflexivity|]. split; [reflexivity|]. split.
    + intros m. cbn [Sd setS mapH clear_hcp setH]. unfold upd. destruct (Nat.eqb m n); reflexivity.
    + intros x. cbn [Hd setS mapH clear_hcp setH Sd]. unfold upd. reflexivity.
Qed.

(* first step of the co_shutdown() task of a scheduler *)
Lemma HS_react_sdstart c n s : wf c = true ->
  let s' := fst (react_sdstart c n s) in
  now s' = now s /\ (forall m, ph (Rn s' m) = ph (Rn s m)) /\
  (forall m, Sd s' m = if Nat.eqb m n then (if did (Sd s n) then Sd s n else sd_started c s n) else Sd s m) /\
  (forall x, Hd s' x =
     if Nat.eqb x n
     then (if did (Sd s n) then mkHst HDone false None
           else match members c n with [] => mkHst HDone false None | _ => mkHst HRunning false None end)
     else if did (Sd s n) then Hd s x
          else if memb x (members c n) then create_h (Hd s x) else Hd s x).
Proof.
  intros W. cbn zeta. unfold react_sdstart.
  set (s0 := setH s n (mkHst HRunning false None)).
  pose proof (Hd_shutdown_start c n false s0) as EH. pose proof (Sd_shutdown_start c n false s0) as ES.
  pose proof (now_shutdown_start c n false s0) as EN. pose proof (Rn_shutdown_start c n false s0) as ER.
  destruct (shutdown_start c n false s0) as [s1 mo]. cbn [fst] in *.
  assert (Ed : did (Sd s0 n) = did (Sd s n)) by reflexivity.
  assert (Hnm : memb n (members c n) = false).
  { apply memb_false. intro H. exact (member_neq c n n W H eq_refl). }
  assert (ES' : forall m, Sd s1 m = if Nat.eqb m n then (if did (Sd s n) then Sd s n else sd_started c s n) else Sd s m).
  { intros m. rewrite ES, Ed. reflexivity. }
  assert (EH' : forall x, Hd s1 x =
     if Nat.eqb x n then (if did (Sd s n) then mkHst HRunning false None else mkHst HRunning false None)
     else if did (Sd s n) then Hd s x else if memb x (members c n) then create_h (Hd s x) else Hd s x).
  { intros x. rewrite EH, Ed. unfold s0. cbn [Hd setH]. unfold upd.
    destruct (Nat.eqb_spec x n) as [->|Hx].
    - rewrite Hnm. destruct (did (Sd s n)); reflexivity.
    - reflexivity. }
  assert (Hsp : sp (Sd s1 n) = if did (Sd s n) then sp (Sd s n)
                               else match members c n with [] => SdOver | _ => SdWait end).
  { rewrite ES', Nat.eqb_refl. destruct (did (Sd s n)); [reflexivity|].
    unfold sd_started. destruct (members c n); reflexivity. }
  rewrite Hsp. destruct (did (Sd s n)) eqn:Edid.
  - assert (Es' : (match sp (Sd s n) with SdWait => setH s1 n (mkHst HDone false None) | _ => setH s1 n (mkHst HDone false None) end)
                  = setH s1 n (mkHst HDone false None)) by (destruct (sp (Sd s n)); reflexivity).
    destruct (sp (Sd s n)); cbn [Hd Sd Rn now setH]; (split; [exact EN|]); (split; [intros m; rewrite ER; reflexivity|]);
      (split; [exact ES'|]); intros x; unfold upd; rewrite EH'; destruct (Nat.eqb x n); reflexivity.
  - destruct (members c n) as [|m0 ms] eqn:Em.
    + cbn [Hd Sd Rn now setH]. split; [exact EN|]. split; [intros m; rewrite ER; reflexivity|].
      split; [exact ES'|]. intros x. unfold upd. rewrite EH'. destruct (Nat.eqb x n); reflexivity.
    + split; [exact EN|]. split; [intros m; rewrite ER; reflexivity|].
      split; [exact ES'|]. intros x. rewrite EH'. destruct (Nat.eqb x n); reflexivity.
Qed.

(* ---------- phases after the remaining control reactions ---------- *)

Lemma ph_react_begin c n s m :
  ph (Rn (fst (react_begin c n s)) m) =
  if Nat.eqb m n then match members c n with [] => POver | _ => PMain end else ph (Rn s m).
Proof.
  unfold react_begin.
  set (s0 := if Nat.eqb n 0 then s else _).
  assert (H0 : forall q, ph (Rn s0 q) = ph (Rn s q)).
  { intros q. unfold s0. destruct (Nat.eqb n 0); [reflexivity|]. cbn [Rn setR setJ]. unfold upd.
    destruct (Nat.eqb_spec q (parent c n)) as [->|H]; reflexivity. }
  destruct (members c n) as [|m0 ms].
  - cbn [fst]. rewrite ph_job_leave. cbn [Rn setR]. unfold upd. destruct (Nat.eqb m n); [reflexivity|apply H0].
  - cbn [fst Rn setR mapJ]. unfold upd. destruct (Nat.eqb m n); [reflexivity|apply H0].
Qed.

Lemma HS_react_begin c n s :
  Hd (fst (react_begin c n s)) = Hd s /\ Sd (fst (react_begin c n s)) = Sd s /\ now (fst (react_begin c n s)) = now s.
Proof.
  unfold react_begin. set (s0 := if Nat.eqb n 0 then s else _).
  assert (H0 : Hd s0 = Hd s /\ Sd s0 = Sd s /\ now s0 = now s).
  { unfold s0. destruct (Nat.eqb n 0); repeat split; reflexivity. }
  destruct H0 as (A & B & C).
  destruct (members c n) as [|m0 ms]; cbn [fst].
  - rewrite Hd_job_leave, Sd_job_leave, now_job_leave. cbn [Hd Sd now setR]. auto.
  - cbn [Hd Sd now setR mapJ]. auto.
Qed.

Lemma ph_react_cancel_main c n s m :
  ph (Rn (fst (react_cancel_main c n s)) m) =
  if Nat.eqb m n then match filter (fun j => negb (jfin s j)) (pend (Rn s n)) with [] => POver | _ => PCTidy end
  else ph (Rn s m).
Proof.
  unfold react_cancel_main. destruct (filter _ _) as [|u0 u'].
  - rewrite ph_end_cancelled, Rn_clear_cp. reflexivity.
  - cbn [fst Rn setR mapJ]. unfold upd. rewrite Rn_clear_cp. destruct (Nat.eqb m n); reflexivity.
Qed.

Lemma HSN_clear_cp s n : Hd (clear_cp s n) = Hd s /\ Sd (clear_cp s n) = Sd s /\ now (clear_cp s n) = now s.
Proof. unfold clear_cp. destruct (rootb n); repeat split; reflexivity. Qed.

Lemma HS_react_cancel_main c n s :
  Hd (fst (react_cancel_main c n s)) = Hd s /\ Sd (fst (react_cancel_main c n s)) = Sd s /\
  now (fst (react_cancel_main c n s)) = now s.
Proof.
  destruct (HSN_clear_cp s n) as (A & B & C).
  unfold react_cancel_main. destruct (filter _ _) as [|u0 u'].
  - rewrite Hd_end_cancelled, Sd_end_cancelled, now_end_cancelled. auto.
  - cbn [fst Hd Sd now setR mapJ]. auto.
Qed.

Lemma ph_react_cancel_tidy c n s m : ph (Rn (fst (react_cancel_tidy c n s)) m) = ph (Rn s m).
Proof.
  unfold react_cancel_tidy. cbn [fst Rn setR mapJ]. unfold upd. rewrite Rn_clear_cp.
  destruct (Nat.eqb_spec m n) as [->|H]; reflexivity.
Qed.

Lemma HS_react_cancel_tidy c n s :
  Hd (fst (react_cancel_tidy c n s)) = Hd s /\ Sd (fst (react_cancel_tidy c n s)) = Sd s /\
  now (fst (react_cancel_tidy c n s)) = now s.
Proof. destruct (HSN_clear_cp s n) as (A & B & C). unfold react_cancel_tidy. cbn [fst Hd Sd now setR mapJ]. auto. Qed.

Lemma ph_react_cancel_ctidy c n s m : ph (Rn (fst (react_cancel_ctidy c n s)) m) = ph (Rn s m).
Proof. unfold react_cancel_ctidy. cbn [fst Rn mapJ]. rewrite Rn_clear_cp. reflexivity. Qed.

Lemma HS_react_cancel_ctidy c n s :
  Hd (fst (react_cancel_ctidy c n s)) = Hd s /\ Sd (fst (react_cancel_ctidy c n s)) = Sd s /\
  now (fst (react_cancel_ctidy c n s)) = now s.
Proof. destruct (HSN_clear_cp s n) as (A & B & C). unfold react_cancel_ctidy. cbn [fst Hd Sd now mapJ]. auto. Qed.

Lemma sd_inline_ph s s' m : ph (Rn s' m) = ph (Rn s m) -> sd_inline s' m = sd_inline s m.
Proof. unfold sd_inline. intros ->. reflexivity. Qed.

(* ------------------------------------------------------------------ the shutdown-side effect of a step *)

Definition hd_create (c : cfg) (s : state) (n x : nat) : hst :=
  if did (Sd s n) then Hd s x else if memb x (members c n) then create_h (Hd s x) else Hd s x.
Definition sd_create (c : cfg) (s : state) (n m : nat) : sst :=
  if Nat.eqb m n then (if did (Sd s n) then Sd s n else sd_started c s n) else Sd s m.

(* who runs the shutdown activity of n, and is it (not) being cancelled *)
Definition sd_thread (c : cfg) (s : state) (n : nat) (wc : bool) : Prop :=
  if sd_inline s n then run_alive c s n wc = true
  else hs (Hd s n) = HRunning /\ hcp (Hd s n) = wc.

Inductive hs_step (c : cfg) (s s' : state) : Prop :=
| HS_frame :
    (forall x, Hd s' x = Hd s x) -> (forall m, Sd s' m = Sd s m) ->
    (forall m, sd_inline s' m = sd_inline s m) -> hs_step c s s'
| HS_inl_start n :
    sched_id c n = true -> run_alive c s n false = true ->
    (ph (Rn s n) = PMain \/ exists w, ph (Rn s n) = PTidy w) ->
    sd_inline s' n = true ->
    (forall m, m <> n -> ph (Rn s' m) = ph (Rn s m)) ->
    (forall x, Hd s' x = hd_create c s n x) -> (forall m, Sd s' m = sd_create c s n m) ->
    now s' = now s -> hs_step c s s'
| HS_sdstart n :
    sched_id c n = true ->
    ((hs (Hd s n) = HCreated /\ hcp (Hd s n) = false) \/
     (hs (Hd s n) <> HCreated /\ hs (Hd s n) <> HRunning /\ n = 0 /\ ph (Rn s 0) = POver)) ->
    (forall m, ph (Rn s' m) = ph (Rn s m)) ->
    (forall m, Sd s' m = sd_create c s n m) ->
    (forall x, Hd s' x =
       if Nat.eqb x n
       then (if did (Sd s n) then mkHst HDone false None
             else match members c n with [] => mkHst HDone false None | _ => mkHst HRunning false None end)
       else hd_create c s n x) ->
    now s' = now s -> hs_step c s s'
| HS_wake_all n :
    sp (Sd s n) = SdWait -> (forall x, In x (members c n) -> hfin s x = true) ->
    sd_thread c s n false ->
    (forall m, Sd s' m = if Nat.eqb m n then sd_over s n else Sd s m) ->
    (forall m, m <> n -> ph (Rn s' m) = ph (Rn s m)) ->
    (if sd_inline s n then ph (Rn s' n) = POver /\ (forall x, Hd s' x = Hd s x)
     else ph (Rn s' n) = ph (Rn s n) /\
          forall x, Hd s' x = if Nat.eqb x n then mkHst HDone false None else Hd s x) ->
    now s' = now s -> hs_step c s s'
| HS_wake_some n p :
    sp (Sd s n) = SdWait -> p <> [] ->
    (forall x, In x p <-> In x (members c n) /\ hfin s x = false) ->
    opt_le_now s (sdl (Sd s n)) = true -> handlers_stepped c s n = true ->
    sd_thread c s n false ->
    (forall m, Sd s' m = if Nat.eqb m n then mkSst SdTidy true (sdl (Sd s n)) p (scanc (Sd s n)) else Sd s m) ->
    (forall m, ph (Rn s' m) = ph (Rn s m)) ->
    (forall x, Hd s' x = if memb x p then cancel_h (Hd s x) else Hd s x) ->
    now s' = now s -> hs_step c s s'
| HS_tidy_wake n :
    sp (Sd s n) = SdTidy -> (forall x, In x (spend (Sd s n)) -> hfin s x = true) ->
    sd_thread c s n false ->
    (forall m, Sd s' m = if Nat.eqb m n then sd_over s n else Sd s m) ->
    (forall m, m <> n -> ph (Rn s' m) = ph (Rn s m)) ->
    (if sd_inline s n then ph (Rn s' n) = POver /\ (forall x, Hd s' x = Hd s x)
     else ph (Rn s' n) = ph (Rn s n) /\
          forall x, Hd s' x = if Nat.eqb x n
                              then mkHst (if scanc (Sd s n) then HCancelled else HDone) false None
                              else Hd s x) ->
    now s' = now s -> hs_step c s s'
| HS_cancel n :
    (sp (Sd s n) = SdWait \/ sp (Sd s n) = SdTidy) -> handlers_stepped c s n = true ->
    sd_thread c s n true ->
    (forall m, Sd s' m = if Nat.eqb m n
                         then mkSst SdTidy true (sdl (Sd s n)) (sd_cancel_list c s n) true else Sd s m) ->
    (forall m, ph (Rn s' m) = ph (Rn s m)) ->
    (forall x, Hd s' x =
       let base := if negb (sd_inline s n) && Nat.eqb x n
                   then mkHst (hs (Hd s n)) false (hend (Hd s n)) else Hd s x in
       if memb x (sd_cancel_list c s n) then cancel_h base else base) ->
    now s' = now s -> hs_step c s s'
| HS_hevent j v :
    (forall x, Hd s' x = if Nat.eqb x j then v else Hd s x) -> (forall m, Sd s' m = Sd s m) ->
    (forall m, ph (Rn s' m) = ph (Rn s m)) -> now s' = now s ->
    ((atomic_id c j = true /\ hs (Hd s j) = HCreated /\ hcp (Hd s j) = false /\
      v = mkHst HRunning false (optN_add (now s) (j_sdur (jc c j))))
     \/ (atomic_id c j = true /\ hs (Hd s j) = HRunning /\ hcp (Hd s j) = false /\ v = mkHst HDone false None)
     \/ (atomic_id c j = true /\ hs (Hd s j) = HRunning /\ hcp (Hd s j) = true /\ v = mkHst HCancelled false None)
     \/ (j < njobs c /\ hs (Hd s j) = HCreated /\ hcp (Hd s j) = true /\ v = mkHst HCancelled false None)) ->
    hs_step c s s'.

Lemma holds3 lvl k code b : 3 <= lvl -> k <= 3 -> holds lvl (k, code, b) = b.
Proof. intros H1 H2. apply holds_ge. lia. Qed.

Lemma seteqb_In a b : seteqb a b = true -> forall x, In x a <-> In x b.
Proof.
  unfold seteqb, subsetb. rewrite andb_true_iff, !forallb_forall. intros [H1 H2] x. split; intros H.
  - apply memb_In. apply H1. exact H.
  - apply memb_In. apply H2. exact H.
Qed.

Lemma sd_thread_of lvl c s n wc : 3 <= lvl ->
  holds lvl (fst (sd_thread_ok c s n wc)) = true -> holds lvl (snd (sd_thread_ok c s n wc)) = true ->
  sd_thread c s n wc.
Proof.
  intros Hl H1 H2. unfold sd_thread_ok in *. cbn [fst snd] in *. rewrite holds_0 in H1.
  rewrite holds3 in H2 by lia. unfold sd_thread. destruct (sd_inline s n); [exact H1|].
  destruct (hs (Hd s n)); try discriminate. split; [reflexivity|]. apply eqb_prop in H2. exact H2.
Qed.

Lemma ph_bump_q s p f m : ph (Rn (bump_q s p f) m) = ph (Rn s m).
Proof. destruct (Rn_bump_q_q s p f m) as [H _]. exact H. Qed.

Theorem HS_effect lvl c s e s' : wf c = true -> Inv1 c s -> 3 <= lvl ->
  step lvl c s e = Some s' -> hs_step c s s'.
Proof.
  intros W I1 Hl Hs. destruct (step_inv _ _ _ _ _ Hs) as [Es' Hg].
  destruct e as [n o|n k d o|n k o|n o|j|j oc|j|j|j|j|j|j|j|j|t|t|jv sv]; cbn [reaction fst] in Es'.
  - (* EBegin *)
    split_guards Hg. unfold sched_id in G. apply andb_true_iff in G. destruct G as [Hsch Hlt]. apply Nat.ltb_lt in Hlt.
    destruct (HS_react_begin c n s) as (A & B & C). rewrite <- Es' in A, B, C.
    apply HS_frame; [intros x; rewrite A; reflexivity|intros m; rewrite B; reflexivity|].
    intros m. unfold sd_inline. rewrite Es', ph_react_begin.
    destruct (Nat.eqb_spec m n) as [->|Hm]; [|reflexivity].
    assert (Hidle : ph (Rn s n) = PIdle).
    { destruct (rootb n) eqn:Er.
      - destruct (ph (Rn s n)); try discriminate. reflexivity.
      - apply rootb_false in Er. apply (i_l1 c s I1 n Er). destruct (st (Jb s n)); try discriminate. auto. }
    rewrite Hidle. destruct (members c n); reflexivity.
  - (* EWake *)
    destruct k; cbn [reaction fst] in Es'.
    + (* main *)
      split_guards Hg. destruct (ph (Rn s n)) eqn:Hph; try discriminate.
      pose proof (HS_react_main c n d s) as H. cbn zeta in H. rewrite <- Es' in H.
      destruct H as (Hn & Ho & [(A & B & Cc)|((w & Cc) & A & B)]).
      * apply HS_frame; [exact A|exact B|]. intros m. unfold sd_inline.
        destruct (Nat.eqb_spec m n) as [->|Hm]; [|rewrite (Ho m Hm); reflexivity].
        destruct Cc as [Cc|[w Cc]]; rewrite Cc, ?Hph; reflexivity.
      * destruct (run_alive_false _ _ _ G) as (Hsch & Hlt & _).
        apply (HS_inl_start c s s' n); auto.
        -- unfold sched_id. rewrite Hsch. apply Nat.ltb_lt in Hlt. rewrite Hlt. reflexivity.
        -- unfold sd_inline. rewrite Cc. reflexivity.
    + (* tidy *)
      split_guards Hg. destruct (ph (Rn s n)) eqn:Hph; try discriminate.
      pose proof (HS_react_tidy c n s) as H. cbn zeta in H. rewrite <- Es' in H.
      destruct H as (Hn & Ho & [(Hrc & Cc & A & B)|(Hrc & Cc & A & B)]).
      * apply HS_frame; [exact A|exact B|]. intros m. unfold sd_inline.
        destruct (Nat.eqb_spec m n) as [->|Hm]; [|rewrite (Ho m Hm); reflexivity].
        rewrite Hph, Cc. reflexivity.
      * destruct (run_alive_false _ _ _ G) as (Hsch & Hlt & _).
        apply (HS_inl_start c s s' n); auto.
        -- unfold sched_id. rewrite Hsch. apply Nat.ltb_lt in Hlt. rewrite Hlt. reflexivity.
        -- right. exists w. exact Hph.
        -- unfold sd_inline. rewrite Cc. reflexivity.
    + (* ctidy *)
      split_guards Hg. destruct (ph (Rn s n)) eqn:Hph; try discriminate.
      apply HS_frame; rewrite Es'.
      * intros x. rewrite Hd_end_cancelled. reflexivity.
      * intros m. rewrite Sd_end_cancelled. reflexivity.
      * intros m. unfold sd_inline. rewrite ph_end_cancelled.
        destruct (Nat.eqb_spec m n) as [->|Hm]; [rewrite Hph|]; reflexivity.
    + (* shut *)
      cbn [forallb guards app outs_guards] in Hg.
      apply andb_true_iff in Hg. destruct Hg as [G1 Hg]. apply andb_true_iff in Hg. destruct Hg as [G2 Hg].
      apply andb_true_iff in Hg. destruct Hg as [G3 Hg]. apply andb_true_iff in Hg. destruct Hg as [G4 Hg].
      apply andb_true_iff in Hg. destruct Hg as [G5 Hg]. apply andb_true_iff in Hg. destruct Hg as [G6 Hg].
      apply andb_true_iff in Hg. destruct Hg as [G7 Hg]. apply andb_true_iff in Hg. destruct Hg as [G8 Hg].
      apply andb_true_iff in Hg. destruct Hg as [G9 _].
      pose proof (sd_thread_of lvl c s n false Hl G1 G2) as Hth.
      rewrite holds3 in G3, G4, G5, G9 by lia.
      destruct (sp (Sd s n)) eqn:Hsp; try discriminate.
      apply andb_true_iff in G4. destruct G4 as [G4 _]. pose proof (seteqb_In _ _ G4) as Hp.
      pose proof (HS_react_shut c n d (culprit_of o) s) as H. cbn zeta in H. rewrite <- Es' in H.
      destruct H as (Hn & Ho & H). destruct d as [|d0 d'].
      * destruct H as (B & H).
        apply (HS_wake_all c s s' n); auto.
        -- intros x Hx. destruct (hfin s x) eqn:E; [reflexivity|]. exfalso.
           apply (proj2 (Hp x)). unfold hpending. apply filter_In. split; [exact Hx|]. rewrite E. reflexivity.
      * destruct H as (Hph & B & A).
        apply (HS_wake_some c s s' n (d0 :: d')); auto.
        -- discriminate.
        -- intros x. rewrite (Hp x). unfold hpending. rewrite filter_In, negb_true_iff. tauto.
        -- intros m. destruct (Nat.eqb_spec m n) as [->|Hm]; [exact Hph|exact (Ho m Hm)].
    + (* shtidy *)
      cbn [forallb guards app outs_guards] in Hg.
      apply andb_true_iff in Hg. destruct Hg as [G1 Hg]. apply andb_true_iff in Hg. destruct Hg as [G2 Hg].
      apply andb_true_iff in Hg. destruct Hg as [G3 Hg]. apply andb_true_iff in Hg. destruct Hg as [G4 _].
      pose proof (sd_thread_of lvl c s n false Hl G1 G2) as Hth.
      rewrite holds3 in G3, G4 by lia.
      destruct (sp (Sd s n)) eqn:Hsp; try discriminate.
      pose proof (HS_react_shtidy c n (culprit_of o) s) as H. cbn zeta in H. rewrite <- Es' in H.
      destruct H as (Hn & Ho & B & H).
      apply (HS_tidy_wake c s s' n); auto.
      * intros x Hx. rewrite forallb_forall in G4. apply G4. exact Hx.
  - (* ECancelled *)
    destruct k; cbn [reaction fst] in Es'.
    + split_guards Hg. destruct (ph (Rn s n)) eqn:Hph; try discriminate.
      destruct (HS_react_cancel_main c n s) as (A & B & C). rewrite <- Es' in A, B, C.
      apply HS_frame; [intros x; rewrite A; reflexivity|intros m; rewrite B; reflexivity|].
      intros m. unfold sd_inline. rewrite Es', ph_react_cancel_main.
      destruct (Nat.eqb_spec m n) as [->|Hm]; [|reflexivity]. rewrite Hph. destruct (filter _ _); reflexivity.
    + destruct (HS_react_cancel_tidy c n s) as (A & B & C). rewrite <- Es' in A, B, C.
      apply HS_frame; [intros x; rewrite A; reflexivity|intros m; rewrite B; reflexivity|].
      intros m. unfold sd_inline. rewrite Es', ph_react_cancel_tidy. reflexivity.
    + destruct (HS_react_cancel_ctidy c n s) as (A & B & C). rewrite <- Es' in A, B, C.
      apply HS_frame; [intros x; rewrite A; reflexivity|intros m; rewrite B; reflexivity|].
      intros m. unfold sd_inline. rewrite Es', ph_react_cancel_ctidy. reflexivity.
    + cbn [forallb guards app outs_guards] in Hg.
      apply andb_true_iff in Hg. destruct Hg as [G1 Hg]. apply andb_true_iff in Hg. destruct Hg as [G2 Hg].
      apply andb_true_iff in Hg. destruct Hg as [G3 Hg]. apply andb_true_iff in Hg. destruct Hg as [G4 Hg].
      apply andb_true_iff in Hg. destruct Hg as [G5 Hg]. apply andb_true_iff in Hg. destruct Hg as [G6 _].
      pose proof (sd_thread_of lvl c s n true Hl G1 G2) as Hth.
      rewrite holds3 in G3, G6 by lia.
      pose proof (HS_react_cancel_shut c n s) as H. cbn zeta in H. rewrite <- Es' in H.
      destruct H as (Hn & Ho & B & A).
      apply (HS_cancel c s s' n); auto.
      * destruct (sp (Sd s n)); try discriminate; auto.
      * intros x. rewrite A. cbn zeta. destruct (sd_inline s n); cbn [negb andb]; reflexivity.
    + cbn [forallb guards app outs_guards] in Hg.
      apply andb_true_iff in Hg. destruct Hg as [G1 Hg]. apply andb_true_iff in Hg. destruct Hg as [G2 Hg].
      apply andb_true_iff in Hg. destruct Hg as [G3 Hg]. apply andb_true_iff in Hg. destruct Hg as [G4 Hg].
      apply andb_true_iff in Hg. destruct Hg as [G5 Hg]. apply andb_true_iff in Hg. destruct Hg as [G6 _].
      pose proof (sd_thread_of lvl c s n true Hl G1 G2) as Hth.
      rewrite holds3 in G3, G6 by lia.
      pose proof (HS_react_cancel_shut c n s) as H. cbn zeta in H. rewrite <- Es' in H.
      destruct H as (Hn & Ho & B & A).
      apply (HS_cancel c s s' n); auto.
      * destruct (sp (Sd s n)); try discriminate; auto.
      * intros x. rewrite A. cbn zeta. destruct (sd_inline s n); cbn [negb andb]; reflexivity.
  - (* ESdStart *)
    cbn [forallb guards app outs_guards] in Hg.
    apply andb_true_iff in Hg. destruct Hg as [G1 Hg]. apply andb_true_iff in Hg. destruct Hg as [G2 _].
    rewrite holds_0 in G1. rewrite holds3 in G2 by lia.
    pose proof (HS_react_sdstart c n s W) as H. cbn zeta in H. rewrite <- Es' in H.
    destruct H as (Hn & Ho & B & A).
    apply (HS_sdstart c s s' n); auto.
    destruct (hs (Hd s n)) eqn:Eh; try discriminate;
      try (right; apply andb_true_iff in G2; destruct G2 as [Gr Gp];
           apply rootb_true in Gr; subst n; split; [discriminate|]; split; [discriminate|]; split; [reflexivity|];
           destruct (ph (Rn s 0)); try discriminate; reflexivity).
    left. split; [reflexivity|]. apply negb_true_iff in G2. exact G2.
  - (* EStart *) rewrite Es'. apply HS_frame; [reflexivity|reflexivity|].
    intros m. unfold sd_inline, eff_start. rewrite ph_bump_q. reflexivity.
  - (* EFinish *) rewrite Es'. apply HS_frame; [reflexivity|reflexivity|].
    intros m. unfold sd_inline, eff_finish. rewrite ph_bump_q. reflexivity.
  - (* ECancelHit *) rewrite Es'. apply HS_frame; reflexivity.
  - (* ECancelEnd *) rewrite Es'. apply HS_frame; [reflexivity|reflexivity|].
    intros m. unfold sd_inline, eff_cancel_over. rewrite ph_bump_q. reflexivity.
  - (* ECancelAbort *) rewrite Es'. apply HS_frame; [reflexivity|reflexivity|].
    intros m. unfold sd_inline, eff_cancel_over. rewrite ph_bump_q. reflexivity.
  - (* EGone *) rewrite Es'. apply HS_frame; reflexivity.
  - (* EHStart *)
    cbn [forallb guards] in Hg. apply andb_true_iff in Hg. destruct Hg as [G1 Hg]. apply andb_true_iff in Hg. destruct Hg as [G2 _].
    rewrite holds_0 in G1. rewrite holds3 in G2 by lia.
    apply (HS_hevent c s s' j (mkHst HRunning false (optN_add (now s) (j_sdur (jc c j))))); try (rewrite Es'; reflexivity).
    left. destruct (hs (Hd s j)); try discriminate. apply negb_true_iff in G2. auto.
  - (* EHEnd *)
    cbn [forallb guards] in Hg. apply andb_true_iff in Hg. destruct Hg as [G1 Hg]. apply andb_true_iff in Hg. destruct Hg as [G2 _].
    rewrite holds_0 in G1. rewrite holds3 in G2 by lia.
    apply (HS_hevent c s s' j (mkHst HDone false None)); try (rewrite Es'; reflexivity).
    right. left. destruct (hs (Hd s j)); try discriminate. apply negb_true_iff in G2. auto.
  - (* EHCancel *)
    cbn [forallb guards] in Hg. apply andb_true_iff in Hg. destruct Hg as [G1 Hg]. apply andb_true_iff in Hg. destruct Hg as [G2 _].
    rewrite holds_0 in G1. rewrite holds3 in G2 by lia.
    apply (HS_hevent c s s' j (mkHst HCancelled false None)); try (rewrite Es'; reflexivity).
    right. right. left. destruct (hs (Hd s j)); try discriminate. auto.
  - (* EHGone *)
    cbn [forallb guards] in Hg. apply andb_true_iff in Hg. destruct Hg as [G1 Hg]. apply andb_true_iff in Hg. destruct Hg as [G2 _].
    rewrite holds_0 in G1. rewrite holds3 in G2 by lia. apply Nat.ltb_lt in G1.
    apply (HS_hevent c s s' j (mkHst HCancelled false None)); try (rewrite Es'; reflexivity).
    right. right. right. destruct (hs (Hd s j)); try discriminate. auto.
  - rewrite Es'. apply HS_frame; reflexivity.
  - rewrite Es'. apply HS_frame; reflexivity.
  - rewrite Es'. apply HS_frame; reflexivity.
Qed.

