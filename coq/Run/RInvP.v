(* Small invariants used by the progress theorem (C03): shapes of deadlines, who is active. *)
From AJ Require Import Common.Util Run.RModel Run.RFacts Run.RFacts2 Run.RInv Run.RInv3 Run.RInv4 Run.RInv5
  Run.RProps1 Run.RProps3 Run.RShut1 Run.RShut2 Run.RTime.

(* any level *)
Record InvP (c : cfg) (s : state) : Prop := {
  (* a run that has begun and is not over has members (an empty scheduler is over at once) *)
  p_members : forall n, ph (Rn s n) <> PIdle -> ph (Rn s n) <> POver -> members c n <> [];
  (* the root is never a task of anything *)
  p_root : Jb s 0 = init_j;
  (* the expiration of a run that has begun is set iff the scheduler has a timeout *)
  p_expi : forall n, ph (Rn s n) <> PIdle -> (expi (Rn s n) = None <-> j_timeout (jc c n) = None);
  (* a running body has a deadline iff the job has a duration *)
  p_rund : forall j, j_sched (jc c j) = false -> st (Jb s j) = Running ->
                     (tend (Jb s j) = None <-> j_dur (jc c j) = None);
  (* only atomic jobs are ever in the state Cancelling, and the cancellation has a deadline *)
  p_canc : forall j, st (Jb s j) = Cancelling -> j_sched (jc c j) = false /\ tend (Jb s j) <> None
}.

(* level 3 *)
Record InvQ (c : cfg) (s : state) : Prop := {
  (* a run in its inline shutdown phase has an active broadcast *)
  q_inl : forall n, sd_inline s n = true -> sd_active (sp (Sd s n));
  (* the co_shutdown() task of a scheduler is running only while its (non-inline) broadcast is active *)
  q_hrun : forall y, j_sched (jc c y) = true -> hs (Hd s y) = HRunning ->
                     sd_active (sp (Sd s y)) /\ sd_inline s y = false;
  (* the shutdown wait has a deadline iff the scheduler has a shutdown_timeout *)
  q_sdl : forall n, sp (Sd s n) = SdWait -> (sdl (Sd s n) = None <-> j_sdto (jc c n) = None);
  (* the stragglers being awaited have all been sent a cancellation *)
  q_spcp : forall n x, sp (Sd s n) = SdTidy -> In x (spend (Sd s n)) ->
                       hfin s x = true \/ hcp (Hd s x) = true;
  (* a running handler of an atomic job has a deadline iff the handler has a duration *)
  q_hdur : forall j, j_sched (jc c j) = false -> hs (Hd s j) = HRunning ->
                     (hend (Hd s j) = None <-> j_sdur (jc c j) = None)
}.
