(* Small invariants used by the progress theorem (C03): shapes of deadlines, who is active. *)
From AJ Require Import Common.Util Run.RModel Run.RFacts Run.RFacts2 Run.RInv Run.RInv3 Run.RInv4 Run.RInv5
  Run.RProps1 Run.RProps3 Run.RShut1 Run.RShut2 Run.RTime.

(* any level *)
Record InvP (c : cfg) (s : state) : Prop := {
  (* a run that has begun and is not over has members (an empty scheduler is over at once) *)
  p_members : forall n, ph (Rn s n) <> PIdle -> ph (Rn s n) <> POver -> members c n <> [];
  (* the root is never a task of anything *)
  p_root : Jb s 0 = init_j;
  (* the expiration of a run that has begun is set iff the scheduler has a timeout *)
  p_expi : forall n, ph (Rn s n) <> PIdle -> (expi (Rn s n) = None <-> j_timeout (jc c n) = None);
  (* a running body has a deadline iff the job has a duration *)
  p_rund : forall j, j_sched (jc c j) = false -> st (Jb s j) = Running ->
                     (tend (Jb s j) = None <-> j_dur (jc c j) = None);
  (* only atomic jobs are ever in the state Cancelling, and the cancellation has a deadline *)
  p_canc : forall j, st (Jb s j) = Cancelling -> j_sched (jc c j) = false /\ tend (Jb s j) <> None
}.

(* level 3 *)
Record InvQ (c : cfg) (s : state) : Prop := {
  (* a run in its inline shutdown phase has an active broadcast *)
  q_inl : forall n, sd_inline s n = true -> sd_active (sp (Sd s n));
  (* the co_shutdown() task of a scheduler is running only while its (non-inline) broadcast is active *)
  q_hrun : forall y, j_sched (jc c y) = true -> hs (Hd s y) = HRunning ->
                     sd_active (sp (Sd s y)) /\ sd_inline s y = false;
  (* the shutdown wait has a deadline iff the scheduler has a shutdown_timeout *)
  q_sdl : forall n, sp (Sd s n) = SdWait -> (sdl (Sd s n) = None <-> j_sdto (jc c n) = None);
  (* the stragglers being awaited have all been sent a cancellation; the co_shutdown() task of a
     nested scheduler consumes it (hcp back to false) when its own activity receives the
     CancelledError: it is then tidying its own handlers, and will end as cancelled *)
  q_spcp : forall n x, sp (Sd s n) = SdTidy -> In x (spend (Sd s n)) ->
                       hfin s x = true \/ hcp (Hd s x) = true \/
                       (j_sched (jc c x) = true /\ hs (Hd s x) = HRunning /\
                        sp (Sd s x) = SdTidy /\ scanc (Sd s x) = true);
  (* a running handler of an atomic job has a deadline iff the handler has a duration *)
  q_hdur : forall j, j_sched (jc c j) = false -> hs (Hd s j) = HRunning ->
                     (hend (Hd s j) = None <-> j_sdur (jc c j) = None)
}.

(* ------------------------------------------------------------------ InvP *)

Lemma optN_add_none t d : optN_add t d = None <-> d = None.
Proof. destruct d; cbn; split; intros H; try discriminate; reflexivity. Qed.

Lemma cancel_j_tend a : tend (cancel_j a) = tend a.
Proof. unfold cancel_j. destruct (finished (st a)); reflexivity. Qed.

Lemma InvP_init c : InvP c init.
Proof.
  split.
  - intros n H. exfalso. apply H. reflexivity.
  - reflexivity.
  - intros n H. exfalso. apply H. reflexivity.
  - intros j _ H. discriminate.
  - intros j H. discriminate.
Qed.

Theorem InvP_step lvl c s e s' : wf c = true -> Inv1 c s -> InvP c s -> step lvl c s e = Some s' -> InvP c s'.
Proof.
  intros W I1 IP Hs.
  pose proof (J_effect lvl c s e s' W (i_pend c s I1) Hs) as HJ.
  split.
  - (* members *)
    intros n Hi Ho.
    destruct (run_clock_step lvl c s e s' n Hs) as [[_ Hidle]|(o & Ee & _ & _)].
    + apply (p_members c s IP n).
      * intro E. apply Hi. apply Hidle. exact E.
      * intro E. apply Ho. apply (phase_over_stable lvl c s e s' n W I1 Hs E).
    + subst e. destruct (step_inv _ _ _ _ _ Hs) as [Es' _]. cbn [reaction] in Es'.
      intro Em. apply Ho. rewrite Es', ph_react_begin, Nat.eqb_refl, Em. reflexivity.
  - (* root *)
    pose proof (p_root c s IP) as R0.
    assert (Hnm : forall n, ~ In 0 (members c n)).
    { intros n H. apply In_members in H. destruct H as (_ & _ & H). apply H. reflexivity. }
    destruct (HJ 0)
      as [H|H1 H2|HS H1 H2 H3 H4 H5|H1 H2 H3 H4 H5 H6 H7|H1 H2 H3 H4 H5 H6|HS H1 H2 H3 H4 H5 H6|HS H1 H2 H3 H4 H5|HS H1 H2 H3 H4 H5 H6|HS H1 H2 H3 H4 H5 H6 H7|HS H1 H2|HS H1 H2 H3].
    + rewrite H. exact R0.
    + exfalso. destruct H2 as (n & Hin & _). apply (Hnm n). apply (i_pend c s I1 n 0 Hin).
    + rewrite R0 in H1. discriminate.
    + exfalso. apply (Hnm _ H4).
    + exfalso. apply (Hnm _ H3).
    + rewrite R0 in H1. discriminate.
    + rewrite R0 in H1. discriminate.
    + rewrite R0 in H1. discriminate.
    + rewrite R0 in H1. discriminate.
    + rewrite R0 in H1. destruct H1 as [H1|[H1 _]]; discriminate.
    + rewrite R0 in H1. discriminate.
  - (* expiration *)
    intros n Hi. destruct (run_clock_step lvl c s e s' n Hs) as [[He Hidle]|(o & _ & He & _)].
    + rewrite He. apply (p_expi c s IP n). intro E. apply Hi. apply Hidle. exact E.
    + rewrite He. apply optN_add_none.
  - (* running bodies *)
    intros j Ha Hst.
    destruct (HJ j)
      as [H|H1 H2|HS H1 H2 H3 H4 H5|H1 H2 H3 H4 H5 H6 H7|H1 H2 H3 H4 H5 H6|HS H1 H2 H3 H4 H5 H6|HS H1 H2 H3 H4 H5|HS H1 H2 H3 H4 H5 H6|HS H1 H2 H3 H4 H5 H6 H7|HS H1 H2|HS H1 H2 H3].
    + rewrite H in *. apply (p_rund c s IP j Ha Hst).
    + rewrite H1 in *. rewrite cancel_j_st in Hst. rewrite cancel_j_tend. apply (p_rund c s IP j Ha Hst).
    + congruence.
    + rewrite H2 in Hst. discriminate.
    + rewrite H1 in Hst. discriminate.
    + rewrite H6, Ha. apply optN_add_none.
    + rewrite H5 in Hst. discriminate.
    + rewrite Hst in H3. discriminate.
    + congruence.
    + rewrite H2 in Hst. discriminate.
    + rewrite H3 in Hst. discriminate.
  - (* cancelling *)
    intros j Hst.
    destruct (HJ j)
      as [H|H1 H2|HS H1 H2 H3 H4 H5|H1 H2 H3 H4 H5 H6 H7|H1 H2 H3 H4 H5 H6|HS H1 H2 H3 H4 H5 H6|HS H1 H2 H3 H4 H5|HS H1 H2 H3 H4 H5 H6|HS H1 H2 H3 H4 H5 H6 H7|HS H1 H2|HS H1 H2 H3].
    + rewrite H in *. apply (p_canc c s IP j Hst).
    + rewrite H1 in *. rewrite cancel_j_st in Hst. rewrite cancel_j_tend. apply (p_canc c s IP j Hst).
    + rewrite H4 in Hst. discriminate.
    + rewrite H2 in Hst. discriminate.
    + rewrite H1 in Hst. discriminate.
    + congruence.
    + rewrite H5 in Hst. discriminate.
    + rewrite Hst in H3. discriminate.
    + split; [exact H3|]. rewrite H7. discriminate.
    + rewrite H2 in Hst. discriminate.
    + rewrite H3 in Hst. discriminate.
Qed.

Theorem InvP_reach lvl c h s : wf c = true -> Reach lvl c h s -> InvP c s.
Proof.
  intros W Hr. revert h s Hr. apply reach_ind.
  - apply InvP_init.
  - intros h s e s' Hr IP Hs. eapply InvP_step; eauto. eapply Inv1_reach; eauto.
Qed.

(* ------------------------------------------------------------------ InvQ *)

Lemma InvQ_init c : InvQ c init.
Proof.
  split.
  - intros n H. discriminate.
  - intros y _ H. discriminate.
  - intros n H. discriminate.
  - intros n x H. discriminate.
  - intros j _ H. discriminate.
Qed.

(* the third clause at one awaited handler *)
Definition sp_ok (c : cfg) (s : state) (x : nat) : Prop :=
  hfin s x = true \/ hcp (Hd s x) = true \/
  (j_sched (jc c x) = true /\ hs (Hd s x) = HRunning /\ sp (Sd s x) = SdTidy /\ scanc (Sd s x) = true).

Lemma cancel_h_ok a : hfinished (hs (cancel_h a)) = true \/ hcp (cancel_h a) = true.
Proof. unfold cancel_h. destruct (hfinished (hs a)) eqn:E; [left; exact E|right; reflexivity]. Qed.

Lemma sched_id_sched c n : sched_id c n = true -> j_sched (jc c n) = true.
Proof. unfold sched_id. intros H. apply andb_true_iff in H. tauto. Qed.

Section StepQ.
  Variables (c : cfg) (s s' : state).
  Hypothesis W : wf c = true.
  Hypothesis I8 : Inv8 c s.
  Hypothesis IP : InvP c s.
  Hypothesis IQ : InvQ c s.
  Hypothesis HS : hs_step c s s'.

  (* ---- q_inl *)
  Lemma sq_inl n : sd_inline s' n = true -> sd_active (sp (Sd s' n)).
  Proof.
    intros Hi.
    assert (Hpre : Sd s' n = Sd s n -> sd_inline s' n = sd_inline s n -> sd_active (sp (Sd s' n))).
    { intros E Ei. rewrite E. apply (q_inl c s IQ n). rewrite <- Ei. exact Hi. }
    pose proof HS as H. hs_cases H.
    - apply Hpre; [apply hB|apply hC].
    - destruct (Nat.eqb_spec n n0) as [->|Hm].
      + rewrite hB. unfold sd_create. rewrite Nat.eqb_refl.
        assert (Hnd : did (Sd s n0) = false).
        { destruct (did (Sd s n0)) eqn:Ed; [|reflexivity]. exfalso.
          destruct (k_phase c s I8 n0 Ed) as [K|[K|(K & _)]].
          - unfold sd_inline in K. destruct hPh as [E|[w E]]; rewrite E in K; discriminate.
          - destruct hPh as [E|[w E]]; rewrite E in K; discriminate.
          - destruct hPh as [E|[w E]]; rewrite E in K; discriminate. }
        rewrite Hnd. unfold sd_started.
        assert (Hne : members c n0 <> []).
        { apply (p_members c s IP n0); destruct hPh as [E|[w E]]; rewrite E; discriminate. }
        destruct (members c n0) eqn:Em; [exfalso; congruence|]. left. reflexivity.
      + apply Hpre; [rewrite hB; unfold sd_create; apply Nat.eqb_neq in Hm; rewrite Hm; reflexivity|].
        apply sd_inline_ph. apply hO. exact Hm.
    - assert (Ei : sd_inline s' n = sd_inline s n) by (apply sd_inline_ph; apply hO).
      destruct (Nat.eqb_spec n n0) as [->|Hm].
      + apply Hpre; [|exact Ei]. rewrite hB. unfold sd_create. rewrite Nat.eqb_refl.
        rewrite (k_inl c s I8 n0); [reflexivity|]. rewrite <- Ei. exact Hi.
      + apply Hpre; [|exact Ei]. rewrite hB. unfold sd_create. apply Nat.eqb_neq in Hm. rewrite Hm. reflexivity.
    - destruct (Nat.eqb_spec n n0) as [->|Hm].
      + exfalso. destruct (sd_inline s n0) eqn:E.
        * destruct hX as [hX _]. unfold sd_inline in Hi. rewrite hX in Hi. discriminate.
        * destruct hX as [hX _]. rewrite (sd_inline_ph s s' n0 hX) in Hi. congruence.
      + apply Hpre; [rewrite hB; apply Nat.eqb_neq in Hm; rewrite Hm; reflexivity|].
        apply sd_inline_ph. apply hO. exact Hm.
    - destruct (Nat.eqb_spec n n0) as [->|Hm].
      + rewrite hB, Nat.eqb_refl. right. reflexivity.
      + apply Hpre; [rewrite hB; apply Nat.eqb_neq in Hm; rewrite Hm; reflexivity|].
        apply sd_inline_ph. apply hO.
    - destruct (Nat.eqb_spec n n0) as [->|Hm].
      + exfalso. destruct (sd_inline s n0) eqn:E.
        * destruct hX as [hX _]. unfold sd_inline in Hi. rewrite hX in Hi. discriminate.
        * destruct hX as [hX _]. rewrite (sd_inline_ph s s' n0 hX) in Hi. congruence.
      + apply Hpre; [rewrite hB; apply Nat.eqb_neq in Hm; rewrite Hm; reflexivity|].
        apply sd_inline_ph. apply hO. exact Hm.
    - destruct (Nat.eqb_spec n n0) as [->|Hm].
      + rewrite hB, Nat.eqb_refl. right. reflexivity.
      + apply Hpre; [rewrite hB; apply Nat.eqb_neq in Hm; rewrite Hm; reflexivity|].
        apply sd_inline_ph. apply hO.
    - apply Hpre; [apply hB|apply sd_inline_ph; apply hO].
  Qed.

  (* ---- q_hrun *)
  (* a running co_shutdown() task stays consistent with its activity, or ends with it *)
  Lemma run_keep y : hs (Hd s y) = HRunning -> sd_active (sp (Sd s y)) -> sd_inline s y = false ->
    (sd_active (sp (Sd s' y)) /\ sd_inline s' y = false) \/ hs (Hd s' y) <> HRunning.
  Proof.
    intros Hr Ha Hi.
    assert (Hpre : Sd s' y = Sd s y -> sd_inline s' y = sd_inline s y ->
                   (sd_active (sp (Sd s' y)) /\ sd_inline s' y = false) \/ hs (Hd s' y) <> HRunning).
    { intros E Ei. left. rewrite E, Ei. auto. }
    pose proof HS as H. hs_cases H.
    - apply Hpre; [apply hB|apply hC].
    - destruct (Nat.eqb_spec y n0) as [->|Hm].
      + exfalso. pose proof (active_did c s n0 I8 Ha) as Ed.
        destruct (k_phase c s I8 n0 Ed) as [K|[K|(K & _)]].
        * congruence.
        * destruct hPh as [E|[w E]]; rewrite E in K; discriminate.
        * destruct hPh as [E|[w E]]; rewrite E in K; discriminate.
      + apply Hpre; [rewrite hB; unfold sd_create; apply Nat.eqb_neq in Hm; rewrite Hm; reflexivity|].
        apply sd_inline_ph. apply hO. exact Hm.
    - destruct (Nat.eqb_spec y n0) as [->|Hm].
      + exfalso. destruct hG as [[G _]|(_ & G & _)]; congruence.
      + apply Hpre; [rewrite hB; unfold sd_create; apply Nat.eqb_neq in Hm; rewrite Hm; reflexivity|].
        apply sd_inline_ph. apply hO.
    - destruct (Nat.eqb_spec y n0) as [->|Hm].
      + right. rewrite Hi in hX. destruct hX as [_ hX]. rewrite hX, Nat.eqb_refl. discriminate.
      + apply Hpre; [rewrite hB; apply Nat.eqb_neq in Hm; rewrite Hm; reflexivity|].
        apply sd_inline_ph. apply hO. exact Hm.
    - destruct (Nat.eqb_spec y n0) as [->|Hm].
      + left. split; [rewrite hB, Nat.eqb_refl; right; reflexivity|].
        rewrite (sd_inline_ph s s' n0 (hO n0)). exact Hi.
      + apply Hpre; [rewrite hB; apply Nat.eqb_neq in Hm; rewrite Hm; reflexivity|].
        apply sd_inline_ph. apply hO.
    - destruct (Nat.eqb_spec y n0) as [->|Hm].
      + right. rewrite Hi in hX. destruct hX as [_ hX]. rewrite hX, Nat.eqb_refl.
        destruct (scanc (Sd s n0)); discriminate.
      + apply Hpre; [rewrite hB; apply Nat.eqb_neq in Hm; rewrite Hm; reflexivity|].
        apply sd_inline_ph. apply hO. exact Hm.
    - destruct (Nat.eqb_spec y n0) as [->|Hm].
      + left. split; [rewrite hB, Nat.eqb_refl; right; reflexivity|].
        rewrite (sd_inline_ph s s' n0 (hO n0)). exact Hi.
      + apply Hpre; [rewrite hB; apply Nat.eqb_neq in Hm; rewrite Hm; reflexivity|].
        apply sd_inline_ph. apply hO.
    - apply Hpre; [apply hB|apply sd_inline_ph; apply hO].
  Qed.

  (* the co_shutdown() task of a scheduler starts running only with a fresh broadcast of its own *)
  Lemma run_new y : j_sched (jc c y) = true -> hs (Hd s y) <> HRunning -> hs (Hd s' y) = HRunning ->
    sd_active (sp (Sd s' y)) /\ sd_inline s' y = false.
  Proof.
    intros Hsch Hn Hr.
    destruct (hd_view c s s' y W I8 HS) as [H|n1 H1 H2 H3 H4|H1 H2 H3 H4|H1 H2 H3 H4 H5|H1 H2 H3 H4 H5 H6|v H1 H2].
    - rewrite H in Hr. contradiction.
    - rewrite H4 in Hr. discriminate.
    - rewrite H1 in Hr. contradiction.
    - destruct H5 as [[E _]|(E & Ed & Em)]; [rewrite E in Hr; discriminate|].
      split.
      + rewrite H4. unfold sd_create. rewrite Nat.eqb_refl, Ed. unfold sd_started.
        destruct (members c y) eqn:Em2; [exfalso; congruence|]. left. reflexivity.
      + rewrite (sd_inline_ph s s' y (H3 y)). destruct (sd_inline s y) eqn:Ei; [|reflexivity].
        rewrite (k_inl c s I8 y Ei) in Ed. discriminate.
    - contradiction.
    - rewrite H1 in Hr. destruct H2 as [(Ha & _)|[(_ & _ & _ & Ev)|[(_ & _ & _ & Ev)|(_ & _ & _ & Ev)]]].
      + destruct (atomic_id_spec _ _ Ha) as (Ha1 & _). congruence.
      + rewrite Ev in Hr. discriminate.
      + rewrite Ev in Hr. discriminate.
      + rewrite Ev in Hr. discriminate.
  Qed.

  Lemma sq_hrun y : j_sched (jc c y) = true -> hs (Hd s' y) = HRunning ->
    sd_active (sp (Sd s' y)) /\ sd_inline s' y = false.
  Proof.
    intros Hsch Hr.
    destruct (hs (Hd s y)) eqn:E; try (apply run_new; auto; rewrite E; discriminate).
    destruct (q_hrun c s IQ y Hsch E) as [Ha Hi].
    destruct (run_keep y E Ha Hi) as [K|K]; [exact K|contradiction].
  Qed.

  (* ---- q_sdl *)
  Lemma sq_sdl n : sp (Sd s' n) = SdWait -> (sdl (Sd s' n) = None <-> j_sdto (jc c n) = None).
  Proof.
    intros Hp.
    assert (Hpre : Sd s' n = Sd s n -> (sdl (Sd s' n) = None <-> j_sdto (jc c n) = None)).
    { intros E. rewrite E in *. apply (q_sdl c s IQ n Hp). }
    pose proof HS as H. hs_cases H.
    - apply Hpre. apply hB.
    - destruct (Nat.eqb_spec n n0) as [->|Hm].
      + pose proof (hB n0) as E. unfold sd_create in E. rewrite Nat.eqb_refl in E.
        destruct (did (Sd s n0)); [apply Hpre; exact E|]. rewrite E in *. unfold sd_started in *.
        revert Hp. destruct (members c n0); intros Hp; [discriminate Hp|]. cbn [sdl]. apply optN_add_none.
      + apply Hpre. rewrite hB. unfold sd_create. apply Nat.eqb_neq in Hm. rewrite Hm. reflexivity.
    - destruct (Nat.eqb_spec n n0) as [->|Hm].
      + pose proof (hB n0) as E. unfold sd_create in E. rewrite Nat.eqb_refl in E.
        destruct (did (Sd s n0)); [apply Hpre; exact E|]. rewrite E in *. unfold sd_started in *.
        revert Hp. destruct (members c n0); intros Hp; [discriminate Hp|]. cbn [sdl]. apply optN_add_none.
      + apply Hpre. rewrite hB. unfold sd_create. apply Nat.eqb_neq in Hm. rewrite Hm. reflexivity.
    - destruct (Nat.eqb_spec n n0) as [->|Hm].
      + rewrite hB, Nat.eqb_refl in Hp. discriminate.
      + apply Hpre. rewrite hB. apply Nat.eqb_neq in Hm. rewrite Hm. reflexivity.
    - destruct (Nat.eqb_spec n n0) as [->|Hm].
      + rewrite hB, Nat.eqb_refl in Hp. discriminate.
      + apply Hpre. rewrite hB. apply Nat.eqb_neq in Hm. rewrite Hm. reflexivity.
    - destruct (Nat.eqb_spec n n0) as [->|Hm].
      + rewrite hB, Nat.eqb_refl in Hp. discriminate.
      + apply Hpre. rewrite hB. apply Nat.eqb_neq in Hm. rewrite Hm. reflexivity.
    - destruct (Nat.eqb_spec n n0) as [->|Hm].
      + rewrite hB, Nat.eqb_refl in Hp. discriminate.
      + apply Hpre. rewrite hB. apply Nat.eqb_neq in Hm. rewrite Hm. reflexivity.
    - apply Hpre. apply hB.
  Qed.

  (* ---- q_spcp *)
  Lemma sp_ok_same x : Hd s' x = Hd s x -> (sd_active (sp (Sd s x)) -> Sd s' x = Sd s x) ->
    sp_ok c s x -> sp_ok c s' x.
  Proof.
    intros EH ES [H|[H|(H1 & H2 & H3 & H4)]].
    - left. unfold hfin in *. rewrite EH. exact H.
    - right. left. rewrite EH. exact H.
    - right. right. rewrite EH, ES by (right; exact H3). auto.
  Qed.

  Lemma sp_ok_not x : hfinished (hs (Hd s x)) = false -> hcp (Hd s x) = false -> hs (Hd s x) <> HRunning ->
    ~ sp_ok c s x.
  Proof.
    intros A B C [H|[H|(_ & H & _)]]; [unfold hfin in H; congruence|congruence|contradiction].
  Qed.

  Lemma hd_create_ok n0 x : sp_ok c s x -> hd_create c s n0 x = Hd s x.
  Proof.
    intros Hok. unfold hd_create. destruct (did (Sd s n0)) eqn:Ed; [reflexivity|].
    destruct (memb x (members c n0)) eqn:Em; [|reflexivity]. exfalso.
    apply memb_In in Em. pose proof (k_none c s I8 n0 x Em Ed) as E0.
    apply (sp_ok_not x); [rewrite E0; reflexivity|rewrite E0; reflexivity|rewrite E0; discriminate|exact Hok].
  Qed.

  Lemma cancel_list_members n0 y : In y (sd_cancel_list c s n0) -> In y (members c n0).
  Proof.
    intros Hy. unfold sd_cancel_list in Hy.
    destruct (sp (Sd s n0)) eqn:E; try (apply (k_spend c s I8 n0 y Hy)). exact Hy.
  Qed.

  Lemma sp_ok_step x : x <> 0 -> x < njobs c -> sp_ok c s x -> sp_ok c s' x.
  Proof.
    intros Hx0 Hxl Hok. pose proof HS as H. hs_cases H.
    - (* frame *)
      apply sp_ok_same; [apply hA|intros _; apply hB|exact Hok].
    - (* inline start *)
      apply sp_ok_same; [rewrite hA; apply hd_create_ok; exact Hok| |exact Hok].
      intros Ha. rewrite hB. unfold sd_create. destruct (Nat.eqb_spec x n0) as [->|Hm]; [|reflexivity].
      rewrite (active_did c s n0 I8 Ha). reflexivity.
    - (* sdstart *)
      destruct (Nat.eqb_spec x n0) as [->|Hxn].
      + exfalso. destruct hG as [[G1 G2]|(_ & _ & G3 & _)]; [|contradiction].
        apply (sp_ok_not n0); [rewrite G1; reflexivity|exact G2|rewrite G1; discriminate|exact Hok].
      + apply Nat.eqb_neq in Hxn. apply sp_ok_same; [| |exact Hok].
        * rewrite hA, Hxn. apply hd_create_ok. exact Hok.
        * intros _. rewrite hB. unfold sd_create. rewrite Hxn. reflexivity.
    - (* wake_all *)
      destruct (Nat.eqb_spec x n0) as [->|Hxn].
      + destruct (sd_inline s n0) eqn:Ei.
        * destruct hX as [_ hX]. destruct Hok as [K|[K|(_ & _ & K & _)]].
          -- left. unfold hfin in *. rewrite hX. exact K.
          -- right. left. rewrite hX. exact K.
          -- congruence.
        * destruct hX as [_ hX]. left. unfold hfin. rewrite hX, Nat.eqb_refl. reflexivity.
      + apply Nat.eqb_neq in Hxn. apply sp_ok_same; [| |exact Hok].
        * destruct (sd_inline s n0); destruct hX as [_ hX]; rewrite hX; [reflexivity|]. rewrite Hxn. reflexivity.
        * intros _. rewrite hB, Hxn. reflexivity.
    - (* wake_some *)
      pose proof (hA x) as Ax. destruct (memb x p0) eqn:Em.
      + destruct (cancel_h_ok (Hd s x)) as [K|K]; [left; unfold hfin|right; left]; rewrite Ax; exact K.
      + destruct (Nat.eqb_spec x n0) as [->|Hxn].
        * destruct Hok as [K|[K|(_ & _ & K & _)]].
          -- left. unfold hfin in *. rewrite Ax. exact K.
          -- right. left. rewrite Ax. exact K.
          -- congruence.
        * apply Nat.eqb_neq in Hxn. apply sp_ok_same; [exact Ax| |exact Hok].
          intros _. rewrite hB, Hxn. reflexivity.
    - (* tidy_wake *)
      destruct (Nat.eqb_spec x n0) as [->|Hxn].
      + destruct (sd_inline s n0) eqn:Ei.
        * destruct hX as [_ hX]. destruct Hok as [K|[K|(K1 & K2 & _)]].
          -- left. unfold hfin in *. rewrite hX. exact K.
          -- right. left. rewrite hX. exact K.
          -- destruct (q_hrun c s IQ n0 K1 K2) as [_ Kf]. congruence.
        * destruct hX as [_ hX]. left. unfold hfin. rewrite hX, Nat.eqb_refl.
          destruct (scanc (Sd s n0)); reflexivity.
      + apply Nat.eqb_neq in Hxn. apply sp_ok_same; [| |exact Hok].
        * destruct (sd_inline s n0); destruct hX as [_ hX]; rewrite hX; [reflexivity|]. rewrite Hxn. reflexivity.
        * intros _. rewrite hB, Hxn. reflexivity.
    - (* cancel *)
      destruct (Nat.eqb_spec x n0) as [Exn|Hxn]; pose proof (hA x) as Ax; cbn zeta in Ax.
      + subst x. assert (Em : memb n0 (sd_cancel_list c s n0) = false).
        { apply memb_false. intro Hin. apply (member_neq c n0 n0 W (cancel_list_members n0 n0 Hin)). reflexivity. }
        rewrite Em, Nat.eqb_refl, andb_true_r in Ax.
        unfold sd_thread in hTh. destruct (sd_inline s n0) eqn:Ei; cbn [negb] in Ax.
        * destruct Hok as [K|[K|(K1 & K2 & _)]].
          -- left. unfold hfin in *. rewrite Ax. exact K.
          -- right. left. rewrite Ax. exact K.
          -- destruct (q_hrun c s IQ n0 K1 K2) as [_ Kf]. congruence.
        * destruct hTh as [Hr Hc]. right. right. rewrite Ax, hB, Nat.eqb_refl. cbn [hs sp scanc].
          split; [|auto]. apply sched_id_sched. apply (k_valid c s I8 n0). apply (active_did c s n0 I8 hSp).
      + apply Nat.eqb_neq in Hxn. rewrite Hxn, andb_false_r in Ax.
        destruct (memb x (sd_cancel_list c s n0)).
        * destruct (cancel_h_ok (Hd s x)) as [K|K]; [left; unfold hfin|right; left]; rewrite Ax; exact K.
        * apply sp_ok_same; [exact Ax| |exact Hok]. intros _. rewrite hB, Hxn. reflexivity.
    - (* handler event *)
      destruct (Nat.eqb_spec x j0) as [->|Hxj].
      + pose proof (hA j0) as Ax. rewrite Nat.eqb_refl in Ax.
        destruct hV as [(_ & G1 & G2 & _)|[(_ & _ & _ & Ev)|[(_ & _ & _ & Ev)|(_ & _ & _ & Ev)]]].
        * exfalso. apply (sp_ok_not j0); [rewrite G1; reflexivity|exact G2|rewrite G1; discriminate|exact Hok].
        * left. unfold hfin. rewrite Ax, Ev. reflexivity.
        * left. unfold hfin. rewrite Ax, Ev. reflexivity.
        * left. unfold hfin. rewrite Ax, Ev. reflexivity.
      + apply Nat.eqb_neq in Hxj. apply sp_ok_same; [rewrite hA, Hxj; reflexivity|intros _; apply hB|exact Hok].
  Qed.

  Lemma sq_spcp n x : sp (Sd s' n) = SdTidy -> In x (spend (Sd s' n)) -> sp_ok c s' x.
  Proof.
    intros Hsp Hx.
    assert (Hpre : Sd s' n = Sd s n -> sp_ok c s' x).
    { intros E. rewrite E in *.
      pose proof (k_spend c s I8 n x Hx) as Hm. apply In_members in Hm. destruct Hm as (M1 & _ & M3).
      apply sp_ok_step; auto. apply (q_spcp c s IQ n x Hsp Hx). }
    pose proof HS as H. hs_cases H.
    - apply Hpre. apply hB.
    - destruct (Nat.eqb_spec n n0) as [->|Hm].
      + pose proof (hB n0) as E. unfold sd_create in E. rewrite Nat.eqb_refl in E.
        destruct (did (Sd s n0)); [apply Hpre; exact E|]. exfalso.
        rewrite E in Hsp. unfold sd_started in Hsp. destruct (members c n0); discriminate.
      + apply Hpre. rewrite hB. unfold sd_create. apply Nat.eqb_neq in Hm. rewrite Hm. reflexivity.
    - destruct (Nat.eqb_spec n n0) as [->|Hm].
      + pose proof (hB n0) as E. unfold sd_create in E. rewrite Nat.eqb_refl in E.
        destruct (did (Sd s n0)); [apply Hpre; exact E|]. exfalso.
        rewrite E in Hsp. unfold sd_started in Hsp. destruct (members c n0); discriminate.
      + apply Hpre. rewrite hB. unfold sd_create. apply Nat.eqb_neq in Hm. rewrite Hm. reflexivity.
    - destruct (Nat.eqb_spec n n0) as [->|Hm].
      + rewrite hB, Nat.eqb_refl in Hsp. discriminate.
      + apply Hpre. rewrite hB. apply Nat.eqb_neq in Hm. rewrite Hm. reflexivity.
    - destruct (Nat.eqb_spec n n0) as [->|Hm].
      + rewrite hB, Nat.eqb_refl in Hx. cbn [spend] in Hx. apply memb_In in Hx.
        pose proof (hA x) as Ax. rewrite Hx in Ax.
        destruct (cancel_h_ok (Hd s x)) as [K|K]; [left; unfold hfin|right; left]; rewrite Ax; exact K.
      + apply Hpre. rewrite hB. apply Nat.eqb_neq in Hm. rewrite Hm. reflexivity.
    - destruct (Nat.eqb_spec n n0) as [->|Hm].
      + rewrite hB, Nat.eqb_refl in Hsp. discriminate.
      + apply Hpre. rewrite hB. apply Nat.eqb_neq in Hm. rewrite Hm. reflexivity.
    - destruct (Nat.eqb_spec n n0) as [->|Hm].
      + rewrite hB, Nat.eqb_refl in Hx. cbn [spend] in Hx.
        assert (Hxn : x <> n0) by (apply (member_neq c n0 x W); apply cancel_list_members; exact Hx).
        apply Nat.eqb_neq in Hxn. apply memb_In in Hx.
        pose proof (hA x) as Ax. cbn zeta in Ax. rewrite Hx, Hxn, andb_false_r in Ax.
        destruct (cancel_h_ok (Hd s x)) as [K|K]; [left; unfold hfin|right; left]; rewrite Ax; exact K.
      + apply Hpre. rewrite hB. apply Nat.eqb_neq in Hm. rewrite Hm. reflexivity.
    - apply Hpre. apply hB.
  Qed.

  (* ---- q_hdur *)
  Lemma sq_hdur j : j_sched (jc c j) = false -> hs (Hd s' j) = HRunning ->
    (hend (Hd s' j) = None <-> j_sdur (jc c j) = None).
  Proof.
    intros Ha Hr.
    destruct (hd_view c s s' j W I8 HS) as [H|n1 H1 H2 H3 H4|H1 H2 H3 H4|H1 H2 H3 H4 H5|H1 H2 H3 H4 H5 H6|v H1 H2].
    - rewrite H in *. apply (q_hdur c s IQ j Ha Hr).
    - rewrite H4 in Hr. discriminate.
    - rewrite H1 in Hr. rewrite H2. apply (q_hdur c s IQ j Ha Hr).
    - pose proof (sched_id_sched c j H1) as Hsch. congruence.
    - destruct H6 as [E|E]; rewrite E in Hr; discriminate.
    - rewrite H1 in *. destruct H2 as [(_ & _ & _ & Ev)|[(_ & _ & _ & Ev)|[(_ & _ & _ & Ev)|(_ & _ & _ & Ev)]]];
        rewrite Ev in *; try discriminate. cbn [hend]. apply optN_add_none.
  Qed.
End StepQ.

Theorem InvQ_step lvl c s e s' : wf c = true -> 3 <= lvl -> InvE c s -> InvP c s -> InvQ c s ->
  step lvl c s e = Some s' -> InvQ c s'.
Proof.
  intros W Hl [ID I8] IP IQ Hs.
  pose proof (ic_1 c s (id_c c s ID)) as I1.
  pose proof (HS_effect lvl c s e s' W I1 Hl Hs) as HS.
  split.
  - eapply sq_inl; eauto.
  - eapply sq_hrun; eauto.
  - eapply sq_sdl; eauto.
  - intros n x Hsp Hx. eapply sq_spcp; eauto.
  - eapply sq_hdur; eauto.
Qed.

Theorem InvQ_reach lvl c h s : wf c = true -> 3 <= lvl -> Reach lvl c h s -> InvQ c s.
Proof.
  intros W Hl Hr. revert h s Hr. apply reach_ind.
  - apply InvQ_init.
  - intros h s e s' Hr IQ Hs. eapply InvQ_step; eauto.
    + eapply InvE_reach; eauto.
    + eapply InvP_reach; eauto.
Qed.
