(* Timing: no deadline is ever passed.  A job body ends, a timeout fires, a handler ends and a
   shutdown wait expires exactly at its deadline (levels 2 and 3). *)
From AJ Require Import Common.Util Run.RModel Run.RFacts Run.RFacts2 Run.RInv Run.RInv3 Run.RInv4 Run.RInv5
  Run.RProps3 Run.RWin Run.RProps4 Run.RShut1 Run.RShut2.

Definition dl_ok (s : state) (d : option N) : Prop :=
  match d with Some x => (now s <= x)%N | None => True end.

Lemma dl_ok_add s s' d : now s' = now s -> dl_ok s' (optN_add (now s) d).
Proof. intros E. destruct d as [x|]; cbn; [rewrite E; lia|exact I]. Qed.

Lemma minN_le l m : minN l = Some m -> forall x, In x l -> (m <= x)%N.
Proof.
  revert m. induction l as [|a l IH]; intros m Hm x Hx; [destruct Hx|].
  cbn [minN] in Hm. destruct (minN l) as [y|] eqn:E.
  - injection Hm as <-. destruct Hx as [<-|Hx]; [lia|]. specialize (IH y eq_refl x Hx). lia.
  - injection Hm as <-. destruct Hx as [<-|Hx]; [lia|]. destruct l; [destruct Hx|]. cbn in E.
    destruct (minN l); discriminate.
Qed.

Lemma minN_none l : minN l = None -> l = [].
Proof. destruct l as [|a l]; [reflexivity|]. cbn. destruct (minN l); discriminate. Qed.

(* ---------- the expiration of a run is set once, when the run begins ---------- *)

Lemma expi_q a b : same_but_q a b -> expi b = expi a.
Proof. unfold same_but_q. tauto. Qed.

Lemma expi_set_phase s n p m : expi (Rn (set_phase s n p) m) = expi (Rn s m).
Proof. rewrite ph_set_phase. destruct (Nat.eqb_spec m n) as [->|H]; reflexivity. Qed.

Lemma expi_exit_main c n w p s m : expi (Rn (fst (exit_main c n w p s)) m) = expi (Rn s m).
Proof. rewrite Rn_exit_main. apply expi_set_phase. Qed.

Lemma expi_end_cancelled c n s m : expi (Rn (fst (end_cancelled c n s)) m) = expi (Rn s m).
Proof.
  unfold end_cancelled. cbn [fst]. rewrite (expi_q _ _ (Rn_job_leave_q c n Cancelled _ m)). apply expi_set_phase.
Qed.

Lemma expi_finish_run c n w r cu s m : expi (Rn (fst (finish_run c n w r cu s)) m) = expi (Rn s m).
Proof.
  unfold finish_run. cbn [fst].
  match goal with |- context [job_leave c n ?x ?S0] => rewrite (expi_q _ _ (Rn_job_leave_q c n x S0 m)) end.
  cbn [Rn setR]. unfold upd. destruct (Nat.eqb_spec m n) as [->|H]; reflexivity.
Qed.

Lemma expi_react_main c n d s m : expi (Rn (fst (react_main c n d s)) m) = expi (Rn s m).
Proof.
  unfold react_main.
  assert (Hex : forall w l v, expi v = expi (Rn s n) ->
            expi (Rn (fst (exit_main c n w l (setR s n v))) m) = expi (Rn s m)).
  { intros w l v Hv. rewrite expi_exit_main. cbn [Rn setR]. unfold upd.
    destruct (Nat.eqb_spec m n) as [->|H]; [exact Hv|reflexivity]. }
  destruct d as [|d0 d']; [apply Hex; reflexivity|].
  destruct (existsb _ (d0 :: d')); [apply Hex; reflexivity|].
  destruct (Nat.eqb _ _); [apply Hex; reflexivity|].
  cbn [fst Rn setR mapJ]. unfold upd. destruct (Nat.eqb_spec m n) as [->|H]; reflexivity.
Qed.

Lemma expi_react_tidy c n s m : expi (Rn (fst (react_tidy c n s)) m) = expi (Rn s m).
Proof.
  unfold react_tidy. destruct (rcanc (Rn s n)); [apply expi_end_cancelled|].
  rewrite Rn_shutdown_start. apply expi_set_phase.
Qed.

Lemma expi_react_shut c n p cu s m : expi (Rn (fst (react_shut c n p cu s)) m) = expi (Rn s m).
Proof.
  unfold react_shut.
  pose proof (Rn_react_shut_wake c n p s) as E1.
  destruct (react_shut_wake c n p s) as [[s1 res] mo1]. cbn [fst] in E1.
  destruct res as [r|]; [|cbn [fst]; rewrite E1; reflexivity].
  destruct (sd_inline s n).
  - destruct (rcanc (Rn s n)).
    + pose proof (expi_end_cancelled c n s1 m) as H. destruct (end_cancelled c n s1) as [s2 mo2]. cbn [fst] in *.
      rewrite H, E1. reflexivity.
    + pose proof (expi_finish_run c n (why_of s n) r cu s1 m) as H.
      destruct (finish_run c n (why_of s n) r cu s1) as [s2 mo2]. cbn [fst] in *. rewrite H, E1. reflexivity.
  - cbn [fst]. rewrite Rn_hdone, E1. reflexivity.
Qed.

Lemma expi_react_shtidy c n cu s m : expi (Rn (fst (react_shtidy c n cu s)) m) = expi (Rn s m).
Proof.
  unfold react_shtidy, react_shtidy_wake. set (s1 := setS s n _).
  destruct (sd_inline s n).
  - destruct (rcanc (Rn s n)).
    + pose proof (expi_end_cancelled c n s1 m) as H. destruct (end_cancelled c n s1) as [s2 mo2]. cbn [fst] in *.
      rewrite H. reflexivity.
    + rewrite expi_finish_run. reflexivity.
  - reflexivity.
Qed.

Lemma expi_react_cancel_main c n s m : expi (Rn (fst (react_cancel_main c n s)) m) = expi (Rn s m).
Proof.
  unfold react_cancel_main. destruct (filter _ _) as [|u0 u'].
  - rewrite expi_end_cancelled, Rn_clear_cp. reflexivity.
  - cbn [fst Rn setR mapJ]. unfold upd. rewrite Rn_clear_cp. destruct (Nat.eqb_spec m n) as [->|H]; reflexivity.
Qed.

Lemma expi_react_cancel_tidy c n s m : expi (Rn (fst (react_cancel_tidy c n s)) m) = expi (Rn s m).
Proof.
  unfold react_cancel_tidy. cbn [fst Rn setR mapJ]. unfold upd. rewrite Rn_clear_cp.
  destruct (Nat.eqb_spec m n) as [->|H]; reflexivity.
Qed.

Lemma expi_react_cancel_ctidy c n s m : expi (Rn (fst (react_cancel_ctidy c n s)) m) = expi (Rn s m).
Proof. unfold react_cancel_ctidy. cbn [fst Rn mapJ]. rewrite Rn_clear_cp. reflexivity. Qed.

Lemma expi_react_cancel_shut c n s m : expi (Rn (fst (react_cancel_shut c n s)) m) = expi (Rn s m).
Proof.
  unfold react_cancel_shut, react_shut_cancel. destruct (sd_inline s n); cbn [fst Rn setS mapH setR clear_hcp setH].
  - unfold upd. rewrite Rn_clear_cp. destruct (Nat.eqb_spec m n) as [->|H]; reflexivity.
  - reflexivity.
Qed.

Lemma Rn_react_sdstart c n s : Rn (fst (react_sdstart c n s)) = Rn s.
Proof.
  unfold react_sdstart.
  destruct (shutdown_start c n false (setH s n (mkHst HRunning false None))) as [s1 mo] eqn:E.
  assert (E1 : Rn s1 = Rn s).
  { change s1 with (fst (s1, mo)). rewrite <- E, Rn_shutdown_start. reflexivity. }
  cbn [fst]. destruct (sp (Sd s1 n)), (did (Sd s n)); cbn [Rn setH]; exact E1.
Qed.

Lemma expi_react_begin c n s m :
  expi (Rn (fst (react_begin c n s)) m) =
  if Nat.eqb m n then optN_add (now s) (j_timeout (jc c n)) else expi (Rn s m).
Proof.
  unfold react_begin.
  set (s0 := if Nat.eqb n 0 then s else _).
  assert (H0 : forall q, expi (Rn s0 q) = expi (Rn s q)).
  { intros q. unfold s0. destruct (Nat.eqb n 0); [reflexivity|]. cbn [Rn setR setJ]. unfold upd.
    destruct (Nat.eqb_spec q (parent c n)) as [->|H]; reflexivity. }
  destruct (members c n) as [|m0 ms].
  - cbn [fst]. rewrite (expi_q _ _ (Rn_job_leave_q c n (DoneRet RVTrue) _ m)). cbn [Rn setR]. unfold upd.
    destruct (Nat.eqb m n); [reflexivity|apply H0].
  - cbn [fst Rn setR mapJ]. unfold upd. destruct (Nat.eqb m n); [reflexivity|apply H0].
Qed.

(* one lemma for all events: expiration and phase of run m *)
Lemma run_clock_step lvl c s e s' m : step lvl c s e = Some s' ->
  (expi (Rn s' m) = expi (Rn s m) /\ (ph (Rn s m) = PIdle -> ph (Rn s' m) = PIdle))
  \/ (exists o, e = EBegin m o /\ expi (Rn s' m) = optN_add (now s) (j_timeout (jc c m)) /\ sched_id c m = true).
Proof.
  intros Hs. destruct (step_inv _ _ _ _ _ Hs) as [Es' Hg].
  destruct e as [n o|n k d o|n k o|n o|j|j oc|j|j|j|j|j|j|j|j|t|t|jv sv]; cbn [reaction fst] in Es'.
  - destruct (Nat.eqb_spec m n) as [->|Hm].
    + right. exists o. split; [reflexivity|]. split.
      * rewrite Es', expi_react_begin, Nat.eqb_refl. reflexivity.
      * split_guards Hg. exact G.
    + left. rewrite Es', expi_react_begin, ph_react_begin. apply Nat.eqb_neq in Hm. rewrite Hm. auto.
  - left. destruct k; cbn [reaction fst] in Es'; rewrite Es'.
    + split; [apply expi_react_main|]. intros Hp.
      pose proof (HS_react_main c n d s) as H. cbn zeta in H. destruct H as (_ & Ho & _).
      destruct (Nat.eqb_spec m n) as [->|Hm]; [|rewrite (Ho m Hm); exact Hp].
      split_guards Hg. rewrite Hp in G0. discriminate.
    + split; [apply expi_react_tidy|]. intros Hp.
      pose proof (HS_react_tidy c n s) as H. cbn zeta in H. destruct H as (_ & Ho & _).
      destruct (Nat.eqb_spec m n) as [->|Hm]; [|rewrite (Ho m Hm); exact Hp].
      split_guards Hg. rewrite Hp in G0. discriminate.
    + split; [apply expi_end_cancelled|]. intros Hp. rewrite ph_end_cancelled.
      destruct (Nat.eqb_spec m n) as [->|Hm]; [|exact Hp].
      split_guards Hg. rewrite Hp in G0. discriminate.
    + split; [apply expi_react_shut|]. intros Hp.
      pose proof (HS_react_shut c n d (culprit_of o) s) as H. cbn zeta in H. destruct H as (_ & Ho & H).
      destruct (Nat.eqb_spec m n) as [->|Hm]; [|rewrite (Ho m Hm); exact Hp].
      assert (Ei : sd_inline s n = false) by (unfold sd_inline; rewrite Hp; reflexivity).
      destruct d as [|d0 d'].
      * destruct H as (_ & H). rewrite Ei in H. destruct H as [H _]. rewrite H. exact Hp.
      * destruct H as (H & _). rewrite H. exact Hp.
    + split; [apply expi_react_shtidy|]. intros Hp.
      pose proof (HS_react_shtidy c n (culprit_of o) s) as H. cbn zeta in H. destruct H as (_ & Ho & _ & H).
      destruct (Nat.eqb_spec m n) as [->|Hm]; [|rewrite (Ho m Hm); exact Hp].
      assert (Ei : sd_inline s n = false) by (unfold sd_inline; rewrite Hp; reflexivity).
      rewrite Ei in H. destruct H as [H _]. rewrite H. exact Hp.
  - left. destruct k; cbn [reaction fst] in Es'; rewrite Es'.
    + split; [apply expi_react_cancel_main|]. intros Hp. rewrite ph_react_cancel_main.
      destruct (Nat.eqb_spec m n) as [->|Hm]; [|exact Hp].
      split_guards Hg. rewrite Hp in G0. discriminate.
    + split; [apply expi_react_cancel_tidy|]. intros Hp. rewrite ph_react_cancel_tidy. exact Hp.
    + split; [apply expi_react_cancel_ctidy|]. intros Hp. rewrite ph_react_cancel_ctidy. exact Hp.
    + split; [apply expi_react_cancel_shut|]. intros Hp.
      pose proof (HS_react_cancel_shut c n s) as H. cbn zeta in H. destruct H as (_ & Ho & _). rewrite Ho. exact Hp.
    + split; [apply expi_react_cancel_shut|]. intros Hp.
      pose proof (HS_react_cancel_shut c n s) as H. cbn zeta in H. destruct H as (_ & Ho & _). rewrite Ho. exact Hp.
  - left. rewrite Es', Rn_react_sdstart. auto.
  - left. rewrite Es'. unfold eff_start. rewrite (expi_q _ _ (Rn_bump_q_q _ _ _ m)), ph_bump_q. auto.
  - left. rewrite Es'. unfold eff_finish. rewrite (expi_q _ _ (Rn_bump_q_q _ _ _ m)), ph_bump_q. auto.
  - left. rewrite Es'. auto.
  - left. rewrite Es'. unfold eff_cancel_over. rewrite (expi_q _ _ (Rn_bump_q_q _ _ _ m)), ph_bump_q. auto.
  - left. rewrite Es'. unfold eff_cancel_over. rewrite (expi_q _ _ (Rn_bump_q_q _ _ _ m)), ph_bump_q. auto.
  - left. rewrite Es'. auto.
  - left. rewrite Es'. auto.
  - left. rewrite Es'. auto.
  - left. rewrite Es'. auto.
  - left. rewrite Es'. auto.
  - left. rewrite Es'. auto.
  - left. rewrite Es'. auto.
  - left. rewrite Es'. auto.
Qed.

(* ---------- the clock ---------- *)

Definition is_tick (e : event) : bool := match e with ETick _ | EGrace _ => true | _ => false end.

Lemma now_step lvl c s e s' : wf c = true -> step lvl c s e = Some s' -> is_tick e = false -> now s' = now s.
Proof.
  intros W Hs Ht. destruct (step_inv _ _ _ _ _ Hs) as [Es' _].
  destruct e as [n o|n k d o|n k o|n o|j|j oc|j|j|j|j|j|j|j|j|t|t|jv sv]; cbn [reaction fst] in Es';
    try discriminate; try (rewrite Es'; reflexivity).
  - destruct (HS_react_begin c n s) as (_ & _ & H). rewrite Es'. exact H.
  - destruct k; cbn [reaction fst] in Es'; rewrite Es'.
    + pose proof (HS_react_main c n d s) as H. cbn zeta in H. tauto.
    + pose proof (HS_react_tidy c n s) as H. cbn zeta in H. tauto.
    + apply now_end_cancelled.
    + pose proof (HS_react_shut c n d (culprit_of o) s) as H. cbn zeta in H. tauto.
    + pose proof (HS_react_shtidy c n (culprit_of o) s) as H. cbn zeta in H. tauto.
  - destruct k; cbn [reaction fst] in Es'; rewrite Es'.
    + destruct (HS_react_cancel_main c n s) as (_ & _ & H). exact H.
    + destruct (HS_react_cancel_tidy c n s) as (_ & _ & H). exact H.
    + destruct (HS_react_cancel_ctidy c n s) as (_ & _ & H). exact H.
    + pose proof (HS_react_cancel_shut c n s) as H. cbn zeta in H. tauto.
    + pose proof (HS_react_cancel_shut c n s) as H. cbn zeta in H. tauto.
  - pose proof (HS_react_sdstart c n s W) as H. cbn zeta in H. rewrite Es'. tauto.
Qed.

Lemma In_deadlines_job c s j d : j < njobs c -> j_sched (jc c j) = false ->
  (st (Jb s j) = Running \/ st (Jb s j) = Cancelling) -> tend (Jb s j) = Some d -> (now s < d)%N ->
  In d (deadlines c s).
Proof.
  intros Hj Ha Hst Ht Hlt. unfold deadlines. apply in_or_app. left. apply in_flat_map.
  exists j. split; [apply In_all_ids; exact Hj|]. apply in_or_app. left.
  assert (Hf : future s (tend (Jb s j)) = [d]).
  { unfold future. rewrite Ht. apply N.ltb_lt in Hlt. rewrite Hlt. reflexivity. }
  destruct Hst as [E|E]; rewrite E, ?Ha, Hf; left; reflexivity.
Qed.

Lemma In_deadlines_run c s n d : sched_id c n = true -> ph (Rn s n) = PMain -> expi (Rn s n) = Some d ->
  (now s < d)%N -> In d (deadlines c s).
Proof.
  intros Hs Hp He Hlt. unfold deadlines. apply in_or_app. right. apply in_flat_map.
  unfold sched_id in Hs. apply andb_true_iff in Hs. destruct Hs as [Hs1 Hs2]. apply Nat.ltb_lt in Hs2.
  exists n. split; [unfold scheds; apply filter_In; split; [apply In_all_ids; exact Hs2|exact Hs1]|].
  apply in_or_app. left. rewrite Hp. unfold future. rewrite He. apply N.ltb_lt in Hlt. rewrite Hlt. left. reflexivity.
Qed.

Lemma In_deadlines_handler c s j d : j < njobs c -> j_sched (jc c j) = false ->
  hs (Hd s j) = HRunning -> hend (Hd s j) = Some d -> (now s < d)%N -> In d (deadlines c s).
Proof.
  intros Hj Ha Hst Ht Hlt. unfold deadlines. apply in_or_app. left. apply in_flat_map.
  exists j. split; [apply In_all_ids; exact Hj|]. apply in_or_app. right.
  rewrite Hst, Ha. unfold future. rewrite Ht. apply N.ltb_lt in Hlt. rewrite Hlt. left. reflexivity.
Qed.

Lemma In_deadlines_sd c s n d : sched_id c n = true -> sp (Sd s n) = SdWait -> sdl (Sd s n) = Some d ->
  (now s < d)%N -> In d (deadlines c s).
Proof.
  intros Hs Hp He Hlt. unfold deadlines. apply in_or_app. right. apply in_flat_map.
  unfold sched_id in Hs. apply andb_true_iff in Hs. destruct Hs as [Hs1 Hs2]. apply Nat.ltb_lt in Hs2.
  exists n. split; [unfold scheds; apply filter_In; split; [apply In_all_ids; exact Hs2|exact Hs1]|].
  apply in_or_app. right. rewrite Hp. unfold future. rewrite He. apply N.ltb_lt in Hlt. rewrite Hlt. left. reflexivity.
Qed.

(* what a clock event guarantees (level 2): the state is quiescent and no live deadline lies
   strictly before the new instant *)
Lemma tick_guards lvl c s e s' : 2 <= lvl -> step lvl c s e = Some s' -> is_tick e = true ->
  Jb s' = Jb s /\ Hd s' = Hd s /\ Rn s' = Rn s /\ Sd s' = Sd s /\ (now s < now s')%N /\
  quiescent c s = true /\ (forall d, In d (deadlines c s) -> (now s' <= d)%N).
Proof.
  intros Hl Hs Ht. destruct (step_inv _ _ _ _ _ Hs) as [Es' Hg].
  destruct e; try discriminate; cbn [reaction fst] in Es'; subst s'; cbn [Jb Hd Rn Sd now setNow].
  - cbn [forallb guards] in Hg. rewrite !andb_true_iff in Hg. destruct Hg as (G1 & G2 & G3 & _).
    rewrite holds_0 in G1. rewrite holds_ge in G2, G3 by lia. apply N.ltb_lt in G1.
    repeat split; auto. intros d Hd. destruct (minN (deadlines c s)) as [m|] eqn:Em; [|discriminate].
    apply N.eqb_eq in G3. subst m. apply (minN_le _ _ Em d Hd).
  - cbn [forallb guards] in Hg. rewrite !andb_true_iff in Hg. destruct Hg as (G1 & G2 & G3 & G4 & _).
    rewrite holds_0 in G1. rewrite holds_ge in G3, G4 by lia. apply N.ltb_lt in G1.
    repeat split; auto. intros d Hd. destruct (minN (deadlines c s)) as [m|] eqn:Em; [discriminate|].
    apply minN_none in Em. rewrite Em in Hd. destruct Hd.
Qed.

(* ---------- level 2: bodies and timeouts ---------- *)

Record InvT (c : cfg) (s : state) : Prop := {
  t_validj : forall j, st (Jb s j) <> Idle -> j < njobs c;
  t_validr : forall n, ph (Rn s n) <> PIdle -> sched_id c n = true;
  t_job : forall j, j_sched (jc c j) = false -> (st (Jb s j) = Running \/ st (Jb s j) = Cancelling) ->
                    dl_ok s (tend (Jb s j));
  t_run : forall n, ph (Rn s n) = PMain -> dl_ok s (expi (Rn s n))
}.

Lemma InvT_init c : InvT c init.
Proof.
  split.
  - intros j H. exfalso. apply H. reflexivity.
  - intros n H. exfalso. apply H. reflexivity.
  - intros j _ [H|H]; discriminate.
  - intros n H. discriminate.
Qed.

Lemma main_from lvl c s e s' m : wf c = true -> Inv1 c s -> step lvl c s e = Some s' ->
  ph (Rn s' m) = PMain -> ph (Rn s m) = PMain \/ ph (Rn s m) = PIdle.
Proof.
  intros W I1 Hs Hp.
  destruct (R_effect lvl c s e s' W (i_pend c s I1) Hs m)
    as [Hq _|Ha Hpre _ _ _ _ _ _ _ _ _ _ _ _|Ha _ _ _ _ _ Hk _ _ _].
  - destruct Hq as [Hq _]. left. rewrite <- Hq. exact Hp.
  - right. destruct (rootb m) eqn:Er; [exact Hpre|]. apply rootb_false in Er. apply (i_l1 c s I1 m Er). auto.
  - left. destruct (phase_eq_dec (ph (Rn s m)) PMain) as [E|E]; [exact E|]. exfalso. apply (Hk E). exact Hp.
Qed.

Lemma InvT_step lvl c s e s' : wf c = true -> 2 <= lvl -> Inv1 c s -> InvT c s ->
  step lvl c s e = Some s' -> InvT c s'.
Proof.
  intros W Hl I1 IT Hs. destruct (is_tick e) eqn:Et.
  - destruct (tick_guards lvl c s e s' Hl Hs Et) as (EJ & EH & ER & ES & Hlt & Hq & Hdl).
    split.
    + intros j. rewrite EJ. apply (t_validj c s IT).
    + intros n. rewrite ER. apply (t_validr c s IT).
    + intros j Ha Hst. rewrite EJ in *. pose proof (t_job c s IT j Ha Hst) as Hpre.
      destruct (tend (Jb s j)) as [d|] eqn:Ed; [|exact I]. cbn in *.
      assert (Hj : j < njobs c).
      { apply (t_validj c s IT). destruct Hst as [E|E]; rewrite E; discriminate. }
      destruct (N.eq_dec (now s) d) as [E|E].
      * exfalso. pose proof (quiescent_job c s j Hq Hj) as Hen. unfold job_enabled in Hen. cbn zeta in Hen.
        assert (Ho : opt_le_now s (tend (Jb s j)) = true).
        { rewrite Ed. cbn. apply N.leb_le. lia. }
        destruct Hst as [E1|E1]; rewrite E1, ?Ha, Ho, orb_true_r in Hen; discriminate.
      * apply Hdl. apply (In_deadlines_job c s j d Hj Ha Hst Ed). lia.
    + intros n Hp. rewrite ER in *. pose proof (t_run c s IT n Hp) as Hpre.
      destruct (expi (Rn s n)) as [d|] eqn:Ed; [|exact I]. cbn in *.
      assert (Hv : sched_id c n = true) by (apply (t_validr c s IT); rewrite Hp; discriminate).
      destruct (N.eq_dec (now s) d) as [E|E].
      * exfalso. unfold sched_id in Hv. apply andb_true_iff in Hv. destruct Hv as [Hs1 Hs2]. apply Nat.ltb_lt in Hs2.
        pose proof (quiescent_run c s n Hq Hs2 Hs1) as Hen. unfold run_enabled in Hen. rewrite Hp, Ed in Hen.
        cbn [opt_le_now] in Hen. assert (Ho : N.leb d (now s) = true) by (apply N.leb_le; lia).
        rewrite Ho, orb_true_r in Hen. discriminate.
      * apply Hdl. apply (In_deadlines_run c s n d Hv Hp Ed). lia.
  - pose proof (now_step lvl c s e s' W Hs Et) as En. split.
    + intros j Hj.
      destruct (J_effect lvl c s e s' W (i_pend c s I1) Hs j)
        as [H|H1 H2|HS H1 H2 H3 H4 H5|H1 H2 H3 H4 H5 H6 H7|H1 H2 H3 H4 H5 H6|HS H1 H2 H3 H4 H5 H6|HS H1 H2 H3 H4 H5|HS H1 H2 H3 H4 H5 H6|HS H1 H2 H3 H4 H5 H6 H7|HS H1 H2|HS H1 H2 H3].
      * apply (t_validj c s IT). rewrite <- H. exact Hj.
      * apply (t_validj c s IT). rewrite H1, cancel_j_st in Hj. exact Hj.
      * apply (t_validj c s IT). rewrite H1. discriminate.
      * apply In_members in H4. tauto.
      * apply In_members in H3. tauto.
      * apply (t_validj c s IT). rewrite H1. discriminate.
      * apply (t_validj c s IT). rewrite H1. discriminate.
      * apply (t_validj c s IT). rewrite H1. discriminate.
      * apply (t_validj c s IT). rewrite H1. discriminate.
      * apply (t_validj c s IT). destruct H1 as [E|(E & _)]; rewrite E; discriminate.
      * apply (t_validj c s IT). rewrite H1. discriminate.
    + intros n Hp. destruct (run_clock_step lvl c s e s' n Hs) as [[_ Hi]|(o & _ & _ & Hv)]; [|exact Hv].
      apply (t_validr c s IT). intro E. apply Hp. apply Hi. exact E.
    + intros j Ha Hst. unfold dl_ok.
      destruct (J_effect lvl c s e s' W (i_pend c s I1) Hs j)
        as [H|H1 H2|HS H1 H2 H3 H4 H5|H1 H2 H3 H4 H5 H6 H7|H1 H2 H3 H4 H5 H6|HS H1 H2 H3 H4 H5 H6|HS H1 H2 H3 H4 H5|HS H1 H2 H3 H4 H5 H6|HS H1 H2 H3 H4 H5 H6 H7|HS H1 H2|HS H1 H2 H3].
      * rewrite H in *. pose proof (t_job c s IT j Ha Hst) as Hpre. unfold dl_ok in Hpre. rewrite En. exact Hpre.
      * rewrite H1 in *. rewrite cancel_j_st in Hst. pose proof (t_job c s IT j Ha Hst) as Hpre.
        unfold cancel_j. destruct (finished (st (Jb s j))); cbn [tend]; unfold dl_ok in Hpre; rewrite En; exact Hpre.
      * congruence.
      * rewrite H2 in Hst. destruct Hst; discriminate.
      * rewrite H1 in Hst. destruct Hst; discriminate.
      * rewrite H6. destruct (j_sched (jc c j)); [exact I|]. apply (dl_ok_add s s' _ En).
      * rewrite H5 in Hst. destruct Hst; discriminate.
      * destruct Hst as [E|E]; rewrite E in H3; discriminate.
      * rewrite H7. cbn. rewrite En. lia.
      * rewrite H2 in Hst. destruct Hst; discriminate.
      * rewrite H3 in Hst. destruct Hst; discriminate.
    + intros n Hp. destruct (run_clock_step lvl c s e s' n Hs) as [[He Hi]|(o & _ & He & _)].
      * rewrite He. destruct (main_from lvl c s e s' n W I1 Hs Hp) as [E|E].
        -- pose proof (t_run c s IT n E) as Hpre. unfold dl_ok in *. rewrite En. exact Hpre.
        -- rewrite (Hi E) in Hp. discriminate.
      * rewrite He. apply (dl_ok_add s s' _ En).
Qed.

Theorem InvT_reach lvl c h s : wf c = true -> 2 <= lvl -> Reach lvl c h s -> InvT c s.
Proof.
  intros W Hl Hr. revert h s Hr. apply reach_ind.
  - apply InvT_init.
  - intros h s e s' Hr IT Hs. eapply InvT_step; eauto. eapply Inv1_reach; eauto.
Qed.

(* ---------- level 3: handlers and the shutdown wait ---------- *)

Record InvT3 (c : cfg) (s : state) : Prop := {
  t_validh : forall j, hs (Hd s j) <> HNone -> j < njobs c;
  t_hd : forall j, j_sched (jc c j) = false -> hs (Hd s j) = HRunning -> dl_ok s (hend (Hd s j));
  t_sd : forall n, sp (Sd s n) = SdWait -> dl_ok s (sdl (Sd s n))
}.

Lemma InvT3_init c : InvT3 c init.
Proof.
  split.
  - intros j H. exfalso. apply H. reflexivity.
  - intros j _ H. discriminate.
  - intros n H. discriminate.
Qed.

Lemma quiescent_handler c s x : quiescent c s = true -> x < njobs c -> handler_enabled c s x = false.
Proof.
  intros Hq Hx. unfold quiescent in Hq. apply andb_true_iff in Hq. destruct Hq as [Hq _].
  rewrite forallb_forall in Hq. specialize (Hq x (proj2 (In_all_ids c x) Hx)).
  apply andb_true_iff in Hq. destruct Hq as [_ Hq]. apply negb_true_iff in Hq. exact Hq.
Qed.

Lemma quiescent_sdtask c s n : quiescent c s = true -> n < njobs c -> j_sched (jc c n) = true ->
  sdtask_enabled c s n = false.
Proof.
  intros Hq Hn Hs. unfold quiescent in Hq. apply andb_true_iff in Hq. destruct Hq as [_ Hq].
  rewrite forallb_forall in Hq.
  assert (Hin : In n (scheds c)).
  { unfold scheds. apply filter_In. split; [apply In_all_ids; exact Hn|exact Hs]. }
  specialize (Hq n Hin). apply andb_true_iff in Hq. destruct Hq as [_ Hq]. apply negb_true_iff in Hq. exact Hq.
Qed.

Lemma InvT3_step lvl c s e s' : wf c = true -> 3 <= lvl -> InvE c s -> InvT3 c s ->
  step lvl c s e = Some s' -> InvT3 c s'.
Proof.
  intros W Hl [ID I8] IT Hs.
  pose proof (ic_1 c s (id_c c s ID)) as I1.
  destruct (is_tick e) eqn:Et.
  - assert (Hl2 : 2 <= lvl) by lia.
    destruct (tick_guards lvl c s e s' Hl2 Hs Et) as (EJ & EH & ER & ES & Hlt & Hq & Hdl).
    split.
    + intros j. rewrite EH. apply (t_validh c s IT).
    + intros j Ha Hr. rewrite EH in *. pose proof (t_hd c s IT j Ha Hr) as Hpre.
      destruct (hend (Hd s j)) as [d|] eqn:Ed; [|exact I]. cbn in *.
      assert (Hj : j < njobs c) by (apply (t_validh c s IT); rewrite Hr; discriminate).
      destruct (N.eq_dec (now s) d) as [E|E].
      * exfalso. pose proof (quiescent_handler c s j Hq Hj) as Hen. unfold handler_enabled in Hen. cbn zeta in Hen.
        rewrite Hr, Ha, Ed in Hen. cbn [opt_le_now] in Hen.
        assert (Ho : N.leb d (now s) = true) by (apply N.leb_le; lia). rewrite Ho, orb_true_r in Hen. discriminate.
      * apply Hdl. apply (In_deadlines_handler c s j d Hj Ha Hr Ed). lia.
    + intros n Hp. rewrite ES in *. pose proof (t_sd c s IT n Hp) as Hpre.
      destruct (sdl (Sd s n)) as [d|] eqn:Ed; [|exact I]. cbn in *.
      assert (Hv : sched_id c n = true).
      { apply (k_valid c s I8). apply (active_did c s n I8). left. exact Hp. }
      destruct (N.eq_dec (now s) d) as [E|E].
      * exfalso. pose proof Hv as Hv'. unfold sched_id in Hv'. apply andb_true_iff in Hv'.
        destruct Hv' as [Hs1 Hs2]. apply Nat.ltb_lt in Hs2.
        assert (Hsd : forall b, sd_enabled c s n b = true).
        { intros b. unfold sd_enabled. cbn zeta. rewrite Hp, Ed. cbn [opt_le_now].
          assert (Ho : N.leb d (now s) = true) by (apply N.leb_le; lia). rewrite Ho, orb_true_r. reflexivity. }
        destruct (k_thread c s I8 n (or_introl Hp)) as [Hi|Hr].
        -- pose proof (quiescent_run c s n Hq Hs2 Hs1) as Hen. unfold run_enabled in Hen. cbn zeta in Hen.
           unfold sd_inline in Hi. destruct (ph (Rn s n)); try discriminate. rewrite Hsd in Hen. discriminate.
        -- pose proof (quiescent_sdtask c s n Hq Hs2 Hs1) as Hen. unfold sdtask_enabled in Hen.
           rewrite Hr, Hsd in Hen. discriminate.
      * apply Hdl. apply (In_deadlines_sd c s n d Hv Hp Ed). lia.
  - pose proof (now_step lvl c s e s' W Hs Et) as En.
    pose proof (HS_effect lvl c s e s' W I1 Hl Hs) as HS.
    split.
    + intros j Hj.
      destruct (hd_view c s s' j W I8 HS) as [H|n1 H1 H2 H3 H4|H1 H2 H3 H4|H1 H2 H3 H4 H5|H1 H2 H3 H4 H5 H6|v H1 H2].
      * apply (t_validh c s IT). rewrite <- H. exact Hj.
      * apply In_members in H1. tauto.
      * apply (t_validh c s IT). exact H4.
      * unfold sched_id in H1. apply andb_true_iff in H1. destruct H1 as [_ H1]. apply Nat.ltb_lt in H1. exact H1.
      * apply (t_validh c s IT). rewrite H1. discriminate.
      * destruct H2 as [(Ha & _)|[(Ha & _)|[(Ha & _)|(Ha & _)]]]; try exact Ha;
          destruct (atomic_id_spec _ _ Ha) as (_ & Ha2 & _); exact Ha2.
    + intros j Ha Hr. unfold dl_ok.
      destruct (hd_view c s s' j W I8 HS) as [H|n1 H1 H2 H3 H4|H1 H2 H3 H4|H1 H2 H3 H4 H5|H1 H2 H3 H4 H5 H6|v H1 H2].
      * rewrite H in *. pose proof (t_hd c s IT j Ha Hr) as Hpre. unfold dl_ok in Hpre. rewrite En. exact Hpre.
      * rewrite H4 in Hr. discriminate.
      * rewrite H1 in Hr. rewrite H2. pose proof (t_hd c s IT j Ha Hr) as Hpre. unfold dl_ok in Hpre. rewrite En. exact Hpre.
      * destruct H5 as [[E _]|[E _]]; rewrite E; exact I.
      * destruct H6 as [E|E]; rewrite E in Hr; discriminate.
      * rewrite H1 in *. destruct H2 as [(_ & _ & _ & ->)|[(_ & _ & _ & ->)|[(_ & _ & _ & ->)|(_ & _ & _ & ->)]]];
          try discriminate. cbn [hend]. apply (dl_ok_add s s' _ En).
    + intros n Hp. unfold dl_ok.
      assert (Hpre : Sd s' n = Sd s n -> match sdl (Sd s' n) with Some x => (now s' <= x)%N | None => True end).
      { intros E. rewrite E in *. pose proof (t_sd c s IT n Hp) as Hq. unfold dl_ok in Hq. rewrite En. exact Hq. }
      pose proof HS as H. hs_cases H.
      * apply Hpre. apply hB.
      * destruct (Nat.eqb_spec n n0) as [->|Hm].
        -- pose proof (hB n0) as E. unfold sd_create in E. rewrite Nat.eqb_refl in E.
           destruct (did (Sd s n0)); [apply Hpre; exact E|]. rewrite E. unfold sd_started.
           destruct (members c n0); cbn [sdl]; [exact I|]. apply (dl_ok_add s s' _ En).
        -- apply Hpre. rewrite hB. unfold sd_create. apply Nat.eqb_neq in Hm. rewrite Hm. reflexivity.
      * destruct (Nat.eqb_spec n n0) as [->|Hm].
        -- pose proof (hB n0) as E. unfold sd_create in E. rewrite Nat.eqb_refl in E.
           destruct (did (Sd s n0)); [apply Hpre; exact E|]. rewrite E. unfold sd_started.
           destruct (members c n0); cbn [sdl]; [exact I|]. apply (dl_ok_add s s' _ En).
        -- apply Hpre. rewrite hB. unfold sd_create. apply Nat.eqb_neq in Hm. rewrite Hm. reflexivity.
      * destruct (Nat.eqb_spec n n0) as [->|Hm].
        -- rewrite hB, Nat.eqb_refl in Hp. discriminate.
        -- apply Hpre. rewrite hB. apply Nat.eqb_neq in Hm. rewrite Hm. reflexivity.
      * destruct (Nat.eqb_spec n n0) as [->|Hm].
        -- rewrite hB, Nat.eqb_refl in Hp. discriminate.
        -- apply Hpre. rewrite hB. apply Nat.eqb_neq in Hm. rewrite Hm. reflexivity.
      * destruct (Nat.eqb_spec n n0) as [->|Hm].
        -- rewrite hB, Nat.eqb_refl in Hp. discriminate.
        -- apply Hpre. rewrite hB. apply Nat.eqb_neq in Hm. rewrite Hm. reflexivity.
      * destruct (Nat.eqb_spec n n0) as [->|Hm].
        -- rewrite hB, Nat.eqb_refl in Hp. discriminate.
        -- apply Hpre. rewrite hB. apply Nat.eqb_neq in Hm. rewrite Hm. reflexivity.
      * apply Hpre. apply hB.
Qed.

Theorem InvT3_reach lvl c h s : wf c = true -> 3 <= lvl -> Reach lvl c h s -> InvT3 c s.
Proof.
  intros W Hl Hr. revert h s Hr. apply reach_ind.
  - apply InvT3_init.
  - intros h s e s' Hr IT Hs. eapply InvT3_step; eauto. eapply InvE_reach; eauto.
Qed.
