(* Bookkeeping of the main loop: what has been reported (seen), what is pending, the counter of
   finished non-forever jobs, and what the exit path (why) says about them. *)
From AJ Require Import Common.Util Run.RModel Run.RFacts Run.RFacts2 Run.RInv Run.RInv2.

Definition ph_nocrit (p : phase) : Prop :=
  p = PMain \/ p = PTidy WSuccess \/ p = PShut WSuccess \/ p = PTidy WTimeout \/ p = PShut WTimeout.
Definition ph_counts (p : phase) : Prop := ph_nocrit p.
Definition cover_ph (p : phase) : Prop := p = PMain \/ (exists w, p = PTidy w) \/ (exists w, p = PShut w).
Definition ph_open (p : phase) : Prop := p = PMain \/ p = PTidy WTimeout \/ p = PShut WTimeout.
Definition ph_succ (p : phase) : Prop := p = PTidy WSuccess \/ p = PShut WSuccess.
Definition ph_crit (p : phase) : Prop := p = PTidy WCritical \/ p = PShut WCritical.

Record Inv5 (c : cfg) (s : state) : Prop := {
  b_seen_nd : forall n, NoDup (seen (Rn s n));
  b_seen_done : forall n x, In x (seen (Rn s n)) -> In x (members c n) /\ is_done (st (Jb s x)) = true;
  b_pend_nd : forall n, NoDup (pend (Rn s n));
  b_disj : forall n x, In x (pend (Rn s n)) -> ~ In x (seen (Rn s n));
  b_pend_live : forall n x, In x (pend (Rn s n)) -> st (Jb s x) <> Idle;
  b_count : forall n, ph_counts (ph (Rn s n)) -> ndone (Rn s n) = nonforever c (seen (Rn s n));
  b_nocrit : forall n, ph_nocrit (ph (Rn s n)) -> forall x, In x (seen (Rn s n)) -> crit_exc c s x = false;
  b_succ : forall n, ph_succ (ph (Rn s n)) -> ndone (Rn s n) = nfinite c n;
  b_crit : forall n, ph_crit (ph (Rn s n)) -> exists x, In x (seen (Rn s n)) /\ crit_exc c s x = true;
  b_cover : forall n x, cover_ph (ph (Rn s n)) -> In x (members c n) -> st (Jb s x) <> Idle ->
                        In x (pend (Rn s n)) \/ In x (seen (Rn s n));
  b_eager : forall n x, ph (Rn s n) = PMain -> In x (members c n) -> st (Jb s x) = Idle ->
                        exists r, In r (reqs c x) /\ ~ In r (seen (Rn s n));
  b_open : forall n, ph_open (ph (Rn s n)) -> nfinite c n <> 0 -> ndone (Rn s n) <> nfinite c n
}.

Lemma Inv5_init c : Inv5 c init.
Proof.
  split.
  - intros n. constructor.
  - intros n x [].
  - intros n. constructor.
  - intros n x [].
  - intros n x [].
  - intros n [H|[H|[H|[H|H]]]]; discriminate.
  - intros n _ x [].
  - intros n [H|H]; discriminate.
  - intros n [H|H]; discriminate.
  - intros n x [H|[[w H]|[w H]]]; discriminate.
  - intros n x H. discriminate.
  - intros n [H|[H|H]]; discriminate.
Qed.

(* ---------- stability facts from the J-effect ---------- *)

Lemma not_idle_stable lvl c s e s' x : wf c = true -> Inv1 c s -> step lvl c s e = Some s' ->
  st (Jb s x) <> Idle -> st (Jb s' x) <> Idle.
Proof.
  intros W I Hs Hx.
  destruct (J_effect lvl c s e s' W (i_pend c s I) Hs x)
    as [H|H1 H2|HS H1 H2 H3 H4|H1 H2 H3 H4 H5 H6 H7|H1 H2 H3 H4 H5 H6|HS H1 H2 H3 H4 H5|HS H1 H2 H3 H4 H5|HS H1 H2 H3 H4 H5|HS H1 H2 H3 H4 H5 H6|HS H1 H2|HS H1 H2 H3].
  - rewrite H. exact Hx.
  - rewrite H1, cancel_j_st. exact Hx.
  - rewrite H4. discriminate.
  - contradiction.
  - rewrite H1. discriminate.
  - rewrite H3. discriminate.
  - rewrite H5. discriminate.
  - destruct (st (Jb s' x)); cbn in H3; try discriminate.
  - rewrite H4. discriminate.
  - rewrite H2. discriminate.
  - rewrite H3. discriminate.
Qed.

Lemma idle_back lvl c s e s' x : wf c = true -> Inv1 c s -> step lvl c s e = Some s' ->
  st (Jb s' x) = Idle -> st (Jb s x) = Idle.
Proof.
  intros W I Hs Hx. destruct (st (Jb s x)) eqn:E; try reflexivity;
    exfalso; apply (not_idle_stable lvl c s e s' x W I Hs); try exact Hx; rewrite E; discriminate.
Qed.

Lemma crit_exc_stable lvl c s e s' x : wf c = true -> Inv1 c s -> step lvl c s e = Some s' ->
  is_done (st (Jb s x)) = true -> crit_exc c s' x = crit_exc c s x.
Proof.
  intros W I Hs Hd. unfold crit_exc.
  rewrite (finished_stable lvl c s e s' x W I Hs); [reflexivity|]. apply done_finished. exact Hd.
Qed.

(* a job that became non-idle in this step sits in the pending list of its scheduler *)
Lemma newly_live_pending lvl c s e s' x : wf c = true -> Inv1 c s -> step lvl c s e = Some s' ->
  st (Jb s x) = Idle -> st (Jb s' x) <> Idle -> In x (pend (Rn s' (parent c x))).
Proof.
  intros W I Hs Hi Hx.
  destruct (J_effect lvl c s e s' W (i_pend c s I) Hs x)
    as [H|H1 H2|HS H1 H2 H3 H4|H1 H2 H3 H4 H5 H6 H7|H1 H2 H3 H4 H5 H6|HS H1 H2 H3 H4 H5|HS H1 H2 H3 H4 H5|HS H1 H2 H3 H4 H5|HS H1 H2 H3 H4 H5 H6|HS H1 H2|HS H1 H2 H3];
    try (rewrite Hi in H1; discriminate); auto.
  - rewrite H, Hi in Hx. contradiction.
  - rewrite H1, cancel_j_st, Hi in Hx. contradiction.
  - destruct H1 as [H1|[H1 _]]; rewrite Hi in H1; discriminate.
Qed.

Lemma nonforever_app c l1 l2 : nonforever c (l1 ++ l2) = nonforever c l1 + nonforever c l2.
Proof. unfold nonforever. rewrite filter_app, app_length. reflexivity. Qed.

Lemma seteqb_spec l1 l2 : seteqb l1 l2 = true -> forall x, In x l1 <-> In x l2.
Proof.
  unfold seteqb, subsetb. rewrite andb_true_iff, !forallb_forall. intros [A B] x.
  split; intros H; apply memb_In; auto.
Qed.

(* ---------- the step ---------- *)

Definition inv5_at (c : cfg) (s : state) (n : nat) : Prop :=
  NoDup (seen (Rn s n)) /\
  (forall x, In x (seen (Rn s n)) -> In x (members c n) /\ is_done (st (Jb s x)) = true) /\
  NoDup (pend (Rn s n)) /\
  (forall x, In x (pend (Rn s n)) -> ~ In x (seen (Rn s n))) /\
  (forall x, In x (pend (Rn s n)) -> st (Jb s x) <> Idle) /\
  (ph_counts (ph (Rn s n)) -> ndone (Rn s n) = nonforever c (seen (Rn s n))) /\
  (ph_nocrit (ph (Rn s n)) -> forall x, In x (seen (Rn s n)) -> crit_exc c s x = false) /\
  (ph_succ (ph (Rn s n)) -> ndone (Rn s n) = nfinite c n) /\
  (ph_crit (ph (Rn s n)) -> exists x, In x (seen (Rn s n)) /\ crit_exc c s x = true) /\
  (forall x, cover_ph (ph (Rn s n)) -> In x (members c n) -> st (Jb s x) <> Idle ->
             In x (pend (Rn s n)) \/ In x (seen (Rn s n))) /\
  (forall x, ph (Rn s n) = PMain -> In x (members c n) -> st (Jb s x) = Idle ->
             exists r, In r (reqs c x) /\ ~ In r (seen (Rn s n))) /\
  (ph_open (ph (Rn s n)) -> nfinite c n <> 0 -> ndone (Rn s n) <> nfinite c n).

Lemma Inv5_at c s n : Inv5 c s -> inv5_at c s n.
Proof.
  intros [B1 B2 B3 B4 B5 B6 B7 B8 B9 B10 B11 B12]. unfold inv5_at.
  split; [apply B1|]. split; [apply B2|]. split; [apply B3|]. split; [apply B4|].
  split; [apply B5|]. split; [apply B6|]. split; [apply B7|]. split; [apply B8|].
  split; [apply B9|]. split; [intros x; apply B10|]. split; [intros x; apply B11|apply B12].
Qed.

Lemma Inv5_of_at c s : (forall n, inv5_at c s n) -> Inv5 c s.
Proof.
  intros H. split; intros n; destruct (H n) as (A1 & A2 & A3 & A4 & A5 & A6 & A7 & A8 & A9 & A10 & A11 & A12); auto.
Qed.

Section Step.
  Variables (lvl : nat) (c : cfg) (s s' : state) (e : event).
  Hypothesis W : wf c = true.
  Hypothesis I1 : Inv1 c s.
  Hypothesis I4 : Inv4 c s.
  Hypothesis I5 : Inv5 c s.
  Hypothesis Hs : step lvl c s e = Some s'.

  Let seen_stay n x : In x (seen (Rn s n)) ->
    is_done (st (Jb s' x)) = true /\ crit_exc c s' x = crit_exc c s x /\ In x (members c n).
  Proof.
    intros Hx. destruct (b_seen_done c s I5 n x Hx) as [Hm Hd].
    rewrite (finished_stable lvl c s e s' x W I1 Hs) by (apply done_finished; exact Hd).
    split; [exact Hd|]. split; [|exact Hm]. apply (crit_exc_stable lvl c s e s' x W I1 Hs Hd).
  Qed.

  (* the run record of n is untouched, or only filtered: everything carries over *)
  Lemma inv5_keep n f :
    seen (Rn s' n) = seen (Rn s n) -> ndone (Rn s' n) = ndone (Rn s n) ->
    pend (Rn s' n) = filter f (pend (Rn s n)) ->
    (ph_nocrit (ph (Rn s' n)) -> ph_nocrit (ph (Rn s n))) ->
    (ph_succ (ph (Rn s' n)) -> ph_succ (ph (Rn s n))) ->
    (ph_crit (ph (Rn s' n)) -> ph_crit (ph (Rn s n))) ->
    (ph (Rn s' n) = PMain -> ph (Rn s n) = PMain) ->
    (cover_ph (ph (Rn s' n)) -> cover_ph (ph (Rn s n)) /\ pend (Rn s' n) = pend (Rn s n)) ->
    (ph_open (ph (Rn s' n)) -> ph_open (ph (Rn s n))) ->
    inv5_at c s' n.
  Proof.
    intros Es En Ep C2 C3 C4 C5 C6 C7. unfold inv5_at. rewrite Es, En, Ep.
    destruct (Inv5_at c s n I5) as (A1 & A2 & A3 & A4 & A5 & A6 & A7 & A8 & A9 & A10 & A11 & A12).
    split; [exact A1|]. split.
    { intros x Hx. destruct (seen_stay n x Hx) as (B1 & B2 & B3). auto. }
    split; [apply NoDup_filter; exact A3|]. split.
    { intros x Hx. apply filter_In in Hx. apply A4. tauto. }
    split.
    { intros x Hx. apply filter_In in Hx. apply (not_idle_stable lvl c s e s' x W I1 Hs). apply A5. tauto. }
    split; [intros H; apply A6; apply C2; exact H|]. split.
    { intros H x Hx. destruct (seen_stay n x Hx) as (B1 & B2 & B3). rewrite B2. apply A7; auto. }
    split; [intros H; apply A8; auto|]. split.
    { intros H. destruct (A9 (C4 H)) as (x & Hx & Hc). exists x. split; [exact Hx|].
      destruct (seen_stay n x Hx) as (B1 & B2 & B3). rewrite B2. exact Hc. }
    split.
    { intros x Hph Hm Hx. destruct (C6 Hph) as [Hph0 Hpe]. rewrite <- Ep, Hpe.
      destruct (st (Jb s x)) eqn:Est;
        try (apply A10; auto; rewrite Est; discriminate).
      left. assert (Hp : parent c x = n) by (apply In_members in Hm; tauto).
      rewrite <- Hpe. rewrite <- Hp.
      apply (newly_live_pending lvl c s e s' x W I1 Hs Est Hx). }
    split.
    { intros x Hph Hm Hx. apply A11; auto. apply (idle_back lvl c s e s' x W I1 Hs Hx). }
    { intros Hph Hnf. apply A12; auto. }
  Qed.

  (* the run of n begins *)
  Lemma inv5_begin n :
    (if rootb n then ph (Rn s n) = PIdle else st (Jb s n) = Created) ->
    (ph (Rn s' n) = PMain \/ ph (Rn s' n) = POver) ->
    (forall y, In y (pend (Rn s' n)) -> In y (members c n) /\ st (Jb s' y) = Created) ->
    NoDup (pend (Rn s' n)) -> seen (Rn s' n) = [] -> ndone (Rn s' n) = 0 ->
    (ph (Rn s' n) = PMain -> forall y, In y (members c n) -> reqs c y = [] -> In y (pend (Rn s' n))) ->
    inv5_at c s' n.
  Proof.
    intros B1 B3 B4 Bnd Bs Bn Bcov. unfold inv5_at. rewrite Bs, Bn.
    assert (Hidle : ph (Rn s n) = PIdle).
    { destruct (rootb n) eqn:Er; [exact B1|]. apply rootb_false in Er. apply (i_l1 c s I1 n Er). auto. }
    split; [constructor|]. split; [intros x []|]. split; [exact Bnd|]. split; [intros x _ []|].
    split; [intros x Hx; destruct (B4 x Hx) as [_ H]; rewrite H; discriminate|].
    split; [reflexivity|]. split; [intros _ x []|].
    split; [intros [H|H]; destruct B3 as [B3|B3]; rewrite B3 in H; discriminate|].
    split; [intros [H|H]; destruct B3 as [B3|B3]; rewrite B3 in H; discriminate|].
    split.
    - intros x Hph Hm Hx. left.
      assert (Hp : parent c x = n) by (apply In_members in Hm; tauto). rewrite <- Hp.
      apply (newly_live_pending lvl c s e s' x W I1 Hs); [|exact Hx].
      apply (i_idle c s I1 n x Hm Hidle).
    - split.
      + intros x Hph Hm Hx. destruct (reqs c x) as [|r rs] eqn:Er.
        * exfalso. destruct (B4 x (Bcov Hph x Hm Er)) as [_ H]. rewrite H in Hx. discriminate.
        * exists r. split; [left; reflexivity|intros []].
      + intros _ Hnf. intro E. apply Hnf. symmetry. exact E.
  Qed.

  Lemma existsb_false_forall (f : nat -> bool) l : existsb f l = false -> forall x, In x l -> f x = false.
  Proof.
    intros H x Hx. destruct (f x) eqn:E; [|reflexivity].
    assert (existsb f l = true) by (apply existsb_exists; exists x; auto). congruence.
  Qed.

  (* a main wake of n *)
  Lemma inv5_main n d :
    ph (Rn s n) = PMain -> seteqb d (filter (jfin s) (pend (Rn s n))) = true -> NoDup d ->
    main_upd c s s' n d -> inv5_at c s' n.
  Proof.
    intros Hph Hd Hnd (Us & Urc & Ufl & U).
    destruct (Inv5_at c s n I5) as (A1 & A2 & A3 & A4 & A5 & A6 & A7 & A8 & A9 & A10 & A11 & A12).
    pose proof (seteqb_spec _ _ Hd) as Hdin.
    assert (Hdfacts : forall x, In x d -> In x (pend (Rn s n)) /\ In x (members c n) /\
                                          is_done (st (Jb s x)) = true /\ is_done (st (Jb s' x)) = true /\
                                          crit_exc c s' x = crit_exc c s x).
    { intros x Hx. apply Hdin in Hx. apply filter_In in Hx. destruct Hx as [Hp Hf].
      pose proof (i_pend c s I1 n x Hp) as Hm.
      assert (Hdone : is_done (st (Jb s x)) = true).
      { apply In_members in Hm. destruct Hm as (_ & Hpar & Hx0).
        destruct (main_members_clean c s n x I4 Hx0 Hpar (or_introl Hph)) as (_ & C2 & C3).
        unfold jfin in Hf. destruct (st (Jb s x)); cbn in *; try discriminate; try reflexivity.
        contradiction. }
      repeat split; auto.
      - rewrite (finished_stable lvl c s e s' x W I1 Hs); [exact Hdone|apply done_finished; exact Hdone].
      - apply (crit_exc_stable lvl c s e s' x W I1 Hs Hdone). }
    assert (Hseen' : forall x, In x (seen (Rn s n) ++ d) ->
                     In x (members c n) /\ is_done (st (Jb s' x)) = true /\ is_done (st (Jb s x)) = true).
    { intros x Hx. apply in_app_iff in Hx. destruct Hx as [Hx|Hx].
      - destruct (seen_stay n x Hx) as (B1 & B2 & B3). destruct (A2 x Hx). auto.
      - destruct (Hdfacts x Hx) as (D1 & D2 & D3 & D4 & D5). auto. }
    assert (Hnd' : NoDup (seen (Rn s n) ++ d)).
    { apply NoDup_app_intro; auto. intros x Hx Hxd. destruct (Hdfacts x Hxd) as (D1 & _). exact (A4 x D1 Hx). }
    assert (Hcovgen : forall x, In x (members c n) -> st (Jb s' x) <> Idle ->
               (forall y, In y (diff (pend (Rn s n)) d) -> In y (pend (Rn s' n))) ->
               In x (pend (Rn s' n)) \/ In x (seen (Rn s n) ++ d)).
    { intros x Hm Hx Hsubp. destruct (st (Jb s x)) eqn:Est.
      - left. assert (Hpar : parent c x = n) by (apply In_members in Hm; tauto).
        rewrite <- Hpar. apply (newly_live_pending lvl c s e s' x W I1 Hs Est Hx).
      - destruct (A10 x (or_introl Hph) Hm) as [H|H]; [rewrite Est; discriminate| |right; apply in_app_iff; auto].
        destruct (in_dec Nat.eq_dec x d) as [Hxd|Hxd]; [right; apply in_app_iff; auto|].
        left. apply Hsubp. apply In_diff. auto.
      - destruct (A10 x (or_introl Hph) Hm) as [H|H]; [rewrite Est; discriminate| |right; apply in_app_iff; auto].
        destruct (in_dec Nat.eq_dec x d) as [Hxd|Hxd]; [right; apply in_app_iff; auto|].
        left. apply Hsubp. apply In_diff. auto.
      - destruct (A10 x (or_introl Hph) Hm) as [H|H]; [rewrite Est; discriminate| |right; apply in_app_iff; auto].
        destruct (in_dec Nat.eq_dec x d) as [Hxd|Hxd]; [right; apply in_app_iff; auto|].
        left. apply Hsubp. apply In_diff. auto.
      - destruct (A10 x (or_introl Hph) Hm) as [H|H]; [rewrite Est; discriminate| |right; apply in_app_iff; auto].
        destruct (in_dec Nat.eq_dec x d) as [Hxd|Hxd]; [right; apply in_app_iff; auto|].
        left. apply Hsubp. apply In_diff. auto.
      - destruct (A10 x (or_introl Hph) Hm) as [H|H]; [rewrite Est; discriminate| |right; apply in_app_iff; auto].
        destruct (in_dec Nat.eq_dec x d) as [Hxd|Hxd]; [right; apply in_app_iff; auto|].
        left. apply Hsubp. apply In_diff. auto.
      - destruct (A10 x (or_introl Hph) Hm) as [H|H]; [rewrite Est; discriminate| |right; apply in_app_iff; auto].
        destruct (in_dec Nat.eq_dec x d) as [Hxd|Hxd]; [right; apply in_app_iff; auto|].
        left. apply Hsubp. apply In_diff. auto. }
    unfold inv5_at. rewrite Us.
    split; [exact Hnd'|]. split; [intros x Hx; destruct (Hseen' x Hx) as (B1 & B2 & B3); auto|].
    destruct U as [(w & Hw & Hp & Hps & Hcz & Hb)|(Hw & Hne & Hnc & Hn & Hnf & new & Hp & Hnn & Hnew & Hcr)].
    - (* exit paths *)
      assert (Hnotmain : ph (Rn s' n) <> PMain) by (destruct Hw as [H|H]; rewrite H; discriminate).
      assert (Hcov : forall x, cover_ph (ph (Rn s' n)) -> In x (members c n) -> st (Jb s' x) <> Idle ->
                     In x (pend (Rn s' n)) \/ In x (seen (Rn s n) ++ d)).
      { intros x _ Hm Hx. apply Hcovgen; auto. intros y Hy. rewrite Hp. exact Hy. }
      rewrite Hp in *.
      split; [apply NoDup_filter; exact A3|].
      split.
      { intros x Hx Hs'. apply In_diff in Hx. destruct Hx as [Hx1 Hx2].
        apply in_app_iff in Hs'. destruct Hs' as [H|H]; [exact (A4 x Hx1 H)|contradiction]. }
      split.
      { intros x Hx. apply In_diff in Hx. apply (not_idle_stable lvl c s e s' x W I1 Hs). apply A5. tauto. }
      assert (Hphw : ph (Rn s' n) = PTidy w \/ ph (Rn s' n) = PShut w) by exact Hw.
      assert (Htail : (forall x, ph (Rn s' n) = PMain -> In x (members c n) -> st (Jb s' x) = Idle ->
                          exists r, In r (reqs c x) /\ ~ In r (seen (Rn s n) ++ d)) /\
                      True).
      { split; [intros; contradiction|exact I]. }
      destruct Htail as [Htail _].
      destruct w.
      + (* success *)
        destruct Hb as (Hne & Hnc & Hn & Hnf).
        split; [intros _; rewrite Hn, nonforever_app, (A6 (or_introl Hph)); reflexivity|].
        split.
        { intros _ x Hx. apply in_app_iff in Hx. destruct Hx as [Hx|Hx].
          - destruct (seen_stay n x Hx) as (B1 & B2 & B3). rewrite B2. apply A7; [left; exact Hph|exact Hx].
          - destruct (Hdfacts x Hx) as (_ & _ & _ & _ & D5). rewrite D5.
            apply (existsb_false_forall _ _ Hnc x Hx). }
        split; [intros _; exact Hnf|].
        split; [intros [H|H]; destruct Hphw as [H'|H']; rewrite H' in H; discriminate|].
        split; [exact Hcov|]. split; [exact Htail|].
        intros [H|[H|H]]; destruct Hphw as [H'|H']; rewrite H' in H; discriminate.
      + (* timeout *)
        destruct Hb as (Hde & Hn). subst d.
        split; [intros _; rewrite Hn, app_nil_r; apply A6; left; exact Hph|].
        split.
        { intros _ x Hx. rewrite app_nil_r in Hx.
          destruct (seen_stay n x Hx) as (B1 & B2 & B3). rewrite B2. apply A7; [left; exact Hph|exact Hx]. }
        split; [intros [H|H]; destruct Hphw as [H'|H']; rewrite H' in H; discriminate|].
        split; [intros [H|H]; destruct Hphw as [H'|H']; rewrite H' in H; discriminate|].
        split; [exact Hcov|]. split; [exact Htail|].
        intros _ Hnz. rewrite Hn. apply A12; [left; exact Hph|exact Hnz].
      + (* critical *)
        destruct Hb as (Hne & Hcx & Hn).
        split; [intros [H|[H|[H|[H|H]]]]; destruct Hphw as [H'|H']; rewrite H' in H; discriminate|].
        split; [intros [H|[H|[H|[H|H]]]]; destruct Hphw as [H'|H']; rewrite H' in H; discriminate|].
        split; [intros [H|H]; destruct Hphw as [H'|H']; rewrite H' in H; discriminate|].
        split.
        { intros _. apply existsb_exists in Hcx. destruct Hcx as (x & Hx & Hc). exists x.
          split; [apply in_app_iff; right; exact Hx|].
          destruct (Hdfacts x Hx) as (_ & _ & _ & _ & D5). rewrite D5. exact Hc. }
        split; [exact Hcov|]. split; [exact Htail|].
        intros [H|[H|H]]; destruct Hphw as [H'|H']; rewrite H' in H; discriminate.
    - (* the loop goes on *)
      assert (Hcov : forall x, cover_ph (ph (Rn s' n)) -> In x (members c n) -> st (Jb s' x) <> Idle ->
                     In x (pend (Rn s' n)) \/ In x (seen (Rn s n) ++ d)).
      { intros x _ Hm Hx. apply Hcovgen; auto. intros y Hy. rewrite Hp. apply in_app_iff. auto. }
      rewrite Hp in *.
      assert (Hnew_idle : forall x, In x new -> st (Jb s x) = Idle /\ In x (members c n)).
      { intros x Hx. apply Hnew in Hx. destruct Hx as (E1 & E2 & _). auto. }
      split.
      { apply NoDup_app_intro; [apply NoDup_filter; exact A3|exact Hnn|].
        intros x Hx Hxn. apply In_diff in Hx. destruct (Hnew_idle x Hxn) as [Hi _].
        apply (A5 x); tauto. }
      split.
      { intros x Hx Hs'. destruct (Hseen' x Hs') as (_ & _ & Hdn).
        apply in_app_iff in Hx. destruct Hx as [Hx|Hx].
        - apply In_diff in Hx. destruct Hx as [Hx1 Hx2].
          apply in_app_iff in Hs'. destruct Hs' as [H|H]; [exact (A4 x Hx1 H)|contradiction].
        - destruct (Hnew_idle x Hx) as [Hi _]. rewrite Hi in Hdn. discriminate. }
      split.
      { intros x Hx. apply in_app_iff in Hx. destruct Hx as [Hx|Hx].
        - apply In_diff in Hx. apply (not_idle_stable lvl c s e s' x W I1 Hs). apply A5. tauto.
        - rewrite (Hcr x Hx). discriminate. }
      split; [intros _; rewrite Hn, nonforever_app, (A6 (or_introl Hph)); reflexivity|].
      split.
      { intros _ x Hx. apply in_app_iff in Hx. destruct Hx as [Hx|Hx].
        - destruct (seen_stay n x Hx) as (B1 & B2 & B3). rewrite B2. apply A7; [left; exact Hph|exact Hx].
        - destruct (Hdfacts x Hx) as (_ & _ & _ & _ & D5). rewrite D5.
          apply (existsb_false_forall _ _ Hnc x Hx). }
      split; [intros [H|H]; rewrite Hw in H; discriminate|].
      split; [intros [H|H]; rewrite Hw in H; discriminate|].
      split; [exact Hcov|].
      split.
      { intros x _ Hm Hx.
        pose proof (idle_back lvl c s e s' x W I1 Hs Hx) as Hi.
        assert (Hnotnew : ~ In x new).
        { intro Hin. rewrite (Hcr x Hin) in Hx. discriminate. }
        destruct (A11 x Hph Hm Hi) as (r & Hr & Hrs).
        destruct (all_done s (reqs c x)) eqn:Ead.
        - exists r. split; [exact Hr|]. intro Hin. apply in_app_iff in Hin. destruct Hin as [Hin|Hin]; [contradiction|].
          apply Hnotnew. apply Hnew. unfold eligible. repeat split; auto. exists r. auto.
        - unfold all_done in Ead.
          assert (Hex : exists r0, In r0 (reqs c x) /\ is_done (st (Jb s r0)) = false).
          { clear -Ead. induction (reqs c x) as [|a l IH]; [discriminate|].
            cbn in Ead. apply andb_false_iff in Ead. destruct Ead as [E|E].
            - exists a. split; [left; reflexivity|exact E].
            - destruct (IH E) as (r0 & H1 & H2). exists r0. split; [right; exact H1|exact H2]. }
          destruct Hex as (r0 & Hr0 & Hnd0). exists r0. split; [exact Hr0|].
          intro Hin. destruct (Hseen' r0 Hin) as (_ & _ & Hdn). congruence. }
      { intros _ _. exact Hnf. }
  Qed.

  (* backward reading of the phase order for actor steps that are not main wakes *)
  Lemma kept_phase n : kept s s' n -> ph (Rn s n) <> PIdle ->
    ph (Rn s' n) <> PMain /\
    (forall w, ph (Rn s' n) = PTidy w -> ph (Rn s n) = PTidy w) /\
    (forall w, ph (Rn s' n) = PShut w -> ph (Rn s n) = PTidy w \/ ph (Rn s n) = PShut w).
  Proof.
    intros (K1 & K2 & K3 & K4 & K5 & K6 & K7 & K8 & K9) Hni.
    destruct (ph (Rn s n)) as [| |w0|w0| |] eqn:E; try contradiction.
    - destruct (K6 eq_refl) as [K|K]; rewrite K; repeat split; intros; discriminate.
    - destruct (K5 w0 eq_refl) as [K|[K|K]]; rewrite K; repeat split; try discriminate;
        intros w Hw; inversion Hw; subst; auto.
    - destruct (K4 w0 eq_refl) as [K|K]; rewrite K; repeat split; try discriminate;
        intros w Hw; inversion Hw; subst; auto.
    - destruct (K7 eq_refl) as [K|K]; rewrite K; repeat split; intros; discriminate.
  Qed.

  Theorem inv5_at_step n : inv5_at c s' n.
  Proof.
    destruct (R_effect lvl c s e s' W (i_pend c s I1) Hs n)
      as [Hq _|_ B1 _ B3 B4 Bnd Bs Bn _ _ _ _ Bcov _|_ A1 A2 A3 _ A4 A5 A6 [K|(Hph & d & Hd & Hnd & U)] A8].
    - destruct Hq as (Q1 & Q2 & Q3 & Q4 & _).
      apply (inv5_keep n (fun _ => true)); auto.
      + rewrite Q2. apply filter_true_id.
      + rewrite Q1; auto.
      + rewrite Q1; auto.
      + rewrite Q1; auto.
      + rewrite Q1; auto.
      + rewrite Q1. auto.
      + rewrite Q1; auto.
    - apply inv5_begin; auto.
    - destruct (kept_phase n K A2) as (P1 & P2 & P3).
      destruct K as (K1 & K2 & (f & K3) & K4 & K5 & K6 & K7 & K8 & K9 & K10 & K11).
      apply (inv5_keep n f); auto.
      + intros [H|[H|[H|[H|H]]]].
        * contradiction.
        * rewrite (P2 _ H). unfold ph_nocrit. auto.
        * destruct (P3 _ H) as [E|E]; rewrite E; unfold ph_nocrit; auto.
        * rewrite (P2 _ H). unfold ph_nocrit. auto 6.
        * destruct (P3 _ H) as [E|E]; rewrite E; unfold ph_nocrit; auto 6.
      + intros [H|H].
        * rewrite (P2 _ H). left. reflexivity.
        * destruct (P3 _ H) as [E|E]; rewrite E; [left|right]; reflexivity.
      + intros [H|H].
        * rewrite (P2 _ H). left. reflexivity.
        * destruct (P3 _ H) as [E|E]; rewrite E; [left|right]; reflexivity.
      + intros H. contradiction.
      + intros [H|[[w H]|[w H]]].
        * contradiction.
        * pose proof (P2 _ H) as E. split; [right; left; exists w; exact E|].
          apply K11. rewrite E. discriminate.
        * destruct (P3 _ H) as [E|E]; (split; [|apply K11; rewrite E; discriminate]).
          -- right. left. exists w. exact E.
          -- right. right. exists w. exact E.
      + intros [H|[H|H]].
        * contradiction.
        * rewrite (P2 _ H). right. left. reflexivity.
        * destruct (P3 _ H) as [E|E]; rewrite E; [right; left|right; right]; reflexivity.
    - apply (inv5_main n d); auto.
  Qed.
End Step.

Lemma Inv5_step lvl c s e s' : wf c = true -> Inv1 c s -> Inv4 c s -> Inv5 c s ->
  step lvl c s e = Some s' -> Inv5 c s'.
Proof.
  intros W I1 I4 I5 Hs. apply Inv5_of_at. intros n. eapply inv5_at_step; eauto.
Qed.
