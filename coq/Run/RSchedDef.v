(* The schedule of a failure-free tree: the instants at which each job must start and end, as the
   solution of the scheduling equations of the tree, and the flat requirements that define the
   flattened graph (last sentence of C10; also the first sentence of C12 in closed form).

   Definitions only (the proofs are in RSched.v and RFlatten.v), all executable: the driver
   computes [solve] and checks [is_scheduleb] / [flat_ofb] on the configurations the harness
   generates, and the harness compares the computed instants with what the implementation does. *)
From AJ Require Import Common.Util Run.RModel.

Definition maxl (a : N) (l : list N) : N := fold_right N.max a l.

Definition durN (c : cfg) (x : nat) : N := match j_dur (jc c x) with Some d => d | None => 0%N end.

(* the trees the closed form is about: no window, no timeout, no forever job, every atomic job ends
   by itself and its shutdown handler takes no time.  Jobs may raise; what happens from the first
   instant at which a critical job raises is excluded by [calm] below *)
Definition plain_job (c : cfg) (x : nat) : bool :=
  if j_sched (jc c x)
  then Nat.eqb (j_window (jc c x)) 0
       && match j_timeout (jc c x) with None => true | Some _ => false end
       && (Nat.eqb x 0 || negb (j_forever (jc c x)))
  else match j_dur (jc c x) with Some _ => true | None => false end
       && negb (j_forever (jc c x))
       && match j_sdur (jc c x) with Some 0%N => true | _ => false end.
Definition plain (c : cfg) : bool := forallb (plain_job c) (all_ids c).

(* S x: the instant at which x starts (for a scheduler: begins); E x: the instant at which it ends.
   The root begins at 0.  A job starts when its scheduler has begun and its requirements have
   ended; a scheduler ends when it has begun and all its jobs have ended. *)
Definition is_schedule (c : cfg) (S E : nat -> N) : Prop :=
  S 0 = 0%N /\
  forall x, x < njobs c ->
    (x <> 0 -> S x = maxl (S (parent c x)) (map E (reqs c x))) /\
    (j_sched (jc c x) = false -> E x = (S x + durN c x)%N) /\
    (j_sched (jc c x) = true -> E x = maxl (S x) (map E (members c x))).

(* boolean version over tables *)
Definition tab (l : list N) (x : nat) : N := nth x l 0%N.
Definition is_scheduleb (c : cfg) (lS lE : list N) : bool :=
  N.eqb (tab lS 0) 0
  && forallb (fun x =>
       (Nat.eqb x 0 || N.eqb (tab lS x) (maxl (tab lS (parent c x)) (map (tab lE) (reqs c x))))
       && (if j_sched (jc c x)
           then N.eqb (tab lE x) (maxl (tab lS x) (map (tab lE) (members c x)))
           else N.eqb (tab lE x) (tab lS x + durN c x))) (all_ids c).

(* one round of the equations; iterating from zero reaches the solution of a well-formed tree
   (checked by [is_scheduleb] on the result, never assumed) *)
Definition round (c : cfg) (SE : list N * list N) : list N * list N :=
  let '(lS, lE) := SE in
  let lS' := map (fun x => if Nat.eqb x 0 then 0%N
                           else maxl (tab lS (parent c x)) (map (tab lE) (reqs c x))) (all_ids c) in
  let lE' := map (fun x => if j_sched (jc c x)
                           then maxl (tab lS' x) (map (tab lE) (members c x))
                           else (tab lS' x + durN c x)%N) (all_ids c) in
  (lS', lE').
Fixpoint iter_round (k : nat) (c : cfg) (SE : list N * list N) : list N * list N :=
  match k with 0 => SE | S k' => iter_round k' c (round c SE) end.
Definition solve (c : cfg) : list N * list N :=
  iter_round (2 * njobs c + 2) c (map (fun _ => 0%N) (all_ids c), map (fun _ => 0%N) (all_ids c)).

(* no critical job has raised yet: the instant of each critical raising job is still ahead *)
Definition bad_job (c : cfg) (x : nat) : bool :=
  negb (j_sched (jc c x)) && j_crit (jc c x) && match j_out (jc c x) with OExc => true | ORet => false end.
Definition calm (c : cfg) (E : nat -> N) (s : state) : Prop :=
  forall x, x < njobs c -> bad_job c x = true -> (now s < E x)%N.

(* what a state must look like at time [now s] when x runs from S x to E x *)
Definition on_schedule (c : cfg) (S E : nat -> N) (s : state) (x : nat) : Prop :=
  match st (Jb s x) with
  | Idle | Created => (now s <= S x)%N
  | Running => (S x <= now s)%N /\ (now s <= E x)%N /\
               (j_sched (jc c x) = false -> tend (Jb s x) = Some (E x))
  | DoneRet _ | DoneExc _ => (E x <= now s)%N
  | Cancelling | Cancelled => False
  end.

(* ---------- the flattened graph ---------- *)

(* the atomic jobs below r (r itself when atomic), and, for a scheduler, the atomic jobs its own
   requirements stand for: everything a job that requires r has to wait for *)
Fixpoint expand (fuel : nat) (c : cfg) (r : nat) : list nat :=
  match fuel with
  | 0 => []
  | S f => if j_sched (jc c r)
           then flat_map (expand f c) (members c r) ++ flat_map (expand f c) (reqs c r)
           else [r]
  end.

(* requirements of x and of all the schedulers around it *)
Fixpoint up_reqs (fuel : nat) (c : cfg) (x : nat) : list nat :=
  match fuel with
  | 0 => []
  | S f => reqs c x ++ (if Nat.eqb x 0 then [] else up_reqs f c (parent c x))
  end.

(* the flat requirements of the atomic job x: the atomic jobs it waits for, directly or through
   nested schedulers *)
Definition frq (c : cfg) (x : nat) : list nat :=
  flat_map (expand (njobs c) c) (up_reqs (njobs c) c x).

Definition flat (c : cfg) : bool := forallb (fun x => Nat.eqb (parent c x) 0) (all_ids c)
                                    && forallb (fun x => Nat.eqb x 0 || negb (j_sched (jc c x))) (all_ids c).

Definition subsetb (l1 l2 : list nat) : bool := forallb (fun x => existsb (Nat.eqb x) l2) l1.

(* c' is the flattened graph of c, f giving the new name of each atomic job of c (a table) *)
Definition fname (f : list nat) (x : nat) : nat := nth x f 0.
Definition flat_ofb (c c' : cfg) (f : list nat) : bool :=
  flat c'
  && forallb (fun x => if atomic_id c x
                       then negb (Nat.eqb (fname f x) 0) && Nat.ltb (fname f x) (njobs c')
                            && N.eqb (durN c' (fname f x)) (durN c x)
                            && subsetb (reqs c' (fname f x)) (map (fname f) (frq c x))
                            && subsetb (map (fname f) (frq c x)) (reqs c' (fname f x))
                       else true) (all_ids c)
  (* every job of c' is the image of an atomic job of c *)
  && forallb (fun k => Nat.eqb k 0 || existsb (fun x => atomic_id c x && Nat.eqb (fname f x) k) (all_ids c))
             (all_ids c').

(* ---------- timeouts that the schedule does not reach ---------- *)

(* like [plain], timeouts allowed *)
Definition plainT_job (c : cfg) (x : nat) : bool :=
  if j_sched (jc c x)
  then Nat.eqb (j_window (jc c x)) 0 && (Nat.eqb x 0 || negb (j_forever (jc c x)))
  else match j_dur (jc c x) with Some _ => true | None => false end
       && negb (j_forever (jc c x))
       && match j_sdur (jc c x) with Some 0%N => true | _ => false end.
Definition plainT (c : cfg) : bool := forallb (plainT_job c) (all_ids c).

(* every timed scheduler is scheduled to end strictly before its timeout expires, the timeout
   being counted from the beginning of that scheduler's own run *)
Definition slack (c : cfg) (S E : nat -> N) : Prop :=
  forall n T, n < njobs c -> j_sched (jc c n) = true -> j_timeout (jc c n) = Some T -> (E n < S n + T)%N.
Definition slackb (c : cfg) (lS lE : list N) : bool :=
  forallb (fun n => negb (j_sched (jc c n)) ||
                    match j_timeout (jc c n) with
                    | Some T => N.ltb (tab lE n) (tab lS n + T)
                    | None => true
                    end) (all_ids c).

(* ---------- shutdown handlers that take time ---------- *)

(* like [plainT], shutdown handlers of any finite duration allowed *)
Definition plainH_job (c : cfg) (x : nat) : bool :=
  if j_sched (jc c x)
  then Nat.eqb (j_window (jc c x)) 0 && (Nat.eqb x 0 || negb (j_forever (jc c x)))
  else match j_dur (jc c x) with Some _ => true | None => false end
       && negb (j_forever (jc c x))
       && match j_sdur (jc c x) with Some _ => true | None => false end.
Definition plainH (c : cfg) : bool := forallb (plainH_job c) (all_ids c).

(* length of the shutdown phase of scheduler n once its main loop is over: its atomic jobs run their
   handlers side by side (nested schedulers have shut down at their own end and answer at once),
   cut by shutdown_timeout *)
Definition sdurN (c : cfg) (x : nat) : N :=
  if j_sched (jc c x) then 0%N else match j_sdur (jc c x) with Some d => d | None => 0%N end.
Definition shut_len (c : cfg) (n : nat) : N :=
  let d := maxl 0%N (map (sdurN c) (members c n)) in
  match j_sdto (jc c n) with Some t => N.min t d | None => d end.

(* the scheduling equations with the shutdown phase: a nested scheduler ends -- for the jobs that
   require it -- when its own run does, i.e. after its shutdown phase *)
Definition is_scheduleH (c : cfg) (S E : nat -> N) : Prop :=
  S 0 = 0%N /\
  forall x, x < njobs c ->
    (x <> 0 -> S x = maxl (S (parent c x)) (map E (reqs c x))) /\
    (j_sched (jc c x) = false -> E x = (S x + durN c x)%N) /\
    (j_sched (jc c x) = true -> E x = (maxl (S x) (map E (members c x)) + shut_len c x)%N).

Definition is_scheduleHb (c : cfg) (lS lE : list N) : bool :=
  N.eqb (tab lS 0) 0
  && forallb (fun x =>
       (Nat.eqb x 0 || N.eqb (tab lS x) (maxl (tab lS (parent c x)) (map (tab lE) (reqs c x))))
       && (if j_sched (jc c x)
           then N.eqb (tab lE x) (maxl (tab lS x) (map (tab lE) (members c x)) + shut_len c x)
           else N.eqb (tab lE x) (tab lS x + durN c x))) (all_ids c).

Definition roundH (c : cfg) (SE : list N * list N) : list N * list N :=
  let '(lS, lE) := SE in
  let lS' := map (fun x => if Nat.eqb x 0 then 0%N
                           else maxl (tab lS (parent c x)) (map (tab lE) (reqs c x))) (all_ids c) in
  let lE' := map (fun x => if j_sched (jc c x)
                           then (maxl (tab lS' x) (map (tab lE) (members c x)) + shut_len c x)%N
                           else (tab lS' x + durN c x)%N) (all_ids c) in
  (lS', lE').
Fixpoint iter_roundH (k : nat) (c : cfg) (SE : list N * list N) : list N * list N :=
  match k with 0 => SE | S k' => iter_roundH k' c (roundH c SE) end.
Definition solveH (c : cfg) : list N * list N :=
  iter_roundH (2 * njobs c + 2) c (map (fun _ => 0%N) (all_ids c), map (fun _ => 0%N) (all_ids c)).

Definition slackH (c : cfg) (S E : nat -> N) : Prop :=
  forall n T, n < njobs c -> j_sched (jc c n) = true -> j_timeout (jc c n) = Some T ->
    (maxl (S n) (map E (members c n)) < S n + T)%N.
