(* Invariants of the shutdown side (level 3): every scheduler broadcasts at most once, to all its
   members; who runs the broadcast; when it is over every handler below is finished. *)
From AJ Require Import Common.Util Run.RModel Run.RFacts Run.RFacts2 Run.RInv Run.RInv3 Run.RInv4 Run.RInv5
  Run.RProps3 Run.RShut1.

Definition sd_active (x : sdphase) : Prop := x = SdWait \/ x = SdTidy.
Definition h_started (x : hstat) : Prop := x <> HNone /\ x <> HCreated.

Record Inv8 (c : cfg) (s : state) : Prop := {
  k_fresh : forall n, did (Sd s n) = false -> Sd s n = init_s;
  k_busy : forall n, did (Sd s n) = true -> sp (Sd s n) <> SdIdle;
  k_valid : forall n, did (Sd s n) = true -> sched_id c n = true;
  k_none : forall n x, In x (members c n) -> did (Sd s n) = false -> Hd s x = init_h;
  k_some : forall n x, In x (members c n) -> did (Sd s n) = true -> hs (Hd s x) <> HNone;
  k_root : hs (Hd s 0) <> HCreated;
  k_fifo : forall x, hs (Hd s x) = HCreated -> hcp (Hd s x) = false;
  k_spend : forall n x, In x (spend (Sd s n)) -> In x (members c n);
  k_tidy : forall n x, sp (Sd s n) = SdTidy -> In x (members c n) -> hfin s x = true \/ In x (spend (Sd s n));
  k_over8 : forall n x, sp (Sd s n) = SdOver -> In x (members c n) -> hfin s x = true;
  k_nest : forall x, x <> 0 -> j_sched (jc c x) = true -> hfin s x = true -> sp (Sd s x) = SdOver;
  k_thread : forall n, sd_active (sp (Sd s n)) -> sd_inline s n = true \/ hs (Hd s n) = HRunning;
  k_inl : forall n, sd_inline s n = true -> did (Sd s n) = true;
  k_phase : forall n, did (Sd s n) = true ->
              sd_inline s n = true \/ ph (Rn s n) = POver \/
              (ph (Rn s n) = PIdle /\ n <> 0 /\ h_started (hs (Hd s n)))
}.

Lemma Inv8_init c : Inv8 c init.
Proof.
  split.
  - reflexivity.
  - intros n H. discriminate.
  - intros n H. discriminate.
  - reflexivity.
  - intros n x _ H. discriminate.
  - cbn. discriminate.
  - intros x H. discriminate.
  - intros n x [].
  - intros n x H. discriminate.
  - intros n x H. discriminate.
  - intros x _ _ H. discriminate.
  - intros n [H|H]; discriminate.
  - intros n H. discriminate.
  - intros n H. discriminate.
Qed.

(* ---------- members of a broadcasting scheduler are not live ---------- *)

Lemma did_quiet c s n x : wf c = true -> InvD c s -> Inv8 c s ->
  did (Sd s n) = true -> In x (members c n) ->
  live (st (Jb s x)) = false /\ (j_sched (jc c x) = true -> settled c s x).
Proof.
  intros W ID I8 Hd Hx. destruct (k_phase c s I8 n Hd) as [Hi|[Ho|(Hp & _)]].
  - destruct ID as [[I1 I3 I4 I5 I6] I7].
    assert (Hq : quiet_ph (ph (Rn s n))).
    { unfold sd_inline in Hi. destruct (ph (Rn s n)) eqn:E; try discriminate. left. exists w. reflexivity. }
    assert (Hnl : live (st (Jb s x)) = false).
    { destruct (live (st (Jb s x))) eqn:El; [|reflexivity]. exfalso.
      pose proof (l_pend c s I7 n x Hx El) as Hp. pose proof (l_fin c s I7 n x Hq Hp) as Hf.
      rewrite (live_not_finished _ El) in Hf. discriminate. }
    split; [exact Hnl|]. intros Hsch.
    assert (Hx0 : x <> 0) by (apply In_members in Hx; tauto).
    destruct (live_cases _ Hnl) as [Hid|Hf].
    + right. apply (i_l1 c s I1 x Hx0). auto.
    + unfold settled. destruct (ph (Rn s x)) eqn:E; auto; exfalso;
        assert (Hr : st (Jb s x) = Running) by (apply (k_act c s I3 x Hx0 Hsch); rewrite E; discriminate);
        rewrite Hr in Hf; discriminate.
  - apply (settled_members c s n x W ID); [left; exact Ho|exact Hx].
  - apply (settled_members c s n x W ID); [right; exact Hp|exact Hx].
Qed.

(* a job that has a handler is not live *)
Lemma handler_quiet c s x : wf c = true -> InvD c s -> Inv8 c s ->
  x <> 0 -> x < njobs c -> hs (Hd s x) <> HNone ->
  did (Sd s (parent c x)) = true /\ live (st (Jb s x)) = false /\ (j_sched (jc c x) = true -> settled c s x).
Proof.
  intros W ID I8 Hx0 Hx Hh.
  assert (Hm : In x (members c (parent c x))) by (apply In_members; auto).
  assert (Hd : did (Sd s (parent c x)) = true).
  { destruct (did (Sd s (parent c x))) eqn:E; [reflexivity|].
    rewrite (k_none c s I8 _ x Hm E) in Hh. exfalso. apply Hh. reflexivity. }
  split; [exact Hd|]. apply (did_quiet c s (parent c x) x W ID I8 Hd Hm).
Qed.

(* ---------- views of a step ---------- *)

Lemma sd_change c s s' : hs_step c s s' ->
  forall m, Sd s' m = Sd s m \/ (did (Sd s' m) = true /\ sp (Sd s' m) <> SdIdle).
Proof.
  intros H m.
  destruct H as [A B C|n Hsch Hra Hph Hi Ho A B Hn|n Hsch Hg Ho B A Hn|n Hsp Hf Hth B Ho Hx Hn
                 |n p Hsp Hp0 Hp Hdl Hst Hth B Ho A Hn|n Hsp Hf Hth B Ho Hx Hn|n Hsp Hst Hth B Ho A Hn
                 |j v A B Ho Hn Hv].
  - left. apply B.
  - rewrite B. unfold sd_create. destruct (Nat.eqb_spec m n) as [->|Hm]; [|left; reflexivity].
    destruct (did (Sd s n)) eqn:E; [left; reflexivity|]. right. unfold sd_started.
    destruct (members c n); cbn; split; try reflexivity; discriminate.
  - rewrite B. unfold sd_create. destruct (Nat.eqb_spec m n) as [->|Hm]; [|left; reflexivity].
    destruct (did (Sd s n)) eqn:E; [left; reflexivity|]. right. unfold sd_started.
    destruct (members c n); cbn; split; try reflexivity; discriminate.
  - rewrite B. destruct (Nat.eqb m n); [|left; reflexivity]. right. cbn. split; [reflexivity|discriminate].
  - rewrite B. destruct (Nat.eqb m n); [|left; reflexivity]. right. cbn. split; [reflexivity|discriminate].
  - rewrite B. destruct (Nat.eqb m n); [|left; reflexivity]. right. cbn. split; [reflexivity|discriminate].
  - rewrite B. destruct (Nat.eqb m n); [|left; reflexivity]. right. cbn. split; [reflexivity|discriminate].
  - left. apply B.
Qed.

Lemma did_mono c s s' : Inv8 c s -> hs_step c s s' -> forall m, did (Sd s m) = true -> did (Sd s' m) = true.
Proof.
  intros I8 H m Hd. destruct (sd_change c s s' H m) as [E|[E _]]; [rewrite E; exact Hd|exact E].
Qed.

(* what may happen to the handler of x *)
Inductive hview (c : cfg) (s s' : state) (x : nat) : Prop :=
| HV_same : Hd s' x = Hd s x -> hview c s s' x
| HV_create n : In x (members c n) -> did (Sd s n) = false -> did (Sd s' n) = true ->
                Hd s' x = mkHst HCreated false None -> hview c s s' x
| HV_touch : hs (Hd s' x) = hs (Hd s x) -> hend (Hd s' x) = hend (Hd s x) -> hs (Hd s x) <> HCreated ->
             hs (Hd s x) <> HNone -> hview c s s' x
| HV_sdstart : sched_id c x = true ->
               ((hs (Hd s x) = HCreated /\ hcp (Hd s x) = false) \/
                (hs (Hd s x) <> HCreated /\ hs (Hd s x) <> HRunning /\ x = 0 /\ ph (Rn s 0) = POver)) ->
               (forall m, ph (Rn s' m) = ph (Rn s m)) ->
               Sd s' x = sd_create c s x x ->
               ((Hd s' x = mkHst HDone false None /\ (did (Sd s x) = true \/ members c x = [])) \/
                (Hd s' x = mkHst HRunning false None /\ did (Sd s x) = false /\ members c x <> [])) ->
               hview c s s' x
| HV_hdone : hs (Hd s x) = HRunning -> sd_inline s x = false -> sd_active (sp (Sd s x)) ->
             Sd s' x = sd_over s x -> ph (Rn s' x) = ph (Rn s x) ->
             (Hd s' x = mkHst HDone false None \/ Hd s' x = mkHst HCancelled false None) -> hview c s s' x
| HV_hevent v : Hd s' x = v ->
    ((atomic_id c x = true /\ hs (Hd s x) = HCreated /\ hcp (Hd s x) = false /\
      v = mkHst HRunning false (optN_add (now s) (j_sdur (jc c x))))
     \/ (atomic_id c x = true /\ hs (Hd s x) = HRunning /\ hcp (Hd s x) = false /\ v = mkHst HDone false None)
     \/ (atomic_id c x = true /\ hs (Hd s x) = HRunning /\ hcp (Hd s x) = true /\ v = mkHst HCancelled false None)
     \/ (x < njobs c /\ hs (Hd s x) = HCreated /\ hcp (Hd s x) = true /\ v = mkHst HCancelled false None)) ->
    hview c s s' x.

Lemma cancel_h_hs a : hs (cancel_h a) = hs a /\ hend (cancel_h a) = hend a.
Proof. unfold cancel_h. destruct (hfinished (hs a)); auto. Qed.

Lemma stepped_not_created c s n x : handlers_stepped c s n = true -> In x (members c n) -> hs (Hd s x) <> HCreated.
Proof.
  unfold handlers_stepped. rewrite forallb_forall. intros H Hx E. specialize (H x Hx). rewrite E in H. discriminate.
Qed.

Lemma hd_view c s s' x : wf c = true -> Inv8 c s -> hs_step c s s' -> hview c s s' x.
Proof.
  intros W I8 H.
  destruct H as [A B C|n Hsch Hra Hph Hi Ho A B Hn|n Hsch Hg Ho B A Hn|n Hsp Hf Hth B Ho Hx Hn
                 |n p Hsp Hp0 Hp Hdl Hst Hth B Ho A Hn|n Hsp Hf Hth B Ho Hx Hn|n Hsp Hst Hth B Ho A Hn
                 |j v A B Ho Hn Hv].
  - apply HV_same. apply A.
  - (* inline start *)
    pose proof (A x) as Ax. unfold hd_create in Ax.
    destruct (did (Sd s n)) eqn:Ed; [apply HV_same; exact Ax|].
    destruct (memb x (members c n)) eqn:Em; [|apply HV_same; exact Ax].
    apply (HV_create c s s' x n); [apply memb_In; exact Em|exact Ed| |exact Ax].
    rewrite B. unfold sd_create. rewrite Nat.eqb_refl, Ed. unfold sd_started. destruct (members c n); reflexivity.
  - (* sdstart *)
    destruct (Nat.eqb_spec x n) as [->|Hxn].
    + apply HV_sdstart; [exact Hsch|exact Hg|exact Ho|apply B|].
      rewrite A, Nat.eqb_refl. destruct (did (Sd s n)) eqn:Ed; [left; auto|].
        destruct (members c n) eqn:Em; [left; auto|right]. split; [reflexivity|]. split; [reflexivity|discriminate].
    + pose proof (A x) as Ax. apply Nat.eqb_neq in Hxn. rewrite Hxn in Ax. unfold hd_create in Ax.
      destruct (did (Sd s n)) eqn:Ed; [apply HV_same; exact Ax|].
      destruct (memb x (members c n)) eqn:Em; [|apply HV_same; exact Ax].
      apply (HV_create c s s' x n); [apply memb_In; exact Em|exact Ed| |exact Ax].
      rewrite B. unfold sd_create. rewrite Nat.eqb_refl, Ed. unfold sd_started. destruct (members c n); reflexivity.
  - (* wake_all *)
    unfold sd_thread in Hth. destruct (sd_inline s n) eqn:Ein.
    + destruct Hx as [_ Hx]. apply HV_same. apply Hx.
    + destruct Hx as [Hph Hx]. destruct (Nat.eqb_spec x n) as [->|Hxn].
      * destruct Hth as [Hr Hc]. apply HV_hdone; auto.
        -- left. exact Hsp.
        -- rewrite B, Nat.eqb_refl. reflexivity.
        -- left. rewrite Hx, Nat.eqb_refl. reflexivity.
      * apply HV_same. rewrite Hx. apply Nat.eqb_neq in Hxn. rewrite Hxn. reflexivity.
  - (* wake_some *)
    pose proof (A x) as Ax. destruct (memb x p) eqn:Em; [|apply HV_same; exact Ax].
    apply memb_In in Em. apply Hp in Em. destruct Em as [Hm _].
    destruct (cancel_h_hs (Hd s x)) as [E1 E2].
    assert (Hdn : did (Sd s n) = true).
    { destruct (did (Sd s n)) eqn:E; [reflexivity|]. rewrite (k_fresh c s I8 n E) in Hsp. discriminate. }
    apply HV_touch; rewrite ?Ax; auto; [apply (stepped_not_created c s n x Hst Hm)|apply (k_some c s I8 n x Hm Hdn)].
  - (* tidy_wake *)
    unfold sd_thread in Hth. destruct (sd_inline s n) eqn:Ein.
    + destruct Hx as [_ Hx]. apply HV_same. apply Hx.
    + destruct Hx as [Hph Hx]. destruct (Nat.eqb_spec x n) as [->|Hxn].
      * destruct Hth as [Hr Hc]. apply HV_hdone; auto.
        -- right. exact Hsp.
        -- rewrite B, Nat.eqb_refl. reflexivity.
        -- rewrite Hx, Nat.eqb_refl. destruct (scanc (Sd s n)); auto.
      * apply HV_same. rewrite Hx. apply Nat.eqb_neq in Hxn. rewrite Hxn. reflexivity.
  - (* cancel *)
    pose proof (A x) as Ax. cbn zeta in Ax.
    assert (Hl : forall y, In y (sd_cancel_list c s n) -> In y (members c n)).
    { intros y Hy. unfold sd_cancel_list in Hy. destruct (sp (Sd s n)) eqn:E; try (apply (k_spend c s I8 n y Hy)). exact Hy. }
    unfold sd_thread in Hth.
    destruct (memb x (sd_cancel_list c s n)) eqn:Em.
    + apply memb_In in Em. pose proof (Hl x Em) as Hm.
      assert (Hxn : x <> n) by (apply (member_neq c n x W Hm)).
      apply Nat.eqb_neq in Hxn. rewrite Hxn, andb_false_r in Ax.
      destruct (cancel_h_hs (Hd s x)) as [E1 E2].
      assert (Hdn : did (Sd s n) = true).
    { destruct (did (Sd s n)) eqn:E; [reflexivity|]. rewrite (k_fresh c s I8 n E) in Hsp. destruct Hsp as [Hq|Hq]; discriminate Hq. }
    apply HV_touch; rewrite ?Ax; auto; [apply (stepped_not_created c s n x Hst Hm)|apply (k_some c s I8 n x Hm Hdn)].
    + destruct (sd_inline s n) eqn:Ein; cbn [negb andb] in Ax; [apply HV_same; exact Ax|].
      destruct (Nat.eqb_spec x n) as [->|Hxn]; [|apply HV_same; exact Ax].
      destruct Hth as [Hr Hc]. apply HV_touch; rewrite ?Ax; cbn; auto; rewrite Hr; discriminate.
  - (* handler event *)
    destruct (Nat.eqb_spec x j) as [->|Hxj].
    + apply (HV_hevent c s s' j v); [rewrite A, Nat.eqb_refl; reflexivity|exact Hv].
    + apply HV_same. rewrite A. apply Nat.eqb_neq in Hxj. rewrite Hxj. reflexivity.
Qed.

(* ---------- preservation, clause by clause ---------- *)

Ltac hs_cases H :=
  destruct H as [hA hB hC|n0 hSch hRa hPh hI hO hA hB hN|n0 hSch hG hO hB hA hN|n0 hSp hF hTh hB hO hX hN
                 |n0 p0 hSp hP0 hP hDl hSt hTh hB hO hA hN|n0 hSp hF hTh hB hO hX hN|n0 hSp hSt hTh hB hO hA hN
                 |j0 v0 hA hB hO hN hV].

Lemma active_did c s n : Inv8 c s -> sd_active (sp (Sd s n)) -> did (Sd s n) = true.
Proof.
  intros I8 Ha. destruct (did (Sd s n)) eqn:E; [reflexivity|].
  rewrite (k_fresh c s I8 n E) in Ha. destruct Ha as [H|H]; discriminate H.
Qed.

Lemma member_parent c n x : In x (members c n) -> parent c x = n.
Proof. intros H. apply In_members in H. tauto. Qed.

Section Step8.
  Variables (c : cfg) (s s' : state).
  Hypothesis W : wf c = true.
  Hypothesis ID : InvD c s.
  Hypothesis I8 : Inv8 c s.
  Hypothesis HS : hs_step c s s'.

  Lemma s8_fresh n : did (Sd s' n) = false -> Sd s' n = init_s.
  Proof.
    intros Hd. destruct (sd_change c s s' HS n) as [E|[E _]]; [|congruence].
    rewrite E in *. apply (k_fresh c s I8 n Hd).
  Qed.

  Lemma s8_busy n : did (Sd s' n) = true -> sp (Sd s' n) <> SdIdle.
  Proof.
    intros Hd. destruct (sd_change c s s' HS n) as [E|[_ E]]; [|exact E].
    rewrite E in *. apply (k_busy c s I8 n Hd).
  Qed.

  Lemma s8_valid n : did (Sd s' n) = true -> sched_id c n = true.
  Proof.
    intros Hd. destruct (did (Sd s n)) eqn:E; [apply (k_valid c s I8 n E)|].
    pose proof HS as H. hs_cases H.
    - rewrite hB in Hd. congruence.
    - rewrite hB in Hd. unfold sd_create in Hd. destruct (Nat.eqb_spec n n0) as [->|Hm]; [exact hSch|congruence].
    - rewrite hB in Hd. unfold sd_create in Hd. destruct (Nat.eqb_spec n n0) as [->|Hm]; [exact hSch|congruence].
    - destruct (Nat.eqb_spec n n0) as [->|Hm].
      + rewrite (active_did c s n0 I8 (or_introl hSp)) in E. discriminate.
      + rewrite hB in Hd. apply Nat.eqb_neq in Hm. rewrite Hm in Hd. congruence.
    - destruct (Nat.eqb_spec n n0) as [->|Hm].
      + rewrite (active_did c s n0 I8 (or_introl hSp)) in E. discriminate.
      + rewrite hB in Hd. apply Nat.eqb_neq in Hm. rewrite Hm in Hd. congruence.
    - destruct (Nat.eqb_spec n n0) as [->|Hm].
      + rewrite (active_did c s n0 I8 (or_intror hSp)) in E. discriminate.
      + rewrite hB in Hd. apply Nat.eqb_neq in Hm. rewrite Hm in Hd. congruence.
    - destruct (Nat.eqb_spec n n0) as [->|Hm].
      + rewrite (active_did c s n0 I8 hSp) in E. discriminate.
      + rewrite hB in Hd. apply Nat.eqb_neq in Hm. rewrite Hm in Hd. congruence.
    - rewrite hB in Hd. congruence.
  Qed.

  (* a broadcast that starts creates the handler of every member *)
  Lemma start_creates n x : did (Sd s n) = false -> did (Sd s' n) = true -> In x (members c n) ->
    Hd s' x = mkHst HCreated false None.
  Proof.
    intros E Hd Hx. pose proof HS as H. hs_cases H.
    - rewrite hB in Hd. congruence.
    - destruct (Nat.eqb_spec n n0) as [->|Hm].
      + rewrite hA. unfold hd_create. rewrite E. apply memb_In in Hx. rewrite Hx. reflexivity.
      + rewrite hB in Hd. unfold sd_create in Hd. apply Nat.eqb_neq in Hm. rewrite Hm in Hd. congruence.
    - destruct (Nat.eqb_spec n n0) as [->|Hm].
      + rewrite hA. pose proof (member_neq c n0 x W Hx) as Hne. apply Nat.eqb_neq in Hne. rewrite Hne.
        unfold hd_create. rewrite E. apply memb_In in Hx. rewrite Hx. reflexivity.
      + rewrite hB in Hd. unfold sd_create in Hd. apply Nat.eqb_neq in Hm. rewrite Hm in Hd. congruence.
    - destruct (Nat.eqb_spec n n0) as [->|Hm].
      + rewrite (active_did c s n0 I8 (or_introl hSp)) in E. discriminate.
      + rewrite hB in Hd. apply Nat.eqb_neq in Hm. rewrite Hm in Hd. congruence.
    - destruct (Nat.eqb_spec n n0) as [->|Hm].
      + rewrite (active_did c s n0 I8 (or_introl hSp)) in E. discriminate.
      + rewrite hB in Hd. apply Nat.eqb_neq in Hm. rewrite Hm in Hd. congruence.
    - destruct (Nat.eqb_spec n n0) as [->|Hm].
      + rewrite (active_did c s n0 I8 (or_intror hSp)) in E. discriminate.
      + rewrite hB in Hd. apply Nat.eqb_neq in Hm. rewrite Hm in Hd. congruence.
    - destruct (Nat.eqb_spec n n0) as [->|Hm].
      + rewrite (active_did c s n0 I8 hSp) in E. discriminate.
      + rewrite hB in Hd. apply Nat.eqb_neq in Hm. rewrite Hm in Hd. congruence.
    - rewrite hB in Hd. congruence.
  Qed.

  Lemma s8_none n x : In x (members c n) -> did (Sd s' n) = false -> Hd s' x = init_h.
  Proof.
    intros Hx Hd.
    assert (E : did (Sd s n) = false).
    { destruct (did (Sd s n)) eqn:E; [|reflexivity]. rewrite (did_mono c s s' I8 HS n E) in Hd. discriminate. }
    pose proof (k_none c s I8 n x Hx E) as Hpre.
    assert (Hx0 : x <> 0) by (apply In_members in Hx; tauto).
    destruct (hd_view c s s' x W I8 HS) as [H|n1 H1 H2 H3 H4|H1 H2 H3 H4|H1 H2 H3 H4 H5|H1 H2 H3 H4 H5 H6|v H1 H2].
    - rewrite H. exact Hpre.
    - rewrite <- (member_parent c n1 x H1), (member_parent c n x Hx) in H3. congruence.
    - rewrite Hpre in H4. exfalso. apply H4. reflexivity.
    - rewrite Hpre in H2. destruct H2 as [[H2 _]|(_ & _ & H2 & _)]; [discriminate|contradiction].
    - rewrite Hpre in H1. discriminate.
    - rewrite Hpre in H2. destruct H2 as [(_ & H2 & _)|[(_ & H2 & _)|[(_ & H2 & _)|(_ & H2 & _)]]]; discriminate.
  Qed.

  Lemma hs_not_none x : hs (Hd s x) <> HNone -> hs (Hd s' x) <> HNone.
  Proof.
    intros Hpre.
    destruct (hd_view c s s' x W I8 HS) as [H|n1 H1 H2 H3 H4|H1 H2 H3 H4|H1 H2 H3 H4 H5|H1 H2 H3 H4 H5 H6|v H1 H2].
    - rewrite H. exact Hpre.
    - rewrite H4. discriminate.
    - rewrite H1. exact Hpre.
    - destruct H5 as [[H5 _]|[H5 _]]; rewrite H5; discriminate.
    - destruct H6 as [H6|H6]; rewrite H6; discriminate.
    - rewrite H1. destruct H2 as [(_ & _ & _ & ->)|[(_ & _ & _ & ->)|[(_ & _ & _ & ->)|(_ & _ & _ & ->)]]]; discriminate.
  Qed.

  Lemma s8_some n x : In x (members c n) -> did (Sd s' n) = true -> hs (Hd s' x) <> HNone.
  Proof.
    intros Hx Hd. destruct (did (Sd s n)) eqn:E.
    - apply hs_not_none. apply (k_some c s I8 n x Hx E).
    - rewrite (start_creates n x E Hd Hx). discriminate.
  Qed.

  Lemma s8_root : hs (Hd s' 0) <> HCreated.
  Proof.
    pose proof (k_root c s I8) as Hpre.
    destruct (hd_view c s s' 0 W I8 HS) as [H|n1 H1 H2 H3 H4|H1 H2 H3 H4|H1 H2 H3 H4 H5|H1 H2 H3 H4 H5 H6|v H1 H2].
    - rewrite H. exact Hpre.
    - apply In_members in H1. destruct H1 as (_ & _ & H1). contradiction.
    - rewrite H1. exact Hpre.
    - destruct H5 as [[H5 _]|[H5 _]]; rewrite H5; discriminate.
    - destruct H6 as [H6|H6]; rewrite H6; discriminate.
    - rewrite H1. destruct H2 as [(_ & _ & _ & ->)|[(_ & _ & _ & ->)|[(_ & _ & _ & ->)|(_ & _ & _ & ->)]]]; discriminate.
  Qed.

  Lemma s8_fifo x : hs (Hd s' x) = HCreated -> hcp (Hd s' x) = false.
  Proof.
    intros Hc.
    destruct (hd_view c s s' x W I8 HS) as [H|n1 H1 H2 H3 H4|H1 H2 H3 H4|H1 H2 H3 H4 H5|H1 H2 H3 H4 H5 H6|v H1 H2].
    - rewrite H in *. apply (k_fifo c s I8 x Hc).
    - rewrite H4. reflexivity.
    - rewrite H1 in Hc. contradiction.
    - destruct H5 as [[H5 _]|[H5 _]]; rewrite H5 in Hc; discriminate.
    - destruct H6 as [H6|H6]; rewrite H6 in Hc; discriminate.
    - rewrite H1 in Hc. destruct H2 as [(_ & _ & _ & ->)|[(_ & _ & _ & ->)|[(_ & _ & _ & ->)|(_ & _ & _ & ->)]]]; discriminate.
  Qed.

  (* a finished handler of a member stays as it is *)
  Lemma hfin_stable x : x <> 0 -> x < njobs c -> hfin s x = true -> hs (Hd s' x) = hs (Hd s x).
  Proof.
    intros Hx0 Hxl Hf. unfold hfin in Hf.
    destruct (hd_view c s s' x W I8 HS) as [H|n1 H1 H2 H3 H4|H1 H2 H3 H4|H1 H2 H3 H4 H5|H1 H2 H3 H4 H5 H6|v H1 H2].
    - rewrite H. reflexivity.
    - rewrite (k_none c s I8 n1 x H1 H2) in Hf. discriminate.
    - exact H1.
    - destruct H2 as [[H2 _]|(_ & _ & H2 & _)]; [rewrite H2 in Hf; discriminate|contradiction].
    - rewrite H1 in Hf. discriminate.
    - destruct H2 as [(_ & H2 & _)|[(_ & H2 & _)|[(_ & H2 & _)|(_ & H2 & _)]]]; rewrite H2 in Hf; discriminate.
  Qed.

  Lemma hfin_stable' x : x <> 0 -> x < njobs c -> hfin s x = true -> hfin s' x = true.
  Proof. intros A0 B0 Hf. unfold hfin in *. rewrite (hfin_stable x A0 B0 Hf). exact Hf. Qed.
End Step8.

Section Step8b.
  Variables (c : cfg) (s s' : state).
  Hypothesis W : wf c = true.
  Hypothesis ID : InvD c s.
  Hypothesis I8 : Inv8 c s.
  Hypothesis HS : hs_step c s s'.

  Lemma member_stable x n : In x (members c n) -> hfin s x = true -> hfin s' x = true.
  Proof.
    intros Hx. apply In_members in Hx. destruct Hx as (X1 & X2 & X3).
    apply (hfin_stable' c s s' W I8 HS x X3 X1).
  Qed.

  Lemma s8_spend n x : In x (spend (Sd s' n)) -> In x (members c n).
  Proof.
    intros Hx. pose proof HS as H. hs_cases H.
    - rewrite hB in Hx. apply (k_spend c s I8 n x Hx).
    - rewrite hB in Hx. unfold sd_create in Hx. destruct (Nat.eqb_spec n n0) as [->|Hm]; [|apply (k_spend c s I8 n x Hx)].
      destruct (did (Sd s n0)); [apply (k_spend c s I8 n0 x Hx)|]. unfold sd_started in Hx.
      destruct (members c n0) eqn:Em; [destruct Hx|exact Hx].
    - rewrite hB in Hx. unfold sd_create in Hx. destruct (Nat.eqb_spec n n0) as [->|Hm]; [|apply (k_spend c s I8 n x Hx)].
      destruct (did (Sd s n0)); [apply (k_spend c s I8 n0 x Hx)|]. unfold sd_started in Hx.
      destruct (members c n0) eqn:Em; [destruct Hx|exact Hx].
    - rewrite hB in Hx. destruct (Nat.eqb_spec n n0) as [->|Hm]; [destruct Hx|apply (k_spend c s I8 n x Hx)].
    - rewrite hB in Hx. destruct (Nat.eqb_spec n n0) as [->|Hm]; [|apply (k_spend c s I8 n x Hx)].
      cbn [spend] in Hx. apply hP in Hx. tauto.
    - rewrite hB in Hx. destruct (Nat.eqb_spec n n0) as [->|Hm]; [destruct Hx|apply (k_spend c s I8 n x Hx)].
    - rewrite hB in Hx. destruct (Nat.eqb_spec n n0) as [->|Hm]; [|apply (k_spend c s I8 n x Hx)].
      cbn [spend] in Hx. unfold sd_cancel_list in Hx.
      destruct (sp (Sd s n0)); try (apply (k_spend c s I8 n0 x Hx)). exact Hx.
    - rewrite hB in Hx. apply (k_spend c s I8 n x Hx).
  Qed.

  Lemma pre_tidy n x : Sd s' n = Sd s n -> sp (Sd s' n) = SdTidy -> In x (members c n) ->
    hfin s' x = true \/ In x (spend (Sd s' n)).
  Proof.
    intros E Hsp Hx. rewrite E in *. destruct (k_tidy c s I8 n x Hsp Hx) as [H|H]; [left|right; exact H].
    apply (member_stable x n Hx H).
  Qed.

  Lemma s8_tidy n x : sp (Sd s' n) = SdTidy -> In x (members c n) -> hfin s' x = true \/ In x (spend (Sd s' n)).
  Proof.
    intros Hsp Hx. pose proof HS as H. hs_cases H.
    - apply pre_tidy; auto.
    - destruct (Nat.eqb_spec n n0) as [->|Hm].
      + pose proof (hB n0) as E. unfold sd_create in E. rewrite Nat.eqb_refl in E.
        destruct (did (Sd s n0)); [apply pre_tidy; auto|].
        rewrite E in Hsp. unfold sd_started in Hsp. destruct (members c n0); discriminate.
      + apply pre_tidy; auto. rewrite hB. unfold sd_create. apply Nat.eqb_neq in Hm. rewrite Hm. reflexivity.
    - destruct (Nat.eqb_spec n n0) as [->|Hm].
      + pose proof (hB n0) as E. unfold sd_create in E. rewrite Nat.eqb_refl in E.
        destruct (did (Sd s n0)); [apply pre_tidy; auto|].
        rewrite E in Hsp. unfold sd_started in Hsp. destruct (members c n0); discriminate.
      + apply pre_tidy; auto. rewrite hB. unfold sd_create. apply Nat.eqb_neq in Hm. rewrite Hm. reflexivity.
    - destruct (Nat.eqb_spec n n0) as [->|Hm].
      + rewrite hB, Nat.eqb_refl in Hsp. discriminate.
      + apply pre_tidy; auto. rewrite hB. apply Nat.eqb_neq in Hm. rewrite Hm. reflexivity.
    - destruct (Nat.eqb_spec n n0) as [->|Hm].
      + rewrite hB, Nat.eqb_refl. cbn [spend]. destruct (hfin s x) eqn:Ef.
        * left. apply (member_stable x n0 Hx Ef).
        * right. apply hP. auto.
      + apply pre_tidy; auto. rewrite hB. apply Nat.eqb_neq in Hm. rewrite Hm. reflexivity.
    - destruct (Nat.eqb_spec n n0) as [->|Hm].
      + rewrite hB, Nat.eqb_refl in Hsp. discriminate.
      + apply pre_tidy; auto. rewrite hB. apply Nat.eqb_neq in Hm. rewrite Hm. reflexivity.
    - destruct (Nat.eqb_spec n n0) as [->|Hm].
      + rewrite hB, Nat.eqb_refl. cbn [spend]. unfold sd_cancel_list. destruct hSp as [E|E]; rewrite E.
        * right. exact Hx.
        * destruct (k_tidy c s I8 n0 x E Hx) as [H|H]; [left; apply (member_stable x n0 Hx H)|right; exact H].
      + apply pre_tidy; auto. rewrite hB. apply Nat.eqb_neq in Hm. rewrite Hm. reflexivity.
    - apply pre_tidy; auto.
  Qed.

  Lemma pre_over n x : Sd s' n = Sd s n -> sp (Sd s' n) = SdOver -> In x (members c n) -> hfin s' x = true.
  Proof.
    intros E Hsp Hx. rewrite E in *. apply (member_stable x n Hx). apply (k_over8 c s I8 n x Hsp Hx).
  Qed.

  Lemma s8_over n x : sp (Sd s' n) = SdOver -> In x (members c n) -> hfin s' x = true.
  Proof.
    intros Hsp Hx. pose proof HS as H. hs_cases H.
    - apply (pre_over n); auto.
    - destruct (Nat.eqb_spec n n0) as [->|Hm].
      + pose proof (hB n0) as E. unfold sd_create in E. rewrite Nat.eqb_refl in E.
        destruct (did (Sd s n0)); [apply (pre_over n0); auto|].
        rewrite E in Hsp. unfold sd_started in Hsp. destruct (members c n0); [destruct Hx|discriminate].
      + apply (pre_over n); auto. rewrite hB. unfold sd_create. apply Nat.eqb_neq in Hm. rewrite Hm. reflexivity.
    - destruct (Nat.eqb_spec n n0) as [->|Hm].
      + pose proof (hB n0) as E. unfold sd_create in E. rewrite Nat.eqb_refl in E.
        destruct (did (Sd s n0)); [apply (pre_over n0); auto|].
        rewrite E in Hsp. unfold sd_started in Hsp. destruct (members c n0); [destruct Hx|discriminate].
      + apply (pre_over n); auto. rewrite hB. unfold sd_create. apply Nat.eqb_neq in Hm. rewrite Hm. reflexivity.
    - destruct (Nat.eqb_spec n n0) as [->|Hm].
      + apply (member_stable x n0 Hx). apply hF. exact Hx.
      + apply (pre_over n); auto. rewrite hB. apply Nat.eqb_neq in Hm. rewrite Hm. reflexivity.
    - destruct (Nat.eqb_spec n n0) as [->|Hm].
      + rewrite hB, Nat.eqb_refl in Hsp. discriminate.
      + apply (pre_over n); auto. rewrite hB. apply Nat.eqb_neq in Hm. rewrite Hm. reflexivity.
    - destruct (Nat.eqb_spec n n0) as [->|Hm].
      + apply (member_stable x n0 Hx). destruct (k_tidy c s I8 n0 x hSp Hx) as [H|H]; [exact H|apply hF; exact H].
      + apply (pre_over n); auto. rewrite hB. apply Nat.eqb_neq in Hm. rewrite Hm. reflexivity.
    - destruct (Nat.eqb_spec n n0) as [->|Hm].
      + rewrite hB, Nat.eqb_refl in Hsp. discriminate.
      + apply (pre_over n); auto. rewrite hB. apply Nat.eqb_neq in Hm. rewrite Hm. reflexivity.
    - apply (pre_over n); auto.
  Qed.
End Step8b.

Section Step8c.
  Variables (c : cfg) (s s' : state).
  Hypothesis W : wf c = true.
  Hypothesis ID : InvD c s.
  Hypothesis I8 : Inv8 c s.
  Hypothesis HS : hs_step c s s'.

  Lemma over_sd_stable m : sp (Sd s m) = SdOver -> Sd s' m = Sd s m.
  Proof.
    intros Ho.
    assert (Hd : did (Sd s m) = true).
    { destruct (did (Sd s m)) eqn:E; [reflexivity|]. rewrite (k_fresh c s I8 m E) in Ho. discriminate. }
    pose proof HS as H. hs_cases H.
    - apply hB.
    - rewrite hB. unfold sd_create. destruct (Nat.eqb_spec m n0) as [->|Hm]; [rewrite Hd|]; reflexivity.
    - rewrite hB. unfold sd_create. destruct (Nat.eqb_spec m n0) as [->|Hm]; [rewrite Hd|]; reflexivity.
    - rewrite hB. destruct (Nat.eqb_spec m n0) as [->|Hm]; [congruence|reflexivity].
    - rewrite hB. destruct (Nat.eqb_spec m n0) as [->|Hm]; [congruence|reflexivity].
    - rewrite hB. destruct (Nat.eqb_spec m n0) as [->|Hm]; [congruence|reflexivity].
    - rewrite hB. destruct (Nat.eqb_spec m n0) as [->|Hm]; [destruct hSp; congruence|reflexivity].
    - apply hB.
  Qed.

  (* how the inline flag of a run may change *)
  Lemma inline_view m :
    sd_inline s' m = sd_inline s m \/
    (sd_inline s m = false /\ sd_inline s' m = true) \/
    (sd_inline s m = true /\ sd_inline s' m = false /\ ph (Rn s' m) = POver).
  Proof.
    pose proof HS as H. hs_cases H.
    - left. apply hC.
    - destruct (Nat.eqb_spec m n0) as [->|Hm].
      + destruct (sd_inline s n0) eqn:E; [left; rewrite hI; reflexivity|right; left; auto].
      + left. apply sd_inline_ph. apply hO. exact Hm.
    - left. apply sd_inline_ph. apply hO.
    - destruct (Nat.eqb_spec m n0) as [->|Hm]; [|left; apply sd_inline_ph; apply hO; exact Hm].
      destruct (sd_inline s n0) eqn:E.
      + destruct hX as [hX _]. right. right. split; [reflexivity|]. split; [|exact hX]. unfold sd_inline. rewrite hX. reflexivity.
      + destruct hX as [hX _]. left. rewrite (sd_inline_ph s s' n0 hX). exact E.
    - left. apply sd_inline_ph. apply hO.
    - destruct (Nat.eqb_spec m n0) as [->|Hm]; [|left; apply sd_inline_ph; apply hO; exact Hm].
      destruct (sd_inline s n0) eqn:E.
      + destruct hX as [hX _]. right. right. split; [reflexivity|]. split; [|exact hX]. unfold sd_inline. rewrite hX. reflexivity.
      + destruct hX as [hX _]. left. rewrite (sd_inline_ph s s' n0 hX). exact E.
    - left. apply sd_inline_ph. apply hO.
    - left. apply sd_inline_ph. apply hO.
  Qed.

  Lemma s8_inl n : sd_inline s' n = true -> did (Sd s' n) = true.
  Proof.
    intros Hi. destruct (sd_inline s n) eqn:E.
    - apply (did_mono c s s' I8 HS). apply (k_inl c s I8 n E).
    - pose proof HS as H. hs_cases H.
      + rewrite hC in Hi. congruence.
      + destruct (Nat.eqb_spec n n0) as [->|Hm].
        * rewrite hB. unfold sd_create. rewrite Nat.eqb_refl. destruct (did (Sd s n0)) eqn:Ed; [exact Ed|].
          unfold sd_started. destruct (members c n0); reflexivity.
        * rewrite (sd_inline_ph s s' n (hO n Hm)) in Hi. congruence.
      + rewrite (sd_inline_ph s s' n (hO n)) in Hi. congruence.
      + destruct (Nat.eqb_spec n n0) as [->|Hm]; [|rewrite (sd_inline_ph s s' n (hO n Hm)) in Hi; congruence].
        rewrite E in hX. destruct hX as [hX _]. rewrite (sd_inline_ph s s' n0 hX) in Hi. congruence.
      + rewrite (sd_inline_ph s s' n (hO n)) in Hi. congruence.
      + destruct (Nat.eqb_spec n n0) as [->|Hm]; [|rewrite (sd_inline_ph s s' n (hO n Hm)) in Hi; congruence].
        rewrite E in hX. destruct hX as [hX _]. rewrite (sd_inline_ph s s' n0 hX) in Hi. congruence.
      + rewrite (sd_inline_ph s s' n (hO n)) in Hi. congruence.
      + rewrite (sd_inline_ph s s' n (hO n)) in Hi. congruence.
  Qed.

  Lemma running_kept n : hs (Hd s n) = HRunning -> j_sched (jc c n) = true ->
    Hd s' n = Hd s n \/ hs (Hd s' n) = HRunning \/
    (sd_inline s n = false /\ sd_active (sp (Sd s n)) /\ Sd s' n = sd_over s n).
  Proof.
    intros Hr Hsch.
    destruct (hd_view c s s' n W I8 HS) as [H|n1 H1 H2 H3 H4|H1 H2 H3 H4|H1 H2 H3 H4 H5|H1 H2 H3 H4 H5 H6|v H1 H2].
    - left. exact H.
    - rewrite (k_none c s I8 n1 n H1 H2) in Hr. discriminate.
    - right. left. rewrite H1. exact Hr.
    - destruct H2 as [[H2 _]|(_ & H2 & _)]; [rewrite H2 in Hr; discriminate|contradiction].
    - right. right. auto.
    - destruct H2 as [(_ & H2 & _)|[(Ha & _)|[(Ha & _)|(_ & H2 & _)]]];
        try (rewrite H2 in Hr; discriminate);
        destruct (atomic_id_spec _ _ Ha) as (Ha1 & _); congruence.
  Qed.

  Lemma s8_thread n : sd_active (sp (Sd s' n)) -> sd_inline s' n = true \/ hs (Hd s' n) = HRunning.
  Proof.
    intros Ha.
    (* the cases where Sd n is unchanged and n is not the acting scheduler *)
    assert (Hpre : Sd s' n = Sd s n -> sd_inline s' n = sd_inline s n ->
                   sd_inline s' n = true \/ hs (Hd s' n) = HRunning).
    { intros E Ei. rewrite E in Ha. rewrite Ei.
      destruct (k_thread c s I8 n Ha) as [H|H]; [left; exact H|].
      assert (Hsch : j_sched (jc c n) = true).
      { pose proof (k_valid c s I8 n (active_did c s n I8 Ha)) as Hv. unfold sched_id in Hv.
        apply andb_true_iff in Hv. tauto. }
      destruct (running_kept n H Hsch) as [K|[K|(K1 & K2 & K3)]].
      - right. rewrite K. exact H.
      - right. exact K.
      - rewrite K3 in E. unfold sd_over in E. destruct Ha as [Ha|Ha]; rewrite <- E in Ha; discriminate. }
    pose proof HS as H. hs_cases H.
    - apply Hpre; [apply hB|apply hC].
    - destruct (Nat.eqb_spec n n0) as [->|Hm]; [left; exact hI|].
      apply Hpre; [rewrite hB; unfold sd_create; apply Nat.eqb_neq in Hm; rewrite Hm; reflexivity|].
      apply sd_inline_ph. apply hO. exact Hm.
    - destruct (Nat.eqb_spec n n0) as [->|Hm].
      + pose proof (hB n0) as E. unfold sd_create in E. rewrite Nat.eqb_refl in E.
        destruct (did (Sd s n0)) eqn:Ed.
        * rewrite E in Ha. destruct (k_thread c s I8 n0 Ha) as [K|K].
          -- left. rewrite (sd_inline_ph s s' n0 (hO n0)). exact K.
          -- exfalso. destruct hG as [[G _]|(_ & G & _)]; congruence.
        * right. rewrite hA, Nat.eqb_refl, ?Ed. rewrite E in Ha. unfold sd_started in Ha.
          destruct (members c n0); [destruct Ha as [Ha|Ha]; discriminate Ha|reflexivity].
      + apply Hpre; [rewrite hB; unfold sd_create; apply Nat.eqb_neq in Hm; rewrite Hm; reflexivity|].
        apply sd_inline_ph. apply hO.
    - destruct (Nat.eqb_spec n n0) as [->|Hm].
      + rewrite hB, Nat.eqb_refl in Ha. destruct Ha as [Ha|Ha]; discriminate Ha.
      + apply Hpre; [rewrite hB; apply Nat.eqb_neq in Hm; rewrite Hm; reflexivity|].
        apply sd_inline_ph. apply hO. exact Hm.
    - destruct (Nat.eqb_spec n n0) as [->|Hm].
      + unfold sd_thread in hTh. destruct (sd_inline s n0) eqn:Ei.
        * left. rewrite (sd_inline_ph s s' n0 (hO n0)). exact Ei.
        * right. destruct hTh as [Hr _]. rewrite hA. destruct (memb n0 p0); [|exact Hr].
          destruct (cancel_h_hs (Hd s n0)) as [E1 _]. rewrite E1. exact Hr.
      + apply Hpre; [rewrite hB; apply Nat.eqb_neq in Hm; rewrite Hm; reflexivity|].
        apply sd_inline_ph. apply hO.
    - destruct (Nat.eqb_spec n n0) as [->|Hm].
      + rewrite hB, Nat.eqb_refl in Ha. destruct Ha as [Ha|Ha]; discriminate Ha.
      + apply Hpre; [rewrite hB; apply Nat.eqb_neq in Hm; rewrite Hm; reflexivity|].
        apply sd_inline_ph. apply hO. exact Hm.
    - destruct (Nat.eqb_spec n n0) as [->|Hm].
      + unfold sd_thread in hTh. destruct (sd_inline s n0) eqn:Ei.
        * left. rewrite (sd_inline_ph s s' n0 (hO n0)). exact Ei.
        * right. destruct hTh as [Hr _]. rewrite hA. cbn zeta. rewrite Nat.eqb_refl. cbn [negb andb].
          destruct (memb n0 (sd_cancel_list c s n0)); [|exact Hr].
          destruct (cancel_h_hs (mkHst (hs (Hd s n0)) false (hend (Hd s n0)))) as [E1 _]. rewrite E1. exact Hr.
      + apply Hpre; [rewrite hB; apply Nat.eqb_neq in Hm; rewrite Hm; reflexivity|].
        apply sd_inline_ph. apply hO.
    - apply Hpre; [apply hB|apply sd_inline_ph; apply hO].
  Qed.
End Step8c.

Lemma phase_eq_dec (a b : phase) : {a = b} + {a <> b}.
Proof. decide equality; decide equality. Qed.

Section Step8d.
  Variables (c : cfg) (s s' : state).
  Hypothesis W : wf c = true.
  Hypothesis ID : InvD c s.
  Hypothesis I8 : Inv8 c s.
  Hypothesis HS : hs_step c s s'.
  (* from the run side *)
  Hypothesis Hover : forall m, ph (Rn s m) = POver -> ph (Rn s' m) = POver.
  Hypothesis Hidle : forall m, m <> 0 -> ph (Rn s m) = PIdle -> ph (Rn s' m) <> PIdle -> st (Jb s m) = Created.

  Lemma sp_cases x : sp x = SdIdle \/ sd_active (sp x) \/ sp x = SdOver.
  Proof. unfold sd_active. destruct (sp x); auto. Qed.

  (* a nested scheduler whose handler has not started yet and that has already broadcast is over *)
  Lemma did_created_over x : x <> 0 -> sched_id c x = true -> hs (Hd s x) = HCreated ->
    did (Sd s x) = true -> sp (Sd s x) = SdOver.
  Proof.
    intros Hx0 Hsch Hc Hdd.
    unfold sched_id in Hsch. apply andb_true_iff in Hsch. destruct Hsch as [Hsch Hlt]. apply Nat.ltb_lt in Hlt.
    destruct (sp_cases (Sd s x)) as [H|[H|H]]; [| |exact H].
    - exfalso. apply (k_busy c s I8 x Hdd H).
    - exfalso. destruct (k_thread c s I8 x H) as [Hi|Hr]; [|congruence].
      assert (Hh : hs (Hd s x) <> HNone) by (rewrite Hc; discriminate).
      destruct (handler_quiet c s x W ID I8 Hx0 Hlt Hh) as (_ & Hnl & _).
      destruct ID as [[I1 I3 I4 I5 I6] I7].
      assert (Hr : st (Jb s x) = Running).
      { apply (k_act c s I3 x Hx0 Hsch); unfold sd_inline in Hi; destruct (ph (Rn s x)); discriminate. }
      rewrite Hr in Hnl. discriminate.
  Qed.

  Lemma s8_nest x : x <> 0 -> j_sched (jc c x) = true -> hfin s' x = true -> sp (Sd s' x) = SdOver.
  Proof.
    intros Hx0 Hsch Hf. unfold hfin in Hf.
    assert (Hpre : hfin s x = true -> sp (Sd s' x) = SdOver).
    { intros Hf0. pose proof (k_nest c s I8 x Hx0 Hsch Hf0) as Ho.
      rewrite (over_sd_stable c s s' I8 HS x Ho). exact Ho. }
    destruct (hd_view c s s' x W I8 HS) as [H|n1 H1 H2 H3 H4|H1 H2 H3 H4|H1 H2 H3 H4 H5|H1 H2 H3 H4 H5 H6|v H1 H2].
    - apply Hpre. unfold hfin. rewrite <- H. exact Hf.
    - rewrite H4 in Hf. discriminate.
    - apply Hpre. unfold hfin. rewrite <- H1. exact Hf.
    - destruct H2 as [[G1 G2]|(_ & _ & G & _)]; [|contradiction].
      destruct H5 as [[E [Hdd|Hm]]|[E _]]; [| |rewrite E in Hf; discriminate].
      + rewrite H4. unfold sd_create. rewrite Nat.eqb_refl, Hdd. apply did_created_over; auto.
      + rewrite H4. unfold sd_create. rewrite Nat.eqb_refl. destruct (did (Sd s x)) eqn:Hdd.
        * apply did_created_over; auto.
        * unfold sd_started. rewrite Hm. reflexivity.
    - rewrite H4. reflexivity.
    - destruct H2 as [(_ & _ & _ & Ev)|[(Ha & _)|[(Ha & _)|(_ & G1 & G2 & _)]]].
      + rewrite H1, Ev in Hf. discriminate.
      + destruct (atomic_id_spec _ _ Ha) as (Ha1 & _). congruence.
      + destruct (atomic_id_spec _ _ Ha) as (Ha1 & _). congruence.
      + rewrite (k_fifo c s I8 x G1) in G2. discriminate.
  Qed.

  Lemma started_stable x : x <> 0 -> h_started (hs (Hd s x)) -> h_started (hs (Hd s' x)).
  Proof.
    intros Hx0 [S1 S2]. unfold h_started.
    destruct (hd_view c s s' x W I8 HS) as [H|n1 H1 H2 H3 H4|H1 H2 H3 H4|H1 H2 H3 H4 H5|H1 H2 H3 H4 H5 H6|v H1 H2].
    - rewrite H. auto.
    - rewrite (k_none c s I8 n1 x H1 H2) in S1. exfalso. apply S1. reflexivity.
    - rewrite H1. auto.
    - destruct H2 as [[G1 _]|(_ & _ & G & _)]; [contradiction|contradiction].
    - destruct H6 as [E|E]; rewrite E; split; discriminate.
    - rewrite H1. destruct H2 as [(_ & _ & _ & ->)|[(_ & _ & _ & ->)|[(_ & _ & _ & ->)|(_ & _ & _ & ->)]]]; split; discriminate.
  Qed.

  Lemma s8_phase n : did (Sd s' n) = true ->
    sd_inline s' n = true \/ ph (Rn s' n) = POver \/ (ph (Rn s' n) = PIdle /\ n <> 0 /\ h_started (hs (Hd s' n))).
  Proof.
    intros Hdd'. destruct (did (Sd s n)) eqn:Hdd.
    - destruct (k_phase c s I8 n Hdd) as [Hi|[Ho|(Hp & Hn0 & Hst)]].
      + destruct (inline_view c s s' HS n) as [E|[[E _]|(_ & _ & E)]]; [left; congruence|congruence|right; left; exact E].
      + right. left. apply Hover. exact Ho.
      + right. right. destruct (phase_eq_dec (ph (Rn s' n)) PIdle) as [E|E].
        * split; [exact E|]. split; [exact Hn0|]. apply started_stable; auto.
        * exfalso. pose proof (Hidle n Hn0 Hp E) as Hc.
          pose proof (k_valid c s I8 n Hdd) as Hv. unfold sched_id in Hv. apply andb_true_iff in Hv.
          destruct Hv as [_ Hlt]. apply Nat.ltb_lt in Hlt.
          destruct (handler_quiet c s n W ID I8 Hn0 Hlt (proj1 Hst)) as (_ & Hnl & _).
          rewrite Hc in Hnl. discriminate.
    - pose proof HS as H. hs_cases H.
      + rewrite hB in Hdd'. congruence.
      + destruct (Nat.eqb_spec n n0) as [->|Hm]; [left; exact hI|].
        rewrite hB in Hdd'. unfold sd_create in Hdd'. apply Nat.eqb_neq in Hm. rewrite Hm in Hdd'. congruence.
      + destruct (Nat.eqb_spec n n0) as [->|Hm].
        * destruct hG as [[G1 G2]|(_ & _ & G3 & G4)].
          -- assert (Hn0 : n0 <> 0).
             { intros ->. apply (k_root c s I8). exact G1. }
             pose proof hSch as Hv. unfold sched_id in Hv. apply andb_true_iff in Hv.
             destruct Hv as [Hs1 Hlt]. apply Nat.ltb_lt in Hlt.
             assert (Hh : hs (Hd s n0) <> HNone) by (rewrite G1; discriminate).
             destruct (handler_quiet c s n0 W ID I8 Hn0 Hlt Hh) as (_ & _ & Hset).
             destruct (Hset Hs1) as [Ho|Hp].
             ++ right. left. rewrite hO. exact Ho.
             ++ right. right. split; [rewrite hO; exact Hp|]. split; [exact Hn0|].
                rewrite hA, Nat.eqb_refl, ?Hdd. unfold h_started. destruct (members c n0); split; discriminate.
          -- right. left. subst n0. rewrite hO. exact G4.
        * rewrite hB in Hdd'. unfold sd_create in Hdd'. apply Nat.eqb_neq in Hm. rewrite Hm in Hdd'. congruence.
      + destruct (Nat.eqb_spec n n0) as [->|Hm].
        * rewrite (active_did c s n0 I8 (or_introl hSp)) in Hdd. discriminate.
        * rewrite hB in Hdd'. apply Nat.eqb_neq in Hm. rewrite Hm in Hdd'. congruence.
      + destruct (Nat.eqb_spec n n0) as [->|Hm].
        * rewrite (active_did c s n0 I8 (or_introl hSp)) in Hdd. discriminate.
        * rewrite hB in Hdd'. apply Nat.eqb_neq in Hm. rewrite Hm in Hdd'. congruence.
      + destruct (Nat.eqb_spec n n0) as [->|Hm].
        * rewrite (active_did c s n0 I8 (or_intror hSp)) in Hdd. discriminate.
        * rewrite hB in Hdd'. apply Nat.eqb_neq in Hm. rewrite Hm in Hdd'. congruence.
      + destruct (Nat.eqb_spec n n0) as [->|Hm].
        * rewrite (active_did c s n0 I8 hSp) in Hdd. discriminate.
        * rewrite hB in Hdd'. apply Nat.eqb_neq in Hm. rewrite Hm in Hdd'. congruence.
      + rewrite hB in Hdd'. congruence.
  Qed.
End Step8d.

Lemma phase_over_stable lvl c s e s' m : wf c = true -> Inv1 c s -> step lvl c s e = Some s' ->
  ph (Rn s m) = POver -> ph (Rn s' m) = POver.
Proof.
  intros W I1 Hs Ho.
  destruct (R_effect lvl c s e s' W (i_pend c s I1) Hs m)
    as [Hq _|Ha Hpre _ _ _ _ _ _ _ _ _ _ _ _|Ha _ Hp _ _ _ _ _ Hk _].
  - destruct Hq as [Hq _]. rewrite Hq. exact Ho.
  - exfalso. destruct (rootb m) eqn:Er.
    + rewrite Hpre in Ho. discriminate.
    + apply rootb_false in Er. rewrite (i_l1 c s I1 m Er (or_intror Hpre)) in Ho. discriminate.
  - exfalso. destruct Hk as [Hk|[Hk _]].
    + destruct Hk as (_ & _ & _ & _ & _ & _ & _ & Hk & _). contradiction.
    + rewrite Hk in Ho. discriminate.
Qed.

Lemma phase_idle_left lvl c s e s' m : wf c = true -> Inv1 c s -> step lvl c s e = Some s' ->
  m <> 0 -> ph (Rn s m) = PIdle -> ph (Rn s' m) <> PIdle -> st (Jb s m) = Created.
Proof.
  intros W I1 Hs Hm0 Hp Hp'.
  destruct (R_effect lvl c s e s' W (i_pend c s I1) Hs m)
    as [Hq _|Ha Hpre _ _ _ _ _ _ _ _ _ _ _ _|Ha _ Hpn _ _ _ _ _ Hk _].
  - destruct Hq as [Hq _]. rewrite Hq in Hp'. contradiction.
  - apply rootb_false in Hm0. rewrite Hm0 in Hpre. exact Hpre.
  - contradiction.
Qed.

Theorem Inv8_step lvl c s e s' : wf c = true -> 3 <= lvl -> InvD c s -> Inv8 c s ->
  step lvl c s e = Some s' -> Inv8 c s'.
Proof.
  intros W Hl ID I8 Hs.
  pose proof (ic_1 c s (id_c c s ID)) as I1.
  pose proof (HS_effect lvl c s e s' W I1 Hl Hs) as HS.
  split.
  - apply (s8_fresh c s s' I8 HS).
  - apply (s8_busy c s s' I8 HS).
  - apply (s8_valid c s s' I8 HS).
  - apply (s8_none c s s' W I8 HS).
  - apply (s8_some c s s' W I8 HS).
  - apply (s8_root c s s' W I8 HS).
  - apply (s8_fifo c s s' W I8 HS).
  - apply (s8_spend c s s' I8 HS).
  - apply (s8_tidy c s s' W I8 HS).
  - apply (s8_over c s s' W I8 HS).
  - apply (s8_nest c s s' W ID I8 HS).
  - apply (s8_thread c s s' W I8 HS).
  - apply (s8_inl c s s' I8 HS).
  - apply (s8_phase c s s' W ID I8 HS).
    + intros m. apply (phase_over_stable lvl c s e s' m W I1 Hs).
    + intros m. apply (phase_idle_left lvl c s e s' m W I1 Hs).
Qed.

Record InvE (c : cfg) (s : state) : Prop := { ie_d : InvD c s; ie_8 : Inv8 c s }.

Theorem InvE_reach lvl c h s : wf c = true -> 3 <= lvl -> Reach lvl c h s -> InvE c s.
Proof.
  intros W Hl Hr. revert h s Hr. apply reach_ind.
  - split; [|apply Inv8_init]. apply (InvD_reach lvl c [] init W). reflexivity.
  - intros h s e s' Hr [ID I8] Hs. split.
    + apply (InvD_reach lvl c (h ++ [e]) s' W). eapply reach_snoc; eauto.
    + eapply Inv8_step; eauto.
Qed.
