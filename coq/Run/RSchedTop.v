(* The closed-form schedule, stated with the executable solver (no hypothesis about S and E left),
   and the nested tree / flattened graph comparison in one statement. *)
From AJ Require Import Common.Util Run.RModel Run.RFacts Run.RSchedDef Run.RFlatten Run.RSolve Run.RSolveH Run.RSched.

Definition Sof (c : cfg) : nat -> N := tab (fst (solve c)).
Definition Eof (c : cfg) : nat -> N := tab (snd (solve c)).

Lemma solved c : wf c = true -> is_schedule c (Sof c) (Eof c).
Proof. exact (solve_is_schedule c). Qed.

(* every execution of a plain tree follows the computed schedule until a critical job raises *)
Theorem runs_on_computed_schedule c h s : wf c = true -> plain c = true ->
  Reach 3 c h s -> calm c (Eof c) s ->
  forall x, x < njobs c -> x <> 0 -> on_schedule c (Sof c) (Eof c) s x.
Proof. intros W P R C. exact (runs_on_schedule c (Sof c) (Eof c) h s W P (solved c W) R C). Qed.

(* ... where the computed start instant of x is the instant at which its scheduler has begun and
   its last requirement ends (the root beginning at 0) *)
Theorem computed_start c x : wf c = true -> x < njobs c -> x <> 0 ->
  Sof c x = maxl (Sof c (parent c x)) (map (Eof c) (reqs c x)) /\ Sof c 0 = 0%N.
Proof.
  intros W Hx Hn. destruct (solved c W) as [H0 H]. split; [|exact H0].
  destruct (H x Hx) as (HS & _ & _). exact (HS Hn).
Qed.

(* nested tree and flattened graph: the same instants for every job, and each of the two executions
   follows them *)
Theorem nested_and_flattened_run_alike c c' f : wf c = true -> wf c' = true ->
  plain c = true -> plain c' = true -> flat_ofb c c' f = true ->
  (forall x, atomic_id c x = true ->
     Sof c' (fname f x) = Sof c x /\ Eof c' (fname f x) = Eof c x) /\
  (forall h s, Reach 3 c h s -> calm c (Eof c) s ->
     forall x, x < njobs c -> x <> 0 -> on_schedule c (Sof c) (Eof c) s x) /\
  (forall h s, Reach 3 c' h s -> calm c' (Eof c') s ->
     forall k, k < njobs c' -> k <> 0 -> on_schedule c' (Sof c') (Eof c') s k).
Proof.
  intros W W' P P' F. split; [|split].
  - exact (same_times_as_flattened c c' f (Sof c) (Eof c) (Sof c') (Eof c') W W' F (solved c W) (solved c' W')).
  - intros h s. exact (runs_on_computed_schedule c h s W P).
  - intros h s. exact (runs_on_computed_schedule c' h s W' P').
Qed.

(* timeouts that the computed schedule does not reach have no effect: the tree runs exactly as the
   tree without them (same Sof, Eof: the equations do not mention timeouts) and no timeout fires *)
Definition slack_ok (c : cfg) : bool := slackb c (fst (solve c)) (snd (solve c)).

Theorem unreached_timeouts_have_no_effect c h s : wf c = true -> plainT c = true -> slack_ok c = true ->
  Reach 3 c h s -> calm c (Eof c) s ->
  (forall x, x < njobs c -> x <> 0 -> on_schedule c (Sof c) (Eof c) s x) /\
  (forall n, n < njobs c -> j_sched (jc c n) = true ->
     okph (ph (Rn s n)) /\
     (ph (Rn s n) = PMain -> forall T, j_timeout (jc c n) = Some T ->
        expi (Rn s n) = Some (Sof c n + T)%N /\ (now s <= Eof c n)%N /\ (Eof c n < Sof c n + T)%N)).
Proof.
  intros W P K R C.
  assert (HS : is_schedule c (Sof c) (Eof c)) by exact (solved c W).
  assert (HK : slack c (Sof c) (Eof c)) by exact (slackb_sound c _ _ K).
  split.
  - exact (runs_on_schedule_timeouts c (Sof c) (Eof c) h s W P HS HK R C).
  - intros n Hn Hs.
    destruct (timeouts_never_fire c (Sof c) (Eof c) h s W P HS HK R C n Hn Hs) as [Hok _].
    split; [exact Hok|]. intros Hm T HT.
    destruct (expiration_ahead c (Sof c) (Eof c) h s W P HS HK R C n T Hn Hs HT Hm) as (A & B & D).
    repeat split; assumption.
Qed.

(* shutdown handlers that take time: the schedule with shutdown phases, stated with the executable
   solver solveH; a nested scheduler ends -- for the jobs that require it -- after its own shutdown phase *)
Definition SofH (c : cfg) : nat -> N := tab (fst (solveH c)).
Definition EofH (c : cfg) : nat -> N := tab (snd (solveH c)).
Definition solvedH_ok (c : cfg) : bool := is_scheduleHb c (fst (solveH c)) (snd (solveH c)).
Definition slackH_ok (c : cfg) : bool :=
  forallb (fun n => negb (j_sched (jc c n)) ||
                    match j_timeout (jc c n) with
                    | Some T => N.ltb (maxl (SofH c n) (map (EofH c) (members c n))) (SofH c n + T)
                    | None => true
                    end) (all_ids c).

Lemma slackH_ok_sound c : slackH_ok c = true -> slackH c (SofH c) (EofH c).
Proof.
  unfold slackH_ok, slackH. intros H n T Hn Hs HT. rewrite forallb_forall in H.
  assert (Hin : In n (all_ids c)) by (unfold all_ids; apply In_seqn; exact Hn).
  specialize (H n Hin). rewrite Hs, HT in H. cbn in H. apply N.ltb_lt. exact H.
Qed.

Theorem runs_on_computed_scheduleH c h s : wf c = true -> plainH c = true ->
  slackH_ok c = true -> Reach 3 c h s -> calm c (EofH c) s ->
  (forall x, x < njobs c -> x <> 0 -> on_schedule c (SofH c) (EofH c) s x) /\
  (forall n, n < njobs c -> j_sched (jc c n) = true ->
     let M := maxl (SofH c n) (map (EofH c) (members c n)) in
     (ph (Rn s n) = PMain -> (SofH c n <= now s)%N /\ (now s <= M)%N) /\
     (ph (Rn s n) = PShut WSuccess -> (M <= now s)%N /\ (now s <= M + shut_len c n)%N) /\
     (ph (Rn s n) = POver -> (M + shut_len c n <= now s)%N /\ (n <> 0 -> (EofH c n <= now s)%N)) /\
     okph (ph (Rn s n))).
Proof.
  intros W P L R C.
  assert (HS : is_scheduleH c (SofH c) (EofH c)) by exact (solveH_is_schedule c W).
  assert (HL : slackH c (SofH c) (EofH c)) by exact (slackH_ok_sound c L).
  split.
  - exact (runs_on_scheduleH c (SofH c) (EofH c) h s W P HS HL R C).
  - exact (shutdown_phase_on_schedule c (SofH c) (EofH c) h s W P HS HL R C).
Qed.
