(* [solve] is complete: on every well-formed tree, iterating the scheduling equations
   2 * njobs + 2 times from the all-zero tables reaches the schedule, so the check
   [is_scheduleb] on the result of [solve] always passes.

   Proof.  Let (Ss, Es) be the schedule (RFlatten.schedule_exists).  [dS c k x] / [dE c k x] are
   boolean tables that say, by the shape of the equations only, that the entry S x / E x is settled
   after k rounds: S x is settled one round after S (parent x) and the E of its requirements; E x is
   settled in the same round as S x (the round computes lE' from the new lS'), one round after the E
   of its members.
   - soundness: a settled entry is equal to the schedule in every later iterate;
   - monotony: a settled entry stays settled;
   - progress: while some entry is not settled, the next round settles at least one more (follow the
     dependencies down from an unsettled entry, along the order of RFlatten: [rank]);
   - counting: there are 2 * njobs entries, so all are settled after 2 * njobs + 1 rounds.
   No axioms. *)
From AJ Require Import Common.Util Run.RModel Run.RFacts Run.RSchedDef Run.RFlatten.

(* ------------------------------------------------------------------ tables *)

Lemma nth_map_seqn (f : nat -> N) n x d : x < n -> nth x (map f (seqn n)) d = f x.
Proof.
  induction n as [|n IH]; intros Hx; [lia|].
  simpl. rewrite map_app. destruct (Nat.eq_dec x n) as [->|Hn].
  - rewrite app_nth2; rewrite map_length, length_seqn; [|lia]. rewrite Nat.sub_diag. reflexivity.
  - rewrite app_nth1; [apply IH; lia|]. rewrite map_length, length_seqn. lia.
Qed.

Lemma round_S c SE x : x < njobs c ->
  tab (fst (round c SE)) x =
  if Nat.eqb x 0 then 0%N else maxl (tab (fst SE) (parent c x)) (map (tab (snd SE)) (reqs c x)).
Proof.
  intros Hx. destruct SE as [lS lE]. unfold round, tab, all_ids. simpl.
  rewrite nth_map_seqn by exact Hx. reflexivity.
Qed.

Lemma round_E c SE x : x < njobs c ->
  tab (snd (round c SE)) x =
  if j_sched (jc c x) then maxl (tab (fst (round c SE)) x) (map (tab (snd SE)) (members c x))
  else (tab (fst (round c SE)) x + durN c x)%N.
Proof.
  intros Hx. destruct SE as [lS lE]. unfold round, tab, all_ids. simpl.
  rewrite (nth_map_seqn _ (njobs c) x) by exact Hx. reflexivity.
Qed.

Lemma iter_round_S k c : forall SE, iter_round (S k) c SE = round c (iter_round k c SE).
Proof.
  induction k as [|k IH]; intros SE; [reflexivity|].
  change (iter_round (S (S k)) c SE) with (iter_round (S k) c (round c SE)).
  rewrite IH. reflexivity.
Qed.

Definition zeros (c : cfg) : list N * list N :=
  (map (fun _ => 0%N) (all_ids c), map (fun _ => 0%N) (all_ids c)).
Definition iter (c : cfg) (k : nat) : list N * list N := iter_round k c (zeros c).

Lemma iter_S c k : iter c (S k) = round c (iter c k).
Proof. unfold iter. apply iter_round_S. Qed.

Lemma solve_iter c : solve c = iter c (2 * njobs c + 2).
Proof. reflexivity. Qed.

(* ------------------------------------------------------------------ settled entries *)

Definition nextS (c : cfg) (ds de : nat -> bool) (x : nat) : bool :=
  Nat.eqb x 0 || (ds (parent c x) && forallb de (reqs c x)).
Definition nextE (c : cfg) (ds' de : nat -> bool) (x : nat) : bool :=
  ds' x && (if j_sched (jc c x) then forallb de (members c x) else true).

Fixpoint dd (c : cfg) (k : nat) : (nat -> bool) * (nat -> bool) :=
  match k with
  | O => (fun _ => false, fun _ => false)
  | S k' => let ds' := nextS c (fst (dd c k')) (snd (dd c k')) in
            (ds', nextE c ds' (snd (dd c k')))
  end.
Definition dS (c : cfg) (k : nat) : nat -> bool := fst (dd c k).
Definition dE (c : cfg) (k : nat) : nat -> bool := snd (dd c k).

Lemma dS_0 c x : dS c 0 x = false.
Proof. reflexivity. Qed.
Lemma dE_0 c x : dE c 0 x = false.
Proof. reflexivity. Qed.
Lemma dS_S c k x : dS c (S k) x = nextS c (dS c k) (dE c k) x.
Proof. reflexivity. Qed.
Lemma dE_S c k x : dE c (S k) x = nextE c (dS c (S k)) (dE c k) x.
Proof. reflexivity. Qed.

Lemma forallb_mono (p q : nat -> bool) l :
  (forall y, p y = true -> q y = true) -> forallb p l = true -> forallb q l = true.
Proof. intros Hpq. rewrite !forallb_forall. intros Hp y Hy. apply Hpq. apply Hp. exact Hy. Qed.

Lemma forallb_false (p : nat -> bool) l :
  forallb p l = false -> exists y, In y l /\ p y = false.
Proof.
  induction l as [|a l IH]; simpl; intros Hf; [discriminate|].
  destruct (p a) eqn:Pa.
  - simpl in Hf. destruct (IH Hf) as (y & Hy & Py). exists y. auto.
  - exists a. auto.
Qed.

Lemma nextS_mono c (ds de ds' de' : nat -> bool) x :
  (forall y, ds y = true -> ds' y = true) -> (forall y, de y = true -> de' y = true) ->
  nextS c ds de x = true -> nextS c ds' de' x = true.
Proof.
  intros Hs He. unfold nextS. rewrite !orb_true_iff, !andb_true_iff.
  intros [H0|[H1 H2]]; [left; exact H0|right]. split; [apply Hs; exact H1|].
  apply (forallb_mono de de' _ He H2).
Qed.

Lemma nextE_mono c (ds de ds' de' : nat -> bool) x :
  (forall y, ds y = true -> ds' y = true) -> (forall y, de y = true -> de' y = true) ->
  nextE c ds de x = true -> nextE c ds' de' x = true.
Proof.
  intros Hs He. unfold nextE. rewrite !andb_true_iff. intros [H1 H2]. split; [apply Hs; exact H1|].
  destruct (j_sched (jc c x)); [|reflexivity]. apply (forallb_mono de de' _ He H2).
Qed.

(* monotony *)
Lemma dd_mono c k :
  (forall x, dS c k x = true -> dS c (S k) x = true) /\
  (forall x, dE c k x = true -> dE c (S k) x = true).
Proof.
  induction k as [|k [IHs IHe]].
  - split; intros x Hx; [rewrite dS_0 in Hx|rewrite dE_0 in Hx]; discriminate.
  - assert (Hs : forall x, dS c (S k) x = true -> dS c (S (S k)) x = true).
    { intros x Hx. rewrite dS_S in Hx. rewrite dS_S. apply (nextS_mono c _ _ _ _ x IHs IHe Hx). }
    split; [exact Hs|]. intros x Hx. rewrite dE_S in Hx. rewrite dE_S.
    apply (nextE_mono c _ _ _ _ x Hs IHe Hx).
Qed.

Lemma dS_mono c k x : dS c k x = true -> dS c (S k) x = true.
Proof. apply (dd_mono c k). Qed.
Lemma dE_mono c k x : dE c k x = true -> dE c (S k) x = true.
Proof. apply (dd_mono c k). Qed.

(* ------------------------------------------------------------------ soundness *)

Section Sound.
Variables (c : cfg) (Ss Es : nat -> N).
Hypothesis W : wf c = true.
Hypothesis H : is_schedule c Ss Es.

Definition okS (k x : nat) : Prop := forall k', k <= k' -> tab (fst (iter c k')) x = Ss x.
Definition okE (k x : nat) : Prop := forall k', k <= k' -> tab (snd (iter c k')) x = Es x.

Lemma sound_S_step k :
  (forall x, x < njobs c -> dS c k x = true -> okS k x) ->
  (forall x, x < njobs c -> dE c k x = true -> okE k x) ->
  forall x, x < njobs c -> dS c (S k) x = true -> okS (S k) x.
Proof.
  intros IHs IHe x Hx Hd k' Hk. destruct k' as [|k']; [lia|]. assert (Hk' : k <= k') by lia.
  rewrite iter_S, round_S by exact Hx. rewrite dS_S in Hd. unfold nextS in Hd.
  destruct (Nat.eqb_spec x 0) as [->|Hn].
  - destruct H as [H0 _]. rewrite H0. reflexivity.
  - simpl in Hd. apply andb_true_iff in Hd. destruct Hd as [Hp Hq]. rewrite forallb_forall in Hq.
    destruct (wf_parent c x W Hx Hn) as [Hlt _].
    rewrite (sch_S c Ss Es H x Hx Hn). apply maxl_map_ext.
    + apply (IHs (parent c x)); [lia|exact Hp|exact Hk'].
    + intros r Hr. destruct (req_facts c x r W Hx Hr) as (_ & Hr' & _).
      apply (IHe r Hr' (Hq r Hr) k' Hk').
Qed.

Lemma sound_E_step k :
  (forall x, x < njobs c -> dS c (S k) x = true -> okS (S k) x) ->
  (forall x, x < njobs c -> dE c k x = true -> okE k x) ->
  forall x, x < njobs c -> dE c (S k) x = true -> okE (S k) x.
Proof.
  intros IHs IHe x Hx Hd k' Hk. pose proof Hk as Hk0. destruct k' as [|k']; [lia|].
  assert (Hk' : k <= k') by lia.
  rewrite dE_S in Hd. unfold nextE in Hd. apply andb_true_iff in Hd. destruct Hd as [Hs Hm].
  pose proof (IHs x Hx Hs (S k') Hk0) as HS. rewrite iter_S in HS.
  rewrite iter_S, round_E by exact Hx. rewrite HS.
  destruct (j_sched (jc c x)) eqn:Hsch.
  - rewrite forallb_forall in Hm. rewrite (sch_Es c Ss Es H x Hx Hsch).
    apply maxl_map_ext; [reflexivity|]. intros m Hin.
    pose proof Hin as Hin'. apply In_members in Hin'. destruct Hin' as (Hm' & _ & _).
    apply (IHe m Hm' (Hm m Hin) k' Hk').
  - rewrite (sch_Ea c Ss Es H x Hx Hsch). reflexivity.
Qed.

Lemma sound k :
  (forall x, x < njobs c -> dS c k x = true -> okS k x) /\
  (forall x, x < njobs c -> dE c k x = true -> okE k x).
Proof.
  induction k as [|k [IHs IHe]].
  - split; intros x _ Hd; [rewrite dS_0 in Hd|rewrite dE_0 in Hd]; discriminate.
  - assert (Hs : forall x, x < njobs c -> dS c (S k) x = true -> okS (S k) x)
      by (apply sound_S_step; assumption).
    split; [exact Hs|]. apply sound_E_step; assumption.
Qed.

End Sound.

(* ------------------------------------------------------------------ progress *)

Section Progress.
Variable c : cfg.
Hypothesis W : wf c = true.

(* the next round settles one more entry *)
Definition gain (k : nat) : Prop :=
  exists x, x < njobs c /\
    ((dS c k x = false /\ dS c (S k) x = true) \/ (dE c k x = false /\ dE c (S k) x = true)).

Lemma gain_below k fuel : forall r, r <> 0 -> r < njobs c -> rank c r <= fuel ->
  dS c k (parent c r) = true -> dS c k r = false \/ dE c k r = false -> gain k.
Proof.
  induction fuel as [|f IH]; intros r Hn Hr Hk Hp Hf.
  { pose proof (rank_pos c r Hr). lia. }
  destruct (dS c k r) eqn:Hs.
  - destruct Hf as [Hf|Hf]; [discriminate|].
    pose proof (dS_mono c k r Hs) as Hs'.
    destruct (j_sched (jc c r)) eqn:Hsch.
    + destruct (forallb (dE c k) (members c r)) eqn:Hm.
      * exists r. split; [exact Hr|]. right. split; [exact Hf|].
        rewrite dE_S. unfold nextE. rewrite Hs', Hsch, Hm. reflexivity.
      * apply forallb_false in Hm. destruct Hm as (m & Hin & Hfm).
        pose proof (rank_member c r m W Hr Hin) as Hrk.
        apply In_members in Hin. destruct Hin as (Hm' & Hpm & H0).
        apply (IH m H0 Hm'); [lia|rewrite Hpm; exact Hs|right; exact Hfm].
    + exists r. split; [exact Hr|]. right. split; [exact Hf|].
      rewrite dE_S. unfold nextE. rewrite Hs', Hsch. reflexivity.
  - destruct (forallb (dE c k) (reqs c r)) eqn:Hq.
    + exists r. split; [exact Hr|]. left. split; [exact Hs|].
      rewrite dS_S. unfold nextS. rewrite Hp, Hq. apply orb_true_r.
    + apply forallb_false in Hq. destruct Hq as (r' & Hin & Hfr).
      pose proof (rank_req c r r' W Hr Hn Hin) as Hrk.
      destruct (req_facts c r r' W Hr Hin) as (_ & Hr' & H0 & Hpr & _).
      apply (IH r' H0 Hr'); [lia|rewrite Hpr; exact Hp|right; exact Hfr].
Qed.

Lemma gain_any k : forall x, x < njobs c -> dS c k x = false \/ dE c k x = false -> gain k.
Proof.
  intros x. induction x as [x IH] using lt_wf_ind. intros Hx Hf.
  destruct (Nat.eq_dec x 0) as [->|Hn].
  - destruct (dS c k 0) eqn:Hs.
    + destruct Hf as [Hf|Hf]; [discriminate|].
      destruct (wf_root c W) as (_ & _ & _ & Hsch).
      destruct (forallb (dE c k) (members c 0)) eqn:Hm.
      * exists 0. split; [exact Hx|]. right. split; [exact Hf|].
        rewrite dE_S. unfold nextE. rewrite (dS_mono c k 0 Hs), Hsch, Hm. reflexivity.
      * apply forallb_false in Hm. destruct Hm as (m & Hin & Hfm).
        apply In_members in Hin. destruct Hin as (Hm' & Hpm & H0).
        apply (gain_below k (njobs c) m H0 Hm' (rank_le c m)); [rewrite Hpm; exact Hs|right; exact Hfm].
    + exists 0. split; [exact Hx|]. left. split; [exact Hs|]. rewrite dS_S. reflexivity.
  - destruct (wf_parent c x W Hx Hn) as [Hlt _].
    destruct (dS c k (parent c x)) eqn:Hp.
    + apply (gain_below k (njobs c) x Hn Hx (rank_le c x) Hp Hf).
    + apply (IH (parent c x) Hlt); [lia|left; exact Hp].
Qed.

(* counting *)
Definition settled (k : nat) : nat :=
  length (filter (dS c k) (all_ids c)) + length (filter (dE c k) (all_ids c)).

Lemma settled_le k : settled k <= 2 * njobs c.
Proof.
  unfold settled. pose proof (filter_len_le (dS c k) (all_ids c)) as H1.
  pose proof (filter_len_le (dE c k) (all_ids c)) as H2.
  unfold all_ids in *. rewrite length_seqn in H1, H2. lia.
Qed.

Lemma settled_gain k : gain k -> settled k < settled (S k).
Proof.
  intros (x & Hx & Hg). unfold settled.
  pose proof (filter_len_mono (dS c k) (dS c (S k)) (all_ids c) (fun y _ => dS_mono c k y)) as H1.
  pose proof (filter_len_mono (dE c k) (dE c (S k)) (all_ids c) (fun y _ => dE_mono c k y)) as H2.
  apply In_all_ids in Hx. destruct Hg as [[A B]|[A B]].
  - pose proof (filter_len_lt (dS c k) (dS c (S k)) (all_ids c) x (fun y _ => dS_mono c k y) Hx B A). lia.
  - pose proof (filter_len_lt (dE c k) (dE c (S k)) (all_ids c) x (fun y _ => dE_mono c k y) Hx B A). lia.
Qed.

Definition all_settled (k : nat) : Prop :=
  forall x, x < njobs c -> dS c k x = true /\ dE c k x = true.

Lemma all_settled_S k : all_settled k -> all_settled (S k).
Proof. intros Ha x Hx. destruct (Ha x Hx) as [A B]. split; [apply dS_mono|apply dE_mono]; assumption. Qed.

Lemma settled_or_count k : all_settled k \/ k <= settled k.
Proof.
  induction k as [|k [IH|IH]]; [right; lia|left; apply all_settled_S; exact IH|].
  destruct (forallb (fun x => dS c k x && dE c k x) (all_ids c)) eqn:Hall.
  - left. apply all_settled_S. intros x Hx. rewrite forallb_forall in Hall.
    specialize (Hall x (proj2 (In_all_ids c x) Hx)). apply andb_true_iff in Hall. exact Hall.
  - right. apply forallb_false in Hall. destruct Hall as (x & Hin & Hf).
    apply In_all_ids in Hin. apply andb_false_iff in Hf.
    pose proof (settled_gain k (gain_any k x Hin Hf)). lia.
Qed.

Lemma all_settled_end : all_settled (2 * njobs c + 2).
Proof.
  destruct (settled_or_count (2 * njobs c + 2)) as [Ha|Hc]; [exact Ha|].
  pose proof (settled_le (2 * njobs c + 2)). lia.
Qed.

End Progress.

(* ------------------------------------------------------------------ the theorem *)

Lemma is_schedule_agree c (S E S' E' : nat -> N) : wf c = true -> is_schedule c S E ->
  (forall x, x < njobs c -> S' x = S x /\ E' x = E x) -> is_schedule c S' E'.
Proof.
  intros W H Ha. destruct (wf_root c W) as (Hpos & _).
  split.
  - destruct (Ha 0 Hpos) as [A _]. rewrite A. destruct H as [H0 _]. exact H0.
  - intros x Hx. destruct (Ha x Hx) as [Ax Bx]. repeat split.
    + intros Hn. rewrite Ax, (sch_S c S E H x Hx Hn). destruct (wf_parent c x W Hx Hn) as [Hlt _].
      apply maxl_map_ext.
      * symmetry. apply Ha. lia.
      * intros r Hr. destruct (req_facts c x r W Hx Hr) as (_ & Hr' & _). symmetry. apply Ha. exact Hr'.
    + intros Hs. rewrite Bx, Ax. apply (sch_Ea c S E H x Hx Hs).
    + intros Hs. rewrite Bx, (sch_Es c S E H x Hx Hs). apply maxl_map_ext.
      * symmetry. exact Ax.
      * intros m Hm. apply In_members in Hm. destruct Hm as (Hm & _ & _). symmetry. apply Ha. exact Hm.
Qed.

Lemma solve_agrees c S E : wf c = true -> is_schedule c S E ->
  forall x, x < njobs c -> tab (fst (solve c)) x = S x /\ tab (snd (solve c)) x = E x.
Proof.
  intros W H x Hx. rewrite solve_iter.
  destruct (all_settled_end c W x Hx) as [A B].
  destruct (sound c S E W H (2 * njobs c + 2)) as [HS HE].
  split; [apply (HS x Hx A)|apply (HE x Hx B)]; apply Nat.le_refl.
Qed.

Corollary solve_is_schedule c : wf c = true ->
  is_schedule c (tab (fst (solve c))) (tab (snd (solve c))).
Proof.
  intros W. destruct (schedule_exists c W) as (S & E & H).
  apply (is_schedule_agree c S E _ _ W H). apply (solve_agrees c S E W H).
Qed.

Theorem solve_complete c : wf c = true ->
  let '(lS, lE) := solve c in is_scheduleb c lS lE = true.
Proof.
  intros W. pose proof (solve_is_schedule c W) as H.
  destruct (solve c) as [lS lE]. apply is_scheduleb_iff. exact H.
Qed.

Corollary solve_is_the_schedule c S E : wf c = true -> is_schedule c S E ->
  forall x, x < njobs c -> S x = tab (fst (solve c)) x /\ E x = tab (snd (solve c)) x.
Proof.
  intros W H x Hx. destruct (solve_agrees c S E W H x Hx) as [A B]. auto.
Qed.

Print Assumptions solve_complete.
Print Assumptions solve_is_schedule.
Print Assumptions solve_is_the_schedule.
