(* Progress (C03), the core: an admissible tree never reaches a dead state -- a state in which no
   activity is enabled and no deadline is pending -- before the root run is over. *)
From AJ Require Import Common.Util Run.RModel Run.RFacts Run.RFacts2 Run.RInv Run.RInv2 Run.RInv3 Run.RInv4 Run.RInv5
  Run.RProps1 Run.RProps3 Run.RWin Run.RProps4 Run.RShut1 Run.RShut2 Run.RTime Run.RInvP Run.RFlip Run.RAdm.

(* ---------- a run in its main loop has not been cancelled ---------- *)

Definition InvM (s : state) : Prop := forall n, ph (Rn s n) = PMain -> rcanc (Rn s n) = false.

Lemma InvM_step lvl c s e s' : wf c = true -> Inv1 c s -> InvM s -> step lvl c s e = Some s' -> InvM s'.
Proof.
  intros W I1 IM Hs n Hp.
  destruct (R_effect lvl c s e s' W (i_pend c s I1) Hs n)
    as [Hq _|Ha Hpre _ _ _ _ _ _ _ _ _ Hrc _ _|Ha _ _ _ _ _ Hk _ Hu _].
  - destruct Hq as (Q1 & _ & _ & _ & _ & _ & _ & _ & Q9). rewrite Q9. apply IM. rewrite <- Q1. exact Hp.
  - exact Hrc.
  - assert (Hpm : ph (Rn s n) = PMain).
    { destruct (phase_eq_dec (ph (Rn s n)) PMain) as [E|E]; [exact E|]. exfalso. apply (Hk E). exact Hp. }
    destruct Hu as [Hu|[_ (d & _ & _ & Hu)]].
    + destruct Hu as (_ & _ & _ & _ & _ & Hu & _). destruct (Hu Hpm) as [E|E]; rewrite E in Hp; discriminate.
    + destruct Hu as (_ & Hu & _). rewrite Hu. apply IM. exact Hpm.
Qed.

Theorem InvM_reach lvl c h s : wf c = true -> Reach lvl c h s -> InvM s.
Proof.
  intros W Hr. revert h s Hr. apply reach_ind.
  - intros n H. discriminate.
  - intros h s e s' Hr IM Hs. eapply InvM_step; eauto. eapply Inv1_reach; eauto.
Qed.

(* ---------- the admissibility predicate, unfolded (fuel does not matter for negative answers) ---------- *)

Lemma ne_fuel_S f c i : ne_fuel (S f) c i =
  if j_sched (jc c i) then
    match j_timeout (jc c i) with
    | Some _ => false
    | None =>
        match members c i with
        | [] => false
        | _ =>
            match filter (fun k => negb (j_forever (jc c k))) (members c i) with
            | [] => forallb (fun k => ne_fuel f c k || blk_fuel f c k) (members c i)
            | fin => existsb (fun k => ne_fuel f c k || blk_fuel f c k) fin
            end
        end
    end
  else match j_dur (jc c i) with None => true | Some _ => false end.
Proof. cbn [ne_fuel]. destruct (members c i); reflexivity. Qed.

Lemma blk_fuel_S f c i : blk_fuel (S f) c i = existsb (fun r => ne_fuel f c r || blk_fuel f c r) (reqs c i).
Proof. reflexivity. Qed.

Lemma fuel_mono c : forall f i,
  (ne_fuel f c i = false -> ne_fuel (S f) c i = false) /\ (blk_fuel f c i = false -> blk_fuel (S f) c i = false).
Proof.
  induction f as [|f IH]; intros i; [split; discriminate|].
  split.
  - intros H. rewrite ne_fuel_S in H. rewrite ne_fuel_S. destruct (j_sched (jc c i)); [|exact H].
    destruct (j_timeout (jc c i)); [reflexivity|].
    destruct (members c i) as [|k0 ks]; [reflexivity|].
    destruct (filter (fun k => negb (j_forever (jc c k))) (k0 :: ks)) as [|a fin].
    + (* forallb = false: some member neither never-ending nor blocked *)
      assert (Hex : exists k, In k (k0 :: ks) /\ (ne_fuel f c k || blk_fuel f c k) = false).
      { clear -H. induction (k0 :: ks) as [|x l IHl]; [discriminate|]. cbn [forallb] in H.
        destruct (ne_fuel f c x || blk_fuel f c x) eqn:E.
        - destruct (IHl H) as (k & Hk & E2). exists k. split; [right; exact Hk|exact E2].
        - exists x. split; [left; reflexivity|exact E]. }
      destruct Hex as (k & Hk & E). apply orb_false_iff in E. destruct E as [E1 E2].
      destruct (IH k) as [A B].
      assert (Hf : (ne_fuel (S f) c k || blk_fuel (S f) c k) = false) by (rewrite (A E1), (B E2); reflexivity).
      clear -Hk Hf. induction (k0 :: ks) as [|x l IHl]; [destruct Hk|]. cbn [forallb]. destruct Hk as [->|Hk].
      * rewrite Hf. reflexivity.
      * rewrite (IHl Hk). apply andb_false_r.
    + assert (Hall : forall k, In k (a :: fin) -> (ne_fuel (S f) c k || blk_fuel (S f) c k) = false).
      { intros k Hk. assert (E : (ne_fuel f c k || blk_fuel f c k) = false).
        { destruct (ne_fuel f c k || blk_fuel f c k) eqn:E; [|reflexivity].
          assert (existsb (fun k => ne_fuel f c k || blk_fuel f c k) (a :: fin) = true)
            by (apply existsb_exists; exists k; auto). congruence. }
        apply orb_false_iff in E. destruct E as [E1 E2]. destruct (IH k) as [A B]. rewrite (A E1), (B E2). reflexivity. }
      destruct (existsb (fun k => ne_fuel (S f) c k || blk_fuel (S f) c k) (a :: fin)) eqn:E; [|reflexivity].
      apply existsb_exists in E. destruct E as (k & Hk & E). rewrite (Hall k Hk) in E. discriminate.
  - intros H. rewrite blk_fuel_S in H. rewrite blk_fuel_S.
    destruct (existsb (fun r => ne_fuel (S f) c r || blk_fuel (S f) c r) (reqs c i)) eqn:E; [|reflexivity].
    apply existsb_exists in E. destruct E as (r & Hr & E).
    assert (E0 : (ne_fuel f c r || blk_fuel f c r) = false).
    { destruct (ne_fuel f c r || blk_fuel f c r) eqn:E0; [|reflexivity].
      assert (existsb (fun r => ne_fuel f c r || blk_fuel f c r) (reqs c i) = true)
        by (apply existsb_exists; exists r; auto). congruence. }
    apply orb_false_iff in E0. destruct E0 as [E1 E2]. destruct (IH r) as [A B].
    rewrite (A E1), (B E2) in E. discriminate.
Qed.

Lemma blocked_false c x : blocked c x = false ->
  forall r, In r (reqs c x) -> never_ends c r = false /\ blocked c r = false.
Proof.
  unfold blocked, never_ends, fuel_of. set (f := 2 * njobs c + 1). replace (2 * njobs c + 2) with (S f) by (unfold f; lia).
  intros H r Hr. rewrite blk_fuel_S in H.
  assert (E0 : (ne_fuel f c r || blk_fuel f c r) = false).
  { destruct (ne_fuel f c r || blk_fuel f c r) eqn:E0; [|reflexivity].
    assert (existsb (fun r => ne_fuel f c r || blk_fuel f c r) (reqs c x) = true)
      by (apply existsb_exists; exists r; auto). congruence. }
  apply orb_false_iff in E0. destruct E0 as [E1 E2]. destruct (fuel_mono c f r) as [A B]. auto.
Qed.

Lemma never_ends_atomic c x : j_sched (jc c x) = false -> never_ends c x = false -> j_dur (jc c x) <> None.
Proof.
  unfold never_ends, fuel_of. replace (2 * njobs c + 2) with (S (2 * njobs c + 1)) by lia.
  intros Ha H. rewrite ne_fuel_S, Ha in H. destruct (j_dur (jc c x)); [discriminate|discriminate].
Qed.

Lemma never_ends_sched c n : j_sched (jc c n) = true -> j_timeout (jc c n) = None ->
  filter (fun k => negb (j_forever (jc c k))) (members c n) <> [] -> never_ends c n = false ->
  forall k, In k (members c n) -> j_forever (jc c k) = false -> never_ends c k = false /\ blocked c k = false.
Proof.
  unfold never_ends, blocked, fuel_of. set (f := 2 * njobs c + 1). replace (2 * njobs c + 2) with (S f) by (unfold f; lia).
  intros Hs Ht Hfin H k Hk Hnf. rewrite ne_fuel_S, Hs, Ht in H.
  destruct (members c n) as [|k0 ks] eqn:Em; [destruct Hk|].
  destruct (filter (fun k => negb (j_forever (jc c k))) (k0 :: ks)) as [|a fin] eqn:Ef; [contradiction|].
  assert (Hkf : In k (a :: fin)).
  { rewrite <- Ef. apply filter_In. split; [exact Hk|]. rewrite Hnf. reflexivity. }
  assert (E0 : (ne_fuel f c k || blk_fuel f c k) = false).
  { destruct (ne_fuel f c k || blk_fuel f c k) eqn:E0; [|reflexivity].
    assert (existsb (fun k => ne_fuel f c k || blk_fuel f c k) (a :: fin) = true)
      by (apply existsb_exists; exists k; auto). congruence. }
  apply orb_false_iff in E0. destruct E0 as [E1 E2]. destruct (fuel_mono c f k) as [A B]. auto.
Qed.

Lemma timeout_above_less c : forall f n, timeout_above (S f) c n = false -> timeout_above f c n = false.
Proof.
  induction f as [|f IH]; intros n H; [reflexivity|].
  cbn [timeout_above] in *. destruct (j_timeout (jc c n)); [discriminate|].
  destruct (negb (Nat.eqb n 0)); [|reflexivity]. cbn [andb] in *. apply IH. exact H.
Qed.

Lemma timeout_above_child c N n x : timeout_above (S N) c n = false -> parent c x = n ->
  j_timeout (jc c x) = None -> timeout_above (S N) c x = false.
Proof.
  intros H Hp Ht. cbn [timeout_above]. rewrite Ht, Hp. rewrite (timeout_above_less c N n H). apply andb_false_r.
Qed.

(* ---------- counting ---------- *)

Lemma filter_pigeon (P Q : nat -> bool) (l : list nat) :
  length (filter P l) < length (filter Q l) -> exists x, In x l /\ Q x = true /\ P x = false.
Proof.
  induction l as [|a l IH]; cbn [filter]; intros H; [cbn in H; lia|].
  destruct (Q a) eqn:Eq, (P a) eqn:Ep; cbn [length] in H.
  - destruct IH as (x & Hx & H1 & H2); [lia|]. exists x. split; [right; exact Hx|auto].
  - exists a. split; [left; reflexivity|auto].
  - destruct IH as (x & Hx & H1 & H2); [lia|]. exists x. split; [right; exact Hx|auto].
  - destruct IH as (x & Hx & H1 & H2); [lia|]. exists x. split; [right; exact Hx|auto].
Qed.

Lemma NoDup_filter (f : nat -> bool) l : NoDup l -> NoDup (filter f l).
Proof.
  induction 1 as [|a l Ha Hl IH]; cbn; [constructor|]. destruct (f a); [|exact IH].
  constructor; [|exact IH]. intro H. apply filter_In in H. tauto.
Qed.

(* ---------- a dead state ---------- *)

Section Dead.
  Variables (c : cfg) (h : list event) (s : state).
  Hypothesis W : wf c = true.
  Hypothesis Hr : Reach 3 c h s.
  Hypothesis IP : InvP c s.
  Hypothesis IQ : InvQ c s.
  Hypothesis Hq : quiescent c s = true.
  Hypothesis Hd0 : deadlines c s = [].

  Let IE := InvE_reach 3 c h s W (le_n 3) Hr.
  Let ID := ie_d c s IE.
  Let I8 := ie_8 c s IE.
  Let IC := id_c c s ID.
  Let I1 := ic_1 c s IC.
  Let I3 := ic_3 c s IC.
  Let I4 := ic_4 c s IC.
  Let I5 := ic_5 c s IC.
  Let I6 := ic_6 c s IC.
  Let I7 := id_7 c s ID.
  Let I2 := i12_2 c s (Inv12_reach 3 c h s W Hr).
  Let IT := InvT_reach 3 c h s W (le_S 2 2 (le_n 2)) Hr.
  Let IT3 := InvT3_reach 3 c h s W (le_n 3) Hr.
  Let IM := InvM_reach 3 c h s W Hr.

  Lemma no_deadline d : ~ In d (deadlines c s).
  Proof. rewrite Hd0. intros []. Qed.

  (* jobs *)
  Lemma dead_running j : j_sched (jc c j) = false -> st (Jb s j) = Running ->
    cp (Jb s j) = false /\ tend (Jb s j) = None.
  Proof.
    intros Ha Hst.
    assert (Hj : j < njobs c) by (apply (t_validj c s IT); rewrite Hst; discriminate).
    pose proof (quiescent_job c s j Hq Hj) as He. unfold job_enabled in He. cbn zeta in He. rewrite Hst, Ha in He.
    apply orb_false_iff in He. destruct He as [He1 He2]. split; [exact He1|].
    destruct (tend (Jb s j)) as [d|] eqn:Ed; [exfalso|reflexivity].
    cbn [opt_le_now] in He2. apply N.leb_gt in He2.
    apply (no_deadline d). apply (In_deadlines_job c s j d Hj Ha (or_introl Hst) Ed He2).
  Qed.

  Lemma dead_no_cancelling j : st (Jb s j) <> Cancelling.
  Proof.
    intros Hst. destruct (p_canc c s IP j Hst) as [Ha Ht].
    assert (Hj : j < njobs c) by (apply (t_validj c s IT); rewrite Hst; discriminate).
    pose proof (quiescent_job c s j Hq Hj) as He. unfold job_enabled in He. cbn zeta in He. rewrite Hst in He.
    apply orb_false_iff in He. destruct He as [_ He2].
    destruct (tend (Jb s j)) as [d|] eqn:Ed; [|contradiction].
    cbn [opt_le_now] in He2. apply N.leb_gt in He2.
    apply (no_deadline d). apply (In_deadlines_job c s j d Hj Ha (or_intror Hst) Ed He2).
  Qed.

  Lemma dead_created j : st (Jb s j) = Created -> cp (Jb s j) = false /\ slot_free c s (parent c j) = false.
  Proof.
    intros Hst.
    assert (Hj : j < njobs c) by (apply (t_validj c s IT); rewrite Hst; discriminate).
    pose proof (quiescent_job c s j Hq Hj) as He. unfold job_enabled in He. cbn zeta in He. rewrite Hst in He.
    apply orb_false_iff in He. exact He.
  Qed.

  (* handlers *)
  Lemma dead_no_hcreated j : hs (Hd s j) <> HCreated.
  Proof.
    intros Hh.
    assert (Hj : j < njobs c) by (apply (t_validh c s IT3); rewrite Hh; discriminate).
    pose proof (quiescent_handler c s j Hq Hj) as He. unfold handler_enabled in He. cbn zeta in He.
    rewrite Hh in He. discriminate.
  Qed.

  Lemma dead_hrunning j : j_sched (jc c j) = false -> hs (Hd s j) = HRunning ->
    hcp (Hd s j) = false /\ hend (Hd s j) = None.
  Proof.
    intros Ha Hh.
    assert (Hj : j < njobs c) by (apply (t_validh c s IT3); rewrite Hh; discriminate).
    pose proof (quiescent_handler c s j Hq Hj) as He. unfold handler_enabled in He. cbn zeta in He.
    rewrite Hh, Ha in He. apply orb_false_iff in He. destruct He as [He1 He2]. split; [exact He1|].
    destruct (hend (Hd s j)) as [d|] eqn:Ed; [exfalso|reflexivity].
    cbn [opt_le_now] in He2. apply N.leb_gt in He2.
    apply (no_deadline d). apply (In_deadlines_handler c s j d Hj Ha Hh Ed He2).
  Qed.

  (* runs *)
  Definition cpn (n : nat) : bool := if Nat.eqb n 0 then false else cp (Jb s n).

  Lemma dead_run n : sched_id c n = true -> run_enabled c s n = false.
  Proof.
    intros Hs. unfold sched_id in Hs. apply andb_true_iff in Hs. destruct Hs as [Hs1 Hs2]. apply Nat.ltb_lt in Hs2.
    apply (quiescent_run c s n Hq Hs2 Hs1).
  Qed.

  Lemma dead_main n : sched_id c n = true -> ph (Rn s n) = PMain ->
    cpn n = false /\ (forall x, In x (pend (Rn s n)) -> jfin s x = false) /\ expi (Rn s n) = None.
  Proof.
    intros Hs Hp. pose proof (dead_run n Hs) as He. unfold run_enabled in He. cbn zeta in He. rewrite Hp in He.
    apply orb_false_iff in He. destruct He as [He He3]. apply orb_false_iff in He. destruct He as [He1 He2].
    split; [exact He1|]. split.
    - intros x Hx. destruct (jfin s x) eqn:E; [|reflexivity].
      assert (existsb (jfin s) (pend (Rn s n)) = true) by (apply existsb_exists; exists x; auto). congruence.
    - destruct (expi (Rn s n)) as [d|] eqn:Ed; [exfalso|reflexivity].
      cbn [opt_le_now] in He3. apply N.leb_gt in He3.
      apply (no_deadline d). apply (In_deadlines_run c s n d Hs Hp Ed He3).
  Qed.

  Lemma dead_tidy n : sched_id c n = true -> ((exists w, ph (Rn s n) = PTidy w) \/ ph (Rn s n) = PCTidy) ->
    cpn n = false /\ exists x, In x (pend (Rn s n)) /\ jfin s x = false.
  Proof.
    intros Hs Hp. pose proof (dead_run n Hs) as He. unfold run_enabled in He. cbn zeta in He.
    assert (He' : (cpn n || forallb (jfin s) (pend (Rn s n))) = false).
    { destruct Hp as [[w Hp]|Hp]; rewrite Hp in He; exact He. }
    apply orb_false_iff in He'. destruct He' as [He1 He2]. split; [exact He1|].
    clear -He2. induction (pend (Rn s n)) as [|a l IH]; [discriminate|]. cbn [forallb] in He2.
    destruct (jfin s a) eqn:E.
    - destruct (IH He2) as (x & Hx & Ex). exists x. split; [right; exact Hx|exact Ex].
    - exists a. split; [left; reflexivity|exact E].
  Qed.

  (* a broadcast that is active and whose thread is not enabled *)
  Lemma dead_sd_wait n b : sched_id c n = true -> sp (Sd s n) = SdWait -> sd_enabled c s n b = false ->
    b = false /\ sdl (Sd s n) = None /\ exists z, In z (members c n) /\ hfin s z = false.
  Proof.
    intros Hs Hp He. unfold sd_enabled in He. cbn zeta in He. rewrite Hp in He.
    apply orb_false_iff in He. destruct He as [He He3]. apply orb_false_iff in He. destruct He as [He1 He2].
    split; [exact He1|]. split.
    - destruct (sdl (Sd s n)) as [d|] eqn:Ed; [exfalso|reflexivity].
      cbn [opt_le_now] in He3. apply N.leb_gt in He3.
      apply (no_deadline d). apply (In_deadlines_sd c s n d Hs Hp Ed He3).
    - clear -He2. induction (members c n) as [|a l IH]; [discriminate|]. cbn [forallb] in He2.
      destruct (hfin s a) eqn:E.
      + destruct (IH He2) as (x & Hx & Ex). exists x. split; [right; exact Hx|exact Ex].
      + exists a. split; [left; reflexivity|exact E].
  Qed.

  Lemma dead_sd_tidy n b : sp (Sd s n) = SdTidy -> sd_enabled c s n b = false ->
    b = false /\ exists z, In z (spend (Sd s n)) /\ hfin s z = false.
  Proof.
    intros Hp He. unfold sd_enabled in He. cbn zeta in He. rewrite Hp in He.
    apply orb_false_iff in He. destruct He as [He1 He2]. split; [exact He1|].
    clear -He2. induction (spend (Sd s n)) as [|a l IH]; [discriminate|]. cbn [forallb] in He2.
    destruct (hfin s a) eqn:E.
    - destruct (IH He2) as (x & Hx & Ex). exists x. split; [right; exact Hx|exact Ex].
    - exists a. split; [left; reflexivity|exact E].
  Qed.
End Dead.

(* ---------- the analysis ---------- *)

Definition active (p : phase) : Prop := p <> PIdle /\ p <> POver.

Section Stuck.
  Variables (c : cfg) (h : list event) (s : state).
  Hypothesis W : wf c = true.
  Hypothesis Adm : admissible c = true.
  Hypothesis Hr : Reach 3 c h s.
  Hypothesis IP : InvP c s.
  Hypothesis IQ : InvQ c s.
  Hypothesis Hq : quiescent c s = true.
  Hypothesis Hd0 : deadlines c s = [].

  Let IE := InvE_reach 3 c h s W (le_n 3) Hr.
  Let ID := ie_d c s IE.
  Let I8 := ie_8 c s IE.
  Let IC := id_c c s ID.
  Let I1 := ic_1 c s IC.
  Let I3 := ic_3 c s IC.
  Let I4 := ic_4 c s IC.
  Let I5 := ic_5 c s IC.
  Let I6 := ic_6 c s IC.
  Let I7 := id_7 c s ID.
  Let I2 := i12_2 c s (Inv12_reach 3 c h s W Hr).
  Let IT3 := InvT3_reach 3 c h s W (le_n 3) Hr.
  Let IM := InvM_reach 3 c h s W Hr.
  Let Hwacc := Wacc_reach 3 c h s W Hr.

  Lemma sched_id_parts n : sched_id c n = true -> j_sched (jc c n) = true /\ n < njobs c.
  Proof. unfold sched_id. rewrite andb_true_iff, Nat.ltb_lt. tauto. Qed.

  Lemma sched_id_of n : j_sched (jc c n) = true -> n < njobs c -> sched_id c n = true.
  Proof. intros A B. unfold sched_id. rewrite A. apply Nat.ltb_lt in B. rewrite B. reflexivity. Qed.

  Lemma adm_sched n : sched_id c n = true -> sched_admissible c n = true.
  Proof.
    intros Hs. destruct (sched_id_parts n Hs) as [A B].
    unfold admissible in Adm. apply andb_true_iff in Adm. destruct Adm as [Adm1 _].
    apply andb_true_iff in Adm1. destruct Adm1 as [_ Adm1]. rewrite forallb_forall in Adm1. apply Adm1.
    unfold scheds. apply filter_In. split; [apply In_all_ids; exact B|exact A].
  Qed.

  Lemma adm_handler j : j < njobs c -> handler_admissible c j = true.
  Proof.
    intros Hj. unfold admissible in Adm. apply andb_true_iff in Adm. destruct Adm as [_ Adm2].
    rewrite forallb_forall in Adm2. apply Adm2. apply In_all_ids. exact Hj.
  Qed.

  (* a nested scheduler that is running as a job has an active run *)
  Lemma running_active x : x <> 0 -> j_sched (jc c x) = true -> st (Jb s x) = Running -> active (ph (Rn s x)).
  Proof.
    intros Hx0 Hs Hst. split; intro E.
    - pose proof (k_idle c s I3 x Hx0 Hs E) as Hran.
      rewrite (i_ran1 c s I2 x (or_introl Hst)) in Hran. discriminate.
    - destruct (k_over c s I3 x Hx0 Hs E) as [Hf _]. rewrite Hst in Hf. discriminate.
  Qed.

  (* ----- broadcasts ----- *)
  Lemma sd_stuck : forall fuel y, njobs c - y < fuel -> sched_id c y = true -> sd_active (sp (Sd s y)) ->
    (exists b, sd_enabled c s y b = false) -> False.
  Proof.
    induction fuel as [|fuel IH]; intros y Hf Hs Ha [b He]; [lia|].
    destruct (sched_id_parts y Hs) as [Hsch Hlt].
    pose proof (active_did c s y I8 Ha) as Hdid.
    destruct Ha as [Hw|Ht].
    - destruct (dead_sd_wait c s Hd0 y b Hs Hw He) as (_ & Hsdl & z & Hz & Hzf).
      pose proof (proj1 (In_members c y z) Hz) as (Hzl & Hzp & Hz0).
      pose proof (k_some c s I8 y z Hz Hdid) as Hnn.
      unfold hfin in Hzf. destruct (hs (Hd s z)) eqn:Ehz; try discriminate.
      + contradiction.
      + apply (dead_no_hcreated c h s W Hr Hq z Ehz).
      + destruct (j_sched (jc c z)) eqn:Ezs.
        * destruct (q_hrun c s IQ z Ezs Ehz) as [Haz Hiz].
          pose proof (quiescent_sdtask c s z Hq Hzl Ezs) as Hez. unfold sdtask_enabled in Hez. rewrite Ehz in Hez.
          apply (IH z); [destruct (wf_parent c z W Hzl Hz0) as [Hpl _]; lia|apply sched_id_of; auto|exact Haz|].
          exists (hcp (Hd s z)). exact Hez.
        * destruct (dead_hrunning c h s W Hr Hq Hd0 z Ezs Ehz) as [_ Hend].
          pose proof (proj1 (q_hdur c s IQ z Ezs Ehz) Hend) as Hsdur.
          pose proof (adm_handler z Hzl) as Hadm. unfold handler_admissible in Hadm.
          rewrite Ezs, Hsdur, Hzp in Hadm. apply Nat.eqb_neq in Hz0. rewrite Hz0 in Hadm. cbn [orb] in Hadm.
          pose proof (proj1 (q_sdl c s IQ y Hw) Hsdl) as Hsdto. rewrite Hsdto in Hadm. discriminate.
    - destruct (dead_sd_tidy c s y b Ht He) as (_ & z & Hz & Hzf).
      pose proof (k_spend c s I8 y z Hz) as Hzm.
      pose proof (proj1 (In_members c y z) Hzm) as (Hzl & Hzp & Hz0).
      pose proof (k_some c s I8 y z Hzm Hdid) as Hnn.
      destruct (q_spcp c s IQ y z Ht Hz) as [Hfz|[Hcz|(Ezs & Ehz & Etz & _)]]; [congruence| |].
      2:{ (* z has consumed the cancellation and is tidying its own handlers *)
          pose proof (quiescent_sdtask c s z Hq Hzl Ezs) as Hez. unfold sdtask_enabled in Hez. rewrite Ehz in Hez.
          apply (IH z); [destruct (wf_parent c z W Hzl Hz0) as [Hpl _]; lia|apply sched_id_of; auto|right; exact Etz|].
          exists (hcp (Hd s z)). exact Hez. }
      unfold hfin in Hzf. destruct (hs (Hd s z)) eqn:Ehz; try discriminate.
      + contradiction.
      + apply (dead_no_hcreated c h s W Hr Hq z Ehz).
      + destruct (j_sched (jc c z)) eqn:Ezs.
        * destruct (q_hrun c s IQ z Ezs Ehz) as [Haz Hiz].
          pose proof (quiescent_sdtask c s z Hq Hzl Ezs) as Hez. unfold sdtask_enabled in Hez. rewrite Ehz, Hcz in Hez.
          unfold sd_enabled in Hez. cbn zeta in Hez. destruct Haz as [E|E]; rewrite E in Hez; discriminate.
        * destruct (dead_hrunning c h s W Hr Hq Hd0 z Ezs Ehz) as [Hc _]. congruence.
  Qed.

  (* ----- runs ----- *)
  Definition ctx (n : nat) : Prop := ph (Rn s n) = PMain -> timeout_above (S (njobs c)) c n = false.

  Lemma shut_stuck n w : sched_id c n = true -> ph (Rn s n) = PShut w -> False.
  Proof.
    intros Hs Hp. pose proof (dead_run c s Hq n Hs) as He. unfold run_enabled in He. cbn zeta in He. rewrite Hp in He.
    apply (sd_stuck (S (njobs c)) n); [lia|exact Hs| |eexists; exact He].
    apply (q_inl c s IQ). unfold sd_inline. rewrite Hp. reflexivity.
  Qed.

  (* a cancel request that has reached a run is acted upon *)
  Lemma cancel_pending_enabled x : x <> 0 -> sched_id c x = true -> active (ph (Rn s x)) -> cp (Jb s x) = true -> False.
  Proof.
    intros Hx0 Hs [Ha1 Ha2] Hcp. pose proof (dead_run c s Hq x Hs) as He. unfold run_enabled in He. cbn zeta in He.
    apply Nat.eqb_neq in Hx0. rewrite Hx0, Hcp in He.
    destruct (ph (Rn s x)) eqn:Ep; try discriminate; try contradiction.
    unfold sd_enabled in He. cbn zeta in He.
    assert (Hact : sd_active (sp (Sd s x))) by (apply (q_inl c s IQ); unfold sd_inline; rewrite Ep; reflexivity).
    destruct Hact as [E|E]; rewrite E in He; discriminate.
  Qed.

  Lemma run_stuck : forall fuel n, njobs c - n < fuel -> sched_id c n = true -> active (ph (Rn s n)) -> ctx n -> False.
  Proof.
    induction fuel as [|fuel IH]; intros n Hf Hs Hact Hctx; [lia|].
    destruct (sched_id_parts n Hs) as [Hsch Hlt].
    (* what to do with a nested member that is running *)
    assert (Hnested : forall x, In x (members c n) -> j_sched (jc c x) = true -> st (Jb s x) = Running ->
              (ph (Rn s x) = PMain -> timeout_above (S (njobs c)) c x = false) -> False).
    { intros x Hx Hxs Hxr Hxc. pose proof (proj1 (In_members c n x) Hx) as (Hxl & Hxp & Hx0).
      apply (IH x); [destruct (wf_parent c x W Hxl Hx0) as [Hpl _]; lia|apply sched_id_of; auto| |exact Hxc].
      apply running_active; auto. }
    destruct (ph (Rn s n)) eqn:Ep.
    - destruct Hact as [A _]. contradiction.
    - (* PMain *)
      destruct (dead_main c s Hq Hd0 n Hs Ep) as (Hcpn & Hnofin & Hexp).
      assert (Hto : j_timeout (jc c n) = None).
      { apply (p_expi c s IP n); [rewrite Ep; discriminate|exact Hexp]. }
      pose proof (Hctx Ep) as Hta.
      pose proof (adm_sched n Hs) as Hadm. unfold sched_admissible in Hadm. rewrite Hta in Hadm. cbn [orb] in Hadm.
      apply andb_true_iff in Hadm. destruct Hadm as [Hadm Hwin]. apply andb_true_iff in Hadm. destruct Hadm as [Hnf Hne].
      apply negb_true_iff in Hne. apply negb_true_iff, Nat.eqb_neq in Hnf.
      assert (Hfin : filter (fun k => negb (j_forever (jc c k))) (members c n) <> []).
      { intro E. rewrite E in Hnf. apply Hnf. reflexivity. }
      pose proof (never_ends_sched c n Hsch Hto Hfin Hne) as Hmem.
      pose proof (eager_at_quiescence 3 c h s W (le_S 1 2 (le_S 1 1 (le_n 1))) Hr Hq) as Heager.
      unfold eager_ok in Heager. rewrite forallb_forall in Heager.
      assert (Hin : In n (scheds c)) by (unfold scheds; apply filter_In; split; [apply In_all_ids; exact Hlt|exact Hsch]).
      specialize (Heager n Hin). rewrite Ep in Heager. rewrite forallb_forall in Heager.
      (* a running member that is expected to end *)
      assert (Hrun : forall k, In k (members c n) -> st (Jb s k) = Running -> never_ends c k = false -> False).
      { intros k Hk Hkr Hkn. pose proof (proj1 (In_members c n k) Hk) as (Hkl & Hkp & Hk0).
        destruct (j_sched (jc c k)) eqn:Eks.
        - apply (Hnested k Hk Eks Hkr). intros Hkm.
          destruct (dead_main c s Hq Hd0 k (sched_id_of k Eks Hkl) Hkm) as (_ & _ & Hkexp).
          apply (timeout_above_child c (njobs c) n k Hta Hkp).
          apply (p_expi c s IP k); [rewrite Hkm; discriminate|exact Hkexp].
        - destruct (dead_running c h s W Hr Hq Hd0 k Eks Hkr) as [_ Hkt].
          apply (never_ends_atomic c k Eks Hkn). apply (p_rund c s IP k Eks Hkr). exact Hkt. }
      (* every member that is expected to end and does not depend on a never-ending job is done *)
      assert (HL : forall fuel2 x, x < fuel2 -> In x (members c n) -> never_ends c x = false -> blocked c x = false ->
                is_done (st (Jb s x)) = false -> False).
      { induction fuel2 as [|fuel2 IH2]; intros x Hxf Hx Hxn Hxb Hxd; [lia|].
        pose proof (proj1 (In_members c n x) Hx) as (Hxl & Hxp & Hx0).
        destruct (st (Jb s x)) eqn:Est; try discriminate.
        - (* Idle: a requirement is not done *)
          pose proof (Heager x Hx) as Hwt. unfold waiting_ok in Hwt. rewrite Est in Hwt.
          apply existsb_exists in Hwt. destruct Hwt as (r & Hr1 & Hr2). apply negb_true_iff in Hr2.
          destruct (blocked_false c x Hxb r Hr1) as [Hrn Hrb].
          destruct (wf_reqs c x r W Hxl Hx0 Hr1) as (Hrx & Hrp & Hr0).
          apply (IH2 r); [lia| |exact Hrn|exact Hrb|exact Hr2].
          apply In_members. repeat split; [lia|congruence|exact Hr0].
        - (* Created: the window is full of jobs one of which is expected to end *)
          destruct (dead_created c h s W Hr Hq x Est) as [_ Hslot]. rewrite Hxp in Hslot.
          unfold slot_free in Hslot. cbn zeta in Hslot. apply orb_false_iff in Hslot. destruct Hslot as [Hw0 Hfull].
          rewrite Hw0 in Hwin. cbn [orb] in Hwin. apply Nat.ltb_lt in Hwin. apply Nat.ltb_ge in Hfull.
          rewrite (Hwacc n) in Hfull. unfold hcount in Hfull.
          destruct (filter_pigeon (fun k => never_ends c k || blocked c k) (fun k => holdb (st (Jb s k))) (members c n))
            as (k & Hk & Hk1 & Hk2); [lia|].
          apply orb_false_iff in Hk2. destruct Hk2 as [Hkn _].
          destruct (st (Jb s k)) eqn:Ek; try discriminate.
          + apply (Hrun k Hk Ek Hkn).
          + apply (dead_no_cancelling c h s W Hr IP Hq Hd0 k Ek).
        - apply (Hrun x Hx Est Hxn).
        - apply (dead_no_cancelling c h s W Hr IP Hq Hd0 x Est).
        - destruct (n_st c s I4 x Hx0 (or_intror Est)) as [A _]. rewrite Hxp, Ep in A. contradiction. }
      (* some non-forever member is not done, else the loop would have ended *)
      destruct (existsb (fun k => negb (j_forever (jc c k)) && negb (is_done (st (Jb s k)))) (members c n)) eqn:Eex.
      + apply existsb_exists in Eex. destruct Eex as (k & Hk & Ek). apply andb_true_iff in Ek. destruct Ek as [Ek1 Ek2].
        apply negb_true_iff in Ek1. apply negb_true_iff in Ek2.
        destruct (Hmem k Hk Ek1) as [Hkn Hkb].
        apply (HL (S k) k (Nat.lt_succ_diag_r k) Hk Hkn Hkb Ek2).
      + assert (Hall : forall k, In k (members c n) -> j_forever (jc c k) = false -> In k (seen (Rn s n))).
        { intros k Hk Hkf. assert (Hkd : is_done (st (Jb s k)) = true).
          { destruct (is_done (st (Jb s k))) eqn:E; [reflexivity|].
            assert (existsb (fun k => negb (j_forever (jc c k)) && negb (is_done (st (Jb s k)))) (members c n) = true).
            { apply existsb_exists. exists k. split; [exact Hk|]. rewrite Hkf, E. reflexivity. }
            congruence. }
          assert (Hni : st (Jb s k) <> Idle) by (intro E; rewrite E in Hkd; discriminate).
          destruct (b_cover c s I5 n k (or_introl Ep) Hk Hni) as [Hp|Hsn]; [|exact Hsn].
          pose proof (Hnofin k Hp) as Hnf2. unfold jfin in Hnf2. rewrite (done_finished0 _ Hkd) in Hnf2. discriminate. }
        assert (Hcnt : nonforever c (seen (Rn s n)) = nfinite c n).
        { unfold nfinite, nonforever. apply Nat.le_antisymm.
          - apply NoDup_incl_length; [apply NoDup_filter; apply (b_seen_nd c s I5)|].
            intros k Hk. apply filter_In in Hk. destruct Hk as [Hk1 Hk2]. apply filter_In. split; [|exact Hk2].
            apply (b_seen_done c s I5 n k Hk1).
          - apply NoDup_incl_length; [apply NoDup_filter; apply members_nodup|].
            intros k Hk. apply filter_In in Hk. destruct Hk as [Hk1 Hk2]. apply filter_In. split; [|exact Hk2].
            apply negb_true_iff in Hk2. apply (Hall k Hk1 Hk2). }
        assert (Hopen : ndone (Rn s n) <> nfinite c n).
        { apply (b_open c s I5 n); [left; exact Ep|]. unfold nfinite, nonforever. exact Hnf. }
        apply Hopen. rewrite <- Hcnt. apply (b_count c s I5 n). left. exact Ep.
    - (* PTidy *)
      destruct (dead_tidy c s Hq n Hs (or_introl (ex_intro _ w Ep))) as (Hcpn & x & Hx & Hxf).
      assert (Hex : exiting (ph (Rn s n))) by (left; exists w; exact Ep).
      destruct (d_pend c s I6 n x Hex Hx) as [Hdoom _].
      pose proof (i_pend c s I1 n x Hx) as Hxm.
      pose proof (proj1 (In_members c n x) Hxm) as (Hxl & Hxp & Hx0).
      unfold jfin in Hxf. destruct (st (Jb s x)) eqn:Est; try discriminate.
      + apply (b_pend_live c s I5 n x Hx Est).
      + destruct (dead_created c h s W Hr Hq x Est) as [Hcp _].
        destruct Hdoom as [D|[D|[D|(D & _)]]]; congruence.
      + destruct (j_sched (jc c x)) eqn:Exs.
        * destruct Hdoom as [D|[D|[D|(_ & _ & D)]]]; try congruence.
          -- apply (cancel_pending_enabled x Hx0 (sched_id_of x Exs Hxl)); [apply running_active; auto|exact D].
          -- apply (Hnested x Hxm Exs Est). intros Hxmain. exfalso.
             destruct D as [D|D]; [rewrite Hxmain in D; discriminate|rewrite (IM x Hxmain) in D; discriminate].
        * destruct (dead_running c h s W Hr Hq Hd0 x Exs Est) as [Hcp _].
          destruct Hdoom as [D|[D|[D|(_ & D & _)]]]; congruence.
      + apply (dead_no_cancelling c h s W Hr IP Hq Hd0 x Est).
    - apply (shut_stuck n w Hs Ep).
    - (* PCTidy *)
      destruct (dead_tidy c s Hq n Hs (or_intror Ep)) as (Hcpn & x & Hx & Hxf).
      assert (Hex : exiting (ph (Rn s n))) by (right; right; exact Ep).
      destruct (d_pend c s I6 n x Hex Hx) as [Hdoom _].
      pose proof (i_pend c s I1 n x Hx) as Hxm.
      pose proof (proj1 (In_members c n x) Hxm) as (Hxl & Hxp & Hx0).
      unfold jfin in Hxf. destruct (st (Jb s x)) eqn:Est; try discriminate.
      + apply (b_pend_live c s I5 n x Hx Est).
      + destruct (dead_created c h s W Hr Hq x Est) as [Hcp _].
        destruct Hdoom as [D|[D|[D|(D & _)]]]; congruence.
      + destruct (j_sched (jc c x)) eqn:Exs.
        * destruct Hdoom as [D|[D|[D|(_ & _ & D)]]]; try congruence.
          -- apply (cancel_pending_enabled x Hx0 (sched_id_of x Exs Hxl)); [apply running_active; auto|exact D].
          -- apply (Hnested x Hxm Exs Est). intros Hxmain. exfalso.
             destruct D as [D|D]; [rewrite Hxmain in D; discriminate|rewrite (IM x Hxmain) in D; discriminate].
        * destruct (dead_running c h s W Hr Hq Hd0 x Exs Est) as [Hcp _].
          destruct Hdoom as [D|[D|[D|(_ & D & _)]]]; congruence.
      + apply (dead_no_cancelling c h s W Hr IP Hq Hd0 x Est).
    - destruct Hact as [_ A]. contradiction.
  Qed.

  (* the root: in a dead state its run has not begun or is over *)
  Theorem dead_state_is_final : ph (Rn s 0) = PIdle \/ ph (Rn s 0) = POver.
  Proof.
    destruct (phase_eq_dec (ph (Rn s 0)) PIdle) as [E|E]; [left; exact E|].
    destruct (phase_eq_dec (ph (Rn s 0)) POver) as [E2|E2]; [right; exact E2|]. exfalso.
    assert (Hs0 : sched_id c 0 = true) by (apply (t_validr c s (InvT_reach 3 c h s W (le_S 2 2 (le_n 2)) Hr) 0 E)).
    apply (run_stuck (S (njobs c)) 0); [lia|exact Hs0|split; assumption|].
    intros Hp. destruct (dead_main c s Hq Hd0 0 Hs0 Hp) as (_ & _ & Hexp).
    cbn [timeout_above]. rewrite (proj1 (p_expi c s IP 0 E) Hexp). reflexivity.
  Qed.
End Stuck.
