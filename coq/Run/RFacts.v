(* Basic facts about model R: levels, runs, and what each reaction does to the job statuses. *)
From AJ Require Import Common.Util Run.RModel.

(* ------------------------------------------------------------------ levels *)

Lemma holds_mono lvl lvl' g : lvl' <= lvl -> holds lvl g = true -> holds lvl' g = true.
Proof.
  destruct g as [[k code] b]. unfold holds. intros Hle.
  destruct (Nat.ltb_spec lvl k); destruct (Nat.ltb_spec lvl' k); auto; lia.
Qed.

Lemma holds_ge lvl k code b : k <= lvl -> holds lvl (k, code, b) = b.
Proof. intros H. unfold holds. destruct (Nat.ltb_spec lvl k); [lia|reflexivity]. Qed.

Lemma holds_0 lvl code b : holds lvl (0, code, b) = b.
Proof. apply holds_ge. lia. Qed.

Lemma step_mono lvl lvl' c s e s' :
  lvl' <= lvl -> step lvl c s e = Some s' -> step lvl' c s e = Some s'.
Proof.
  unfold step. intros Hle.
  destruct (forallb (holds lvl) (guards c s e)) eqn:E; [|discriminate].
  intros H. rewrite forallb_forall in E.
  assert (E' : forallb (holds lvl') (guards c s e) = true).
  { apply forallb_forall. intros g Hg. eapply holds_mono; eauto. }
  rewrite E'. exact H.
Qed.

Lemma run_mono lvl lvl' c h : lvl' <= lvl ->
  forall s s', run lvl c s h = Some s' -> run lvl' c s h = Some s'.
Proof.
  intros Hle. induction h as [|e h IH]; intros s s'; cbn [run]; [auto|].
  destruct (step lvl c s e) as [s1|] eqn:E; [|discriminate].
  rewrite (step_mono _ _ _ _ _ _ Hle E). apply IH.
Qed.

Lemma accept_mono lvl lvl' c h : lvl' <= lvl -> accept lvl c h = true -> accept lvl' c h = true.
Proof.
  unfold accept. intros Hle. destruct (run lvl c init h) as [s|] eqn:E; [|discriminate].
  rewrite (run_mono _ _ _ _ Hle _ _ E). reflexivity.
Qed.

Lemma run_app lvl c h1 : forall s h2,
  run lvl c s (h1 ++ h2) =
  match run lvl c s h1 with Some s1 => run lvl c s1 h2 | None => None end.
Proof.
  induction h1 as [|e h1 IH]; intros s h2; cbn [run app]; [reflexivity|].
  destruct (step lvl c s e); [apply IH|reflexivity].
Qed.

Definition Reach (lvl : nat) (c : cfg) (h : list event) (s : state) : Prop :=
  run lvl c init h = Some s.

Lemma reach_snoc lvl c h e s s' : Reach lvl c h s -> step lvl c s e = Some s' -> Reach lvl c (h ++ [e]) s'.
Proof. unfold Reach. intros H1 H2. rewrite run_app, H1. cbn [run]. rewrite H2. reflexivity. Qed.

(* induction over reachable (history, state) pairs *)
Lemma reach_ind lvl c (P : list event -> state -> Prop) :
  P [] init ->
  (forall h s e s', Reach lvl c h s -> P h s -> step lvl c s e = Some s' -> P (h ++ [e]) s') ->
  forall h s, Reach lvl c h s -> P h s.
Proof.
  intros H0 HS h. induction h as [|e h IH] using rev_ind; intros s Hr.
  - unfold Reach in Hr. cbn [run] in Hr. injection Hr as <-. exact H0.
  - unfold Reach in Hr. rewrite run_app in Hr.
    destruct (run lvl c init h) as [s1|] eqn:E; [|discriminate].
    cbn [run] in Hr. destruct (step lvl c s1 e) as [s2|] eqn:E2; [|discriminate].
    injection Hr as <-. eapply HS; [exact E|apply IH; exact E|exact E2].
Qed.

Lemma reach_mono lvl lvl' c h s : lvl' <= lvl -> Reach lvl c h s -> Reach lvl' c h s.
Proof. intros Hle H. eapply run_mono; eauto. Qed.

Lemma step_inv lvl c s e s' : step lvl c s e = Some s' ->
  s' = fst (reaction c s e) /\ forallb (holds lvl) (guards c s e) = true.
Proof.
  unfold step. destruct (forallb (holds lvl) (guards c s e)); [|discriminate].
  intros H. inversion H. auto.
Qed.

(* ------------------------------------------------------------------ frame lemmas: Jb *)

Lemma Jb_setH s j v : Jb (setH s j v) = Jb s. Proof. reflexivity. Qed.
Lemma Jb_setR s j v : Jb (setR s j v) = Jb s. Proof. reflexivity. Qed.
Lemma Jb_setS s j v : Jb (setS s j v) = Jb s. Proof. reflexivity. Qed.
Lemma Jb_setJ s j v : Jb (setJ s j v) = upd (Jb s) j v. Proof. reflexivity. Qed.
Lemma Jb_mapH f l s : Jb (mapH f l s) = Jb s. Proof. reflexivity. Qed.
Lemma Jb_mapJ f l s x : Jb (mapJ f l s) x = if memb x l then f (Jb s x) else Jb s x.
Proof. reflexivity. Qed.
Lemma Jb_set_phase s n p : Jb (set_phase s n p) = Jb s. Proof. reflexivity. Qed.
Lemma Jb_bump_q s p f : Jb (bump_q s p f) = Jb s. Proof. reflexivity. Qed.
Lemma Jb_setNow s t : Jb (setNow s t) = Jb s. Proof. reflexivity. Qed.

Lemma Jb_job_leave c n x s y :
  Jb (job_leave c n x s) y =
  if Nat.eqb n 0 then Jb s y else if Nat.eqb y n then mkJst x false None true else Jb s y.
Proof.
  unfold job_leave. destruct (Nat.eqb n 0); [reflexivity|].
  cbn [Jb setR setJ]. unfold upd. reflexivity.
Qed.

Lemma Jb_shutdown_start c n i s : Jb (fst (shutdown_start c n i s)) = Jb s.
Proof.
  unfold shutdown_start. destruct (did (Sd s n)); [reflexivity|].
  destruct (members c n); reflexivity.
Qed.

Lemma Jb_clear_cp s n y :
  Jb (clear_cp s n) y =
  if rootb n then Jb s y
  else if Nat.eqb y n then mkJst (st (Jb s n)) false (tend (Jb s n)) (ran (Jb s n)) else Jb s y.
Proof. unfold clear_cp. destruct (rootb n); reflexivity. Qed.

Lemma Jb_clear_hcp s n : Jb (clear_hcp s n) = Jb s. Proof. reflexivity. Qed.
Lemma Jb_hdone n r s : Jb (hdone n r s) = Jb s. Proof. reflexivity. Qed.

Lemma Jb_end_cancelled c n s y :
  Jb (fst (end_cancelled c n s)) y =
  if Nat.eqb n 0 then Jb s y else if Nat.eqb y n then mkJst Cancelled false None true else Jb s y.
Proof. unfold end_cancelled. cbn [fst]. rewrite Jb_job_leave. reflexivity. Qed.

Lemma Jb_finish_run c n w r cu s y :
  Jb (fst (finish_run c n w r cu s)) y =
  if Nat.eqb n 0 then Jb s y
  else if Nat.eqb y n then mkJst (jstat_of_verdict (verdict_of c n w cu)) false None true else Jb s y.
Proof. unfold finish_run. cbn [fst]. rewrite Jb_job_leave. reflexivity. Qed.

Lemma Jb_exit_main c n w p s y :
  Jb (fst (exit_main c n w p s)) y = if memb y p then cancel_j (Jb s y) else Jb s y.
Proof.
  unfold exit_main. destruct p as [|a p].
  - destruct (shutdown_start c n true (set_phase s n (PShut w))) as [s1 o] eqn:E.
    cbn [fst]. change s1 with (fst (s1, o)). rewrite <- E, Jb_shutdown_start. reflexivity.
  - cbn [fst]. rewrite Jb_set_phase, Jb_mapJ. reflexivity.
Qed.

Lemma Jb_react_shut_wake c n p s y :
  Jb (fst (fst (react_shut_wake c n p s))) y = Jb s y.
Proof. unfold react_shut_wake. destruct p; reflexivity. Qed.

Lemma Jb_react_shut_wake_f c n p s : Jb (fst (fst (react_shut_wake c n p s))) = Jb s.
Proof. unfold react_shut_wake. destruct p; reflexivity. Qed.

Lemma Jb_react_shut_cancel c n s : Jb (fst (react_shut_cancel c n s)) = Jb s.
Proof. reflexivity. Qed.

Lemma Jb_react_sdstart c n s : Jb (fst (react_sdstart c n s)) = Jb s.
Proof.
  unfold react_sdstart.
  destruct (shutdown_start c n false (setH s n (mkHst HRunning false None))) as [s1 mo] eqn:E.
  assert (E1 : Jb s1 = Jb s).
  { change s1 with (fst (s1, mo)). rewrite <- E, Jb_shutdown_start. reflexivity. }
  cbn [fst]. destruct (sp (Sd s1 n)), (did (Sd s n)); cbn [Jb setH]; exact E1.
Qed.

(* ------------------------------------------------------------------ well-formedness facts *)

Lemma In_all_ids c x : In x (all_ids c) <-> x < njobs c.
Proof. apply In_seqn. Qed.

Lemma In_members c n x : In x (members c n) <-> x < njobs c /\ parent c x = n /\ x <> 0.
Proof.
  unfold members, is_member. rewrite filter_In, In_all_ids, andb_true_iff, Nat.eqb_eq, negb_true_iff, Nat.eqb_neq.
  tauto.
Qed.

Lemma wf_job_of c x : wf c = true -> x < njobs c -> wf_job c x = true.
Proof.
  unfold wf. rewrite andb_true_iff, forallb_forall. intros [_ H] Hx. apply H. apply In_all_ids. exact Hx.
Qed.

Lemma wf_parent c x : wf c = true -> x < njobs c -> x <> 0 ->
  parent c x < x /\ j_sched (jc c (parent c x)) = true.
Proof.
  intros W Hx Hn. pose proof (wf_job_of c x W Hx) as H. unfold wf_job in H.
  apply Nat.eqb_neq in Hn. rewrite Hn in H.
  rewrite !andb_true_iff in H. destruct H as [[[H1 H2] _] _].
  apply Nat.ltb_lt in H1. unfold parent. auto.
Qed.

Lemma wf_reqs c x r : wf c = true -> x < njobs c -> x <> 0 -> In r (reqs c x) ->
  r < x /\ parent c r = parent c x /\ r <> 0.
Proof.
  intros W Hx Hn Hr. pose proof (wf_job_of c x W Hx) as H. unfold wf_job in H.
  apply Nat.eqb_neq in Hn. rewrite Hn in H.
  rewrite !andb_true_iff in H. destruct H as [[_ H3] _].
  rewrite forallb_forall in H3. specialize (H3 r Hr).
  rewrite !andb_true_iff in H3. destruct H3 as [[A B] C].
  apply Nat.ltb_lt in A. apply Nat.eqb_eq in B. apply negb_true_iff, Nat.eqb_neq in C.
  unfold parent in *. auto.
Qed.

Lemma member_neq c n x : wf c = true -> In x (members c n) -> x <> n.
Proof.
  intros W Hm. apply In_members in Hm. destruct Hm as (Hx & Hp & H0).
  destruct (wf_parent c x W Hx H0) as [Hlt _]. lia.
Qed.

(* ------------------------------------------------------------------ guards as hypotheses *)

Ltac split_guards H :=
  cbn [forallb guards app outs_guards] in H;
  rewrite ?holds_0 in H;
  repeat match type of H with
         | (_ && _) = true => let H1 := fresh "G" in apply andb_true_iff in H; destruct H as [H1 H]
         end;
  repeat match goal with
         | G : (_ && _) = true |- _ => let G1 := fresh "G" in apply andb_true_iff in G; destruct G as [G1 G]
         end.

Lemma rootb_true n : rootb n = true <-> n = 0.
Proof. unfold rootb. apply Nat.eqb_eq. Qed.
Lemma rootb_false n : rootb n = false <-> n <> 0.
Proof. unfold rootb. apply Nat.eqb_neq. Qed.

Lemma Rn_setR_same s n v : Rn (setR s n v) n = v.
Proof. cbn [Rn setR]. apply upd_same. Qed.
Lemma Rn_setR_other s n v m : m <> n -> Rn (setR s n v) m = Rn s m.
Proof. intros H. cbn [Rn setR]. apply upd_other. exact H. Qed.

(* ------------------------------------------------------------------ frame lemmas: Rn *)

Definition same_but_q (a b : rst) : Prop :=
  ph b = ph a /\ pend b = pend a /\ seen b = seen a /\ ndone b = ndone a /\ expi b = expi a
  /\ tbeg b = tbeg a /\ fto b = fto a /\ fcr b = fcr a /\ rcanc b = rcanc a.

Lemma same_but_q_refl a : same_but_q a a.
Proof. unfold same_but_q. tauto. Qed.

Lemma same_but_q_trans a b d : same_but_q a b -> same_but_q b d -> same_but_q a d.
Proof. unfold same_but_q. intuition congruence. Qed.

Lemma Rn_setJ s j v : Rn (setJ s j v) = Rn s. Proof. reflexivity. Qed.
Lemma Rn_setH s j v : Rn (setH s j v) = Rn s. Proof. reflexivity. Qed.
Lemma Rn_setS s j v : Rn (setS s j v) = Rn s. Proof. reflexivity. Qed.
Lemma Rn_mapJ f l s : Rn (mapJ f l s) = Rn s. Proof. reflexivity. Qed.
Lemma Rn_mapH f l s : Rn (mapH f l s) = Rn s. Proof. reflexivity. Qed.
Lemma Rn_setNow s t : Rn (setNow s t) = Rn s. Proof. reflexivity. Qed.
Lemma Rn_clear_cp s n : Rn (clear_cp s n) = Rn s.
Proof. unfold clear_cp. destruct (rootb n); reflexivity. Qed.
Lemma Rn_clear_hcp s n : Rn (clear_hcp s n) = Rn s. Proof. reflexivity. Qed.
Lemma Rn_hdone n r s : Rn (hdone n r s) = Rn s. Proof. reflexivity. Qed.

Lemma Rn_shutdown_start c n i s : Rn (fst (shutdown_start c n i s)) = Rn s.
Proof.
  unfold shutdown_start. destruct (did (Sd s n)); [reflexivity|].
  destruct (members c n); reflexivity.
Qed.

Lemma Rn_bump_q_q s p f m : same_but_q (Rn s m) (Rn (bump_q s p f) m).
Proof.
  unfold bump_q. cbn [Rn setR]. unfold upd.
  destruct (Nat.eqb_spec m p) as [->|H]; [|apply same_but_q_refl].
  unfold same_but_q. cbn. tauto.
Qed.

Lemma Rn_job_leave_q c n x s m : same_but_q (Rn s m) (Rn (job_leave c n x s) m).
Proof.
  unfold job_leave. destruct (Nat.eqb n 0); [apply same_but_q_refl|].
  cbn [Rn setR setJ]. unfold upd.
  destruct (Nat.eqb_spec m (parent c n)) as [->|H]; [|apply same_but_q_refl].
  unfold same_but_q. cbn. tauto.
Qed.

Lemma ph_set_phase s n p m :
  Rn (set_phase s n p) m =
  if Nat.eqb m n then mkRst p (pend (Rn s n)) (seen (Rn s n)) (ndone (Rn s n)) (qsz (Rn s n))
                            (expi (Rn s n)) (tbeg (Rn s n)) (fto (Rn s n)) (fcr (Rn s n)) (rcanc (Rn s n))
  else Rn s m.
Proof. unfold set_phase. cbn [Rn setR]. unfold upd. destruct (Nat.eqb m n); reflexivity. Qed.

Lemma Rn_exit_main c n w p s m :
  Rn (fst (exit_main c n w p s)) m =
  Rn (set_phase s n (match p with [] => PShut w | _ => PTidy w end)) m.
Proof.
  unfold exit_main. destruct p as [|a p].
  - destruct (shutdown_start c n true (set_phase s n (PShut w))) as [s1 o] eqn:E.
    cbn [fst]. change s1 with (fst (s1, o)). rewrite <- E, Rn_shutdown_start. reflexivity.
  - cbn [fst]. rewrite !ph_set_phase. rewrite Rn_mapJ. reflexivity.
Qed.

Lemma Rn_end_cancelled_q c n s m : m <> n ->
  same_but_q (Rn s m) (Rn (fst (end_cancelled c n s)) m).
Proof.
  intros H. unfold end_cancelled. cbn [fst].
  eapply same_but_q_trans; [|apply Rn_job_leave_q].
  rewrite ph_set_phase. apply Nat.eqb_neq in H. rewrite H. apply same_but_q_refl.
Qed.

Lemma Rn_end_cancelled_n c n s :
  ph (Rn (fst (end_cancelled c n s)) n) = POver /\
  pend (Rn (fst (end_cancelled c n s)) n) = pend (Rn s n).
Proof.
  unfold end_cancelled. cbn [fst].
  pose proof (Rn_job_leave_q c n Cancelled (set_phase s n POver) n) as (H1 & H2 & _).
  rewrite H1, H2, ph_set_phase, Nat.eqb_refl. cbn. auto.
Qed.

Lemma Rn_finish_run_q c n w r cu s m : m <> n ->
  same_but_q (Rn s m) (Rn (fst (finish_run c n w r cu s)) m).
Proof.
  intros H. unfold finish_run. cbn [fst].
  eapply same_but_q_trans; [|apply Rn_job_leave_q].
  rewrite Rn_setR_other by exact H. apply same_but_q_refl.
Qed.

Lemma Rn_finish_run_n c n w r cu s :
  ph (Rn (fst (finish_run c n w r cu s)) n) = POver /\
  pend (Rn (fst (finish_run c n w r cu s)) n) = pend (Rn s n).
Proof.
  unfold finish_run. cbn [fst].
  match goal with |- context [job_leave c n ?x ?S0] =>
    pose proof (Rn_job_leave_q c n x S0 n) as (H1 & H2 & _) end.
  rewrite H1, H2, Rn_setR_same. cbn. auto.
Qed.



Lemma cancel_j_st0 a : st (cancel_j a) = st a.
Proof. unfold cancel_j. destruct (finished (st a)); reflexivity. Qed.

Lemma done_finished0 a : is_done a = true -> finished a = true.
Proof. destruct a; cbn; auto. Qed.

(* ------------------------------------------------------------------ the J-effect lemma *)

(* [sub]: the job is the subject of the event (its own event, or the run that acts) *)
Inductive jeff (c : cfg) (s s' : state) (x : nat) (sub : Prop) : Prop :=
| JE_same : Jb s' x = Jb s x -> jeff c s s' x sub
| JE_cancel : Jb s' x = cancel_j (Jb s x) ->
              (exists n, In x (pend (Rn s n)) /\ ph (Rn s' n) <> PMain /\ ph (Rn s' n) <> PIdle) ->
              jeff c s s' x sub
| JE_uncp : sub -> st (Jb s x) = Running -> j_sched (jc c x) = true -> cp (Jb s x) = true ->
            Jb s' x = mkJst Running false (tend (Jb s x)) (ran (Jb s x)) ->
            (ph (Rn s' x) = PCTidy \/ rcanc (Rn s' x) = true) -> jeff c s s' x sub
| JE_create_main : st (Jb s x) = Idle -> Jb s' x = mkJst Created false None false ->
                   all_done s (reqs c x) = true -> In x (members c (parent c x)) ->
                   ph (Rn s (parent c x)) = PMain -> ph (Rn s' (parent c x)) = PMain ->
                   In x (pend (Rn s' (parent c x))) -> jeff c s s' x sub
| JE_create_begin : Jb s' x = mkJst Created false None false ->
                    reqs c x = [] -> In x (members c (parent c x)) ->
                    (if rootb (parent c x) then ph (Rn s 0) = PIdle
                     else st (Jb s (parent c x)) = Created) ->
                    ph (Rn s' (parent c x)) = PMain ->
                    In x (pend (Rn s' (parent c x))) -> jeff c s s' x sub
| JE_start : sub -> st (Jb s x) = Created -> cp (Jb s x) = false ->
             st (Jb s' x) = Running -> cp (Jb s' x) = false -> ran (Jb s' x) = true ->
             tend (Jb s' x) = (if j_sched (jc c x) then None else optN_add (now s) (j_dur (jc c x))) ->
             jeff c s s' x sub
| JE_start_done : sub -> st (Jb s x) = Created -> cp (Jb s x) = false -> j_sched (jc c x) = true ->
                  members c x = [] ->
                  Jb s' x = mkJst (DoneRet RVTrue) false None true -> jeff c s s' x sub
| JE_done : sub -> st (Jb s x) = Running -> cp (Jb s x) = false ->
            is_done (st (Jb s' x)) = true -> cp (Jb s' x) = false -> ran (Jb s' x) = true ->
            (j_sched (jc c x) = true -> rcanc (Rn s x) = false /\ ph (Rn s x) <> PCTidy) -> jeff c s s' x sub
| JE_hit : sub -> st (Jb s x) = Running -> cp (Jb s x) = true -> j_sched (jc c x) = false ->
           st (Jb s' x) = Cancelling -> cp (Jb s' x) = false -> ran (Jb s' x) = true ->
           tend (Jb s' x) = Some (now s + j_cdur (jc c x))%N -> jeff c s s' x sub
| JE_cancelled : sub ->
                 (st (Jb s x) = Cancelling \/
                  (st (Jb s x) = Running /\ j_sched (jc c x) = true /\
                   (cp (Jb s x) = true \/ ph (Rn s x) = PCTidy \/ rcanc (Rn s x) = true))) ->
                 Jb s' x = mkJst Cancelled false None true -> jeff c s s' x sub
| JE_gone : sub -> st (Jb s x) = Created -> cp (Jb s x) = true ->
            Jb s' x = mkJst Cancelled false None false -> jeff c s s' x sub.

Lemma jeff_begin c s n x : wf c = true -> sched_id c n = true ->
  (if rootb n then match ph (Rn s n) with PIdle => true | _ => false end
   else match st (Jb s n) with Created => negb (cp (Jb s n)) | _ => false end) = true ->
  jeff c s (fst (react_begin c n s)) x (x = n).
Proof.
  intros W Hs Hg. unfold react_begin.
  set (s0 := if Nat.eqb n 0 then s else _).
  assert (HJ0 : forall y, Jb s0 y = if Nat.eqb n 0 then Jb s y
                                    else if Nat.eqb y n then mkJst Running false None true else Jb s y).
  { intros y. unfold s0. destruct (Nat.eqb n 0); [reflexivity|]. cbn [Jb setR setJ]. reflexivity. }
  destruct (members c n) as [|m ms] eqn:Em.
  - cbn [fst]. pose proof (Jb_job_leave c n (DoneRet RVTrue)
      (setR s0 n (mkRst POver [] [] 0 0 (optN_add (now s) (j_timeout (jc c n))) (now s) false false false)) x) as E.
    rewrite Jb_setR, HJ0 in E.
    destruct (Nat.eqb_spec n 0) as [->|Hn0]; [apply JE_same; exact E|].
    destruct (Nat.eqb_spec x n) as [->|Hxn]; [|apply JE_same; exact E].
    apply rootb_false in Hn0. rewrite Hn0 in Hg.
    destruct (st (Jb s n)) eqn:Est; try discriminate.
    apply negb_true_iff in Hg.
    apply JE_start_done; auto.
    unfold sched_id in Hs. apply andb_true_iff in Hs. tauto.
  - cbn [fst]. rewrite <- Em.
    set (entry := filter _ (members c n)).
    assert (E : Jb (setR (mapJ create_j entry s0) n
                 (mkRst PMain entry [] 0 0 (optN_add (now s) (j_timeout (jc c n))) (now s) false false false)) x
               = if memb x entry then create_j (Jb s0 x) else Jb s0 x) by reflexivity.
    destruct (memb x entry) eqn:Ex.
    + apply memb_In in Ex. unfold entry in Ex. apply filter_In in Ex. destruct Ex as [Hm Hr].
      pose proof (proj1 (In_members c n x) Hm) as (Hx & Hp & Hx0).
      apply JE_create_begin.
      * exact E.
      * destruct (reqs c x); [reflexivity|discriminate].
      * rewrite Hp. exact Hm.
      * rewrite Hp. destruct (rootb n) eqn:Er.
        -- apply rootb_true in Er. subst n. destruct (ph (Rn s 0)); try discriminate. reflexivity.
        -- destruct (st (Jb s n)); try discriminate. reflexivity.
      * rewrite Hp. rewrite Rn_setR_same. reflexivity.
      * rewrite Hp. rewrite Rn_setR_same. cbn [pend]. unfold entry. apply filter_In. split; [exact Hm|exact Hr].
    + rewrite HJ0 in E. destruct (Nat.eqb_spec n 0) as [->|Hn0]; [apply JE_same; exact E|].
      destruct (Nat.eqb_spec x n) as [->|Hxn]; [|apply JE_same; exact E].
      apply rootb_false in Hn0. rewrite Hn0 in Hg.
      destruct (st (Jb s n)) eqn:Est; try discriminate. apply negb_true_iff in Hg.
      apply JE_start; auto; try (rewrite E; reflexivity).
      unfold sched_id in Hs. apply andb_true_iff in Hs. destruct Hs as [Hs1 _]. rewrite E, Hs1. reflexivity.
Qed.

Lemma ph_exit_main c n w p s :
  ph (Rn (fst (exit_main c n w p s)) n) <> PMain /\ ph (Rn (fst (exit_main c n w p s)) n) <> PIdle.
Proof.
  rewrite Rn_exit_main, ph_set_phase, Nat.eqb_refl. cbn [ph]. destruct p; split; discriminate.
Qed.

Lemma jeff_exit_main c s0 s n w p x :
  Jb s0 = Jb s -> (forall y, In y p -> In y (pend (Rn s n))) ->
  jeff c s (fst (exit_main c n w p s0)) x (x = n).
Proof.
  intros EJ Hp. pose proof (Jb_exit_main c n w p s0 x) as E. rewrite EJ in E.
  destruct (memb x p) eqn:Ex.
  - apply JE_cancel; [exact E|]. exists n. split; [apply Hp; apply memb_In; exact Ex|].
    apply ph_exit_main.
  - apply JE_same. exact E.
Qed.

Lemma jeff_main c s n d x : wf c = true -> ph (Rn s n) = PMain ->
  jeff c s (fst (react_main c n d s)) x (x = n).
Proof.
  intros W Hph. unfold react_main.
  assert (Hsub : forall y, In y (diff (pend (Rn s n)) d) -> In y (pend (Rn s n))).
  { intros y Hy. apply In_diff in Hy. tauto. }
  destruct d as [|d0 d'] eqn:Ed.
  - apply jeff_exit_main; [reflexivity|exact Hsub].
  - rewrite <- Ed in *. clear Ed.
    destruct (existsb _ d) eqn:Ecrit.
    + apply jeff_exit_main; [reflexivity|exact Hsub].
    + destruct (Nat.eqb _ _) eqn:Ecnt.
      * apply jeff_exit_main; [reflexivity|exact Hsub].
      * cbn [fst]. set (cand := filter _ (members c n)). set (new := filter _ cand).
        match goal with |- jeff c s ?S' x _ =>
          assert (E : Jb S' x = if memb x new then create_j (Jb s x) else Jb s x) by reflexivity;
          assert (ER : ph (Rn S' n) = PMain) by (rewrite Rn_setR_same; cbn [ph]; exact Hph)
        end.
        destruct (memb x new) eqn:Ex; [|apply JE_same; exact E].
        apply memb_In in Ex. unfold new in Ex. apply filter_In in Ex. destruct Ex as [Hc Hst].
        pose proof Hc as Hc'. unfold cand in Hc. unfold cand in Hc'. apply filter_In in Hc. destruct Hc as [Hm _].
        pose proof (proj1 (In_members c n x) Hm) as (Hx & Hp & Hx0).
        destruct (st (Jb s x)) eqn:Est; try discriminate.
        assert (Hinp : In x (pend (Rn (setR (mapJ create_j new s) n
                   (mkRst (ph (Rn s n)) (diff (pend (Rn s n)) d ++ new) (seen (Rn s n) ++ d)
                      (ndone (Rn s n) + length (filter (fun j : nat => negb (j_forever (jc c j))) d))
                      (qsz (Rn s n)) (expi (Rn s n)) (tbeg (Rn s n)) (fto (Rn s n)) (fcr (Rn s n)) (rcanc (Rn s n)))) n))).
        { rewrite Rn_setR_same. cbn [pend]. apply in_app_iff. right. unfold new. apply filter_In. split.
          - unfold cand. apply filter_In. split; [exact Hm|]. apply filter_In in Hc'. tauto.
          - rewrite Est. exact Hst. }
        apply JE_create_main; auto.
        -- rewrite Hp. exact Hm.
        -- rewrite Hp. exact Hph.
        -- rewrite Hp. exact ER.
        -- rewrite Hp. exact Hinp.
Qed.

Lemma run_alive_false c s n : run_alive c s n false = true ->
  j_sched (jc c n) = true /\ n < njobs c /\ (n <> 0 -> st (Jb s n) = Running /\ cp (Jb s n) = false).
Proof.
  unfold run_alive. rewrite !andb_true_iff, Nat.ltb_lt. intros [[H1 H2] H3].
  split; [exact H1|]. split; [exact H2|]. intros Hn. apply rootb_false in Hn. rewrite Hn in H3.
  destruct (st (Jb s n)); try discriminate. split; [reflexivity|].
  destruct (cp (Jb s n)); [discriminate|reflexivity].
Qed.

Lemma run_alive_true c s n : run_alive c s n true = true ->
  j_sched (jc c n) = true /\ n < njobs c /\ n <> 0 /\ st (Jb s n) = Running /\ cp (Jb s n) = true.
Proof.
  unfold run_alive. rewrite !andb_true_iff, Nat.ltb_lt. intros [[H1 H2] H3].
  split; [exact H1|]. split; [exact H2|].
  destruct (rootb n) eqn:Er; [discriminate|]. apply rootb_false in Er. split; [exact Er|].
  destruct (st (Jb s n)); try discriminate. split; [reflexivity|].
  destruct (cp (Jb s n)); [reflexivity|discriminate].
Qed.

(* [cause]: why the run of n ends cancelled *)
Lemma jeff_end_cancelled c s0 s n x :
  (forall y, y <> n -> Jb s0 y = Jb s y) ->
  j_sched (jc c n) = true -> (n <> 0 -> st (Jb s n) = Running) -> (n = 0 -> Jb s0 = Jb s) ->
  (cp (Jb s n) = true \/ ph (Rn s n) = PCTidy \/ rcanc (Rn s n) = true) ->
  jeff c s (fst (end_cancelled c n s0)) x (x = n).
Proof.
  intros Ho Hs Hr H0 Hcause. pose proof (Jb_end_cancelled c n s0 x) as E.
  destruct (Nat.eqb_spec n 0) as [->|Hn0].
  - apply JE_same. rewrite E, (H0 eq_refl). reflexivity.
  - destruct (Nat.eqb_spec x n) as [->|Hxn].
    + apply JE_cancelled; [reflexivity|right; auto|exact E].
    + apply JE_same. rewrite E. apply Ho. exact Hxn.
Qed.

Lemma verdict_done c n w cu : is_done (jstat_of_verdict (verdict_of c n w cu)) = true.
Proof.
  unfold verdict_of. destruct w; cbn; try reflexivity;
    destruct ((Nat.eqb n 0 && pure_root c) || negb (j_crit (jc c n))); reflexivity.
Qed.

Lemma jeff_finish_run c s0 s n w r cu x :
  Jb s0 = Jb s -> (n <> 0 -> st (Jb s n) = Running /\ cp (Jb s n) = false) ->
  rcanc (Rn s n) = false -> ph (Rn s n) <> PCTidy ->
  jeff c s (fst (finish_run c n w r cu s0)) x (x = n).
Proof.
  intros EJ Hr Hnrc Hnct. pose proof (Jb_finish_run c n w r cu s0 x) as E. rewrite EJ in E.
  destruct (Nat.eqb_spec n 0) as [->|Hn0]; [apply JE_same; exact E|].
  destruct (Nat.eqb_spec x n) as [->|Hxn]; [|apply JE_same; exact E].
  destruct (Hr Hn0) as [H1 H2].
  apply JE_done; auto; rewrite E; cbn [st cp ran]; auto. apply verdict_done.
Qed.

Lemma jeff_tidy c s n x : run_alive c s n false = true -> jeff c s (fst (react_tidy c n s)) x (x = n).
Proof.
  intros Ha. destruct (run_alive_false _ _ _ Ha) as (Hs & Hn & Hr).
  unfold react_tidy. destruct (rcanc (Rn s n)) eqn:Erc.
  - apply jeff_end_cancelled; auto. intros Hn0. apply Hr. exact Hn0.
  - apply JE_same. rewrite Jb_shutdown_start. reflexivity.
Qed.

Lemma jeff_ctidy c s n x : run_alive c s n false = true -> ph (Rn s n) = PCTidy ->
  jeff c s (fst (end_cancelled c n s)) x (x = n).
Proof.
  intros Ha Hph. destruct (run_alive_false _ _ _ Ha) as (Hs & Hn & Hr).
  apply jeff_end_cancelled; auto. intros Hn0. apply Hr. exact Hn0.
Qed.

Lemma jeff_shut c s n p cu x :
  (sd_inline s n = true -> run_alive c s n false = true) ->
  jeff c s (fst (react_shut c n p cu s)) x (x = n).
Proof.
  intros Hi. unfold react_shut.
  pose proof (fun y => Jb_react_shut_wake c n p s y) as E1.
  pose proof (Jb_react_shut_wake_f c n p s) as E1f.
  destruct (react_shut_wake c n p s) as [[s1 res] mo1]. cbn [fst] in E1, E1f.
  assert (EJ : forall y, Jb s1 y = Jb s y) by exact E1.
  destruct res as [r|]; [|apply JE_same; apply EJ].
  destruct (sd_inline s n) eqn:Ein.
  - destruct (run_alive_false _ _ _ (Hi eq_refl)) as (Hs & Hn & Hr).
    destruct (rcanc (Rn s n)) eqn:Erc.
    + assert (Hcan : jeff c s (fst (end_cancelled c n s1)) x (x = n)).
      { apply jeff_end_cancelled;
          [intros y _; apply EJ | exact Hs | intros Hn0; apply Hr; exact Hn0
          | intros _; exact E1f | right; right; exact Erc]. }
      destruct (end_cancelled c n s1) as [s2 mo2]. exact Hcan.
    + assert (Hfin : jeff c s (fst (finish_run c n (why_of s n) r cu s1)) x (x = n)).
      { apply jeff_finish_run; auto. unfold sd_inline in Ein. destruct (ph (Rn s n)); discriminate. }
      destruct (finish_run c n (why_of s n) r cu s1) as [s2 mo2]. exact Hfin.
  - apply JE_same. cbn [fst]. rewrite Jb_hdone. apply EJ.
Qed.

Lemma jeff_shtidy c s n cu x :
  (sd_inline s n = true -> run_alive c s n false = true) ->
  jeff c s (fst (react_shtidy c n cu s)) x (x = n).
Proof.
  intros Hi. unfold react_shtidy, react_shtidy_wake.
  set (s1 := setS s n _). set (r := if scanc (Sd s n) then SRCancelled else SRFalse).
  assert (EJ : Jb s1 = Jb s) by reflexivity.
  destruct (sd_inline s n) eqn:Ein.
  - destruct (run_alive_false _ _ _ (Hi eq_refl)) as (Hs & Hn & Hr).
    destruct (rcanc (Rn s n)) eqn:Erc.
    + assert (Hcan : jeff c s (fst (end_cancelled c n s1)) x (x = n)).
      { apply jeff_end_cancelled;
          [intros y _; rewrite EJ; reflexivity | exact Hs | intros Hn0; apply Hr; exact Hn0
          | intros _; exact EJ | right; right; exact Erc]. }
      destruct (end_cancelled c n s1) as [s2 mo2]. exact Hcan.
    + apply jeff_finish_run; auto. unfold sd_inline in Ein. destruct (ph (Rn s n)); discriminate.
  - apply JE_same. cbn [fst]. rewrite Jb_hdone, EJ. reflexivity.
Qed.

(* pending tasks are members: needed to know that a run never cancels itself *)
Definition pend_ok (c : cfg) (s : state) : Prop :=
  forall n y, In y (pend (Rn s n)) -> In y (members c n).

Lemma jeff_cancel_list c s n l x s' :
  wf c = true -> pend_ok c s -> run_alive c s n true = true ->
  (forall y, In y l -> In y (pend (Rn s n))) ->
  Jb s' x = Jb (mapJ cancel_j l (clear_cp s n)) x ->
  ph (Rn s' n) <> PMain -> ph (Rn s' n) <> PIdle ->
  (ph (Rn s' n) = PCTidy \/ rcanc (Rn s' n) = true) ->
  jeff c s s' x (x = n).
Proof.
  intros W Hp Ha Hl E P1 P2 P3. destruct (run_alive_true _ _ _ Ha) as (Hs & Hn & Hn0 & Hst & Hcp).
  rewrite Jb_mapJ, Jb_clear_cp in E.
  apply rootb_false in Hn0. rewrite Hn0 in E. apply rootb_false in Hn0.
  destruct (memb x l) eqn:Ex.
  - apply memb_In in Ex. pose proof (Hl _ Ex) as Hx.
    assert (Hxn : x <> n) by (apply (member_neq c n x W); apply Hp; exact Hx).
    apply Nat.eqb_neq in Hxn. rewrite Hxn in E.
    apply JE_cancel; [exact E|]. exists n. auto.
  - destruct (Nat.eqb_spec x n) as [->|Hxn]; [|apply JE_same; exact E].
    apply JE_uncp; auto. rewrite E, Hst. reflexivity.
Qed.

Lemma jeff_cancel_main c s n x :
  wf c = true -> pend_ok c s -> run_alive c s n true = true ->
  jeff c s (fst (react_cancel_main c n s)) x (x = n).
Proof.
  intros W Hp Ha. destruct (run_alive_true _ _ _ Ha) as (Hs & Hn & Hn0 & Hst & Hcp).
  unfold react_cancel_main.
  set (u := filter _ (pend (Rn s n))).
  assert (Hu : forall y, In y u -> In y (pend (Rn s n))).
  { intros y Hy. unfold u in Hy. apply filter_In in Hy. tauto. }
  destruct u as [|u0 u'] eqn:Eu.
  - apply jeff_end_cancelled; auto.
    + intros y Hy. rewrite Jb_clear_cp. apply rootb_false in Hn0. rewrite Hn0.
      apply Nat.eqb_neq in Hy. rewrite Hy. reflexivity.
    + intros E0. contradiction.
  - rewrite <- Eu in *. cbn [fst].
    eapply jeff_cancel_list; eauto; rewrite Rn_setR_same; try discriminate. left. reflexivity.
Qed.

Lemma jeff_cancel_tidy c s n x :
  wf c = true -> pend_ok c s -> run_alive c s n true = true ->
  (exists w, ph (Rn s n) = PTidy w) ->
  jeff c s (fst (react_cancel_tidy c n s)) x (x = n).
Proof.
  intros W Hp Ha [w Hph]. unfold react_cancel_tidy. cbn [fst].
  eapply jeff_cancel_list; eauto; rewrite Rn_setR_same; cbn [ph rcanc]; try (rewrite Rn_clear_cp, Hph; discriminate).
  right. reflexivity.
Qed.

Lemma jeff_cancel_ctidy c s n x :
  wf c = true -> pend_ok c s -> run_alive c s n true = true -> ph (Rn s n) = PCTidy ->
  jeff c s (fst (react_cancel_ctidy c n s)) x (x = n).
Proof.
  intros W Hp Ha Hph. unfold react_cancel_ctidy. cbn [fst].
  eapply jeff_cancel_list; eauto; rewrite Rn_mapJ, Rn_clear_cp, Hph; try discriminate. left. reflexivity.
Qed.

Lemma jeff_cancel_shut c s n x :
  (sd_inline s n = true -> run_alive c s n true = true) ->
  jeff c s (fst (react_cancel_shut c n s)) x (x = n).
Proof.
  intros Hi. unfold react_cancel_shut.
  destruct (sd_inline s n) eqn:Ein.
  - destruct (run_alive_true _ _ _ (Hi eq_refl)) as (Hs & Hn & Hn0 & Hst & Hcp).
    match goal with |- jeff c s (fst (react_shut_cancel c n ?S0)) x _ =>
      assert (E1 : Jb (fst (react_shut_cancel c n S0)) = Jb (clear_cp s n)) by reflexivity end.
    pose proof (Jb_clear_cp s n x) as E. apply rootb_false in Hn0. rewrite Hn0 in E.
    destruct (Nat.eqb_spec x n) as [->|Hxn]; [|apply JE_same; rewrite E1; exact E].
    apply JE_uncp; auto; [rewrite E1, E, Hst; reflexivity|]. right. cbn [Rn react_shut_cancel fst setS mapH]. unfold react_shut_cancel. cbn [fst Rn setS mapH]. rewrite Rn_setR_same. reflexivity.
  - apply JE_same. reflexivity.
Qed.

Lemma atomic_id_spec c j : atomic_id c j = true -> j_sched (jc c j) = false /\ j < njobs c /\ j <> 0.
Proof.
  unfold atomic_id. rewrite !andb_true_iff, !negb_true_iff, Nat.ltb_lt. intros [[A B] C].
  apply rootb_false in C. auto.
Qed.

Lemma sd_thread_inline c s n wc lvl :
  holds lvl (fst (sd_thread_ok c s n wc)) = true ->
  sd_inline s n = true -> run_alive c s n wc = true.
Proof.
  unfold sd_thread_ok. cbn [fst]. rewrite holds_0. intros H Hi. rewrite Hi in H. exact H.
Qed.

Definition subject (e : event) (x : nat) : Prop :=
  match e with
  | EBegin n _ | EWake n _ _ _ | ECancelled n _ _ => x = n
  | EStart j | EFinish j _ | ECancelHit j | ECancelEnd j | ECancelAbort j | EGone j => x = j
  | _ => False
  end.

Theorem J_effect lvl c s e s' :
  wf c = true -> pend_ok c s -> step lvl c s e = Some s' -> forall x, jeff c s s' x (subject e x).
Proof.
  intros W Hp Hstep x. apply step_inv in Hstep. destruct Hstep as [-> Hg].
  destruct e as [n o|n k d o|n k o|n o|j|j oc|j|j|j|j|j|j|j|j|t|t|jv sv]; cbn [reaction subject].
  - (* EBegin *) split_guards Hg. apply jeff_begin; assumption.
  - (* EWake *) destruct k; cbn [reaction].
    + split_guards Hg. apply jeff_main; [exact W|]. destruct (ph (Rn s n)); try discriminate. reflexivity.
    + split_guards Hg. apply jeff_tidy. assumption.
    + split_guards Hg. apply jeff_ctidy; [assumption|]. destruct (ph (Rn s n)); try discriminate. reflexivity.
    + cbn [forallb guards app outs_guards] in Hg. apply andb_true_iff in Hg. destruct Hg as [G1 _].
      apply jeff_shut. eapply sd_thread_inline; eauto.
    + cbn [forallb guards app outs_guards] in Hg. apply andb_true_iff in Hg. destruct Hg as [G1 _].
      apply jeff_shtidy. eapply sd_thread_inline; eauto.
  - (* ECancelled *) destruct k; cbn [reaction].
    + split_guards Hg. apply jeff_cancel_main; assumption.
    + split_guards Hg. apply jeff_cancel_tidy; try assumption.
      destruct (ph (Rn s n)) as [| |w| | |]; try discriminate. exists w. reflexivity.
    + split_guards Hg. apply jeff_cancel_ctidy; try assumption.
      destruct (ph (Rn s n)); try discriminate. reflexivity.
    + cbn [forallb guards app outs_guards] in Hg. apply andb_true_iff in Hg. destruct Hg as [G1 _].
      apply jeff_cancel_shut. eapply sd_thread_inline; eauto.
    + cbn [forallb guards app outs_guards] in Hg. apply andb_true_iff in Hg. destruct Hg as [G1 _].
      apply jeff_cancel_shut. eapply sd_thread_inline; eauto.
  - (* ESdStart *) apply JE_same. cbn [reaction]. rewrite Jb_react_sdstart. reflexivity.
  - (* EStart *) split_guards Hg. cbn [fst].
    assert (E : forall y, Jb (eff_start c j s) y =
                upd (Jb s) j (mkJst Running false (optN_add (now s) (j_dur (jc c j))) true) y) by reflexivity.
    destruct (Nat.eqb_spec x j) as [->|Hx]; [|apply JE_same; rewrite E, upd_other by exact Hx; reflexivity].
    destruct (st (Jb s j)) eqn:Est; try discriminate. apply negb_true_iff in G0.
    apply JE_start; auto; try (rewrite E, upd_same; reflexivity).
    destruct (atomic_id_spec _ _ G) as (A1 & _). rewrite E, upd_same, A1. reflexivity.
  - (* EFinish *) split_guards Hg. cbn [fst].
    assert (E : forall y, Jb (eff_finish c j oc s) y =
                upd (Jb s) j (mkJst (match oc with ORet => DoneRet RVOwn | OExc => DoneExc (tag_job j) end) false None true) y) by reflexivity.
    destruct (Nat.eqb_spec x j) as [->|Hx]; [|apply JE_same; rewrite E, upd_other by exact Hx; reflexivity].
    destruct (st (Jb s j)) eqn:Est; try discriminate. apply negb_true_iff in G0.
    destruct (atomic_id_spec _ _ G) as (A1 & A2 & A3).
    apply JE_done; auto; try (rewrite E, upd_same; cbn [st cp ran]; auto; destruct oc; reflexivity).
    intros Hsc. congruence.
  - (* ECancelHit *) split_guards Hg. cbn [fst].
    assert (E : forall y, Jb (eff_cancel_hit c j s) y =
                upd (Jb s) j (mkJst Cancelling false (Some (now s + j_cdur (jc c j))%N) true) y) by reflexivity.
    destruct (Nat.eqb_spec x j) as [->|Hx]; [|apply JE_same; rewrite E, upd_other by exact Hx; reflexivity].
    destruct (st (Jb s j)) eqn:Est; try discriminate.
    destruct (atomic_id_spec _ _ G) as (A1 & A2 & A3).
    apply JE_hit; auto; try (rewrite E, upd_same; reflexivity).
  - (* ECancelEnd *) split_guards Hg. cbn [fst].
    assert (E : forall y, Jb (eff_cancel_over c j s) y = upd (Jb s) j (mkJst Cancelled false None true) y) by reflexivity.
    destruct (Nat.eqb_spec x j) as [->|Hx]; [|apply JE_same; rewrite E, upd_other by exact Hx; reflexivity].
    destruct (st (Jb s j)) eqn:Est; try discriminate.
    apply JE_cancelled; [reflexivity|left; exact Est|]. rewrite E, upd_same. reflexivity.
  - (* ECancelAbort *) split_guards Hg. cbn [fst].
    assert (E : forall y, Jb (eff_cancel_over c j s) y = upd (Jb s) j (mkJst Cancelled false None true) y) by reflexivity.
    destruct (Nat.eqb_spec x j) as [->|Hx]; [|apply JE_same; rewrite E, upd_other by exact Hx; reflexivity].
    destruct (st (Jb s j)) eqn:Est; try discriminate.
    apply JE_cancelled; [reflexivity|left; exact Est|]. rewrite E, upd_same. reflexivity.
  - (* EGone *) split_guards Hg. cbn [fst].
    assert (E : forall y, Jb (eff_gone j s) y = upd (Jb s) j (mkJst Cancelled false None false) y) by reflexivity.
    destruct (Nat.eqb_spec x j) as [->|Hx]; [|apply JE_same; rewrite E, upd_other by exact Hx; reflexivity].
    destruct (st (Jb s j)) eqn:Est; try discriminate.
    apply JE_gone; auto. rewrite E, upd_same. reflexivity.
  - apply JE_same. reflexivity.
  - apply JE_same. reflexivity.
  - apply JE_same. reflexivity.
  - apply JE_same. reflexivity.
  - apply JE_same. reflexivity.
  - apply JE_same. reflexivity.
  - apply JE_same. reflexivity.
Qed.
