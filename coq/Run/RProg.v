(* Progress (C03): an admissible tree is never stuck before its end. *)
From AJ Require Import Common.Util Run.RModel Run.RFacts Run.RInvP Run.RProgA Run.RAdm Run.RProgS.

Theorem progress c h s : admissible c = true -> Reach 3 c h s -> terminal c s = false ->
  exists e s', step 3 c s e = Some s' /\ match e with EPoll _ _ => False | _ => True end.
Proof.
  intros Adm Hr Ht.
  assert (W : wf c = true).
  { unfold admissible in Adm. apply andb_true_iff in Adm. destruct Adm as [A _].
    apply andb_true_iff in A. tauto. }
  pose proof (InvP_reach 3 c h s W Hr) as IP.
  pose proof (InvQ_reach 3 c h s W (le_n 3) Hr) as IQ.
  destruct (quiescent c s) eqn:Hq.
  - destruct (minN (deadlines c s)) as [t|] eqn:Em.
    + destruct (tick_progress c s t Hq Em) as (s' & Hs). exists (ETick t), s'. split; [exact Hs|exact I].
    + pose proof (RTime.minN_none _ Em) as Hd0.
      destruct (dead_state_is_final c h s W Adm Hr IP IQ Hq Hd0) as [Hp|Hp].
      * destruct (begin_progress c s W Hp) as (o & s' & Hs). exists (EBegin 0 o), s'. split; [exact Hs|exact I].
      * exfalso. unfold terminal in Ht. rewrite Hp, Hq, Em in Ht. discriminate.
  - destruct (enabled_progress_reach c h s W Hr IP IQ Hq) as (e & s' & Hs & He).
    exists e, s'. split; [exact Hs|]. destruct e; try exact I. destruct He.
Qed.

(* in words: a reachable state of an admissible tree that is not the end of the run can always
   take a step that is not a mere observation: a job, handler or scheduler event, or the clock
   moving to the next deadline *)
Print Assumptions progress.
