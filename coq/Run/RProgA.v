(* Progress, part A: the enabledness flags of model R are faithful.  Whenever a flag
   (job_enabled, handler_enabled, run_enabled, sdtask_enabled) is set, an actual event is accepted
   by [step 3]; whenever nothing is enabled and a deadline is pending, the clock can move. *)
From AJ Require Import Common.Util Run.RModel Run.RFacts Run.RFacts2 Run.RInv Run.RInv2 Run.RInv3 Run.RInv4
  Run.RInv5 Run.RProps1 Run.RProps3 Run.RProps4 Run.RShut1 Run.RShut2 Run.RTime Run.RInvP.

Definition real_event (e : event) : Prop :=
  match e with EPoll _ _ | ETick _ | EGrace _ => False | _ => True end.

(* ------------------------------------------------------------------ reflexivity of the output match *)

Lemma subsetb_refl l : subsetb l l = true.
Proof. unfold subsetb. apply forallb_forall. intros x Hx. apply memb_In. exact Hx. Qed.

Lemma seteqb_refl l : seteqb l l = true.
Proof. unfold seteqb. rewrite subsetb_refl. reflexivity. Qed.

Lemma out_eqb_refl a : out_eqb a a = true.
Proof.
  destruct a as [j|j|n i|n k ids t|n r|n v]; cbn [out_eqb]; rewrite ?Nat.eqb_refl; cbn [andb].
  - reflexivity.
  - reflexivity.
  - destruct i; reflexivity.
  - rewrite seteqb_refl. destruct k; cbn [wkind_eqb andb]; destruct t as [x|]; cbn [optN_eqb];
      rewrite ?N.eqb_refl; reflexivity.
  - destruct r; reflexivity.
  - destruct v; cbn [verdict_eqb]; rewrite ?Nat.eqb_refl; reflexivity.
Qed.

Lemma outs_match_refl l : outs_match l l = true.
Proof.
  unfold outs_match. rewrite Nat.eqb_refl. cbn [andb].
  assert (H : forallb (fun o => existsb (out_eqb o) l) l = true).
  { apply forallb_forall. intros x Hx. apply existsb_exists. exists x. split; [exact Hx|apply out_eqb_refl]. }
  rewrite H. reflexivity.
Qed.

(* ------------------------------------------------------------------ small list facts *)

Lemma forallb_false (A : Type) (f : A -> bool) (l : list A) :
  forallb f l = false -> exists x, In x l /\ f x = false.
Proof.
  induction l as [|a l IH]; cbn [forallb]; intros H; [discriminate|].
  destruct (f a) eqn:Ea.
  - cbn [andb] in H. destruct (IH H) as (x & Hx & Hf). exists x. split; [right; exact Hx|exact Hf].
  - exists a. split; [left; reflexivity|exact Ea].
Qed.

Lemma filter_nil_existsb (A : Type) (f : A -> bool) (l : list A) : filter f l = [] -> existsb f l = false.
Proof.
  induction l as [|a l IH]; cbn [filter existsb]; intros H; [reflexivity|].
  destruct (f a) eqn:Ea; [discriminate|]. cbn [orb]. apply IH. exact H.
Qed.

Lemma minN_In l m : minN l = Some m -> In m l.
Proof.
  revert m. induction l as [|a l IH]; intros m Hm; [discriminate|].
  cbn [minN] in Hm. destruct (minN l) as [y|] eqn:E.
  - injection Hm as <-. destruct (N.min_spec a y) as [[_ ->]|[_ ->]].
    + left. reflexivity.
    + right. apply IH. reflexivity.
  - injection Hm as <-. left. reflexivity.
Qed.

Lemma NoDup_members c n : NoDup (members c n).
Proof. unfold members, all_ids. apply NoDup_filter. apply NoDup_seqn. Qed.

Lemma wf_root c : wf c = true -> j_sched (jc c 0) = true /\ 0 < njobs c.
Proof.
  intros W. assert (H0 : 0 < njobs c).
  { unfold wf in W. apply andb_true_iff in W. destruct W as [W _].
    apply negb_true_iff, Nat.eqb_neq in W. lia. }
  split; [|exact H0]. pose proof (wf_job_of c 0 W H0) as H. unfold wf_job in H. cbn [Nat.eqb] in H.
  rewrite !andb_true_iff in H. tauto.
Qed.

(* ------------------------------------------------------------------ firing an event *)

Lemma fire c s e : real_event e -> forallb (holds 3) (guards c s e) = true ->
  exists e' s', step 3 c s e' = Some s' /\ real_event e'.
Proof.
  intros Hr Hg. exists e, (fst (reaction c s e)). split; [|exact Hr]. unfold step. rewrite Hg. reflexivity.
Qed.

Ltac guards_open :=
  cbn [guards forallb app outs_guards reaction]; unfold sd_thread_ok; cbn [fst snd];
  rewrite ?holds3 by lia.

Lemma atomic_id_intro c j : j_sched (jc c j) = false -> j < njobs c -> j <> 0 -> atomic_id c j = true.
Proof.
  intros H1 H2 H3. unfold atomic_id. rewrite H1. apply Nat.ltb_lt in H2. rewrite H2.
  apply rootb_false in H3. rewrite H3. reflexivity.
Qed.

Lemma sched_id_intro c n : j_sched (jc c n) = true -> n < njobs c -> sched_id c n = true.
Proof. intros H1 H2. unfold sched_id. rewrite H1. apply Nat.ltb_lt in H2. rewrite H2. reflexivity. Qed.

(* ------------------------------------------------------------------ jobs *)

Lemma job_progress c s j : InvT c s -> InvP c s -> j < njobs c ->
  job_enabled c s j = true -> exists e s', step 3 c s e = Some s' /\ real_event e.
Proof.
  intros IT IP Hj He.
  assert (Hj0 : j <> 0).
  { intros ->. unfold job_enabled in He. rewrite (p_root c s IP) in He. cbn in He. discriminate. }
  pose proof Hj as Hjb. apply Nat.ltb_lt in Hjb.
  pose proof Hj0 as Hrb. apply rootb_false in Hrb.
  unfold job_enabled in He.
  destruct (st (Jb s j)) eqn:Est; try discriminate.
  - (* Created *)
    destruct (cp (Jb s j)) eqn:Ecp.
    + apply (fire c s (EGone j)); [exact I|]. guards_open.
      rewrite Hjb, Hrb, Est, Ecp. reflexivity.
    + cbn [orb] in He. destruct (j_sched (jc c j)) eqn:Esch.
      * apply (fire c s (EBegin j (snd (react_begin c j s)))); [exact I|]. guards_open.
        rewrite (sched_id_intro c j Esch Hj), Hrb, Est, Ecp, He, !outs_match_refl. reflexivity.
      * apply (fire c s (EStart j)); [exact I|]. guards_open.
        rewrite (atomic_id_intro c j Esch Hj Hj0), Est, Ecp, He. reflexivity.
  - (* Running *)
    destruct (j_sched (jc c j)) eqn:Esch; [discriminate|].
    destruct (cp (Jb s j)) eqn:Ecp.
    + apply (fire c s (ECancelHit j)); [exact I|]. guards_open.
      rewrite (atomic_id_intro c j Esch Hj Hj0), Est, Ecp. reflexivity.
    + cbn [orb] in He.
      pose proof (t_job c s IT j Esch (or_introl Est)) as Hdl.
      pose proof (p_rund c s IP j Esch Est) as Hrd.
      destruct (tend (Jb s j)) as [d|] eqn:Etd; [|discriminate].
      cbn [opt_le_now] in He. cbn [dl_ok] in Hdl. apply N.leb_le in He.
      apply (fire c s (EFinish j (j_out (jc c j)))); [exact I|]. guards_open.
      rewrite (atomic_id_intro c j Esch Hj Hj0), Est, Ecp, Etd.
      destruct (j_dur (jc c j)) as [du|] eqn:Edu.
      * assert (Hd : N.eqb d (now s) = true) by (apply N.eqb_eq; lia).
        cbn [opt_eq_now]. rewrite Hd. destruct (j_out (jc c j)); reflexivity.
      * exfalso. destruct Hrd as [_ Hrd]. specialize (Hrd eq_refl). discriminate.
  - (* Cancelling *)
    destruct (p_canc c s IP j Est) as [Esch Hnn].
    destruct (cp (Jb s j)) eqn:Ecp.
    + apply (fire c s (ECancelAbort j)); [exact I|]. guards_open.
      rewrite (atomic_id_intro c j Esch Hj Hj0), Est, Ecp. reflexivity.
    + cbn [orb] in He.
      pose proof (t_job c s IT j Esch (or_intror Est)) as Hdl.
      destruct (tend (Jb s j)) as [d|] eqn:Etd; [|discriminate].
      cbn [opt_le_now] in He. cbn [dl_ok] in Hdl. apply N.leb_le in He.
      apply (fire c s (ECancelEnd j)); [exact I|]. guards_open.
      rewrite (atomic_id_intro c j Esch Hj Hj0), Est, Ecp, Etd.
      assert (Hd : N.eqb d (now s) = true) by (apply N.eqb_eq; lia).
      cbn [opt_eq_now]. rewrite Hd. reflexivity.
Qed.

(* ------------------------------------------------------------------ handler tasks *)

Lemma handler_progress c s j : Inv8 c s -> InvT3 c s -> InvQ c s -> j < njobs c -> j <> 0 ->
  handler_enabled c s j = true -> exists e s', step 3 c s e = Some s' /\ real_event e.
Proof.
  intros I8 IT3 IQ Hj Hj0 He.
  unfold handler_enabled in He.
  destruct (hs (Hd s j)) eqn:Ehs; try discriminate.
  - (* HCreated *)
    pose proof (k_fifo c s I8 j Ehs) as Ehcp.
    destruct (j_sched (jc c j)) eqn:Esch.
    + apply (fire c s (ESdStart j (snd (react_sdstart c j s)))); [exact I|]. guards_open.
      rewrite (sched_id_intro c j Esch Hj), Ehs, Ehcp, !outs_match_refl. reflexivity.
    + apply (fire c s (EHStart j)); [exact I|]. guards_open.
      rewrite (atomic_id_intro c j Esch Hj Hj0), Ehs, Ehcp. reflexivity.
  - (* HRunning *)
    destruct (j_sched (jc c j)) eqn:Esch; [discriminate|].
    destruct (hcp (Hd s j)) eqn:Ehcp.
    + apply (fire c s (EHCancel j)); [exact I|]. guards_open.
      rewrite (atomic_id_intro c j Esch Hj Hj0), Ehs, Ehcp. reflexivity.
    + cbn [orb] in He.
      pose proof (t_hd c s IT3 j Esch Ehs) as Hdl.
      pose proof (q_hdur c s IQ j Esch Ehs) as Hhd.
      destruct (hend (Hd s j)) as [d|] eqn:Ehe; [|discriminate].
      cbn [opt_le_now] in He. cbn [dl_ok] in Hdl. apply N.leb_le in He.
      apply (fire c s (EHEnd j)); [exact I|]. guards_open.
      rewrite (atomic_id_intro c j Esch Hj Hj0), Ehs, Ehcp, Ehe.
      destruct (j_sdur (jc c j)) as [du|] eqn:Edu.
      * assert (Hd' : N.eqb d (now s) = true) by (apply N.eqb_eq; lia).
        cbn [opt_eq_now]. rewrite Hd'. reflexivity.
      * exfalso. destruct Hhd as [_ Hhd]. specialize (Hhd eq_refl). discriminate.
Qed.

(* ------------------------------------------------------------------ the culprit and the outputs *)

Lemma culprit_exists c s n : Inv5 c s -> exists t, culprit_ok c s n (why_of s n) t = true.
Proof.
  intros I5. unfold culprit_ok. destruct (why_of s n) eqn:Ew; try (exists 0; reflexivity).
  destruct ((Nat.eqb n 0 && pure_root c) || negb (j_crit (jc c n))) eqn:Ec; [exists 0; reflexivity|].
  assert (Hpc : ph_crit (ph (Rn s n))).
  { unfold why_of in Ew. unfold ph_crit. destruct (ph (Rn s n)) as [| |w|w| |] eqn:Eph; try discriminate.
    - left. rewrite Ew. reflexivity.
    - right. rewrite Ew. reflexivity. }
  destruct (b_crit c s I5 n Hpc) as (x & Hx & Hc).
  destruct (b_seen_done c s I5 n x Hx) as [Hm _].
  unfold crit_exc in Hc. apply andb_true_iff in Hc. destruct Hc as [Hc1 Hc2].
  destruct (st (Jb s x)) as [| | | |v|t|] eqn:Est; try discriminate.
  exists t. apply existsb_exists. exists x. split; [exact Hm|].
  rewrite Hc1, Est, Nat.eqb_refl. reflexivity.
Qed.

Lemma verdict_fix c s n w r t : culprit_ok c s n w t = true ->
  verdict_of c n w (culprit_of [OSdEnd n r; OEnd n (verdict_of c n w t)]) = verdict_of c n w t /\
  culprit_ok c s n w (culprit_of [OSdEnd n r; OEnd n (verdict_of c n w t)]) = true.
Proof.
  intros H. unfold verdict_of, culprit_ok in *. destruct w.
  - split; reflexivity.
  - split; reflexivity.
  - destruct ((Nat.eqb n 0 && pure_root c) || negb (j_crit (jc c n))).
    + split; reflexivity.
    + cbn [culprit_of fold_right]. split; [reflexivity|exact H].
Qed.

Lemma shut_witness c s n p : Inv5 c s ->
  (sd_inline s n = true -> p = [] -> rcanc (Rn s n) = false) ->
  exists o, snd (react_shut c n p (culprit_of o) s) = o /\
            (if sd_inline s n && match p with [] => true | _ => false end
             then culprit_ok c s n (why_of s n) (culprit_of o) else true) = true.
Proof.
  intros I5 Hrc. destruct (culprit_exists c s n I5) as [t Ht].
  destruct p as [|x p].
  - destruct (sd_inline s n) eqn:Ei.
    + specialize (Hrc eq_refl eq_refl).
      destruct (verdict_fix c s n (why_of s n) SRTrue t Ht) as [V1 V2].
      exists [OSdEnd n SRTrue; OEnd n (verdict_of c n (why_of s n) t)]. split.
      * unfold react_shut, react_shut_wake. rewrite Ei, Hrc. cbn [finish_run snd app]. rewrite V1. reflexivity.
      * cbn [andb]. exact V2.
    + exists (snd (react_shut c n [] 0 s)). split; [|reflexivity].
      unfold react_shut, react_shut_wake. rewrite Ei. reflexivity.
  - exists [OWaitCall n KShTidy (x :: p) None]. split; [reflexivity|].
    rewrite andb_false_r. reflexivity.
Qed.

Lemma shtidy_witness c s n : Inv5 c s ->
  exists o, snd (react_shtidy c n (culprit_of o) s) = o /\
            (if sd_inline s n && negb (rcanc (Rn s n))
             then culprit_ok c s n (why_of s n) (culprit_of o) else true) = true.
Proof.
  intros I5. destruct (culprit_exists c s n I5) as [t Ht].
  destruct (sd_inline s n) eqn:Ei.
  - destruct (rcanc (Rn s n)) eqn:Erc.
    + exists (snd (react_shtidy c n 0 s)). split; [|reflexivity].
      unfold react_shtidy, react_shtidy_wake. rewrite Ei, Erc. reflexivity.
    + destruct (verdict_fix c s n (why_of s n) SRFalse t Ht) as [V1 V2].
      exists [OSdEnd n SRFalse; OEnd n (verdict_of c n (why_of s n) t)]. split.
      * unfold react_shtidy, react_shtidy_wake. rewrite Ei, Erc. cbn [finish_run snd]. rewrite V1. reflexivity.
      * cbn [andb negb]. exact V2.
  - exists (snd (react_shtidy c n 0 s)). split; [|reflexivity].
    unfold react_shtidy, react_shtidy_wake. rewrite Ei. reflexivity.
Qed.

(* ------------------------------------------------------------------ the shutdown activity *)

(* [rc_wait]: a run that was cancelled inside its inline shutdown is tidying, not waiting *)
Definition rc_wait (s : state) : Prop :=
  forall n, sd_inline s n = true -> sp (Sd s n) = SdWait -> rcanc (Rn s n) = false.

Lemma hpending_cons c s n x l : hpending c s (members c n) = x :: l -> forallb (hfin s) (members c n) = false.
Proof.
  intros E. destruct (forallb (hfin s) (members c n)) eqn:Ef; [exfalso|reflexivity].
  assert (Hx : In x (hpending c s (members c n))) by (rewrite E; left; reflexivity).
  unfold hpending in Hx. apply filter_In in Hx. destruct Hx as [Hm Hn].
  rewrite forallb_forall in Ef. rewrite (Ef x Hm) in Hn. discriminate.
Qed.

Lemma sd_progress c s n wc : Inv5 c s -> Inv8 c s -> InvT3 c s -> InvQ c s -> rc_wait s ->
  (if sd_inline s n then run_alive c s n wc = true else hs (Hd s n) = HRunning /\ hcp (Hd s n) = wc) ->
  sd_enabled c s n wc = true -> exists e s', step 3 c s e = Some s' /\ real_event e.
Proof.
  intros I5 I8 IT3 IQ Hx Hth He.
  destruct (handlers_stepped c s n) eqn:Ehst.
  2:{ unfold handlers_stepped in Ehst. apply forallb_false in Ehst. destruct Ehst as (x & Hm & Hc).
      pose proof (proj1 (In_members c n x) Hm) as (Hxl & _ & Hx0).
      apply (handler_progress c s x I8 IT3 IQ Hxl Hx0).
      unfold handler_enabled. destruct (hs (Hd s x)); try discriminate. reflexivity. }
  assert (T1 : (if sd_inline s n then run_alive c s n wc else true) = true).
  { destruct (sd_inline s n); [exact Hth|reflexivity]. }
  assert (T2 : (if sd_inline s n then true
                else match hs (Hd s n) with HRunning => Bool.eqb (hcp (Hd s n)) wc | _ => false end) = true).
  { destruct (sd_inline s n); [reflexivity|]. destruct Hth as [-> <-]. apply eqb_reflx. }
  unfold sd_enabled in He.
  destruct (sp (Sd s n)) eqn:Esp; try discriminate.
  - (* SdWait *)
    destruct wc.
    + apply (fire c s (ECancelled n KShut (snd (react_cancel_shut c n s)))); [exact I|]. guards_open.
      rewrite T1, T2, Esp, Ehst, !outs_match_refl. reflexivity.
    + cbn [orb] in He.
      assert (Hrc : sd_inline s n = true -> hpending c s (members c n) = [] -> rcanc (Rn s n) = false).
      { intros Hi _. apply (Hx n Hi Esp). }
      destruct (shut_witness c s n (hpending c s (members c n)) I5 Hrc) as (o & Ho & Hcu).
      apply (fire c s (EWake n KShut (hpending c s (members c n)) o)); [exact I|]. guards_open.
      rewrite T1, T2, Esp, Ehst, Ho, Hcu, seteqb_refl, !outs_match_refl.
      assert (Hnd : nodupb (hpending c s (members c n)) = true).
      { apply nodupb_spec. unfold hpending. apply NoDup_filter. apply NoDup_members. }
      rewrite Hnd.
      destruct (hpending c s (members c n)) as [|y l] eqn:Ep; [reflexivity|].
      rewrite (hpending_cons c s n y l Ep) in He. cbn [orb] in He. rewrite He. reflexivity.
  - (* SdTidy *)
    destruct wc.
    + apply (fire c s (ECancelled n KShTidy (snd (react_cancel_shut c n s)))); [exact I|]. guards_open.
      rewrite T1, T2, Esp, Ehst, !outs_match_refl. reflexivity.
    + cbn [orb] in He.
      destruct (shtidy_witness c s n I5) as (o & Ho & Hcu).
      apply (fire c s (EWake n KShTidy [] o)); [exact I|]. guards_open.
      rewrite T1, T2, Esp, He, Ho, Hcu, !outs_match_refl. reflexivity.
Qed.

(* ------------------------------------------------------------------ runs *)

Lemma run_progress c s n : InvE c s -> InvT3 c s -> InvQ c s -> rc_wait s ->
  j_sched (jc c n) = true -> n < njobs c ->
  run_enabled c s n = true -> exists e s', step 3 c s e = Some s' /\ real_event e.
Proof.
  intros IE IT3 IQ Hx Hsch Hn He.
  destruct IE as [[[I1 I3 I4 I5 I6] I7] I8].
  assert (HA : ph (Rn s n) <> PIdle -> ph (Rn s n) <> POver ->
               run_alive c s n (if Nat.eqb n 0 then false else cp (Jb s n)) = true).
  { intros H1 H2. unfold run_alive, rootb. rewrite Hsch. apply Nat.ltb_lt in Hn. rewrite Hn. cbn [andb].
    destruct (Nat.eqb n 0) eqn:En; [reflexivity|]. apply Nat.eqb_neq in En.
    rewrite (k_act c s I3 n En Hsch H1 H2). apply eqb_reflx. }
  unfold run_enabled in He.
  destruct (ph (Rn s n)) as [| |w|w| |] eqn:Eph; try discriminate.
  - (* PMain *)
    assert (HA' := HA ltac:(discriminate) ltac:(discriminate)).
    destruct (if Nat.eqb n 0 then false else cp (Jb s n)).
    + apply (fire c s (ECancelled n KMain (snd (react_cancel_main c n s)))); [exact I|]. guards_open.
      rewrite HA', Eph, !outs_match_refl. reflexivity.
    + cbn [orb] in He.
      apply (fire c s (EWake n KMain (filter (jfin s) (pend (Rn s n)))
                            (snd (react_main c n (filter (jfin s) (pend (Rn s n))) s)))); [exact I|].
      guards_open.
      assert (Hnd : nodupb (filter (jfin s) (pend (Rn s n))) = true).
      { apply nodupb_spec. apply NoDup_filter. apply (b_pend_nd c s I5). }
      rewrite HA', Eph, seteqb_refl, Hnd, !outs_match_refl.
      destruct (filter (jfin s) (pend (Rn s n))) as [|y l] eqn:Ed; [|reflexivity].
      rewrite (filter_nil_existsb _ _ _ Ed) in He. cbn [orb] in He. rewrite He.
      destruct (expi (Rn s n)); [reflexivity|discriminate].
  - (* PTidy *)
    assert (HA' := HA ltac:(discriminate) ltac:(discriminate)).
    destruct (if Nat.eqb n 0 then false else cp (Jb s n)).
    + apply (fire c s (ECancelled n KTidy (snd (react_cancel_tidy c n s)))); [exact I|]. guards_open.
      rewrite HA', Eph, !outs_match_refl. reflexivity.
    + cbn [orb] in He.
      apply (fire c s (EWake n KTidy [] (snd (react_tidy c n s)))); [exact I|]. guards_open.
      rewrite HA', Eph, He, !outs_match_refl. reflexivity.
  - (* PShut *)
    assert (HA' := HA ltac:(discriminate) ltac:(discriminate)).
    apply (sd_progress c s n (if Nat.eqb n 0 then false else cp (Jb s n)) I5 I8 IT3 IQ Hx); [|exact He].
    unfold sd_inline. rewrite Eph. exact HA'.
  - (* PCTidy *)
    assert (HA' := HA ltac:(discriminate) ltac:(discriminate)).
    destruct (if Nat.eqb n 0 then false else cp (Jb s n)).
    + apply (fire c s (ECancelled n KCTidy (snd (react_cancel_ctidy c n s)))); [exact I|]. guards_open.
      rewrite HA', Eph, !outs_match_refl. reflexivity.
    + cbn [orb] in He.
      apply (fire c s (EWake n KCTidy [] (snd (end_cancelled c n s)))); [exact I|]. guards_open.
      rewrite HA', Eph, He, !outs_match_refl. reflexivity.
Qed.

Lemma sdtask_progress c s n : InvE c s -> InvT3 c s -> InvQ c s -> rc_wait s ->
  j_sched (jc c n) = true ->
  sdtask_enabled c s n = true -> exists e s', step 3 c s e = Some s' /\ real_event e.
Proof.
  intros IE IT3 IQ Hx Hsch He.
  destruct IE as [[[I1 I3 I4 I5 I6] I7] I8].
  unfold sdtask_enabled in He.
  destruct (hs (Hd s n)) eqn:Ehs; try discriminate.
  destruct (q_hrun c s IQ n Hsch Ehs) as [_ Hni].
  apply (sd_progress c s n (hcp (Hd s n)) I5 I8 IT3 IQ Hx); [|exact He].
  rewrite Hni. split; [exact Ehs|reflexivity].
Qed.

Lemma phase_eq_PMain (p : phase) : p = PMain \/ p <> PMain.
Proof. destruct p; try (right; discriminate). left. reflexivity. Qed.

(* ------------------------------------------------------------------ [rc_wait] is an invariant
   (level 3): a run whose [rcanc] flag is set has left its main loop, and if it is in its inline
   shutdown then the broadcast is in its tidy wait (the flag was set by the cancellation of the
   shutdown, which also started the tidy wait). *)

Definition InvR (s : state) : Prop :=
  forall m, rcanc (Rn s m) = true ->
            ph (Rn s m) <> PMain /\ (sd_inline s m = true -> sp (Sd s m) = SdTidy).

Lemma InvR_init : InvR init.
Proof. intros m H. discriminate. Qed.

Lemma InvR_rc_wait s : InvR s -> rc_wait s.
Proof.
  intros IR n Hi Hsp. destruct (rcanc (Rn s n)) eqn:Erc; [|reflexivity].
  destruct (IR n Erc) as [_ H]. rewrite (H Hi) in Hsp. discriminate.
Qed.

(* the tidy wait of an inline broadcast is left only by ending the run *)
Lemma sd_tidy_kept c s s' m : hs_step c s s' -> did (Sd s m) = true ->
  sd_inline s m = true -> sd_inline s' m = true -> sp (Sd s m) = SdTidy -> sp (Sd s' m) = SdTidy.
Proof.
  intros HS Hdid Hi Hi' Hsp.
  destruct HS as [F1 F2 F3|n B1 B2 B3 B4 B5 B6 B7 B8|n C1 C2 C3 C4 C5 C6|n D1 D2 D3 D4 D5 D6 D7
                  |n p E1 E2 E3 E4 E5 E6 E7 E8 E9 E10|n F1 F2 F3 F4 F5 F6 F7|n G1 G2 G3 G4 G5 G6 G7|j v H1 H2 H3 H4 H5].
  - rewrite F2. exact Hsp.
  - destruct (Nat.eqb_spec m n) as [->|Hmn].
    + exfalso. unfold sd_inline in Hi. destruct B3 as [E|[w E]]; rewrite E in Hi; discriminate.
    + rewrite B7. unfold sd_create. apply Nat.eqb_neq in Hmn. rewrite Hmn. exact Hsp.
  - rewrite C4. unfold sd_create. destruct (Nat.eqb_spec m n) as [->|Hmn]; [|exact Hsp].
    rewrite Hdid. exact Hsp.
  - rewrite D4. destruct (Nat.eqb_spec m n) as [->|Hmn]; [|exact Hsp].
    rewrite D1 in Hsp. discriminate.
  - rewrite E7. destruct (Nat.eqb_spec m n) as [->|Hmn]; [reflexivity|exact Hsp].
  - rewrite F4. destruct (Nat.eqb_spec m n) as [->|Hmn]; [|exact Hsp].
    exfalso. rewrite Hi in F6. destruct F6 as [F6 _]. unfold sd_inline in Hi'. rewrite F6 in Hi'. discriminate.
  - rewrite G4. destruct (Nat.eqb_spec m n) as [->|Hmn]; [reflexivity|exact Hsp].
  - rewrite H2. exact Hsp.
Qed.

(* a control event of the run of m, outside the main loop, after which the run is in its inline
   shutdown with [rcanc] set: either this was already so, or the event started the tidy wait *)
Lemma actor_rcanc lvl c s e s' m : Inv1 c s -> step lvl c s e = Some s' -> actor e m ->
  ph (Rn s m) <> PIdle -> ph (Rn s m) <> PMain ->
  sd_inline s' m = true -> rcanc (Rn s' m) = true ->
  (rcanc (Rn s m) = true /\ sd_inline s m = true) \/ sp (Sd s' m) = SdTidy.
Proof.
  intros I1 Hs Hact Hni Hnm Hi' Hrc'. apply step_inv in Hs. destruct Hs as [-> Hg].
  destruct e as [n o|n k d o|n k o|n o|j|j oc|j|j|j|j|j|j|j|j|t|t|jv sv]; cbn [actor] in Hact;
    try contradiction; subst n; cbn [reaction] in Hi', Hrc' |- *.
  - (* EBegin *)
    exfalso. split_guards Hg. destruct (rootb m) eqn:Er.
    + destruct (ph (Rn s m)); try discriminate. apply Hni. reflexivity.
    + apply rootb_false in Er. destruct (st (Jb s m)) eqn:Est; try discriminate.
      apply Hni. apply (i_l1 c s I1 m Er). right. exact Est.
  - destruct k; cbn [reaction] in Hi', Hrc' |- *.
    + (* KMain *) exfalso. split_guards Hg. destruct (ph (Rn s m)); try discriminate. apply Hnm. reflexivity.
    + (* KTidy *)
      exfalso. pose proof (HS_react_tidy c m s) as H. cbn zeta in H. destruct H as (_ & _ & [H|H]).
      * destruct H as (_ & H & _). unfold sd_inline in Hi'. rewrite H in Hi'. discriminate.
      * destruct H as (Erc & _). unfold react_tidy in Hrc'. rewrite Erc in Hrc'.
        rewrite Rn_shutdown_start in Hrc'. unfold set_phase in Hrc'. rewrite Rn_setR_same in Hrc'.
        cbn [rcanc] in Hrc'. rewrite Erc in Hrc'. discriminate.
    + (* KCTidy *)
      exfalso. unfold sd_inline in Hi'. rewrite ph_end_cancelled, Nat.eqb_refl in Hi'. discriminate.
    + (* KShut *)
      pose proof (HS_react_shut c m d (culprit_of o) s) as H. cbn zeta in H. destruct H as (_ & _ & H).
      destruct d as [|d0 d'].
      * exfalso. destruct H as [_ H]. destruct (sd_inline s m) eqn:Ei.
        -- destruct H as [H _]. unfold sd_inline in Hi'. rewrite H in Hi'. discriminate.
        -- destruct H as [H _]. unfold sd_inline in Hi', Ei. rewrite H, Ei in Hi'. discriminate.
      * right. destruct H as (_ & H & _). rewrite H, Nat.eqb_refl. reflexivity.
    + (* KShTidy *)
      exfalso. pose proof (HS_react_shtidy c m (culprit_of o) s) as H. cbn zeta in H. destruct H as (_ & _ & _ & H).
      destruct (sd_inline s m) eqn:Ei.
      * destruct H as [H _]. unfold sd_inline in Hi'. rewrite H in Hi'. discriminate.
      * destruct H as [H _]. unfold sd_inline in Hi', Ei. rewrite H, Ei in Hi'. discriminate.
  - destruct k; cbn [reaction] in Hi', Hrc' |- *.
    + (* KMain *) exfalso. split_guards Hg. destruct (ph (Rn s m)); try discriminate. apply Hnm. reflexivity.
    + (* KTidy *)
      exfalso. split_guards Hg. unfold sd_inline in Hi'. rewrite ph_react_cancel_tidy in Hi'.
      destruct (ph (Rn s m)); discriminate.
    + (* KCTidy *)
      exfalso. split_guards Hg. unfold sd_inline in Hi'. rewrite ph_react_cancel_ctidy in Hi'.
      destruct (ph (Rn s m)); discriminate.
    + right. pose proof (HS_react_cancel_shut c m s) as H. cbn zeta in H. destruct H as (_ & _ & H & _).
      rewrite H, Nat.eqb_refl. reflexivity.
    + right. pose proof (HS_react_cancel_shut c m s) as H. cbn zeta in H. destruct H as (_ & _ & H & _).
      rewrite H, Nat.eqb_refl. reflexivity.
Qed.

Lemma InvR_step lvl c s e s' : wf c = true -> 3 <= lvl -> Inv1 c s -> Inv8 c s -> InvR s ->
  step lvl c s e = Some s' -> InvR s'.
Proof.
  intros W Hl I1 I8 IR Hs m Hrc'.
  pose proof (HS_effect lvl c s e s' W I1 Hl Hs) as HS.
  destruct (R_effect lvl c s e s' W (i_pend c s I1) Hs m)
    as [Hq _|act _ _ _ _ _ _ _ _ _ _ Hrcf _ _|act A1 A2 A3 A4 A5 A6 A7 A8 A9].
  - destruct Hq as (Q1 & _ & _ & _ & _ & _ & _ & _ & Q9). rewrite Q9 in Hrc'.
    destruct (IR m Hrc') as [R1 R2]. split; [rewrite Q1; exact R1|].
    intros Hi'. assert (Hi : sd_inline s m = true) by (unfold sd_inline in *; rewrite <- Q1; exact Hi').
    apply (sd_tidy_kept c s s' m HS (k_inl c s I8 m Hi) Hi Hi' (R2 Hi)).
  - rewrite Hrcf in Hrc'. discriminate.
  - destruct A8 as [K|(Hpm & d & _ & _ & MU)].
    2:{ exfalso. destruct MU as (_ & MU & _). rewrite MU in Hrc'. destruct (IR m Hrc') as [R1 _]. contradiction. }
    destruct K as (_ & _ & _ & _ & _ & K6 & _).
    destruct (phase_eq_PMain (ph (Rn s m))) as [Epm|Epm].
    + destruct (K6 Epm) as [E|E]; (split; [rewrite E; discriminate|unfold sd_inline; rewrite E; discriminate]).
    + split; [apply A6; exact Epm|]. intros Hi'.
      destruct (actor_rcanc lvl c s e s' m I1 Hs act A2 Epm Hi' Hrc') as [[Erc Hi]|H]; [|exact H].
      destruct (IR m Erc) as [_ R2].
      apply (sd_tidy_kept c s s' m HS (k_inl c s I8 m Hi) Hi Hi' (R2 Hi)).
Qed.

Theorem InvR_reach lvl c h s : wf c = true -> 3 <= lvl -> Reach lvl c h s -> InvR s.
Proof.
  intros W Hl Hr. revert h s Hr. apply reach_ind.
  - apply InvR_init.
  - intros h s e s' Hr IR Hs.
    apply (InvR_step lvl c s e s' W Hl (Inv1_reach lvl c h s W Hr) (ie_8 c s (InvE_reach lvl c h s W Hl Hr)) IR Hs).
Qed.

Theorem rc_wait_reach lvl c h s : wf c = true -> 3 <= lvl -> Reach lvl c h s -> rc_wait s.
Proof. intros W Hl Hr. apply InvR_rc_wait. apply (InvR_reach lvl c h s W Hl Hr). Qed.

(* ------------------------------------------------------------------ the theorems *)

(* the flags are faithful.  [Hextra : rc_wait s] is needed: without it the statement is false in a
   state where a critical nested scheduler n is in its inline shutdown (PShut WCritical), the
   broadcast is still in its first wait (SdWait) with every handler finished, no cancellation is
   pending, and rcanc (Rn s n) = true: run_enabled is set, the only candidate is
   EWake n KShut [] o, the model's outputs are [OSdEnd n SRCancelled; OEnd n VCancelled], so the
   observed culprit is 0 and guard 44 (culprit_ok) fails.  The state is not reachable:
   [rc_wait_reach] above. *)
Theorem enabled_progress c s : wf c = true ->
  InvE c s -> Inv2 c s -> InvT c s -> InvT3 c s -> InvP c s -> InvQ c s ->
  forall Hextra : rc_wait s,
  quiescent c s = false -> exists e s', step 3 c s e = Some s' /\ real_event e.
Proof.
  intros W IE I2 IT IT3 IP IQ Hx Hq.
  unfold quiescent in Hq. apply andb_false_iff in Hq. destruct Hq as [Hq|Hq].
  - apply forallb_false in Hq. destruct Hq as (j & Hj & Hf). apply In_all_ids in Hj.
    destruct (job_enabled c s j) eqn:Ej.
    + apply (job_progress c s j IT IP Hj Ej).
    + cbn [negb andb] in Hf. apply negb_false_iff in Hf.
      assert (Hj0 : j <> 0).
      { intros ->. unfold handler_enabled in Hf. destruct (hs (Hd s 0)) eqn:Ehs; try discriminate.
        - apply (k_root c s (ie_8 c s IE)). exact Ehs.
        - rewrite (proj1 (wf_root c W)) in Hf. discriminate. }
      apply (handler_progress c s j (ie_8 c s IE) IT3 IQ Hj Hj0 Hf).
  - apply forallb_false in Hq. destruct Hq as (n & Hn & Hf).
    unfold scheds in Hn. apply filter_In in Hn. destruct Hn as [Hn Hsch]. apply In_all_ids in Hn.
    destruct (run_enabled c s n) eqn:Er.
    + apply (run_progress c s n IE IT3 IQ Hx Hsch Hn Er).
    + cbn [negb andb] in Hf. apply negb_false_iff in Hf.
      apply (sdtask_progress c s n IE IT3 IQ Hx Hsch Hf).
Qed.

(* for reachable states only InvP and InvQ remain as hypotheses *)
Corollary enabled_progress_reach c h s : wf c = true -> Reach 3 c h s -> InvP c s -> InvQ c s ->
  quiescent c s = false -> exists e s', step 3 c s e = Some s' /\ real_event e.
Proof.
  intros W Hr IP IQ Hq.
  apply (enabled_progress c s W (InvE_reach 3 c h s W (le_n 3) Hr) (i12_2 c s (Inv12_reach 3 c h s W Hr))
           (InvT_reach 3 c h s W ltac:(lia) Hr) (InvT3_reach 3 c h s W (le_n 3) Hr) IP IQ
           (rc_wait_reach 3 c h s W (le_n 3) Hr) Hq).
Qed.

(* time can pass whenever nothing is enabled and a deadline is pending *)
Lemma future_gt s d x : In x (future s d) -> (now s < x)%N.
Proof.
  unfold future. destruct d as [y|]; [|intros []].
  destruct (N.ltb (now s) y) eqn:E; [|intros []].
  intros [<-|[]]. apply N.ltb_lt. exact E.
Qed.

Lemma deadlines_gt c s x : In x (deadlines c s) -> (now s < x)%N.
Proof.
  unfold deadlines. rewrite in_app_iff, !in_flat_map.
  intros [(j & _ & H)|(n & _ & H)]; apply in_app_iff in H; destruct H as [H|H].
  - destruct (st (Jb s j)); try (destruct H).
    + destruct (j_sched (jc c j)); [destruct H|]. apply (future_gt s _ x H).
    + apply (future_gt s _ x H).
  - destruct (hs (Hd s j)); try (destruct H).
    destruct (j_sched (jc c j)); [destruct H|]. apply (future_gt s _ x H).
  - destruct (ph (Rn s n)); try (destruct H). apply (future_gt s _ x H).
  - destruct (sp (Sd s n)); try (destruct H). apply (future_gt s _ x H).
Qed.

Theorem tick_progress c s t : quiescent c s = true -> minN (deadlines c s) = Some t ->
  exists s', step 3 c s (ETick t) = Some s'.
Proof.
  intros Hq Hm. exists (fst (reaction c s (ETick t))). unfold step.
  cbn [guards forallb]. rewrite !holds3 by lia. rewrite Hq, Hm, N.eqb_refl.
  pose proof (deadlines_gt c s t (minN_In _ _ Hm)) as Hlt. apply N.ltb_lt in Hlt. rewrite Hlt. reflexivity.
Qed.

(* the root can always begin *)
Theorem begin_progress c s : wf c = true -> ph (Rn s 0) = PIdle ->
  exists o s', step 3 c s (EBegin 0 o) = Some s'.
Proof.
  intros W Hph. destruct (wf_root c W) as [Hs H0].
  exists (snd (react_begin c 0 s)), (fst (reaction c s (EBegin 0 (snd (react_begin c 0 s))))).
  unfold step. guards_open.
  rewrite (sched_id_intro c 0 Hs H0), Hph, !outs_match_refl. reflexivity.
Qed.

Print Assumptions enabled_progress.
Print Assumptions enabled_progress_reach.
Print Assumptions tick_progress.
Print Assumptions begin_progress.
Print Assumptions rc_wait_reach.
