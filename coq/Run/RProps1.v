(* Properties C01, C02 (at most once), C14 of model R: checks and theorems. *)
From AJ Require Import Common.Util Run.RModel Run.RFacts Run.RFacts2 Run.RInv Run.RMon.

(* ------------------------------------------------------------------ started-flag consistency *)

Record Inv2 (c : cfg) (s : state) : Prop := {
  i_ran0 : forall x, (st (Jb s x) = Idle \/ st (Jb s x) = Created) -> ran (Jb s x) = false;
  i_ran1 : forall x, (st (Jb s x) = Running \/ st (Jb s x) = Cancelling \/ is_done (st (Jb s x)) = true) ->
                     ran (Jb s x) = true
}.

Lemma Inv2_init c : Inv2 c init.
Proof. split; intros x H; [reflexivity|]. cbn in H. destruct H as [H|[H|H]]; discriminate. Qed.

Lemma Inv2_step lvl c s e s' : wf c = true -> Inv1 c s -> Inv2 c s -> step lvl c s e = Some s' -> Inv2 c s'.
Proof.
  intros W I1 I2 Hs.
  pose proof (J_effect lvl c s e s' W (i_pend c s I1) Hs) as HJ.
  split; intros x Hx;
    destruct (HJ x)
      as [H|H1 H2|HS H1 H2 H3 H4|H1 H2 H3 H4 H5 H6 H7|H1 H2 H3 H4 H5 H6|HS H1 H2 H3 H4 H5|HS H1 H2 H3 H4 H5|HS H1 H2 H3 H4 H5|HS H1 H2 H3 H4 H5 H6|HS H1 H2|HS H1 H2 H3].
  - rewrite H in *. apply (i_ran0 c s I2). exact Hx.
  - rewrite H1 in *. rewrite cancel_j_st in Hx. unfold cancel_j. destruct (finished (st (Jb s x))); cbn [ran];
      apply (i_ran0 c s I2); exact Hx.
  - rewrite H4 in Hx. cbn in Hx. destruct Hx; discriminate.
  - rewrite H2. reflexivity.
  - rewrite H1. reflexivity.
  - rewrite H3 in Hx. destruct Hx; discriminate.
  - rewrite H5 in Hx. cbn in Hx. destruct Hx; discriminate.
  - destruct (st (Jb s' x)); cbn in H3; try discriminate; destruct Hx; discriminate.
  - rewrite H4 in Hx. destruct Hx; discriminate.
  - rewrite H2 in Hx. cbn in Hx. destruct Hx; discriminate.
  - rewrite H3 in Hx. cbn in Hx. destruct Hx; discriminate.
  - rewrite H in *. apply (i_ran1 c s I2). exact Hx.
  - rewrite H1 in *. rewrite cancel_j_st in Hx. unfold cancel_j. destruct (finished (st (Jb s x))); cbn [ran];
      apply (i_ran1 c s I2); exact Hx.
  - rewrite H4. cbn. apply (i_ran1 c s I2). left. exact H1.
  - rewrite H2 in Hx. cbn in Hx. destruct Hx as [Hx|[Hx|Hx]]; discriminate.
  - rewrite H1 in Hx. cbn in Hx. destruct Hx as [Hx|[Hx|Hx]]; discriminate.
  - exact H5.
  - rewrite H5. reflexivity.
  - exact H5.
  - exact H6.
  - rewrite H2. reflexivity.
  - rewrite H3 in Hx. cbn in Hx. destruct Hx as [Hx|[Hx|Hx]]; discriminate.
Qed.

Record Inv12 (c : cfg) (s : state) : Prop := { i12_1 : Inv1 c s; i12_2 : Inv2 c s }.

Theorem Inv12_reach lvl c h s : wf c = true -> Reach lvl c h s -> Inv12 c s.
Proof.
  intros W Hr. revert h s Hr. apply reach_ind.
  - split; [apply Inv1_init|apply Inv2_init].
  - intros h s e s' _ [I1 I2] Hs. split; [eapply Inv1_step; eauto|eapply Inv2_step; eauto].
Qed.

Record InvA (c : cfg) (s : state) : Prop := { ia_1 : Inv1 c s; ia_2 : Inv2 c s; ia_3 : Inv3 c s }.

Theorem InvA_reach lvl c h s : wf c = true -> Reach lvl c h s -> InvA c s.
Proof.
  intros W Hr. revert h s Hr. apply reach_ind.
  - split; [apply Inv1_init|apply Inv2_init|apply Inv3_init].
  - intros h s e s' _ [I1 I2 I3] Hs.
    split; [eapply Inv1_step; eauto|eapply Inv2_step; eauto|eapply Inv3_step; eauto].
Qed.

(* a nested scheduler counts as done, for its parent, only once its whole run is over *)
Theorem nested_done_over lvl c h0 s n : wf c = true ->
  Reach lvl c h0 s -> n <> 0 -> j_sched (jc c n) = true -> n < njobs c ->
  is_done (st (Jb s n)) = true -> ph (Rn s n) = POver.
Proof.
  intros W Hr Hn Hs _ Hd. destruct (InvA_reach lvl c h0 s W Hr) as [I1 I2 I3].
  assert (Hran : ran (Jb s n) = true) by (apply (i_ran1 c s I2); auto).
  destruct (ph (Rn s n)) eqn:E; try reflexivity.
  - rewrite (k_idle c s I3 n Hn Hs E) in Hran. discriminate.
  - assert (H : st (Jb s n) = Running) by (apply (k_act c s I3 n Hn Hs); rewrite E; discriminate).
    rewrite H in Hd. discriminate.
  - assert (H : st (Jb s n) = Running) by (apply (k_act c s I3 n Hn Hs); rewrite E; discriminate).
    rewrite H in Hd. discriminate.
  - assert (H : st (Jb s n) = Running) by (apply (k_act c s I3 n Hn Hs); rewrite E; discriminate).
    rewrite H in Hd. discriminate.
  - assert (H : st (Jb s n) = Running) by (apply (k_act c s I3 n Hn Hs); rewrite E; discriminate).
    rewrite H in Hd. discriminate.
Qed.

(* ------------------------------------------------------------------ C01 *)

(* job x is about to start in state s: every requirement of x is done; if x sits in a nested
   scheduler p, the run of p has begun and every requirement of p is done too *)
Definition start_ok (c : cfg) (s : state) (x : nat) : bool :=
  all_done s (reqs c x)
  && (rootb (parent c x)
      || (all_done s (reqs c (parent c x))
          && match st (Jb s (parent c x)) with Idle | Created => false | _ => true end)).

Definition chk01 (c : cfg) (s : state) (e : event) : bool :=
  match e with
  | EStart x => start_ok c s x
  | EBegin n _ => rootb n || start_ok c s n
  | _ => true
  end.

Lemma start_ok_created c s x : wf c = true -> Inv1 c s -> x < njobs c -> x <> 0 ->
  st (Jb s x) = Created -> start_ok c s x = true.
Proof.
  intros W I Hx Hx0 Hst. unfold start_ok.
  assert (Hg : all_done s (reqs c x) = true) by (apply (i_gate c s I); rewrite Hst; discriminate).
  rewrite Hg. cbn [andb].
  destruct (rootb (parent c x)) eqn:Er; [reflexivity|]. cbn [orb].
  apply rootb_false in Er.
  assert (Hm : In x (members c (parent c x))) by (apply In_members; auto).
  assert (Hp : st (Jb s (parent c x)) <> Idle /\ st (Jb s (parent c x)) <> Created).
  { split; intro E; assert (Hph : ph (Rn s (parent c x)) = PIdle)
      by (apply (i_l1 c s I _ Er); auto);
      pose proof (i_idle c s I _ x Hm Hph) as Hi; rewrite Hst in Hi; discriminate. }
  destruct Hp as [Hp1 Hp2].
  rewrite (i_gate c s I _ Hp1). cbn [andb].
  destruct (st (Jb s (parent c x))); try reflexivity; contradiction.
Qed.

Theorem C01_holds lvl c h0 s e s' : wf c = true ->
  Reach lvl c h0 s -> step lvl c s e = Some s' -> chk01 c s e = true.
Proof.
  intros W Hr Hs. pose proof (Inv1_reach lvl c h0 s W Hr) as I.
  apply step_inv in Hs. destruct Hs as [_ Hg].
  destruct e as [n o|n k d o|n k o|n o|j|j oc|j|j|j|j|j|j|j|j|t|t|jv sv]; try reflexivity; cbn [chk01].
  - split_guards Hg. destruct (rootb n) eqn:Er; [reflexivity|]. cbn [orb].
    unfold sched_id in G. apply andb_true_iff in G. destruct G as [_ Hlt]. apply Nat.ltb_lt in Hlt.
    apply rootb_false in Er.
    destruct (st (Jb s n)) eqn:Est; try discriminate.
    apply start_ok_created; auto.
  - split_guards Hg. destruct (atomic_id_spec _ _ G) as (A1 & A2 & A3).
    destruct (st (Jb s j)) eqn:Est; try discriminate.
    apply start_ok_created; auto.
Qed.

(* and a requirement that is done stays done, with the same result *)
Theorem C01_done_stable lvl c h0 s e s' x : wf c = true ->
  Reach lvl c h0 s -> step lvl c s e = Some s' ->
  is_done (st (Jb s x)) = true -> Jb s' x = Jb s x.
Proof.
  intros W Hr Hs Hd. eapply finished_stable; eauto.
  - eapply Inv1_reach; eauto.
  - apply done_finished. exact Hd.
Qed.

Theorem C01_monitor lvl c h : wf c = true -> accept lvl c h = true -> mon_ok chk01 c h = true.
Proof. intros W. apply mon_sound. intros h0 s e s' Hr Hs. eapply C01_holds; eauto. Qed.

(* ------------------------------------------------------------------ C02, first half: no job body is entered twice *)

Definition chk02a (c : cfg) (s : state) (e : event) : bool :=
  match e with
  | EStart x => negb (ran (Jb s x))
  | EBegin n _ => rootb n || negb (ran (Jb s n))
  | _ => true
  end.

Theorem C02a_holds lvl c h0 s e s' : wf c = true ->
  Reach lvl c h0 s -> step lvl c s e = Some s' -> chk02a c s e = true.
Proof.
  intros W Hr Hs. destruct (Inv12_reach lvl c h0 s W Hr) as [I1 I2].
  apply step_inv in Hs. destruct Hs as [_ Hg].
  destruct e as [n o|n k d o|n k o|n o|j|j oc|j|j|j|j|j|j|j|j|t|t|jv sv]; try reflexivity; cbn [chk02a].
  - split_guards Hg. destruct (rootb n) eqn:Er; [reflexivity|]. cbn [orb].
    destruct (st (Jb s n)) eqn:Est; try discriminate.
    rewrite (i_ran0 c s I2 n); auto.
  - split_guards Hg. destruct (st (Jb s j)) eqn:Est; try discriminate.
    rewrite (i_ran0 c s I2 j); auto.
Qed.

(* once a body has been entered the flag stays: together with C02a, at most one start *)
Theorem C02a_ran_stable lvl c h0 s e s' x : wf c = true ->
  Reach lvl c h0 s -> step lvl c s e = Some s' -> ran (Jb s x) = true -> ran (Jb s' x) = true.
Proof.
  intros W Hr Hs Hran. destruct (Inv12_reach lvl c h0 s W Hr) as [I1 I2].
  destruct (J_effect lvl c s e s' W (i_pend c s I1) Hs x)
    as [H|H1 H2|HS H1 H2 H3 H4|H1 H2 H3 H4 H5 H6 H7|H1 H2 H3 H4 H5 H6|HS H1 H2 H3 H4 H5|HS H1 H2 H3 H4 H5|HS H1 H2 H3 H4 H5|HS H1 H2 H3 H4 H5 H6|HS H1 H2|HS H1 H2 H3];
    auto.
  - rewrite H. exact Hran.
  - rewrite H1. unfold cancel_j. destruct (finished (st (Jb s x))); exact Hran.
  - rewrite H4. exact Hran.
  - rewrite (i_ran0 c s I2 x) in Hran; [discriminate|auto].
  - rewrite (i_ran0 c s I2 x) in Hran; [discriminate|]. left. apply (create_begin_idle c s x I1 H3 H4).
  - rewrite H5. reflexivity.
  - rewrite H2. reflexivity.
  - rewrite (i_ran0 c s I2 x) in Hran; [discriminate|auto].
Qed.

(* the event that enters the body sets the flag *)
Theorem C02a_start_sets lvl c s x s' : step lvl c s (EStart x) = Some s' -> ran (Jb s' x) = true.
Proof.
  intros Hs. apply step_inv in Hs. destruct Hs as [-> _]. cbn [reaction fst].
  unfold eff_start. rewrite Jb_bump_q, Jb_setJ, upd_same. reflexivity.
Qed.

Theorem C02a_monitor lvl c h : wf c = true -> accept lvl c h = true -> mon_ok chk02a c h = true.
Proof. intros W. apply mon_sound. intros h0 s e s' Hr Hs. eapply C02a_holds; eauto. Qed.

(* ------------------------------------------------------------------ C14 *)

(* internal consistency of one job's public predicates *)
Definition view_wf (v : jview) : bool :=
  Bool.eqb (v_sched v) (negb (v_idle v))
  && implb (v_done v) (v_run v) && implb (v_run v) (v_sched v)
  && implb (negb (Nat.eqb (v_res v) 0)) (v_done v && Nat.eqb (v_exc v) 0)
  && implb (negb (Nat.eqb (v_exc v) 0)) (v_done v).

(* a poll agrees with what the events so far imply, and is internally consistent *)
Definition chk14 (c : cfg) (s : state) (e : event) : bool :=
  match e with
  | EPoll jv sv =>
      forallb (fun v => jview_eqb v (view_of (v_id v) (Jb s (v_id v))) && view_wf v) jv
  | _ => true
  end.

Lemma jview_eqb_eq a b : jview_eqb a b = true -> a = b.
Proof.
  unfold jview_eqb. rewrite !andb_true_iff. intros [[[[[[A B] C] D] E] F] G].
  apply Nat.eqb_eq in A, F, G. apply eqb_prop in B, C, D, E.
  destruct a, b; cbn in *; subst; reflexivity.
Qed.

Lemma view_of_wf c s x : Inv2 c s -> view_wf (view_of x (Jb s x)) = true.
Proof.
  intros I2. unfold view_wf, view_of. cbn [v_sched v_idle v_done v_run v_res v_exc].
  pose proof (i_ran0 c s I2 x) as R0. pose proof (i_ran1 c s I2 x) as R1.
  destruct (st (Jb s x)) as [| | | |v|t|] eqn:Est; cbn.
  - rewrite R0; auto.
  - rewrite R0; auto.
  - rewrite R1; auto.
  - rewrite R1; auto.
  - rewrite R1 by (right; right; reflexivity). destruct v; reflexivity.
  - rewrite R1 by (right; right; reflexivity). reflexivity.
  - destruct (ran (Jb s x)); reflexivity.
Qed.

Theorem C14_holds lvl c h0 s e s' : wf c = true ->
  Reach lvl c h0 s -> step lvl c s e = Some s' -> chk14 c s e = true.
Proof.
  intros W Hr Hs. destruct (Inv12_reach lvl c h0 s W Hr) as [I1 I2].
  apply step_inv in Hs. destruct Hs as [_ Hg].
  destruct e as [n o|n k d o|n k o|n o|j|j oc|j|j|j|j|j|j|j|j|t|t|jv sv]; try reflexivity; cbn [chk14].
  split_guards Hg. apply forallb_forall. intros v Hv. rewrite forallb_forall in G.
  specialize (G v Hv). rewrite G. cbn [andb].
  apply jview_eqb_eq in G. rewrite G. cbn [v_id view_of]. apply (view_of_wf c s _ I2).
Qed.

(* the meaning of the predicates in terms of the life cycle: done iff the body returned or
   raised; the result / exception is the one of that outcome (identity tags); idle iff never
   scheduled; a cancelled or idle job is never done *)
Theorem C14_truth x a :
  let v := view_of x a in
  v_done v = is_done (st a) /\
  (v_idle v = true <-> st a = Idle) /\
  v_sched v = negb (v_idle v) /\
  v_run v = ran a /\
  (forall t, v_exc v = S t <-> st a = DoneExc t) /\
  (v_exc v = 0 <-> is_exc (st a) = false) /\
  (v_res v = 1 <-> st a = DoneRet RVOwn) /\
  (v_res v = 2 <-> st a = DoneRet RVTrue) /\
  (v_res v = 3 <-> st a = DoneRet RVFalse) /\
  (v_res v = 0 <-> forall r, st a <> DoneRet r).
Proof.
  cbn zeta. unfold view_of. cbn [v_done v_idle v_sched v_run v_exc v_res].
  destruct (st a) as [| | | |r|t|]; try destruct r; cbn;
    repeat split; intros; try congruence; try discriminate; try lia;
    try (match goal with H : forall r, _ <> _ |- _ => exfalso; eapply H; reflexivity end).
Qed.

(* no predicate ever reverts *)
Theorem C14_monotone lvl c h0 s e s' x : wf c = true ->
  Reach lvl c h0 s -> step lvl c s e = Some s' ->
  let v := view_of x (Jb s x) in let v' := view_of x (Jb s' x) in
  (v_sched v = true -> v_sched v' = true) /\ (v_run v = true -> v_run v' = true) /\
  (v_done v = true -> v' = v).
Proof.
  intros W Hr Hs. destruct (Inv12_reach lvl c h0 s W Hr) as [I1 I2]. cbn zeta.
  split; [|split].
  - unfold view_of. cbn [v_sched]. intros Hns.
    destruct (J_effect lvl c s e s' W (i_pend c s I1) Hs x)
      as [H|H1 H2|HS H1 H2 H3 H4|H1 H2 H3 H4 H5 H6 H7|H1 H2 H3 H4 H5 H6|HS H1 H2 H3 H4 H5|HS H1 H2 H3 H4 H5|HS H1 H2 H3 H4 H5|HS H1 H2 H3 H4 H5 H6|HS H1 H2|HS H1 H2 H3].
    + rewrite H. exact Hns.
    + rewrite H1, cancel_j_st. exact Hns.
    + rewrite H4. reflexivity.
    + rewrite H2. reflexivity.
    + rewrite H1. reflexivity.
    + rewrite H3. reflexivity.
    + rewrite H5. reflexivity.
    + destruct (st (Jb s' x)); cbn in H3; try discriminate; reflexivity.
    + rewrite H4. reflexivity.
    + rewrite H2. reflexivity.
    + rewrite H3. reflexivity.
  - unfold view_of. cbn [v_run]. intros Hran. eapply C02a_ran_stable; eauto.
  - unfold view_of at 1. cbn [v_done]. intros Hd.
    rewrite (C01_done_stable lvl c h0 s e s' x W Hr Hs Hd). reflexivity.
Qed.

Theorem C14_monitor lvl c h : wf c = true -> accept lvl c h = true -> mon_ok chk14 c h = true.
Proof. intros W. apply mon_sound. intros h0 s e s' Hr Hs. eapply C14_holds; eauto. Qed.

(* ------------------------------------------------------------------ readable forms *)

Lemma all_done_spec s l : all_done s l = true <-> forall r, In r l -> is_done (st (Jb s r)) = true.
Proof. unfold all_done. apply forallb_forall. Qed.

Lemma chk01_meaning c s x : chk01 c s (EStart x) = true ->
  (forall r, In r (reqs c x) -> is_done (st (Jb s r)) = true) /\
  (parent c x <> 0 ->
   (forall r, In r (reqs c (parent c x)) -> is_done (st (Jb s r)) = true) /\
   st (Jb s (parent c x)) <> Idle /\ st (Jb s (parent c x)) <> Created).
Proof.
  cbn [chk01]. unfold start_ok. rewrite andb_true_iff, orb_true_iff, andb_true_iff.
  intros [H1 H2]. split; [apply all_done_spec; exact H1|].
  intros Hp. destruct H2 as [H2|[H2 H3]].
  - apply rootb_true in H2. contradiction.
  - split; [apply all_done_spec; exact H2|].
    destruct (st (Jb s (parent c x))); try discriminate; split; discriminate.
Qed.

Lemma view_order lvl c h s x : wf c = true -> Reach lvl c h s ->
  view_wf (view_of x (Jb s x)) = true /\
  (st (Jb s x) = Created -> v_sched (view_of x (Jb s x)) = true /\ v_run (view_of x (Jb s x)) = false).
Proof.
  intros W Hr. destruct (InvA_reach lvl c h s W Hr) as [I1 I2 I3].
  split; [apply (view_of_wf c s x I2)|].
  intros Hc. unfold view_of. cbn [v_sched v_run]. rewrite Hc. split; [reflexivity|].
  apply (i_ran0 c s I2). auto.
Qed.
