(* The scheduling equations with shutdown phases ([is_scheduleH], RSchedDef.v) have exactly one
   solution on a well-formed tree, the boolean check [is_scheduleHb] is these equations, and
   [solveH] is complete: iterating [roundH] 2 * njobs + 2 times from the all-zero tables reaches
   that solution.

   This is the port of RFlatten.v (existence, uniqueness, boolean check) and of RSolve.v
   (completeness of the solver) to the H family.  The only difference between the two families is
   the constant [shut_len c x] added to the end of a scheduler, so the order of the equations
   ([rank], [dep]), the settled-entry tables ([dS], [dE]) and the whole progress / counting argument
   ([all_settled_end]) are reused as they are: they only speak of the shape of the dependencies.
   No axioms. *)
From AJ Require Import Common.Util Run.RModel Run.RFacts Run.RSchedDef Run.RFlatten Run.RSolve.

Local Open Scope N_scope.

(* ------------------------------------------------------------------ consequences of the equations *)

Section SchedH.
Variables (c : cfg) (S E : nat -> N).
Hypothesis H : is_scheduleH c S E.

Lemma schH_0 : S 0%nat = 0.
Proof. destruct H as [H0 _]. exact H0. Qed.

Lemma schH_S x : (x < njobs c)%nat -> x <> 0%nat -> S x = maxl (S (parent c x)) (map E (reqs c x)).
Proof. intros Hx Hn. destruct H as [_ H']. destruct (H' x Hx) as (A & _ & _). auto. Qed.

Lemma schH_Ea x : (x < njobs c)%nat -> j_sched (jc c x) = false -> E x = S x + durN c x.
Proof. intros Hx Hn. destruct H as [_ H']. destruct (H' x Hx) as (_ & A & _). auto. Qed.

Lemma schH_Es x : (x < njobs c)%nat -> j_sched (jc c x) = true ->
  E x = maxl (S x) (map E (members c x)) + shut_len c x.
Proof. intros Hx Hn. destruct H as [_ H']. destruct (H' x Hx) as (_ & _ & A). auto. Qed.

End SchedH.

(* ------------------------------------------------------------------ uniqueness *)

Section UniqueH.
Variables (c : cfg) (S E S' E' : nat -> N).
Hypothesis W : wf c = true.
Hypothesis H : is_scheduleH c S E.
Hypothesis H' : is_scheduleH c S' E'.

(* below a job whose scheduler begins at the same instant in both, everything agrees *)
Lemma uniqueH_below fuel : forall r, r <> 0%nat -> (r < njobs c)%nat -> (rank c r <= fuel)%nat ->
  S (parent c r) = S' (parent c r) -> S r = S' r /\ E r = E' r.
Proof.
  induction fuel as [|f IH]; intros r Hn Hr Hk HP.
  { pose proof (rank_pos c r Hr). lia. }
  assert (HS : S r = S' r).
  { rewrite (schH_S c S E H r Hr Hn), (schH_S c S' E' H' r Hr Hn).
    apply maxl_map_ext; [exact HP|]. intros r' Hq.
    destruct (req_facts c r r' W Hr Hq) as (_ & Hr' & H0 & Hp & _).
    pose proof (rank_req c r r' W Hr Hn Hq) as Hrk.
    apply (IH r' H0 Hr'); [lia|]. rewrite Hp. exact HP. }
  split; [exact HS|]. destruct (j_sched (jc c r)) eqn:Hs.
  - rewrite (schH_Es c S E H r Hr Hs), (schH_Es c S' E' H' r Hr Hs). f_equal.
    apply maxl_map_ext; [exact HS|]. intros m Hm.
    pose proof (rank_member c r m W Hr Hm) as Hrk.
    pose proof Hm as Hm'. apply In_members in Hm'. destruct Hm' as (Hm' & Hp & H0).
    apply (IH m H0 Hm'); [lia|]. rewrite Hp. exact HS.
  - rewrite (schH_Ea c S E H r Hr Hs), (schH_Ea c S' E' H' r Hr Hs), HS. reflexivity.
Qed.

Lemma uniqueH_all : forall x, (x < njobs c)%nat -> S x = S' x /\ E x = E' x.
Proof.
  intros x. induction x as [x IH] using lt_wf_ind. intros Hx.
  destruct (Nat.eq_dec x 0) as [->|Hn].
  - assert (HS : S 0%nat = S' 0%nat).
    { rewrite (schH_0 c S E H), (schH_0 c S' E' H'). reflexivity. }
    split; [exact HS|]. destruct (wf_root c W) as (_ & _ & _ & Hs).
    rewrite (schH_Es c S E H 0 Hx Hs), (schH_Es c S' E' H' 0 Hx Hs). f_equal.
    apply maxl_map_ext; [exact HS|]. intros m Hm.
    apply In_members in Hm. destruct Hm as (Hm & Hp & H0).
    apply (uniqueH_below (njobs c) m H0 Hm (rank_le c m)). rewrite Hp. exact HS.
  - destruct (wf_parent c x W Hx Hn) as [Hp _].
    apply (uniqueH_below (njobs c) x Hn Hx (rank_le c x)). apply IH; lia.
Qed.

End UniqueH.

Theorem scheduleH_unique c S E S' E' :
  wf c = true -> is_scheduleH c S E -> is_scheduleH c S' E' ->
  forall x, (x < njobs c)%nat -> S x = S' x /\ E x = E' x.
Proof. intros W H H'. apply uniqueH_all; assumption. Qed.

(* ------------------------------------------------------------------ the executable check *)

Theorem is_scheduleHb_iff c lS lE : is_scheduleHb c lS lE = true <-> is_scheduleH c (tab lS) (tab lE).
Proof.
  unfold is_scheduleHb, is_scheduleH. rewrite andb_true_iff, N.eqb_eq, forallb_forall.
  split; intros [H0 Hall]; (split; [exact H0|]).
  - intros x Hx. specialize (Hall x (proj2 (In_all_ids c x) Hx)).
    apply andb_true_iff in Hall. destruct Hall as [A B]. repeat split.
    + intros Hn. apply orb_true_iff in A. destruct A as [A|A].
      * apply Nat.eqb_eq in A. contradiction.
      * apply N.eqb_eq in A. exact A.
    + intros Hs. rewrite Hs in B. apply N.eqb_eq in B. exact B.
    + intros Hs. rewrite Hs in B. apply N.eqb_eq in B. exact B.
  - intros x Hx. apply In_all_ids in Hx. destruct (Hall x Hx) as (A & B & C).
    apply andb_true_iff. split.
    + destruct (Nat.eqb_spec x 0) as [|Hn]; [reflexivity|]. simpl. apply N.eqb_eq. auto.
    + destruct (j_sched (jc c x)); apply N.eqb_eq; auto.
Qed.

(* ------------------------------------------------------------------ existence *)

(* the end instant of r when its scheduler begins at sp: its requirements first, then its members,
   then its shutdown phase *)
Fixpoint endfH (fuel : nat) (c : cfg) (sp : N) (r : nat) : N :=
  match fuel with
  | O => 0
  | S f => let s := maxl sp (map (endfH f c sp) (reqs c r)) in
           if j_sched (jc c r) then maxl s (map (endfH f c s) (members c r)) + shut_len c r
           else s + durN c r
  end.
Definition startfH (fuel : nat) (c : cfg) (sp : N) (r : nat) : N :=
  maxl sp (map (endfH fuel c sp) (reqs c r)).

Lemma endfH_S f c sp r :
  endfH (S f) c sp r =
  if j_sched (jc c r)
  then maxl (startfH f c sp r) (map (endfH f c (startfH f c sp r)) (members c r)) + shut_len c r
  else startfH f c sp r + durN c r.
Proof. reflexivity. Qed.

Fixpoint SdownH (fuel : nat) (c : cfg) (x : nat) : N :=
  match fuel with
  | O => 0
  | S f => if Nat.eqb x 0 then 0 else startfH (njobs c) c (SdownH f c (parent c x)) x
  end.
Definition SfinH (c : cfg) (x : nat) : N := SdownH (S x) c x.
Definition EfinH (c : cfg) (x : nat) : N :=
  if Nat.eqb x 0 then maxl 0 (map (endfH (njobs c) c 0) (members c 0)) + shut_len c 0
  else endfH (njobs c) c (SfinH c (parent c x)) x.

Lemma endfH_stable c : wf c = true -> forall f1 f2 r sp, r <> 0%nat -> (r < njobs c)%nat ->
  (rank c r <= f1)%nat -> (rank c r <= f2)%nat -> endfH f1 c sp r = endfH f2 c sp r.
Proof.
  intros W. induction f1 as [|f1 IH]; intros f2 r sp Hn Hr H1 H2.
  { pose proof (rank_pos c r Hr). lia. }
  destruct f2 as [|f2]; [pose proof (rank_pos c r Hr); lia|]. rewrite !endfH_S.
  assert (Hs : startfH f1 c sp r = startfH f2 c sp r).
  { unfold startfH. apply maxl_map_ext; [reflexivity|]. intros r' Hq.
    destruct (req_facts c r r' W Hr Hq) as (_ & Hr' & H0 & _).
    pose proof (rank_req c r r' W Hr Hn Hq). apply IH; auto; lia. }
  rewrite Hs. destruct (j_sched (jc c r)); [|reflexivity]. f_equal.
  apply maxl_map_ext; [reflexivity|]. intros m Hm.
  pose proof (rank_member c r m W Hr Hm). apply In_members in Hm. destruct Hm as (Hm & _ & H0).
  apply IH; auto; lia.
Qed.

Lemma startfH_stable c : wf c = true -> forall f1 f2 r sp, r <> 0%nat -> (r < njobs c)%nat ->
  (rank c r <= S f1)%nat -> (rank c r <= S f2)%nat -> startfH f1 c sp r = startfH f2 c sp r.
Proof.
  intros W f1 f2 r sp Hn Hr H1 H2. unfold startfH. apply maxl_map_ext; [reflexivity|]. intros r' Hq.
  destruct (req_facts c r r' W Hr Hq) as (_ & Hr' & H0 & _).
  pose proof (rank_req c r r' W Hr Hn Hq). apply endfH_stable; auto; lia.
Qed.

Lemma SdownH_stable c : wf c = true -> forall f1 f2 x,
  (x < njobs c -> x < f1 -> x < f2 -> SdownH f1 c x = SdownH f2 c x)%nat.
Proof.
  intros W. induction f1 as [|f1 IH]; intros f2 x Hx H1 H2; [lia|].
  destruct f2 as [|f2]; [lia|]. simpl. destruct (Nat.eqb_spec x 0) as [|Hn]; [reflexivity|].
  destruct (wf_parent c x W Hx Hn) as [Hp _]. rewrite (IH f2 (parent c x)) by lia. reflexivity.
Qed.

Lemma SfinH_step c x : wf c = true -> (x < njobs c)%nat -> x <> 0%nat ->
  SfinH c x = startfH (njobs c) c (SfinH c (parent c x)) x.
Proof.
  intros W Hx Hn. unfold SfinH at 1. simpl. apply Nat.eqb_neq in Hn. rewrite Hn. apply Nat.eqb_neq in Hn.
  destruct (wf_parent c x W Hx Hn) as [Hp _]. unfold SfinH.
  rewrite (SdownH_stable c W x (S (parent c x)) (parent c x)) by lia. reflexivity.
Qed.

Lemma EfinH_nonroot c x : x <> 0%nat -> EfinH c x = endfH (njobs c) c (SfinH c (parent c x)) x.
Proof. intros Hn. unfold EfinH. apply Nat.eqb_neq in Hn. rewrite Hn. reflexivity. Qed.

Lemma EfinH_root c : EfinH c 0 = maxl 0 (map (endfH (njobs c) c 0) (members c 0)) + shut_len c 0.
Proof. reflexivity. Qed.

(* the end of a job other than the root, one level of [endfH] unfolded *)
Lemma EfinH_unfold c x : wf c = true -> (x < njobs c)%nat -> x <> 0%nat ->
  EfinH c x =
  if j_sched (jc c x)
  then maxl (SfinH c x) (map (endfH (pred (njobs c)) c (SfinH c x)) (members c x)) + shut_len c x
  else SfinH c x + durN c x.
Proof.
  intros W Hx Hn. rewrite (EfinH_nonroot c x Hn).
  assert (Hst : SfinH c x = startfH (pred (njobs c)) c (SfinH c (parent c x)) x).
  { rewrite (SfinH_step c x W Hx Hn). pose proof (rank_le c x).
    apply startfH_stable; auto; lia. }
  rewrite Hst. replace (njobs c) with (S (pred (njobs c))) at 1 by lia.
  rewrite endfH_S. reflexivity.
Qed.

Theorem scheduleH_exists c : wf c = true -> exists S E, is_scheduleH c S E.
Proof.
  intros W. exists (SfinH c), (EfinH c). split; [reflexivity|].
  intros x Hx.
  assert (HS : x <> 0%nat -> SfinH c x = maxl (SfinH c (parent c x)) (map (EfinH c) (reqs c x))).
  { intros Hn. rewrite (SfinH_step c x W Hx Hn). unfold startfH.
    apply maxl_map_ext; [reflexivity|]. intros r Hq.
    destruct (req_facts c x r W Hx Hq) as (_ & _ & H0 & Hp & _).
    rewrite (EfinH_nonroot c r H0), Hp. reflexivity. }
  split; [exact HS|]. split.
  - intros Hs. destruct (Nat.eq_dec x 0) as [->|Hn].
    { destruct (wf_root c W) as (_ & _ & _ & Hroot). congruence. }
    rewrite (EfinH_unfold c x W Hx Hn), Hs. reflexivity.
  - intros Hs. destruct (Nat.eq_dec x 0) as [->|Hn].
    + rewrite EfinH_root. f_equal. apply maxl_map_ext; [reflexivity|]. intros m Hm.
      apply In_members in Hm. destruct Hm as (_ & Hp & H0).
      rewrite (EfinH_nonroot c m H0), Hp. reflexivity.
    + rewrite (EfinH_unfold c x W Hx Hn), Hs. f_equal.
      apply maxl_map_ext; [reflexivity|]. intros m Hm.
      pose proof (rank_member c x m W Hx Hm) as Hk1. pose proof (rank_le c x) as Hk2.
      apply In_members in Hm. destruct Hm as (Hm & Hp & H0).
      rewrite (EfinH_nonroot c m H0), Hp. apply endfH_stable; auto; lia.
Qed.

Local Close Scope N_scope.

(* ------------------------------------------------------------------ tables *)

Lemma roundH_S c SE x : x < njobs c ->
  tab (fst (roundH c SE)) x =
  if Nat.eqb x 0 then 0%N else maxl (tab (fst SE) (parent c x)) (map (tab (snd SE)) (reqs c x)).
Proof.
  intros Hx. destruct SE as [lS lE]. unfold roundH, tab, all_ids. simpl.
  rewrite nth_map_seqn by exact Hx. reflexivity.
Qed.

Lemma roundH_E c SE x : x < njobs c ->
  tab (snd (roundH c SE)) x =
  if j_sched (jc c x)
  then (maxl (tab (fst (roundH c SE)) x) (map (tab (snd SE)) (members c x)) + shut_len c x)%N
  else (tab (fst (roundH c SE)) x + durN c x)%N.
Proof.
  intros Hx. destruct SE as [lS lE]. unfold roundH, tab, all_ids. cbn [fst snd].
  rewrite (nth_map_seqn _ (njobs c) x) by exact Hx. reflexivity.
Qed.

Lemma iter_roundH_S k c : forall SE, iter_roundH (S k) c SE = roundH c (iter_roundH k c SE).
Proof.
  induction k as [|k IH]; intros SE; [reflexivity|].
  change (iter_roundH (S (S k)) c SE) with (iter_roundH (S k) c (roundH c SE)).
  rewrite IH. reflexivity.
Qed.

Definition iterH (c : cfg) (k : nat) : list N * list N := iter_roundH k c (zeros c).

Lemma iterH_S c k : iterH c (S k) = roundH c (iterH c k).
Proof. unfold iterH. apply iter_roundH_S. Qed.

Lemma solveH_iter c : solveH c = iterH c (2 * njobs c + 2).
Proof. reflexivity. Qed.

(* ------------------------------------------------------------------ soundness *)

(* the settled-entry tables [dS] / [dE] of RSolve.v describe the H rounds as well: the dependencies
   of the entries are the same *)
Section SoundH.
Variables (c : cfg) (Ss Es : nat -> N).
Hypothesis W : wf c = true.
Hypothesis H : is_scheduleH c Ss Es.

Definition okSH (k x : nat) : Prop := forall k', k <= k' -> tab (fst (iterH c k')) x = Ss x.
Definition okEH (k x : nat) : Prop := forall k', k <= k' -> tab (snd (iterH c k')) x = Es x.

Lemma soundH_S_step k :
  (forall x, x < njobs c -> dS c k x = true -> okSH k x) ->
  (forall x, x < njobs c -> dE c k x = true -> okEH k x) ->
  forall x, x < njobs c -> dS c (S k) x = true -> okSH (S k) x.
Proof.
  intros IHs IHe x Hx Hd k' Hk. destruct k' as [|k']; [lia|]. assert (Hk' : k <= k') by lia.
  rewrite iterH_S, roundH_S by exact Hx. rewrite dS_S in Hd. unfold nextS in Hd.
  destruct (Nat.eqb_spec x 0) as [->|Hn].
  - rewrite (schH_0 c Ss Es H). reflexivity.
  - simpl in Hd. apply andb_true_iff in Hd. destruct Hd as [Hp Hq]. rewrite forallb_forall in Hq.
    destruct (wf_parent c x W Hx Hn) as [Hlt _].
    rewrite (schH_S c Ss Es H x Hx Hn). apply maxl_map_ext.
    + apply (IHs (parent c x)); [lia|exact Hp|exact Hk'].
    + intros r Hr. destruct (req_facts c x r W Hx Hr) as (_ & Hr' & _).
      apply (IHe r Hr' (Hq r Hr) k' Hk').
Qed.

Lemma soundH_E_step k :
  (forall x, x < njobs c -> dS c (S k) x = true -> okSH (S k) x) ->
  (forall x, x < njobs c -> dE c k x = true -> okEH k x) ->
  forall x, x < njobs c -> dE c (S k) x = true -> okEH (S k) x.
Proof.
  intros IHs IHe x Hx Hd k' Hk. pose proof Hk as Hk0. destruct k' as [|k']; [lia|].
  assert (Hk' : k <= k') by lia.
  rewrite dE_S in Hd. unfold nextE in Hd. apply andb_true_iff in Hd. destruct Hd as [Hs Hm].
  pose proof (IHs x Hx Hs (S k') Hk0) as HS. rewrite iterH_S in HS.
  rewrite iterH_S, roundH_E by exact Hx. rewrite HS.
  destruct (j_sched (jc c x)) eqn:Hsch.
  - rewrite forallb_forall in Hm. rewrite (schH_Es c Ss Es H x Hx Hsch). f_equal.
    apply maxl_map_ext; [reflexivity|]. intros m Hin.
    pose proof Hin as Hin'. apply In_members in Hin'. destruct Hin' as (Hm' & _ & _).
    apply (IHe m Hm' (Hm m Hin) k' Hk').
  - rewrite (schH_Ea c Ss Es H x Hx Hsch). reflexivity.
Qed.

Lemma soundH k :
  (forall x, x < njobs c -> dS c k x = true -> okSH k x) /\
  (forall x, x < njobs c -> dE c k x = true -> okEH k x).
Proof.
  induction k as [|k [IHs IHe]].
  - split; intros x _ Hd; [rewrite dS_0 in Hd|rewrite dE_0 in Hd]; discriminate.
  - assert (Hs : forall x, x < njobs c -> dS c (S k) x = true -> okSH (S k) x)
      by (apply soundH_S_step; assumption).
    split; [exact Hs|]. apply soundH_E_step; assumption.
Qed.

End SoundH.

(* ------------------------------------------------------------------ the theorems *)

Lemma is_scheduleH_agree c (S E S' E' : nat -> N) : wf c = true -> is_scheduleH c S E ->
  (forall x, x < njobs c -> S' x = S x /\ E' x = E x) -> is_scheduleH c S' E'.
Proof.
  intros W H Ha. destruct (wf_root c W) as (Hpos & _).
  split.
  - destruct (Ha 0 Hpos) as [A _]. rewrite A. apply (schH_0 c S E H).
  - intros x Hx. destruct (Ha x Hx) as [Ax Bx]. repeat split.
    + intros Hn. rewrite Ax, (schH_S c S E H x Hx Hn). destruct (wf_parent c x W Hx Hn) as [Hlt _].
      apply maxl_map_ext.
      * symmetry. apply Ha. lia.
      * intros r Hr. destruct (req_facts c x r W Hx Hr) as (_ & Hr' & _). symmetry. apply Ha. exact Hr'.
    + intros Hs. rewrite Bx, Ax. apply (schH_Ea c S E H x Hx Hs).
    + intros Hs. rewrite Bx, (schH_Es c S E H x Hx Hs). f_equal. apply maxl_map_ext.
      * symmetry. exact Ax.
      * intros m Hm. apply In_members in Hm. destruct Hm as (Hm & _ & _). symmetry. apply Ha. exact Hm.
Qed.

Lemma solveH_agrees c S E : wf c = true -> is_scheduleH c S E ->
  forall x, x < njobs c -> tab (fst (solveH c)) x = S x /\ tab (snd (solveH c)) x = E x.
Proof.
  intros W H x Hx. rewrite solveH_iter.
  destruct (all_settled_end c W x Hx) as [A B].
  destruct (soundH c S E W H (2 * njobs c + 2)) as [HS HE].
  split; [apply (HS x Hx A)|apply (HE x Hx B)]; apply Nat.le_refl.
Qed.

Corollary solveH_is_schedule c : wf c = true ->
  is_scheduleH c (tab (fst (solveH c))) (tab (snd (solveH c))).
Proof.
  intros W. destruct (scheduleH_exists c W) as (S & E & H).
  apply (is_scheduleH_agree c S E _ _ W H). apply (solveH_agrees c S E W H).
Qed.

Theorem solveH_complete c : wf c = true ->
  let '(lS, lE) := solveH c in is_scheduleHb c lS lE = true.
Proof.
  intros W. pose proof (solveH_is_schedule c W) as H.
  destruct (solveH c) as [lS lE]. apply is_scheduleHb_iff. exact H.
Qed.

Corollary solveH_is_the_schedule c S E : wf c = true -> is_scheduleH c S E ->
  forall x, x < njobs c -> S x = tab (fst (solveH c)) x /\ E x = tab (snd (solveH c)) x.
Proof.
  intros W H x Hx. destruct (solveH_agrees c S E W H x Hx) as [A B]. auto.
Qed.

Print Assumptions scheduleH_exists.
Print Assumptions scheduleH_unique.
Print Assumptions is_scheduleHb_iff.
Print Assumptions solveH_complete.
Print Assumptions solveH_is_schedule.
Print Assumptions solveH_is_the_schedule.
