(* Eager start (C12): whenever time passes, no job of a scheduler in its main loop is waiting
   unless one of its requirements is not done yet or the window of its scheduler is full. *)
From AJ Require Import Common.Util Run.RModel Run.RFacts Run.RFacts2 Run.RInv Run.RInv3 Run.RInv4 Run.RInv5
  Run.RMon Run.RWin.

Definition win_full (c : cfg) (s : state) (n : nat) : bool :=
  negb (Nat.eqb (j_window (jc c n)) 0) && Nat.eqb (hcount c s n) (j_window (jc c n)).

(* a job that has not started is waiting for something: *)
Definition waiting_ok (c : cfg) (s : state) (n x : nat) : bool :=
  match st (Jb s x) with
  | Idle => existsb (fun r => negb (is_done (st (Jb s r)))) (reqs c x)   (* a requirement that is not done *)
  | Created => win_full c s n                                         (* or a slot of a full window *)
  | _ => true
  end.

Definition eager_ok (c : cfg) (s : state) : bool :=
  forallb (fun n => match ph (Rn s n) with
                    | PMain => forallb (waiting_ok c s n) (members c n)
                    | _ => true
                    end) (scheds c).

(* evaluated whenever the clock is about to move *)
Definition chk12 (c : cfg) (s : state) (e : event) : bool :=
  match e with ETick _ => eager_ok c s | _ => true end.

Lemma quiescent_job c s x : quiescent c s = true -> x < njobs c -> job_enabled c s x = false.
Proof.
  intros Hq Hx. unfold quiescent in Hq. apply andb_true_iff in Hq. destruct Hq as [Hq _].
  rewrite forallb_forall in Hq. specialize (Hq x (proj2 (In_all_ids c x) Hx)).
  apply andb_true_iff in Hq. destruct Hq as [Hq _]. apply negb_true_iff in Hq. exact Hq.
Qed.

Lemma quiescent_run c s n : quiescent c s = true -> n < njobs c -> j_sched (jc c n) = true ->
  run_enabled c s n = false.
Proof.
  intros Hq Hn Hs. unfold quiescent in Hq. apply andb_true_iff in Hq. destruct Hq as [_ Hq].
  rewrite forallb_forall in Hq.
  assert (Hin : In n (scheds c)).
  { unfold scheds. apply filter_In. split; [apply In_all_ids; exact Hn|exact Hs]. }
  specialize (Hq n Hin). apply andb_true_iff in Hq. destruct Hq as [Hq _]. apply negb_true_iff in Hq. exact Hq.
Qed.

Theorem eager_at_quiescence lvl c h s : wf c = true -> 1 <= lvl -> Reach lvl c h s ->
  quiescent c s = true -> eager_ok c s = true.
Proof.
  intros W Hl Hr Hq. destruct (InvD_reach lvl c h s W Hr) as [[I1 I3 I4 I5 I6] I7].
  unfold eager_ok. apply forallb_forall. intros n Hn.
  unfold scheds in Hn. apply filter_In in Hn. destruct Hn as [Hn Hsch]. apply In_all_ids in Hn.
  destruct (ph (Rn s n)) eqn:Hph; try reflexivity.
  apply forallb_forall. intros x Hx. unfold waiting_ok.
  pose proof (proj1 (In_members c n x) Hx) as (Hxl & Hpar & Hx0).
  destruct (st (Jb s x)) eqn:Est; try reflexivity.
  - (* Idle: some requirement has not been reported, hence is not done *)
    destruct (b_eager c s I5 n x Hph Hx Est) as (r & Hr1 & Hr2).
    apply existsb_exists. exists r. split; [exact Hr1|]. apply negb_true_iff.
    destruct (is_done (st (Jb s r))) eqn:Ed; [exfalso|reflexivity].
    destruct (wf_reqs c x r W Hxl Hx0 Hr1) as (Hrx & Hrp & Hr0).
    assert (Hrm : In r (members c n)) by (apply In_members; repeat split; [lia|congruence|exact Hr0]).
    assert (Hni : st (Jb s r) <> Idle) by (intro E; rewrite E in Ed; discriminate).
    destruct (b_cover c s I5 n r (or_introl Hph) Hrm Hni) as [Hp|Hs]; [|contradiction].
    pose proof (quiescent_run c s n Hq Hn Hsch) as He. unfold run_enabled in He. rewrite Hph in He.
    apply orb_false_iff in He. destruct He as [He _]. apply orb_false_iff in He. destruct He as [_ He].
    assert (Hex : existsb (jfin s) (pend (Rn s n)) = true).
    { apply existsb_exists. exists r. split; [exact Hp|]. unfold jfin. destruct (st (Jb s r)); try discriminate; reflexivity. }
    congruence.
  - (* Created: not enabled, so no slot is free; the counter is exact and bounded *)
    pose proof (quiescent_job c s x Hq Hxl) as He. unfold job_enabled in He. cbn zeta in He. rewrite Est in He.
    apply orb_false_iff in He. destruct He as [_ He]. rewrite Hpar in He.
    unfold slot_free in He. cbn zeta in He. apply orb_false_iff in He. destruct He as [He1 He2].
    unfold win_full. rewrite He1. cbn [negb andb].
    apply Nat.eqb_neq in He1. apply Nat.ltb_ge in He2.
    rewrite (Wacc_reach lvl c h s W Hr n) in He2.
    pose proof (window_bound lvl c h s n W Hl Hr He1) as Hb. apply Nat.eqb_eq. lia.
Qed.

Theorem chk12_holds lvl c h0 s e s' : wf c = true -> 2 <= lvl ->
  Reach lvl c h0 s -> step lvl c s e = Some s' -> chk12 c s e = true.
Proof.
  intros W Hl Hr Hs. destruct e; try reflexivity. cbn [chk12].
  apply (eager_at_quiescence lvl c h0 s W); [lia|exact Hr|].
  apply step_inv in Hs. destruct Hs as [_ Hg].
  cbn [forallb guards] in Hg. rewrite !andb_true_iff in Hg. destruct Hg as (_ & H & _).
  rewrite holds_ge in H by lia. exact H.
Qed.

Theorem chk12_monitor lvl c h : wf c = true -> 2 <= lvl -> accept lvl c h = true -> mon_ok chk12 c h = true.
Proof. intros W Hl. apply mon_sound. intros h0 s e s' Hr Hs. eapply chk12_holds; eauto. Qed.

(* readable corollaries *)

(* unwindowed: whenever time passes, every job of a scheduler in its main loop whose requirements
   are all done has started (it is neither idle nor waiting) *)
Theorem unwindowed_started lvl c h s t s' n x : wf c = true -> 2 <= lvl -> Reach lvl c h s ->
  step lvl c s (ETick t) = Some s' ->
  j_sched (jc c n) = true -> n < njobs c -> ph (Rn s n) = PMain -> j_window (jc c n) = 0 ->
  In x (members c n) -> (forall r, In r (reqs c x) -> is_done (st (Jb s r)) = true) ->
  st (Jb s x) <> Idle /\ st (Jb s x) <> Created.
Proof.
  intros W Hl Hr Hs Hsch Hn Hph Hw Hx Hreq.
  pose proof (chk12_holds lvl c h s (ETick t) s' W Hl Hr Hs) as Hc. cbn [chk12] in Hc.
  unfold eager_ok in Hc. rewrite forallb_forall in Hc.
  assert (Hin : In n (scheds c)).
  { unfold scheds. apply filter_In. split; [apply In_all_ids; exact Hn|exact Hsch]. }
  specialize (Hc n Hin). rewrite Hph in Hc. rewrite forallb_forall in Hc. specialize (Hc x Hx).
  unfold waiting_ok in Hc. split; intro E; rewrite E in Hc.
  - apply existsb_exists in Hc. destruct Hc as (r & Hr1 & Hr2). rewrite (Hreq r Hr1) in Hr2. discriminate.
  - unfold win_full in Hc. rewrite Hw in Hc. discriminate.
Qed.

(* windowed: whenever time passes and fewer than jobs_window direct jobs are executing, no job
   whose requirements are all done is waiting *)
Theorem free_slot_not_wasted lvl c h s t s' n x : wf c = true -> 2 <= lvl -> Reach lvl c h s ->
  step lvl c s (ETick t) = Some s' ->
  j_sched (jc c n) = true -> n < njobs c -> ph (Rn s n) = PMain ->
  hcount c s n < j_window (jc c n) ->
  In x (members c n) -> (forall r, In r (reqs c x) -> is_done (st (Jb s r)) = true) ->
  st (Jb s x) <> Idle /\ st (Jb s x) <> Created.
Proof.
  intros W Hl Hr Hs Hsch Hn Hph Hw Hx Hreq.
  pose proof (chk12_holds lvl c h s (ETick t) s' W Hl Hr Hs) as Hc. cbn [chk12] in Hc.
  unfold eager_ok in Hc. rewrite forallb_forall in Hc.
  assert (Hin : In n (scheds c)).
  { unfold scheds. apply filter_In. split; [apply In_all_ids; exact Hn|exact Hsch]. }
  specialize (Hc n Hin). rewrite Hph in Hc. rewrite forallb_forall in Hc. specialize (Hc x Hx).
  unfold waiting_ok in Hc. split; intro E; rewrite E in Hc.
  - apply existsb_exists in Hc. destruct Hc as (r & Hr1 & Hr2). rewrite (Hreq r Hr1) in Hr2. discriminate.
  - unfold win_full in Hc. apply andb_true_iff in Hc. destruct Hc as [_ Hc]. apply Nat.eqb_eq in Hc. lia.
Qed.
