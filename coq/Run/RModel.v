(* Model R: the run-time behaviour of a whole scheduler tree as a labelled transition system.

   One event = one atomic step of one coroutine of the real program (between two suspension
   points), or a jump of the clock, or a poll of the public predicates.  [step] is deterministic
   per event; all nondeterminism (which ready task runs next, set iteration orders, how many loop
   iterations a job needs) is the choice of the next event.  Control events of a scheduler carry
   the *outputs* observed during that step (tasks created, asyncio.wait calls with their arguments,
   verdicts); the model computes its own outputs and the guard compares them.

   Mirrors asynciojobs/purescheduler.py (co_run 924-1085, co_shutdown 806-903, _tidy_tasks),
   scheduler.py (co_run), window.py (run_job), job.py (is_idle ... result), with the fix: commits
   for D1, D2, D2b, D3, D8 in place.

   Levels: a higher level only adds guards (L0 logic, L1 window, L2 timing, L3 shutdown). *)
From AJ Require Export Common.Util.

(* ------------------------------------------------------------------ configuration *)

Inductive outcome := ORet | OExc.

Record jcfg := mkJ {
  j_parent : nat;                 (* enclosing scheduler; the root (id 0) is its own parent *)
  j_sched : bool;
  j_crit : bool;
  j_forever : bool;
  j_reqs : list nat;
  (* atomic job: what its body and handlers do (the environment) *)
  j_dur : option N;               (* None: never ends by itself *)
  j_out : outcome;
  j_cdur : N;                     (* how long its cancellation handler takes *)
  j_sdur : option N;              (* how long its co_shutdown takes; None: never ends *)
  (* scheduler parameters *)
  j_window : nat;                 (* 0: no limit *)
  j_timeout : option N;
  j_sdto : option N               (* shutdown_timeout *)
}.

Record cfg := mkCfg { jobs : list jcfg; pure_root : bool }.

Definition dflt_j : jcfg := mkJ 0 false false false [] None ORet 0 None 0 None None.
Definition jc (c : cfg) (j : nat) : jcfg := nth j (jobs c) dflt_j.
Definition njobs (c : cfg) : nat := length (jobs c).
Definition all_ids (c : cfg) : list nat := seqn (njobs c).
Definition parent (c : cfg) (j : nat) : nat := j_parent (jc c j).
Definition is_member (c : cfg) (s j : nat) : bool := Nat.eqb (parent c j) s && negb (Nat.eqb j 0).
Definition members (c : cfg) (s : nat) : list nat := filter (is_member c s) (all_ids c).
Definition scheds (c : cfg) : list nat := filter (fun j => j_sched (jc c j)) (all_ids c).
Definition reqs (c : cfg) (j : nat) : list nat := j_reqs (jc c j).

(* exception identity tags *)
Definition tag_job (j : nat) : nat := 2 * j.
Definition tag_timeout (s : nat) : nat := 2 * s + 1.

(* well-formed: parents are schedulers with smaller ids, requirements are siblings with smaller
   ids (acyclic and closed, w.l.o.g. on the numbering), no duplicates *)
Definition wf_job (c : cfg) (j : nat) : bool :=
  let x := jc c j in
  if Nat.eqb j 0 then j_sched x && Nat.eqb (j_parent x) 0 && match j_reqs x with [] => true | _ => false end
  else Nat.ltb (j_parent x) j && j_sched (jc c (j_parent x))
       && forallb (fun r => Nat.ltb r j && Nat.eqb (parent c r) (j_parent x) && negb (Nat.eqb r 0)) (j_reqs x)
       && nodupb (j_reqs x).
Definition wf (c : cfg) : bool := negb (Nat.eqb (njobs c) 0) && forallb (wf_job c) (all_ids c).

(* ------------------------------------------------------------------ state *)

Inductive rv := RVOwn | RVTrue | RVFalse.

Inductive jstat :=
| Idle | Created | Running | Cancelling
| DoneRet (v : rv) | DoneExc (t : nat) | Cancelled.

Record jst := mkJst { st : jstat; cp : bool; tend : option N; ran : bool }.

Inductive hstat := HNone | HCreated | HRunning | HDone | HCancelled.
Record hst := mkHst { hs : hstat; hcp : bool; hend : option N }.

Inductive why := WSuccess | WTimeout | WCritical.
Inductive phase := PIdle | PMain | PTidy (w : why) | PShut (w : why) | PCTidy | POver.

Record rst := mkRst {
  ph : phase;
  pend : list nat;          (* tasks the run is waiting for *)
  seen : list nat;          (* ghost: members already reported by a main wake *)
  ndone : nat;
  qsz : nat;                (* occupancy of the window queue *)
  expi : option N;
  tbeg : N;                 (* ghost: time of the beginning of the run *)
  fto : bool; fcr : bool;   (* _failed_timeout (as a boolean), _failed_critical *)
  rcanc : bool              (* CancelledError swallowed by _tidy_tasks, to be re-raised *)
}.

Inductive sdphase := SdIdle | SdWait | SdTidy | SdOver.
Record sst := mkSst {
  sp : sdphase;
  did : bool;               (* _did_shutdown *)
  sdl : option N;           (* deadline of the shutdown wait *)
  spend : list nat;         (* handler tasks being awaited in SdTidy *)
  scanc : bool              (* cancelled while shutting down *)
}.

Record state := mkSt {
  now : N;
  Jb : nat -> jst;           (* each job as a task of its parent *)
  Hd : nat -> hst;           (* the co_shutdown() task of each job *)
  Rn : nat -> rst;           (* the run of each scheduler *)
  Sd : nat -> sst            (* the shutdown activity of each scheduler *)
}.

Definition init_j : jst := mkJst Idle false None false.
Definition init_h : hst := mkHst HNone false None.
Definition init_r : rst := mkRst PIdle [] [] 0 0 None 0 false false false.
Definition init_s : sst := mkSst SdIdle false None [] false.
Definition init : state := mkSt 0 (fun _ => init_j) (fun _ => init_h) (fun _ => init_r) (fun _ => init_s).

Definition setJ (s : state) (j : nat) (v : jst) : state := mkSt (now s) (upd (Jb s) j v) (Hd s) (Rn s) (Sd s).
Definition setH (s : state) (j : nat) (v : hst) : state := mkSt (now s) (Jb s) (upd (Hd s) j v) (Rn s) (Sd s).
Definition setR (s : state) (j : nat) (v : rst) : state := mkSt (now s) (Jb s) (Hd s) (upd (Rn s) j v) (Sd s).
Definition setS (s : state) (j : nat) (v : sst) : state := mkSt (now s) (Jb s) (Hd s) (Rn s) (upd (Sd s) j v).
Definition setNow (s : state) (t : N) : state := mkSt t (Jb s) (Hd s) (Rn s) (Sd s).

Definition finished (x : jstat) : bool :=
  match x with DoneRet _ | DoneExc _ | Cancelled => true | _ => false end.
Definition is_done (x : jstat) : bool :=
  match x with DoneRet _ | DoneExc _ => true | _ => false end.
Definition is_exc (x : jstat) : bool := match x with DoneExc _ => true | _ => false end.
Definition hfinished (x : hstat) : bool := match x with HDone | HCancelled => true | _ => false end.

Definition jfin (s : state) (j : nat) : bool := finished (st (Jb s j)).
Definition hfin (s : state) (j : nat) : bool := hfinished (hs (Hd s j)).

(* bulk updates *)
Definition mapJ (f : jst -> jst) (l : list nat) (s : state) : state :=
  mkSt (now s) (fun j => if memb j l then f (Jb s j) else Jb s j) (Hd s) (Rn s) (Sd s).
Definition mapH (f : hst -> hst) (l : list nat) (s : state) : state :=
  mkSt (now s) (Jb s) (fun j => if memb j l then f (Hd s j) else Hd s j) (Rn s) (Sd s).

(* Task.cancel(): no effect on a finished task *)
Definition cancel_j (x : jst) : jst :=
  if finished (st x) then x else mkJst (st x) true (tend x) (ran x).
Definition cancel_h (x : hst) : hst :=
  if hfinished (hs x) then x else mkHst (hs x) true (hend x).
Definition create_j (x : jst) : jst := mkJst Created false None false.
Definition create_h (x : hst) : hst := mkHst HCreated false None.

(* ------------------------------------------------------------------ events and outputs *)

Inductive wkind := KMain | KTidy | KCTidy | KShut | KShTidy.
Inductive verdict := VTrue | VFalse | VRaise (t : nat) | VCancelled.
Inductive sdres := SRTrue | SRFalse | SRNone | SRCancelled.

Inductive out :=
| OCreate (j : nat)
| OHCreate (j : nat)
| OSdBegin (s : nat) (inline : bool)
| OWaitCall (s : nat) (k : wkind) (ids : list nat) (timeout : option N)
| OSdEnd (s : nat) (r : sdres)
| OEnd (s : nat) (v : verdict).

Record jview := mkJv { v_id : nat; v_idle : bool; v_sched : bool; v_run : bool; v_done : bool;
                       v_res : nat; v_exc : nat }.
Record sview := mkSv { sv_id : nat; sv_fto : bool; sv_fcr : bool }.

Inductive event :=
| EBegin (s : nat) (o : list out)
| EWake (s : nat) (k : wkind) (d : list nat) (o : list out)
| ECancelled (s : nat) (k : wkind) (o : list out)
| ESdStart (s : nat) (o : list out)
| EStart (j : nat)
| EFinish (j : nat) (oc : outcome)
| ECancelHit (j : nat)
| ECancelEnd (j : nat)
| ECancelAbort (j : nat)
| EGone (j : nat)
| EHStart (j : nat)
| EHEnd (j : nat)
| EHCancel (j : nat)
| EHGone (j : nat)
| ETick (t : N)
| EGrace (t : N)
| EPoll (jv : list jview) (sv : list sview).

(* ---- boolean equalities *)
Definition wkind_eqb (a b : wkind) : bool :=
  match a, b with
  | KMain, KMain | KTidy, KTidy | KCTidy, KCTidy | KShut, KShut | KShTidy, KShTidy => true
  | _, _ => false
  end.
Definition verdict_eqb (a b : verdict) : bool :=
  match a, b with
  | VTrue, VTrue | VFalse, VFalse | VCancelled, VCancelled => true
  | VRaise x, VRaise y => Nat.eqb x y
  | _, _ => false
  end.
Definition sdres_eqb (a b : sdres) : bool :=
  match a, b with
  | SRTrue, SRTrue | SRFalse, SRFalse | SRNone, SRNone | SRCancelled, SRCancelled => true
  | _, _ => false
  end.
Definition optN_eqb (a b : option N) : bool :=
  match a, b with
  | None, None => true
  | Some x, Some y => N.eqb x y
  | _, _ => false
  end.
Definition outcome_eqb (a b : outcome) : bool :=
  match a, b with ORet, ORet | OExc, OExc => true | _, _ => false end.

Definition subsetb (l1 l2 : list nat) : bool := forallb (fun x => memb x l2) l1.
Definition seteqb (l1 l2 : list nat) : bool := subsetb l1 l2 && subsetb l2 l1.

Definition out_eqb (a b : out) : bool :=
  match a, b with
  | OCreate x, OCreate y => Nat.eqb x y
  | OHCreate x, OHCreate y => Nat.eqb x y
  | OSdBegin x i, OSdBegin y k => Nat.eqb x y && Bool.eqb i k
  | OWaitCall s k ids t, OWaitCall s' k' ids' t' =>
      Nat.eqb s s' && wkind_eqb k k' && seteqb ids ids' && Nat.eqb (length ids) (length ids')
      && optN_eqb t t'
  | OSdEnd x r, OSdEnd y r' => Nat.eqb x y && sdres_eqb r r'
  | OEnd x v, OEnd y v' => Nat.eqb x y && verdict_eqb v v'
  | _, _ => false
  end.

(* observed outputs vs model outputs, as multisets (the model never emits duplicates) *)
Definition outs_match (obs mdl : list out) : bool :=
  Nat.eqb (length obs) (length mdl)
  && forallb (fun o => existsb (out_eqb o) mdl) obs
  && forallb (fun o => existsb (out_eqb o) obs) mdl.

(* ------------------------------------------------------------------ reactions *)

Definition optN_add (t : N) (d : option N) : option N :=
  match d with None => None | Some x => Some (t + x)%N end.
(* the `timeout` argument of asyncio.wait: expiration - now (never below 0 here) *)
Definition remaining (s : state) (e : option N) : option N :=
  match e with None => None | Some x => Some (x - now s)%N end.

(* the job [n] (a nested scheduler, or the root) stops being a task of its parent *)
Definition job_leave (c : cfg) (n : nat) (x : jstat) (s : state) : state :=
  if Nat.eqb n 0 then s
  else
    let p := parent c n in
    let s1 := setJ s n (mkJst x false None true) in
    let r := Rn s1 p in
    setR s1 p (mkRst (ph r) (pend r) (seen r) (ndone r) (qsz r - 1) (expi r) (tbeg r) (fto r) (fcr r) (rcanc r)).

Definition set_phase (s : state) (n : nat) (p : phase) : state :=
  let r := Rn s n in
  setR s n (mkRst p (pend r) (seen r) (ndone r) (qsz r) (expi r) (tbeg r) (fto r) (fcr r) (rcanc r)).

(* Scheduler.co_run's mapping of the pure result (lines 115-136); [culprit]: the exception tag
   observed when a critical scheduler re-raises the exception of one of its critical jobs *)
Definition verdict_of (c : cfg) (n : nat) (w : why) (culprit : nat) : verdict :=
  match w with
  | WSuccess => VTrue
  | _ =>
      if (Nat.eqb n 0 && pure_root c) || negb (j_crit (jc c n)) then VFalse
      else match w with
           | WTimeout => VRaise (tag_timeout n)
           | _ => VRaise culprit
           end
  end.

Definition jstat_of_verdict (v : verdict) : jstat :=
  match v with
  | VTrue => DoneRet RVTrue
  | VFalse => DoneRet RVFalse
  | VRaise t => DoneExc t
  | VCancelled => Cancelled
  end.

(* the inline shutdown is over with result [r]: flags, verdict, end of the run *)
Definition finish_run (c : cfg) (n : nat) (w : why) (r : sdres) (culprit : nat) (s : state)
  : state * list out :=
  let v := verdict_of c n w culprit in
  let rr := Rn s n in
  let s1 := setR s n (mkRst POver (pend rr) (seen rr) (ndone rr) (qsz rr) (expi rr) (tbeg rr)
                            (match w with WTimeout => true | _ => fto rr end)
                            (match w with WCritical => true | _ => fcr rr end) (rcanc rr)) in
  (job_leave c n (jstat_of_verdict v) s1, [OSdEnd n r; OEnd n v]).

(* CancelledError leaves co_run (Scheduler.co_run has nothing left to tidy) *)
Definition end_cancelled (c : cfg) (n : nat) (s : state) : state * list out :=
  (job_leave c n Cancelled (set_phase s n POver), [OEnd n VCancelled]).

(* co_shutdown() proper: lines 864-884, up to the wait *)
Definition shutdown_start (c : cfg) (n : nat) (inline : bool) (s : state) : state * list out :=
  let ss := Sd s n in
  if did ss then (s, [OSdBegin n inline; OSdEnd n SRNone])
  else
    let ms := members c n in
    match ms with
    | [] => (setS s n (mkSst SdOver true None [] false), [OSdBegin n inline; OSdEnd n SRTrue])
    | _ =>
        let dl := optN_add (now s) (j_sdto (jc c n)) in
        let s1 := mapH create_h ms s in
        (setS s1 n (mkSst SdWait true dl ms false),
         OSdBegin n inline :: map OHCreate ms ++ [OWaitCall n KShut ms (j_sdto (jc c n))])
    end.

(* one of the three exit paths of the main loop: cancel what is pending, tidy, shut down *)
Definition exit_main (c : cfg) (n : nat) (w : why) (pend' : list nat) (s : state) : state * list out :=
  match pend' with
  | [] =>
      let '(s1, o) := shutdown_start c n true (set_phase s n (PShut w)) in
      (* a scheduler that reaches this point has members, hence a shutdown wait *)
      (s1, o)
  | _ =>
      (set_phase (mapJ cancel_j pend' s) n (PTidy w), [OWaitCall n KTidy pend' None])
  end.

Definition all_done (s : state) (l : list nat) : bool := forallb (fun r => is_done (st (Jb s r))) l.

(* the reaction of the main loop to a wake that reports [d] (lines 996-1085) *)
Definition react_main (c : cfg) (n : nat) (d : list nat) (s : state) : state * list out :=
  let r := Rn s n in
  let pend' := diff (pend r) d in
  let seen' := seen r ++ d in
  match d with
  | [] =>
      exit_main c n WTimeout pend'
        (setR s n (mkRst (ph r) pend' seen' (ndone r) (qsz r) (expi r) (tbeg r) (fto r) (fcr r) (rcanc r)))
  | _ =>
      if existsb (fun j => j_crit (jc c j) && is_exc (st (Jb s j))) d then
        exit_main c n WCritical pend'
          (setR s n (mkRst (ph r) pend' seen' (ndone r) (qsz r) (expi r) (tbeg r) (fto r) (fcr r) (rcanc r)))
      else
        let nd := ndone r + length (filter (fun j => negb (j_forever (jc c j))) d) in
        let nfinite := length (filter (fun j => negb (j_forever (jc c j))) (members c n)) in
        if Nat.eqb nd nfinite then
          exit_main c n WSuccess pend'
            (setR s n (mkRst (ph r) pend' seen' nd (qsz r) (expi r) (tbeg r) (fto r) (fcr r) (rcanc r)))
        else
          (* successors of the jobs that just finished, not started yet, all requirements done *)
          let cand := filter (fun x => existsb (fun q => memb q d) (reqs c x)) (members c n) in
          let new := filter (fun x => match st (Jb s x) with Idle => all_done s (reqs c x) | _ => false end) cand in
          let pend'' := pend' ++ new in
          let s1 := mapJ create_j new s in
          (setR s1 n (mkRst (ph r) pend'' seen' nd (qsz r) (expi r) (tbeg r) (fto r) (fcr r) (rcanc r)),
           map OCreate new ++ [OWaitCall n KMain pend'' (remaining s (expi r))])
  end.

(* prologue of co_run, lines 946-994 *)
Definition react_begin (c : cfg) (n : nat) (s : state) : state * list out :=
  let s0 := if Nat.eqb n 0 then s
            else
              let p := parent c n in
              let s' := setJ s n (mkJst Running false None true) in
              let r := Rn s' p in
              setR s' p (mkRst (ph r) (pend r) (seen r) (ndone r) (S (qsz r)) (expi r) (tbeg r) (fto r) (fcr r) (rcanc r)) in
  let ex := optN_add (now s) (j_timeout (jc c n)) in
  match members c n with
  | [] =>
      (* empty scheduler: True at once, no shutdown *)
      let s1 := setR s0 n (mkRst POver [] [] 0 0 ex (now s) false false false) in
      (job_leave c n (DoneRet RVTrue) s1, [OEnd n VTrue])
  | ms =>
      let entry := filter (fun x => match reqs c x with [] => true | _ => false end) ms in
      let s1 := mapJ create_j entry s0 in
      (setR s1 n (mkRst PMain entry [] 0 0 ex (now s) false false false),
       map OCreate entry ++ [OWaitCall n KMain entry (j_timeout (jc c n))])
  end.

(* handler tasks of [n] that are not finished *)
Definition hpending (c : cfg) (s : state) (l : list nat) : list nat :=
  filter (fun j => negb (hfin s j)) l.

(* the shutdown wait of scheduler [n] returned with [p] still pending (lines 884-903) *)
Definition react_shut_wake (c : cfg) (n : nat) (p : list nat) (s : state)
  : state * option sdres * list out :=
  let ss := Sd s n in
  match p with
  | [] => (setS s n (mkSst SdOver true (sdl ss) [] (scanc ss)), Some SRTrue, [])
  | _ =>
      (setS (mapH cancel_h p s) n (mkSst SdTidy true (sdl ss) p (scanc ss)), None,
       [OWaitCall n KShTidy p None])
  end.

(* the tidy wait of the shutdown returned *)
Definition react_shtidy_wake (n : nat) (s : state) : state * sdres :=
  let ss := Sd s n in
  (setS s n (mkSst SdOver true (sdl ss) [] (scanc ss)), if scanc ss then SRCancelled else SRFalse).

(* CancelledError inside co_shutdown, at either wait *)
Definition react_shut_cancel (c : cfg) (n : nat) (s : state) : state * list out :=
  let ss := Sd s n in
  let l := match sp ss with SdWait => members c n | _ => spend ss end in
  (setS (mapH cancel_h l s) n (mkSst SdTidy true (sdl ss) l true), [OWaitCall n KShTidy l None]).

(* the co_shutdown() task of nested scheduler [n] is over *)
Definition hdone (n : nat) (r : sdres) (s : state) : state :=
  setH s n (mkHst (match r with SRCancelled => HCancelled | _ => HDone end) false None).

(* ------------------------------------------------------------------ views (job.py 516-585) *)

Definition view_of (j : nat) (x : jst) : jview :=
  let s := st x in
  mkJv j
    (match s with Idle => true | _ => false end)
    (match s with Idle => false | _ => true end)
    (ran x)
    (is_done s)
    (match s with DoneRet RVOwn => 1 | DoneRet RVTrue => 2 | DoneRet RVFalse => 3 | _ => 0 end)
    (match s with DoneExc t => S t | _ => 0 end).

Definition jview_eqb (a b : jview) : bool :=
  Nat.eqb (v_id a) (v_id b) && Bool.eqb (v_idle a) (v_idle b) && Bool.eqb (v_sched a) (v_sched b)
  && Bool.eqb (v_run a) (v_run b) && Bool.eqb (v_done a) (v_done b)
  && Nat.eqb (v_res a) (v_res b) && Nat.eqb (v_exc a) (v_exc b).

Definition sview_eqb (a b : sview) : bool :=
  Nat.eqb (sv_id a) (sv_id b) && Bool.eqb (sv_fto a) (sv_fto b) && Bool.eqb (sv_fcr a) (sv_fcr b).

(* ------------------------------------------------------------------ enabledness, deadlines *)

Definition slot_free (c : cfg) (s : state) (p : nat) : bool :=
  let w := j_window (jc c p) in Nat.eqb w 0 || Nat.ltb (qsz (Rn s p)) w.

Definition opt_le_now (s : state) (d : option N) : bool :=
  match d with Some x => N.leb x (now s) | None => false end.
Definition opt_eq_now (s : state) (d : option N) : bool :=
  match d with Some x => N.eqb x (now s) | None => false end.

(* is some event of job j (as a task of its parent) enabled now? *)
Definition job_enabled (c : cfg) (s : state) (j : nat) : bool :=
  let x := Jb s j in
  match st x with
  | Created => cp x || slot_free c s (parent c j)
  | Running =>
      if j_sched (jc c j) then false            (* its events are those of its run *)
      else cp x || opt_le_now s (tend x)
  | Cancelling => cp x || opt_le_now s (tend x)
  | _ => false
  end.

Definition handler_enabled (c : cfg) (s : state) (j : nat) : bool :=
  let x := Hd s j in
  match hs x with
  | HCreated => true
  | HRunning =>
      if j_sched (jc c j) then false            (* its events are those of the activity *)
      else hcp x || opt_le_now s (hend x)
  | _ => false
  end.

(* is the shutdown activity of [n] able to move (wake or cancellation)? *)
Definition sd_enabled (c : cfg) (s : state) (n : nat) (cancel_pending : bool) : bool :=
  let ss := Sd s n in
  match sp ss with
  | SdWait => cancel_pending || forallb (hfin s) (members c n) || opt_le_now s (sdl ss)
  | SdTidy => cancel_pending || forallb (hfin s) (spend ss)
  | _ => false
  end.

Definition run_enabled (c : cfg) (s : state) (n : nat) : bool :=
  let r := Rn s n in
  let cpn := if Nat.eqb n 0 then false else cp (Jb s n) in
  match ph r with
  | PMain => cpn || existsb (jfin s) (pend r) || opt_le_now s (expi r)
  | PTidy _ | PCTidy => cpn || forallb (jfin s) (pend r)
  | PShut _ => sd_enabled c s n cpn
  | _ => false
  end.

Definition sdtask_enabled (c : cfg) (s : state) (n : nat) : bool :=
  match hs (Hd s n) with
  | HRunning => sd_enabled c s n (hcp (Hd s n))
  | _ => false
  end.

Definition quiescent (c : cfg) (s : state) : bool :=
  forallb (fun j => negb (job_enabled c s j) && negb (handler_enabled c s j)) (all_ids c)
  && forallb (fun n => negb (run_enabled c s n) && negb (sdtask_enabled c s n)) (scheds c).

(* live deadlines strictly in the future *)
Definition future (s : state) (d : option N) : list N :=
  match d with Some x => if N.ltb (now s) x then [x] else [] | None => [] end.

Definition deadlines (c : cfg) (s : state) : list N :=
  flat_map (fun j =>
    (match st (Jb s j) with
     | Running => if j_sched (jc c j) then [] else future s (tend (Jb s j))
     | Cancelling => future s (tend (Jb s j))
     | _ => []
     end)
    ++ (match hs (Hd s j) with
        | HRunning => if j_sched (jc c j) then [] else future s (hend (Hd s j))
        | _ => []
        end)) (all_ids c)
  ++ flat_map (fun n =>
       (match ph (Rn s n) with PMain => future s (expi (Rn s n)) | _ => [] end)
       ++ (match sp (Sd s n) with SdWait => future s (sdl (Sd s n)) | _ => [] end)) (scheds c).

Fixpoint minN (l : list N) : option N :=
  match l with
  | [] => None
  | x :: l' => match minN l' with None => Some x | Some y => Some (N.min x y) end
  end.

(* ------------------------------------------------------------------ the step function *)

(* a guard: (level from which it is enforced, diagnostic code, value) *)
Definition guard := (nat * nat * bool)%type.

Definition holds (lvl : nat) (g : guard) : bool :=
  let '(k, _, b) := g in if Nat.ltb lvl k then true else b.

Definition rootb (n : nat) : bool := Nat.eqb n 0.

(* the run of [n] can be resumed: it is the root, or it is a running task of its parent *)
Definition run_alive (c : cfg) (s : state) (n : nat) (want_cancel : bool) : bool :=
  j_sched (jc c n) && Nat.ltb n (njobs c) &&
  (if rootb n then negb want_cancel
   else match st (Jb s n) with Running => Bool.eqb (cp (Jb s n)) want_cancel | _ => false end).

Definition clear_cp (s : state) (n : nat) : state :=
  if rootb n then s else let x := Jb s n in setJ s n (mkJst (st x) false (tend x) (ran x)).
Definition clear_hcp (s : state) (n : nat) : state :=
  let x := Hd s n in setH s n (mkHst (hs x) false (hend x)).

(* is the shutdown of [n] running inline (phase of its run) or as a task of the parent's broadcast *)
Definition sd_inline (s : state) (n : nat) : bool :=
  match ph (Rn s n) with PShut _ => true | _ => false end.

Definition why_of (s : state) (n : nat) : why :=
  match ph (Rn s n) with PTidy w | PShut w => w | _ => WSuccess end.

(* culprit tag carried by the observed outputs, if any *)
Definition culprit_of (o : list out) : nat :=
  fold_right (fun x acc => match x with OEnd _ (VRaise t) => t | _ => acc end) 0 o.

(* a critical scheduler may only re-raise the exception of one of its critical members *)
Definition culprit_ok (c : cfg) (s : state) (n : nat) (w : why) (t : nat) : bool :=
  match w with
  | WCritical =>
      if (Nat.eqb n 0 && pure_root c) || negb (j_crit (jc c n)) then true
      else existsb (fun j => j_crit (jc c j) &&
                             match st (Jb s j) with DoneExc t' => Nat.eqb t t' | _ => false end)
             (members c n)
  | _ => true
  end.

(* ---- reactions of the control events, one function each *)

(* the tidy wait of an exit path returned *)
Definition react_tidy (c : cfg) (n : nat) (s : state) : state * list out :=
  if rcanc (Rn s n) then end_cancelled c n s
  else shutdown_start c n true (set_phase s n (PShut (why_of s n))).

(* the shutdown wait returned with [p] pending; [culprit] as observed *)
Definition react_shut (c : cfg) (n : nat) (p : list nat) (culprit : nat) (s : state)
  : state * list out :=
  let '(s1, res, mo1) := react_shut_wake c n p s in
  match res with
  | None => (s1, mo1)
  | Some r =>
      if sd_inline s n then
        if rcanc (Rn s n) then
          (* cannot happen in the program: a run cancelled inside its shutdown only tidies *)
          let '(s2, mo2) := end_cancelled c n s1 in (s2, mo1 ++ OSdEnd n SRCancelled :: mo2)
        else
          let '(s2, mo2) := finish_run c n (why_of s n) r culprit s1 in (s2, mo1 ++ mo2)
      else (hdone n r s1, mo1 ++ [OSdEnd n r])
  end.

Definition react_shtidy (c : cfg) (n : nat) (culprit : nat) (s : state) : state * list out :=
  let '(s1, r) := react_shtidy_wake n s in
  if sd_inline s n then
    (* inline: the run remembers in [rcanc] that it was cancelled while shutting down *)
    if rcanc (Rn s n) then
      let '(s2, mo2) := end_cancelled c n s1 in (s2, OSdEnd n SRCancelled :: mo2)
    else finish_run c n (why_of s n) SRFalse culprit s1
  else (hdone n r s1, [OSdEnd n r]).

(* CancelledError at the main wait: Scheduler.co_run tidies the unfinished job tasks *)
Definition react_cancel_main (c : cfg) (n : nat) (s : state) : state * list out :=
  let u := filter (fun j => negb (jfin s j)) (pend (Rn s n)) in
  let s0 := clear_cp s n in
  match u with
  | [] => end_cancelled c n s0
  | _ =>
      let r0 := Rn s0 n in
      (setR (mapJ cancel_j u s0) n
            (mkRst PCTidy u (seen r0) (ndone r0) (qsz r0) (expi r0) (tbeg r0) (fto r0) (fcr r0) (rcanc r0)),
       [OWaitCall n KCTidy u None])
  end.

(* CancelledError inside _tidy_tasks: cancel again, keep waiting, remember to re-raise *)
Definition react_cancel_tidy (c : cfg) (n : nat) (s : state) : state * list out :=
  let r := Rn s n in
  let s0 := clear_cp s n in
  let r0 := Rn s0 n in
  (setR (mapJ cancel_j (pend r) s0) n
        (mkRst (ph r0) (pend r0) (seen r0) (ndone r0) (qsz r0) (expi r0) (tbeg r0) (fto r0) (fcr r0) true),
   [OWaitCall n KTidy (pend r) None]).

Definition react_cancel_ctidy (c : cfg) (n : nat) (s : state) : state * list out :=
  let r := Rn s n in
  (mapJ cancel_j (pend r) (clear_cp s n), [OWaitCall n KCTidy (pend r) None]).

Definition react_cancel_shut (c : cfg) (n : nat) (s : state) : state * list out :=
  if sd_inline s n then
    let s0 := clear_cp s n in
    let r0 := Rn s0 n in
    react_shut_cancel c n
      (setR s0 n (mkRst (ph r0) (pend r0) (seen r0) (ndone r0) (qsz r0) (expi r0) (tbeg r0) (fto r0) (fcr r0) true))
  else react_shut_cancel c n (clear_hcp s n).

(* first step of the co_shutdown() task of nested scheduler [n] (or the late explicit
   shutdown of the root) *)
Definition react_sdstart (c : cfg) (n : nat) (s : state) : state * list out :=
  let '(s1, mo) := shutdown_start c n false (setH s n (mkHst HRunning false None)) in
  (* if the activity is over at once, so is the task *)
  (match sp (Sd s1 n), did (Sd s n) with
   | SdWait, false => s1
   | _, _ => setH s1 n (mkHst HDone false None)
   end, mo).

(* ---- effects of the job and handler events *)

Definition bump_q (s : state) (p : nat) (f : nat -> nat) : state :=
  let r := Rn s p in
  setR s p (mkRst (ph r) (pend r) (seen r) (ndone r) (f (qsz r)) (expi r) (tbeg r) (fto r) (fcr r) (rcanc r)).

Definition eff_start (c : cfg) (j : nat) (s : state) : state :=
  bump_q (setJ s j (mkJst Running false (optN_add (now s) (j_dur (jc c j))) true)) (parent c j) S.
Definition eff_finish (c : cfg) (j : nat) (oc : outcome) (s : state) : state :=
  bump_q (setJ s j (mkJst (match oc with ORet => DoneRet RVOwn | OExc => DoneExc (tag_job j) end) false None true))
         (parent c j) pred.
Definition eff_cancel_hit (c : cfg) (j : nat) (s : state) : state :=
  setJ s j (mkJst Cancelling false (Some (now s + j_cdur (jc c j))%N) true).
Definition eff_cancel_over (c : cfg) (j : nat) (s : state) : state :=
  bump_q (setJ s j (mkJst Cancelled false None true)) (parent c j) pred.
Definition eff_gone (j : nat) (s : state) : state := setJ s j (mkJst Cancelled false None false).

(* [reaction]: new state and, for control events, the outputs the model expects *)
Definition reaction (c : cfg) (s : state) (e : event) : state * list out :=
  match e with
  | EBegin n _ => react_begin c n s
  | EWake n KMain d _ => react_main c n d s
  | EWake n KTidy _ _ => react_tidy c n s
  | EWake n KCTidy _ _ => end_cancelled c n s
  | EWake n KShut p o => react_shut c n p (culprit_of o) s
  | EWake n KShTidy _ o => react_shtidy c n (culprit_of o) s
  | ECancelled n KMain _ => react_cancel_main c n s
  | ECancelled n KTidy _ => react_cancel_tidy c n s
  | ECancelled n KCTidy _ => react_cancel_ctidy c n s
  | ECancelled n _ _ => react_cancel_shut c n s
  | ESdStart n _ => react_sdstart c n s
  | EStart j => (eff_start c j s, [])
  | EFinish j oc => (eff_finish c j oc s, [])
  | ECancelHit j => (eff_cancel_hit c j s, [])
  | ECancelEnd j => (eff_cancel_over c j s, [])
  | ECancelAbort j => (eff_cancel_over c j s, [])
  | EGone j => (eff_gone j s, [])
  | EHStart j => (setH s j (mkHst HRunning false (optN_add (now s) (j_sdur (jc c j)))), [])
  | EHEnd j => (setH s j (mkHst HDone false None), [])
  | EHCancel j => (setH s j (mkHst HCancelled false None), [])
  | EHGone j => (setH s j (mkHst HCancelled false None), [])
  | ETick t => (setNow s t, [])
  | EGrace t => (setNow s t, [])
  | EPoll _ _ => (s, [])
  end.

(* outputs that belong to the main loop (levels 0-2 ignore the shutdown-only ones) *)
Definition core_out (x : out) : bool :=
  match x with
  | OCreate _ | OEnd _ _ => true
  | OWaitCall _ k _ _ => match k with KMain | KTidy | KCTidy => true | _ => false end
  | _ => false
  end.
Definition core (o : list out) : list out := filter core_out o.
Definition outs_guards (code : nat) (o mo : list out) : list guard :=
  [(0, code, outs_match (core o) (core mo)); (3, code + 500, outs_match o mo)].

Definition atomic_id (c : cfg) (j : nat) : bool :=
  negb (j_sched (jc c j)) && Nat.ltb j (njobs c) && negb (rootb j).
Definition sched_id (c : cfg) (n : nat) : bool := j_sched (jc c n) && Nat.ltb n (njobs c).

(* the shutdown activity of [n] is being run by: its own run (inline) / its co_shutdown() task *)
Definition sd_thread_ok (c : cfg) (s : state) (n : nat) (want_cancel : bool) : guard * guard :=
  let inline := sd_inline s n in
  ((0, 40, if inline then run_alive c s n want_cancel else true),
   (3, 46, if inline then true
           else match hs (Hd s n) with HRunning => Bool.eqb (hcp (Hd s n)) want_cancel | _ => false end)).

(* FIFO of the event loop: the first step of every handler task created by the broadcast of [n]
   runs before anything can wake or cancel the wait that follows their creation *)
Definition handlers_stepped (c : cfg) (s : state) (n : nat) : bool :=
  forallb (fun x => match hs (Hd s x) with HCreated => false | _ => true end) (members c n).

(* [guards]: what must hold for the event to be enabled, each with the level from which it is
   enforced and a diagnostic code *)
Definition guards (c : cfg) (s : state) (e : event) : list guard :=
  let mo := snd (reaction c s e) in
  match e with
  | EBegin n o =>
      [(0, 1, sched_id c n);
       (0, 2, if rootb n then match ph (Rn s n) with PIdle => true | _ => false end
              else match st (Jb s n) with Created => negb (cp (Jb s n)) | _ => false end);
       (1, 3, rootb n || slot_free c s (parent c n))]
       ++ outs_guards 4 o mo
  | EWake n KMain d o =>
      let r := Rn s n in
      [(0, 10, run_alive c s n false);
       (0, 11, match ph r with PMain => true | _ => false end);
       (0, 12, seteqb d (filter (jfin s) (pend r)) && nodupb d);
       (0, 13, match d with [] => match expi r with Some _ => true | None => false end | _ => true end);
       (2, 14, match d with [] => opt_le_now s (expi r) | _ => true end)]
       ++ outs_guards 15 o mo
  | EWake n KTidy d o =>
      let r := Rn s n in
      [(0, 20, run_alive c s n false);
       (0, 21, match ph r with PTidy _ => true | _ => false end);
       (0, 22, forallb (jfin s) (pend r))]
       ++ outs_guards 23 o mo
  | EWake n KCTidy d o =>
      let r := Rn s n in
      [(0, 30, run_alive c s n false);
       (0, 31, match ph r with PCTidy => true | _ => false end);
       (0, 32, forallb (jfin s) (pend r))]
       ++ outs_guards 33 o mo
  | EWake n KShut p o =>
      let ss := Sd s n in
      let inline := sd_inline s n in
      [fst (sd_thread_ok c s n false); snd (sd_thread_ok c s n false);
       (3, 41, match sp ss with SdWait => true | _ => false end);
       (3, 42, seteqb p (hpending c s (members c n)) && nodupb p);
       (3, 43, match p with [] => true | _ => opt_le_now s (sdl ss) end);
       (0, 44, if inline && match p with [] => true | _ => false end
               then culprit_ok c s n (why_of s n) (culprit_of o) else true)]
       ++ outs_guards 45 o mo ++ [(3, 47, handlers_stepped c s n)]
  | EWake n KShTidy d o =>
      let ss := Sd s n in
      let inline := sd_inline s n in
      [fst (sd_thread_ok c s n false); snd (sd_thread_ok c s n false);
       (3, 51, match sp ss with SdTidy => true | _ => false end);
       (3, 52, forallb (hfin s) (spend ss));
       (0, 53, if inline && negb (rcanc (Rn s n)) then culprit_ok c s n (why_of s n) (culprit_of o) else true)]
       ++ outs_guards 54 o mo
  | ECancelled n KMain o =>
      [(0, 60, run_alive c s n true);
       (0, 61, match ph (Rn s n) with PMain => true | _ => false end)]
       ++ outs_guards 62 o mo
  | ECancelled n KTidy o =>
      [(0, 70, run_alive c s n true);
       (0, 71, match ph (Rn s n) with PTidy _ => true | _ => false end)]
       ++ outs_guards 72 o mo
  | ECancelled n KCTidy o =>
      [(0, 80, run_alive c s n true);
       (0, 81, match ph (Rn s n) with PCTidy => true | _ => false end)]
       ++ outs_guards 82 o mo
  | ECancelled n k o =>
      [fst (sd_thread_ok c s n true); snd (sd_thread_ok c s n true);
       (3, 91, match sp (Sd s n), k with SdWait, KShut => true | SdTidy, KShTidy => true | _, _ => false end)]
       ++ outs_guards 92 o mo ++ [(3, 93, handlers_stepped c s n)]
  | ESdStart n o =>
      [(0, 100, sched_id c n);
       (3, 101, match hs (Hd s n) with
                | HCreated => negb (hcp (Hd s n))
                | HRunning => false        (* program order: a late shutdown() call returns before the next one *)
                | _ => rootb n && match ph (Rn s n) with POver => true | _ => false end
                end)]
       ++ outs_guards 102 o mo
  | EStart j =>
      [(0, 110, atomic_id c j);
       (0, 111, match st (Jb s j) with Created => negb (cp (Jb s j)) | _ => false end);
       (1, 112, slot_free c s (parent c j))]
  | EFinish j oc =>
      [(0, 120, atomic_id c j);
       (0, 121, match st (Jb s j) with Running => negb (cp (Jb s j)) | _ => false end);
       (0, 122, outcome_eqb oc (j_out (jc c j)) && match j_dur (jc c j) with Some _ => true | None => false end);
       (2, 123, opt_eq_now s (tend (Jb s j)))]
  | ECancelHit j =>
      [(0, 130, atomic_id c j);
       (0, 131, match st (Jb s j) with Running => cp (Jb s j) | _ => false end)]
  | ECancelEnd j =>
      [(0, 140, atomic_id c j);
       (0, 141, match st (Jb s j) with Cancelling => negb (cp (Jb s j)) | _ => false end);
       (2, 142, opt_eq_now s (tend (Jb s j)))]
  | ECancelAbort j =>
      [(0, 150, atomic_id c j);
       (0, 151, match st (Jb s j) with Cancelling => cp (Jb s j) | _ => false end)]
  | EGone j =>
      [(0, 160, Nat.ltb j (njobs c) && negb (rootb j));
       (0, 161, match st (Jb s j) with Created => cp (Jb s j) | _ => false end)]
  | EHStart j =>
      [(0, 170, atomic_id c j);
       (3, 171, match hs (Hd s j) with HCreated => negb (hcp (Hd s j)) | _ => false end)]
  | EHEnd j =>
      [(0, 180, atomic_id c j);
       (3, 181, match hs (Hd s j) with HRunning => negb (hcp (Hd s j)) | _ => false end);
       (3, 182, match j_sdur (jc c j) with Some _ => opt_eq_now s (hend (Hd s j)) | None => false end)]
  | EHCancel j =>
      [(0, 190, atomic_id c j);
       (3, 191, match hs (Hd s j) with HRunning => hcp (Hd s j) | _ => false end)]
  | EHGone j =>
      [(0, 200, Nat.ltb j (njobs c));
       (3, 201, match hs (Hd s j) with HCreated => hcp (Hd s j) | _ => false end)]
  | ETick t =>
      [(0, 210, N.ltb (now s) t);
       (2, 211, quiescent c s);
       (2, 212, match minN (deadlines c s) with Some m => N.eqb m t | None => false end)]
  | EGrace t =>
      [(0, 220, N.ltb (now s) t);
       (0, 221, match ph (Rn s 0) with POver => true | _ => false end);
       (2, 222, quiescent c s);
       (2, 223, match minN (deadlines c s) with Some _ => false | None => true end)]
  | EPoll jv sv =>
      [(0, 230, forallb (fun v => jview_eqb v (view_of (v_id v) (Jb s (v_id v)))) jv);
       (0, 231, forallb (fun v => sview_eqb v (mkSv (sv_id v) (fto (Rn s (sv_id v))) (fcr (Rn s (sv_id v))))) sv)]
  end.

Definition step (lvl : nat) (c : cfg) (s : state) (e : event) : option state :=
  if forallb (holds lvl) (guards c s e) then Some (fst (reaction c s e)) else None.

(* diagnostic: code of the first guard that fails (0 = none) *)
Definition diag (lvl : nat) (c : cfg) (s : state) (e : event) : nat :=
  fold_right (fun g acc => if holds lvl g then acc else snd (fst g)) 0 (guards c s e).

Fixpoint run (lvl : nat) (c : cfg) (s : state) (h : list event) : option state :=
  match h with
  | [] => Some s
  | e :: h' => match step lvl c s e with Some s' => run lvl c s' h' | None => None end
  end.

Definition accept (lvl : nat) (c : cfg) (h : list event) : bool :=
  match run lvl c init h with Some _ => true | None => false end.

(* for the harness: index of the first rejected event and the failing guard *)
Fixpoint run_diag (lvl : nat) (c : cfg) (s : state) (h : list event) (i : nat) : state * option (nat * nat) :=
  match h with
  | [] => (s, None)
  | e :: h' =>
      match step lvl c s e with
      | Some s' => run_diag lvl c s' h' (S i)
      | None => (s, Some (i, diag lvl c s e))
      end
  end.

(* the run is over and nothing can happen any more *)
Definition terminal (c : cfg) (s : state) : bool :=
  match ph (Rn s 0) with POver => true | _ => false end
  && quiescent c s
  && match minN (deadlines c s) with None => true | Some _ => false end.
