"""Known finding F11 (property C10, last sentence), standalone demonstration on the real event loop.

Tree:  root(jobs_window=1){ m{ a: 0.2 s, b: 0.2 s } }     m critical, no window / timeout / forever job
of its own.   Flattened graph: root(jobs_window=1){ a, b }.

Nested: m holds the only slot of the root and both its jobs run side by side, from 0 to 0.2 s (C07: a
nested scheduler counts as one job of its parent, its own window applies to its own jobs only).
Flattened: a and b each need the slot: one runs from 0 to 0.2 s, the other from 0.2 s to 0.4 s.

Exit status 1 when the divergence is observed (it is, on the pinned tree), 0 otherwise."""
import asyncio
import os
import sys
import time

sys.path.insert(0, os.environ.get("VERIF_REPO", "/repo"))
from asynciojobs import AbstractJob, Scheduler     # noqa: E402

U = 0.2
LOG = []
T0 = [0.0]


class J(AbstractJob):
    def __init__(self, name, dur, **kw):
        self.name, self.dur = name, dur
        super().__init__(label=name, **kw)

    async def co_run(self):
        start = round((time.time() - T0[0]) / U)
        await asyncio.sleep(self.dur)
        LOG.append((start, round((time.time() - T0[0]) / U)))

    async def co_shutdown(self):
        pass


def run(nested):
    LOG.clear()
    a, b = J("a", U), J("b", U)
    if nested:
        top = Scheduler(Scheduler(a, b, critical=True, label="m"), critical=True, label="root", jobs_window=1)
    else:
        top = Scheduler(a, b, critical=True, label="root", jobs_window=1)
    T0[0] = time.time()
    out = asyncio.new_event_loop().run_until_complete(top.co_run())
    return out, sorted(LOG)


def main():
    n_out, n_log = run(True)
    f_out, f_log = run(False)
    print("nested tree     (start, end) of the two jobs:", n_out, n_log)
    print("flattened graph (start, end) of the two jobs:", f_out, f_log)
    same = (n_out, n_log) == (f_out, f_log)
    print("same times" if same else "DIFFERENT: side by side in the nested tree, one after the other in the flattened graph")
    return 0 if same else 1


if __name__ == "__main__":
    sys.exit(main())
