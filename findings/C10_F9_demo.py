"""Known finding F9 (property C10, last sentence), standalone demonstration on the real event loop.

Tree:  root{ m1{ x: critical, raises at 0.2 s ; z: 1 s, its cancellation handler takes 0.4 s },
             m2{ y: critical, raises at 0.4 s } }      m1, m2 critical, no window / timeout / forever job.
Flattened graph: root{ x, z, y }.

In the flattened graph x's failure aborts the root at 0.2 s: y is cancelled at 0.2 s and run() raises
x's exception.  In the nested tree m1 must first finish cancelling z (until 0.6 s) before its own run
ends and the root notices; meanwhile y keeps running, raises at 0.4 s, m2 ends at once and the root
aborts at 0.4 s with y's exception.  So job y does not "run at the same times as in the flattened
graph" although m1 and m2 are critical nested schedulers without window, timeout or forever jobs.

Exit status 1 when the divergence is observed (it is, on the pinned tree), 0 otherwise."""
import asyncio
import os
import sys
import time

sys.path.insert(0, os.environ.get("VERIF_REPO", "/repo"))
from asynciojobs import AbstractJob, Scheduler     # noqa: E402

U = 0.2
LOG = []
T0 = [0.0]


class Boom(Exception):
    pass


class J(AbstractJob):
    def __init__(self, name, dur, raises=False, cdur=0.0, **kw):
        self.name, self.dur, self.raises, self.cdur = name, dur, raises, cdur
        super().__init__(label=name, **kw)

    async def co_run(self):
        try:
            await asyncio.sleep(self.dur)
        except asyncio.CancelledError:
            if self.cdur:
                try:
                    await asyncio.sleep(self.cdur)
                except asyncio.CancelledError:
                    pass
            LOG.append((self.name, "cancelled", round((time.time() - T0[0]) / U)))
            raise
        if self.raises:
            LOG.append((self.name, "raised", round((time.time() - T0[0]) / U)))
            raise Boom(self.name)
        LOG.append((self.name, "returned", round((time.time() - T0[0]) / U)))

    async def co_shutdown(self):
        pass


def run(nested):
    LOG.clear()
    x = J("x", 1 * U, raises=True, critical=True)
    z = J("z", 5 * U, cdur=2 * U)
    y = J("y", 2 * U, raises=True, critical=True)
    if nested:
        top = Scheduler(Scheduler(x, z, critical=True, label="m1"), Scheduler(y, critical=True, label="m2"),
                        critical=True, label="root")
    else:
        top = Scheduler(x, z, y, critical=True, label="root")
    T0[0] = time.time()
    try:
        asyncio.new_event_loop().run_until_complete(top.co_run())
        out = "returned"
    except Boom as exc:
        out = "raised the exception of " + str(exc)
    return out, sorted(LOG)


def main():
    n_out, n_log = run(True)
    f_out, f_log = run(False)
    print("nested tree    :", n_out, n_log)
    print("flattened graph:", f_out, f_log)
    same = (n_out, n_log) == (f_out, f_log)
    print("same times and outcome" if same else "DIFFERENT: the nested tree does not run every job as the flattened graph does")
    return 0 if same else 1


if __name__ == "__main__":
    sys.exit(main())
