"""Known finding F10 (property C10, last sentence), standalone demonstration on the real event loop.

Tree:  root{ m{ x: 0.2 s, its co_shutdown() takes 0.4 s }, y requires m (0.2 s) }     m critical, no
window / timeout / forever job, nothing fails.   Flattened graph: root{ x, y requires x }.

Nested: m's run ends only after the shutdown phase of its own jobs (C13), at 0.6 s, so y runs from
0.6 s to 0.8 s.  Flattened: y runs from 0.2 s to 0.4 s and x's handler runs at the end of the root's run.
So y does not "run at the same times as in the flattened graph".

Exit status 1 when the divergence is observed (it is, on the pinned tree), 0 otherwise."""
import asyncio
import os
import sys
import time

sys.path.insert(0, os.environ.get("VERIF_REPO", "/repo"))
from asynciojobs import AbstractJob, Scheduler     # noqa: E402

U = 0.2
LOG = []
T0 = [0.0]


class J(AbstractJob):
    def __init__(self, name, dur, sdur=0.0, **kw):
        self.name, self.dur, self.sdur = name, dur, sdur
        super().__init__(label=name, **kw)

    async def co_run(self):
        LOG.append((self.name, "starts", round((time.time() - T0[0]) / U)))
        await asyncio.sleep(self.dur)
        LOG.append((self.name, "ends", round((time.time() - T0[0]) / U)))

    async def co_shutdown(self):
        if self.sdur:
            await asyncio.sleep(self.sdur)


def run(nested):
    LOG.clear()
    x = J("x", 1 * U, sdur=2 * U)
    if nested:
        m = Scheduler(x, critical=True, label="m", shutdown_timeout=5)
        y = J("y", 1 * U, required=m)
        top = Scheduler(m, y, critical=True, label="root", shutdown_timeout=5)
    else:
        y = J("y", 1 * U, required=x)
        top = Scheduler(x, y, critical=True, label="root", shutdown_timeout=5)
    T0[0] = time.time()
    out = asyncio.new_event_loop().run_until_complete(top.co_run())
    return out, sorted(LOG)


def main():
    n_out, n_log = run(True)
    f_out, f_log = run(False)
    print("nested tree    :", n_out, n_log)
    print("flattened graph:", f_out, f_log)
    same = (n_out, n_log) == (f_out, f_log)
    print("same times" if same else "DIFFERENT: y starts later in the nested tree than in the flattened graph")
    return 0 if same else 1


if __name__ == "__main__":
    sys.exit(main())
