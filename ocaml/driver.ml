(* Driver for the extracted models: one case per input line (space separated non-negative
   integers), one result line per case.  The only logic here is int <-> Coq N conversion. *)
open Model

let rec pos_of_int (n : int) : positive =
  if n = 1 then XH
  else if n land 1 = 0 then XO (pos_of_int (n lsr 1))
  else XI (pos_of_int (n lsr 1))

let n_of_int (n : int) : n = if n = 0 then N0 else Npos (pos_of_int n)

let rec int_of_pos (p : positive) : int =
  match p with
  | XH -> 1
  | XO q -> 2 * int_of_pos q
  | XI q -> 2 * int_of_pos q + 1

let int_of_n (x : n) : int = match x with N0 -> 0 | Npos p -> int_of_pos p

let () =
  let buf = Buffer.create 65536 in
  try
    while true do
      let line = input_line stdin in
      let toks = String.split_on_char ' ' line in
      let ints = List.filter_map (fun t -> if t = "" then None else Some (int_of_string t)) toks in
      (* a case with a negative or absurdly large number is not a case: answer "0" (undecodable)
         rather than building a unary number of that size *)
      let sane = List.for_all (fun n -> n >= 0 && n < 100_000_000) ints in
      let out = if sane then run_case (List.map n_of_int ints) else [N0] in
      Buffer.clear buf;
      List.iter
        (fun x ->
          Buffer.add_string buf (string_of_int (int_of_n x));
          Buffer.add_char buf ' ')
        out;
      print_endline (Buffer.contents buf)
    done
  with End_of_file -> ()
